import BufModel.Path
/-
  Helper lemmas about the path model: splitSlash/joinSlash inverse laws, the shape of
  `reduce`, idempotence of `clean` on rendered keys, `dir`, `join` on keys.
-/
namespace BufModel.Path

theorem splitSlash_ne_nil (s : Str) : splitSlash s ≠ [] := by
  induction s with
  | nil => simp [splitSlash]
  | cons c cs ih =>
    unfold splitSlash
    split
    · simp
    · split <;> simp

theorem splitSlash_no_slash (s : Str) : ∀ c ∈ splitSlash s, '/' ∉ c := by
  induction s with
  | nil => simp [splitSlash]
  | cons c cs ih =>
    unfold splitSlash
    split
    · intro x hx
      simp at hx
      rcases hx with rfl | hx
      · simp
      · exact ih x hx
    · rename_i hc
      split
      · intro x hx; simp at hx; subst hx; simp; exact fun h => hc h.symm
      · rename_i h t heq
        intro x hx
        simp at hx
        rcases hx with rfl | hx
        · have := ih h (by rw [heq]; simp)
          simp; exact ⟨fun h => hc h.symm, this⟩
        · exact ih x (by rw [heq]; simp [hx])

def AllProper (ns : List Comp) : Prop := ∀ n ∈ ns, Proper n

theorem splitSlash_cons_slash (cs : Str) : splitSlash ('/' :: cs) = [] :: splitSlash cs := by
  simp [splitSlash]

theorem splitSlash_cons_ne (c : Char) (cs : Str) (h : c ≠ '/') (hd : Comp) (tl : List Comp)
    (heq : splitSlash cs = hd :: tl) : splitSlash (c :: cs) = (c :: hd) :: tl := by
  rw [splitSlash]; simp [h, heq]

theorem splitSlash_comp (c : Comp) (h : '/' ∉ c) : splitSlash c = [c] := by
  induction c with
  | nil => simp [splitSlash]
  | cons x xs ih =>
    simp at h
    have hx : x ≠ '/' := fun e => h.1 e.symm
    exact splitSlash_cons_ne x xs hx xs [] (ih h.2)

theorem splitSlash_append_slash (c : Comp) (h : '/' ∉ c) (rest : Str) :
    splitSlash (c ++ '/' :: rest) = c :: splitSlash rest := by
  induction c with
  | nil => simp [splitSlash_cons_slash]
  | cons x xs ih =>
    simp at h
    have hx : x ≠ '/' := fun e => h.1 e.symm
    exact splitSlash_cons_ne x (xs ++ '/' :: rest) hx xs (splitSlash rest) (ih h.2)

theorem splitSlash_joinSlash (ns : List Comp) (hne : ns ≠ []) (h : ∀ n ∈ ns, '/' ∉ n) :
    splitSlash (joinSlash ns) = ns := by
  induction ns with
  | nil => exact absurd rfl hne
  | cons n rest ih =>
    cases rest with
    | nil => simp [joinSlash]; exact splitSlash_comp n (h n (by simp))
    | cons r rs =>
      simp only [joinSlash]
      rw [splitSlash_append_slash n (h n (by simp))]
      rw [ih (by simp) (fun x hx => h x (by simp [hx]))]


/-! ### Shape of `reduce` -/

/-- Invariant of the (reversed) reduction stack: proper names on top of `k` leading "..",
    and no ".." at all when rooted. -/
def StackOK (rooted : Bool) (st : List Comp) : Prop :=
  ∃ (k : Nat) (names : List Comp), st = names ++ List.replicate k dotdot ∧ AllProper names ∧
    (rooted = true → k = 0)

theorem proper_ne_dotdot {c : Comp} (h : Proper c) : c ≠ dotdot := h.2.2.1

theorem allProper_nil : AllProper [] := by intro _ h; cases h

theorem allProper_cons {n : Comp} {ns : List Comp} : AllProper (n :: ns) ↔ Proper n ∧ AllProper ns := by
  unfold AllProper; simp

theorem allProper_append {a b : List Comp} : AllProper (a ++ b) ↔ AllProper a ∧ AllProper b := by
  unfold AllProper; simp; constructor
  · intro h; exact ⟨fun n hn => h n (Or.inl hn), fun n hn => h n (Or.inr hn)⟩
  · intro h n hn; rcases hn with hn | hn; exact h.1 n hn; exact h.2 n hn

theorem dotdot_ne_nil : dotdot ≠ [] := by decide
theorem dotdot_ne_dot : dotdot ≠ dot := by decide

theorem reduceStep_ok (rooted : Bool) (st : List Comp) (c : Comp) (hc : '/' ∉ c)
    (h : StackOK rooted st) : StackOK rooted (reduceStep rooted st c) := by
  obtain ⟨k, names, rfl, hp, hr⟩ := h
  unfold reduceStep
  by_cases h1 : c = []
  · rw [if_pos h1]; exact ⟨k, names, rfl, hp, hr⟩
  rw [if_neg h1]
  by_cases h2 : c = dot
  · rw [if_pos h2]; exact ⟨k, names, rfl, hp, hr⟩
  rw [if_neg h2]
  by_cases h3 : c = dotdot
  · rw [if_pos h3]
    cases names with
    | nil =>
      cases k with
      | zero =>
        cases rooted with
        | true => exact ⟨0, [], rfl, allProper_nil, fun _ => rfl⟩
        | false => exact ⟨1, [], rfl, allProper_nil, by simp⟩
      | succ k =>
        refine ⟨k + 2, [], ?_, allProper_nil, ?_⟩
        · simp [List.replicate_succ]
        · intro hr'; have := hr hr'; omega
    | cons n ns =>
      have hn : n ≠ dotdot := proper_ne_dotdot (hp n (by simp))
      simp only [List.cons_append, if_neg hn]
      exact ⟨k, ns, rfl, fun x hx => hp x (by simp [hx]), hr⟩
  · rw [if_neg h3]
    refine ⟨k, c :: names, by simp, ?_, hr⟩
    intro x hx
    simp at hx
    rcases hx with rfl | hx
    · exact ⟨h1, h2, h3, hc⟩
    · exact hp x hx

theorem foldl_reduceStep_ok (rooted : Bool) (cs : List Comp) (hcs : ∀ c ∈ cs, '/' ∉ c)
    (st : List Comp) (h : StackOK rooted st) : StackOK rooted (cs.foldl (reduceStep rooted) st) := by
  induction cs generalizing st with
  | nil => simpa
  | cons c cs ih =>
    simp only [List.foldl]
    exact ih (fun x hx => hcs x (by simp [hx])) _ (reduceStep_ok rooted st c (hcs c (by simp)) h)

/-- After reduction a path is `k` copies of ".." followed by proper names; rooted paths have
    no ".." at all. -/
theorem reduce_shape (rooted : Bool) (cs : List Comp) (hcs : ∀ c ∈ cs, '/' ∉ c) :
    ∃ (k : Nat) (names : List Comp), reduce rooted cs = List.replicate k dotdot ++ names ∧
      AllProper names ∧ (rooted = true → k = 0) := by
  have := foldl_reduceStep_ok rooted cs hcs [] ⟨0, [], rfl, allProper_nil, fun _ => rfl⟩
  obtain ⟨k, names, heq, hp, hr⟩ := this
  refine ⟨k, names.reverse, ?_, ?_, hr⟩
  · unfold reduce; rw [heq]; simp
  · intro x hx; exact hp x (by simpa using hx)


/-! ### normalizeAndValidate is sound -/

theorem isAbs_cons_slash (s : Str) : isAbs ('/' :: s) = true := by simp [isAbs]

theorem joinSlash_cons_cons (a b : Comp) (rest : List Comp) :
    joinSlash (a :: b :: rest) = a ++ '/' :: joinSlash (b :: rest) := rfl

/-- Every accepted path is "." or a '/'-joined list of proper names: no "..", ".", empty or
    separator-bearing component survives validation. -/
theorem validate_sound (s p : Str) (h : normalizeAndValidate s = .ok p) :
    ∃ ns : Key, AllProper ns ∧ p = renderKey ns := by
  unfold normalizeAndValidate at h
  simp only at h
  split at h
  · cases h
  · rename_i hab
    split at h
    · cases h
    · rename_i hjump
      injection h with h
      subst h
      obtain ⟨k, names, heq, hp, hr⟩ := reduce_shape (isAbs s) (splitSlash s) (splitSlash_no_slash s)
      cases hs : isAbs s with
      | true =>
        exfalso; apply hab
        unfold clean render; rw [hs]; simp [isAbs]
      | false =>
        rw [hs] at heq
        have hc : clean s = render false (List.replicate k dotdot ++ names) := by
          unfold clean; rw [hs, heq]
        cases k with
        | zero =>
          refine ⟨names, hp, ?_⟩
          rw [hc]; simp [renderKey]
        | succ k =>
          exfalso; apply hjump
          rw [hc]
          simp only [List.replicate_succ, List.cons_append, render]
          cases hrest : List.replicate k dotdot ++ names with
          | nil => simp [joinSlash, dotdot]
          | cons r rs =>
            simp [joinSlash_cons_cons, dotdot, jumpPrefix, List.isPrefixOf]


/-! ### Keys: rendering proper-name lists and how the path functions act on them -/

theorem proper_no_slash {c : Comp} (h : Proper c) : '/' ∉ c := h.2.2.2
theorem proper_ne_nil {c : Comp} (h : Proper c) : c ≠ [] := h.1
theorem proper_ne_dot {c : Comp} (h : Proper c) : c ≠ dot := h.2.1

/-- Folding `reduceStep` over components that are proper, "." or empty just pushes the proper
    ones. -/
theorem foldl_reduceStep_plain (rooted : Bool) (cs : List Comp)
    (h : ∀ c ∈ cs, Proper c ∨ c = dot ∨ c = []) (st : List Comp) :
    cs.foldl (reduceStep rooted) st = (cs.filter (fun c => decide (Proper c))).reverse ++ st := by
  induction cs generalizing st with
  | nil => simp
  | cons c cs ih =>
    simp only [List.foldl]
    rw [ih (fun x hx => h x (by simp [hx]))]
    rcases h c (by simp) with hp | hd | he
    · have : reduceStep rooted st c = c :: st := by
        unfold reduceStep
        rw [if_neg hp.1, if_neg hp.2.1, if_neg hp.2.2.1]
      rw [this]; simp [List.filter, hp]
    · subst hd
      have : reduceStep rooted st dot = st := by
        unfold reduceStep; rw [if_neg (by decide), if_pos rfl]
      have hnp : ¬ Proper dot := fun h => h.2.1 rfl
      rw [this]; simp [List.filter, hnp]
    · subst he
      have : reduceStep rooted st [] = st := by unfold reduceStep; rw [if_pos rfl]
      have hnp : ¬ Proper ([] : Comp) := fun h => h.1 rfl
      rw [this]; simp [List.filter, hnp]

theorem reduce_plain (rooted : Bool) (cs : List Comp) (h : ∀ c ∈ cs, Proper c ∨ c = dot ∨ c = []) :
    reduce rooted cs = cs.filter (fun c => decide (Proper c)) := by
  unfold reduce; rw [foldl_reduceStep_plain rooted cs h]; simp

theorem filter_proper_of_allProper {ns : List Comp} (h : AllProper ns) :
    ns.filter (fun c => decide (Proper c)) = ns := by
  apply List.filter_eq_self.mpr
  intro a ha; simpa using h a ha

theorem joinSlash_head_of_proper {n : Comp} {ns : List Comp} (h : Proper n) :
    ∃ c t, joinSlash (n :: ns) = c :: t ∧ c ≠ '/' := by
  cases n with
  | nil => exact absurd rfl h.1
  | cons c t =>
    have hc : c ≠ '/' := by
      intro e; apply h.2.2.2; simp [e]
    cases ns with
    | nil => exact ⟨c, t, rfl, hc⟩
    | cons m ms => exact ⟨c, _, rfl, hc⟩

theorem isAbs_renderKey {ns : Key} (h : AllProper ns) : isAbs (renderKey ns) = false := by
  cases ns with
  | nil => decide
  | cons n rest =>
    obtain ⟨c, t, heq, hc⟩ := joinSlash_head_of_proper (ns := rest) (h n (by simp))
    simp [renderKey, render, heq, isAbs, hc]

theorem renderKey_cons (n : Comp) (ns : List Comp) : renderKey (n :: ns) = joinSlash (n :: ns) := by
  simp [renderKey, render]

theorem renderKey_nil : renderKey [] = dot := by simp [renderKey, render]

theorem splitSlash_renderKey_cons {n : Comp} {ns : List Comp} (h : AllProper (n :: ns)) :
    splitSlash (renderKey (n :: ns)) = n :: ns := by
  rw [renderKey_cons]
  exact splitSlash_joinSlash _ (by simp) (fun x hx => proper_no_slash (h x hx))

/-- `clean` is the identity on rendered keys. -/
theorem clean_renderKey {ns : Key} (h : AllProper ns) : clean (renderKey ns) = renderKey ns := by
  cases ns with
  | nil => decide
  | cons n rest =>
    unfold clean
    rw [isAbs_renderKey h, splitSlash_renderKey_cons h]
    rw [reduce_plain false _ (fun c hc => Or.inl (h c hc)), filter_proper_of_allProper h]
    rfl

/-- Rendered keys are distinct for distinct keys. -/
theorem renderKey_inj {a b : Key} (ha : AllProper a) (hb : AllProper b)
    (h : renderKey a = renderKey b) : a = b := by
  have hsplit : ∀ {k : Key}, AllProper k → splitSlash (renderKey k) = if k = [] then [dot] else k := by
    intro k hk
    cases k with
    | nil => decide
    | cons n ns => simp [splitSlash_renderKey_cons hk]
  have h1 := hsplit ha
  have h2 := hsplit hb
  rw [h] at h1
  rw [h1] at h2
  cases a with
  | nil =>
    cases b with
    | nil => rfl
    | cons n ns =>
      simp at h2
      exfalso; exact proper_ne_dot (hb n (by simp)) h2.1.symm
  | cons m ms =>
    cases b with
    | nil =>
      simp at h2
      exfalso; exact proper_ne_dot (ha m (by simp)) h2.1
    | cons n ns => simpa using h2

theorem splitSlash_append (x y : Str) :
    splitSlash (x ++ '/' :: y) = splitSlash x ++ splitSlash y := by
  induction x with
  | nil => simp [splitSlash_cons_slash, splitSlash]
  | cons c cs ih =>
    by_cases hc : c = '/'
    · subst hc
      show splitSlash ('/' :: (cs ++ '/' :: y)) = _
      rw [splitSlash_cons_slash, splitSlash_cons_slash, ih]; simp
    · cases hs : splitSlash cs with
      | nil => exact absurd hs (splitSlash_ne_nil cs)
      | cons hd tl =>
        rw [splitSlash_cons_ne c cs hc hd tl hs]
        show splitSlash (c :: (cs ++ '/' :: y)) = _
        rw [splitSlash_cons_ne c (cs ++ '/' :: y) hc hd (tl ++ splitSlash y) (by rw [ih, hs]; simp)]
        simp

theorem renderKey_ne_nil {k : Key} (h : AllProper k) : renderKey k ≠ [] := by
  cases k with
  | nil => decide
  | cons n ns =>
    obtain ⟨c, t, heq, _⟩ := joinSlash_head_of_proper (ns := ns) (h n (by simp))
    rw [renderKey_cons, heq]; simp

theorem splitSlash_renderKey_plain {k : Key} (h : AllProper k) :
    ∀ c ∈ splitSlash (renderKey k), Proper c ∨ c = dot ∨ c = [] := by
  cases k with
  | nil => intro c hc; have : c = dot := by simpa [renderKey_nil, dot, splitSlash] using hc
           exact Or.inr (Or.inl this)
  | cons n ns => rw [splitSlash_renderKey_cons h]; intro c hc; exact Or.inl (h c hc)

theorem filter_splitSlash_renderKey {k : Key} (h : AllProper k) :
    (splitSlash (renderKey k)).filter (fun c => decide (Proper c)) = k := by
  cases k with
  | nil => decide
  | cons n ns => rw [splitSlash_renderKey_cons h]; exact filter_proper_of_allProper h

theorem isAbs_append_of_renderKey {k : Key} (h : AllProper k) (rest : Str) :
    isAbs (renderKey k ++ rest) = false := by
  cases k with
  | nil => simp [renderKey_nil, dot, isAbs]
  | cons n ns =>
    obtain ⟨c, t, heq, hc⟩ := joinSlash_head_of_proper (ns := ns) (h n (by simp))
    rw [renderKey_cons, heq]; simp [isAbs, hc]

/-- `Join(prefix, path)` of two keys is the key of the concatenation. -/
theorem join_keys {a b : Key} (ha : AllProper a) (hb : AllProper b) :
    join [renderKey a, renderKey b] = renderKey (a ++ b) := by
  unfold join
  have hna := renderKey_ne_nil ha
  have hnb := renderKey_ne_nil hb
  simp only [List.filter, hna, hnb, ne_eq, not_false_eq_true, decide_true]
  show clean (renderKey a ++ '/' :: renderKey b) = _
  unfold clean
  rw [isAbs_append_of_renderKey ha, splitSlash_append]
  rw [reduce_plain false _ (by
    intro c hc
    rcases List.mem_append.mp hc with hc | hc
    · exact splitSlash_renderKey_plain ha c hc
    · exact splitSlash_renderKey_plain hb c hc)]
  rw [List.filter_append, filter_splitSlash_renderKey ha, filter_splitSlash_renderKey hb]
  rfl


/-! ### dir / equalsOrContainsPath / rel on keys -/

theorem joinSlash_append_singleton_nil (ns : List Comp) (hne : ns ≠ []) :
    joinSlash (ns ++ [[]]) = joinSlash ns ++ ['/'] := by
  induction ns with
  | nil => exact absurd rfl hne
  | cons n rest ih =>
    cases rest with
    | nil => simp [joinSlash]
    | cons r rs =>
      have := ih (by simp)
      simp only [List.cons_append, joinSlash] at this ⊢
      rw [this]; simp

/-- `Dir` of a key with at least one component drops the last component. -/
theorem dir_renderKey_snoc {ns : Key} {n : Comp} (h : AllProper (ns ++ [n])) :
    dir (renderKey (ns ++ [n])) = renderKey ns := by
  have hns : AllProper ns := (allProper_append.mp h).1
  unfold dir splitDir
  have hsplit : splitSlash (renderKey (ns ++ [n])) = ns ++ [n] := by
    cases ns with
    | nil => exact splitSlash_renderKey_cons (n := n) (ns := []) h
    | cons m ms => exact splitSlash_renderKey_cons (n := m) (ns := ms ++ [n]) h
  rw [hsplit]
  have hne : ns ++ [n] ≠ [] := by simp
  cases hh : ns ++ [n] with
  | nil => exact absurd hh hne
  | cons x xs =>
    simp only
    rw [← hh, List.dropLast_concat]
    cases ns with
    | nil =>
      simp [joinSlash]
      decide
    | cons m ms =>
      rw [joinSlash_append_singleton_nil _ (by simp)]
      have hk : joinSlash (m :: ms) = renderKey (m :: ms) := (renderKey_cons m ms).symm
      rw [hk]
      unfold clean
      rw [isAbs_append_of_renderKey hns]
      have : renderKey (m :: ms) ++ ['/'] = renderKey (m :: ms) ++ '/' :: [] := rfl
      rw [this, splitSlash_append]
      rw [reduce_plain false _ (by
        intro c hc
        rcases List.mem_append.mp hc with hc | hc
        · exact splitSlash_renderKey_plain hns c hc
        · simp [splitSlash] at hc; exact Or.inr (Or.inr hc))]
      rw [List.filter_append, filter_splitSlash_renderKey hns]
      have hf : List.filter (fun c => decide (Proper c)) (splitSlash []) = [] := by
        simp [splitSlash, List.filter, Proper]
      rw [hf]; simp [renderKey]

theorem renderKey_ne_dot {k : Key} (h : AllProper k) (hne : k ≠ []) : renderKey k ≠ dot := by
  intro e
  have := renderKey_inj h allProper_nil (by rw [e, renderKey_nil])
  exact hne this

theorem list_snoc_induction {α : Type} {P : List α → Prop} (hnil : P [])
    (hsnoc : ∀ l a, P l → P (l ++ [a])) : ∀ l, P l := by
  have : ∀ l : List α, P l.reverse := by
    intro l
    induction l with
    | nil => simpa
    | cons a t ih => rw [List.reverse_cons]; exact hsnoc _ _ ih
  intro l; simpa using this l.reverse

theorem ecpLoop_keys {a : Key} (ha : AllProper a) (hane : a ≠ []) :
    ∀ (b : Key), AllProper b → ∀ fuel, b.length < fuel →
      (ecpLoop (renderKey a) fuel (renderKey b) = true ↔ a <+: b) := by
  intro b
  induction b using list_snoc_induction with
  | hnil =>
    intro _ fuel hf
    cases fuel with
    | zero => omega
    | succ f =>
      simp [ecpLoop, renderKey_nil]
      exact hane
  | hsnoc b' n ih =>
    intro hb fuel hf
    have hb' : AllProper b' := (allProper_append.mp hb).1
    cases fuel with
    | zero => omega
    | succ f =>
      have hnd : renderKey (b' ++ [n]) ≠ dot := renderKey_ne_dot hb (by simp)
      rw [ecpLoop, if_neg hnd]
      by_cases heq : renderKey a = renderKey (b' ++ [n])
      · rw [if_pos heq]
        have := renderKey_inj ha hb heq
        simp [this]
      · rw [if_neg heq, dir_renderKey_snoc hb]
        have hlen : b'.length < f := by simp at hf; omega
        rw [ih hb' f hlen]
        rw [List.prefix_concat_iff]
        constructor
        · intro h; exact Or.inr h
        · intro h
          rcases h with h | h
          · exfalso; apply heq; rw [h]
          · exact h

theorem length_renderKey_ge {k : Key} (h : AllProper k) : k.length ≤ (renderKey k).length := by
  induction k with
  | nil => simp
  | cons n ns ih =>
    have hn : n ≠ [] := proper_ne_nil (h n (by simp))
    have hl : 1 ≤ n.length := by
      cases n with
      | nil => exact absurd rfl hn
      | cons _ _ => simp
    cases ns with
    | nil => simp [renderKey, render, joinSlash]; exact hl
    | cons m ms =>
      have := ih (fun x hx => h x (by simp [hx]))
      simp only [renderKey_cons, joinSlash, List.length_append, List.length_cons] at this ⊢
      omega

/-- On keys, `EqualsOrContainsPath` is exactly the component-wise prefix relation
    (path-wise, not string-wise). -/
theorem ecp_keys {a b : Key} (ha : AllProper a) (hb : AllProper b) :
    equalsOrContainsPath (renderKey a) (renderKey b) = true ↔ a <+: b := by
  unfold equalsOrContainsPath
  by_cases hane : a = []
  · subst hane; simp [renderKey_nil]
  · rw [if_neg (renderKey_ne_dot ha hane)]
    exact ecpLoop_keys ha hane b hb _ (by have := length_renderKey_ge hb; omega)

theorem cleanComps_renderKey {k : Key} (h : AllProper k) : cleanComps (renderKey k) = k := by
  cases k with
  | nil => decide
  | cons n ns =>
    unfold cleanComps
    rw [if_neg (renderKey_ne_dot h (by simp)), isAbs_renderKey h]
    simp only [Bool.false_eq_true, if_false]
    rw [splitSlash_renderKey_cons h]
    apply List.filter_eq_self.mpr
    intro c hc
    simpa using proper_ne_nil (h c hc)

theorem stripCommon_prefix (p k : List Comp) : stripCommon p (p ++ k) = ([], k) := by
  induction p with
  | nil => cases k <;> simp [stripCommon]
  | cons x xs ih => simp [stripCommon, ih]

/-- prefixMapper.UnmapFullPath on keys: `Rel(prefix, prefix/k) = k`. -/
theorem rel_keys {p k : Key} (hp : AllProper p) (hk : AllProper k) :
    rel (renderKey p) (renderKey (p ++ k)) = some (renderKey k) := by
  have hpk : AllProper (p ++ k) := allProper_append.mpr ⟨hp, hk⟩
  unfold rel
  simp only [clean_renderKey hp, clean_renderKey hpk]
  by_cases hk0 : k = []
  · subst hk0; simp [renderKey_nil]
  · have hne : renderKey p ≠ renderKey (p ++ k) := by
      intro e
      have := renderKey_inj hp hpk e
      have : p.length = (p ++ k).length := by rw [← this]
      simp at this; exact hk0 this
    rw [if_neg hne, isAbs_renderKey hp, isAbs_renderKey hpk]
    simp only [bne_self_eq_false, Bool.false_eq_true, if_false]
    rw [cleanComps_renderKey hp, cleanComps_renderKey hpk, stripCommon_prefix]
    simp [renderKey, render, hk0]


/-! ### Validation accepts exactly-rendered keys -/

theorem dotdot_not_proper : ¬ Proper dotdot := fun h => h.2.2.1 rfl

theorem renderKey_not_jump {k : Key} (h : AllProper k) :
    renderKey k ≠ dotdot ∧ jumpPrefix.isPrefixOf (renderKey k) = false := by
  cases k with
  | nil => decide
  | cons n ns =>
    have hs := splitSlash_renderKey_cons h
    constructor
    · intro e
      rw [e] at hs
      have : splitSlash dotdot = [dotdot] := by decide
      rw [this] at hs
      have : n = dotdot := by simpa using (List.cons.inj hs).1.symm
      exact dotdot_not_proper (this ▸ h n (by simp))
    · cases hj : jumpPrefix.isPrefixOf (renderKey (n :: ns)) with
      | false => rfl
      | true =>
        exfalso
        have hp : jumpPrefix <+: renderKey (n :: ns) := List.isPrefixOf_iff_prefix.mp hj
        obtain ⟨t, ht⟩ := hp
        have : renderKey (n :: ns) = dotdot ++ '/' :: t := by rw [← ht]; rfl
        rw [this, splitSlash_append] at hs
        have hd : splitSlash dotdot = [dotdot] := by decide
        rw [hd] at hs
        have : n = dotdot := by simpa using (List.cons.inj hs).1.symm
        exact dotdot_not_proper (this ▸ h n (by simp))

theorem validate_renderKey {k : Key} (h : AllProper k) :
    normalizeAndValidate (renderKey k) = .ok (renderKey k) := by
  unfold normalizeAndValidate
  simp only [clean_renderKey h, isAbs_renderKey h]
  obtain ⟨h1, h2⟩ := renderKey_not_jump h
  simp [h1, h2]

theorem validatePath_renderKey {k : Key} (h : AllProper k) (hne : k ≠ []) :
    validatePath (renderKey k) = .ok (renderKey k) := by
  unfold validatePath
  rw [validate_renderKey h]
  simp [renderKey_ne_dot h hne]

/-- validatePath accepts `s` only as a non-empty key. -/
theorem validatePath_sound (s p : Str) (h : validatePath s = .ok p) :
    ∃ k : Key, AllProper k ∧ k ≠ [] ∧ p = renderKey k ∧ normalizeAndValidate s = .ok p := by
  unfold validatePath at h
  cases hv : normalizeAndValidate s with
  | error e => rw [hv] at h; cases h
  | ok q =>
    rw [hv] at h
    simp only at h
    split at h
    · cases h
    · rename_i hnd
      injection h with h; subst h
      obtain ⟨k, hk, hq⟩ := validate_sound s q hv
      refine ⟨k, hk, ?_, hq, rfl⟩
      intro e; subst e; exact hnd (by rw [hq, renderKey_nil])


/-! ### Archive entry names -/

theorem join_comps {k : Key} (h : AllProper k) (hne : k ≠ []) : join k = renderKey k := by
  unfold join
  have hf : k.filter (fun x => decide (x ≠ [])) = k := by
    apply List.filter_eq_self.mpr
    intro c hc; simpa using proper_ne_nil (h c hc)
  rw [hf]
  cases k with
  | nil => exact absurd rfl hne
  | cons n ns =>
    simp only
    rw [← renderKey_cons, clean_renderKey h]

theorem components_renderKey {k : Key} (h : AllProper k) (hne : k ≠ []) : components (renderKey k) = k := by
  cases k with
  | nil => exact absurd rfl hne
  | cons n ns =>
    unfold components
    have h1 : renderKey (n :: ns) ≠ ['/'] := by
      intro e
      have := isAbs_renderKey h
      rw [e] at this; simp [isAbs] at this
    rw [if_neg h1, isAbs_renderKey h]
    simp only [Bool.false_eq_true, if_false]
    exact splitSlash_renderKey_cons h

theorem stripComponents_renderKey {k : Key} (h : AllProper k) (hne : k ≠ []) (n : Nat) (p : Str)
    (hs : stripComponents (renderKey k) n = some p) :
    ∃ k' : Key, AllProper k' ∧ k' ≠ [] ∧ p = renderKey k' ∧ k' = k.drop n := by
  unfold stripComponents at hs
  by_cases hn : n = 0
  · subst hn; simp at hs; exact ⟨k, h, hne, hs.symm, by simp⟩
  · rw [if_neg hn, components_renderKey h hne] at hs
    simp only at hs
    split at hs
    · cases hs
    · rename_i hlen
      injection hs with hs
      have hd : k.drop n ≠ [] := by
        intro e
        have := List.drop_eq_nil_iff.mp e
        omega
      have hdp : AllProper (k.drop n) := fun x hx => h x (List.mem_of_mem_drop hx)
      exact ⟨k.drop n, hdp, hd, by rw [← hs, join_comps hdp hd], rfl⟩

/-- An archive entry is only ever written to a non-empty key of proper names — a suffix of
    the validated entry name: "..", absolute and otherwise escaping names are rejected. -/
theorem unmapArchivePath_sound (name : Str) (n : Nat) (f : Str → Bool) (p : Str)
    (h : unmapArchivePath name n f = .ok (some p)) :
    ∃ kf k : Key, AllProper kf ∧ normalizeAndValidate name = .ok (renderKey kf) ∧
      AllProper k ∧ k ≠ [] ∧ p = renderKey k ∧ k = kf.drop n := by
  unfold unmapArchivePath at h
  split at h
  · cases h
  · cases hv : normalizeAndValidate name with
    | error e => rw [hv] at h; cases h
    | ok full =>
      rw [hv] at h
      simp only at h
      obtain ⟨kf, hkf, hfull⟩ := validate_sound name full hv
      split at h
      · cases h
      · rename_i hnd
        have hkne : kf ≠ [] := by
          intro e; subst e; exact hnd (by rw [hfull, renderKey_nil])
        cases hs : stripComponents full n with
        | none => rw [hs] at h; cases h
        | some q =>
          rw [hs] at h
          simp only at h
          split at h
          · injection h with h; injection h with h; subst h
            rw [hfull] at hs
            obtain ⟨k', h1, h2, h3, h4⟩ := stripComponents_renderKey hkf hkne n q hs
            exact ⟨kf, k', hkf, by rw [hfull], h1, h2, h3, h4⟩
          · cases h

end BufModel.Path
