import BufModel.Targeting
import BufProofs.Lemmas.GraphLemmas
/- helper lemmas for C01 -/
set_option linter.unusedSectionVars false
namespace BufModel.Targeting
open BufModel.Path BufModel.Graph

theorem checkAndSortFiles_ok {compiled roots sorted : List Str}
    (h : checkAndSortFiles compiled roots = .ok sorted) : sorted = roots := by
  unfold checkAndSortFiles at h
  split at h; · exact absurd h (by simp)
  split at h; · exact absurd h (by simp)
  split at h; · exact absurd h (by simp)
  split at h
  · injection h with h; exact h.symm
  · exact absurd h (by simp)

theorem newImage_ok {files fs : List ImgFile} (h : newImage files = .ok fs) : fs = files := by
  unfold newImage at h
  split at h; · exact absurd h (by simp)
  split at h
  · exact absurd h (by simp)
  · injection h with h; exact h.symm

/-- inversion of a successful `buildImage`. -/
theorem buildImage_ok {t : TWS} {c : Compiler} {perm : List Str → List Str} {img : List ImgFile}
    (h : buildImage t c perm = .ok img) :
    ∃ roots vis order, targetList t = .ok roots ∧
      dfsRoots (csucc t.ws c) ((allPaths t.ws).length + roots.length + 1) roots = .ok (vis, order) ∧
      isTopo (csucc t.ws c) [] order = true ∧
      newImage (order.map (mkImgFile t.ws c roots)) = .ok img ∧
      img = order.map (mkImgFile t.ws c roots) := by
  unfold buildImage at h
  split at h; · exact absurd h (by simp)
  rename_i roots hroots
  split at h
  · exact absurd h (by simp)
  · exact absurd h (by simp)
  · rename_i vis closure hdfs
    split at h; · exact absurd h (by simp)
    rename_i htopo
    split at h; · exact absurd h (by simp)
    rename_i sorted hsort
    have hs := checkAndSortFiles_ok hsort
    subst hs
    rw [hdfs] at h
    simp only at h
    refine ⟨sorted, vis, closure, hroots, hdfs, by simpa using htopo, h, newImage_ok h⟩

theorem mkImgFile_path (ws : WS) (c : Compiler) (r : List Str) (p : Str) : (mkImgFile ws c r p).path = p := rfl

theorem map_mk_path (ws : WS) (c : Compiler) (r : List Str) (l : List Str) :
    (l.map (mkImgFile ws c r)).map (·.path) = l := by
  induction l with
  | nil => rfl
  | cons x xs ih => simp [mkImgFile_path, ih]

/-- `isTopo` is sound: every listed node exists and its successors are listed strictly earlier. -/
theorem isTopo_sound {α : Type} [DecidableEq α] (succ : α → Option (List α)) :
    ∀ (l pre : List α), isTopo succ pre l = true →
      ∀ l1 x l2, l = l1 ++ x :: l2 → ∃ cs, succ x = some cs ∧ ∀ c ∈ cs, c ∈ pre ++ l1 := by
  intro l
  induction l with
  | nil => intro pre _ l1 x l2 h; simp at h
  | cons y ys ih =>
    intro pre h l1 x l2 hl
    simp only [isTopo, Bool.and_eq_true] at h
    obtain ⟨h1, h2⟩ := h
    cases l1 with
    | nil =>
      simp only [List.nil_append, List.cons.injEq] at hl
      obtain ⟨rfl, rfl⟩ := hl
      split at h1
      · exact absurd h1 (by simp)
      · rename_i cs hs
        refine ⟨cs, hs, ?_⟩
        intro c hc
        have := List.all_eq_true.mp h1 c hc
        simpa using this
    | cons z zs =>
      simp only [List.cons_append, List.cons.injEq] at hl
      obtain ⟨rfl, hl⟩ := hl
      obtain ⟨cs, hs, hc⟩ := ih (pre ++ [y]) h2 zs x l2 hl
      exact ⟨cs, hs, fun c hcc => by have := hc c hcc; simpa [List.append_assoc] using this⟩

/-- the dual: in an acyclic graph the DFS order passes the check (no spurious "import cycle"). -/
theorem ordFrom_acyclic_isTopo {α : Type} [DecidableEq α] (succ : α → Option (List α))
    (hac : ∀ x cs c, succ x = some cs → c ∈ cs → ¬ Reach succ c x) :
    ∀ (l pre : List α), (∀ x ∈ l, succ x ≠ none) → OrdFrom succ [] pre l → isTopo succ pre l = true := by
  intro l
  induction l with
  | nil => intros; rfl
  | cons y ys ih =>
    intro pre hex h
    obtain ⟨h1, h2⟩ := h
    simp only [isTopo, Bool.and_eq_true]
    refine ⟨?_, ih (pre ++ [y]) (fun x hx => hex x (List.mem_cons_of_mem _ hx)) h2⟩
    split
    · rename_i hn; exact absurd hn (hex y List.mem_cons_self)
    · rename_i cs hs
      apply List.all_eq_true.mpr
      intro c hc
      rcases h1 cs hs c hc with h | h | h
      · simp at h
      · simpa using h
      · exact absurd h (hac y cs c hs hc)

end BufModel.Targeting

namespace BufModel.Targeting
open BufModel.Path BufModel.Graph

theorem dedup_length_le {β : Type} [DecidableEq β] (l : List β) : (dedup l).length ≤ l.length := by
  induction l with
  | nil => simp [dedup]
  | cons x xs ih =>
    simp only [dedup]
    split
    · simp only [List.length_cons]; omega
    · simp only [List.length_cons]; omega

theorem dedup_length_eq_iff {β : Type} [DecidableEq β] (l : List β) : (dedup l).length = l.length ↔ l.Nodup := by
  induction l with
  | nil => simp [dedup]
  | cons x xs ih =>
    simp only [dedup, List.nodup_cons]
    split
    · rename_i h
      have := dedup_length_le xs
      constructor
      · intro he; simp only [List.length_cons] at he; omega
      · intro hn; exact absurd h hn.1
    · rename_i h
      simp only [List.length_cons, Nat.add_right_cancel_iff]
      rw [ih]
      exact ⟨fun hn => ⟨h, hn⟩, fun hn => hn.2⟩

/-- `checkAndSortFiles` only looks at its first argument as a multiset. -/
theorem checkAndSortFiles_perm {c c' roots : List Str} (hp : c.Perm c') :
    checkAndSortFiles c roots = checkAndSortFiles c' roots := by
  unfold checkAndSortFiles
  have hlen : c.length = c'.length := hp.length_eq
  have hany : c.any (· = []) = c'.any (· = []) := by
    apply Bool.eq_iff_iff.mpr
    simp only [List.any_eq_true]
    constructor
    · rintro ⟨x, hx, h⟩; exact ⟨x, hp.mem_iff.mp hx, h⟩
    · rintro ⟨x, hx, h⟩; exact ⟨x, hp.mem_iff.mpr hx, h⟩
  have hdd : ((dedup c).length ≠ c.length) ↔ ((dedup c').length ≠ c'.length) := by
    rw [Ne, Ne, dedup_length_eq_iff, dedup_length_eq_iff, hp.nodup_iff]
  have hall : roots.all (fun r => decide (r ∈ c)) = roots.all (fun r => decide (r ∈ c')) := by
    apply Bool.eq_iff_iff.mpr
    simp only [List.all_eq_true, decide_eq_true_eq]
    constructor
    · intro h r hr; exact hp.mem_iff.mp (h r hr)
    · intro h r hr; exact hp.mem_iff.mpr (h r hr)
  rw [hlen, hany, hall]
  by_cases h1 : c'.length ≠ roots.length
  · simp [h1]
  · by_cases h2 : c'.any (· = []) = true
    · simp [h1, h2]
    · by_cases h3 : (dedup c').length ≠ c'.length
      · have h3' := hdd.mpr h3
        rw [hlen] at h3'
        simp [h1, h2, h3, h3']
      · have h3' : ¬ ((dedup c).length ≠ c'.length) := by
          intro hh; rw [← hlen] at hh; exact h3 (hdd.mp hh)
        simp [h1, h2, h3, h3']

theorem newImage_go_nodup : ∀ (files : List ImgFile) (seen : List Str) (commits : List (Nat × Nat)),
    newImage.go files seen commits = .ok () → (files.map (·.path)).Nodup ∧ ∀ f ∈ files, f.path ∉ seen := by
  intro files
  induction files with
  | nil => intros; simp
  | cons f fs ih =>
    intro seen commits h
    simp only [newImage.go] at h
    split at h; · exact absurd h (by simp)
    rename_i hnot
    have key : ∀ commits', newImage.go fs (f.path :: seen) commits' = .ok () →
        ((f :: fs).map (·.path)).Nodup ∧ ∀ g ∈ f :: fs, g.path ∉ seen := by
      intro commits' h'
      obtain ⟨hnd, hns⟩ := ih (f.path :: seen) commits' h'
      refine ⟨?_, ?_⟩
      · simp only [List.map_cons, List.nodup_cons]
        refine ⟨?_, hnd⟩
        intro hm
        obtain ⟨g, hg, hgp⟩ := List.mem_map.mp hm
        exact hns g hg (by rw [hgp]; exact List.mem_cons_self)
      · intro g hg
        rcases List.mem_cons.mp hg with h | h
        · subst h; exact hnot
        · exact fun hh => hns g h (List.mem_cons_of_mem _ hh)
    split at h
    · exact key _ h
    · split at h
      · split at h
        · exact absurd h (by simp)
        · exact key _ h
      · exact key _ h

end BufModel.Targeting
