import BufProofs.Lemmas.MigrateRulesLemmas
/-
  Lemmas for the `ignore_only` part of the C16 migration theorems: `undeprecateMap`
  (`translateIgnoreOnly`) as a finite-map update, and the shape of `migrateCheck`'s result.
-/
namespace BufModel.MigrateRules
open BufModel.Path BufModel.Rules BufGen.RuleTables

/-! ### association lists as maps -/

/-- `m[k]` (first entry). -/
def alookup {β} : List (Id × β) → Id → Option β
  | [], _ => none
  | (k', v) :: rest, k => if k' = k then some v else alookup rest k

theorem alookup_assocSet {β} (m : List (Id × β)) (k : Id) (v : β) (k' : Id) :
    alookup (assocSet m k v) k' = if k' = k then some v else alookup m k' := by
  induction m with
  | nil =>
    simp only [assocSet, alookup]
    by_cases h : k = k'
    · subst h; simp
    · have : ¬ k' = k := fun h' => h h'.symm
      simp [h, this]
  | cons e rest ih =>
    rcases e with ⟨k0, v0⟩
    simp only [assocSet]
    by_cases h0 : k0 = k
    · subst h0
      simp only [if_true, alookup]
      by_cases h : k0 = k'
      · subst h; simp
      · have : ¬ k' = k0 := fun h' => h h'.symm
        simp [h, this]
    · simp only [h0, if_false, alookup, ih]
      by_cases h : k0 = k'
      · subst h
        have : ¬ k0 = k := h0
        simp [this]
      · simp [h]

theorem assocSet_keys {β} (m : List (Id × β)) (k : Id) (v : β) :
    (assocSet m k v).map (·.1) = if k ∈ m.map (·.1) then m.map (·.1) else m.map (·.1) ++ [k] := by
  induction m with
  | nil => simp [assocSet]
  | cons e rest ih =>
    rcases e with ⟨k0, v0⟩
    simp only [assocSet]
    by_cases h0 : k0 = k
    · subst h0; simp
    · have hne : ¬ k = k0 := fun h => h0 h.symm
      simp only [h0, if_false, List.map_cons, ih, List.mem_cons, hne, false_or]
      by_cases hk : k ∈ rest.map (·.1)
      · simp [hk]
      · simp [hk]

theorem assocSet_nodup {β} (m : List (Id × β)) (k : Id) (v : β) (h : (m.map (·.1)).Nodup) :
    ((assocSet m k v).map (·.1)).Nodup := by
  rw [assocSet_keys]
  by_cases hk : k ∈ m.map (·.1)
  · simp only [hk, if_true]; exact h
  · simp only [hk, if_false]
    rw [List.nodup_append]
    refine ⟨h, by simp, ?_⟩
    intro a ha b hb
    simp at hb; subst hb
    intro hab; subst hab; exact hk ha

/-- With unique keys, membership is lookup. -/
theorem mem_iff_alookup {β} (m : List (Id × β)) (h : (m.map (·.1)).Nodup) (k : Id) (v : β) :
    (k, v) ∈ m ↔ alookup m k = some v := by
  induction m with
  | nil => simp [alookup]
  | cons e rest ih =>
    rcases e with ⟨k0, v0⟩
    have hn : k0 ∉ rest.map (·.1) ∧ (rest.map (·.1)).Nodup := by
      have h' : (k0 :: rest.map (·.1)).Nodup := h
      exact List.nodup_cons.1 h'
    simp only [alookup, List.mem_cons, Prod.mk.injEq]
    by_cases h0 : k0 = k
    · subst h0
      simp only [if_true, Option.some.injEq]
      constructor
      · rintro (hv | hm)
        · simp at hv; exact hv.symm
        · exact absurd (List.mem_map.2 ⟨(k0, v), hm, rfl⟩) hn.1
      · intro hv; exact Or.inl (by simp [hv])
    · have hne : ¬ k = k0 := fun h => h0 h.symm
      simp only [h0, if_false, hne, false_and, false_or]
      exact ih hn.2

/-! ### `undeprecateMap` -/

/-- One key of the source map written to all its translations. -/
def ioStep {β} (tr : Id → List Id) (acc : List (Id × β)) (e : Id × β) : List (Id × β) :=
  (tr e.1).foldl (fun acc k' => assocSet acc k' e.2) acc

theorem translateIgnoreOnly_eq {β} (old new : List RuleRow) (m : List (Id × β)) :
    translateIgnoreOnly old new m = m.foldl (ioStep (translateId old new)) [] := rfl

theorem ioStep_spec {β} (tr : Id → List Id) (e : Id × β) : ∀ (acc : List (Id × β)),
    ((acc.map (·.1)).Nodup → ((ioStep tr acc e).map (·.1)).Nodup) ∧
    (∀ k', alookup (ioStep tr acc e) k' = if k' ∈ tr e.1 then some e.2 else alookup acc k') := by
  unfold ioStep
  induction tr e.1 with
  | nil => intro acc; simp
  | cons t ts ih =>
    intro acc
    simp only [List.foldl_cons]
    have I := ih (assocSet acc t e.2)
    constructor
    · intro hn; exact I.1 (assocSet_nodup acc t e.2 hn)
    · intro k'
      rw [I.2 k', alookup_assocSet]
      by_cases h1 : k' ∈ ts
      · simp [h1]
      · by_cases h2 : k' = t
        · subst h2; simp
        · simp [h1, h2]

/-- No two entries of the map translate to a common id. -/
def CollisionFree {β} (tr : Id → List Id) (m : List (Id × β)) : Prop :=
  ∀ e1 ∈ m, ∀ e2 ∈ m, (∃ t, t ∈ tr e1.1 ∧ t ∈ tr e2.1) → e1 = e2

theorem ioFold_spec {β} (tr : Id → List Id) : ∀ (m : List (Id × β)) (acc : List (Id × β)),
    (acc.map (·.1)).Nodup → CollisionFree tr m →
    ((m.foldl (ioStep tr) acc).map (·.1)).Nodup ∧
    (∀ k' v, alookup (m.foldl (ioStep tr) acc) k' = some v ↔
      (∃ e ∈ m, k' ∈ tr e.1 ∧ v = e.2) ∨ ((∀ e ∈ m, k' ∉ tr e.1) ∧ alookup acc k' = some v))
  | [], acc, hn, _ => by simp [hn]
  | e :: rest, acc, hn, hc => by
    simp only [List.foldl_cons]
    have S := ioStep_spec tr e acc
    have hc' : CollisionFree tr rest := fun e1 h1 e2 h2 ht =>
      hc e1 (List.mem_cons_of_mem _ h1) e2 (List.mem_cons_of_mem _ h2) ht
    have I := ioFold_spec tr rest (ioStep tr acc e) (S.1 hn) hc'
    refine ⟨I.1, fun k' v => ?_⟩
    rw [I.2 k' v, S.2 k']
    constructor
    · rintro (⟨e', he', hk, hv⟩ | ⟨hno, hl⟩)
      · exact Or.inl ⟨e', List.mem_cons_of_mem _ he', hk, hv⟩
      · by_cases h1 : k' ∈ tr e.1
        · simp only [h1, if_true, Option.some.injEq] at hl
          exact Or.inl ⟨e, List.mem_cons_self, h1, hl.symm⟩
        · simp only [h1, if_false] at hl
          refine Or.inr ⟨?_, hl⟩
          intro e' he'
          rcases List.mem_cons.1 he' with rfl | he'
          · exact h1
          · exact hno e' he'
    · rintro (⟨e', he', hk, hv⟩ | ⟨hno, hl⟩)
      · rcases List.mem_cons.1 he' with rfl | he'
        · -- the first entry: no later entry may overwrite it
          by_cases hlater : ∃ e2 ∈ rest, k' ∈ tr e2.1
          · rcases hlater with ⟨e2, he2, hk2⟩
            have : e' = e2 := hc e' List.mem_cons_self e2 (List.mem_cons_of_mem _ he2) ⟨k', hk, hk2⟩
            subst this
            exact Or.inl ⟨e', he2, hk, hv⟩
          · refine Or.inr ⟨fun e2 he2 hk2 => hlater ⟨e2, he2, hk2⟩, ?_⟩
            simp [hk, hv]
        · exact Or.inl ⟨e', he', hk, hv⟩
      · refine Or.inr ⟨fun e' he' => hno e' (List.mem_cons_of_mem _ he'), ?_⟩
        have h1 : k' ∉ tr e.1 := hno e List.mem_cons_self
        simp [h1, hl]

/-- `undeprecateMap` on a collision-free map: key `k'` holds `v` iff some key translating to `k'`
    held `v`. -/
theorem translateIgnoreOnly_mem {β} (old new : List RuleRow) (m : List (Id × β))
    (hc : CollisionFree (translateId old new) m) (k' : Id) (v : β) :
    (k', v) ∈ translateIgnoreOnly old new m ↔ ∃ e ∈ m, k' ∈ translateId old new e.1 ∧ v = e.2 := by
  rw [translateIgnoreOnly_eq]
  have S := ioFold_spec (translateId old new) m [] (by simp) hc
  rw [mem_iff_alookup _ S.1, S.2 k' v]
  simp [alookup]

theorem translateIgnoreOnly_IoHas (old new : List RuleRow) (m : List (Id × List Str))
    (hc : CollisionFree (translateId old new) m) (k' : Id) (q : Str) :
    IoHas (translateIgnoreOnly old new m) k' q ↔ ∃ k, IoHas m k q ∧ k' ∈ translateId old new k := by
  unfold IoHas
  constructor
  · rintro ⟨ps, hm, hq⟩
    rcases (translateIgnoreOnly_mem old new m hc k' ps).1 hm with ⟨e, he, hk, hv⟩
    exact ⟨e.1, ⟨e.2, he, hv ▸ hq⟩, hk⟩
  · rintro ⟨k, ⟨ps, hm, hq⟩, hk⟩
    exact ⟨ps, (translateIgnoreOnly_mem old new m hc k' ps).2 ⟨(k, ps), hm, hk, rfl⟩, hq⟩

/-! ### the shape of the migrated configuration -/

theorem migrateCheck_shape (oldAll newAll : List RuleRow) (lint : Bool) (c c' : CheckConfig)
    (hm : migrateCheck oldAll newAll lint c = .ok c') :
    ∃ simple, simpleConfig oldAll newAll lint c = .ok simple ∧
      (c' = simple ∨ ∃ u e, newEnabledCheckConfig { simple with use := u, except := e } = .ok c') := by
  unfold migrateCheck migrateCheckW at hm
  cases hE : expectedIds oldAll newAll lint c with
  | error e => simp [hE] at hm
  | ok E =>
    cases hS : simpleConfigW (translateIgnoreOnly (rulesForType oldAll lint) (rulesForType newAll lint)) oldAll newAll lint c with
    | error e => simp [hE, hS] at hm
    | ok simple =>
      cases hC : configuredRules newAll lint false simple with
      | error e => simp [hE, hS, hC] at hm
      | ok sids =>
        simp only [hE, hS, hC] at hm
        refine ⟨simple, hS, ?_⟩
        by_cases heq : E = sids
        · simp only [heq, if_true, Except.ok.injEq] at hm; exact Or.inl hm.symm
        · simp only [heq, if_false] at hm; exact Or.inr ⟨_, _, hm⟩

/-- The `ignore_only` map of the migrated configuration: the normalised paths of the translated
    map. -/
theorem migrateCheck_ignoreOnly (oldAll newAll : List RuleRow) (lint : Bool) (c c' : CheckConfig)
    (hm : migrateCheck oldAll newAll lint c = .ok c') (k' : Id) (p : Str) :
    IoHas c'.ignoreOnly k' p ↔
      ∃ q, IoHas (translateIgnoreOnly (rulesForType oldAll lint) (rulesForType newAll lint) c.ignoreOnly) k' q ∧
        normalizeAndValidate q = .ok p := by
  rcases migrateCheck_shape oldAll newAll lint c c' hm with ⟨simple, hS, hshape⟩
  have S1 : ∀ k p, IoHas simple.ignoreOnly k p ↔
      ∃ q, IoHas (translateIgnoreOnly (rulesForType oldAll lint) (rulesForType newAll lint) c.ignoreOnly) k q ∧
        normalizeAndValidate q = .ok p := by
    unfold simpleConfig simpleConfigW at hS
    exact (newEnabledCheckConfig_spec _ _ hS).2.2.2.2.1
  rcases hshape with rfl | ⟨u, e, hf⟩
  · exact S1 k' p
  · have F := (newEnabledCheckConfig_spec _ _ hf).2.2.2.2.1 k' p
    rw [F]
    constructor
    · rintro ⟨q, hq, hn⟩
      rcases (S1 k' q).1 hq with ⟨q0, hq0, hn0⟩
      have := (nav_idem hn0).1
      rw [this] at hn; cases hn
      exact ⟨q0, hq0, hn0⟩
    · rintro ⟨q0, hq0, hn0⟩
      exact ⟨p, (S1 k' p).2 ⟨q0, hq0, hn0⟩, (nav_idem hn0).1⟩

end BufModel.MigrateRules
