import BufModel.Breaking
/-
  Images with import files and the exclude-imports option (BufModel/Breaking.lean, last section).
  * `*_ann`, `ruleTables_agree`, `runRuleT_ann`, `checkT_ann`: the TAGGED rules (annotation + file of
    its against location), projected to the annotation, are the untagged rules the C03 / C04
    theorems are about — rule by rule, by pushing the projection through the pair handlers.
  * `mem_exclFilter`, `exclFilter_noImports`: the client's exclude-imports filter.
-/
namespace BufProofs.Breaking
open BufModel.Schema BufModel.Breaking

/-! ### the tagged rules, projected, are the untagged rules -/

theorem map_tag (ag : Option String) (as : List Ann) : (tag ag as).map (·.ann) = as := by
  unfold tag
  induction as with
  | nil => rfl
  | cons a t ih => simp only [List.map_cons, ih]

theorem map_pairwiseG {α κ β γ : Type} [DecidableEq κ] (g : β → γ) (key : α → κ) (cur prev : List α)
    (om : α → List β) (op : α → α → List β) :
    (pairwiseG key cur prev om op).map g =
      pairwiseG key cur prev (fun p => (om p).map g) (fun c p => (op c p).map g) := by
  unfold pairwiseG
  rw [List.map_flatMap]
  congr 1
  funext p
  cases cur.find? (fun c => decide (key c = key p)) <;> rfl

theorem pairwiseG_ann {α κ : Type} [DecidableEq κ] (key : α → κ) (cur prev : List α)
    (om : α → List Ann) (op : α → α → List Ann) :
    pairwiseG key cur prev om op = pairwise key cur prev om op := rfl


/-- push `.map (·.ann)` through the pair handlers and drop the tags -/
macro "bridge" : tactic => `(tactic|
  (simp only [List.map_append, map_pairwiseG, map_tag, List.map_nil, pairwiseG_ann, List.map_flatMap,
     apply_ite (List.map _), List.map_map]))

theorem ruleEnumNoDeleteT_ann (cur prev : Schema) :
    (ruleEnumNoDeleteT cur prev).map (·.ann) = ruleEnumNoDelete cur prev := by
  unfold ruleEnumNoDeleteT ruleEnumNoDelete filePairsG filePairs
  bridge

theorem ruleExtensionNoDeleteT_ann (cur prev : Schema) :
    (ruleExtensionNoDeleteT cur prev).map (·.ann) = ruleExtensionNoDelete cur prev := by
  unfold ruleExtensionNoDeleteT ruleExtensionNoDelete filePairsG filePairs
  bridge

theorem ruleMessageNoDeleteT_ann (cur prev : Schema) :
    (ruleMessageNoDeleteT cur prev).map (·.ann) = ruleMessageNoDelete cur prev := by
  unfold ruleMessageNoDeleteT ruleMessageNoDelete filePairsG filePairs
  bridge

theorem ruleServiceNoDeleteT_ann (cur prev : Schema) :
    (ruleServiceNoDeleteT cur prev).map (·.ann) = ruleServiceNoDelete cur prev := by
  unfold ruleServiceNoDeleteT ruleServiceNoDelete filePairsG filePairs
  bridge

theorem ruleFileNoDeleteT_ann (cur prev : Schema) :
    (ruleFileNoDeleteT cur prev).map (·.ann) = ruleFileNoDelete cur prev := by
  unfold ruleFileNoDeleteT ruleFileNoDelete 
  bridge

theorem rulePackageEnumNoDeleteT_ann (cur prev : Schema) :
    (rulePackageEnumNoDeleteT cur prev).map (·.ann) = rulePackageEnumNoDelete cur prev := by
  unfold rulePackageEnumNoDeleteT rulePackageEnumNoDelete 
  bridge

theorem rulePackageExtensionNoDeleteT_ann (cur prev : Schema) :
    (rulePackageExtensionNoDeleteT cur prev).map (·.ann) = rulePackageExtensionNoDelete cur prev := by
  unfold rulePackageExtensionNoDeleteT rulePackageExtensionNoDelete 
  bridge

theorem rulePackageMessageNoDeleteT_ann (cur prev : Schema) :
    (rulePackageMessageNoDeleteT cur prev).map (·.ann) = rulePackageMessageNoDelete cur prev := by
  unfold rulePackageMessageNoDeleteT rulePackageMessageNoDelete 
  bridge

theorem rulePackageServiceNoDeleteT_ann (cur prev : Schema) :
    (rulePackageServiceNoDeleteT cur prev).map (·.ann) = rulePackageServiceNoDelete cur prev := by
  unfold rulePackageServiceNoDeleteT rulePackageServiceNoDelete 
  bridge

theorem rulePackageNoDeleteT_ann (cur prev : Schema) :
    (rulePackageNoDeleteT cur prev).map (·.ann) = rulePackageNoDelete cur prev := by
  unfold rulePackageNoDeleteT rulePackageNoDelete 
  bridge

theorem ruleEnumSameTypeT_ann (cur prev : Schema) :
    (ruleEnumSameTypeT cur prev).map (·.ann) = ruleEnumSameType cur prev := by
  unfold ruleEnumSameTypeT ruleEnumSameType enumPairsG enumPairs
  bridge

theorem ruleEnumSameJsonFormatT_ann (cur prev : Schema) :
    (ruleEnumSameJsonFormatT cur prev).map (·.ann) = ruleEnumSameJsonFormat cur prev := by
  unfold ruleEnumSameJsonFormatT ruleEnumSameJsonFormat enumPairsG enumPairs
  bridge

theorem ruleReservedEnumNoDeleteT_ann (cur prev : Schema) :
    (ruleReservedEnumNoDeleteT cur prev).map (·.ann) = ruleReservedEnumNoDelete cur prev := by
  unfold ruleReservedEnumNoDeleteT ruleReservedEnumNoDelete enumPairsG enumPairs
  bridge

theorem ruleExtensionMessageNoDeleteT_ann (cur prev : Schema) :
    (ruleExtensionMessageNoDeleteT cur prev).map (·.ann) = ruleExtensionMessageNoDelete cur prev := by
  unfold ruleExtensionMessageNoDeleteT ruleExtensionMessageNoDelete msgPairsG msgPairs
  bridge

theorem ruleMessageNoRemoveStdAccessorT_ann (cur prev : Schema) :
    (ruleMessageNoRemoveStdAccessorT cur prev).map (·.ann) = ruleMessageNoRemoveStdAccessor cur prev := by
  unfold ruleMessageNoRemoveStdAccessorT ruleMessageNoRemoveStdAccessor msgPairsG msgPairs
  bridge

theorem ruleOneofNoDeleteT_ann (cur prev : Schema) :
    (ruleOneofNoDeleteT cur prev).map (·.ann) = ruleOneofNoDelete cur prev := by
  unfold ruleOneofNoDeleteT ruleOneofNoDelete msgPairsG msgPairs
  bridge

theorem ruleMessageSameJsonFormatT_ann (cur prev : Schema) :
    (ruleMessageSameJsonFormatT cur prev).map (·.ann) = ruleMessageSameJsonFormat cur prev := by
  unfold ruleMessageSameJsonFormatT ruleMessageSameJsonFormat msgPairsG msgPairs
  bridge

theorem ruleMessageSameRequiredFieldsT_ann (cur prev : Schema) :
    (ruleMessageSameRequiredFieldsT cur prev).map (·.ann) = ruleMessageSameRequiredFields cur prev := by
  unfold ruleMessageSameRequiredFieldsT ruleMessageSameRequiredFields msgPairsG msgPairs
  bridge

theorem ruleReservedMessageNoDeleteT_ann (cur prev : Schema) :
    (ruleReservedMessageNoDeleteT cur prev).map (·.ann) = ruleReservedMessageNoDelete cur prev := by
  unfold ruleReservedMessageNoDeleteT ruleReservedMessageNoDelete msgPairsG msgPairs
  bridge

theorem ruleFieldSameTypeT_ann (cur prev : Schema) :
    (ruleFieldSameTypeT cur prev).map (·.ann) = ruleFieldSameType cur prev := by
  unfold ruleFieldSameTypeT ruleFieldSameType fieldPairsG fieldPairs msgPairsG msgPairs
  bridge

theorem ruleFieldWireCompatibleTypeT_ann (cur prev : Schema) :
    (ruleFieldWireCompatibleTypeT cur prev).map (·.ann) = ruleFieldWireCompatibleType cur prev := by
  unfold ruleFieldWireCompatibleTypeT ruleFieldWireCompatibleType fieldPairsG fieldPairs msgPairsG msgPairs
  bridge

theorem ruleFieldWireJsonCompatibleTypeT_ann (cur prev : Schema) :
    (ruleFieldWireJsonCompatibleTypeT cur prev).map (·.ann) = ruleFieldWireJsonCompatibleType cur prev := by
  unfold ruleFieldWireJsonCompatibleTypeT ruleFieldWireJsonCompatibleType fieldPairsG fieldPairs msgPairsG msgPairs
  bridge

theorem ruleFieldSameJstypeT_ann (cur prev : Schema) :
    (ruleFieldSameJstypeT cur prev).map (·.ann) = ruleFieldSameJstype cur prev := by
  unfold ruleFieldSameJstypeT ruleFieldSameJstype fieldPairsG fieldPairs msgPairsG msgPairs
  bridge

theorem ruleFieldSameUtf8ValidationT_ann (cur prev : Schema) :
    (ruleFieldSameUtf8ValidationT cur prev).map (·.ann) = ruleFieldSameUtf8Validation cur prev := by
  unfold ruleFieldSameUtf8ValidationT ruleFieldSameUtf8Validation fieldPairsG fieldPairs msgPairsG msgPairs
  bridge

theorem ruleFieldSameJsonNameT_ann (cur prev : Schema) :
    (ruleFieldSameJsonNameT cur prev).map (·.ann) = ruleFieldSameJsonName cur prev := by
  unfold ruleFieldSameJsonNameT ruleFieldSameJsonName fieldPairsG fieldPairs msgPairsG msgPairs
  bridge

theorem ruleFieldSameNameT_ann (cur prev : Schema) :
    (ruleFieldSameNameT cur prev).map (·.ann) = ruleFieldSameName cur prev := by
  unfold ruleFieldSameNameT ruleFieldSameName fieldPairsG fieldPairs msgPairsG msgPairs
  bridge

theorem ruleFieldSameDefaultT_ann (cur prev : Schema) :
    (ruleFieldSameDefaultT cur prev).map (·.ann) = ruleFieldSameDefault cur prev := by
  unfold ruleFieldSameDefaultT ruleFieldSameDefault fieldPairsG fieldPairs msgPairsG msgPairs
  bridge

theorem ruleFieldSameOneofT_ann (cur prev : Schema) :
    (ruleFieldSameOneofT cur prev).map (·.ann) = ruleFieldSameOneof cur prev := by
  unfold ruleFieldSameOneofT ruleFieldSameOneof fieldPairsG fieldPairs msgPairsG msgPairs
  bridge

theorem ruleRpcNoDeleteT_ann (cur prev : Schema) :
    (ruleRpcNoDeleteT cur prev).map (·.ann) = ruleRpcNoDelete cur prev := by
  unfold ruleRpcNoDeleteT ruleRpcNoDelete svcPairsG svcPairs
  bridge

theorem enumValueNoDeleteT_ann (rule : String) (allowNumber allowName : Bool) (cur prev : Schema) :
    (enumValueNoDeleteT rule allowNumber allowName cur prev).map (·.ann) = enumValueNoDelete rule allowNumber allowName cur prev := by
  unfold enumValueNoDeleteT enumValueNoDelete enumPairsG enumPairs
  bridge

theorem fieldNoDeleteT_ann (rule : String) (allowNumber allowName : Bool) (cur prev : Schema) :
    (fieldNoDeleteT rule allowNumber allowName cur prev).map (·.ann) = fieldNoDelete rule allowNumber allowName cur prev := by
  unfold fieldNoDeleteT fieldNoDelete msgPairsG msgPairs
  bridge

theorem cardRuleT_ann (rule : String) (grp : Card → Nat) (cur prev : Schema) :
    (cardRuleT rule grp cur prev).map (·.ann) = cardRule rule grp cur prev := by
  unfold cardRuleT cardRule fieldPairsG fieldPairs msgPairsG msgPairs
  bridge

theorem methodSameT_ann {β : Type} [DecidableEq β] (rule : String) (get : Method → β) (sub : List Nat) (cur prev : Schema) :
    (methodSameT rule get sub cur prev).map (·.ann) = methodSame rule get sub cur prev := by
  unfold methodSameT methodSame methodPairsG methodPairs svcPairsG svcPairs
  bridge

theorem fileSameT_ann {β : Type} [DecidableEq β] (rule : String) (get : File → β) (locPath : SPath) (cur prev : Schema) :
    (fileSameT rule get locPath cur prev).map (·.ann) = fileSame rule get locPath cur prev := by
  unfold fileSameT fileSame filePairsG filePairs
  bridge

theorem ruleEnumValueSameNameT_ann (cur prev : Schema) :
    (ruleEnumValueSameNameT cur prev).map (·.ann) = ruleEnumValueSameName cur prev := by
  unfold ruleEnumValueSameNameT ruleEnumValueSameName enumPairsG enumPairs
  bridge
  rfl

theorem ruleFileSameOptionT_ann (rule : String) (n : Nat) (cur prev : Schema) :
    (ruleFileSameOptionT rule n cur prev).map (·.ann) = ruleFileSameOption rule n cur prev :=
  fileSameT_ann rule (fun f => f.opt n) [8, n] cur prev

theorem ruleFileSameSyntaxT_ann (cur prev : Schema) :
    (ruleFileSameSyntaxT cur prev).map (·.ann) = ruleFileSameSyntax cur prev :=
  fileSameT_ann "FILE_SAME_SYNTAX" (fun f => f.syn.norm) [12] cur prev

theorem ruleFileSamePackageT_ann (cur prev : Schema) :
    (ruleFileSamePackageT cur prev).map (·.ann) = ruleFileSamePackage cur prev :=
  fileSameT_ann "FILE_SAME_PACKAGE" File.pkg [2] cur prev

/-- two rule tables with the same ids in the same order whose handlers agree after projection -/
inductive TablesAgree : List (String × (Schema → Schema → List TAnn)) → List (String × (Schema → Schema → List Ann)) → Prop
  | nil : TablesAgree [] []
  | cons {id : String} {f : Schema → Schema → List TAnn} {g : Schema → Schema → List Ann} {l1 l2}
      (h : ∀ cur prev, (f cur prev).map (·.ann) = g cur prev) (t : TablesAgree l1 l2) :
      TablesAgree ((id, f) :: l1) ((id, g) :: l2)

theorem ruleTables_agree : TablesAgree ruleTableT ruleTable := by
  unfold ruleTableT ruleTable
  refine .cons ruleEnumNoDeleteT_ann ?_
  refine .cons ruleExtensionNoDeleteT_ann ?_
  refine .cons ruleFileNoDeleteT_ann ?_
  refine .cons ruleMessageNoDeleteT_ann ?_
  refine .cons ruleServiceNoDeleteT_ann ?_
  refine .cons ruleEnumSameTypeT_ann ?_
  refine .cons ruleEnumSameJsonFormatT_ann ?_
  refine .cons (enumValueNoDeleteT_ann _ _ _) ?_
  refine .cons (enumValueNoDeleteT_ann _ _ _) ?_
  refine .cons (enumValueNoDeleteT_ann _ _ _) ?_
  refine .cons ruleEnumValueSameNameT_ann ?_
  refine .cons ruleReservedEnumNoDeleteT_ann ?_
  refine .cons ruleExtensionMessageNoDeleteT_ann ?_
  refine .cons (fieldNoDeleteT_ann _ _ _) ?_
  refine .cons (fieldNoDeleteT_ann _ _ _) ?_
  refine .cons (fieldNoDeleteT_ann _ _ _) ?_
  refine .cons ruleMessageNoRemoveStdAccessorT_ann ?_
  refine .cons ruleOneofNoDeleteT_ann ?_
  refine .cons ruleMessageSameJsonFormatT_ann ?_
  refine .cons ruleMessageSameRequiredFieldsT_ann ?_
  refine .cons ruleReservedMessageNoDeleteT_ann ?_
  refine .cons (cardRuleT_ann _ _) ?_
  refine .cons (cardRuleT_ann _ _) ?_
  refine .cons (cardRuleT_ann _ _) ?_
  refine .cons ruleFieldSameTypeT_ann ?_
  refine .cons ruleFieldWireCompatibleTypeT_ann ?_
  refine .cons ruleFieldWireJsonCompatibleTypeT_ann ?_
  refine .cons ruleFieldSameJstypeT_ann ?_
  refine .cons ruleFieldSameUtf8ValidationT_ann ?_
  refine .cons ruleFieldSameJsonNameT_ann ?_
  refine .cons ruleFieldSameNameT_ann ?_
  refine .cons ruleFieldSameDefaultT_ann ?_
  refine .cons ruleFieldSameOneofT_ann ?_
  refine .cons ruleRpcNoDeleteT_ann ?_
  refine .cons (methodSameT_ann _ _ _) ?_
  refine .cons (methodSameT_ann _ _ _) ?_
  refine .cons (methodSameT_ann _ _ _) ?_
  refine .cons (methodSameT_ann _ _ _) ?_
  refine .cons (methodSameT_ann _ _ _) ?_
  refine .cons rulePackageEnumNoDeleteT_ann ?_
  refine .cons rulePackageExtensionNoDeleteT_ann ?_
  refine .cons rulePackageMessageNoDeleteT_ann ?_
  refine .cons rulePackageServiceNoDeleteT_ann ?_
  refine .cons rulePackageNoDeleteT_ann ?_
  refine .cons ruleFileSameSyntaxT_ann ?_
  refine .cons ruleFileSamePackageT_ann ?_
  exact .nil

theorem lookup_agree : ∀ {l1 l2}, TablesAgree l1 l2 → ∀ (id : String) (cur prev : Schema),
    (match l1.lookup id with | some f => (f cur prev).map (·.ann) | none => []) =
    (match l2.lookup id with | some g => g cur prev | none => []) ∧
    ((l1.lookup id).isSome = (l2.lookup id).isSome)
  | _, _, .nil, _, _, _ => ⟨rfl, rfl⟩
  | _, _, .cons (id := k) h t, id, cur, prev => by
    simp only [List.lookup]
    cases hk : (id == k)
    · exact lookup_agree t id cur prev
    · exact ⟨h cur prev, rfl⟩

/-- every tagged rule, projected, is the untagged rule -/
theorem runRuleT_ann (id : String) (cur prev : Schema) :
    (runRuleT id cur prev).map (·.ann) = runRule id cur prev := by
  have h := lookup_agree ruleTables_agree id cur prev
  unfold runRuleT runRule
  cases h1 : ruleTableT.lookup id <;> cases h2 : ruleTable.lookup id
  · cases fileOptRules.lookup id
    · rfl
    · exact ruleFileSameOptionT_ann id _ cur prev
  · rw [h1, h2] at h; exact absurd h.2 (by simp)
  · rw [h1, h2] at h; exact absurd h.2 (by simp)
  · rw [h1, h2] at h; exact h.1

theorem checkT_ann (v : Ver) (cat : String) (cur prev : Schema) :
    (checkT v cat cur prev).map (·.ann) = check v cat cur prev := by
  unfold checkT check
  rw [List.map_flatMap]
  congr 1
  funext id
  exact runRuleT_ann id cur prev

/-! ### the exclude-imports filter -/

theorem mem_exclFilter {cur prev : Schema} {ts : List TAnn} {a : Ann} (h : a ∈ exclFilter cur prev ts) :
    ∃ t ∈ ts, t.ann = a ∧ dropped cur prev t = false := by
  unfold exclFilter at h
  rcases List.mem_map.1 h with ⟨t, ht, rfl⟩
  rcases List.mem_filter.1 ht with ⟨hm, hd⟩
  exact ⟨t, hm, rfl, by simpa using hd⟩

/-- no file of the schema is an import -/
def NoImports (s : Schema) : Prop := ∀ f ∈ s, f.isImport = false

theorem impOf_noImports {s : Schema} (h : NoImports s) (path : String) : impOf s path = false := by
  unfold impOf
  cases hf : s.find? (fun f => decide (f.path = path)) with
  | none => rfl
  | some f => exact h f (List.mem_of_find?_eq_some hf)

theorem dropped_noImports {cur prev : Schema} (hc : NoImports cur) (hp : NoImports prev) (t : TAnn) :
    dropped cur prev t = false := by
  unfold dropped
  rw [impOf_noImports hc]
  cases t.against <;> simp [impOf_noImports hp]

theorem exclFilter_noImports {cur prev : Schema} (hc : NoImports cur) (hp : NoImports prev) (ts : List TAnn) :
    exclFilter cur prev ts = ts.map (·.ann) := by
  unfold exclFilter
  congr 1
  apply List.filter_eq_self.2
  intro t _
  simp [dropped_noImports hc hp t]

/-- the exclude-imports result is part of the plain result -/
theorem checkX_subset (v : Ver) (cat : String) (cur prev : Schema) (a : Ann)
    (h : a ∈ checkX true v cat cur prev) : a ∈ check v cat cur prev := by
  rcases mem_exclFilter h with ⟨t, ht, rfl, _⟩
  rw [← checkT_ann]
  exact List.mem_map.2 ⟨t, ht, rfl⟩

theorem checkX_nil_of_check_nil (excl : Bool) (v : Ver) (cat : String) (cur prev : Schema)
    (h : check v cat cur prev = []) : checkX excl v cat cur prev = [] := by
  cases excl
  · exact h
  · apply List.eq_nil_iff_forall_not_mem.2
    intro a ha
    have := checkX_subset v cat cur prev a ha
    rw [h] at this
    exact absurd this (List.not_mem_nil)


end BufProofs.Breaking
