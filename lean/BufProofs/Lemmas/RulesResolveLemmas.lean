import BufProofs.Lemmas.RulesLemmas
import BufProofs.Lemmas.PathLemmas
import BufProofs.Lemmas.AnnotLemmas
/-
  C06, second layer of helper lemmas: what the USER-LEVEL check configuration (the input of
  `bufconfig.NewEnabledCheckConfig` / `newRulesConfig`, i.e. what `resolve` and `runCheck` of the
  driver consume) resolves to.

    * `newEnabledCheckConfig_spec`   dedupe + sort + path normalisation of the bufconfig layer
    * `newRulesConfig_full`          every intermediate result of an accepted `newRulesConfig`
    * `resolve_spec`                 ruleIDs / ignoreRootPaths / ignoreOnly of the resolved
                                     configuration as sets over the user's lists
    * `UserMoreSuppression`          "the user added ignore / ignore_only / except entries"
    * `resolve_moreSuppression`      … which yields `MoreSuppression` on the resolved configs
    * element identity (`SameElement`, `MoreCommentsSrc`) for comment edits that move lines
    * `associated_are_prefixes`      comment directives only reach enclosing source paths
    * `dedupKey_inj_wf`              the length-prefixed dedup key is injective on reported annotations
                                     (re-using the C20 lemmas of AnnotLemmas.lean)
-/
namespace BufModel.Rules
open BufModel.Path BufGen.RuleTables

/-! ### `List.mapM` in `Except` -/

theorem mapM_except_ok {α β ε : Type} (f : α → Except ε β) : ∀ (l : List α) (outs : List β),
    l.mapM f = .ok outs →
    (∀ p, p ∈ outs ↔ ∃ q ∈ l, f q = .ok p) ∧ (∀ q ∈ l, ∃ p, f q = .ok p)
  | [], outs, h => by
    simp [List.mapM_nil, pure, Except.pure] at h
    subst h; simp
  | a :: as, outs, h => by
    rw [List.mapM_cons] at h
    cases h1 : f a with
    | error e => simp [h1, bind, Except.bind] at h
    | ok b =>
      cases h2 : as.mapM f with
      | error e => simp [h1, h2, bind, Except.bind] at h
      | ok bs =>
        simp [h1, h2, bind, Except.bind, pure, Except.pure] at h
        subst h
        have ih := mapM_except_ok f as bs h2
        constructor
        · intro p
          simp only [List.mem_cons, ih.1 p]
          constructor
          · rintro (hp | ⟨q, hq, hf⟩)
            · subst hp; exact ⟨a, Or.inl rfl, h1⟩
            · exact ⟨q, Or.inr hq, hf⟩
          · rintro ⟨q, (hq | hq), hf⟩
            · subst hq; rw [h1] at hf; cases hf; exact Or.inl rfl
            · exact Or.inr ⟨q, hq, hf⟩
        · intro q hq
          rcases List.mem_cons.1 hq with hq | hq
          · subst hq; exact ⟨b, h1⟩
          · exact ih.2 q hq

/-! ### path normalisation is idempotent on accepted paths -/

theorem nav_idem {q p : Str} (h : normalizeAndValidate q = .ok p) :
    normalizeAndValidate p = .ok p ∧ p ≠ [] := by
  rcases validate_sound q p h with ⟨ns, hns, rfl⟩
  exact ⟨validate_renderKey hns, renderKey_ne_nil hns⟩

/-! ### bufconfig layer -/

/-- `normalizeAndCheckPaths` (after `ToUniqueSorted`) returns exactly the normalised forms of
    its (all non-empty, all valid) inputs. -/
theorem normalizeAndCheckPaths_ok (paths outs : List Str)
    (h : normalizeAndCheckPaths paths = .ok outs) :
    (∀ p, p ∈ outs ↔ ∃ q ∈ paths, normalizeAndValidate q = .ok p) ∧
    (∀ q ∈ paths, q ≠ []) := by
  unfold normalizeAndCheckPaths at h
  by_cases h0 : paths = []
  · subst h0; simp at h; subst h; simp
  · simp only [h0, if_false] at h
    by_cases h1 : paths.any (· = []) = true
    · simp [h1] at h
    · simp only [h1] at h
      cases hm : paths.mapM normalizeAndValidate with
      | error e => simp [hm] at h
      | ok o =>
        simp only [hm] at h
        by_cases h2 : anyConflict (sortS strLt o) = true
        · simp [h2] at h
        · simp only [h2, Bool.false_eq_true, if_false, Except.ok.injEq] at h
          subst h
          have hs := mapM_except_ok normalizeAndValidate paths o hm
          constructor
          · intro p; rw [mem_sortS]; exact hs.1 p
          · intro q hq hqe
            apply h1
            rw [List.any_eq_true]
            exact ⟨q, hq, by simp [hqe]⟩

/-- `m` has path `q` registered under key `k`. -/
def IoHas (m : List (Id × List Str)) (k : Id) (q : Str) : Prop := ∃ ps, (k, ps) ∈ m ∧ q ∈ ps

theorem checkIgnoreOnly_ok : ∀ (m m' : List (Id × List Str)), checkIgnoreOnly m = .ok m' →
    (∀ k p, IoHas m' k p ↔ ∃ q, IoHas m k q ∧ normalizeAndValidate q = .ok p) ∧
    (∀ k q, IoHas m k q → q ≠ [])
  | [], m', h => by
    simp [checkIgnoreOnly] at h; subst h
    simp [IoHas]
  | (k0, v) :: rest, m', h => by
    unfold checkIgnoreOnly at h
    cases h1 : normalizeAndCheckPaths (usStrs v) with
    | error e => simp [h1] at h
    | ok v' =>
      cases h2 : checkIgnoreOnly rest with
      | error e => simp [h1, h2] at h
      | ok rest' =>
        simp only [h1, h2, Except.ok.injEq] at h
        subst h
        have ih := checkIgnoreOnly_ok rest rest' h2
        have hv := normalizeAndCheckPaths_ok _ _ h1
        constructor
        · intro k p
          constructor
          · rintro ⟨ps, hm, hp⟩
            rcases List.mem_cons.1 hm with hm | hm
            · cases hm
              rcases (hv.1 p).1 hp with ⟨q, hq, hn⟩
              exact ⟨q, ⟨v, by simp, (mem_uniqueSorted _ _ _).1 hq⟩, hn⟩
            · rcases (ih.1 k p).1 ⟨ps, hm, hp⟩ with ⟨q, ⟨ps0, h0, hq⟩, hn⟩
              exact ⟨q, ⟨ps0, List.mem_cons_of_mem _ h0, hq⟩, hn⟩
          · rintro ⟨q, ⟨ps, hm, hq⟩, hn⟩
            rcases List.mem_cons.1 hm with hm | hm
            · cases hm
              exact ⟨v', by simp, (hv.1 p).2 ⟨q, (mem_uniqueSorted _ _ _).2 hq, hn⟩⟩
            · rcases (ih.1 k p).2 ⟨q, ⟨ps, hm, hq⟩, hn⟩ with ⟨ps', h', hp⟩
              exact ⟨ps', List.mem_cons_of_mem _ h', hp⟩
        · rintro k q ⟨ps, hm, hq⟩
          rcases List.mem_cons.1 hm with hm | hm
          · cases hm
            exact hv.2 q ((mem_uniqueSorted _ _ _).2 hq)
          · exact ih.2 k q ⟨ps, hm, hq⟩

/-- `bufconfig.NewEnabledCheckConfig`: `use` / `except` keep their members (dedupe + sort),
    `ignore` and every `ignore_only` list become the normalised forms of their members, all of
    which are non-empty and valid. -/
theorem newEnabledCheckConfig_spec (c c1 : CheckConfig) (h : newEnabledCheckConfig c = .ok c1) :
    (∀ x, x ∈ c1.use ↔ x ∈ c.use) ∧ (∀ x, x ∈ c1.except ↔ x ∈ c.except) ∧
    (∀ p, p ∈ c1.ignore ↔ ∃ q ∈ c.ignore, normalizeAndValidate q = .ok p) ∧
    (∀ q ∈ c.ignore, q ≠ []) ∧
    (∀ k p, IoHas c1.ignoreOnly k p ↔ ∃ q, IoHas c.ignoreOnly k q ∧ normalizeAndValidate q = .ok p) ∧
    (∀ k q, IoHas c.ignoreOnly k q → q ≠ []) ∧
    c1.disableBuiltin = c.disableBuiltin := by
  unfold newEnabledCheckConfig at h
  cases h1 : normalizeAndCheckPaths (usStrs c.ignore) with
  | error e => simp [h1] at h
  | ok ig =>
    cases h2 : checkIgnoreOnly c.ignoreOnly with
    | error e => simp [h1, h2] at h
    | ok io =>
      simp only [h1, h2, Except.ok.injEq] at h
      subst h
      have hv := normalizeAndCheckPaths_ok _ _ h1
      have hio := checkIgnoreOnly_ok _ _ h2
      refine ⟨fun x => mem_uniqueSorted _ _ _, fun x => mem_uniqueSorted _ _ _, ?_, ?_, hio.1, hio.2, rfl⟩
      · intro p
        rw [hv.1 p]
        constructor
        · rintro ⟨q, hq, hn⟩; exact ⟨q, (mem_uniqueSorted _ _ _).1 hq, hn⟩
        · rintro ⟨q, hq, hn⟩; exact ⟨q, (mem_uniqueSorted _ _ _).2 hq, hn⟩
      · intro q hq; exact hv.2 q ((mem_uniqueSorted _ _ _).2 hq)

/-! ### `newRulesConfig` layer: ignore paths and ignore_only -/

theorem normalizeIgnoreOne_ok (q : Str) (o : Option Str) (h : normalizeIgnoreOne q = .ok o) :
    ∀ p, o = some p ↔ (q ≠ [] ∧ normalizeAndValidate q = .ok p) := by
  intro p
  unfold normalizeIgnoreOne at h
  by_cases h0 : q = []
  · simp only [h0, if_true, Except.ok.injEq] at h
    subst h; simp [h0]
  · simp only [h0, if_false] at h
    cases h1 : normalizeAndValidate q with
    | error e => simp [h1] at h
    | ok n =>
      simp only [h1] at h
      by_cases h2 : n = dot
      · simp [h2] at h
      · simp only [h2, if_false, Except.ok.injEq] at h
        subst h
        simp [h0]

theorem normalizeIgnorePaths_ok : ∀ (l r : List Str), normalizeIgnorePaths l = .ok r →
    ∀ p, p ∈ r ↔ ∃ q ∈ l, q ≠ [] ∧ normalizeAndValidate q = .ok p
  | [], r, h, p => by
    simp [normalizeIgnorePaths] at h; subst h; simp
  | q0 :: rest, r, h, p => by
    unfold normalizeIgnorePaths at h
    cases h1 : normalizeIgnoreOne q0 with
    | error e => simp [h1] at h
    | ok o =>
      cases h2 : normalizeIgnorePaths rest with
      | error e => cases o <;> simp [h1, h2] at h
      | ok r' =>
        have ih := normalizeIgnorePaths_ok rest r' h2 p
        have h1' := normalizeIgnoreOne_ok q0 o h1
        cases o with
        | none =>
          simp only [h1, h2, Except.ok.injEq] at h
          subst h
          rw [ih]
          constructor
          · rintro ⟨q, hq, hn⟩; exact ⟨q, List.mem_cons_of_mem _ hq, hn⟩
          · rintro ⟨q, hq, hn⟩
            rcases List.mem_cons.1 hq with hq | hq
            · subst hq; have := (h1' p).2 hn; cases this
            · exact ⟨q, hq, hn⟩
        | some n =>
          simp only [h1, h2, Except.ok.injEq] at h
          subst h
          simp only [List.mem_cons, ih]
          constructor
          · rintro (hp | ⟨q, hq, hn⟩)
            · subst hp; exact ⟨q0, Or.inl rfl, (h1' p).1 rfl⟩
            · exact ⟨q, Or.inr hq, hn⟩
          · rintro ⟨q, (hq | hq), hn⟩
            · subst hq; have := (h1' p).2 hn; cases this; exact Or.inl rfl
            · exact Or.inr ⟨q, hq, hn⟩

theorem normalizeIgnoreOnly_ok : ∀ (l r : List (Id × Str)), normalizeIgnoreOnly l = .ok r →
    ∀ id p, (id, p) ∈ r ↔ ∃ q, (id, q) ∈ l ∧ q ≠ [] ∧ normalizeAndValidate q = .ok p
  | [], r, h, id, p => by
    simp [normalizeIgnoreOnly] at h; subst h; simp
  | (i0, q0) :: rest, r, h, id, p => by
    unfold normalizeIgnoreOnly at h
    cases h1 : normalizeIgnoreOne q0 with
    | error e => simp [h1] at h
    | ok o =>
      cases h2 : normalizeIgnoreOnly rest with
      | error e => cases o <;> simp [h1, h2] at h
      | ok r' =>
        have ih := normalizeIgnoreOnly_ok rest r' h2 id p
        have h1' := normalizeIgnoreOne_ok q0 o h1
        cases o with
        | none =>
          simp only [h1, h2, Except.ok.injEq] at h
          subst h
          rw [ih]
          constructor
          · rintro ⟨q, hq, hn⟩; exact ⟨q, List.mem_cons_of_mem _ hq, hn⟩
          · rintro ⟨q, hq, hn⟩
            rcases List.mem_cons.1 hq with hq | hq
            · cases hq; have := (h1' p).2 hn; cases this
            · exact ⟨q, hq, hn⟩
        | some n =>
          simp only [h1, h2, Except.ok.injEq] at h
          subst h
          simp only [List.mem_cons, ih]
          constructor
          · rintro (hp | ⟨q, hq, hn⟩)
            · cases hp; exact ⟨q0, Or.inl rfl, (h1' p).1 rfl⟩
            · exact ⟨q, Or.inr hq, hn⟩
          · rintro ⟨q, (hq | hq), hn⟩
            · cases hq; have := (h1' p).2 hn; cases this; exact Or.inl rfl
            · exact Or.inr ⟨q, hq, hn⟩

theorem expandIgnoreOnly_ok (rs : List RuleRow) : ∀ (m : List (Id × List Str)) (r : List (Id × Str)),
    expandIgnoreOnly rs m = .ok r →
    ∀ id p, (id, p) ∈ r ↔ ∃ k, IoHas m k p ∧ ∃ e, expandOne rs k = some e ∧ id ∈ e
  | [], r, h, id, p => by
    simp [expandIgnoreOnly] at h; subst h; simp [IoHas]
  | (k0, ps0) :: rest, r, h, id, p => by
    unfold expandIgnoreOnly at h
    cases h1 : expandOne rs k0 with
    | none => simp [h1] at h
    | some e0 =>
      cases h2 : expandIgnoreOnly rs rest with
      | error e => simp [h1, h2] at h
      | ok r' =>
        simp only [h1, h2, Except.ok.injEq] at h
        subst h
        have ih := expandIgnoreOnly_ok rs rest r' h2 id p
        simp only [List.mem_append, ih, List.mem_flatMap, List.mem_map, Prod.mk.injEq]
        constructor
        · rintro (⟨i, hi, q, hq, h1', h2'⟩ | ⟨k, ⟨ps, hm, hp⟩, e, he, hie⟩)
          · subst h1'; subst h2'
            exact ⟨k0, ⟨ps0, by simp, hq⟩, e0, h1, hi⟩
          · exact ⟨k, ⟨ps, List.mem_cons_of_mem _ hm, hp⟩, e, he, hie⟩
        · rintro ⟨k, ⟨ps, hm, hp⟩, e, he, hie⟩
          rcases List.mem_cons.1 hm with hm | hm
          · cases hm
            rw [h1] at he; cases he
            exact Or.inl ⟨id, hie, p, hp, rfl, rfl⟩
          · exact Or.inr ⟨k, ⟨ps, hm, hp⟩, e, he, hie⟩

theorem mem_undeprecateIgnoreOnly (rs : List RuleRow) (m : List (Id × Str)) (r : Id) (p : Str) :
    (r, p) ∈ undeprecateIgnoreOnly rs m ↔ ∃ id, (id, p) ∈ m ∧ r ∈ undeprecateOne rs id := by
  unfold undeprecateIgnoreOnly
  simp only [List.mem_flatMap, List.mem_map, Prod.mk.injEq]
  constructor
  · rintro ⟨⟨id, q⟩, hm, i', hi', h1, h2⟩
    simp only at hi' h2
    subst h1; subst h2
    exact ⟨id, hm, hi'⟩
  · rintro ⟨id, hm, hr⟩
    exact ⟨(id, p), hm, r, hr, rfl, rfl⟩

/-- Everything an accepted `newRulesConfig` computed on the way. -/
theorem newRulesConfig_full (all : List RuleRow) (lint : Bool) (c : CheckConfig) (rc : RulesConfig)
    (hrs : rulesForType all lint ≠ []) (h : newRulesConfig all lint c = .ok rc) :
    ∃ useIds excIds io ig io',
      transformIds (rulesForType all lint) (effectiveUse (rulesForType all lint) c.use) = .ok useIds ∧
      transformIds (rulesForType all lint) (uniqueSortedNoBlank c.except) = .ok excIds ∧
      expandIgnoreOnly (rulesForType all lint) c.ignoreOnly = .ok io ∧
      normalizeIgnorePaths c.ignore = .ok ig ∧
      normalizeIgnoreOnly (undeprecateIgnoreOnly (rulesForType all lint) io) = .ok io' ∧
      rc = { ruleIDs := (undeprecate (rulesForType all lint) useIds).filter
               (fun id => !((undeprecate (rulesForType all lint) excIds).contains id)),
             ignoreRootPaths := usStrs ig, ignoreOnly := io' } := by
  unfold newRulesConfig newRulesConfigCore at h
  simp only [hrs, if_false] at h
  split at h
  · cases h
  · split at h
    · rename_i useIds excIds io h1 h2 h3
      split at h
      · cases h
      · split at h
        · simp at *
        · split at h
          · rename_i ig io' h4 h5
            simp only [Except.ok.injEq] at h
            subst h
            exact ⟨useIds, excIds, io, ig, io', h1, h2, h3, h4, h5, rfl⟩
          · cases h
    · cases h

/-- The suppression part of an accepted `newRulesConfig`, as sets over the lists it was given:
    the resolved ignore paths are the normalised non-empty `ignore` entries; rule `r` has ignore
    path `p` iff some `ignore_only` key that DENOTES `r` (the rule itself, a category carrying
    it, a deprecated id replaced by it) lists a non-empty path normalising to `p`. -/
theorem newRulesConfig_supp (all : List RuleRow) (lint : Bool) (c : CheckConfig) (rc : RulesConfig)
    (hrs : rulesForType all lint ≠ []) (h : newRulesConfig all lint c = .ok rc) :
    (∀ p, p ∈ rc.ignoreRootPaths ↔ ∃ q ∈ c.ignore, q ≠ [] ∧ normalizeAndValidate q = .ok p) ∧
    (∀ r p, (r, p) ∈ rc.ignoreOnly ↔
      ∃ k q, IoHas c.ignoreOnly k q ∧ q ≠ [] ∧ r ∈ denote (rulesForType all lint) k ∧
        normalizeAndValidate q = .ok p) := by
  rcases newRulesConfig_full all lint c rc hrs h with ⟨useIds, excIds, io, ig, io', _, _, h3, h4, h5, rfl⟩
  constructor
  · intro p
    show p ∈ usStrs ig ↔ _
    rw [mem_uniqueSorted]
    exact normalizeIgnorePaths_ok _ _ h4 p
  · intro r p
    show (r, p) ∈ io' ↔ _
    rw [normalizeIgnoreOnly_ok _ _ h5 r p]
    constructor
    · rintro ⟨q, hm, hq, hn⟩
      rcases (mem_undeprecateIgnoreOnly _ _ _ _).1 hm with ⟨id, hid, hr⟩
      rcases (expandIgnoreOnly_ok _ _ _ h3 id q).1 hid with ⟨k, hk, e, he, hie⟩
      exact ⟨k, q, hk, hq, (mem_denote _ _ _).2 ⟨e, he, id, hie, hr⟩, hn⟩
    · rintro ⟨k, q, hk, hq, hd, hn⟩
      rcases (mem_denote _ _ _).1 hd with ⟨e, he, id, hie, hr⟩
      exact ⟨q, (mem_undeprecateIgnoreOnly _ _ _ _).2
        ⟨id, (expandIgnoreOnly_ok _ _ _ h3 id q).2 ⟨k, hk, e, he, hie⟩, hr⟩, hq, hn⟩

/-! ### selection as sets (lemma-level copies of the Props statements) -/

theorem mem_effectiveUse (rs : List RuleRow) (use : List Id) (x : Id) :
    x ∈ effectiveUse rs use ↔
      ((∀ u ∈ use, blankId u = true) ∧ x ∈ defaultIds rs) ∨
      ((¬ ∀ u ∈ use, blankId u = true) ∧ x ∈ use ∧ blankId x = false) := by
  unfold effectiveUse
  by_cases h : uniqueSortedNoBlank use = []
  · simp only [h, if_true]
    have hall : ∀ u ∈ use, blankId u = true := by
      intro u hu
      cases hb : blankId u with
      | true => rfl
      | false =>
        have : u ∈ uniqueSortedNoBlank use := (mem_uniqueSortedNoBlank u use).2 ⟨hu, hb⟩
        rw [h] at this; cases this
    constructor
    · intro hx; exact Or.inl ⟨hall, hx⟩
    · rintro (⟨_, hx⟩ | ⟨hn, _⟩)
      · exact hx
      · exact absurd hall hn
  · simp only [h, if_false]
    have hnot : ¬ ∀ u ∈ use, blankId u = true := by
      intro hall
      apply h
      cases hl : uniqueSortedNoBlank use with
      | nil => rfl
      | cons y ys =>
        have : y ∈ uniqueSortedNoBlank use := by rw [hl]; simp
        have := (mem_uniqueSortedNoBlank y use).1 this
        rw [hall y this.1] at this; cases this.2
    rw [mem_uniqueSortedNoBlank]
    constructor
    · intro hx; exact Or.inr ⟨hnot, hx⟩
    · rintro (⟨ha, _⟩ | ⟨_, hx⟩)
      · exact absurd ha hnot
      · exact hx

/-- `effectiveUse` depends on `use` only as a set. -/
theorem mem_effectiveUse_congr (rs : List RuleRow) (u u' : List Id) (h : ∀ x, x ∈ u' ↔ x ∈ u) (x : Id) :
    x ∈ effectiveUse rs u' ↔ x ∈ effectiveUse rs u := by
  have hall : (∀ y ∈ u', blankId y = true) ↔ (∀ y ∈ u, blankId y = true) :=
    ⟨fun k y hy => k y ((h y).2 hy), fun k y hy => k y ((h y).1 hy)⟩
  rw [mem_effectiveUse, mem_effectiveUse, hall, h x]

/-- What the selected rule ids are, as a set, for an accepted configuration. -/
def Selected (rs : List RuleRow) (use exc : List Id) (x : Id) : Prop :=
  (∃ u ∈ effectiveUse rs use, x ∈ denote rs u) ∧
  ¬ (∃ e ∈ exc, blankId e = false ∧ x ∈ denote rs e)

theorem newRulesConfig_sel (all : List RuleRow) (lint : Bool) (c : CheckConfig) (rc : RulesConfig)
    (hrs : rulesForType all lint ≠ []) (h : newRulesConfig all lint c = .ok rc) (x : Id) :
    x ∈ rc.ruleIDs ↔ Selected (rulesForType all lint) c.use c.except x := by
  rcases newRulesConfig_ok all lint c rc hrs h with ⟨useIds, excIds, h1, h2, h3⟩
  unfold Selected
  rw [h3, List.mem_filter, mem_undeprecate_transform _ _ _ h1]
  have hex : (∃ e ∈ c.except, blankId e = false ∧ x ∈ denote (rulesForType all lint) e) ↔
      x ∈ undeprecate (rulesForType all lint) excIds := by
    rw [mem_undeprecate_transform _ _ _ h2]
    constructor
    · rintro ⟨e, he, hb, hx⟩; exact ⟨e, (mem_uniqueSortedNoBlank e _).2 ⟨he, hb⟩, hx⟩
    · rintro ⟨e, he, hx⟩
      have := (mem_uniqueSortedNoBlank e _).1 he
      exact ⟨e, this.1, this.2, hx⟩
  rw [hex]
  simp

theorem newRulesConfig_empty_table (all : List RuleRow) (lint : Bool) (c : CheckConfig) (rc : RulesConfig)
    (hrs : rulesForType all lint = []) (h : newRulesConfig all lint c = .ok rc) :
    rc = { ruleIDs := [], ignoreRootPaths := [], ignoreOnly := [] } := by
  unfold newRulesConfig newRulesConfigCore at h
  simp only [hrs, if_true, Except.ok.injEq] at h
  exact h.symm

/-! ### `resolve` / `runCheck` (what the driver runs) in terms of `newRulesConfig` / `report` -/

/-- The rule table `resolve` works with: the rules of the requested type, none when the builtin
    rules are disabled. -/
def tableOf (allRules : List RuleRow) (lint : Bool) (c : CheckConfig) : List RuleRow :=
  rulesForType (if c.disableBuiltin then [] else allRules) lint

theorem resolve_ok_iff (allRules : List RuleRow) (lint validated : Bool) (c : CheckConfig) (rc : RulesConfig) :
    resolve allRules lint validated c = .ok rc ↔
      ∃ c1, (if validated then newEnabledCheckConfig c = .ok c1 else c1 = c) ∧
        newRulesConfig (if c.disableBuiltin then [] else allRules) lint c1 = .ok rc := by
  unfold resolve
  cases validated with
  | false => simp
  | true =>
    simp only [if_true]
    cases hc : newEnabledCheckConfig c with
    | error e => simp
    | ok c1 => simp

theorem runCheck_ok_iff (allRules : List RuleRow) (lint validated : Bool) (c : CheckConfig)
    (aci iup exi : Bool) (img : Image) (out : List FileAnnot) :
    runCheck allRules lint validated c aci iup exi img = .ok out ↔
      ∃ rc, resolve allRules lint validated c = .ok rc ∧ report (mkConfig lint rc aci iup exi) img = .ok out := by
  unfold runCheck
  cases hr : resolve allRules lint validated c with
  | error e => simp
  | ok rc => simp

/-- The resolved configuration as sets over the USER's lists (through both constructors when
    `validated`): selected ids, resolved ignore paths, resolved ignore_only relation. -/
structure ResolvedSpec (rs : List RuleRow) (c : CheckConfig) (rc : RulesConfig) : Prop where
  sel : ∀ x, x ∈ rc.ruleIDs ↔ Selected rs c.use c.except x
  ignore : ∀ p, p ∈ rc.ignoreRootPaths ↔ ∃ q ∈ c.ignore, q ≠ [] ∧ normalizeAndValidate q = .ok p
  ignoreOnly : ∀ r p, (r, p) ∈ rc.ignoreOnly ↔
    ∃ k q, IoHas c.ignoreOnly k q ∧ q ≠ [] ∧ r ∈ denote rs k ∧ normalizeAndValidate q = .ok p

theorem resolve_spec (allRules : List RuleRow) (lint validated : Bool) (c : CheckConfig) (rc : RulesConfig)
    (h : resolve allRules lint validated c = .ok rc) :
    (tableOf allRules lint c = [] → rc = { ruleIDs := [], ignoreRootPaths := [], ignoreOnly := [] }) ∧
    (tableOf allRules lint c ≠ [] → ResolvedSpec (tableOf allRules lint c) c rc) := by
  rcases (resolve_ok_iff _ _ _ _ _).1 h with ⟨c1, hc1, hn⟩
  unfold tableOf
  refine ⟨fun hrs => newRulesConfig_empty_table _ _ _ _ hrs hn, fun hrs => ?_⟩
  have hsel := newRulesConfig_sel _ _ _ _ hrs hn
  have hsup := newRulesConfig_supp _ _ _ _ hrs hn
  cases validated with
  | false =>
    simp only [Bool.false_eq_true, if_false] at hc1
    subst hc1
    exact ⟨hsel, hsup.1, hsup.2⟩
  | true =>
    simp only [if_true] at hc1
    rcases newEnabledCheckConfig_spec c c1 hc1 with ⟨hu, he, hi, hine, hio, hione, _⟩
    refine ⟨?_, ?_, ?_⟩
    · intro x
      rw [hsel x]
      unfold Selected
      constructor
      · rintro ⟨⟨u, hu1, hx⟩, hn2⟩
        refine ⟨⟨u, (mem_effectiveUse_congr _ _ _ hu u).1 hu1, hx⟩, ?_⟩
        rintro ⟨e, he1, hb, hx2⟩
        exact hn2 ⟨e, (he e).2 he1, hb, hx2⟩
      · rintro ⟨⟨u, hu1, hx⟩, hn2⟩
        refine ⟨⟨u, (mem_effectiveUse_congr _ _ _ hu u).2 hu1, hx⟩, ?_⟩
        rintro ⟨e, he1, hb, hx2⟩
        exact hn2 ⟨e, (he e).1 he1, hb, hx2⟩
    · intro p
      rw [hsup.1 p]
      constructor
      · rintro ⟨q1, hq1, _, hn1⟩
        rcases (hi q1).1 hq1 with ⟨q, hq, hnq⟩
        have := (nav_idem hnq).1
        rw [this] at hn1; cases hn1
        exact ⟨q, hq, hine q hq, hnq⟩
      · rintro ⟨q, hq, _, hnq⟩
        exact ⟨p, (hi p).2 ⟨q, hq, hnq⟩, (nav_idem hnq).2, (nav_idem hnq).1⟩
    · intro r p
      rw [hsup.2 r p]
      constructor
      · rintro ⟨k, q1, hq1, _, hd, hn1⟩
        rcases (hio k q1).1 hq1 with ⟨q, hq, hnq⟩
        have := (nav_idem hnq).1
        rw [this] at hn1; cases hn1
        exact ⟨k, q, hq, hione k q hq, hd, hnq⟩
      · rintro ⟨k, q, hq, _, hd, hnq⟩
        exact ⟨k, p, (hio k p).2 ⟨q, hq, hnq⟩, (nav_idem hnq).2, hd, (nav_idem hnq).1⟩

/-! ### the user adds suppression entries -/

/-- `c'` is `c` with more suppression, at the level the user edits (the `lint:` / `breaking:`
    section of buf.yaml): the same `use`, and — as sets, so that position, order and duplicates
    do not matter — more `except` ids, more `ignore` paths, more `ignore_only` (key, path)
    entries. -/
structure UserMoreSuppression (c c' : CheckConfig) : Prop where
  use : ∀ x, x ∈ c'.use ↔ x ∈ c.use
  except : ∀ x ∈ c.except, x ∈ c'.except
  ignore : ∀ q ∈ c.ignore, q ∈ c'.ignore
  ignoreOnly : ∀ k q, IoHas c.ignoreOnly k q → IoHas c'.ignoreOnly k q
  disableBuiltin : c'.disableBuiltin = c.disableBuiltin

theorem UserMoreSuppression.refl (c : CheckConfig) : UserMoreSuppression c c :=
  ⟨fun _ => Iff.rfl, fun _ h => h, fun _ h => h, fun _ _ h => h, rfl⟩

theorem UserMoreSuppression.table {c c' : CheckConfig} (h : UserMoreSuppression c c')
    (allRules : List RuleRow) (lint : Bool) : tableOf allRules lint c' = tableOf allRules lint c := by
  unfold tableOf; rw [h.disableBuiltin]

/-- Add one `ignore` path. -/
def addIgnore (c : CheckConfig) (q : Str) : CheckConfig := { c with ignore := q :: c.ignore }
/-- Add one `except` id. -/
def addExcept (c : CheckConfig) (e : Id) : CheckConfig := { c with except := e :: c.except }
/-- `m[k] = append(m[k], q)` on the association list. -/
def ioInsert : List (Id × List Str) → Id → Str → List (Id × List Str)
  | [], k, q => [(k, [q])]
  | (k', ps) :: rest, k, q =>
    if k' = k then (k', q :: ps) :: rest else (k', ps) :: ioInsert rest k q
/-- Add one `ignore_only` entry: path `q` under rule-or-category id `k`. -/
def addIgnoreOnly (c : CheckConfig) (k : Id) (q : Str) : CheckConfig :=
  { c with ignoreOnly := ioInsert c.ignoreOnly k q }

theorem ioHas_ioInsert : ∀ (m : List (Id × List Str)) (k : Id) (q : Str) (k1 : Id) (q1 : Str),
    IoHas (ioInsert m k q) k1 q1 ↔ IoHas m k1 q1 ∨ (k1 = k ∧ q1 = q)
  | [], k, q, k1, q1 => by
    simp [ioInsert, IoHas]
    constructor
    · rintro ⟨ps, ⟨h1, h2⟩, h3⟩; subst h2; simp at h3; exact ⟨h1, h3⟩
    · rintro ⟨h1, h2⟩; exact ⟨[q], ⟨h1, rfl⟩, by simp [h2]⟩
  | (k', ps) :: rest, k, q, k1, q1 => by
    unfold ioInsert
    by_cases hk : k' = k
    · subst hk
      simp only [if_true]
      constructor
      · rintro ⟨ps1, hm, hq⟩
        rcases List.mem_cons.1 hm with hm | hm
        · cases hm
          rcases List.mem_cons.1 hq with hq | hq
          · exact Or.inr ⟨rfl, hq⟩
          · exact Or.inl ⟨ps, by simp, hq⟩
        · exact Or.inl ⟨ps1, List.mem_cons_of_mem _ hm, hq⟩
      · rintro (⟨ps1, hm, hq⟩ | ⟨h1, h2⟩)
        · rcases List.mem_cons.1 hm with hm | hm
          · cases hm; exact ⟨q :: ps, by simp, List.mem_cons_of_mem _ hq⟩
          · exact ⟨ps1, List.mem_cons_of_mem _ hm, hq⟩
        · subst h1; subst h2; exact ⟨q1 :: ps, by simp, by simp⟩
    · simp only [hk, if_false]
      have ih := ioHas_ioInsert rest k q k1 q1
      constructor
      · rintro ⟨ps1, hm, hq⟩
        rcases List.mem_cons.1 hm with hm | hm
        · cases hm; exact Or.inl ⟨ps, by simp, hq⟩
        · rcases ih.1 ⟨ps1, hm, hq⟩ with ⟨ps2, h2, hq2⟩ | h
          · exact Or.inl ⟨ps2, List.mem_cons_of_mem _ h2, hq2⟩
          · exact Or.inr h
      · rintro (⟨ps1, hm, hq⟩ | h)
        · rcases List.mem_cons.1 hm with hm | hm
          · cases hm; exact ⟨ps, by simp, hq⟩
          · rcases ih.2 (Or.inl ⟨ps1, hm, hq⟩) with ⟨ps2, h2, hq2⟩
            exact ⟨ps2, List.mem_cons_of_mem _ h2, hq2⟩
        · rcases ih.2 (Or.inr h) with ⟨ps2, h2, hq2⟩
          exact ⟨ps2, List.mem_cons_of_mem _ h2, hq2⟩

theorem addIgnore_more (c : CheckConfig) (q : Str) : UserMoreSuppression c (addIgnore c q) :=
  ⟨fun _ => Iff.rfl, fun _ h => h, fun _ h => List.mem_cons_of_mem _ h, fun _ _ h => h, rfl⟩
theorem addExcept_more (c : CheckConfig) (e : Id) : UserMoreSuppression c (addExcept c e) :=
  ⟨fun _ => Iff.rfl, fun _ h => List.mem_cons_of_mem _ h, fun _ h => h, fun _ _ h => h, rfl⟩
theorem addIgnoreOnly_more (c : CheckConfig) (k : Id) (q : Str) : UserMoreSuppression c (addIgnoreOnly c k q) :=
  ⟨fun _ => Iff.rfl, fun _ h => h, fun _ h => h,
   fun k1 q1 h => (ioHas_ioInsert c.ignoreOnly k q k1 q1).2 (Or.inl h), rfl⟩

/-! ### … which resolves to `MoreSuppression` -/

theorem mkConfig_rules (lint : Bool) (rc : RulesConfig) (a b c : Bool) : (mkConfig lint rc a b c).rules = rc := by
  cases lint <;> rfl

/-- User-level suppression additions resolve — through `newEnabledCheckConfig` (dedupe, sort,
    path normalisation, conflict check) and `newRulesConfig` (category expansion and deprecation
    replacement of `except` ids and `ignore_only` keys, path normalisation) — to a configuration
    that is `MoreSuppression` than before.  Options may be switched on at the same time. -/
theorem resolve_moreSuppression (allRules : List RuleRow) (lint validated : Bool) (c c' : CheckConfig)
    (rc rc' : RulesConfig) (hu : UserMoreSuppression c c')
    (h : resolve allRules lint validated c = .ok rc) (h' : resolve allRules lint validated c' = .ok rc')
    (aci iup exi aci' iup' exi' : Bool)
    (ha : aci = true → aci' = true) (hi : iup = true → iup' = true) (he : exi = true → exi' = true) :
    MoreSuppression (mkConfig lint rc aci iup exi) (mkConfig lint rc' aci' iup' exi') := by
  have hs := resolve_spec _ _ _ _ _ h
  have hs' := resolve_spec _ _ _ _ _ h'
  rw [hu.table] at hs'
  have hopts : MoreSuppression (mkConfig lint rc aci iup exi) (mkConfig lint rc aci' iup' exi') := by
    cases lint
    · exact ⟨fun _ h => h, fun _ h => h, fun _ h => h, he, hi, fun h => (by cases h), rfl⟩
    · exact ⟨fun _ h => h, fun _ h => h, fun _ h => h, fun h => (by cases h), fun h => (by cases h), ha, rfl⟩
  by_cases hrs : tableOf allRules lint c = []
  · rw [hs'.1 hrs, ← hs.1 hrs]; exact hopts
  · have S := hs.2 hrs
    have S' := hs'.2 hrs
    refine ⟨?_, ?_, ?_, ?_, ?_, ?_, ?_⟩
    · intro r hr
      rw [mkConfig_rules] at hr ⊢
      rcases (S'.sel r).1 hr with ⟨⟨u, hu1, hx⟩, hn⟩
      refine (S.sel r).2 ⟨⟨u, (mem_effectiveUse_congr _ _ _ hu.use u).1 hu1, hx⟩, ?_⟩
      rintro ⟨e, he1, hb, hx2⟩
      exact hn ⟨e, hu.except e he1, hb, hx2⟩
    · intro p hp
      rw [mkConfig_rules] at hp ⊢
      rcases (S.ignore p).1 hp with ⟨q, hq, hne, hn⟩
      exact (S'.ignore p).2 ⟨q, hu.ignore q hq, hne, hn⟩
    · rintro ⟨r, p⟩ hp
      rw [mkConfig_rules] at hp ⊢
      rcases (S.ignoreOnly r p).1 hp with ⟨k, q, hq, hne, hd, hn⟩
      exact (S'.ignoreOnly r p).2 ⟨k, q, hu.ignoreOnly k q hq, hne, hd, hn⟩
    · have := hopts.imports; revert this; cases lint <;> exact id
    · have := hopts.unstable; revert this; cases lint <;> exact id
    · have := hopts.comments; revert this; cases lint <;> exact id
    · cases lint <;> rfl

/-! ### scope of a user-level addition -/

/-- Ignore path `p` covers (component-wise) the file or the against-file of the annotation. -/
def PathCovers (img : Image) (a : Annot) (p : Str) : Prop :=
  (∃ x, a.loc = some x ∧ equalsOrContainsPath p (fileAt img.files x.file).path = true) ∨
  (∃ x, a.against = some x ∧ equalsOrContainsPath p (fileAt img.againstFiles x.file).path = true)

/-- Why an annotation kept under `c` is no longer kept under `c'`, in the user's terms: a NEW
    `except` id denoting the annotation's rule, a NEW `ignore` path whose normal form covers the
    annotation's file, or a NEW `ignore_only` entry whose key denotes the annotation's rule and
    whose path's normal form covers the annotation's file. -/
def UserScope (rs : List RuleRow) (c c' : CheckConfig) (img : Image) (a : Annot) : Prop :=
  (∃ e ∈ c'.except, e ∉ c.except ∧ blankId e = false ∧ a.ruleId ∈ denote rs e) ∨
  (∃ q ∈ c'.ignore, q ∉ c.ignore ∧ ∃ p, normalizeAndValidate q = .ok p ∧ PathCovers img a p) ∨
  (∃ k q, IoHas c'.ignoreOnly k q ∧ ¬ IoHas c.ignoreOnly k q ∧ a.ruleId ∈ denote rs k ∧
    ∃ p, normalizeAndValidate q = .ok p ∧ PathCovers img a p)

theorem user_scoped (allRules : List RuleRow) (lint validated : Bool) (c c' : CheckConfig)
    (rc rc' : RulesConfig) (hu : UserMoreSuppression c c')
    (h : resolve allRules lint validated c = .ok rc) (h' : resolve allRules lint validated c' = .ok rc')
    (aci iup exi : Bool) (img : Image) (a : Annot)
    (hk : Kept (mkConfig lint rc aci iup exi) img a) (hk' : ¬ Kept (mkConfig lint rc' aci iup exi) img a) :
    UserScope (tableOf allRules lint c) c c' img a := by
  have hs := resolve_spec _ _ _ _ _ h
  have hs' := resolve_spec _ _ _ _ _ h'
  rw [hu.table] at hs'
  rcases hk with ⟨hk1, hk2, hk3⟩
  rw [mkConfig_rules] at hk2
  by_cases hrs : tableOf allRules lint c = []
  · rw [hs.1 hrs] at hk2; cases hk2
  · have S := hs.2 hrs
    have S' := hs'.2 hrs
    by_cases hr : a.ruleId ∈ rc'.ruleIDs
    · have hsup' : AnnotSuppressed (mkConfig lint rc' aci iup exi) img a := by
        apply Classical.byContradiction
        intro hn; exact hk' ⟨hk1, by rw [mkConfig_rules]; exact hr, hn⟩
      -- a clause newly holds at one of the two locations
      have key : ∀ (fs : List FileInfo) (x : Loc),
          Suppressed (mkConfig lint rc' aci iup exi) a.ruleId (fileAt fs x.file) x.sourcePath →
          ¬ Suppressed (mkConfig lint rc aci iup exi) a.ruleId (fileAt fs x.file) x.sourcePath →
          (∃ q ∈ c'.ignore, q ∉ c.ignore ∧ ∃ p, normalizeAndValidate q = .ok p ∧
              equalsOrContainsPath p (fileAt fs x.file).path = true) ∨
          (∃ k q, IoHas c'.ignoreOnly k q ∧ ¬ IoHas c.ignoreOnly k q ∧
              a.ruleId ∈ denote (tableOf allRules lint c) k ∧
              ∃ p, normalizeAndValidate q = .ok p ∧ equalsOrContainsPath p (fileAt fs x.file).path = true) := by
        intro fs x hsx hnx
        rcases newlySuppressed_of hsx hnx with hc | hc | hc | hc | hc
        · exfalso
          rcases hc with ⟨h1, h2⟩
          apply h2
          unfold ImportClause at h1 ⊢
          cases lint <;> exact h1
        · rcases hc with ⟨p, hp, hnp, hcov⟩
          rw [mkConfig_rules] at hp hnp
          rcases (S'.ignore p).1 hp with ⟨q, hq, hne, hn⟩
          left
          refine ⟨q, hq, ?_, p, hn, hcov⟩
          intro hin; exact hnp ((S.ignore p).2 ⟨q, hin, hne, hn⟩)
        · rcases hc with ⟨p, hp, hnp, hcov⟩
          rw [mkConfig_rules] at hp hnp
          rcases (S'.ignoreOnly _ p).1 hp with ⟨k, q, hq, hne, hd, hn⟩
          right
          refine ⟨k, q, hq, ?_, hd, p, hn, hcov⟩
          intro hin; exact hnp ((S.ignoreOnly _ p).2 ⟨k, q, hin, hne, hd, hn⟩)
        · exfalso
          rcases hc with ⟨h1, h2⟩
          apply h2
          unfold UnstableClause at h1 ⊢
          cases lint <;> exact h1
        · exfalso
          rcases hc with ⟨h1, h2⟩
          apply h2
          unfold CommentClause at h1 ⊢
          cases lint <;> exact h1
      rcases hsup' with ⟨x, hx, hsx⟩ | ⟨x, hx, hsx⟩
      · rcases key img.files x hsx (fun hh => hk3 (Or.inl ⟨x, hx, hh⟩)) with ⟨q, hq, hnq, p, hn, hcov⟩ | ⟨k, q, hq, hnq, hd, p, hn, hcov⟩
        · exact Or.inr (Or.inl ⟨q, hq, hnq, p, hn, Or.inl ⟨x, hx, hcov⟩⟩)
        · exact Or.inr (Or.inr ⟨k, q, hq, hnq, hd, p, hn, Or.inl ⟨x, hx, hcov⟩⟩)
      · rcases key img.againstFiles x hsx (fun hh => hk3 (Or.inr ⟨x, hx, hh⟩)) with ⟨q, hq, hnq, p, hn, hcov⟩ | ⟨k, q, hq, hnq, hd, p, hn, hcov⟩
        · exact Or.inr (Or.inl ⟨q, hq, hnq, p, hn, Or.inr ⟨x, hx, hcov⟩⟩)
        · exact Or.inr (Or.inr ⟨k, q, hq, hnq, hd, p, hn, Or.inr ⟨x, hx, hcov⟩⟩)
    · left
      rcases (S.sel _).1 hk2 with ⟨⟨u, hu1, hx⟩, hn⟩
      have hnot : ¬ Selected (tableOf allRules lint c) c'.use c'.except a.ruleId := fun hh => hr ((S'.sel _).2 hh)
      have : ∃ e ∈ c'.except, blankId e = false ∧ a.ruleId ∈ denote (tableOf allRules lint c) e := by
        apply Classical.byContradiction
        intro hne
        exact hnot ⟨⟨u, (mem_effectiveUse_congr _ _ _ hu.use u).2 hu1, hx⟩, hne⟩
      rcases this with ⟨e, he, hb, hd⟩
      exact ⟨e, he, fun hin => hn ⟨e, hin, hb, hd⟩, hb, hd⟩

/-! ### comment edits: element identity instead of positions -/

/-- The element a location points at: file (index in the image) and SOURCE PATH of the
    declaration.  Inserting or editing a comment changes neither; it does change the line and
    column numbers of everything below it. -/
def locElem (l : Option Loc) : Option (Nat × SPath) := l.map (fun x => (x.file, x.sourcePath))

/-- `a'` is the annotation `a` of the same rule, with the same message, on the same elements —
    positions (line / column) are free. -/
structure SameElement (a a' : Annot) : Prop where
  ruleId : a'.ruleId = a.ruleId
  message : a'.message = a.message
  loc : locElem a'.loc = locElem a.loc
  against : locElem a'.against = locElem a.against

theorem SameElement.refl (a : Annot) : SameElement a a := ⟨rfl, rfl, rfl, rfl⟩

/-- `img'` is `img` after a comment-only edit of its sources: the files keep path / import flag /
    package stability and carry at least the directives they carried (per element); every
    single-rule annotation of the edited image is an annotation of the original one on the same
    element (comment edits create no violation; they may shift every position, and may remove
    violations of the COMMENT_* rules). -/
structure MoreCommentsSrc (img img' : Image) : Prop where
  annots : ∀ a' ∈ img'.annots, ∃ a ∈ img.annots, SameElement a a'
  files : ∀ i, MoreComments (fileAt img.files i) (fileAt img'.files i)
  againstFiles : ∀ i, MoreComments (fileAt img.againstFiles i) (fileAt img'.againstFiles i)

theorem MoreCommentsImg.toSrc {img img' : Image} (h : MoreCommentsImg img img') : MoreCommentsSrc img img' :=
  ⟨fun a' ha' => ⟨a', by rw [← h.annots]; exact ha', SameElement.refl a'⟩, h.files, h.againstFiles⟩

theorem locElem_some {l l' : Option Loc} (h : locElem l' = locElem l) {x : Loc} (hx : l = some x) :
    ∃ x', l' = some x' ∧ x'.file = x.file ∧ x'.sourcePath = x.sourcePath := by
  subst hx
  cases l' with
  | none => simp [locElem] at h
  | some x' =>
    simp only [locElem, Option.map_some, Option.some.injEq, Prod.mk.injEq] at h
    exact ⟨x', rfl, h.1, h.2⟩

theorem LocSuppressed.mono_elem {cfg cfg' : Config} {fs fs' : List FileInfo} (hc : MoreSuppression cfg cfg')
    (hf : ∀ i, MoreComments (fileAt fs i) (fileAt fs' i)) {r : Id} {l l' : Option Loc}
    (hl : locElem l' = locElem l) (h : LocSuppressed cfg fs r l) : LocSuppressed cfg' fs' r l' := by
  rcases h with ⟨x, hx, hs⟩
  rcases locElem_some hl hx with ⟨x', hx', h1, h2⟩
  refine ⟨x', hx', ?_⟩
  rw [h1, h2]
  exact hs.mono hc (hf _)

/-- Suppression is monotone in the configuration AND in the comments, for annotations identified
    by element (not by position). -/
theorem AnnotSuppressed.mono_elem {cfg cfg' : Config} {img img' : Image} (hc : MoreSuppression cfg cfg')
    (hi : MoreCommentsSrc img img') {a a' : Annot} (hs : SameElement a a')
    (h : AnnotSuppressed cfg img a) : AnnotSuppressed cfg' img' a' := by
  unfold AnnotSuppressed at h ⊢
  rw [hs.ruleId]
  rcases h with h | h
  · exact Or.inl (h.mono_elem hc hi.files hs.loc)
  · exact Or.inr (h.mono_elem hc hi.againstFiles hs.against)

/-- Position-free part of a reported annotation: file path, rule id, message. -/
def faElem (fa : FileAnnot) : Option Str × Id × String := (fa.path, fa.type, fa.message)

theorem faElem_sameElement {img img' : Image} (hf : ∀ i, (fileAt img'.files i).path = (fileAt img.files i).path)
    {a a' : Annot} (hs : SameElement a a') : faElem (toFileAnnot img' a') = faElem (toFileAnnot img a) := by
  unfold toFileAnnot faElem
  cases hl : a.loc with
  | none =>
    have : a'.loc = none := by
      have := hs.loc; rw [hl] at this
      cases hl' : a'.loc with
      | none => rfl
      | some x => rw [hl'] at this; simp [locElem] at this
    simp [this, hs.ruleId, hs.message]
  | some x =>
    rcases locElem_some hs.loc hl with ⟨x', hx', h1, _⟩
    simp [hx', hs.ruleId, hs.message, h1, hf]

/-- Kept after (more suppression, more comments) ⇒ the same element's annotation was kept before. -/
theorem kept_mono_elem {cfg cfg' : Config} {img img' : Image} (hc : MoreSuppression cfg cfg')
    (hi : MoreCommentsSrc img img') {a' : Annot} (hk' : Kept cfg' img' a') :
    ∃ a, SameElement a a' ∧ Kept cfg img a := by
  rcases hk' with ⟨h1, h2, h3⟩
  rcases hi.annots a' h1 with ⟨a, ha, hs⟩
  refine ⟨a, hs, ha, ?_, fun hsup => h3 (hsup.mono_elem hc hi hs)⟩
  rw [← hs.ruleId]; exact hc.rules _ h2

/-! ### directives only reach enclosing elements -/

theorem step_paths (st : St) (tok : Nat) (full : SPath) (i : Nat) (st' : Option St) (ps : List SPath)
    (h : step st tok full i = .ok (st', ps)) : ∀ p ∈ ps, p = full ∨ p = curPath full i := by
  unfold step at h
  cases st <;> simp only [] at h <;> (repeat' split at h) <;> cases h <;> intro p hp <;>
    simp at hp <;> simp [hp]

theorem runDfa_prefixes (full : SPath) : ∀ (ts : List Nat) (st : Option St) (i : Nat) (ps : List SPath),
    runDfa full st ts i = .ok ps → ∀ p ∈ ps, p <+: full
  | [], st, i, ps, h => by
    cases st <;> (simp [runDfa] at h; subst h; simp)
  | t :: ts, none, i, ps, h => by simp [runDfa] at h
  | t :: ts, some st, i, ps, h => by
    unfold runDfa at h
    cases h1 : step st t full i with
    | error e => simp [h1] at h
    | ok r =>
      rcases r with ⟨st', ps1⟩
      cases h2 : runDfa full st' ts (i + 1) with
      | error e => simp [h1, h2] at h
      | ok rest =>
        simp only [h1, h2, Except.ok.injEq] at h
        subst h
        intro p hp
        rcases List.mem_append.1 hp with hp | hp
        · rcases step_paths _ _ _ _ _ _ h1 p hp with hp | hp
          · subst hp; exact List.prefix_refl _
          · subst hp; exact List.take_prefix _ _
        · exact runDfa_prefixes full ts st' (i + 1) rest h2 p hp

/-- Every associated source path (where a comment directive is looked for) is a prefix of the
    annotation's source path: the annotated element itself or a declaration ENCLOSING it. -/
theorem associated_are_prefixes (sp : SPath) (ps : List SPath) (h : associatedSourcePaths sp = .ok ps) :
    ∀ p ∈ ps, p <+: sp :=
  runDfa_prefixes sp sp (some .start) 0 ps h

/-! ### the (length-prefixed) dedup key is injective on what `report` produces -/

theorem natStr_eq_itoa (n : Nat) : natStr n = BufModel.Annot.itoa n := by
  unfold natStr BufModel.Annot.itoa
  show (Nat.repr n).toList = _
  simp [Nat.repr]

theorem utf8LenStr_eq : ∀ s : Str, utf8LenStr s = BufModel.Annot.utf8Len s
  | [] => rfl
  | c :: cs => by simp [utf8LenStr, BufModel.Annot.utf8Len, utf8LenStr_eq cs]

theorem lpField_eq_lp : lpField = BufModel.Annot.lp := by
  funext s
  unfold lpField BufModel.Annot.lp
  rw [natStr_eq_itoa, utf8LenStr_eq]

theorem natStr_inj {a b : Nat} (h : natStr a = natStr b) : a = b := by
  rw [natStr_eq_itoa, natStr_eq_itoa] at h
  exact BufModel.Annot.itoa_inj h

/-- The dedup key determines the seven fields it is made of (the path as the hash sees it: ""
    for an annotation without file). -/
theorem dedupKey_fields {fa fb : FileAnnot} (h : dedupKey fa = dedupKey fb) :
    fa.path.getD [] = fb.path.getD [] ∧ fa.startLine = fb.startLine ∧ fa.startCol = fb.startCol ∧
    fa.endLine = fb.endLine ∧ fa.endCol = fb.endCol ∧ fa.type = fb.type ∧ fa.message = fb.message := by
  unfold dedupKey at h
  rw [lpField_eq_lp] at h
  have := BufModel.Annot.flatMap_lp_inj _ _ (by simp) h
  simp only [List.cons.injEq, and_true] at this
  rcases this with ⟨h1, h2, h3, h4, h5, h6, h7⟩
  exact ⟨h1, natStr_inj h2, natStr_inj h3, natStr_inj h4, natStr_inj h5,
    String.toList_inj.1 h6, String.toList_inj.1 h7⟩

/-- What `annotationToFileAnnotation` produces: no file ⇔ start line 0 (locations are 1-based). -/
def FaWF (fa : FileAnnot) : Prop := fa.path = none ↔ fa.startLine = 0

theorem toFileAnnot_wf (img : Image) (a : Annot) : FaWF (toFileAnnot img a) := by
  unfold FaWF toFileAnnot
  cases a.loc <;> simp

theorem dedupKey_inj_wf {fa fb : FileAnnot} (ha : FaWF fa) (hb : FaWF fb) (h : dedupKey fa = dedupKey fb) :
    fa = fb := by
  rcases dedupKey_fields h with ⟨h1, h2, h3, h4, h5, h6, h7⟩
  have hp : fa.path = fb.path := by
    unfold FaWF at ha hb
    cases hpa : fa.path with
    | none =>
      have := ha.1 hpa
      rw [h2] at this
      rw [hb.2 this]
    | some p =>
      cases hpb : fb.path with
      | none =>
        have := hb.1 hpb
        rw [← h2] at this
        rw [ha.2 this] at hpa; cases hpa
      | some p' =>
        rw [hpa, hpb] at h1
        simp only [Option.getD_some] at h1
        rw [h1]
  cases fa; cases fb
  simp only [FileAnnot.mk.injEq]
  exact ⟨hp, h2, h3, h4, h5, h6, h7⟩

theorem report_wf (cfg : Config) (img : Image) (out : List FileAnnot) (h : report cfg img = .ok out) :
    ∀ fa ∈ out, FaWF fa := by
  intro fa hfa
  rcases (report_spec cfg img out h).2.1 fa hfa with ⟨a, _, rfl⟩
  exact toFileAnnot_wf img a

/-- `report`, exactly: the reported annotations are the file annotations of the kept ones. -/
theorem report_mem_iff (cfg : Config) (img : Image) (out : List FileAnnot) (h : report cfg img = .ok out)
    (fa : FileAnnot) : fa ∈ out ↔ ∃ a, Kept cfg img a ∧ toFileAnnot img a = fa := by
  have hs := report_spec cfg img out h
  constructor
  · exact hs.2.1 fa
  · rintro ⟨a, hk, rfl⟩
    rcases hs.2.2 a hk with ⟨fb, hfb, hkey⟩
    rw [← dedupKey_inj_wf (report_wf cfg img out h fb hfb) (toFileAnnot_wf img a) hkey]
    exact hfb

/-! ### a worked example shared by the non-vacuity `example`s of Props/C06.lean -/

/-- Lint annotations in two directories. -/
def exImg2 : Image :=
  { files := [{ path := "a/v1/a.proto".toList, isImport := false, unstable := false, comments := [] },
              { path := "b/b.proto".toList, isImport := false, unstable := false, comments := [] }],
    againstFiles := [],
    annots := [{ ruleId := "MESSAGE_PASCAL_CASE", loc := some ⟨0, [4, 0, 1], 3, 8, 3, 19⟩, against := none, message := "m" },
               { ruleId := "FIELD_LOWER_SNAKE_CASE", loc := some ⟨0, [4, 0, 2, 0, 1], 4, 9, 4, 17⟩, against := none, message := "f" },
               { ruleId := "ENUM_PASCAL_CASE", loc := some ⟨1, [5, 0, 1], 2, 5, 2, 9⟩, against := none, message := "e" }] }

/-- `exImg2` after a comment-only edit: a directive line was INSERTED above message 0 of
    a/v1/a.proto, so every position below it moved down by one line; source paths are unchanged. -/
def exImg2c : Image :=
  { files := [{ path := "a/v1/a.proto".toList, isImport := false, unstable := false,
                comments := [([4, 0], " buf:lint:ignore FIELD_LOWER_SNAKE_CASE\n".toList)] },
              { path := "b/b.proto".toList, isImport := false, unstable := false, comments := [] }],
    againstFiles := [],
    annots := [{ ruleId := "MESSAGE_PASCAL_CASE", loc := some ⟨0, [4, 0, 1], 4, 8, 4, 19⟩, against := none, message := "m" },
               { ruleId := "FIELD_LOWER_SNAKE_CASE", loc := some ⟨0, [4, 0, 2, 0, 1], 5, 9, 5, 17⟩, against := none, message := "f" },
               { ruleId := "ENUM_PASCAL_CASE", loc := some ⟨1, [5, 0, 1], 2, 5, 2, 9⟩, against := none, message := "e" }] }

/-- the field annotation before / after the edit -/
def exF : Annot := { ruleId := "FIELD_LOWER_SNAKE_CASE", loc := some ⟨0, [4, 0, 2, 0, 1], 4, 9, 4, 17⟩, against := none, message := "f" }
def exF' : Annot := { ruleId := "FIELD_LOWER_SNAKE_CASE", loc := some ⟨0, [4, 0, 2, 0, 1], 5, 9, 5, 17⟩, against := none, message := "f" }

def exC : CheckConfig :=
  { use := ["MESSAGE_PASCAL_CASE", "FIELD_LOWER_SNAKE_CASE", "ENUM_PASCAL_CASE", "MESSAGE_PASCAL_CASE"], except := [],
    ignore := [], ignoreOnly := [("ENUM_PASCAL_CASE", ["c".toList])], disableBuiltin := false }

theorem noComments_ignoresAt (f : FileInfo) (hf : f.comments = []) (pre : Str) (r : Id) (p : SPath) :
    commentIgnoresAt f pre r p = false := by
  simp [commentIgnoresAt, leadingComments, hf, splitTrimLinesNoEmpty, splitOnChar, trimSpace]

/-- positions differ, elements agree, one more directive -/
theorem exImg2_moreComments : MoreCommentsSrc exImg2 exImg2c := by
  refine ⟨?_, ?_, ?_⟩
  · intro a' ha'
    simp only [exImg2c, List.mem_cons, List.not_mem_nil, or_false] at ha'
    rcases ha' with rfl | rfl | rfl
    · exact ⟨{ ruleId := "MESSAGE_PASCAL_CASE", loc := some ⟨0, [4, 0, 1], 3, 8, 3, 19⟩, against := none, message := "m" },
        by simp [exImg2], ⟨rfl, rfl, rfl, rfl⟩⟩
    · exact ⟨exF, by simp [exImg2, exF], ⟨rfl, rfl, rfl, rfl⟩⟩
    · exact ⟨{ ruleId := "ENUM_PASCAL_CASE", loc := some ⟨1, [5, 0, 1], 2, 5, 2, 9⟩, against := none, message := "e" },
        by simp [exImg2], ⟨rfl, rfl, rfl, rfl⟩⟩
  · intro i
    rcases i with _ | _ | i
    · exact ⟨rfl, rfl, rfl, fun pre r p h => by rw [noComments_ignoresAt _ rfl] at h; cases h⟩
    · exact MoreComments.refl _
    · exact MoreComments.refl _
  · intro i; exact MoreComments.refl _

end BufModel.Rules
