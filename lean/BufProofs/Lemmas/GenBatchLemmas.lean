import BufModel.GenBatch
import BufProofs.Lemmas.GenerateLemmas
/-
  Helper lemmas for the batching key of `buf generate` (C12, per-plugin type filters):
  `fmt.Sprintf("%v", []string)` is injective on lists of non-empty names without blanks, the
  representative of a plugin has the plugin's own key.
-/
namespace BufModel.GenBatch
open BufModel.Path BufModel.Generate

/-- A name that `%v` renders unambiguously: not empty, no blank.  Every name that can denote an
    element or a package of an image is one (protobuf identifiers and dots). -/
def OkName (s : Str) : Prop := s ≠ [] ∧ ' ' ∉ s

theorem blank_split_unique : ∀ (w1 w2 r1 r2 : Str), ' ' ∉ w1 → ' ' ∉ w2 →
    w1 ++ ' ' :: r1 = w2 ++ ' ' :: r2 → w1 = w2 ∧ r1 = r2
  | [], [], _, _, _, _, h => by
    simp only [List.nil_append, List.cons.injEq, true_and] at h
    exact ⟨rfl, h⟩
  | [], d :: w2, _, _, _, h2, h => by
    simp only [List.nil_append, List.cons_append, List.cons.injEq] at h
    exact absurd (h.1 ▸ List.mem_cons_self) h2
  | c :: w1, [], _, _, h1, _, h => by
    simp only [List.nil_append, List.cons_append, List.cons.injEq] at h
    exact absurd (h.1 ▸ List.mem_cons_self) h1
  | c :: w1, d :: w2, r1, r2, h1, h2, h => by
    simp only [List.cons_append, List.cons.injEq] at h
    have ih := blank_split_unique w1 w2 r1 r2 (fun hm => h1 (List.mem_cons_of_mem _ hm))
      (fun hm => h2 (List.mem_cons_of_mem _ hm)) h.2
    exact ⟨by rw [h.1, ih.1], ih.2⟩

theorem joinSp_cons_cons (x y : Str) (rest : List Str) :
    joinSp (x :: y :: rest) = x ++ ' ' :: joinSp (y :: rest) := rfl

theorem joinSp_injective : ∀ (a b : List Str), (∀ s ∈ a, OkName s) → (∀ s ∈ b, OkName s) →
    joinSp a = joinSp b → a = b
  | [], [], _, _, _ => rfl
  | [], [y], _, hb, h => by
    have := (hb y List.mem_cons_self).1
    exact absurd h.symm this
  | [], y :: z :: r, _, _, h => by
    rw [joinSp_cons_cons] at h
    have : (y ++ ' ' :: joinSp (z :: r)) ≠ [] := by simp
    exact absurd h.symm this
  | [x], [], ha, _, h => by
    have := (ha x List.mem_cons_self).1
    exact absurd h this
  | [x], [y], _, _, h => by
    show [x] = [y]
    have h' : x = y := h
    rw [h']
  | [x], y :: z :: r, ha, _, h => by
    rw [joinSp_cons_cons] at h
    have hx := (ha x List.mem_cons_self).2
    have h' : x = y ++ ' ' :: joinSp (z :: r) := h
    exact absurd (h' ▸ (List.mem_append_right y List.mem_cons_self)) hx
  | x :: x2 :: as, [], _, _, h => by
    rw [joinSp_cons_cons] at h
    have : (x ++ ' ' :: joinSp (x2 :: as)) ≠ [] := by simp
    exact absurd h this
  | x :: x2 :: as, [y], _, hb, h => by
    rw [joinSp_cons_cons] at h
    have hy := (hb y List.mem_cons_self).2
    have h' : x ++ ' ' :: joinSp (x2 :: as) = y := h
    exact absurd (h' ▸ (List.mem_append_right x List.mem_cons_self)) hy
  | x :: x2 :: as, y :: z :: r, ha, hb, h => by
    rw [joinSp_cons_cons, joinSp_cons_cons] at h
    have hs := blank_split_unique x y _ _ (ha x List.mem_cons_self).2 (hb y List.mem_cons_self).2 h
    have ih := joinSp_injective (x2 :: as) (z :: r) (fun s hs' => ha s (List.mem_cons_of_mem _ hs'))
      (fun s hs' => hb s (List.mem_cons_of_mem _ hs')) hs.2
    rw [hs.1, ih]

theorem render_inj (a b : List Str) (ha : ∀ s ∈ a, OkName s) (hb : ∀ s ∈ b, OkName s)
    (h : render a = render b) : a = b := by
  unfold render at h
  simp only [List.cons.injEq, true_and] at h
  exact joinSp_injective a b ha hb (List.append_cancel_right h)

/-- the names of a plugin configuration are renderable -/
def NamesOK (p : PCfg) : Prop := (∀ s ∈ p.types, OkName s) ∧ (∀ s ∈ p.excludes, OkName s)

theorem key_inj (p q : PCfg) (hp : NamesOK p) (hq : NamesOK q) (h : key p = key q) :
    p.types.Perm q.types ∧ p.excludes.Perm q.excludes ∧ p.strategyAll = q.strategyAll ∧ p.remote = q.remote := by
  unfold key at h
  simp only [Key.mk.injEq] at h
  obtain ⟨h1, h2, h3, h4⟩ := h
  have ht := render_inj _ _ (fun s hs => hp.1 s (mem_sortStrs.mp hs)) (fun s hs => hq.1 s (mem_sortStrs.mp hs)) h1
  have he := render_inj _ _ (fun s hs => hp.2 s (mem_sortStrs.mp hs)) (fun s hs => hq.2 s (mem_sortStrs.mp hs)) h2
  refine ⟨?_, ?_, h3, h4⟩
  · exact (sortStrs_perm p.types).symm.trans (ht ▸ sortStrs_perm q.types)
  · exact (sortStrs_perm p.excludes).symm.trans (he ▸ sortStrs_perm q.excludes)

/-- the representative is a plugin of the configuration (or the plugin itself) with the same key -/
theorem repWith_spec {κ : Type} [DecidableEq κ] (k : PCfg → κ) (ps : List PCfg) (p : PCfg) :
    k (repWith k ps p) = k p ∧ (repWith k ps p ∈ ps ∨ repWith k ps p = p) := by
  unfold repWith
  cases hf : ps.find? (fun q => decide (k q = k p)) with
  | none => exact ⟨rfl, Or.inr rfl⟩
  | some r =>
    have h1 := List.find?_some hf
    have h2 := List.mem_of_find?_eq_some hf
    simp only [decide_eq_true_eq] at h1
    exact ⟨h1, Or.inl h2⟩

end BufModel.GenBatch
