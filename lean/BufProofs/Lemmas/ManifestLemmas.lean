import BufModel.Manifest
/-
  Helper lemmas for C08 about the bufcas model: hex, split/join/cut, insertion sort,
  digest strings, file-node and manifest text.
-/
namespace BufModel.Manifest
open BufModel.Path

/-! ### utf8 -/

theorem utf8_inj {a b : Str} (h : utf8 a = utf8 b) : a = b := by
  unfold utf8 at h
  apply String.ofList_injective
  apply String.toByteArray_inj.mp
  apply ByteArray.ext
  apply Array.toList_inj.mp
  simpa using h

/-! ### hex -/

theorem hexVal_hexDigit : ∀ n : Fin 16, hexVal (hexDigit n.val) = some n.val := by decide

theorem hexDigit_plain : ∀ n : Fin 16,
    hexDigit n.val ≠ ' ' ∧ hexDigit n.val ≠ '\n' ∧ hexDigit n.val ≠ ':' := by decide

theorem hexDecode_hexEncode (bs : Bytes) : hexDecode (hexEncode bs) = some bs := by
  induction bs with
  | nil => rfl
  | cons b bs ih =>
    have h1 : b.toNat / 16 < 16 := by have := b.toNat_lt; omega
    have h2 : b.toNat % 16 < 16 := Nat.mod_lt _ (by decide)
    have e1 := hexVal_hexDigit ⟨b.toNat / 16, h1⟩
    have e2 := hexVal_hexDigit ⟨b.toNat % 16, h2⟩
    simp only at e1 e2
    simp only [hexEncode, hexDecode, e1, e2, ih]
    have : b.toNat / 16 * 16 + b.toNat % 16 = b.toNat := by omega
    rw [this, UInt8.ofNat_toNat]

theorem hexEncode_inj {a b : Bytes} (h : hexEncode a = hexEncode b) : a = b := by
  have := hexDecode_hexEncode a
  rw [h, hexDecode_hexEncode] at this
  exact (Option.some.inj this).symm

theorem hexEncode_plain (bs : Bytes) : ∀ c ∈ hexEncode bs, c ≠ ' ' ∧ c ≠ '\n' ∧ c ≠ ':' := by
  induction bs with
  | nil => intro c h; cases h
  | cons b bs ih =>
    have h1 : b.toNat / 16 < 16 := by have := b.toNat_lt; omega
    have h2 : b.toNat % 16 < 16 := Nat.mod_lt _ (by decide)
    intro c hc
    simp only [hexEncode, List.mem_cons] at hc
    rcases hc with rfl | rfl | hc
    · exact hexDigit_plain ⟨_, h1⟩
    · exact hexDigit_plain ⟨_, h2⟩
    · exact ih c hc

/-! ### split / join / cut on a character -/

theorem splitOnC_ne_nil (sep : Char) (s : Str) : splitOnC sep s ≠ [] := by
  induction s with
  | nil => simp [splitOnC]
  | cons c cs ih =>
    unfold splitOnC
    split
    · simp
    · split <;> simp

theorem splitOnC_cons_ne (sep c : Char) (cs : Str) (h : c ≠ sep) (hd : Str) (tl : List Str)
    (heq : splitOnC sep cs = hd :: tl) : splitOnC sep (c :: cs) = (c :: hd) :: tl := by
  simp [splitOnC, h, heq]

theorem splitOnC_piece (sep : Char) (p : Str) (h : sep ∉ p) : splitOnC sep p = [p] := by
  induction p with
  | nil => rfl
  | cons c cs ih =>
    have hc : c ≠ sep := fun e => h (by simp [e])
    have hcs : sep ∉ cs := fun e => h (by simp [e])
    exact splitOnC_cons_ne sep c cs hc _ _ (ih hcs)

theorem splitOnC_append_sep (sep : Char) (p : Str) (h : sep ∉ p) (rest : Str) :
    splitOnC sep (p ++ sep :: rest) = p :: splitOnC sep rest := by
  induction p with
  | nil => simp [splitOnC]
  | cons c cs ih =>
    have hc : c ≠ sep := fun e => h (by simp [e])
    have hcs : sep ∉ cs := fun e => h (by simp [e])
    show splitOnC sep (c :: (cs ++ sep :: rest)) = _
    exact splitOnC_cons_ne sep c _ hc _ _ (ih hcs)

theorem splitOnC_joinC (sep : Char) (ls : List Str) (hne : ls ≠ []) (h : ∀ l ∈ ls, sep ∉ l) :
    splitOnC sep (joinC sep ls) = ls := by
  induction ls with
  | nil => exact absurd rfl hne
  | cons l rest ih =>
    cases rest with
    | nil => simpa [joinC] using splitOnC_piece sep l (h l (by simp))
    | cons r rest' =>
      have : joinC sep (l :: r :: rest') = l ++ sep :: joinC sep (r :: rest') := rfl
      rw [this, splitOnC_append_sep sep l (h l (by simp))]
      rw [ih (by simp) (fun x hx => h x (by simp [hx]))]

theorem joinC_inj (sep : Char) {a b : List Str} (ha : a ≠ []) (hb : b ≠ [])
    (hsa : ∀ l ∈ a, sep ∉ l) (hsb : ∀ l ∈ b, sep ∉ l) (h : joinC sep a = joinC sep b) : a = b := by
  have := splitOnC_joinC sep a ha hsa
  rw [h, splitOnC_joinC sep b hb hsb] at this
  exact this.symm

theorem cutC_append (sep : Char) (a : Str) (h : sep ∉ a) (b : Str) :
    cutC sep (a ++ sep :: b) = some (a, b) := by
  induction a with
  | nil => simp [cutC]
  | cons c cs ih =>
    have hc : c ≠ sep := fun e => h (by simp [e])
    have hcs : sep ∉ cs := fun e => h (by simp [e])
    show cutC sep (c :: (cs ++ sep :: b)) = _
    unfold cutC
    rw [if_neg hc, ih hcs]

theorem cut2sp_append (a : Str) (h : ' ' ∉ a) (p : Str) :
    cut2sp (a ++ ' ' :: ' ' :: p) = some (a, p) := by
  induction a with
  | nil => simp [cut2sp]
  | cons c cs ih =>
    have hc : c ≠ ' ' := fun e => h (by simp [e])
    have hcs : ' ' ∉ cs := fun e => h (by simp [e])
    have ih' := ih hcs
    cases cs with
    | nil =>
      show cut2sp (c :: ' ' :: ' ' :: p) = _
      have : cut2sp (' ' :: ' ' :: p) = some ([], p) := by simp [cut2sp]
      unfold cut2sp
      rw [if_neg (fun e => hc e.1), this]
    | cons d ds =>
      show cut2sp (c :: d :: (ds ++ ' ' :: ' ' :: p)) = _
      unfold cut2sp
      rw [if_neg (fun e => hc e.1)]
      have : d :: (ds ++ ' ' :: ' ' :: p) = (d :: ds) ++ ' ' :: ' ' :: p := rfl
      rw [this, ih']

/-! ### insertion sort -/

section Sorting
variable {α : Type} (le : α → α → Bool)

theorem insertBy_perm (a : α) (l : List α) : (insertBy le a l).Perm (a :: l) := by
  induction l with
  | nil => exact List.Perm.refl _
  | cons b bs ih =>
    unfold insertBy
    split
    · exact List.Perm.refl _
    · exact (List.Perm.cons b ih).trans (List.Perm.swap a b bs)

theorem sortBy_perm (l : List α) : (sortBy le l).Perm l := by
  induction l with
  | nil => exact List.Perm.refl _
  | cons a as ih => exact (insertBy_perm le a _).trans (List.Perm.cons a ih)

theorem insertBy_pairwise (htot : ∀ a b, le a b = true ∨ le b a = true)
    (htr : ∀ a b c, le a b = true → le b c = true → le a c = true) (a : α) (l : List α)
    (hl : l.Pairwise (fun x y => le x y = true)) :
    (insertBy le a l).Pairwise (fun x y => le x y = true) := by
  induction l with
  | nil => simp [insertBy]
  | cons b bs ih =>
    rw [List.pairwise_cons] at hl
    unfold insertBy
    split
    · rename_i hab
      rw [List.pairwise_cons]
      refine ⟨?_, List.pairwise_cons.mpr hl⟩
      intro x hx
      rcases List.mem_cons.mp hx with rfl | hx
      · exact hab
      · exact htr _ _ _ hab (hl.1 x hx)
    · rename_i hab
      have hba : le b a = true := by
        rcases htot a b with h | h
        · exact absurd h hab
        · exact h
      rw [List.pairwise_cons]
      refine ⟨?_, ih hl.2⟩
      intro x hx
      have := (insertBy_perm le a bs).subset hx
      rcases List.mem_cons.mp this with rfl | hx'
      · exact hba
      · exact hl.1 x hx'

theorem sortBy_pairwise (htot : ∀ a b, le a b = true ∨ le b a = true)
    (htr : ∀ a b c, le a b = true → le b c = true → le a c = true) (l : List α) :
    (sortBy le l).Pairwise (fun x y => le x y = true) := by
  induction l with
  | nil => exact List.Pairwise.nil
  | cons a as ih => exact insertBy_pairwise le htot htr a _ ih

theorem sortBy_eq_self (l : List α) (hl : l.Pairwise (fun x y => le x y = true)) :
    sortBy le l = l := by
  induction l with
  | nil => rfl
  | cons a as ih =>
    rw [List.pairwise_cons] at hl
    show insertBy le a (sortBy le as) = _
    rw [ih hl.2]
    cases as with
    | nil => rfl
    | cons b bs =>
      unfold insertBy
      rw [if_pos (hl.1 b (by simp))]

/-- Sorting is a function of the multiset, provided `le` is a total preorder that is
    antisymmetric on the elements that occur. -/
theorem sortBy_eq_of_perm (htot : ∀ a b, le a b = true ∨ le b a = true)
    (htr : ∀ a b c, le a b = true → le b c = true → le a c = true)
    {l₁ l₂ : List α} (hp : l₁.Perm l₂)
    (hanti : ∀ a b, a ∈ l₁ → b ∈ l₁ → le a b = true → le b a = true → a = b) :
    sortBy le l₁ = sortBy le l₂ := by
  apply List.Perm.eq_of_pairwise (le := fun x y => le x y = true)
  · intro a b ha hb
    have ha' := (sortBy_perm le l₁).subset ha
    have hb' := hp.symm.subset ((sortBy_perm le l₂).subset hb)
    exact hanti a b ha' hb'
  · exact sortBy_pairwise le htot htr l₁
  · exact sortBy_pairwise le htot htr l₂
  · exact (sortBy_perm le l₁).trans (hp.trans (sortBy_perm le l₂).symm)

end Sorting

/-! ### digest strings -/

theorem shake256Name_plain : ∀ c ∈ shake256Name, c ≠ ' ' ∧ c ≠ '\n' ∧ c ≠ ':' := by decide

theorem digestString_plain (d : Digest) : ∀ c ∈ digestString d, c ≠ ' ' ∧ c ≠ '\n' := by
  intro c hc
  simp only [digestString, List.mem_append, List.mem_cons] at hc
  rcases hc with h | rfl | h
  · exact ⟨(shake256Name_plain c h).1, (shake256Name_plain c h).2.1⟩
  · decide
  · exact ⟨(hexEncode_plain _ c h).1, (hexEncode_plain _ c h).2.1⟩

theorem parseDigest_digestString (d : Digest) : parseDigest (digestString d) = .ok d := by
  have hcut : cutC ':' (digestString d) = some (shake256Name, hexEncode d.val) :=
    cutC_append ':' shake256Name (fun h => (shake256Name_plain _ h).2.2 rfl) _
  have hne : digestString d ≠ [] :=
    List.append_ne_nil_of_right_ne_nil _ (List.cons_ne_nil _ _)
  unfold parseDigest
  rw [if_neg hne, hcut]
  simp only [ne_eq, not_true_eq_false, if_false, hexDecode_hexEncode]
  rw [dif_pos d.property]

theorem digestString_inj {a b : Digest} (h : digestString a = digestString b) : a = b := by
  have := parseDigest_digestString a
  rw [h, parseDigest_digestString] at this
  exact (Except.ok.inj this).symm

/-! ### file nodes -/

/-- The repaired `validateFileNodeParameters` accepts exactly the paths the old one accepted
    that contain no line feed. -/
theorem validateNodePath_ok_iff (p : Str) :
    validateNodePath p = .ok () ↔ validateNodePathOld p = .ok () ∧ '\n' ∉ p := by
  unfold validateNodePath
  cases h : validateNodePathOld p with
  | error e => simp
  | ok u =>
    cases u
    by_cases hn : '\n' ∈ p
    · simp [hn]
    · simp [hn]

/-- A path accepted by the repaired `NewFileNode` contains no line feed. -/
theorem validateNodePath_no_newline {p : Str} (h : validateNodePath p = .ok ()) : '\n' ∉ p :=
  ((validateNodePath_ok_iff p).mp h).2

theorem validateNodePath_old_of_ok {p : Str} (h : validateNodePath p = .ok ()) :
    validateNodePathOld p = .ok () :=
  ((validateNodePath_ok_iff p).mp h).1

/-- On a path the bucket-level checks accept, the only error the repaired validation can
    report is the line feed. -/
theorem validateNodePath_of_old {p : Str} (h : validateNodePathOld p = .ok ()) :
    validateNodePath p = if '\n' ∈ p then .error .pathLineFeed else .ok () := by
  unfold validateNodePath
  rw [h]

/-- The repaired `NewFileNode` is the old one restricted to line-feed-free paths. -/
theorem newFileNode_eq_old {p : Str} (d : Digest) (h : '\n' ∉ p) :
    newFileNode p d = newFileNodeOld p d := by
  unfold newFileNode newFileNodeOld validateNodePath
  cases validateNodePathOld p with
  | error e => rfl
  | ok u => cases u; simp [h]

theorem newFileNode_ok {p : Str} (d : Digest) (h : validateNodePath p = .ok ()) :
    newFileNode p d = .ok ⟨p, d⟩ := by
  simp [newFileNode, h]

theorem newFileNode_eq_ok {p : Str} {d : Digest} {n : FileNode} (h : newFileNode p d = .ok n) :
    validateNodePath p = .ok () ∧ n = ⟨p, d⟩ := by
  unfold newFileNode at h
  split at h
  · cases h
  · rename_i hv
    exact ⟨hv, (Except.ok.inj h).symm⟩

theorem parseFileNode_fileNodeString (n : FileNode) (h : validateNodePath n.path = .ok ()) :
    parseFileNode (fileNodeString n) = .ok n := by
  have hcut : cut2sp (fileNodeString n) = some (digestString n.digest, n.path) :=
    cut2sp_append _ (fun hm => (digestString_plain _ _ hm).1 rfl) _
  unfold parseFileNode
  rw [hcut]
  simp only [finishNode, parseDigest_digestString]
  exact newFileNode_ok _ h

theorem fileNodeString_no_newline (n : FileNode) (h : '\n' ∉ n.path) : '\n' ∉ fileNodeString n := by
  intro hm
  simp only [fileNodeString, List.mem_append, List.mem_cons] at hm
  rcases hm with hm | hm | hm | hm
  · exact (digestString_plain _ _ hm).2 rfl
  · exact absurd hm (by decide)
  · exact absurd hm (by decide)
  · exact h hm

/-! ### manifests -/

theorem eq_of_nodup_map {α β : Type} (f : α → β) {l : List α} (hnd : (l.map f).Nodup) {a b : α}
    (ha : a ∈ l) (hb : b ∈ l) (h : f a = f b) : a = b := by
  induction l with
  | nil => cases ha
  | cons x xs ih =>
    rw [List.map_cons, List.nodup_cons] at hnd
    rcases List.mem_cons.mp ha with rfl | ha' <;> rcases List.mem_cons.mp hb with rfl | hb'
    · rfl
    · exact absurd (List.mem_map.mpr ⟨b, hb', h.symm⟩) hnd.1
    · exact absurd (List.mem_map.mpr ⟨a, ha', h⟩) hnd.1
    · exact ih hnd.2 ha' hb'

theorem hasDupPath_false_iff (l : List FileNode) :
    hasDupPath l = false ↔ (l.map (·.path)).Nodup := by
  induction l with
  | nil => simp [hasDupPath]
  | cons n ns ih =>
    simp only [hasDupPath, Bool.or_eq_false_iff, List.map_cons, List.nodup_cons, ih]
    constructor
    · rintro ⟨h1, h2⟩
      refine ⟨?_, h2⟩
      intro hm
      rcases List.mem_map.mp hm with ⟨m, hm1, hm2⟩
      have : ns.any (fun m => m.path = n.path) = true :=
        List.any_eq_true.mpr ⟨m, hm1, by simp [hm2]⟩
      rw [h1] at this; cases this
    · rintro ⟨h1, h2⟩
      refine ⟨?_, h2⟩
      apply Bool.eq_false_iff.mpr
      intro hany
      rcases List.any_eq_true.mp hany with ⟨m, hm1, hm2⟩
      exact h1 (List.mem_map.mpr ⟨m, hm1, by simpa using hm2⟩)

theorem pathLe_total (a b : FileNode) : pathLe a b = true ∨ pathLe b a = true := by
  simp only [pathLe, decide_eq_true_eq]
  exact List.le_total _ _

theorem pathLe_trans (a b c : FileNode) (h1 : pathLe a b = true) (h2 : pathLe b c = true) :
    pathLe a c = true := by
  simp only [pathLe, decide_eq_true_eq] at *
  exact List.le_trans h1 h2

theorem pathLe_antisymm_path {a b : FileNode} (h1 : pathLe a b = true) (h2 : pathLe b a = true) :
    a.path = b.path := by
  simp only [pathLe, decide_eq_true_eq] at *
  exact List.le_antisymm h1 h2

/-- In a list with unique paths, `pathLe` is antisymmetric. -/
theorem pathLe_antisymm_of_nodup {l : List FileNode} (hnd : (l.map (·.path)).Nodup)
    {a b : FileNode} (ha : a ∈ l) (hb : b ∈ l) (h1 : pathLe a b = true) (h2 : pathLe b a = true) :
    a = b := by
  have hp := pathLe_antisymm_path h1 h2
  exact eq_of_nodup_map _ hnd ha hb hp

/-- The canonical (sorted, duplicate-free) form that `NewManifest` stores. -/
def Canonical (m : Manifest) : Prop :=
  m.Pairwise (fun x y => pathLe x y = true) ∧ (m.map (·.path)).Nodup

theorem newManifest_of_nodup (nodes : List FileNode) (h : (nodes.map (·.path)).Nodup) :
    newManifest nodes = .ok (sortBy pathLe nodes) := by
  unfold newManifest
  rw [(hasDupPath_false_iff nodes).mpr h]
  rfl

theorem newManifest_eq_ok {nodes : List FileNode} {m : Manifest} (h : newManifest nodes = .ok m) :
    (nodes.map (·.path)).Nodup ∧ m = sortBy pathLe nodes := by
  unfold newManifest at h
  split at h
  · cases h
  · rename_i hd
    exact ⟨(hasDupPath_false_iff nodes).mp (by simpa using hd), (Except.ok.inj h).symm⟩

theorem sortBy_canonical (nodes : List FileNode) (h : (nodes.map (·.path)).Nodup) :
    Canonical (sortBy pathLe nodes) :=
  ⟨sortBy_pairwise pathLe pathLe_total pathLe_trans nodes,
   (((sortBy_perm pathLe nodes).map (·.path)).nodup_iff).mpr h⟩

theorem newManifest_canonical {m : Manifest} (h : Canonical m) : newManifest m = .ok m := by
  rw [newManifest_of_nodup m h.2, sortBy_eq_self pathLe m h.1]

theorem manifestString_eq_join (m : Manifest) (hne : m ≠ []) :
    manifestString m = joinC '\n' (m.map fileNodeString) ++ ['\n'] := by
  induction m with
  | nil => exact absurd rfl hne
  | cons n ns ih =>
    cases ns with
    | nil => simp [manifestString, joinC]
    | cons n' rest =>
      have ih' := ih (by simp)
      show fileNodeString n ++ '\n' :: manifestString (n' :: rest) = _
      rw [ih']
      simp [joinC]

theorem parseLines_map (parse : Str → Except MErr FileNode) (m : List FileNode)
    (h : ∀ n ∈ m, parse (fileNodeString n) = .ok n) :
    parseLines parse (m.map fileNodeString) = .ok m := by
  induction m with
  | nil => rfl
  | cons n ns ih =>
    simp only [List.map_cons, parseLines, h n (by simp), ih (fun x hx => h x (by simp [hx]))]

theorem parseManifest_manifestString (m : Manifest) (hc : Canonical m)
    (hv : ∀ n ∈ m, validateNodePath n.path = .ok ()) :
    parseManifest (manifestString m) = .ok m := by
  have hnl : ∀ n ∈ m, '\n' ∉ n.path := fun n hn => validateNodePath_no_newline (hv n hn)
  cases hm : m with
  | nil => simp [parseManifest, parseManifestWith, manifestString, newManifest, hasDupPath, sortBy]
  | cons n ns =>
    have hne : m ≠ [] := by simp [hm]
    rw [← hm]
    have hs := manifestString_eq_join m hne
    unfold parseManifest parseManifestWith
    rw [hs]
    have h1 : joinC '\n' (m.map fileNodeString) ++ ['\n'] ≠ [] := by simp
    rw [if_neg h1]
    have h2 : ¬ ((joinC '\n' (m.map fileNodeString) ++ ['\n']).getLast? ≠ some '\n') := by simp
    rw [if_neg h2, List.dropLast_concat]
    rw [splitOnC_joinC '\n' _ (by simp [hne])
      (by intro l hl
          rcases List.mem_map.mp hl with ⟨x, hx, rfl⟩
          exact fileNodeString_no_newline x (hnl x hx))]
    rw [parseLines_map _ m (fun x hx => parseFileNode_fileNodeString x (hv x hx))]
    exact newManifest_canonical hc

theorem manifestString_inj {m₁ m₂ : Manifest} (h1 : Canonical m₁) (h2 : Canonical m₂)
    (hv1 : ∀ n ∈ m₁, validateNodePath n.path = .ok ()) (hv2 : ∀ n ∈ m₂, validateNodePath n.path = .ok ())
    (h : manifestString m₁ = manifestString m₂) : m₁ = m₂ := by
  have := parseManifest_manifestString m₁ h1 hv1
  rw [h, parseManifest_manifestString m₂ h2 hv2] at this
  exact (Except.ok.inj this).symm

end BufModel.Manifest
