import BufProofs.Lemmas.RulesLemmas
import BufProofs.Lemmas.RulesResolveLemmas
/-
  C06, strengthening round 4: (1) the handler view (`handlerView`, `runCheckH`): lint handlers
  never annotate import files; (2) exactness of ONE added ignore / ignore_only path on the
  resolved configuration: the kept annotations afterwards are exactly the kept annotations
  before whose file and against-file the path does not cover.
-/
namespace BufProofs.C06
open BufModel.Path BufModel.Rules BufGen.RuleTables

/-! ### handler view -/

theorem handlerView_files (lint : Bool) (img : Image) : (handlerView lint img).files = img.files := by
  unfold handlerView; cases lint <;> rfl

theorem handlerView_againstFiles (lint : Bool) (img : Image) :
    (handlerView lint img).againstFiles = img.againstFiles := by
  unfold handlerView; cases lint <;> rfl

theorem handlerView_breaking (img : Image) : handlerView false img = img := rfl

theorem mem_handlerView_lint (img : Image) (a : Annot) :
    a ∈ (handlerView true img).annots ↔ a ∈ img.annots ∧ locNotImport img a = true := by
  unfold handlerView
  simp [List.mem_filter]

theorem locNotImport_iff (img : Image) (a : Annot) :
    locNotImport img a = true ↔ ∀ l, a.loc = some l → (fileAt img.files l.file).isImport = false := by
  unfold locNotImport
  cases h : a.loc with
  | none => simp
  | some l =>
    simp only [Option.some.injEq, forall_eq']
    cases (fileAt img.files l.file).isImport <;> simp

theorem toFileAnnot_handlerView (lint : Bool) (img : Image) (a : Annot) :
    toFileAnnot (handlerView lint img) a = toFileAnnot img a := by
  unfold toFileAnnot
  rw [handlerView_files]

/-- When the measured handlers emit nothing on imports, the view is the image itself. -/
theorem handlerView_eq_self (lint : Bool) (img : Image)
    (hh : ∀ a ∈ img.annots, ∀ l, a.loc = some l → (fileAt img.files l.file).isImport = false) :
    handlerView lint img = img := by
  cases lint with
  | false => rfl
  | true =>
    unfold handlerView
    simp only [if_true]
    have : img.annots.filter (locNotImport img) = img.annots := by
      apply List.filter_eq_self.2
      intro a ha
      exact (locNotImport_iff img a).2 (hh a ha)
    rw [this]

/-! ### one more ignore path / ignore_only entry on the resolved configuration -/

/-- `cfg` with the (normalised) path `p` added to `ignore`. -/
def withIgnorePath (cfg : Config) (p : Str) : Config :=
  { cfg with rules := { cfg.rules with ignoreRootPaths := p :: cfg.rules.ignoreRootPaths } }

/-- `cfg` with the (normalised) path `p` added to `ignore_only` for rule `r`. -/
def withIgnoreOnly (cfg : Config) (r : Id) (p : Str) : Config :=
  { cfg with rules := { cfg.rules with ignoreOnly := (r, p) :: cfg.rules.ignoreOnly } }

/-- The path equals or contains (component-wise) the path of the file the location is in. -/
def CoversLoc (p : Str) (fs : List FileInfo) (l : Option Loc) : Prop :=
  ∃ x, l = some x ∧ equalsOrContainsPath p (fileAt fs x.file).path = true

/-- … the annotation's file or its against-file. -/
def CoversAnnot (p : Str) (img : Image) (a : Annot) : Prop :=
  CoversLoc p img.files a.loc ∨ CoversLoc p img.againstFiles a.against

theorem suppressed_withIgnorePath (cfg : Config) (p : Str) (r : Id) (f : FileInfo) (sp : SPath) :
    Suppressed (withIgnorePath cfg p) r f sp ↔
      Suppressed cfg r f sp ∨ equalsOrContainsPath p f.path = true := by
  unfold Suppressed ImportClause IgnorePathClause IgnoreOnlyClause UnstableClause CommentClause withIgnorePath
  simp only [List.mem_cons]
  constructor
  · rintro (h | ⟨q, hq | hq, hc⟩ | h | h | h)
    · exact Or.inl (Or.inl h)
    · subst hq; exact Or.inr hc
    · exact Or.inl (Or.inr (Or.inl ⟨q, hq, hc⟩))
    · exact Or.inl (Or.inr (Or.inr (Or.inl h)))
    · exact Or.inl (Or.inr (Or.inr (Or.inr (Or.inl h))))
    · exact Or.inl (Or.inr (Or.inr (Or.inr (Or.inr h))))
  · rintro ((h | ⟨q, hq, hc⟩ | h | h | h) | hc)
    · exact Or.inl h
    · exact Or.inr (Or.inl ⟨q, Or.inr hq, hc⟩)
    · exact Or.inr (Or.inr (Or.inl h))
    · exact Or.inr (Or.inr (Or.inr (Or.inl h)))
    · exact Or.inr (Or.inr (Or.inr (Or.inr h)))
    · exact Or.inr (Or.inl ⟨p, Or.inl rfl, hc⟩)

theorem suppressed_withIgnoreOnly (cfg : Config) (r0 : Id) (p : Str) (r : Id) (f : FileInfo) (sp : SPath) :
    Suppressed (withIgnoreOnly cfg r0 p) r f sp ↔
      Suppressed cfg r f sp ∨ (r = r0 ∧ equalsOrContainsPath p f.path = true) := by
  unfold Suppressed ImportClause IgnorePathClause IgnoreOnlyClause UnstableClause CommentClause withIgnoreOnly
  simp only [List.mem_cons, Prod.mk.injEq]
  constructor
  · rintro (h | h | ⟨q, hq | hq, hc⟩ | h | h)
    · exact Or.inl (Or.inl h)
    · exact Or.inl (Or.inr (Or.inl h))
    · rcases hq with ⟨h1, h2⟩; subst h2; exact Or.inr ⟨h1, hc⟩
    · exact Or.inl (Or.inr (Or.inr (Or.inl ⟨q, hq, hc⟩)))
    · exact Or.inl (Or.inr (Or.inr (Or.inr (Or.inl h))))
    · exact Or.inl (Or.inr (Or.inr (Or.inr (Or.inr h))))
  · rintro ((h | h | ⟨q, hq, hc⟩ | h | h) | ⟨h1, hc⟩)
    · exact Or.inl h
    · exact Or.inr (Or.inl h)
    · exact Or.inr (Or.inr (Or.inl ⟨q, Or.inr hq, hc⟩))
    · exact Or.inr (Or.inr (Or.inr (Or.inl h)))
    · exact Or.inr (Or.inr (Or.inr (Or.inr h)))
    · exact Or.inr (Or.inr (Or.inl ⟨p, Or.inl ⟨h1, rfl⟩, hc⟩))

theorem annotSuppressed_withIgnorePath (cfg : Config) (p : Str) (img : Image) (a : Annot) :
    AnnotSuppressed (withIgnorePath cfg p) img a ↔ AnnotSuppressed cfg img a ∨ CoversAnnot p img a := by
  unfold AnnotSuppressed LocSuppressed CoversAnnot CoversLoc
  constructor
  · rintro (⟨x, hx, hs⟩ | ⟨x, hx, hs⟩)
    · rcases (suppressed_withIgnorePath cfg p _ _ _).1 hs with h | h
      · exact Or.inl (Or.inl ⟨x, hx, h⟩)
      · exact Or.inr (Or.inl ⟨x, hx, h⟩)
    · rcases (suppressed_withIgnorePath cfg p _ _ _).1 hs with h | h
      · exact Or.inl (Or.inr ⟨x, hx, h⟩)
      · exact Or.inr (Or.inr ⟨x, hx, h⟩)
  · rintro ((⟨x, hx, hs⟩ | ⟨x, hx, hs⟩) | (⟨x, hx, hc⟩ | ⟨x, hx, hc⟩))
    · exact Or.inl ⟨x, hx, (suppressed_withIgnorePath cfg p _ _ _).2 (Or.inl hs)⟩
    · exact Or.inr ⟨x, hx, (suppressed_withIgnorePath cfg p _ _ _).2 (Or.inl hs)⟩
    · exact Or.inl ⟨x, hx, (suppressed_withIgnorePath cfg p _ _ _).2 (Or.inr hc)⟩
    · exact Or.inr ⟨x, hx, (suppressed_withIgnorePath cfg p _ _ _).2 (Or.inr hc)⟩

theorem annotSuppressed_withIgnoreOnly (cfg : Config) (r : Id) (p : Str) (img : Image) (a : Annot) :
    AnnotSuppressed (withIgnoreOnly cfg r p) img a ↔
      AnnotSuppressed cfg img a ∨ (a.ruleId = r ∧ CoversAnnot p img a) := by
  unfold AnnotSuppressed LocSuppressed CoversAnnot CoversLoc
  constructor
  · rintro (⟨x, hx, hs⟩ | ⟨x, hx, hs⟩)
    · rcases (suppressed_withIgnoreOnly cfg r p _ _ _).1 hs with h | ⟨h1, h⟩
      · exact Or.inl (Or.inl ⟨x, hx, h⟩)
      · exact Or.inr ⟨h1, Or.inl ⟨x, hx, h⟩⟩
    · rcases (suppressed_withIgnoreOnly cfg r p _ _ _).1 hs with h | ⟨h1, h⟩
      · exact Or.inl (Or.inr ⟨x, hx, h⟩)
      · exact Or.inr ⟨h1, Or.inr ⟨x, hx, h⟩⟩
  · rintro ((⟨x, hx, hs⟩ | ⟨x, hx, hs⟩) | ⟨h1, (⟨x, hx, hc⟩ | ⟨x, hx, hc⟩)⟩)
    · exact Or.inl ⟨x, hx, (suppressed_withIgnoreOnly cfg r p _ _ _).2 (Or.inl hs)⟩
    · exact Or.inr ⟨x, hx, (suppressed_withIgnoreOnly cfg r p _ _ _).2 (Or.inl hs)⟩
    · exact Or.inl ⟨x, hx, (suppressed_withIgnoreOnly cfg r p _ _ _).2 (Or.inr ⟨h1, hc⟩)⟩
    · exact Or.inr ⟨x, hx, (suppressed_withIgnoreOnly cfg r p _ _ _).2 (Or.inr ⟨h1, hc⟩)⟩

theorem kept_withIgnorePath (cfg : Config) (p : Str) (img : Image) (a : Annot) :
    Kept (withIgnorePath cfg p) img a ↔ Kept cfg img a ∧ ¬ CoversAnnot p img a := by
  unfold Kept
  rw [annotSuppressed_withIgnorePath]
  constructor
  · rintro ⟨h1, h2, h3⟩
    exact ⟨⟨h1, h2, fun h => h3 (Or.inl h)⟩, fun h => h3 (Or.inr h)⟩
  · rintro ⟨⟨h1, h2, h3⟩, h4⟩
    exact ⟨h1, h2, fun h => h.elim h3 h4⟩

theorem kept_withIgnoreOnly (cfg : Config) (r : Id) (p : Str) (img : Image) (a : Annot) :
    Kept (withIgnoreOnly cfg r p) img a ↔ Kept cfg img a ∧ ¬ (a.ruleId = r ∧ CoversAnnot p img a) := by
  unfold Kept
  rw [annotSuppressed_withIgnoreOnly]
  constructor
  · rintro ⟨h1, h2, h3⟩
    exact ⟨⟨h1, h2, fun h => h3 (Or.inl h)⟩, fun h => h3 (Or.inr h)⟩
  · rintro ⟨⟨h1, h2, h3⟩, h4⟩
    exact ⟨h1, h2, fun h => h.elim h3 h4⟩

end BufProofs.C06
