import BufModel.ConfigGen
/-
  Round-trip lemmas for the buf.gen.yaml model (C16, buf.gen.yaml part).
-/
namespace BufModel.ConfigGen

/-! ## small facts -/

theorem toStrs_fromStrs (l : List Str) : (fromStrs l).toStrs = some l := by
  match l with
  | [] => rfl
  | [_] => rfl
  | _ :: _ :: _ => rfl

theorem isNil_fromStrs (l : List Str) : (fromStrs l).isNil = decide (l = []) := by
  match l with
  | [] => rfl
  | [_] => rfl
  | _ :: _ :: _ => rfl

theorem parseStrategy_name (s : Strategy) : parseStrategy s.name = some (some s) := by
  cases s <;> decide

theorem parseStrategy_map_name (s : Option Strategy) :
    parseStrategy ((s.map Strategy.name).getD []) = some s := by
  cases s with
  | none => rfl
  | some s => exact parseStrategy_name s

theorem fileOption_name_ne_nil (f : FileOption) : f.name ≠ [] := by
  cases f <;> decide

theorem parseFileOption_name (f : FileOption) : parseFileOption f.name = some f := by
  cases f <;> decide

theorem fieldOption_name_ne_nil (f : FieldOption) : f.name ≠ [] := by
  cases f; decide

theorem parseFieldOption_name (f : FieldOption) : parseFieldOption f.name = some f := by
  cases f; decide

/-! ## plugins -/

/-- Re-reading the written form of `p` gives `p` back. -/
def PluginOK (env : Env) (p : Plugin) : Prop := readPluginV2 env (writePlugin env p) = some p

/-- What the external v2 plugin form can carry: a definite kind, no name independent of the
    path for local plugins, and (as coded: the writer never emits them) no types / exclude_types. -/
def RepPlugin (p : Plugin) : Prop :=
  p.type ≠ .localOrProtocBuiltin ∧ (p.type = .local_ → p.name = joinSp p.path) ∧
  p.includeTypes = [] ∧ p.excludeTypes = []

theorem mkRemote_ok {env : Env} {name out : Str} {opt : List Str} {ii iw : Bool} {rev : Int}
    {p : Plugin} (h : mkRemote env name out opt ii iw [] [] rev = some p) (hout : out ≠ []) :
    PluginOK env p := by
  unfold mkRemote at h
  split at h
  · contradiction
  · rename_i hwkt
    split at h
    · contradiction
    · rename_i host hhost
      split at h
      · contradiction
      · rename_i hrev
        injection h with h
        subst h
        simp only [PluginOK, writePlugin, readPluginV2, b2n, AnyStrs.isNil, Option.isSome,
          Option.map, Option.getD, toStrs_fromStrs]
        simp [hout, parseStrategy, mkRemote, hhost, hwkt]
        by_cases h0 : rev = 0 <;> simp [h0]; omega

theorem mkLocal_ok {env : Env} {name out : Str} {opt : List Str} {ii iw : Bool}
    {st : Option Strategy} {path : List Str} {p : Plugin}
    (h : mkLocal name out opt ii iw [] [] st path = some p) (hout : out ≠ [])
    (hname : name = joinSp path) : PluginOK env p := by
  unfold mkLocal at h
  split at h
  · contradiction
  · rename_i hpath
    split at h
    · contradiction
    · rename_i hwkt
      injection h with h
      subst h
      simp only [PluginOK, writePlugin, readPluginV2, b2n, Option.isSome, isNil_fromStrs,
        toStrs_fromStrs, parseStrategy_map_name]
      simp [hout, hpath, mkLocal, hwkt, hname, AnyStrs.isNil]

theorem mkProtocBuiltin_ok {env : Env} {name out : Str} {opt : List Str} {ii iw : Bool}
    {st : Option Strategy} {pp : List Str} {p : Plugin}
    (h : mkProtocBuiltin name out opt ii iw [] [] st pp = some p) (hout : out ≠ []) :
    PluginOK env p := by
  unfold mkProtocBuiltin at h
  split at h
  · contradiction
  · rename_i hwkt
    injection h with h
    subst h
    simp only [PluginOK, writePlugin, readPluginV2, b2n, Option.isSome, isNil_fromStrs,
      toStrs_fromStrs, parseStrategy_map_name]
    simp [hout, mkProtocBuiltin, hwkt, AnyStrs.isNil]

theorem mkLocal_fields {name out : Str} {opt : List Str} {ii iw : Bool} {it et : List Str}
    {st : Option Strategy} {path : List Str} {p : Plugin}
    (h : mkLocal name out opt ii iw it et st path = some p) :
    p.type = .local_ ∧ p.name = name ∧ p.path = path ∧ p.includeTypes = it ∧ p.excludeTypes = et := by
  unfold mkLocal at h
  split at h
  · contradiction
  · split at h
    · contradiction
    · injection h with h; subst h; simp

theorem mkRemote_fields {env : Env} {name out : Str} {opt : List Str} {ii iw : Bool}
    {it et : List Str} {rev : Int} {p : Plugin}
    (h : mkRemote env name out opt ii iw it et rev = some p) :
    p.includeTypes = it ∧ p.excludeTypes = et := by
  unfold mkRemote at h
  split at h
  · contradiction
  · split at h
    · contradiction
    · split at h
      · contradiction
      · injection h with h; subst h; simp

theorem mkProtocBuiltin_fields {name out : Str} {opt : List Str} {ii iw : Bool} {it et : List Str}
    {st : Option Strategy} {pp : List Str} {p : Plugin}
    (h : mkProtocBuiltin name out opt ii iw it et st pp = some p) :
    p.includeTypes = it ∧ p.excludeTypes = et := by
  unfold mkProtocBuiltin at h
  split at h
  · contradiction
  · injection h with h; subst h; simp

theorem mkLocalOrProtocBuiltin_type {name out : Str} {opt : List Str} {ii iw : Bool}
    {it et : List Str} {st : Option Strategy} {p : Plugin}
    (h : mkLocalOrProtocBuiltin name out opt ii iw it et st = some p) :
    p.type = .localOrProtocBuiltin := by
  unfold mkLocalOrProtocBuiltin at h
  split at h
  · contradiction
  · injection h with h; subst h; rfl

theorem mkRemote_ok' {env : Env} {name out : Str} {opt : List Str} {ii iw : Bool}
    {it et : List Str} {rev : Int} {p : Plugin}
    (h : mkRemote env name out opt ii iw it et rev = some p) (hrep : RepPlugin p)
    (hout : out ≠ []) : PluginOK env p := by
  have hf := mkRemote_fields h
  rw [hrep.2.2.1, hrep.2.2.2] at hf
  rw [← hf.1, ← hf.2] at h
  exact mkRemote_ok h hout

theorem mkLocal_ok' {env : Env} {name out : Str} {opt : List Str} {ii iw : Bool}
    {it et : List Str} {st : Option Strategy} {path : List Str} {p : Plugin}
    (h : mkLocal name out opt ii iw it et st path = some p) (hrep : RepPlugin p)
    (hout : out ≠ []) : PluginOK env p := by
  have hf := mkLocal_fields h
  have hn := hrep.2.1 hf.1
  rw [hf.2.1, hf.2.2.1] at hn
  rw [hrep.2.2.1, hrep.2.2.2] at hf
  rw [← hf.2.2.2.1, ← hf.2.2.2.2] at h
  exact mkLocal_ok h hout hn

theorem mkProtocBuiltin_ok' {env : Env} {name out : Str} {opt : List Str} {ii iw : Bool}
    {it et : List Str} {st : Option Strategy} {pp : List Str} {p : Plugin}
    (h : mkProtocBuiltin name out opt ii iw it et st pp = some p) (hrep : RepPlugin p)
    (hout : out ≠ []) : PluginOK env p := by
  have hf := mkProtocBuiltin_fields h
  rw [hrep.2.2.1, hrep.2.2.2] at hf
  rw [← hf.1, ← hf.2] at h
  exact mkProtocBuiltin_ok h hout

/-- Split the reader on all its branches, discard the failing ones, and close each remaining
    branch with the lemma of the constructor it ends in. -/
macro "plugin_branches" h:ident hrep:ident : tactic => `(tactic|
  (repeat' (split at $h:ident <;> try contradiction)
   all_goals first
     | exact mkRemote_ok' $h $hrep (by assumption)
     | exact mkLocal_ok' $h $hrep (by assumption)
     | exact mkProtocBuiltin_ok' $h $hrep (by assumption)
     | exact absurd (mkLocalOrProtocBuiltin_type $h) ($hrep).1))

/-- v2 reader: what it returns is re-read unchanged from its written form, provided it is
    representable. -/
theorem readPluginV2_ok {env : Env} {x : ExtPluginV2} {p : Plugin}
    (h : readPluginV2 env x = some p) (hrep : RepPlugin p) : PluginOK env p := by
  unfold readPluginV2 at h
  plugin_branches h hrep

theorem readPluginV1_ok {env : Env} {x : ExtPluginV1} {p : Plugin}
    (h : readPluginV1 env x = some p) (hrep : RepPlugin p) : PluginOK env p := by
  unfold readPluginV1 at h
  simp only at h
  plugin_branches h hrep

theorem readPluginV1Beta1_ok {env : Env} {x : ExtPluginV1Beta1} {p : Plugin}
    (h : readPluginV1Beta1 x = some p) (hrep : RepPlugin p) : PluginOK env p := by
  unfold readPluginV1Beta1 at h
  plugin_branches h hrep

/-! ## managed mode -/

def DisableOK (env : Env) (d : Disable) : Prop := readDisableV2 env (writeDisable d) = some d
def OverrideOK (env : Env) (o : Override) : Prop := readOverrideV2 env (writeOverride o) = some o

theorem foName_parse (fo : Option FileOption) : optFileOption (foName fo) = some fo := by
  cases fo with
  | none => simp [foName, optFileOption]
  | some f => simp [foName, optFileOption, fileOption_name_ne_nil, parseFileOption_name]

theorem fdoName_parse (fdo : Option FieldOption) : optFieldOption (fdoName fdo) = some fdo := by
  cases fdo with
  | none => simp [fdoName, optFieldOption]
  | some f => simp [fdoName, optFieldOption, fieldOption_name_ne_nil, parseFieldOption_name]

theorem mkDisable_ok {env : Env} {path module field : Str} {fo : Option FileOption}
    {fdo : Option FieldOption} {d : Disable}
    (h : mkDisable env path module field fo fdo = some d) : DisableOK env d := by
  have h' := h
  unfold mkDisable at h
  repeat' (split at h <;> try contradiction)
  injection h with h
  subst h
  simp only [DisableOK, readDisableV2, writeDisable, foName_parse, fdoName_parse]
  exact h'

theorem parseFileValue_writeVal {fo : FileOption} {v : ExtVal} {pv : Val}
    (h : parseFileValue fo v = some pv) :
    parseFileValue fo (writeVal pv) = some pv ∧ writeVal pv ≠ .nil := by
  cases hk : fo.kind <;> cases v <;> simp [parseFileValue, hk] at h
  · subst h; simp [parseFileValue, writeVal, hk]
  · subst h; simp [parseFileValue, writeVal, hk]
  · obtain ⟨hm, rfl⟩ := h; simp [parseFileValue, writeVal, hk, hm]

theorem parseFieldValue_writeVal {fdo : FieldOption} {v : ExtVal} {pv : Val}
    (h : parseFieldValue fdo v = some pv) :
    parseFieldValue fdo (writeVal pv) = some pv ∧ writeVal pv ≠ .nil := by
  cases v <;> simp [parseFieldValue] at h
  obtain ⟨hm, rfl⟩ := h; simp [parseFieldValue, writeVal, hm]

theorem mkFileOverride_ok {env : Env} {path module : Str} {fo : FileOption} {v : ExtVal}
    {o : Override} (h : mkFileOverride env path module fo v = some o) : OverrideOK env o := by
  unfold mkFileOverride at h
  split at h
  · contradiction
  · rename_i pv hpv
    have hw := parseFileValue_writeVal hpv
    split at h
    · contradiction
    · rename_i hm
      split at h
      · contradiction
      · rename_i hp
        injection h with h
        subst h
        simp only [OverrideOK, readOverrideV2, writeOverride, foName, fdoName]
        simp at hm hp
        simp [fileOption_name_ne_nil, parseFileOption_name, hw.2, mkFileOverride, hw.1]
        exact ⟨hm, hp⟩

theorem mkFieldOverride_ok {env : Env} {path module field : Str} {fdo : FieldOption} {v : ExtVal}
    {o : Override} (h : mkFieldOverride env path module field fdo v = some o) :
    OverrideOK env o := by
  unfold mkFieldOverride at h
  split at h
  · contradiction
  · rename_i pv hpv
    have hw := parseFieldValue_writeVal hpv
    split at h
    · contradiction
    · rename_i hm
      split at h
      · contradiction
      · rename_i hp
        injection h with h
        subst h
        simp only [OverrideOK, readOverrideV2, writeOverride, foName, fdoName]
        simp at hm hp
        simp [fieldOption_name_ne_nil, parseFieldOption_name, hw.2, mkFieldOverride, hw.1]
        exact ⟨hm, hp⟩

/-! ## inputs -/

def InputOK (i : Input) : Prop := readInputV2 (writeInput i) = some i

theorem kinds_writeInput (i : Input) : kinds (writeInput i) = [(i.type, i.location)] := by
  cases hi : i.type <;> simp [kinds, writeInput, only, kindOf, hi]

theorem optStr_getD (s : Str) : (optStr s).getD [] = s := by
  unfold optStr; split <;> simp [*]

theorem okOpt_optStr {t : InputType} {k : OptKey} {o : Option Str} (h : okOpt t k o = true) :
    okOpt t k (optStr (o.getD [])) = true := by
  cases o with
  | none => simp [okOpt, optStr]
  | some s => simp [okOpt] at h; simp [okOpt, h]

theorem okOpt_nat {t : InputType} {k : OptKey} {o : Option Nat} (h : okOpt t k o = true) :
    okOpt t k (if o.getD 0 = 0 then none else some (o.getD 0)) = true := by
  cases o with
  | none => simp [okOpt]
  | some s => simp [okOpt] at h; simp [okOpt, h]

theorem okOpt_bool {t : InputType} {k : OptKey} {o : Option Bool} (h : okOpt t k o = true) :
    okOpt t k (if o.getD false = true then some true else none) = true := by
  cases o with
  | none => simp [okOpt]
  | some s => simp [okOpt] at h; simp [okOpt, h]

theorem allowed_tag_commit (t : InputType) : allowed t .tag = allowed t .commit := by
  cases t <;> rfl

theorem okOpt_commit {t : InputType} {c g : Option Str} (hc : okOpt t .commit c = true)
    (hg : okOpt t .tag g = true) : okOpt t .commit (optStr (commitOrTag c g)) = true := by
  cases g with
  | some s => simp [okOpt, allowed_tag_commit] at hg; simp [okOpt, hg]
  | none =>
    cases c with
    | none => simp [okOpt, optStr, commitOrTag]
    | some s => simp [okOpt] at hc; simp [okOpt, hc]

theorem commitOrTag_optStr (s : Str) : commitOrTag (optStr s) none = s := by
  simp [commitOrTag, optStr_getD]

theorem natOpt_getD (n : Nat) : (if n = 0 then none else some n : Option Nat).getD 0 = n := by
  split <;> simp [*]

theorem boolOpt_getD (b : Bool) : (if b = true then some true else none : Option Bool).getD false = b := by
  cases b <;> simp

/-- As coded `exclude_types` of an input is never written, so it has to be empty. -/
theorem readInputV2_ok {x : ExtInputV2} {i : Input} (h : readInputV2 x = some i)
    (he : i.excludeTypes = []) : InputOK i := by
  unfold readInputV2 at h
  split at h
  · rename_i t loc hk
    split at h
    · contradiction
    · split at h
      · contradiction
      · rename_i hallowed
        injection h with h
        subst h
        simp only at he
        have hallowed : optsAllowed t x = true := by
          cases hb : optsAllowed t x
          · simp [hb] at hallowed
          · rfl
        unfold optsAllowed at hallowed
        simp only [Bool.and_eq_true] at hallowed
        obtain ⟨⟨⟨⟨⟨⟨⟨⟨⟨h1, h2⟩, h3⟩, h4⟩, h5⟩, h6⟩, h7⟩, h8⟩, h9⟩, h10⟩ := hallowed
        have hk' := kinds_writeInput
          { type := t, location := loc, compression := x.compression.getD [],
            stripComponents := x.stripComponents.getD 0, subDir := x.subdir.getD [],
            branch := x.branch.getD [], commitOrTag := commitOrTag x.commit x.tag,
            ref := x.ref.getD [], depth := x.depth,
            recurseSubmodules := x.recurseSubmodules.getD false,
            includePackageFiles := x.includePackageFiles.getD false,
            includeTypes := x.types, excludeTypes := x.excludeTypes,
            targetPaths := x.targetPaths, excludePaths := x.excludePaths }
        unfold InputOK readInputV2
        rw [hk']
        have a1 := okOpt_optStr h1
        have a2 := okOpt_nat h2
        have a3 := okOpt_optStr h3
        have a4 := okOpt_optStr h4
        have a5 := okOpt_commit h5 h6
        have a7 := okOpt_optStr h7
        have a9 := okOpt_bool h9
        have a10 := okOpt_bool h10
        simp only [writeInput] at *
        have a6 : okOpt t .tag (none : Option Str) = true := rfl
        simp [optsAllowed, a1, a2, a3, a4, a5, a6, a7, h8, a9, a10, optStr_getD,
          commitOrTag_optStr, natOpt_getD, boolOpt_getD, he]
  · contradiction

/-! ## lists -/

theorem optCons_some {α : Type} {a : Option α} {l : Option (List α)} {ys : List α}
    (h : optCons a l = some ys) : ∃ x xs, a = some x ∧ l = some xs ∧ ys = x :: xs := by
  cases a <;> cases l <;> simp [optCons] at h
  exact ⟨_, _, rfl, rfl, h.symm⟩

theorem mapOpt_forall {α β : Type} {f : α → Option β} {P : β → Prop}
    (hf : ∀ x y, f x = some y → P y) :
    ∀ {l : List α} {ys : List β}, mapOpt f l = some ys → ∀ y ∈ ys, P y := by
  intro l
  induction l with
  | nil => intro ys h; simp [mapOpt] at h; subst h; simp
  | cons x xs ih =>
    intro ys h
    obtain ⟨y, ys', hy, hys, rfl⟩ := optCons_some h
    intro z hz
    cases hz with
    | head => exact hf _ _ hy
    | tail _ hz => exact ih hys z hz

theorem mapOpt_map_of_forall {α β : Type} {f : β → Option α} {g : α → β} :
    ∀ (l : List α), (∀ x ∈ l, f (g x) = some x) → mapOpt f (l.map g) = some l := by
  intro l
  induction l with
  | nil => intro _; rfl
  | cons x xs ih =>
    intro h
    simp only [List.map, mapOpt]
    rw [h x (List.mem_cons_self), ih (fun y hy => h y (List.mem_cons_of_mem _ hy))]
    rfl

theorem mapOpt_length {α β : Type} {f : α → Option β} :
    ∀ {l : List α} {ys : List β}, mapOpt f l = some ys → ys.length = l.length := by
  intro l
  induction l with
  | nil => intro ys h; simp [mapOpt] at h; subst h; rfl
  | cons x xs ih =>
    intro ys h
    obtain ⟨y, ys', _, hys, rfl⟩ := optCons_some h
    simp [ih hys]

/-! ## v1 / v1beta1 managed sections produce only well-formed rules -/

def AllDisablesOK (env : Env) (ds : List Disable) : Prop := ∀ d ∈ ds, DisableOK env d
def AllOverridesOK (env : Env) (os : List Override) : Prop := ∀ o ∈ os, OverrideOK env o

theorem allOverridesOK_nil (env : Env) : AllOverridesOK env [] := by intro _ h; cases h
theorem allDisablesOK_nil (env : Env) : AllDisablesOK env [] := by intro _ h; cases h

theorem allOverridesOK_append {env : Env} {a b : List Override} (ha : AllOverridesOK env a)
    (hb : AllOverridesOK env b) : AllOverridesOK env (a ++ b) := by
  intro o ho
  rcases List.mem_append.mp ho with h | h
  · exact ha o h
  · exact hb o h

theorem allDisablesOK_append {env : Env} {a b : List Disable} (ha : AllDisablesOK env a)
    (hb : AllDisablesOK env b) : AllDisablesOK env (a ++ b) := by
  intro o ho
  rcases List.mem_append.mp ho with h | h
  · exact ha o h
  · exact hb o h

theorem allOverridesOK_cons {env : Env} {o : Override} {b : List Override} (ha : OverrideOK env o)
    (hb : AllOverridesOK env b) : AllOverridesOK env (o :: b) := by
  intro x hx
  cases hx with
  | head => exact ha
  | tail _ h => exact hb x h

theorem allDisablesOK_cons {env : Env} {o : Disable} {b : List Disable} (ha : DisableOK env o)
    (hb : AllDisablesOK env b) : AllDisablesOK env (o :: b) := by
  intro x hx
  cases hx with
  | head => exact ha
  | tail _ h => exact hb x h

theorem singleton_override_ok {env : Env} {r : Option Override} {l : List Override}
    (hr : ∀ o, r = some o → OverrideOK env o) (h : (r.map fun o => [o]) = some l) :
    AllOverridesOK env l := by
  cases r with
  | none => simp at h
  | some o =>
    simp at h; subst h
    exact allOverridesOK_cons (hr o rfl) (allOverridesOK_nil env)

theorem boolOverride_ok {env : Env} {fo : FileOption} {b : Option Bool} {l : List Override}
    (h : boolOverride env fo b = some l) : AllOverridesOK env l := by
  cases b with
  | none => simp [boolOverride] at h; subst h; exact allOverridesOK_nil env
  | some b =>
    simp only [boolOverride] at h
    exact singleton_override_ok (fun o ho => mkFileOverride_ok ho) h

theorem exceptDisables_ok {env : Env} {fo : FileOption} :
    ∀ {ns seen : List Str} {ds : List Disable}, exceptDisables env fo ns seen = some ds →
      AllDisablesOK env ds := by
  intro ns
  induction ns with
  | nil => intro seen ds h; simp [exceptDisables] at h; subst h; exact allDisablesOK_nil env
  | cons n ns ih =>
    intro seen ds h
    unfold exceptDisables at h
    split at h
    · contradiction
    · split at h
      · contradiction
      · obtain ⟨d, ds', hd, hds, rfl⟩ := optCons_some h
        exact allDisablesOK_cons (mkDisable_ok hd) (ih hds)

theorem moduleOverrides_ok {env : Env} {fo : FileOption} {except : List Str} :
    ∀ {l : List (Str × Str)} {os : List Override}, moduleOverrides env fo except l = some os →
      AllOverridesOK env os := by
  intro l
  induction l with
  | nil => intro os h; simp [moduleOverrides] at h; subst h; exact allOverridesOK_nil env
  | cons kv rest ih =>
    intro os h
    obtain ⟨k, v⟩ := kv
    unfold moduleOverrides at h
    split at h
    · contradiction
    · split at h
      · contradiction
      · obtain ⟨o, os', ho, hos, rfl⟩ := optCons_some h
        exact allOverridesOK_cons (mkFileOverride_ok ho) (ih hos)

theorem prefixSection_ok {env : Env} {mode : DefaultMode} {efo ofo : FileOption} {p : ExtPrefixV1}
    {ds : List Disable} {os : List Override}
    (h : prefixSection env mode efo ofo p = some (ds, os)) :
    AllDisablesOK env ds ∧ AllOverridesOK env os := by
  unfold prefixSection at h
  split at h
  · injection h with h; injection h with h1 h2; subst h1; subst h2
    exact ⟨allDisablesOK_nil env, allOverridesOK_nil env⟩
  · simp only at h
    split at h
    · rename_i d ds' os' hd hds hos
      injection h with h; injection h with h1 h2; subst h1; subst h2
      refine ⟨exceptDisables_ok hds, allOverridesOK_append ?_ (moduleOverrides_ok hos)⟩
      cases mode with
      | required =>
        simp only at hd
        split at hd
        · contradiction
        · exact singleton_override_ok (fun o ho => mkFileOverride_ok ho) hd
      | optional =>
        simp only at hd
        split at hd
        · injection hd with hd; subst hd; exact allOverridesOK_nil env
        · exact singleton_override_ok (fun o ho => mkFileOverride_ok ho) hd
      | absent =>
        simp only at hd
        injection hd with hd; subst hd; exact allOverridesOK_nil env
    · contradiction

theorem perFileInner_ok {env : Env} {fo : FileOption} :
    ∀ {l : List (Str × Str)} {os : List Override}, perFileInner env fo l = some os →
      AllOverridesOK env os := by
  intro l
  induction l with
  | nil => intro os h; simp [perFileInner] at h; subst h; exact allOverridesOK_nil env
  | cons kv rest ih =>
    intro os h
    obtain ⟨k, v⟩ := kv
    unfold perFileInner at h
    split at h
    · contradiction
    · simp only at h
      split at h
      · contradiction
      · obtain ⟨o, os', ho, hos, rfl⟩ := optCons_some h
        exact allOverridesOK_cons (mkFileOverride_ok ho) (ih hos)

theorem perFileOverrides_ok {env : Env} :
    ∀ {l : List (Str × List (Str × Str))} {os : List Override},
      perFileOverrides env l = some os → AllOverridesOK env os := by
  intro l
  induction l with
  | nil => intro os h; simp [perFileOverrides] at h; subst h; exact allOverridesOK_nil env
  | cons kv rest ih =>
    intro os h
    obtain ⟨k, m⟩ := kv
    unfold perFileOverrides at h
    split at h
    · contradiction
    · split at h
      · rename_i a b ha hb
        injection h with h; subst h
        exact allOverridesOK_append (perFileInner_ok ha) (ih hb)
      · contradiction

/-! ## whole managed configs -/

def ManagedGood (env : Env) (m : Managed) : Prop :=
  AllDisablesOK env m.disables ∧ AllOverridesOK env m.overrides

theorem readManagedV1Beta1_good {env : Env} {en : Bool} {x : ExtOptionsV1Beta1} {m : Managed}
    (h : readManagedV1Beta1 env en x = some m) : ManagedGood env m := by
  unfold readManagedV1Beta1 at h
  split at h
  · rename_i a b c ha hb hc
    injection h with h; subst h
    refine ⟨allDisablesOK_nil env, allOverridesOK_append (allOverridesOK_append (boolOverride_ok ha) (boolOverride_ok hb)) ?_⟩
    split at hc
    · injection hc with hc; subst hc; exact allOverridesOK_nil env
    · exact singleton_override_ok (fun o ho => mkFileOverride_ok ho) hc
  · contradiction

theorem readManagedV1_good {env : Env} {x : ExtManagedV1} {m : Managed}
    (h : readManagedV1 env x = some m) : ManagedGood env m := by
  unfold readManagedV1 at h
  split at h
  · rename_i o1 o2 o3 d4 o4 d5 o5 d6 o6 d7 o7 d8 o8 d9 o9 o10 h1 h2 h3 h4 h5 h6 h7 h8 h9 h10
    injection h with h; subst h
    have g4 := prefixSection_ok h4
    have g5 := prefixSection_ok h5
    have g6 := prefixSection_ok h6
    have g7 := prefixSection_ok h7
    have g8 := prefixSection_ok h8
    have g9 := prefixSection_ok h9
    refine ⟨?_, ?_⟩
    · exact allDisablesOK_append (allDisablesOK_append (allDisablesOK_append (allDisablesOK_append
        (allDisablesOK_append g4.1 g5.1) g6.1) g7.1) g8.1) g9.1
    · exact allOverridesOK_append (allOverridesOK_append (allOverridesOK_append
        (allOverridesOK_append (allOverridesOK_append (allOverridesOK_append (allOverridesOK_append
        (allOverridesOK_append (allOverridesOK_append (boolOverride_ok h1) (boolOverride_ok h2))
        (boolOverride_ok h3)) g4.2) g5.2) g6.2) g7.2) g8.2) g9.2) (perFileOverrides_ok h10)
  · contradiction

theorem readDisableV2_ok {env : Env} {x : ExtDisableV2} {d : Disable}
    (h : readDisableV2 env x = some d) : DisableOK env d := by
  unfold readDisableV2 at h
  split at h
  · exact mkDisable_ok h
  · contradiction

theorem readOverrideV2_ok {env : Env} {x : ExtOverrideV2} {o : Override}
    (h : readOverrideV2 env x = some o) : OverrideOK env o := by
  unfold readOverrideV2 at h
  repeat' (split at h <;> try contradiction)
  · exact mkFieldOverride_ok h
  · exact mkFileOverride_ok h

theorem readManagedV2_good {env : Env} {x : ExtManagedV2} {m : Managed}
    (h : readManagedV2 env x = some m) : ManagedGood env m := by
  unfold readManagedV2 at h
  split at h
  · rename_i ds os hds hos
    injection h with h; subst h
    exact ⟨mapOpt_forall (fun _ _ h => readDisableV2_ok h) hds,
           mapOpt_forall (fun _ _ h => readOverrideV2_ok h) hos⟩
  · contradiction

theorem managed_roundtrip {env : Env} {m : Managed} (h : ManagedGood env m) :
    readManagedV2 env (writeManaged m) = some m := by
  unfold readManagedV2 writeManaged
  simp only
  rw [mapOpt_map_of_forall m.disables h.1, mapOpt_map_of_forall m.overrides h.2]

/-! ## files -/

/-- The configurations the external v2 form can carry (everything else is changed by a
    write + read, as coded):
    * no plugin of the undetermined kind LocalOrProtocBuiltin (v1/v1beta1 `name:`/`plugin:`
      without path and protoc_path — the writer resolves it through exec.LookPath),
    * a local plugin's name is the space-joined path (v2 has no separate name),
    * no plugin `types` / `exclude_types` (never written),
    * no v1 top-level `types.include` (never written),
    * no input `exclude_types` (never written). -/
def Representable (c : GenFile) : Prop :=
  (∀ p ∈ c.plugins, RepPlugin p) ∧ c.typeInclude = [] ∧ (∀ i ∈ c.inputs, i.excludeTypes = [])

/-- Every component of `c` is re-read unchanged from its written form (if representable). -/
def Good (env : Env) (c : GenFile) : Prop :=
  (∀ p ∈ c.plugins, RepPlugin p → PluginOK env p) ∧ ManagedGood env c.managed ∧
  (∀ i ∈ c.inputs, i.excludeTypes = [] → InputOK i)

theorem readGen_good {env : Env} {e : ExtGen} {c : GenFile} (h : readGen env e = some c) :
    Good env c := by
  cases e with
  | v1beta1 d =>
    simp only [readGen, readV1Beta1] at h
    repeat' (split at h <;> try contradiction)
    rename_i _ m hm _ _ ps hps
    injection h with h; subst h
    exact ⟨mapOpt_forall (P := fun p => RepPlugin p → PluginOK env p)
             (fun _ _ h hr => readPluginV1Beta1_ok h hr) hps,
           readManagedV1Beta1_good hm, by intro i hi; cases hi⟩
  | v1 d =>
    simp only [readGen, readV1] at h
    repeat' (split at h <;> try contradiction)
    rename_i _ m hm _ _ ps hps
    injection h with h; subst h
    exact ⟨mapOpt_forall (P := fun p => RepPlugin p → PluginOK env p)
             (fun _ _ h hr => readPluginV1_ok h hr) hps,
           readManagedV1_good hm, by intro i hi; cases hi⟩
  | v2 d =>
    simp only [readGen, readV2] at h
    repeat' (split at h <;> try contradiction)
    rename_i m ps is hm hps his
    injection h with h; subst h
    exact ⟨mapOpt_forall (P := fun p => RepPlugin p → PluginOK env p)
             (fun _ _ h hr => readPluginV2_ok h hr) hps,
           readManagedV2_good hm,
           mapOpt_forall (P := fun i => i.excludeTypes = [] → InputOK i)
             (fun _ _ h he => readInputV2_ok h he) his⟩

theorem good_roundtrip {env : Env} {c : GenFile} (hg : Good env c) (hr : Representable c) :
    readGen env (.v2 (writeGen env c)) = some c := by
  obtain ⟨hp, hm, hi⟩ := hg
  obtain ⟨rp, rt, ri⟩ := hr
  simp only [readGen, readV2, writeGen]
  rw [managed_roundtrip hm,
    mapOpt_map_of_forall c.plugins (fun p hpm => hp p hpm (rp p hpm)),
    mapOpt_map_of_forall c.inputs (fun i him => hi i him (ri i him))]
  cases c
  simp_all

/-- **Round trip (partial: representable configurations).**  For every external buf.gen.yaml
    document `e` of any version (v1beta1, v1, v2) and every environment: if reading succeeds with
    `c` and `c` is `Representable`, then writing `c` (always as v2) and reading the result gives
    exactly `c`.  The excluded families are the five listed at `Representable`; each has a
    `…_counterexample` below showing the round trip really changes the configuration. -/
theorem gen_roundtrip_partial {env : Env} {e : ExtGen} {c : GenFile}
    (h : readGen env e = some c) (hr : Representable c) :
    readGen env (.v2 (writeGen env c)) = some c :=
  good_roundtrip (readGen_good h) hr

/-- Writing is idempotent: write, read, write again produces the same external document
    (corollary of the round trip for representable configurations). -/
theorem gen_write_idempotent_partial {env : Env} {e : ExtGen} {c c' : GenFile}
    (h : readGen env e = some c) (hr : Representable c)
    (h' : readGen env (.v2 (writeGen env c)) = some c') : writeGen env c' = writeGen env c := by
  rw [gen_roundtrip_partial h hr] at h'
  injection h' with h'
  rw [h']

/-! ## v2 documents: the hypothesis stated on the document itself -/

theorem mapOpt_exists {α β : Type} {f : α → Option β} :
    ∀ {l : List α} {ys : List β}, mapOpt f l = some ys → ∀ y ∈ ys, ∃ x ∈ l, f x = some y := by
  intro l
  induction l with
  | nil => intro ys h; simp [mapOpt] at h; subst h; simp
  | cons x xs ih =>
    intro ys h
    obtain ⟨y, ys', hy, hys, rfl⟩ := optCons_some h
    intro z hz
    cases hz with
    | head => exact ⟨x, List.mem_cons_self, hy⟩
    | tail _ hz =>
      obtain ⟨x', hx', hfx⟩ := ih hys z hz
      exact ⟨x', List.mem_cons_of_mem _ hx', hfx⟩

theorem mkRemote_type {env : Env} {name out : Str} {opt : List Str} {ii iw : Bool}
    {it et : List Str} {rev : Int} {p : Plugin}
    (h : mkRemote env name out opt ii iw it et rev = some p) : p.type = .remote := by
  unfold mkRemote at h
  repeat' (split at h <;> try contradiction)
  injection h with h; subst h; rfl

theorem mkProtocBuiltin_type {name out : Str} {opt : List Str} {ii iw : Bool} {it et : List Str}
    {st : Option Strategy} {pp : List Str} {p : Plugin}
    (h : mkProtocBuiltin name out opt ii iw it et st pp = some p) : p.type = .protocBuiltin := by
  unfold mkProtocBuiltin at h
  repeat' (split at h <;> try contradiction)
  injection h with h; subst h; rfl

/-- A v2 plugin without `types` / `exclude_types` reads as a representable plugin config. -/
theorem readPluginV2_rep {env : Env} {x : ExtPluginV2} {p : Plugin}
    (h : readPluginV2 env x = some p) (ht : x.types = []) (he : x.excludeTypes = []) :
    RepPlugin p := by
  unfold readPluginV2 at h
  repeat' (split at h <;> try contradiction)
  · have hf := mkRemote_fields h
    have hty := mkRemote_type h
    refine ⟨by rw [hty]; decide, (by intro hc; rw [hty] at hc; cases hc), by rw [hf.1, ht], by rw [hf.2, he]⟩
  · have hf := mkLocal_fields h
    refine ⟨by rw [hf.1]; decide, by intro _; rw [hf.2.1, hf.2.2.1], by rw [hf.2.2.2.1, ht],
      by rw [hf.2.2.2.2, he]⟩
  · have hf := mkProtocBuiltin_fields h
    have hty := mkProtocBuiltin_type h
    refine ⟨by rw [hty]; decide, (by intro hc; rw [hty] at hc; cases hc), by rw [hf.1, ht], by rw [hf.2, he]⟩

theorem readInputV2_excludeTypes {x : ExtInputV2} {i : Input} (h : readInputV2 x = some i) :
    i.excludeTypes = x.excludeTypes := by
  unfold readInputV2 at h
  repeat' (split at h <;> try contradiction)
  injection h with h; subst h; rfl

/-- **Round trip for v2 documents**, hypothesis on the document only: a v2 buf.gen.yaml whose
    plugins carry no `types` / `exclude_types` and whose inputs carry no `exclude_types` (the
    keys the writer drops, as coded) is read, written and read again to the same configuration. -/
theorem gen_roundtrip_v2 {env : Env} {d : ExtGenV2} {c : GenFile}
    (h : readGen env (.v2 d) = some c)
    (hp : ∀ x ∈ d.plugins, x.types = [] ∧ x.excludeTypes = [])
    (hi : ∀ x ∈ d.inputs, x.excludeTypes = []) :
    readGen env (.v2 (writeGen env c)) = some c := by
  refine gen_roundtrip_partial h ?_
  simp only [readGen, readV2] at h
  repeat' (split at h <;> try contradiction)
  rename_i m ps is hm hps his
  injection h with h; subst h
  refine ⟨?_, rfl, ?_⟩
  · intro p hpm
    obtain ⟨x, hx, hfx⟩ := mapOpt_exists hps p hpm
    exact readPluginV2_rep hfx (hp x hx).1 (hp x hx).2
  · intro i him
    obtain ⟨x, hx, hfx⟩ := mapOpt_exists his i him
    rw [readInputV2_excludeTypes hfx]
    exact hi x hx

/-! ## the excluded families really do not round-trip (as coded) -/

/-- A concrete environment for the witnesses: one remote plugin name, everything else valid,
    nothing on PATH. -/
def env0 : Env :=
  { remoteHost := fun s => if s = "buf.build/acme/p".toList then some "buf.build".toList else none,
    validFullName := fun _ => true, validPath := fun _ => true, lookPath := fun _ => false }

/-- read e, then write + read again. -/
def reread (env : Env) (e : ExtGen) : Option GenFile :=
  (readGen env e).bind fun c => readGen env (.v2 (writeGen env c))

def plugV2 (x : ExtPluginV2) : ExtGen :=
  .v2 { clean := false, managed := { enabled := false, disable := [], override := [] },
        plugins := [x], inputs := [] }

def localV2 : ExtPluginV2 :=
  { remote := none, revision := none, local_ := .str "protoc-gen-go".toList, protocBuiltin := none,
    protocPath := .nil, out := "gen".toList, opt := .nil, includeImports := false,
    includeWKT := false, strategy := none, types := [], excludeTypes := [] }

def noManagedV1 : ExtManagedV1 :=
  let e : ExtPrefixV1 := { default := [], except := [], override := [] }
  { enabled := false, ccEnableArenas := none, javaMultipleFiles := none, javaStringCheckUtf8 := none,
    javaPackagePrefix := e, csharpNamespace := e, optimizeFor := e, goPackagePrefix := e,
    objcClassPrefix := e, rubyPackage := e, override := [] }

def plugV1 (x : ExtPluginV1) (types : List Str) : ExtGen :=
  .v1 { plugins := [x], managed := noManagedV1, typesInclude := types }

def inputDir : ExtInputV2 :=
  { module := none, directory := some "proto".toList, protoFile := none, tarball := none,
    zipArchive := none, binaryImage := none, jsonImage := none, textImage := none,
    yamlImage := none, gitRepo := none, types := [], excludeTypes := [], targetPaths := [],
    excludePaths := [], compression := none, stripComponents := none, subdir := none,
    branch := none, commit := none, tag := none, ref := none, depth := none,
    recurseSubmodules := none, includePackageFiles := none }

/-- v2 `plugins: [{local: protoc-gen-go, out: gen, types: [a.B]}]`: `types` is lost. -/
theorem gen_roundtrip_plugin_types_counterexample :
    (readGen env0 (plugV2 { localV2 with types := ["a.B".toList] })).isSome = true ∧
    reread env0 (plugV2 { localV2 with types := ["a.B".toList] }) ≠
      readGen env0 (plugV2 { localV2 with types := ["a.B".toList] }) := by decide

/-- v2 `inputs: [{directory: proto, exclude_types: [a.B]}]`: `exclude_types` is lost. -/
theorem gen_roundtrip_input_exclude_types_counterexample :
    let e : ExtGen := .v2 { clean := false, managed := { enabled := false, disable := [], override := [] },
                            plugins := [localV2],
                            inputs := [{ inputDir with excludeTypes := ["a.B".toList] }] }
    (readGen env0 e).isSome = true ∧ reread env0 e ≠ readGen env0 e := by decide

/-- v1 `types: {include: [a.B]}` with a remote plugin: the type config is lost. -/
theorem gen_roundtrip_v1_types_counterexample :
    let e := plugV1 { plugin := "buf.build/acme/p".toList, name := [], out := "gen".toList,
                      revision := 0, opt := .nil, path := .nil, protocPath := .nil, strategy := [] }
               ["a.B".toList]
    (readGen env0 e).isSome = true ∧ reread env0 e ≠ readGen env0 e := by decide

/-- v1 `plugins: [{name: go, out: gen}]`: kind LocalOrProtocBuiltin becomes Local, the name
    becomes `protoc-gen-go`, the path `[protoc-gen-go]`. -/
theorem gen_roundtrip_v1_name_only_counterexample :
    let e := plugV1 { plugin := [], name := "go".toList, out := "gen".toList, revision := 0,
                      opt := .nil, path := .nil, protocPath := .nil, strategy := [] } []
    (readGen env0 e).isSome = true ∧ reread env0 e ≠ readGen env0 e := by decide

/-- v1 `plugins: [{name: go, out: gen, path: /bin/x}]`: the name `go` becomes `/bin/x`. -/
theorem gen_roundtrip_v1_local_name_counterexample :
    let e := plugV1 { plugin := [], name := "go".toList, out := "gen".toList, revision := 0,
                      opt := .nil, path := .str "/bin/x".toList, protocPath := .nil, strategy := [] } []
    (readGen env0 e).isSome = true ∧ reread env0 e ≠ readGen env0 e := by decide

/-! ## non-vacuity -/

instance (p : Plugin) : Decidable (RepPlugin p) := by unfold RepPlugin; infer_instance
instance (c : GenFile) : Decidable (Representable c) := by unfold Representable; infer_instance

/-- The hypotheses of `gen_roundtrip_partial` are satisfiable: a v2 document … -/
example : ∃ c, readGen env0 (plugV2 localV2) = some c ∧ Representable c := by
  refine ⟨(readGen env0 (plugV2 localV2)).get (by decide), by simp, by decide⟩

/-- … and a v1 document with a remote plugin and managed-mode sections. -/
example :
    let e : ExtGen := .v1
      { plugins := [{ plugin := "buf.build/acme/p".toList, name := [], out := "gen".toList,
                      revision := 3, opt := .str "a=b".toList, path := .nil, protocPath := .nil,
                      strategy := [] }],
        managed := { noManagedV1 with
          enabled := true, ccEnableArenas := some false,
          goPackagePrefix := { default := "x/gen".toList, except := ["b/o/m".toList],
                               override := [("b/o/n".toList, "y".toList)] } },
        typesInclude := [] }
    ∃ c, readGen env0 e = some c ∧ Representable c ∧ c.managed.overrides.length = 3 := by
  intro e
  refine ⟨(readGen env0 e).get (by decide), by simp, by decide, by decide⟩

end BufModel.ConfigGen
