import BufModel.Token
/-
  Helper lemmas for C19: `strings.Split` facts, the entry parser, the loop invariant of
  `newMultipleTokenProvider`, go-netrc's grouping parser on plain files.
-/
namespace BufModel.Token

/-! ### splitOn -/

def joinSep (sep : Char) : List Str → Str
  | [] => []
  | [x] => x
  | x :: y :: xs => x ++ sep :: joinSep sep (y :: xs)

theorem splitOn_cons (sep c : Char) (cs : Str) :
    splitOn sep (c :: cs) = if c = sep then [] :: splitOn sep cs else consHead c (splitOn sep cs) := rfl

theorem splitOn_ne_nil (sep : Char) (s : Str) : splitOn sep s ≠ [] := by
  induction s with
  | nil => simp [splitOn]
  | cons c cs ih =>
    unfold splitOn
    split
    · simp
    · cases h : splitOn sep cs with
      | nil => exact absurd h ih
      | cons a b => simp [consHead]

theorem join_split (sep : Char) (s : Str) : joinSep sep (splitOn sep s) = s := by
  induction s with
  | nil => simp [splitOn, joinSep]
  | cons c cs ih =>
    unfold splitOn
    split
    · rename_i h
      cases hs : splitOn sep cs with
      | nil => exact absurd hs (splitOn_ne_nil sep cs)
      | cons a b => rw [hs] at ih; simp [joinSep, ih, h]
    · cases hs : splitOn sep cs with
      | nil => exact absurd hs (splitOn_ne_nil sep cs)
      | cons a b =>
        rw [hs] at ih
        cases b with
        | nil => simp [consHead, joinSep] at *; exact ih
        | cons b1 b2 => simp [consHead, joinSep] at *; exact ih

theorem split_pieces_no_sep (sep : Char) (s : Str) : ∀ p ∈ splitOn sep s, sep ∉ p := by
  induction s with
  | nil => simp [splitOn]
  | cons c cs ih =>
    unfold splitOn
    split
    · intro p hp
      simp at hp
      rcases hp with rfl | hp
      · simp
      · exact ih p hp
    · rename_i hne
      cases hs : splitOn sep cs with
      | nil => exact absurd hs (splitOn_ne_nil sep cs)
      | cons a b =>
        rw [hs] at ih
        intro p hp
        simp [consHead] at hp
        rcases hp with rfl | hp
        · have := ih a (by simp)
          simp
          exact ⟨fun h => hne h.symm, this⟩
        · exact ih p (by simp [hp])

theorem split_no_sep (sep : Char) (s : Str) (h : sep ∉ s) : splitOn sep s = [s] := by
  induction s with
  | nil => simp [splitOn]
  | cons c cs ih =>
    simp at h
    rw [splitOn_cons, if_neg (fun e => h.1 e.symm), ih h.2]
    simp [consHead]

theorem split_append (sep : Char) (t rest : Str) (h : sep ∉ t) :
    splitOn sep (t ++ sep :: rest) = t :: splitOn sep rest := by
  induction t with
  | nil => simp [splitOn]
  | cons c cs ih =>
    simp at h
    show splitOn sep (c :: (cs ++ sep :: rest)) = _
    rw [splitOn_cons, if_neg (fun e => h.1 e.symm), ih h.2]
    simp [consHead]

theorem split_two (sep : Char) (t h : Str) (ht : sep ∉ t) (hh : sep ∉ h) :
    splitOn sep (t ++ sep :: h) = [t, h] := by
  rw [split_append sep t h ht, split_no_sep sep h hh]

theorem split_eq_two (sep : Char) (e t h : Str) (hs : splitOn sep e = [t, h]) :
    e = t ++ sep :: h ∧ sep ∉ t ∧ sep ∉ h := by
  have hj := join_split sep e
  have hp := split_pieces_no_sep sep e
  rw [hs] at hj hp
  simp [joinSep] at hj
  exact ⟨hj.symm, hp t (by simp), hp h (by simp)⟩

theorem split_eq_one (sep : Char) (s one : Str) (hs : splitOn sep s = [one]) :
    one = s ∧ sep ∉ s := by
  have hj := join_split sep s
  have hp := split_pieces_no_sep sep s
  rw [hs] at hj hp
  simp [joinSep] at hj
  subst hj
  exact ⟨rfl, hp one (by simp)⟩

/-! ### parseEntry -/

theorem parseEntry_ok (e h t : Str) : parseEntry e = .ok (h, t) ↔ WellFormed e t h := by
  constructor
  · intro hp
    cases hs : splitOn '@' e with
    | nil => simp [parseEntry, hs] at hp
    | cons a r =>
      cases r with
      | nil => simp [parseEntry, hs] at hp
      | cons b r2 =>
        cases r2 with
        | cons _ _ => simp [parseEntry, hs] at hp
        | nil =>
          simp only [parseEntry, hs] at hp
          by_cases h1 : a = [] ∨ b = []
          · simp [h1] at hp
          · rw [if_neg h1] at hp
            by_cases h2 : ':' ∈ a
            · simp [h2] at hp
            · rw [if_neg h2] at hp
              by_cases h3 : ',' ∈ a
              · simp [h3] at hp
              · rw [if_neg h3] at hp
                simp at hp
                obtain ⟨rfl, rfl⟩ := hp
                obtain ⟨hshape, hna, hnb⟩ := split_eq_two '@' e a b hs
                exact ⟨hshape, fun x => h1 (Or.inl x), fun x => h1 (Or.inr x), hna, hnb, h2, h3⟩
  · intro w
    have hs := split_two '@' t h w.tok_no_at w.host_no_at
    rw [← w.shape] at hs
    have h1 : ¬ (t = [] ∨ h = []) := fun x => x.elim w.tok_ne w.host_ne
    simp only [parseEntry, hs]
    rw [if_neg h1, if_neg w.tok_no_colon, if_neg w.tok_no_comma]

/-! ### association lists -/

theorem lookup_none_iff (k : Str) (m : List (Str × Str)) : m.lookup k = none ↔ k ∉ m.map Prod.fst := by
  induction m with
  | nil => simp [List.lookup]
  | cons p ps ih =>
    obtain ⟨a, b⟩ := p
    by_cases hk : k = a
    · subst hk; simp [List.lookup]
    · have : (k == a) = false := by simp [hk]
      simp [List.lookup, this, ih, hk]

theorem mem_of_lookup (k v : Str) (m : List (Str × Str)) (h : m.lookup k = some v) : (k, v) ∈ m := by
  induction m with
  | nil => simp [List.lookup] at h
  | cons p ps ih =>
    obtain ⟨a, b⟩ := p
    by_cases hk : k = a
    · subst hk; simp [List.lookup] at h; simp [h]
    · have : (k == a) = false := by simp [hk]
      simp [List.lookup, this] at h
      simp [ih h]

theorem lookup_of_mem (k v : Str) (m : List (Str × Str)) (hnd : (m.map Prod.fst).Nodup) (h : (k, v) ∈ m) :
    m.lookup k = some v := by
  induction m with
  | nil => simp at h
  | cons p ps ih =>
    obtain ⟨a, b⟩ := p
    simp at hnd
    simp at h
    by_cases hk : k = a
    · subst hk
      rcases h with h | h
      · simp [List.lookup, h.2]
      · exact absurd h (hnd.1 v)
    · have : (k == a) = false := by simp [hk]
      rcases h with h | h
      · exact absurd h.1 hk
      · simp [List.lookup, this]
        exact ih hnd.2 h

/-! ### newMultiple: the loop invariant -/

theorem newMultiple_cons (e : Str) (es : List Str) (acc : List (Str × Str)) :
    newMultiple (e :: es) acc =
      match parseEntry e with
      | .error x => .error x
      | .ok (h, t) =>
        if (acc.lookup h).isSome then .error .repeated else newMultiple es (acc ++ [(h, t)]) := rfl

theorem newMultiple_ok (es : List Str) : ∀ (acc m : List (Str × Str)),
    (acc.map Prod.fst).Nodup → newMultiple es acc = .ok m →
      (m.map Prod.fst).Nodup ∧ (∀ p ∈ acc, p ∈ m) ∧
      (∀ e ∈ es, ∃ h t, parseEntry e = .ok (h, t) ∧ (h, t) ∈ m) ∧
      (∀ p ∈ m, p ∈ acc ∨ ∃ e ∈ es, parseEntry e = .ok p) ∧
      m.length = acc.length + es.length := by
  induction es with
  | nil =>
    intro acc m hnd h
    simp [newMultiple] at h
    subst h
    simp [hnd]
  | cons e es ih =>
    intro acc m hnd h
    rw [newMultiple_cons] at h
    cases hp : parseEntry e with
    | error x => simp [hp] at h
    | ok p =>
      obtain ⟨hh, t⟩ := p
      simp only [hp] at h
      by_cases hl : (acc.lookup hh).isSome
      · simp [hl] at h
      · rw [if_neg hl] at h
        have hnone : acc.lookup hh = none := by
          cases hq : acc.lookup hh with
          | none => rfl
          | some v => simp [hq] at hl
        have hnot := (lookup_none_iff hh acc).mp hnone
        have hnd' : ((acc ++ [(hh, t)]).map Prod.fst).Nodup := by
          simp [List.nodup_append, hnd]
          intro a b hab heq
          subst heq
          apply hnot
          simp
          exact ⟨b, hab⟩
        obtain ⟨i1, i2, i3, i4, i5⟩ := ih (acc ++ [(hh, t)]) m hnd' h
        refine ⟨i1, ?_, ?_, ?_, ?_⟩
        · intro p hpm; exact i2 p (by simp [hpm])
        · intro e' he'
          simp at he'
          rcases he' with rfl | he'
          · exact ⟨hh, t, hp, i2 (hh, t) (by simp)⟩
          · exact i3 e' he'
        · intro p hpm
          rcases i4 p hpm with h1 | ⟨e', he', hpe⟩
          · simp at h1
            rcases h1 with h1 | h1
            · exact Or.inl h1
            · subst h1; exact Or.inr ⟨e, by simp, hp⟩
          · exact Or.inr ⟨e', by simp [he'], hpe⟩
        · simp at i5; simp; omega

/-! ### newTokenProvider: which constructor is reached -/

theorem multiOf_ok (toks : List Str) (p : Provider) (h : multiOf toks = .ok p) :
    ∃ m, p = .multi m ∧ newMultiple toks [] = .ok m := by
  unfold multiOf at h
  cases hm : newMultiple toks [] with
  | error e => simp [hm] at h
  | ok m => simp [hm] at h; exact ⟨m, h.symm, rfl⟩

theorem newTokenProvider_cases (s : Str) (p : Provider) (h : newTokenProvider s = .ok p) :
    (s = [] ∧ p = .nop) ∨
    (s ≠ [] ∧ '@' ∉ s ∧ ',' ∉ s ∧ p = .single s) ∨
    (s ≠ [] ∧ ('@' ∈ s ∨ ',' ∈ s) ∧ ∃ m, p = .multi m ∧ newMultiple (splitOn ',' s) [] = .ok m) := by
  by_cases hs : s = []
  · subst hs; simp [newTokenProvider] at h; exact Or.inl ⟨rfl, h.symm⟩
  · right
    unfold newTokenProvider at h
    rw [if_neg hs] at h
    cases hsp : splitOn ',' s with
    | nil => exact absurd hsp (splitOn_ne_nil ',' s)
    | cons a r =>
      cases r with
      | nil =>
        obtain ⟨rfl, hnc⟩ := split_eq_one ',' s a hsp
        simp only [hsp] at h
        by_cases hat : '@' ∈ a
        · rw [if_pos hat] at h
          exact Or.inr ⟨hs, Or.inl hat, multiOf_ok _ p h⟩
        · rw [if_neg hat] at h
          unfold newSingle at h
          rw [if_neg hat, if_neg hnc, if_neg hs] at h
          simp at h
          exact Or.inl ⟨hs, hat, hnc, h.symm⟩
      | cons b r2 =>
        simp only [hsp] at h
        refine Or.inr ⟨hs, Or.inr ?_, multiOf_ok _ p h⟩
        apply Classical.byContradiction
        intro hnc
        have := split_no_sep ',' s hnc
        rw [this] at hsp
        simp at hsp

theorem newMultiple_append (xs ys : List Str) : ∀ acc : List (Str × Str),
    newMultiple (xs ++ ys) acc =
      match newMultiple xs acc with
      | .error e => .error e
      | .ok a => newMultiple ys a := by
  induction xs with
  | nil => intro acc; simp [newMultiple]
  | cons x xs ih =>
    intro acc
    show newMultiple (x :: (xs ++ ys)) acc = _
    rw [newMultiple_cons, newMultiple_cons]
    cases hp : parseEntry x with
    | error e => simp
    | ok p =>
      obtain ⟨h, t⟩ := p
      simp only
      by_cases hl : (acc.lookup h).isSome
      · simp [hl]
      · rw [if_neg hl, if_neg hl]; exact ih _

def entryOf (p : Str × Str) : Str := p.2 ++ '@' :: p.1

theorem newMultiple_wellformed (pairs : List (Str × Str)) : ∀ acc : List (Str × Str),
    (∀ p ∈ pairs, WellFormed (entryOf p) p.2 p.1) →
    ((acc ++ pairs).map Prod.fst).Nodup →
    newMultiple (pairs.map entryOf) acc = .ok (acc ++ pairs) := by
  induction pairs with
  | nil => intro acc _ _; simp [newMultiple]
  | cons p ps ih =>
    intro acc hwf hnd
    obtain ⟨h, t⟩ := p
    show newMultiple (entryOf (h, t) :: ps.map entryOf) acc = _
    rw [newMultiple_cons, (parseEntry_ok (entryOf (h, t)) h t).mpr (hwf (h, t) (by simp))]
    simp only
    have hnone : acc.lookup h = none := by
      rw [lookup_none_iff]
      intro hmem
      simp [List.nodup_append] at hnd
      obtain ⟨a, ha⟩ : ∃ a, (h, a) ∈ acc := by simpa using hmem
      exact (hnd.2.2 h a ha).1 rfl
    simp only [hnone, Option.isSome_none, Bool.false_eq_true, if_false]
    have := ih (acc ++ [(h, t)]) (fun q hq => hwf q (by simp [hq])) (by simpa using hnd)
    simpa using this

/-! ### go-netrc grouping parser on plain files -/

theorem parseToks_word (tok : Str) (rest : List Str) (m : Machine) (ms : List Machine)
    (h1 : tok ≠ kwMachine) (h2 : tok ≠ kwDefault) :
    parseToks (tok :: rest) (m :: ms) = parseToks rest ({ m with tokens := m.tokens ++ [tok] } :: ms) := by
  simp [parseToks, h1, h2]

theorem parseToks_machine (rest : List Str) (acc : List Machine) (nm : Str) (h : rest[1]? = some nm) :
    parseToks (kwMachine :: rest) acc =
      parseToks rest ({ name := nm, isDefault := false, tokens := [kwMachine] } :: acc) := by
  simp [parseToks, h]

theorem parseToks_default (rest : List Str) (acc : List Machine) :
    parseToks (kwDefault :: rest) acc =
      parseToks rest ({ name := kwDefault, isDefault := true, tokens := [kwDefault] } :: acc) := by
  have : kwDefault ≠ kwMachine := by decide
  simp [parseToks, this]

theorem parseToks_entry (e : Entry) (hp : e.Plain) (rest : List Str) (acc : List Machine) :
    parseToks (e.render ++ rest) acc = parseToks rest (e.toMachine :: acc) := by
  obtain ⟨hn, hl1, hl2, hp1, hp2⟩ := hp
  have a1 : sp ≠ kwMachine := by decide
  have a2 : sp ≠ kwDefault := by decide
  have b1 : nl ≠ kwMachine := by decide
  have b2 : nl ≠ kwDefault := by decide
  have c1 : kwLogin ≠ kwMachine := by decide
  have c2 : kwLogin ≠ kwDefault := by decide
  have d1 : kwPassword ≠ kwMachine := by decide
  have d2 : kwPassword ≠ kwDefault := by decide
  cases hname : e.name with
  | some n =>
    obtain ⟨n1, n2⟩ := hn n hname
    simp only [Entry.render, hname, List.cons_append, List.nil_append]
    rw [parseToks_machine _ _ n (by simp)]
    rw [parseToks_word _ _ _ _ a1 a2, parseToks_word _ _ _ _ n1 n2, parseToks_word _ _ _ _ a1 a2,
      parseToks_word _ _ _ _ c1 c2, parseToks_word _ _ _ _ a1 a2, parseToks_word _ _ _ _ hl1 hl2,
      parseToks_word _ _ _ _ a1 a2, parseToks_word _ _ _ _ d1 d2, parseToks_word _ _ _ _ a1 a2,
      parseToks_word _ _ _ _ hp1 hp2, parseToks_word _ _ _ _ b1 b2]
    simp [Entry.toMachine, Entry.render, hname]
  | none =>
    simp only [Entry.render, hname, List.cons_append, List.nil_append]
    rw [parseToks_default]
    rw [parseToks_word _ _ _ _ a1 a2,
      parseToks_word _ _ _ _ c1 c2, parseToks_word _ _ _ _ a1 a2, parseToks_word _ _ _ _ hl1 hl2,
      parseToks_word _ _ _ _ a1 a2, parseToks_word _ _ _ _ d1 d2, parseToks_word _ _ _ _ a1 a2,
      parseToks_word _ _ _ _ hp1 hp2, parseToks_word _ _ _ _ b1 b2]
    simp [Entry.toMachine, Entry.render, hname]

theorem parseToks_entries (es : List Entry) : ∀ (acc : List Machine), (∀ e ∈ es, e.Plain) →
    parseToks (renderEntries es) acc = .ok (acc.reverse ++ es.map Entry.toMachine) := by
  induction es with
  | nil => intro acc _; simp [renderEntries, parseToks]
  | cons e es ih =>
    intro acc hp
    have : renderEntries (e :: es) = e.render ++ renderEntries es := by simp [renderEntries]
    rw [this, parseToks_entry e (hp e (by simp)), ih _ (fun x hx => hp x (by simp [hx]))]
    simp

theorem toMachine_password (e : Entry) : e.toMachine.get kwPassword = e.password := by
  have : kwLogin ≠ kwPassword := by decide
  cases hname : e.name with
  | some n => simp [Entry.toMachine, Machine.get, Entry.render, hname, getLoop, this]
  | none => simp [Entry.toMachine, Machine.get, Entry.render, hname, getLoop, this]

theorem findMachine_exact (es : List Entry) (host : Str) (hd : host ≠ kwDefault) :
    findMachine (es.map Entry.toMachine) host = (es.find? (fun e => e.name = some host)).map Entry.toMachine := by
  induction es with
  | nil => simp [findMachine]
  | cons e es ih =>
    unfold findMachine at ih ⊢
    cases hname : e.name with
    | some n =>
      by_cases hn : n = host
      · simp [List.find?, Entry.toMachine, hname, hn]
      · simp [List.find?, Entry.toMachine, hname, hn]
        simpa [Entry.toMachine] using ih
    | none =>
      have : kwDefault ≠ host := fun h => hd h.symm
      simp [List.find?, Entry.toMachine, hname, this]
      simpa [Entry.toMachine] using ih

theorem findMachine_default (es : List Entry) (hp : ∀ e ∈ es, e.name ≠ some kwDefault) :
    findMachine (es.map Entry.toMachine) kwDefault = (es.find? (fun e => e.name = none)).map Entry.toMachine := by
  induction es with
  | nil => simp [findMachine]
  | cons e es ih =>
    have ih' := ih (fun x hx => hp x (by simp [hx]))
    unfold findMachine at ih' ⊢
    cases hname : e.name with
    | some n =>
      have hn : n ≠ kwDefault := fun h => hp e (by simp) (by rw [hname, h])
      simp [List.find?, Entry.toMachine, hname, hn]
      simpa [Entry.toMachine] using ih'
    | none =>
      simp [List.find?, Entry.toMachine, hname]

end BufModel.Token
