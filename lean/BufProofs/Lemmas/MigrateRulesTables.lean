import BufProofs.Lemmas.MigrateRulesBase
/-
  The decidable facts about the REGENERATED rule tables that the C16 migration theorems use,
  checked by kernel evaluation for (v1beta1 | v1) × (lint | breaking) against v2.  (Own file: the
  evaluation takes a while and is cached by lake as long as the tables do not change.)
-/
namespace BufModel.MigrateRules
open BufModel.Rules BufGen.RuleTables

theorem tablesOK_v1beta1_lint : tablesOKb (rulesForType (rulesOf .v1beta1) true) (rulesForType (rulesOf .v2) true) := by
  decide +kernel
theorem tablesOK_v1beta1_breaking : tablesOKb (rulesForType (rulesOf .v1beta1) false) (rulesForType (rulesOf .v2) false) := by
  decide +kernel
theorem tablesOK_v1_lint : tablesOKb (rulesForType (rulesOf .v1) true) (rulesForType (rulesOf .v2) true) := by
  decide +kernel
theorem tablesOK_v1_breaking : tablesOKb (rulesForType (rulesOf .v1) false) (rulesForType (rulesOf .v2) false) := by
  decide +kernel

/-- The table facts hold for every version that is migrated and both rule types. -/
theorem tablesOK_all (v : Version) (hv : v ≠ .v2) (lint : Bool) :
    TablesOK (rulesForType (rulesOf v) lint) (rulesForType (rulesOf .v2) lint) := by
  cases v with
  | v1beta1 => cases lint; exact .of_b tablesOK_v1beta1_breaking; exact .of_b tablesOK_v1beta1_lint
  | v1 => cases lint; exact .of_b tablesOK_v1_breaking; exact .of_b tablesOK_v1_lint
  | v2 => exact absurd rfl hv

theorem tables_nonempty (v : Version) (lint : Bool) : rulesForType (rulesOf v) lint ≠ [] := by
  cases v <;> cases lint <;> decide

end BufModel.MigrateRules
