import BufModel.FileNodeGate
import BufProofs.Lemmas.PathLemmas
import BufProofs.Lemmas.ManifestLemmas
/-
  Helper lemmas for the bufcas gate part of C13: the gate predicate vs. its error-reporting form
  and vs. C08's `validateNodePath`; manifest text built from (digest, path) lines.
-/
namespace BufModel.FileNodeGate
open BufModel.Path BufModel.Manifest

theorem fileNodeGate_iff_gateE (p : Str) : fileNodeGate p = true ↔ fileNodeGateE p = .ok () := by
  unfold fileNodeGate fileNodeGateE
  by_cases h0 : p = []
  · simp [h0]
  · simp only [h0, ne_eq, not_false_eq_true, decide_true, Bool.true_and, if_false]
    cases hv : normalizeAndValidate p with
    | error e => simp
    | ok n =>
      by_cases hn : p = n
      · subst hn
        by_cases hl : '\n' ∈ p
        · simp [hl]
        · simp [hl]
      · have : ¬ (Except.ok n : Except PErr Str) = Except.ok p := fun e => hn (Except.ok.inj e).symm
        simp [hn, this]

/-- C08's model of `validateFileNodeParameters` and the gate have the same verdict. -/
theorem fileNodeGate_iff_validateNodePath (p : Str) :
    fileNodeGate p = true ↔ validateNodePath p = .ok () := by
  rw [validateNodePath_ok_iff]
  unfold fileNodeGate validateNodePathOld
  by_cases h0 : p = []
  · simp [h0]
  · simp only [h0, ne_eq, not_false_eq_true, decide_true, Bool.true_and, if_false]
    cases hv : normalizeAndValidate p with
    | error e => simp
    | ok n =>
      by_cases hn : p = n
      · subst hn; simp
      · have : ¬ (Except.ok n : Except PErr Str) = Except.ok p := fun e => hn (Except.ok.inj e).symm
        simp [hn, this]

theorem validateNodePath_error_of_gate_false {p : Str} (h : fileNodeGate p = false) :
    ∃ e, validateNodePath p = .error e := by
  cases hv : validateNodePath p with
  | error e => exact ⟨e, rfl⟩
  | ok u =>
    cases u
    have := (fileNodeGate_iff_validateNodePath p).mpr hv
    rw [h] at this; cases this

/-- one manifest line `digest[SP][SP]path` -/
def nodeLine (x : Digest × Str) : Str := digestString x.1 ++ ' ' :: ' ' :: x.2

/-- the manifest text of a non-empty list of lines, as `ParseManifest` expects it -/
def linesText (ls : List (Digest × Str)) : Str := joinC '\n' (ls.map nodeLine) ++ ['\n']

def lineNode (x : Digest × Str) : FileNode := ⟨x.2, x.1⟩

theorem parseFileNode_nodeLine (x : Digest × Str) :
    parseFileNode (nodeLine x) = newFileNode x.2 x.1 := by
  have hcut : cut2sp (nodeLine x) = some (digestString x.1, x.2) :=
    cut2sp_append _ (fun hm => (digestString_plain _ _ hm).1 rfl) _
  unfold parseFileNode
  rw [hcut]
  simp only [finishNode, parseDigest_digestString]

theorem parseFileNode_nodeLine_ok {x : Digest × Str} (h : fileNodeGate x.2 = true) :
    parseFileNode (nodeLine x) = .ok (lineNode x) := by
  rw [parseFileNode_nodeLine]
  exact newFileNode_ok _ ((fileNodeGate_iff_validateNodePath _).mp h)

theorem parseFileNode_nodeLine_error {x : Digest × Str} (h : fileNodeGate x.2 = false) :
    ∃ e, parseFileNode (nodeLine x) = .error e := by
  rw [parseFileNode_nodeLine]
  obtain ⟨e, he⟩ := validateNodePath_error_of_gate_false h
  exact ⟨e, by simp [newFileNode, he]⟩

theorem nodeLine_no_newline {x : Digest × Str} (h : '\n' ∉ x.2) : '\n' ∉ nodeLine x :=
  fileNodeString_no_newline (lineNode x) h

/-- all lines pass → the nodes, in order -/
theorem parseLines_nodeLines_ok (ls : List (Digest × Str)) (h : ∀ x ∈ ls, fileNodeGate x.2 = true) :
    parseLines parseFileNode (ls.map nodeLine) = .ok (ls.map lineNode) := by
  induction ls with
  | nil => rfl
  | cons x xs ih =>
    simp only [List.map_cons, parseLines, parseFileNode_nodeLine_ok (h x (by simp)),
      ih (fun y hy => h y (by simp [hy]))]

/-- one refused line, anywhere → error -/
theorem parseLines_nodeLines_error (ls : List (Digest × Str)) (h : ∃ x ∈ ls, fileNodeGate x.2 = false) :
    ∃ e, parseLines parseFileNode (ls.map nodeLine) = .error e := by
  induction ls with
  | nil => obtain ⟨x, hx, _⟩ := h; cases hx
  | cons x xs ih =>
    simp only [List.map_cons, parseLines]
    cases hg : fileNodeGate x.2 with
    | false =>
      obtain ⟨e, he⟩ := parseFileNode_nodeLine_error hg
      exact ⟨e, by rw [he]⟩
    | true =>
      rw [parseFileNode_nodeLine_ok hg]
      obtain ⟨y, hy, hyg⟩ := h
      rcases List.mem_cons.mp hy with rfl | hy'
      · rw [hg] at hyg; cases hyg
      · obtain ⟨e, he⟩ := ih ⟨y, hy', hyg⟩
        exact ⟨e, by rw [he]⟩

theorem parseManifest_linesText (ls : List (Digest × Str)) (hne : ls ≠ [])
    (hnl : ∀ x ∈ ls, '\n' ∉ x.2) :
    parseManifest (linesText ls) =
      match parseLines parseFileNode (ls.map nodeLine) with
      | .error e => .error e
      | .ok nodes => newManifest nodes := by
  unfold parseManifest parseManifestWith linesText
  have h1 : joinC '\n' (ls.map nodeLine) ++ ['\n'] ≠ [] := by simp
  rw [if_neg h1]
  have h2 : ¬ ((joinC '\n' (ls.map nodeLine) ++ ['\n']).getLast? ≠ some '\n') := by simp
  rw [if_neg h2, List.dropLast_concat]
  rw [splitOnC_joinC '\n' _ (by simp [hne])
    (by intro l hl
        rcases List.mem_map.mp hl with ⟨x, hx, rfl⟩
        exact nodeLine_no_newline (hnl x hx))]
  cases parseLines parseFileNode (ls.map nodeLine) <;> rfl

theorem map_path_lineNode (ls : List (Digest × Str)) :
    (ls.map lineNode).map (·.path) = ls.map (·.2) := by
  induction ls with
  | nil => rfl
  | cons x xs ih => simp [lineNode]

end BufModel.FileNodeGate
