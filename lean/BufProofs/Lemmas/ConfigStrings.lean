import BufProofs.Lemmas.ConfigRange
/-
  C16, second pass: the string-level tie.  The struct-level model carries a path as
  `P = empty | bad | ok components`; the implementation carries strings, joins them with
  normalpath.Join on write and validates / re-bases them with NormalizeAndValidate / Rel on
  read.  This file proves that the component-list operations of the model ARE those string
  functions (BufModel.Path) on every path that can occur, and that a written buf.yaml v2 /
  buf.work.yaml document read back THROUGH ITS STRINGS is the document the struct-level round
  trip theorem talks about.
-/
namespace BufModel.Config
open BufModel.Path

instance (ns : List Comp) : Decidable (AllProper ns) := by unfold AllProper; infer_instance

/-! ### one path -/

/-- A rendered key is read back as that key. -/
theorem normP_renderKey {k : Key} (h : AllProper k) : normP (renderKey k) = .ok k := by
  unfold normP
  rw [if_neg (renderKey_ne_nil h), validate_renderKey h]
  simp only [cleanComps_renderKey h]

/-- What the writers emit — `normalpath.Join(dir, rel)` of two rendered keys — is read back by
    `NormalizeAndValidate` as the concatenated key: the model's `P.ok (dir ++ k)`. -/
theorem normP_join {d k : Key} (hd : AllProper d) (hk : AllProper k) :
    normP (join [renderKey d, renderKey k]) = .ok (d ++ k) := by
  rw [join_keys hd hk]
  exact normP_renderKey (allProper_append.mpr ⟨hd, hk⟩)

/-- Every path the reader accepts is a list of proper names, and the accepted string
    normalises to its rendering. -/
theorem normP_ok {s : Str} {k : Key} (h : normP s = .ok k) :
    AllProper k ∧ s ≠ [] ∧ normalizeAndValidate s = .ok (renderKey k) := by
  unfold normP at h
  split at h
  · cases h
  · rename_i hs
    split at h
    · rename_i p hp
      injection h with h
      obtain ⟨ns, hns, rfl⟩ := validate_sound s p hp
      rw [cleanComps_renderKey hns] at h
      subst h
      exact ⟨hns, hs, hp⟩
    · cases h

/-- The reader's `normalpath.Rel(dir, path)` on rendered keys is dropping the prefix. -/
theorem rel_renderKey {d p : Key} (hd : AllProper d) (hp : AllProper p) (hpre : d.isPrefixOf p = true) :
    rel (renderKey d) (renderKey p) = some (renderKey (p.drop d.length)) := by
  obtain ⟨t, rfl⟩ := List.isPrefixOf_iff_prefix.mp hpre
  have ht : AllProper t := (allProper_append.mp hp).2
  rw [drop_append_self]
  exact rel_keys hd ht

/-- The reader's `EqualsOrContainsPath(dir, path)` on rendered keys is `isPrefixOf`. -/
theorem ecp_renderKey {d p : Key} (hd : AllProper d) (hp : AllProper p) :
    equalsOrContainsPath (renderKey d) (renderKey p) = d.isPrefixOf p := by
  cases h : d.isPrefixOf p with
  | true => exact (ecp_keys hd hp).mpr (List.isPrefixOf_iff_prefix.mp h)
  | false =>
    cases h' : equalsOrContainsPath (renderKey d) (renderKey p) with
    | false => rfl
    | true =>
      have := List.isPrefixOf_iff_prefix.mpr ((ecp_keys hd hp).mp h')
      rw [h] at this; cases this

/-- The string the model renders for a written path is the string the Go writer computes. -/
theorem render_written {d k : Key} (hd : AllProper d) (hk : AllProper k) :
    (P.ok (d ++ k)).render = join [renderKey d, renderKey k] := (join_keys hd hk).symm

/-- Paths that carry only proper names (what `normP` produces). -/
def ProperP : P → Prop
  | .ok k => AllProper k
  | _ => True

/-- Paths the writers emit: a definite proper key. -/
def GoodP (p : P) : Prop := ∃ k, p = .ok k ∧ AllProper k

theorem properP_normP (s : Str) : ProperP (normP s) := by
  cases h : normP s with
  | ok k => exact (normP_ok h).1
  | empty => trivial
  | bad => trivial

theorem reparse_good {p : P} (h : GoodP p) : reparse p = p := by
  obtain ⟨k, rfl, hk⟩ := h
  exact normP_renderKey hk

theorem properP_nv {p : P} {k : Key} (hp : ProperP p) (h : p.nv = some k) : AllProper k := by
  cases p with
  | ok k' => simp [P.nv] at h; subst h; exact hp
  | empty => simp [P.nv] at h; subst h; exact allProper_nil
  | bad => simp [P.nv] at h

theorem properP_strict {p : P} {k : Key} (hp : ProperP p) (h : p.strict = some k) : AllProper k := by
  cases p with
  | ok k' => simp [P.strict] at h; subst h; exact hp
  | empty => simp [P.strict] at h
  | bad => simp [P.strict] at h

theorem allProper_drop {k : Key} (h : AllProper k) (n : Nat) : AllProper (k.drop n) :=
  fun c hc => h c (List.mem_of_mem_drop hc)

/-! ### predicates over all paths of an external document / all keys of a configuration -/

def ExtCheck.AllP (Q : P → Prop) (c : ExtCheck) : Prop :=
  (∀ p ∈ c.ignore, Q p) ∧ ∀ e ∈ c.ignoreOnly, ∀ p ∈ e.2, Q p

def ExtModule.AllP (Q : P → Prop) (m : ExtModule) : Prop :=
  Q m.path ∧ (∀ p ∈ m.includes, Q p) ∧ (∀ p ∈ m.excludes, Q p) ∧ m.lint.chk.AllP Q ∧ m.breaking.chk.AllP Q

def ExtV2.AllP (Q : P → Prop) (e : ExtV2) : Prop :=
  (∀ m ∈ e.modules, m.AllP Q) ∧ e.lint.chk.AllP Q ∧ e.breaking.chk.AllP Q

def Check.Proper (c : Check) : Prop :=
  (∀ k ∈ c.ignore, AllProper k) ∧ ∀ e ∈ c.ignoreOnly, ∀ k ∈ e.2, AllProper k

def Module.Proper (m : Module) : Prop :=
  AllProper m.dirPath ∧
  (∀ r ∈ m.roots, AllProper r.root ∧ (∀ k ∈ r.includes, AllProper k) ∧ ∀ k ∈ r.excludes, AllProper k) ∧
  m.lint.chk.Proper ∧ m.breaking.chk.Proper

def BufYAML.Proper (c : BufYAML) : Prop := ∀ m ∈ c.modules, m.Proper

theorem extCheck_zero_allP (Q : P → Prop) : ExtCheck.zero.AllP Q :=
  ⟨(by intro p hp; simp [ExtCheck.zero] at hp), (by intro e he; simp [ExtCheck.zero] at he)⟩

/-! ### `mapP f` is the identity where `f` fixes every path -/

theorem list_map_id_of {α : Type} (f : α → α) (l : List α) (h : ∀ x ∈ l, f x = x) : l.map f = l := by
  induction l with
  | nil => rfl
  | cons x xs ih =>
    simp only [List.map_cons]
    rw [h x (by simp), ih (fun y hy => h y (by simp [hy]))]

theorem ExtCheck.mapP_id (f : P → P) (c : ExtCheck) (h : c.AllP (fun p => f p = p)) : c.mapP f = c := by
  unfold ExtCheck.mapP
  rw [list_map_id_of f _ h.1]
  have : (c.ignoreOnly.map fun e => (e.1, e.2.map f)) = c.ignoreOnly := by
    apply list_map_id_of
    intro e he
    rw [list_map_id_of f _ (h.2 e he)]
  rw [this]

theorem ExtModule.mapP_id (f : P → P) (m : ExtModule) (h : m.AllP (fun p => f p = p)) : m.mapP f = m := by
  obtain ⟨h1, h2, h3, h4, h5⟩ := h
  unfold ExtModule.mapP ExtLint.mapP ExtBreaking.mapP
  rw [h1, list_map_id_of f _ h2, list_map_id_of f _ h3, ExtCheck.mapP_id f _ h4, ExtCheck.mapP_id f _ h5]

theorem ExtV2.mapP_id (f : P → P) (e : ExtV2) (h : e.AllP (fun p => f p = p)) : e.mapP f = e := by
  obtain ⟨h1, h2, h3⟩ := h
  unfold ExtV2.mapP ExtLint.mapP ExtBreaking.mapP
  rw [list_map_id_of _ _ (fun m hm => ExtModule.mapP_id f m (h1 m hm)), ExtCheck.mapP_id f _ h2,
    ExtCheck.mapP_id f _ h3]

theorem ExtCheck.AllP_mono {Q R : P → Prop} (hqr : ∀ p, Q p → R p) {c : ExtCheck} (h : c.AllP Q) : c.AllP R :=
  ⟨fun p hp => hqr p (h.1 p hp), fun e he p hp => hqr p (h.2 e he p hp)⟩

theorem ExtV2.AllP_mono {Q R : P → Prop} (hqr : ∀ p, Q p → R p) {e : ExtV2} (h : e.AllP Q) : e.AllP R :=
  ⟨fun m hm => ⟨hqr _ (h.1 m hm).1, fun p hp => hqr p ((h.1 m hm).2.1 p hp),
      fun p hp => hqr p ((h.1 m hm).2.2.1 p hp), ExtCheck.AllP_mono hqr (h.1 m hm).2.2.2.1,
      ExtCheck.AllP_mono hqr (h.1 m hm).2.2.2.2⟩,
    ExtCheck.AllP_mono hqr h.2.1, ExtCheck.AllP_mono hqr h.2.2⟩

/-! ### the writer emits good paths -/

theorem extCheckOf_good (c : Check) (d : Key) (hd : AllProper d) (hc : c.Proper) :
    (extCheckOf c d).AllP GoodP := by
  unfold extCheckOf
  constructor
  · intro p hp
    simp only at hp
    split at hp
    · simp only [List.mem_singleton] at hp; subst hp; exact ⟨d, rfl, hd⟩
    · obtain ⟨k, hk, rfl⟩ := List.mem_map.mp hp
      exact ⟨d ++ k, rfl, allProper_append.mpr ⟨hd, hc.1 k hk⟩⟩
  · intro e he p hp
    simp only at he
    obtain ⟨e0, he0, rfl⟩ := List.mem_map.mp he
    simp only at hp
    obtain ⟨k, hk, rfl⟩ := List.mem_map.mp hp
    exact ⟨d ++ k, rfl, allProper_append.mpr ⟨hd, hc.2 e0 he0 k hk⟩⟩

theorem extModuleOf_good (m : Module) (hm : m.Proper) : (extModuleOfWith extCheckOf m).AllP GoodP := by
  obtain ⟨hd, hr, hl, hb⟩ := hm
  unfold extModuleOfWith
  have hroot : (∀ k ∈ (m.roots.headD ⟨[], [], []⟩).includes, AllProper k) ∧
      ∀ k ∈ (m.roots.headD ⟨[], [], []⟩).excludes, AllProper k := by
    cases hrs : m.roots with
    | nil => simp
    | cons r rs =>
      have := hr r (by rw [hrs]; simp)
      exact ⟨this.2.1, this.2.2⟩
  refine ⟨⟨m.dirPath, rfl, hd⟩, ?_, ?_, extCheckOf_good _ _ hd hl, extCheckOf_good _ _ hd hb⟩
  · intro p hp
    obtain ⟨k, hk, rfl⟩ := List.mem_map.mp hp
    exact ⟨_, rfl, allProper_append.mpr ⟨hd, hroot.1 k hk⟩⟩
  · intro p hp
    obtain ⟨k, hk, rfl⟩ := List.mem_map.mp hp
    exact ⟨_, rfl, allProper_append.mpr ⟨hd, hroot.2 k hk⟩⟩

theorem headD_mem_or {α : Type} (l : List α) (d : α) : l.headD d = d ∨ l.headD d ∈ l := by
  cases l <;> simp

theorem clearChecks_good {m : ExtModule} (h : m.AllP GoodP) : (m.clearChecks).AllP GoodP :=
  ⟨h.1, h.2.1, h.2.2.1, extCheck_zero_allP _, extCheck_zero_allP _⟩

/-- Every path in the document the v2 writer produces is a definite proper key. -/
theorem writeV2_good (c : BufYAML) (hc : c.Proper) : (writeV2 c).AllP GoodP := by
  have hms : ∀ m ∈ c.modules.map (extModuleOfWith extCheckOf), m.AllP GoodP := by
    intro m hm
    obtain ⟨m0, hm0, rfl⟩ := List.mem_map.mp hm
    exact extModuleOf_good m0 (hc m0 hm0)
  have hms' : ∀ m ∈ (c.modules.map (extModuleOfWith extCheckOf)).map ExtModule.clearChecks, m.AllP GoodP := by
    intro m hm
    obtain ⟨m0, hm0, rfl⟩ := List.mem_map.mp hm
    exact clearChecks_good (hms m0 hm0)
  have hL : ∀ b : Bool, (if b then ((c.modules.map (extModuleOfWith extCheckOf)).map (·.lint)).headD ExtLint.zero
      else ExtLint.zero).chk.AllP GoodP := by
    intro b
    cases b
    · exact extCheck_zero_allP _
    · rcases headD_mem_or ((c.modules.map (extModuleOfWith extCheckOf)).map (·.lint)) ExtLint.zero with h | h
      · simp only [if_true]; rw [h]; exact extCheck_zero_allP _
      · simp only [if_true]
        obtain ⟨m, hm, hml⟩ := List.mem_map.mp h
        rw [← hml]; exact (hms m hm).2.2.2.1
  have hB : ∀ b : Bool, (if b then ((c.modules.map (extModuleOfWith extCheckOf)).map (·.breaking)).headD ExtBreaking.zero
      else ExtBreaking.zero).chk.AllP GoodP := by
    intro b
    cases b
    · exact extCheck_zero_allP _
    · rcases headD_mem_or ((c.modules.map (extModuleOfWith extCheckOf)).map (·.breaking)) ExtBreaking.zero with h | h
      · simp only [if_true]; rw [h]; exact extCheck_zero_allP _
      · simp only [if_true]
        obtain ⟨m, hm, hml⟩ := List.mem_map.mp h
        rw [← hml]; exact (hms m hm).2.2.2.2
  have hM : ∀ b : Bool, ∀ m ∈ (if b then (c.modules.map (extModuleOfWith extCheckOf)).map ExtModule.clearChecks
      else c.modules.map (extModuleOfWith extCheckOf)), m.AllP GoodP := by
    intro b
    cases b
    · exact hms
    · exact hms'
  unfold writeV2 writeV2With
  simp only
  generalize (allEq ((c.modules.map (extModuleOfWith extCheckOf)).map (·.lint)) &&
    allEq ((c.modules.map (extModuleOfWith extCheckOf)).map (·.breaking))) = hoist
  split
  · split
    · exact ⟨(by intro m hm; cases hm), hL hoist, hB hoist⟩
    · exact ⟨hM hoist, hL hoist, hB hoist⟩
  · exact ⟨hM hoist, hL hoist, hB hoist⟩

/-! ### the reader produces proper keys from proper paths -/

theorem relPaths_proper (d : Key) (r : Bool) : ∀ (ps : List P) (ks : List Key),
    (∀ p ∈ ps, ProperP p) → relPaths d r ps = some ks → ∀ k ∈ ks, AllProper k := by
  intro ps
  induction ps with
  | nil => intro ks _ h; simp [relPaths] at h; subst h; simp
  | cons p rest ih =>
    intro ks hp h
    unfold relPaths at h
    cases hnv : p.nv with
    | none => simp [hnv] at h
    | some k0 =>
      simp only [hnv] at h
      have hk0 := properP_nv (hp p (by simp)) hnv
      split at h
      · cases hr : relPaths d r rest with
        | none => simp [hr] at h
        | some ks' =>
          simp only [hr, Option.some.injEq] at h
          subst h
          intro k hk
          rcases List.mem_cons.mp hk with hk | hk
          · subst hk; exact allProper_drop hk0 _
          · exact ih ks' (fun q hq => hp q (by simp [hq])) hr k hk
      · split at h
        · cases h
        · exact ih ks (fun q hq => hp q (by simp [hq])) h

theorem relIgnoreOnly_proper (d : Key) (r : Bool) : ∀ (io : List (Str × List P)) (out : List (Str × List Key)),
    (∀ e ∈ io, ∀ p ∈ e.2, ProperP p) → relIgnoreOnly d r io = some out →
      ∀ e ∈ out, ∀ k ∈ e.2, AllProper k := by
  intro io
  induction io with
  | nil => intro out _ h; simp [relIgnoreOnly] at h; subst h; simp
  | cons e rest ih =>
    intro out hp h
    obtain ⟨id, ps⟩ := e
    unfold relIgnoreOnly at h
    cases h1 : relPaths d r ps with
    | none => simp [h1] at h
    | some ks =>
      cases h2 : relIgnoreOnly d r rest with
      | none => simp [h1, h2] at h
      | some out' =>
        simp only [h1, h2, Option.some.injEq] at h
        have hks := relPaths_proper d r ps ks (fun p hpp => hp (id, ps) (by simp) p hpp) h1
        have hrest := ih out' (fun e he => hp e (by simp [he])) h2
        subst h
        intro e he
        split at he
        · exact hrest e he
        · rcases List.mem_cons.mp he with he | he
          · subst he; exact hks
          · exact hrest e he

theorem checkIgnoreOnly_proper : ∀ (io out : List (Str × List Key)),
    (∀ e ∈ io, ∀ k ∈ e.2, AllProper k) → checkIgnoreOnly io = some out →
      ∀ e ∈ out, ∀ k ∈ e.2, AllProper k := by
  intro io
  induction io with
  | nil => intro out _ h; simp [checkIgnoreOnly] at h; subst h; simp
  | cons e rest ih =>
    intro out hp h
    obtain ⟨id, ks⟩ := e
    unfold checkIgnoreOnly at h
    cases h1 : normCheckKeys (sortU keyLt ks) with
    | none => simp [h1] at h
    | some ks' =>
      cases h2 : checkIgnoreOnly rest with
      | none => simp [h1, h2] at h
      | some out' =>
        simp only [h1, h2, Option.some.injEq] at h
        subst h
        intro e he
        rcases List.mem_cons.mp he with he | he
        · subst he
          intro k hk
          simp only at hk
          rw [(normCheckKeys_some h1).2] at hk
          exact hp (id, ks) (by simp) k (mem_sortU_imp _ _ _ (mem_sortU_imp _ _ _ hk))
        · exact ih out' (fun e he => hp e (by simp [he])) h2 e he

theorem readCheck_proper {e : ExtCheck} {d : Key} {r : Bool} {c : Check}
    (he : e.AllP ProperP) (h : readCheck e d r = some c) : c.Proper := by
  unfold readCheck at h
  split at h
  · cases h
  · injection h with h; subst h
    exact ⟨(by intro k hk; simp [Check.disabledCfg] at hk), (by intro e he; simp [Check.disabledCfg] at he)⟩
  · split at h
    · rename_i ig io hig hio
      unfold newEnabledCheck at h
      split at h
      · rename_i ig' io' hig' hio'
        injection h with h; subst h
        have h1 := relPaths_proper d r _ _ he.1 hig
        have h2 := relIgnoreOnly_proper d r _ _ he.2 hio
        refine ⟨?_, checkIgnoreOnly_proper _ _ h2 hio'⟩
        intro k hk
        simp only at hk
        rw [(normCheckKeys_some hig').2] at hk
        exact h1 k (mem_sortU_imp _ _ _ (mem_sortU_imp _ _ _ hk))
      · cases h
    · cases h

theorem readLint_proper {v2 : Bool} {e : ExtLint} {d : Key} {r : Bool} {l : Lint}
    (he : e.chk.AllP ProperP) (h : readLint v2 e d r = some l) : l.chk.Proper := by
  unfold readLint at h
  split at h
  · rename_i c hc; injection h with h; subst h; exact readCheck_proper he hc
  · cases h

theorem readBreaking_proper {e : ExtBreaking} {d : Key} {r : Bool} {b : Breaking}
    (he : e.chk.AllP ProperP) (h : readBreaking e d r = some b) : b.chk.Proper := by
  unfold readBreaking at h
  split at h
  · rename_i c hc; injection h with h; subst h; exact readCheck_proper he hc
  · cases h

theorem mapM_strict_proper : ∀ (ps : List P) (ks : List Key), (∀ p ∈ ps, ProperP p) →
    ps.mapM P.strict = some ks → ∀ k ∈ ks, AllProper k := by
  intro ps ks hp h
  obtain ⟨_, hmem⟩ := mapM_some_imp _ _ _ h
  intro k hk
  obtain ⟨p, hpm, hpk⟩ := hmem k hk
  exact properP_strict (hp p hpm) hpk

theorem normCheckPaths_proper {ps : List P} {s : List Key} (hp : ∀ p ∈ ps, ProperP p)
    (h : normCheckPaths ps = some s) : ∀ k ∈ s, AllProper k := by
  unfold normCheckPaths at h
  cases hk : ps.mapM P.strict with
  | none => simp [hk] at h
  | some ks =>
    simp only [hk] at h
    intro k hks
    rw [(normCheckKeys_some h).2] at hks
    exact mapM_strict_proper ps ks hp hk k (mem_sortU_imp _ _ _ hks)

theorem readModuleV2_proper (defL : ExtLint) (defB : ExtBreaking) (em : ExtModule) (m : Module)
    (hdl : defL.chk.AllP ProperP) (hdb : defB.chk.AllP ProperP) (hem : em.AllP ProperP)
    (h : readModuleV2 defL defB em = some m) : m.Proper := by
  obtain ⟨hp1, hp2, hp3, hp4, hp5⟩ := hem
  unfold readModuleV2 at h
  cases hd : em.path.nv with
  | none => simp [hd] at h
  | some d =>
  cases hn : readName em.name with
  | none => simp [hd, hn] at h
  | some name =>
  cases hS : normCheckPaths em.includes with
  | none => simp [hd, hn, hS] at h
  | some S =>
  simp only [hd, hn, hS] at h
  cases hri : S.mapM (relInclude d) with
  | none => simp [hri] at h
  | some relIncs =>
  cases hre : em.excludes.mapM (relExclude d S) with
  | none => simp [hri, hre] at h
  | some relExcl =>
  simp only [hri, hre] at h
  cases hg : getRootToExcludes [P.ok []] (relExcl.map P.ok) with
  | none => simp [hg] at h
  | some out =>
  have hdP : AllProper d := properP_nv hp1 hd
  have hSP := normCheckPaths_proper hp2 hS
  have hrelI : ∀ k ∈ relIncs, AllProper k := by
    obtain ⟨_, hmem⟩ := mapM_some_imp _ _ _ hri
    intro k hk
    obtain ⟨i, hi, hik⟩ := hmem k hk
    rw [(relInclude_some hik).2.2.2]
    exact allProper_drop (hSP i hi) _
  have hrelE : ∀ k ∈ relExcl, AllProper k := by
    obtain ⟨_, hmem⟩ := mapM_some_imp _ _ _ hre
    intro k hk
    obtain ⟨p, hpm, hpk⟩ := hmem k hk
    unfold relExclude at hpk
    cases hpn : p.nv with
    | none => simp [hpn] at hpk
    | some e =>
      simp only [hpn] at hpk
      have heP := properP_nv (hp3 p hpm) hpn
      repeat' (split at hpk <;> try contradiction)
      injection hpk with hpk
      rw [← hpk]; exact allProper_drop heP _
  rcases getRootToExcludes_dot_some relExcl out hg with ⟨he0, hout⟩ | ⟨_, _, hout⟩
  all_goals
    subst hout
    simp only [hg] at h
    split at h
    case h_2 => cases h
    rename_i lint brk hl hb
    simp only [Option.some.injEq] at h
    subst h
    have hlint : lint.chk.Proper := by
      refine readLint_proper ?_ hl
      split
      · exact hp4
      · exact hdl
    have hbrk : brk.chk.Proper := by
      refine readBreaking_proper ?_ hb
      split
      · exact hp5
      · exact hdb
    refine ⟨hdP, ?_, hlint, hbrk⟩
    intro r hr
    simp only [List.mem_singleton] at hr
    subst hr
    refine ⟨allProper_nil, fun k hk => hrelI k (mem_sortU_imp _ _ _ hk), fun k hk => ?_⟩
  · simp [sortU] at hk
  · exact hrelE k (mem_sortU_imp _ _ _ (mem_sortU_imp _ _ _ (mem_sortU_imp _ _ _ hk)))

/-- Every key of a configuration the v2 reader produces from proper paths is proper. -/
theorem readV2_proper (e : ExtV2) (c : BufYAML) (he : e.AllP ProperP) (h : readV2 e = some c) :
    c.Proper := by
  unfold readV2 at h
  dsimp only at h
  split at h
  · cases h
  · rename_i ms hms
    split at h
    · cases h
    · rename_i modules hmods
      have hmsP : ∀ m ∈ ms, m.AllP ProperP := by
        split at hms
        · injection hms with hms; subst hms
          intro m hm
          simp only [List.mem_singleton] at hm
          subst hm
          exact ⟨allProper_nil, (by intro p hp; cases hp), (by intro p hp; cases hp),
            extCheck_zero_allP _, extCheck_zero_allP _⟩
        · split at hms
          · cases hms
          · injection hms with hms; subst hms; exact he.1
      have hmodsP : ∀ m ∈ modules, m.Proper := by
        obtain ⟨_, hmem⟩ := mapM_some_imp _ _ _ hmods
        intro m hm
        obtain ⟨em, hem, hemm⟩ := hmem m hm
        exact readModuleV2_proper _ _ em m he.2.1 he.2.2 (hmsP em hem) hemm
      repeat' (split at h <;> try contradiction)
      unfold newBufYAML at h
      repeat' (split at h <;> try contradiction)
      injection h with h
      subst h
      intro m hm
      exact hmodsP m ((mem_sortStable moduleLt _ _).mp hm)

/-! ### the round trip through strings -/

/-- **buf.yaml v2 round trip through the written strings.**  `e`: any external document whose
    paths came from strings (`ProperP`, e.g. every path is `normP s`); `c` what the reader makes
    of it.  Then every path in the written document `writeV2 c`, rendered to the string the Go
    writer emits (`P.render`, = `normalpath.Join(dir, rel)` by `render_written`) and parsed again
    as the Go reader does (`normP`, i.e. NormalizeAndValidate), is the path the struct-level model
    hands to the reader — so the struct-level round trip `yaml_roundtrip` IS the round trip of the
    string-level document. -/
theorem readV2_writeV2_strings (e : ExtV2) (c : BufYAML) (he : e.AllP ProperP) (h : readV2 e = some c) :
    (writeV2 c).mapP reparse = writeV2 c ∧ readV2 ((writeV2 c).mapP reparse) = some c := by
  have hgood := writeV2_good c (readV2_proper e c he h)
  have hid : (writeV2 c).mapP reparse = writeV2 c :=
    ExtV2.mapP_id reparse _ (ExtV2.AllP_mono (fun p hp => reparse_good hp) hgood)
  exact ⟨hid, by rw [hid]; exact readV2_writeV2 c (readV2_wf e c h)⟩

/-- The same for buf.work.yaml. -/
theorem readWork_writeWork_strings (ps : List P) (ds : List Key) (hp : ∀ p ∈ ps, ProperP p)
    (h : readWork ps = some ds) :
    (writeWork ds).map reparse = writeWork ds ∧ readWork ((writeWork ds).map reparse) = some ds := by
  have hds : ∀ k ∈ ds, AllProper k := by
    unfold readWork at h
    split at h
    · cases h
    · cases hk : ps.mapM P.nv with
      | none => simp [hk] at h
      | some ks =>
        simp only [hk] at h
        repeat' (split at h <;> try contradiction)
        injection h with h
        subst h
        obtain ⟨_, hmem⟩ := mapM_some_imp _ _ _ hk
        intro k hkm
        obtain ⟨p, hpm, hpk⟩ := hmem k (mem_sortU_imp _ _ _ hkm)
        exact properP_nv (hp p hpm) hpk
  have hid : (writeWork ds).map reparse = writeWork ds := by
    apply list_map_id_of
    intro p hpm
    unfold writeWork at hpm
    obtain ⟨k, hk, rfl⟩ := List.mem_map.mp hpm
    exact reparse_good ⟨k, rfl, hds k hk⟩
  exact ⟨hid, by rw [hid]; exact readWork_rt ps ds h⟩

end BufModel.Config
