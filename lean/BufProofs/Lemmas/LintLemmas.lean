import BufModel.Lint
import BufProofs.Lemmas.CaseLemmas
import BufProofs.Lemmas.LintRpcKey
/-
  Helper lemmas for the lint model (C05).
-/
namespace BufModel.Lint
open BufModel.Case

/-! ### generic list facts -/

theorem filter_eq_nil_of_forall {α} (l : List α) (p : α → Bool) (h : ∀ x ∈ l, p x = false) :
    l.filter p = [] := by
  induction l with
  | nil => rfl
  | cons a t ih =>
    have ha := h a (by simp)
    simp [List.filter, ha, ih (fun x hx => h x (by simp [hx]))]

theorem flatMap_eq_nil_of_forall {α β} (l : List α) (g : α → List β) (h : ∀ x ∈ l, g x = []) :
    l.flatMap g = [] := by
  induction l with
  | nil => rfl
  | cons a t ih =>
    simp [List.flatMap_cons, h a (by simp), ih (fun x hx => h x (by simp [hx]))]

/-! ### strings -/

theorem splitDots_ne_nil : ∀ s : Str, splitDots s ≠ []
  | [] => by simp [splitDots]
  | c :: cs => by
    simp only [splitDots]
    split
    · simp
    · split <;> simp

theorem joinSep_splitDots : ∀ s : Str, joinSep ['.'] (splitDots s) = s
  | [] => by simp [splitDots, joinSep]
  | c :: cs => by
    have ih := joinSep_splitDots cs
    simp only [splitDots]
    split
    · next h => exact absurd h (splitDots_ne_nil cs)
    · next l ls h =>
      rw [h] at ih
      split
      · next hc =>
        have : c = '.' := by simpa using hc
        subst this
        simp only [joinSep, List.nil_append]
        rw [ih]; rfl
      · cases ls with
        | nil => simp only [joinSep] at ih ⊢; rw [ih]
        | cons l2 ls2 =>
          simp only [joinSep] at ih ⊢
          rw [← ih]; simp

theorem map_fix_of_all {f : Str → Str} {p : Str → Bool} (hf : ∀ s, p s = true → f s = s) :
    ∀ l : List Str, l.all p = true → l.map f = l
  | [], _ => rfl
  | a :: t, h => by
    simp only [List.all_cons, Bool.and_eq_true] at h
    simp [hf a h.1, map_fix_of_all hf t h.2]

theorem pkgLowerSnake_fix (pkg : Str) (h : (splitDots pkg).all isLowerSnakeIdent = true) :
    pkgLowerSnake pkg = pkg := by
  unfold pkgLowerSnake
  rw [map_fix_of_all lowerSnakeIdent_fix _ h, joinSep_splitDots]

/-! ### per-element rules: good ⇒ not bad -/

theorem ne_of_fix {s t : Str} (h : t = s) : (s != t) = false := by
  subst h; simp

/-- The heart of `clean_no_annotations` for the per-element rules: the syntactic condition
    `good` excludes the coded violation predicate `bad` — for the naming rules this is where the
    grammar lemmas are used. -/
theorem good_not_bad (r : Rule) (er : ElemRule) (h : elemRule r = some er) (o : Options) (e : er.α)
    (hg : er.good o e = true) : er.bad o e = false := by
  cases r <;> simp only [elemRule, Option.some.injEq, reduceCtorEq] at h <;> subst h <;>
    simp only [goodComment] at hg ⊢
  all_goals first
    | (simp_all; done)
    | skip
  case COMMENT_FIELD =>
    simp only [Bool.or_eq_true] at hg
    rcases hg with hg | hg
    · simp [hg]
    · split <;> simp [hg]
  case COMMENT_MESSAGE =>
    simp only [Bool.or_eq_true] at hg
    rcases hg with hg | hg <;> simp [hg]
  case COMMENT_ONEOF =>
    simp only [Bool.or_eq_true] at hg
    rcases hg with hg | hg <;> simp [hg]
  case ENUM_FIRST_VALUE_ZERO =>
    split <;> simp_all
  case ENUM_PASCAL_CASE => exact ne_of_fix (pascalIdent_fix _ hg)
  case ENUM_VALUE_UPPER_SNAKE_CASE => exact ne_of_fix (upperSnakeIdent_fix _ hg)
  case ENUM_ZERO_VALUE_SUFFIX =>
    simp only [Bool.or_eq_true] at hg
    rcases hg with hg | hg
    · have : (e.2.snd.number == 0) = false := by simpa using hg
      simp [this]
    · simp [hg]
  case FIELD_LOWER_SNAKE_CASE =>
    simp only [Bool.or_eq_true] at hg
    rcases hg with hg | hg
    · simp [hg]
    · split
      · rfl
      · exact ne_of_fix (lowerSnakeIdent_fix _ hg)
  case FILE_LOWER_SNAKE_CASE => exact ne_of_fix (lowerSnakeIdent_fix _ hg)
  case MESSAGE_PASCAL_CASE =>
    simp only [Bool.or_eq_true] at hg
    rcases hg with hg | hg
    · simp [hg]
    · split
      · rfl
      · exact ne_of_fix (pascalIdent_fix _ hg)
  case ONEOF_LOWER_SNAKE_CASE =>
    simp only [Bool.or_eq_true] at hg
    rcases hg with hg | hg
    · rw [ne_of_fix (lowerSnakeIdent_fix _ hg)]; rfl
    · simp [hg]
  case PACKAGE_DIRECTORY_MATCH =>
    simp only [Bool.or_eq_true] at hg
    rcases hg with hg | hg
    · simp [hg]
    · have : fileDir e = replaceDots e.pkg := by simpa using hg
      simp [this]
  case PACKAGE_LOWER_SNAKE_CASE =>
    simp only [Bool.or_eq_true] at hg
    rcases hg with hg | hg
    · simp [hg]
    · rw [ne_of_fix (pkgLowerSnake_fix _ hg)]; simp
  case PACKAGE_VERSION_SUFFIX =>
    simp only [Bool.or_eq_true] at hg
    rcases hg with hg | hg
    · simp [hg]
    · cases hv : versionForPackage false e.pkg <;> simp_all
  case RPC_PASCAL_CASE => exact ne_of_fix (pascalIdent_fix _ hg)
  case SERVICE_PASCAL_CASE => exact ne_of_fix (pascalIdent_fix _ hg)


/-! ### per-element rules: clean ⇒ nothing flagged -/

theorem flagged_nil_of_good (er : ElemRule) (r : Rule) (h : elemRule r = some er) (o : Options) (f : File)
    (hg : (er.els f).all (er.good o) = true) : er.flagged o f = [] := by
  unfold ElemRule.flagged
  rw [filter_eq_nil_of_forall _ _ (fun x hx => good_not_bad r er h o x (List.all_eq_true.mp hg x hx))]
  rfl

theorem runRule_elem (o : Options) (w : Schema) (r : Rule) (er : ElemRule) (h : elemRule r = some er) :
    runRule o w r = (nonImport w).flatMap fun f => (er.flagged o f).map (ann r f) := by
  unfold runRule; rw [h]

theorem runRule_global (o : Options) (w : Schema) (r : Rule) (h : elemRule r = none) :
    runRule o w r = globalRule o w r := by
  unfold runRule; rw [h]

theorem cleanRule_elem (o : Options) (w : Schema) (r : Rule) (er : ElemRule) (h : elemRule r = some er) :
    cleanRule o w r = (nonImport w).all fun f => (er.els f).all (er.good o) := by
  unfold cleanRule; rw [h]

theorem cleanRule_global (o : Options) (w : Schema) (r : Rule) (h : elemRule r = none) :
    cleanRule o w r = globalClean o w r := by
  unfold cleanRule; rw [h]

/-! ### grouping rules -/

theorem dedup_of_all_eq (a : Str) : ∀ xs : List Str, (∀ x ∈ xs, x = a) → dedup xs = [] ∨ dedup xs = [a]
  | [], _ => Or.inl rfl
  | x :: rest, h => by
    have hx : x = a := h x (by simp)
    subst hx
    have ih := dedup_of_all_eq x rest (fun y hy => h y (by simp [hy]))
    have hd : dedup (x :: rest) = if (dedup rest).contains x then dedup rest else x :: dedup rest := rfl
    rw [hd]
    rcases ih with ih | ih
    · rw [ih]; simp
    · rw [ih]; simp

theorem dedup_length_le_one (xs : List Str) (h : ∀ x ∈ xs, ∀ y ∈ xs, x = y) : (dedup xs).length ≤ 1 := by
  cases xs with
  | nil => simp [dedup]
  | cons a t =>
    rcases dedup_of_all_eq a (a :: t) (fun x hx => h x hx a (by simp)) with e | e <;> rw [e] <;> simp

/-- Pairwise-equal values inside every key group ⇒ the grouping rule reports nothing. -/
theorem groupRule_nil (r : Rule) (files : List File) (key val : File → Str) (loc : File → List Nat)
    (h : groupClean files key val = true) : groupRule r files key val loc = [] := by
  unfold groupRule
  apply flatMap_eq_nil_of_forall
  intro k _
  have hle : (dedup ((files.filter (fun f => key f == k)).map val)).length ≤ 1 := by
    apply dedup_length_le_one
    intro x hx y hy
    obtain ⟨f, hf, rfl⟩ := List.mem_map.mp hx
    obtain ⟨g, hg, rfl⟩ := List.mem_map.mp hy
    simp only [List.mem_filter, beq_iff_eq] at hf hg
    unfold groupClean at h
    have := List.all_eq_true.mp (List.all_eq_true.mp h f hf.1) g hg.1
    simp only [Bool.or_eq_true, Bool.not_eq_true', beq_eq_false_iff_ne, beq_iff_eq] at this
    rcases this with hne | he
    · exact absurd (hf.2.trans hg.2.symm) hne
    · exact he
  simp only
  split
  · next hgt => omega
  · rfl

theorem isEmpty_eq_nil {α} (l : List α) (h : l.isEmpty = true) : l = [] := by
  cases l <;> simp_all

theorem globalRule_nil (o : Options) (w : Schema) (r : Rule) (h : globalClean o w r = true) :
    globalRule o w r = [] := by
  cases r <;> simp only [globalRule, globalClean] at h ⊢ <;>
    first
      | exact groupRule_nil _ _ _ _ _ h
      | exact isEmpty_eq_nil _ h
      | exact rpcUniqueCoded_nil o w (isEmpty_eq_nil _ h)
      | rfl

/-- One rule: its Clean condition ⇒ no annotation. -/
theorem runRule_nil_of_clean (o : Options) (w : Schema) (r : Rule) (h : cleanRule o w r = true) :
    runRule o w r = [] := by
  cases he : elemRule r with
  | none =>
    rw [runRule_global o w r he]
    exact globalRule_nil o w r (by rw [cleanRule_global o w r he] at h; exact h)
  | some er =>
    rw [runRule_elem o w r er he]
    rw [cleanRule_elem o w r er he] at h
    apply flatMap_eq_nil_of_forall
    intro f hf
    rw [flagged_nil_of_good er r he o f (List.all_eq_true.mp h f hf)]
    rfl

/-! ### imports are skipped -/

theorem mem_nonImport {w : Schema} {f : File} (h : f ∈ nonImport w) : f ∈ w ∧ f.isImport = false := by
  unfold nonImport at h
  simpa using h

theorem groupRule_files (r : Rule) (files : List File) (key val : File → Str) (loc : File → List Nat)
    (a : Annotation) (h : a ∈ groupRule r files key val loc) : ∃ f ∈ files, a.file = f.path := by
  unfold groupRule at h
  obtain ⟨k, _, hk⟩ := List.mem_flatMap.mp h
  simp only at hk
  split at hk
  · obtain ⟨f, hf, rfl⟩ := List.mem_map.mp hk
    exact ⟨f, (List.mem_filter.mp hf).1, rfl⟩
  · simp at hk

theorem rpcTable_files (w : Schema) (x : RpcRow) (h : x ∈ rpcTable w) :
    ∃ f ∈ nonImport w, x.file = f.path := by
  unfold rpcTable at h
  obtain ⟨f, hf, hx⟩ := List.mem_flatMap.mp h
  obtain ⟨y, _, rfl⟩ := List.mem_map.mp hx
  exact ⟨f, hf, rfl⟩

/-- every annotation of RPC_REQUEST_RESPONSE_UNIQUE is the annotation of a row of the table -/
theorem rpcUniqueT_sub (o : Options) (ms : List RpcRow) (a : Annotation) (h : a ∈ rpcUniqueT o ms) :
    ∃ x ∈ ms, a = x.ann := by
  unfold rpcUniqueT at h
  simp only [List.mem_append] at h
  rcases h with h | h
  · by_cases hs : o.rpcAllowSameRequestResponse = true
    · simp [hs] at h
    · simp only [hs] at h
      obtain ⟨x, hx, ha⟩ := List.mem_flatMap.mp h
      split at ha
      · simp only [List.mem_singleton] at ha
        exact ⟨x, hx, ha⟩
      · simp at ha
  · obtain ⟨t, _, ht⟩ := List.mem_flatMap.mp h
    split at ht
    · simp at ht
    · split at ht
      · split at ht
        · simp at ht
        · simp only [List.mem_append] at ht
          rcases ht with ht | ht
          · split at ht
            · obtain ⟨x, hx, rfl⟩ := List.mem_map.mp ht
              exact ⟨x, (List.mem_filter.mp (List.mem_filter.mp hx).1).1, rfl⟩
            · simp at ht
          · split at ht
            · obtain ⟨x, hx, rfl⟩ := List.mem_map.mp ht
              exact ⟨x, (List.mem_filter.mp (List.mem_filter.mp hx).1).1, rfl⟩
            · simp at ht
      · obtain ⟨x, hx, rfl⟩ := List.mem_map.mp ht
        exact ⟨x, (List.mem_filter.mp hx).1, rfl⟩

theorem rpcUnique_files (o : Options) (w : Schema) (a : Annotation) (h : a ∈ rpcUnique o w) :
    ∃ f ∈ nonImport w, a.file = f.path := by
  obtain ⟨x, hx, rfl⟩ := rpcUniqueT_sub o _ a h
  exact rpcTable_files w x hx

theorem stableNoUnstable_files (w : Schema) (a : Annotation) (h : a ∈ stableNoUnstable w) :
    ∃ f ∈ nonImport w, a.file = f.path := by
  unfold stableNoUnstable at h
  obtain ⟨f, hf, ha⟩ := List.mem_flatMap.mp h
  refine ⟨f, hf, ?_⟩
  split at ha
  · simp at ha
  · obtain ⟨⟨i, imp⟩, _, hx⟩ := List.mem_flatMap.mp ha
    simp only at hx
    split at hx
    · simp at hx
    · split at hx
      · simp only [List.mem_singleton] at hx; subst hx; rfl
      · simp at hx

theorem importCycle_files (w : Schema) (a : Annotation) (h : a ∈ importCycle w) :
    ∃ f ∈ nonImport w, a.file = f.path := by
  unfold importCycle at h
  obtain ⟨f, hf, ha⟩ := List.mem_flatMap.mp h
  refine ⟨f, hf, ?_⟩
  split at ha
  · simp at ha
  · obtain ⟨⟨i, imp⟩, _, hx⟩ := List.mem_flatMap.mp ha
    simp only at hx
    split at hx
    · simp at hx
    · split at hx
      · simp at hx
      · split at hx
        · simp only [List.mem_singleton] at hx; subst hx; rfl
        · simp at hx

theorem globalRule_files (o : Options) (w : Schema) (r : Rule) (a : Annotation) (h : a ∈ globalRule o w r) :
    ∃ f ∈ nonImport w, a.file = f.path := by
  cases r <;> simp only [globalRule] at h <;>
    first
      | exact groupRule_files _ _ _ _ _ a h
      | exact rpcUnique_files o w a (rpcUniqueCoded_sub o w a h)
      | exact stableNoUnstable_files w a h
      | exact importCycle_files w a h
      | (simp at h)

theorem runRule_files (o : Options) (w : Schema) (r : Rule) (a : Annotation) (h : a ∈ runRule o w r) :
    ∃ f ∈ nonImport w, a.file = f.path := by
  cases he : elemRule r with
  | none =>
    rw [runRule_global o w r he] at h
    obtain ⟨f, hf, e⟩ := globalRule_files o w r a h
    exact ⟨f, hf, e⟩
  | some er =>
    rw [runRule_elem o w r er he] at h
    obtain ⟨f, hf, ha⟩ := List.mem_flatMap.mp h
    obtain ⟨p, _, rfl⟩ := List.mem_map.mp ha
    exact ⟨f, hf, rfl⟩

/-! ### nested visiting -/

/-- `Nested x m`: x is m itself or a message nested in m at any depth. -/
inductive Nested : Message → Message → Prop where
  | refl (m : Message) : Nested m m
  | step {x m' m : Message} : m' ∈ m.msgs → Nested x m' → Nested x m

theorem visitMsg_self (p : List Nat) (m : Message) : (p, m) ∈ visitMsg p m := by
  cases m; simp [visitMsg]

theorem visitMsgs_mem (p : List Nat) (tag : Nat) : ∀ (ms : List Message) (i : Nat) (m : Message), m ∈ ms →
    ∃ j, ∀ y ∈ visitMsg (p ++ [tag, j]) m, y ∈ visitMsgs p tag i ms
  | [], _, _, h => by simp at h
  | m0 :: rest, i, m, h => by
    simp only [List.mem_cons] at h
    rcases h with rfl | h
    · exact ⟨i, fun y hy => by simp [visitMsgs, hy]⟩
    · obtain ⟨j, hj⟩ := visitMsgs_mem p tag rest (i + 1) m h
      exact ⟨j, fun y hy => by simp [visitMsgs, hj y hy]⟩

theorem visitMsg_children (p : List Nat) (m : Message) :
    ∀ y ∈ visitMsgs p 3 0 m.msgs, y ∈ visitMsg p m := by
  cases m; intro y hy; simp [visitMsg, Message.msgs] at *; exact Or.inr hy

theorem visit_nested {x m : Message} (h : Nested x m) : ∀ p, ∃ q, (q, x) ∈ visitMsg p m := by
  induction h with
  | refl => exact fun p => ⟨p, visitMsg_self p _⟩
  | step hm _ ih =>
    intro p
    obtain ⟨j, hj⟩ := visitMsgs_mem p 3 _ 0 _ hm
    obtain ⟨q, hq⟩ := ih (p ++ [3, j])
    exact ⟨q, visitMsg_children p _ _ (hj _ hq)⟩

theorem mem_indexFrom {α} : ∀ (l : List α) (i : Nat) (x : α), x ∈ l → ∃ j, (j, x) ∈ indexFrom i l
  | [], _, _, h => by simp at h
  | a :: t, i, x, h => by
    simp only [List.mem_cons] at h
    rcases h with rfl | h
    · exact ⟨i, by simp [indexFrom]⟩
    · obtain ⟨j, hj⟩ := mem_indexFrom t (i + 1) x h
      exact ⟨j, by simp [indexFrom, hj]⟩

/-! ### every kind of field is visited, and a visited bad element is reported -/

/-- a file-level extension (parent message `none`) is enumerated at `[7, i]` -/
theorem fileFields_fileExt (f : File) (fd : Field) (h : fd ∈ f.exts) :
    ∃ i, ([7, i], (none : Option Message), fd) ∈ fileFields f := by
  obtain ⟨i, hi⟩ := mem_indexFrom f.exts 0 fd h
  refine ⟨i, ?_⟩
  unfold fileFields
  apply List.mem_append_right
  exact List.mem_map.mpr ⟨(i, fd), hi, rfl⟩

/-- a declared field of an enumerated message (plain, oneof member, map field, group field —
    they all live in `fields`) is enumerated at `p ++ [2, i]` with that message as parent -/
theorem fileFields_msgField (f : File) (p : List Nat) (m : Message) (hm : (p, m) ∈ fileMsgs f)
    (fd : Field) (h : fd ∈ m.fields) : ∃ i, (p ++ [2, i], some m, fd) ∈ fileFields f := by
  obtain ⟨i, hi⟩ := mem_indexFrom m.fields 0 fd h
  refine ⟨i, ?_⟩
  unfold fileFields
  apply List.mem_append_left
  apply List.mem_flatMap.mpr
  refine ⟨(p, m), hm, ?_⟩
  apply List.mem_append_left
  exact List.mem_map.mpr ⟨(i, fd), hi, rfl⟩

/-- an extension declared inside an enumerated message is enumerated at `p ++ [6, i]` -/
theorem fileFields_msgExt (f : File) (p : List Nat) (m : Message) (hm : (p, m) ∈ fileMsgs f)
    (fd : Field) (h : fd ∈ m.exts) : ∃ i, (p ++ [6, i], some m, fd) ∈ fileFields f := by
  obtain ⟨i, hi⟩ := mem_indexFrom m.exts 0 fd h
  refine ⟨i, ?_⟩
  unfold fileFields
  apply List.mem_append_left
  apply List.mem_flatMap.mpr
  refine ⟨(p, m), hm, ?_⟩
  apply List.mem_append_right
  exact List.mem_map.mpr ⟨(i, fd), hi, rfl⟩

/-- whatever a per-element rule enumerates in a non-import file and finds `bad` is reported -/
theorem mem_runRule_of_bad (o : Options) (w : Schema) (r : Rule) (er : ElemRule)
    (he : elemRule r = some er) (f : File) (hf : f ∈ w) (hni : f.isImport = false)
    (e : er.α) (hmem : e ∈ er.els f) (hbad : er.bad o e = true) :
    ann r f (er.loc e) ∈ runRule o w r := by
  rw [runRule_elem o w r er he]
  apply List.mem_flatMap.mpr
  refine ⟨f, ?_, ?_⟩
  · unfold nonImport
    simp [hf, hni]
  · apply List.mem_map.mpr
    refine ⟨er.loc e, ?_, rfl⟩
    unfold ElemRule.flagged
    exact List.mem_map.mpr ⟨e, List.mem_filter.mpr ⟨hmem, hbad⟩, rfl⟩

/-! ### example workspaces used by the non-vacuity examples of Props/C05 -/

/-- replace the i-th import of a file -/
def setImport (f : File) (i : Nat) (imp : Import) : File := { f with imports := f.imports.set i imp }

def exDep : File :=
  { path := "Dep/Bad.proto".toList, pkg := "Dep_pkg".toList, isImport := true,
    msgs := [.mk "bad_message".toList [] false [⟨"BadField".toList, [], true, false, false, none⟩] [] [] [] []] }

def exEnum : Enum :=
  { name := "Color".toList, comment := " A color.\n".toList,
    values := [⟨"COLOR_UNSPECIFIED".toList, " Zero.\n".toList, 0⟩, ⟨"COLOR_RED".toList, " Red.\n".toList, 1⟩] }

def exInner : Message :=
  .mk "Inner".toList " Inner.\n".toList false [⟨"id".toList, " Id.\n".toList, false, false, false, none⟩] [] [] [exEnum] []

def exOuter : Message :=
  .mk "Outer".toList " Outer.\n".toList false
    [⟨"foo_bar".toList, " Foo.\n".toList, false, false, false, none⟩] [] [] [] [exInner]

def exReq (n : String) : Message := .mk n.toList " Msg.\n".toList false [] [] [] [] []

def exFile : File :=
  { path := "acme/foo/v1/types.proto".toList, pkg := "acme.foo.v1".toList,
    imports := [⟨"Dep/Bad.proto".toList, false, false, false⟩],
    langOpts := [none, none, none, none, none, none, none],
    msgs := [exOuter, exReq "GetFooRequest", exReq "GetFooResponse"],
    svcs := [⟨"FooService".toList, " Svc.\n".toList,
      [⟨"GetFoo".toList, " Get.\n".toList, "acme.foo.v1.GetFooRequest".toList, "acme.foo.v1.GetFooResponse".toList, false, false⟩]⟩] }

def exWs : Schema := [exFile, exDep]


def exPlantPublic : Schema := [setImport exFile 0 ⟨"Dep/Bad.proto".toList, true, false, false⟩, exDep]
def exPlantWeak : Schema := [setImport exFile 0 ⟨"Dep/Bad.proto".toList, false, true, false⟩, exDep]

def exEnumBad : Enum := { exEnum with name := "color".toList }
def exInnerBad : Message :=
  .mk "Inner".toList " Inner.\n".toList false [⟨"id".toList, " Id.\n".toList, false, false, false, none⟩] [] [] [exEnumBad] []
def exOuterBad : Message :=
  .mk "Outer".toList " Outer.\n".toList false
    [⟨"foo_bar".toList, " Foo.\n".toList, false, false, false, none⟩] [] [] [] [exInnerBad]
def exPlantEnumName : Schema :=
  [{ exFile with msgs := [exOuterBad, exReq "GetFooRequest", exReq "GetFooResponse"] }, exDep]

/-! a proto2-style file with every KIND of field: plain, oneof member, map field (+ synthetic
    entry message), group field (+ its nested message, which owns the comment), an extension
    nested in a message and two file-level extensions -/

def fld (n c : String) : Field := ⟨n.toList, c.toList, false, false, false, none⟩

def exEntry : Message :=
  .mk "CountsEntry".toList [] true [fld "key" "", fld "value" ""] [] [] [] []

def exGroupBody : Message :=
  .mk "Result".toList " The result group.\n".toList false [fld "url" " Url.\n"] [] [] [] []

def exKindsMsg : Message :=
  .mk "Holder".toList " Holder.\n".toList false
    [fld "id" " Id.\n",
     ⟨"result".toList, [], false, true, false, none⟩,          -- group field: no comment of its own
     fld "counts" " Counts.\n",                                 -- map field
     ⟨"a".toList, " A.\n".toList, false, false, false, some 0⟩, -- oneof members
     ⟨"b".toList, " B.\n".toList, false, false, false, some 0⟩]
    [⟨"choice".toList, " Choice.\n".toList, false⟩]
    [fld "nested_ext" " Nested extension.\n"]
    []
    [exGroupBody, exEntry]

def exKindsFile (fileExts : List Field) : File :=
  { path := "acme/foo/v1/kinds.proto".toList, pkg := "acme.foo.v1".toList,
    langOpts := [none, none, none, none, none, none, none],
    msgs := [exKindsMsg], exts := fileExts }

def exKinds : Schema :=
  [exKindsFile [fld "file_ext" " File-level extension.\n", fld "other_ext" " Another.\n"], exDep]

/-- the SECOND file-level extension loses its comment -/
def exKindsPlantFileExtComment : Schema :=
  [exKindsFile [fld "file_ext" " File-level extension.\n", fld "other_ext" ""], exDep]

/-- the FIRST file-level extension gets a camelCase name -/
def exKindsPlantFileExtName : Schema :=
  [exKindsFile [fld "fileExt" " File-level extension.\n", fld "other_ext" " Another.\n"], exDep]

end BufModel.Lint
