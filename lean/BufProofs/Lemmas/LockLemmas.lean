import BufProofs.Lemmas.DepsLemmas
/-
  Helper lemmas for the workspace-construction clauses of C10 (BufModel.Graph §3 / §3b):
  `selectAdded` always selects one of the modules added for an OpaqueID, `uniqueAdded` keeps
  every OpaqueID that was added.
-/
namespace BufModel.Graph
open BufModel.Path

theorem mem_dedup {β : Type} [DecidableEq β] : ∀ {l : List β} {x : β}, x ∈ dedup l ↔ x ∈ l
  | [], _ => by simp [dedup]
  | y :: ys, x => by
    simp only [dedup]
    split
    · rename_i hy
      constructor
      · intro h; exact List.mem_cons_of_mem _ (mem_dedup.mp h)
      · intro h
        rcases List.mem_cons.mp h with h | h
        · subst h; exact mem_dedup.mpr hy
        · exact mem_dedup.mpr h
    · constructor
      · intro h
        rcases List.mem_cons.mp h with h | h
        · subst h; exact List.mem_cons_self
        · exact List.mem_cons_of_mem _ (mem_dedup.mp h)
      · intro h
        rcases List.mem_cons.mp h with h | h
        · subst h; exact List.mem_cons_self
        · exact List.mem_cons_of_mem _ (mem_dedup.mpr h)

theorem sortBy_ne_nil {β : Type} (le : β → β → Bool) {l : List β} (h : l ≠ []) : sortBy le l ≠ [] := by
  cases l with
  | nil => exact absurd rfl h
  | cons a as =>
    intro hs
    have : a ∈ sortBy le (a :: as) := (mem_sortBy le).mpr List.mem_cons_self
    rw [hs] at this; simp at this

theorem selectRemote_isSome {as : List Added} (h : as ≠ []) : ∃ a, selectRemote as = some a := by
  unfold selectRemote
  split
  · exact absurd rfl h
  · exact ⟨_, rfl⟩
  · split
    · rename_i hnil
      cases as with
      | nil => exact absurd rfl h
      | cons a rest =>
        have : firstPerCommit (a :: rest) [] ≠ [] := by simp [firstPerCommit]
        exact absurd hnil (sortBy_ne_nil commitLe this)
    · exact ⟨_, rfl⟩

theorem selectIgnoreTargeting_isSome {as : List Added} (h : as ≠ []) :
    ∃ a, selectIgnoreTargeting as = some a := by
  unfold selectIgnoreTargeting
  split
  · exact selectRemote_isSome h
  · exact ⟨_, rfl⟩

end BufModel.Graph
