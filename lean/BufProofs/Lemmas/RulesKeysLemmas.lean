import BufProofs.Lemmas.RulesLemmas
import BufProofs.Lemmas.RulesResolveLemmas
/-
  Helper lemmas for BufProofs/Props/C06Keys.lean (the configuration-key family of C06):
  membership in `acceptedKeys`, the duplicate-free key list `compactKeys` over which the table
  facts are decided (Bool-valued `any` / `all`: string comparisons under `decide` cost ~2 ms
  each, `String.toList` on a literal ~200 ms - never use the latter in a table fact), and the
  lemma-level form of "an unknown id is rejected".
-/
namespace BufProofs.C06
open BufModel.Path BufModel.Rules BufGen.RuleTables

theorem rulesInCategory_ne_nil_iff (rs : List RuleRow) (c : Id) :
    rulesInCategory rs c ≠ [] ↔ ∃ r ∈ rs, c ∈ r.categories := by
  unfold rulesInCategory
  constructor
  · intro h
    cases hf : rs.filter (fun r => decide (c ∈ r.categories)) with
    | nil => rw [hf] at h; exact absurd rfl h
    | cons a l =>
      have ha : a ∈ rs.filter (fun r => decide (c ∈ r.categories)) := by rw [hf]; exact List.mem_cons_self
      rcases List.mem_filter.1 ha with ⟨har, hc⟩
      exact ⟨a, har, by simpa using hc⟩
  · rintro ⟨r, hr, hc⟩ h
    have hm : r.id ∈ (rs.filter (fun r => decide (c ∈ r.categories))).map (·.id) :=
      List.mem_map.2 ⟨r, List.mem_filter.2 ⟨hr, by simpa using hc⟩, rfl⟩
    rw [h] at hm; cases hm

theorem mem_acceptedKeys_iff (rs : List RuleRow) (id : Id) :
    id ∈ acceptedKeys rs ↔ isRuleId rs id = true ∨ rulesInCategory rs id ≠ [] := by
  rw [rulesInCategory_ne_nil_iff]
  unfold acceptedKeys ruleIdsOf categoryIdsOf isRuleId
  simp only [List.mem_append, List.mem_map, List.mem_flatMap, List.any_eq_true, decide_eq_true_eq]

/-- The accepted keys without repetitions (the table facts below are decided over this short
    list: rule ids of the type ++ the categories of the version's category table that a rule of
    the type carries).  Bool-valued `any` / `all` throughout: `decide` evaluates them much
    faster than the `Decidable (x ∈ l)` instances. -/
def compactKeys (v : Version) (lint : Bool) : List Id :=
  ruleIdsOf (rulesForType (rulesOf v) lint) ++
    ((categoriesOf v).map (·.id)).filter
      (fun c => (rulesForType (rulesOf v) lint).any (fun r => r.categories.any (· == c)))

set_option maxRecDepth 100000 in
theorem rule_categories_are_listedB : ∀ v : Version,
    (rulesOf v).all (fun r => r.categories.all (fun c => (categoriesOf v).any (fun row => row.id == c))) = true := by
  intro v; cases v <;> decide

/-- Every category a rule carries is listed in the category table of its version. -/
theorem rule_categories_are_listed (v : Version) :
    ∀ r ∈ rulesOf v, ∀ c ∈ r.categories, c ∈ (categoriesOf v).map (·.id) := by
  intro r hr c hc
  have h := List.all_eq_true.1 (List.all_eq_true.1 (rule_categories_are_listedB v) r hr) c hc
  rcases List.any_eq_true.1 h with ⟨row, hrow, he⟩
  exact List.mem_map.2 ⟨row, hrow, by simpa using he⟩

theorem mem_compactKeys_of_accepted (v : Version) (lint : Bool) (id : Id)
    (h : id ∈ acceptedKeys (rulesForType (rulesOf v) lint)) : id ∈ compactKeys v lint := by
  unfold acceptedKeys at h
  unfold compactKeys
  rcases List.mem_append.1 h with h | h
  · exact List.mem_append_left _ h
  · refine List.mem_append_right _ ?_
    unfold categoryIdsOf at h
    rcases List.mem_flatMap.1 h with ⟨r, hr, hc⟩
    have hrv : r ∈ rulesOf v := (List.mem_filter.1 hr).1
    refine List.mem_filter.2 ⟨rule_categories_are_listed v r hrv id hc, ?_⟩
    exact List.any_eq_true.2 ⟨r, hr, List.any_eq_true.2 ⟨id, hc, by simp⟩⟩

set_option maxRecDepth 100000 in
theorem compact_keys_factsB : ∀ v : Version,
    ((compactKeys v true).all (fun id => id != "" && (compactKeys v false).all (· != id)) &&
     (compactKeys v false).all (· != "") &&
     !(rulesForType (rulesOf v) true).isEmpty && !(rulesForType (rulesOf v) false).isEmpty) = true := by
  intro v; cases v <;> decide

/-- (`unknown_id_rejected` of Props/C06.lean, restated on `Unknown` through the lemma level so that
    this file does not import the other Props file and both build in parallel.) -/
theorem unknown_key_rejected (all : List RuleRow) (lint : Bool) (c : CheckConfig)
    (hrs : rulesForType all lint ≠ []) (id : Id) (hu : Unknown (rulesForType all lint) id)
    (hin : (id ∈ c.use ∧ blankId id = false) ∨ (id ∈ c.except ∧ blankId id = false) ∨
           id ∈ c.ignoreOnly.map (·.1)) :
    ∃ e, newRulesConfig all lint c = .error e := by
  have hn := (expandOne_none_iff _ id).2 hu
  apply newRulesConfig_unknown all lint c hrs
  rcases hin with h | h | h
  · refine Or.inl ⟨id, ?_, hn⟩
    have hm : id ∈ uniqueSortedNoBlank c.use := (mem_uniqueSortedNoBlank id _).2 h
    unfold effectiveUse
    have hne : uniqueSortedNoBlank c.use ≠ [] := fun he => by rw [he] at hm; cases hm
    simp only [hne, if_false]
    exact hm
  · exact Or.inr (Or.inl ⟨id, (mem_uniqueSortedNoBlank id _).2 h, hn⟩)
  · rcases List.mem_map.1 h with ⟨e, he, rfl⟩
    exact Or.inr (Or.inr ⟨e, he, hn⟩)

end BufProofs.C06
