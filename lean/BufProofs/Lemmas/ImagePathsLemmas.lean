import BufModel.ImagePaths
import BufProofs.Lemmas.PathLemmas
/-
  Helper lemmas for C11: the import-closure DFS (generic in the lookup function), its
  reachability characterisation, fuel sufficiency.
-/
namespace BufProofs.ImagePathsLemmas
open BufModel.Path BufModel.ImagePaths

/-! ### basics -/

@[simp] theorem mark_path (t : List Str) (f : File) : (mark t f).path = f.path := rfl
@[simp] theorem mark_deps (t : List Str) (f : File) : (mark t f).deps = f.deps := rfl
theorem mark_isImport (t : List Str) (f : File) : (mark t f).isImport = !(t.contains f.path) := rfl

theorem getFile_some {img : List File} {p : Str} {f : File} (h : getFile img p = some f) :
    f ∈ img ∧ f.path = p := by
  induction img with
  | nil => simp [getFile] at h
  | cons g gs ih =>
    unfold getFile at h
    by_cases hg : g.path = p
    · rw [if_pos hg] at h
      cases h
      exact ⟨by simp, hg⟩
    · rw [if_neg hg] at h
      exact ⟨List.mem_cons_of_mem _ (ih h).1, (ih h).2⟩

theorem getFile_isSome_iff {img : List File} {p : Str} :
    (getFile img p).isSome ↔ p ∈ paths img := by
  induction img with
  | nil => simp [getFile, paths]
  | cons g gs ih =>
    unfold getFile
    by_cases hg : g.path = p
    · rw [if_pos hg]; simp [paths, hg]
    · rw [if_neg hg, ih]
      simp only [paths, List.map_cons, List.mem_cons]
      constructor
      · intro h; exact Or.inr h
      · rintro (h | h)
        · exact absurd h.symm hg
        · exact h

theorem getFile_of_mem_nodup {img : List File} {f : File} (hn : (paths img).Nodup) (hf : f ∈ img) :
    getFile img f.path = some f := by
  induction img with
  | nil => cases hf
  | cons g gs ih =>
    simp only [paths, List.map_cons, List.nodup_cons] at hn
    unfold getFile
    rcases List.mem_cons.mp hf with rfl | hf
    · simp
    · have hne : g.path ≠ f.path := by
        intro heq
        exact hn.1 (heq ▸ List.mem_map.mpr ⟨f, hf, rfl⟩)
      rw [if_neg hne]
      exact ih hn.2 hf

theorem mem_paths_of_mem {img : List File} {f : File} (h : f ∈ img) : f.path ∈ paths img :=
  List.mem_map.mpr ⟨f, h, rfl⟩

theorem eq_of_mem_nodup_paths {img : List File} {f g : File} (hn : (paths img).Nodup)
    (hf : f ∈ img) (hg : g ∈ img) (hp : f.path = g.path) : f = g := by
  have h1 := getFile_of_mem_nodup hn hf
  have h2 := getFile_of_mem_nodup hn hg
  rw [hp, h2] at h1
  exact (Option.some.inj h1).symm

theorem nodup_of_nodup_paths {l : List File} (h : (paths l).Nodup) : l.Nodup := by
  induction l with
  | nil => exact List.nodup_nil
  | cons x xs ih =>
    simp only [paths, List.map_cons, List.nodup_cons] at h
    exact List.nodup_cons.mpr ⟨fun hx => h.1 (List.mem_map_of_mem hx), ih h.2⟩

/-! ### the DFS, generically -/

section DFS
variable (look : Str → Option File) (t : List Str)

/-- The step of the dependency loop inside the walk. -/
def depStep (fuel : Nat) (st : DState) (d : Str) : DState :=
  match look d with
  | some g => visit look t fuel g st
  | none => st

theorem visit_zero (f : File) (st : DState) : visit look t 0 f st = st := rfl

theorem visit_succ (fuel : Nat) (f : File) (st : DState) :
    visit look t (fuel + 1) f st =
      if f.path ∈ st.1 then st
      else ((f.deps.foldl (depStep look t fuel) (f.path :: st.1, st.2)).1,
            (f.deps.foldl (depStep look t fuel) (f.path :: st.1, st.2)).2 ++ [mark t f]) := rfl

/-- `g` is a file the lookup function knows under its own path. -/
def Src (g : File) : Prop := look g.path = some g

/-- The lookup function returns files under their own path. -/
def LookOK : Prop := ∀ p f, look p = some f → f.path = p

variable {look}

theorem src_of_look (hl : LookOK look) {p : Str} {g : File} (h : look p = some g) : Src look g := by
  unfold Src; rw [hl p g h]; exact h

/-- `q` is reachable from `p` along resolvable declared dependencies. -/
inductive Conn (look : Str → Option File) : Str → Str → Prop where
  | refl (p : Str) : Conn look p p
  | step {p d q : Str} {f g : File} : look p = some f → d ∈ f.deps → look d = some g →
      Conn look d q → Conn look p q

variable (look)

/-- `st'` extends `st`: the accumulator grew by `new`, exactly the paths of `new` were added to
    `seen`, they were all unseen before, pairwise distinct, marked source files, and satisfy `R`. -/
def Ext (R : Str → Prop) (st st' : DState) : Prop :=
  ∃ new : List File, st'.2 = st.2 ++ new ∧ (∀ p, p ∈ st'.1 ↔ (p ∈ st.1 ∨ p ∈ paths new)) ∧
    (∀ p ∈ paths new, p ∉ st.1) ∧ (paths new).Nodup ∧
    (∀ h ∈ new, ∃ g, Src look g ∧ h = mark t g ∧ R g.path)

variable {look t}

theorem ext_refl (R : Str → Prop) (st : DState) : Ext look t R st st :=
  ⟨[], by simp, by simp [paths], by simp [paths], by simp [paths], by simp⟩

theorem ext_mono {R R' : Str → Prop} (h : ∀ p, R p → R' p) {a b : DState}
    (e : Ext look t R a b) : Ext look t R' a b := by
  obtain ⟨n, e1, s1, u1, d1, m1⟩ := e
  refine ⟨n, e1, s1, u1, d1, ?_⟩
  intro x hx
  obtain ⟨g, hg, he, hr⟩ := m1 x hx
  exact ⟨g, hg, he, h _ hr⟩

theorem ext_trans {R : Str → Prop} {a b c : DState}
    (h1 : Ext look t R a b) (h2 : Ext look t R b c) : Ext look t R a c := by
  obtain ⟨n1, e1, s1, u1, d1, m1⟩ := h1
  obtain ⟨n2, e2, s2, u2, d2, m2⟩ := h2
  refine ⟨n1 ++ n2, ?_, ?_, ?_, ?_, ?_⟩
  · rw [e2, e1, List.append_assoc]
  · intro p
    rw [s2 p, s1 p]
    simp only [paths, List.map_append, List.mem_append]
    constructor
    · rintro ((h | h) | h)
      · exact Or.inl h
      · exact Or.inr (Or.inl h)
      · exact Or.inr (Or.inr h)
    · rintro (h | h | h)
      · exact Or.inl (Or.inl h)
      · exact Or.inl (Or.inr h)
      · exact Or.inr h
  · intro p hp
    simp only [paths, List.map_append, List.mem_append] at hp
    rcases hp with hp | hp
    · exact u1 p hp
    · intro ha
      exact u2 p hp ((s1 p).mpr (Or.inl ha))
  · simp only [paths, List.map_append]
    rw [List.nodup_append]
    refine ⟨d1, d2, ?_⟩
    intro x hx y hy hxy
    subst hxy
    exact u2 x hy ((s1 x).mpr (Or.inr hx))
  · intro h hh
    rcases List.mem_append.mp hh with hh | hh
    · exact m1 h hh
    · exact m2 h hh

theorem ext_seen_mono {R : Str → Prop} {a b : DState} (h : Ext look t R a b) {p : Str}
    (hp : p ∈ a.1) : p ∈ b.1 := by
  obtain ⟨_, _, s, _, _, _⟩ := h
  exact (s p).mpr (Or.inl hp)

theorem foldl_rel {α : Type} (R : DState → DState → Prop) (hrefl : ∀ s, R s s)
    (htrans : ∀ {a b c}, R a b → R b c → R a c) (step : DState → α → DState)
    (l : List α) (hstep : ∀ s, ∀ d ∈ l, R s (step s d)) (s : DState) :
    R s (l.foldl step s) := by
  induction l generalizing s with
  | nil => exact hrefl s
  | cons d ds ih =>
    simp only [List.foldl]
    exact htrans (hstep s d (by simp)) (ih (fun s' d' hd' => hstep s' d' (by simp [hd'])) _)

theorem conn_step_of_src (hl : LookOK look) {f g : File} {d q : Str} (hf : Src look f)
    (hd : d ∈ f.deps) (hg : look d = some g) (hc : Conn look g.path q) : Conn look f.path q := by
  have : g.path = d := hl d g hg
  rw [this] at hc
  exact Conn.step hf hd hg hc

theorem visit_ext (hl : LookOK look) (fuel : Nat) :
    ∀ (f : File) (st : DState), Src look f →
      Ext look t (Conn look f.path) st (visit look t fuel f st) := by
  induction fuel with
  | zero => intro f st _; exact ext_refl _ st
  | succ fuel ih =>
    intro f st hf
    rw [visit_succ]
    by_cases hs : f.path ∈ st.1
    · rw [if_pos hs]; exact ext_refl _ st
    · rw [if_neg hs]
      have hfold : Ext look t (Conn look f.path) (f.path :: st.1, st.2)
          (f.deps.foldl (depStep look t fuel) (f.path :: st.1, st.2)) := by
        apply foldl_rel (Ext look t (Conn look f.path)) (ext_refl _) (fun h1 h2 => ext_trans h1 h2)
        intro s d hd
        unfold depStep
        split
        · rename_i g hg
          exact ext_mono (fun q hq => conn_step_of_src hl hf hd hg hq) (ih g s (src_of_look hl hg))
        · exact ext_refl _ s
      obtain ⟨n1, e1, s1, u1, d1, m1⟩ := hfold
      refine ⟨n1 ++ [mark t f], ?_, ?_, ?_, ?_, ?_⟩
      · simp only at e1 ⊢
        rw [e1, List.append_assoc]
      · intro p
        simp only at s1 ⊢
        rw [s1 p]
        simp only [paths, List.map_append, List.mem_append, List.map_cons, List.map_nil,
          List.mem_cons, mark_path, List.not_mem_nil, or_false]
        constructor
        · rintro ((h | h) | h)
          · exact Or.inr (Or.inr h)
          · exact Or.inl h
          · exact Or.inr (Or.inl h)
        · rintro (h | h | h)
          · exact Or.inl (Or.inr h)
          · exact Or.inr h
          · exact Or.inl (Or.inl h)
      · intro p hp
        simp only [paths, List.map_append, List.mem_append, List.map_cons, List.map_nil,
          mark_path, List.mem_singleton] at hp
        rcases hp with hp | hp
        · intro ha
          exact u1 p hp (List.mem_cons_of_mem _ ha)
        · subst hp; exact hs
      · simp only [paths, List.map_append, List.map_cons, List.map_nil, mark_path]
        rw [List.nodup_append]
        refine ⟨d1, by simp, ?_⟩
        intro x hx y hy hxy
        simp at hy
        subst hxy; subst hy
        exact u1 _ hx (by simp)
      · intro h hh
        rcases List.mem_append.mp hh with hh | hh
        · exact m1 h hh
        · simp at hh; exact ⟨f, hf, hh, Conn.refl _⟩

theorem fold_depStep_ext (hl : LookOK look) (fuel : Nat) (ds : List Str) (st : DState) :
    Ext look t (fun _ => True) st (ds.foldl (depStep look t fuel) st) := by
  apply foldl_rel (Ext look t _) (ext_refl _) (fun h1 h2 => ext_trans h1 h2)
  intro s d _
  unfold depStep
  split
  · rename_i g hg
    exact ext_mono (fun _ _ => trivial) (visit_ext hl fuel g s (src_of_look hl hg))
  · exact ext_refl _ s

/-! ### fuel: the number of known paths not yet seen -/

def unseen (dom seen : List Str) : Nat := dom.countP (fun p => !decide (p ∈ seen))

theorem unseen_mono (dom : List Str) {s s' : List Str} (h : ∀ p ∈ s, p ∈ s') :
    unseen dom s' ≤ unseen dom s := by
  unfold unseen
  apply List.countP_mono_left
  intro x _ hx
  simp only [Bool.not_eq_eq_eq_not, Bool.not_true, decide_eq_false_iff_not] at hx ⊢
  exact fun hs => hx (h x hs)

theorem unseen_cons_lt (dom : List Str) {s : List Str} {p : Str} (hp : p ∈ dom) (hs : p ∉ s) :
    unseen dom (p :: s) < unseen dom s := by
  induction dom with
  | nil => cases hp
  | cons x xs ih =>
    have hle := unseen_mono xs (s := s) (s' := p :: s) (fun q hq => List.mem_cons_of_mem _ hq)
    unfold unseen at hle ih ⊢
    rw [List.countP_cons, List.countP_cons]
    by_cases hxp : x = p
    · subst hxp
      have h1 : (!decide (x ∈ x :: s)) = false := by simp
      have h2 : (!decide (x ∈ s)) = true := by simp [hs]
      simp only [h1, h2, Bool.false_eq_true, if_false, if_true]
      omega
    · have hp' : p ∈ xs := by
        rcases List.mem_cons.mp hp with h | h
        · exact absurd h.symm hxp
        · exact h
      have := ih hp'
      have h1 : (!decide (x ∈ p :: s)) = (!decide (x ∈ s)) := by simp [hxp]
      simp only [h1]
      omega

theorem mem_of_unseen_zero {dom s : List Str} (h : unseen dom s = 0) {p : Str} (hp : p ∈ dom) : p ∈ s := by
  unfold unseen at h
  have := List.countP_eq_zero.mp h p hp
  simpa using this

theorem unseen_le_length (dom s : List Str) : unseen dom s ≤ dom.length := List.countP_le_length

/-- Dependencies of finished files are seen. -/
def DS (look : Str → Option File) (st : DState) : Prop :=
  ∀ h ∈ st.2, ∀ d ∈ h.deps, (look d).isSome → d ∈ st.1

/-- With enough fuel the walk visits the file and keeps `DS`. -/
theorem visit_full (hl : LookOK look) (dom : List Str) (hdom : ∀ p f, look p = some f → p ∈ dom)
    (fuel : Nat) : ∀ (f : File) (st : DState), Src look f → unseen dom st.1 ≤ fuel → DS look st →
      DS look (visit look t fuel f st) ∧ f.path ∈ (visit look t fuel f st).1 := by
  induction fuel with
  | zero =>
    intro f st hf hu hds
    rw [visit_zero]
    exact ⟨hds, mem_of_unseen_zero (Nat.le_zero.mp hu) (hdom _ _ hf)⟩
  | succ fuel ih =>
    intro f st hf hu hds
    rw [visit_succ]
    by_cases hs : f.path ∈ st.1
    · rw [if_pos hs]; exact ⟨hds, hs⟩
    · rw [if_neg hs]
      -- the fold over the dependencies
      have hfold : ∀ (ds : List Str) (s : DState), unseen dom s.1 ≤ fuel → DS look s →
          DS look (ds.foldl (depStep look t fuel) s) ∧
          (∀ d ∈ ds, (look d).isSome → d ∈ (ds.foldl (depStep look t fuel) s).1) := by
        intro ds
        induction ds with
        | nil => intro s _ hd; exact ⟨hd, by simp⟩
        | cons d ds ihd =>
          intro s hus hd
          simp only [List.foldl]
          have hstep : DS look (depStep look t fuel s d) ∧ ((look d).isSome → d ∈ (depStep look t fuel s d).1) ∧
              Ext look t (fun _ => True) s (depStep look t fuel s d) := by
            unfold depStep
            split
            · rename_i g hg
              have hsg := src_of_look hl hg
              have := ih g s hsg hus hd
              refine ⟨this.1, fun _ => ?_, ext_mono (fun _ _ => trivial) (visit_ext hl fuel g s hsg)⟩
              have hp := hl d g hg
              rw [← hp]; exact this.2
            · rename_i hn
              exact ⟨hd, fun h => by simp [hn] at h, ext_refl _ s⟩
          obtain ⟨h1, h2, h3⟩ := hstep
          have hus' : unseen dom (depStep look t fuel s d).1 ≤ fuel :=
            Nat.le_trans (unseen_mono dom (fun p hp => ext_seen_mono h3 hp)) hus
          have := ihd _ hus' h1
          refine ⟨this.1, ?_⟩
          intro d' hd' hsome
          rcases List.mem_cons.mp hd' with rfl | hd'
          · exact ext_seen_mono (fold_depStep_ext hl fuel ds _) (h2 hsome)
          · exact this.2 d' hd' hsome
      have hu0 : unseen dom (f.path :: st.1) ≤ fuel := by
        have := unseen_cons_lt dom (hdom _ _ hf) hs
        omega
      have hds0 : DS look (f.path :: st.1, st.2) := by
        intro h hh d hd hsome
        exact List.mem_cons_of_mem _ (hds h hh d hd hsome)
      obtain ⟨hA, hB⟩ := hfold f.deps (f.path :: st.1, st.2) hu0 hds0
      refine ⟨?_, ?_⟩
      · intro h hh d hd hsome
        simp only at hh ⊢
        rcases List.mem_append.mp hh with hh | hh
        · exact hA h hh d hd hsome
        · simp at hh; subst hh
          exact hB d hd hsome
      · exact ext_seen_mono (fold_depStep_ext hl fuel f.deps _) (by simp)

/-- Everything reachable from a member of a dependency-closed list of marked source files is in
    the list. -/
theorem closed_conn (hl : LookOK look) (out : List File)
    (hsrc : ∀ h ∈ out, ∃ g, Src look g ∧ h = mark t g)
    (hclosed : ∀ h ∈ out, ∀ d ∈ h.deps, (look d).isSome → d ∈ paths out)
    {p q : Str} (hc : Conn look p q) (hp : p ∈ paths out) : q ∈ paths out := by
  induction hc with
  | refl p => exact hp
  | @step p d q f g hf hd hg _ ih =>
    apply ih
    obtain ⟨h, hh, hhp⟩ := List.mem_map.mp hp
    obtain ⟨g0, hg0, he⟩ := hsrc h hh
    have hpath : g0.path = p := by rw [← hhp, he]; rfl
    unfold Src at hg0
    rw [hpath, hf] at hg0
    have hfe : f = g0 := Option.some.inj hg0
    have hdeps : h.deps = f.deps := by rw [he, hfe]; rfl
    exact hclosed h hh d (hdeps ▸ hd) (by simp [hg])

/-- Specification of the whole walk from `fs` with enough fuel. -/
theorem dfs_spec (hl : LookOK look) (dom : List Str) (hdom : ∀ p f, look p = some f → p ∈ dom)
    (fuel : Nat) (hfuel : dom.length ≤ fuel) (fs : List File) (hfs : ∀ f ∈ fs, Src look f) :
    let out := (visitAll look t fuel fs ([], [])).2
    (paths out).Nodup ∧ (∀ h ∈ out, ∃ g, Src look g ∧ h = mark t g) ∧
    (∀ q, q ∈ paths out ↔ ∃ f ∈ fs, Conn look f.path q) := by
  -- generalised over the start state
  have hgen : ∀ (fs' : List File) (st : DState), (∀ f ∈ fs', f ∈ fs) → unseen dom st.1 ≤ fuel →
      DS look st →
      Ext look t (fun q => ∃ f ∈ fs, Conn look f.path q) st (visitAll look t fuel fs' st) ∧
      DS look (visitAll look t fuel fs' st) ∧ (∀ f ∈ fs', f.path ∈ (visitAll look t fuel fs' st).1) := by
    intro fs'
    induction fs' with
    | nil => intro st _ _ hd; exact ⟨ext_refl _ st, hd, by simp⟩
    | cons f fs' ih =>
      intro st hsub hu hd
      have hf : f ∈ fs := hsub f (by simp)
      have hsf := hfs f hf
      have hv := visit_full (t := t) hl dom hdom fuel f st hsf hu hd
      have he : Ext look t (fun q => ∃ f ∈ fs, Conn look f.path q) st (visit look t fuel f st) :=
        ext_mono (fun q hq => ⟨f, hf, hq⟩) (visit_ext hl fuel f st hsf)
      have hu' : unseen dom (visit look t fuel f st).1 ≤ fuel :=
        Nat.le_trans (unseen_mono dom (fun p hp => ext_seen_mono he hp)) hu
      have := ih (visit look t fuel f st) (fun g hg => hsub g (List.mem_cons_of_mem _ hg)) hu' hv.1
      show Ext look t _ st (visitAll look t fuel fs' (visit look t fuel f st)) ∧
        DS look (visitAll look t fuel fs' (visit look t fuel f st)) ∧
        ∀ g ∈ f :: fs', g.path ∈ (visitAll look t fuel fs' (visit look t fuel f st)).1
      refine ⟨ext_trans he this.1, this.2.1, ?_⟩
      intro g hg
      rcases List.mem_cons.mp hg with rfl | hg
      · exact ext_seen_mono this.1 hv.2
      · exact this.2.2 g hg
  have hu0 : unseen dom ([] : List Str) ≤ fuel := by
    exact Nat.le_trans (unseen_le_length dom []) hfuel
  obtain ⟨⟨new, e, s, _, nd, m⟩, hds, hroots⟩ := hgen fs ([], []) (fun _ h => h) hu0 (by intro h hh; cases hh)
  simp only [List.nil_append] at e
  have hseen : ∀ p, p ∈ (visitAll look t fuel fs ([], [])).1 ↔ p ∈ paths (visitAll look t fuel fs ([], [])).2 := by
    intro p; rw [s p, e]; simp
  refine ⟨by rw [e]; exact nd, ?_, ?_⟩
  · intro h hh
    rw [e] at hh
    obtain ⟨g, hg, he, _⟩ := m h hh
    exact ⟨g, hg, he⟩
  · intro q
    constructor
    · intro hq
      obtain ⟨h, hh, hhq⟩ := List.mem_map.mp hq
      rw [e] at hh
      obtain ⟨g, _, he, hr⟩ := m h hh
      have : g.path = q := by rw [← hhq, he]; rfl
      rw [this] at hr
      exact hr
    · rintro ⟨f, hf, hc⟩
      have hclosed : ∀ h ∈ (visitAll look t fuel fs ([], [])).2, ∀ d ∈ h.deps, (look d).isSome →
          d ∈ paths (visitAll look t fuel fs ([], [])).2 :=
        fun h hh d hd hsome => (hseen d).mp (hds h hh d hd hsome)
      have hsrc : ∀ h ∈ (visitAll look t fuel fs ([], [])).2, ∃ g, Src look g ∧ h = mark t g := by
        intro h hh
        rw [e] at hh
        obtain ⟨g, hg, he, _⟩ := m h hh
        exact ⟨g, hg, he⟩
      exact closed_conn hl _ hsrc hclosed hc ((hseen f.path).mp (hroots f hf))

end DFS

/-! ### path selection -/

/-- The selection both implementations are supposed to compute. -/
def selected (pths excl : List Str) (p : Str) : Bool :=
  (pths.isEmpty || mapHas pths p) && !mapHas excl p

theorem isTargetFile_eq (m : Module) (p : Str) :
    isTargetFile m p = (m.isTarget && selected m.targetPaths m.excludePaths p) := by
  unfold isTargetFile selected
  cases m.isTarget <;> cases m.targetPaths <;> cases m.excludePaths <;> simp [mapHas]

/-- A normalised, validated relative path: the rendering of a list of proper components. -/
def IsKey (p : Str) : Prop := ∃ k : Key, AllProper k ∧ p = renderKey k

theorem ecp_refl (p : Str) : equalsOrContainsPath p p = true := by
  unfold equalsOrContainsPath
  by_cases h : p = dot
  · rw [if_pos h]
  · rw [if_neg h]
    show ecpLoop p (p.length + 1 + 1) p = true
    unfold ecpLoop
    rw [if_neg h, if_pos rfl]

/-- The ancestors of a path form a chain. -/
theorem ecp_chain {a b c : Str} (ha : IsKey a) (hb : IsKey b) (hc : IsKey c)
    (h1 : equalsOrContainsPath a c = true) (h2 : equalsOrContainsPath b c = true) :
    equalsOrContainsPath a b = true ∨ equalsOrContainsPath b a = true := by
  obtain ⟨ka, pa, rfl⟩ := ha
  obtain ⟨kb, pb, rfl⟩ := hb
  obtain ⟨kc, pc, rfl⟩ := hc
  rw [ecp_keys pa pc] at h1
  rw [ecp_keys pb pc] at h2
  rw [ecp_keys pa pb, ecp_keys pb pa]
  exact List.prefix_or_prefix_of_prefix h1 h2

theorem mapHas_iff {m : List Str} {p : Str} :
    mapHas m p = true ↔ ∃ v ∈ m, equalsOrContainsPath v p = true := by
  unfold mapHas; simp

theorem mapHas_false_iff {m : List Str} {p : Str} :
    mapHas m p = false ↔ ∀ v ∈ m, equalsOrContainsPath v p = false := by
  unfold mapHas; simp

theorem mem_mapAll {m : List Str} {p v : Str} :
    v ∈ mapAll m p ↔ v ∈ m ∧ equalsOrContainsPath v p = true := by
  unfold mapAll; simp

theorem validUnique_keys (ps : List Str) (hk : ∀ p ∈ ps, IsKey p) (hn : ps.Nodup) :
    validUnique ps = true := by
  induction ps with
  | nil => rfl
  | cons p ps ih =>
    obtain ⟨k, hkp, rfl⟩ := hk p (by simp)
    have hn' := List.nodup_cons.mp hn
    unfold validUnique
    rw [ih (fun q hq => hk q (List.mem_cons_of_mem _ hq)) hn'.2]
    have h1 : renderKey k ≠ [] := renderKey_ne_nil hkp
    have h2 := validate_renderKey hkp
    simp [h1, h2, hn'.1]

theorem hasDup_false {l : List Str} (h : l.Nodup) : hasDup l = false := by
  induction l with
  | nil => rfl
  | cons x xs ih =>
    have := List.nodup_cons.mp h
    unfold hasDup
    simp [this.1, ih this.2]

theorem newImage_ok {out : List File} (hne : out ≠ []) (hn : (paths out).Nodup) :
    newImage out = .ok out := by
  unfold newImage
  cases out with
  | nil => exact absurd rfl hne
  | cons x xs => simp [hasDup_false hn]

/-! ### the first loop of imageWithOnlyPaths -/

theorem splitPaths_spec (img : Image) (hn : (paths img).Nodup) :
    ∀ (ps : List Str) (ni : List File) (pot : List Str), (∀ p ∈ ps, p ≠ dot) → (∀ g ∈ ni, g ∈ img) →
    ∃ ni' pot', splitPaths img ps ni pot = .ok (ni', pot') ∧
      (∀ f, f ∈ ni' ↔ f ∈ ni ∨ ∃ p ∈ ps, ext p = protoExt ∧ getFile img p = some f) ∧
      (∀ p, p ∈ pot' ↔ p ∈ pot ∨ (p ∈ ps ∧ ¬(ext p = protoExt ∧ (getFile img p).isSome = true))) := by
  intro ps
  induction ps with
  | nil =>
    intro ni pot _ _
    exact ⟨ni, pot, rfl, by simp, by simp⟩
  | cons p ps ih =>
    intro ni pot hd hsub
    have hd' : ∀ q ∈ ps, q ≠ dot := fun q hq => hd q (List.mem_cons_of_mem _ hq)
    have hpd : p ≠ dot := hd p (by simp)
    unfold splitPaths
    rw [if_neg hpd]
    by_cases hext : ext p = protoExt
    · rw [if_neg (by simpa using hext)]
      cases hg : getFile img p with
      | none =>
        simp only
        obtain ⟨ni', pot', e, h1, h2⟩ := ih ni (pot ++ [p]) hd' hsub
        refine ⟨ni', pot', e, ?_, ?_⟩
        · intro f; rw [h1 f]
          constructor
          · rintro (h | ⟨q, hq, hqe, hqf⟩)
            · exact Or.inl h
            · exact Or.inr ⟨q, List.mem_cons_of_mem _ hq, hqe, hqf⟩
          · rintro (h | ⟨q, hq, hqe, hqf⟩)
            · exact Or.inl h
            · rcases List.mem_cons.mp hq with rfl | hq
              · rw [hg] at hqf; cases hqf
              · exact Or.inr ⟨q, hq, hqe, hqf⟩
        · intro q; rw [h2 q]
          simp only [List.mem_append, List.mem_cons, List.not_mem_nil, or_false]
          constructor
          · rintro ((h | rfl) | ⟨h, h'⟩)
            · exact Or.inl h
            · exact Or.inr ⟨Or.inl rfl, by simp [hg]⟩
            · exact Or.inr ⟨Or.inr h, h'⟩
          · rintro (h | ⟨rfl | h, h'⟩)
            · exact Or.inl (Or.inl h)
            · exact Or.inl (Or.inr rfl)
            · exact Or.inr ⟨h, h'⟩
      | some f0 =>
        simp only
        have hf0 := getFile_some hg
        by_cases hin : p ∈ paths ni
        · rw [if_pos hin]
          obtain ⟨ni', pot', e, h1, h2⟩ := ih ni pot hd' hsub
          refine ⟨ni', pot', e, ?_, ?_⟩
          · intro f; rw [h1 f]
            constructor
            · rintro (h | ⟨q, hq, hqe, hqf⟩)
              · exact Or.inl h
              · exact Or.inr ⟨q, List.mem_cons_of_mem _ hq, hqe, hqf⟩
            · rintro (h | ⟨q, hq, hqe, hqf⟩)
              · exact Or.inl h
              · rcases List.mem_cons.mp hq with rfl | hq
                · rw [hg] at hqf; cases hqf
                  obtain ⟨g, hgni, hgp⟩ := List.mem_map.mp hin
                  have : g = f0 := eq_of_mem_nodup_paths hn (hsub g hgni) hf0.1 (by rw [hgp, hf0.2])
                  exact Or.inl (this ▸ hgni)
                · exact Or.inr ⟨q, hq, hqe, hqf⟩
          · intro q; rw [h2 q]
            simp only [List.mem_cons]
            constructor
            · rintro (h | ⟨h, h'⟩)
              · exact Or.inl h
              · exact Or.inr ⟨Or.inr h, h'⟩
            · rintro (h | ⟨rfl | h, h'⟩)
              · exact Or.inl h
              · exact absurd ⟨hext, by simp [hg]⟩ h'
              · exact Or.inr ⟨h, h'⟩
        · rw [if_neg hin]
          have hsub' : ∀ g ∈ ni ++ [f0], g ∈ img := by
            intro g hgm
            rcases List.mem_append.mp hgm with h | h
            · exact hsub g h
            · simp at h; subst h; exact hf0.1
          obtain ⟨ni', pot', e, h1, h2⟩ := ih (ni ++ [f0]) pot hd' hsub'
          refine ⟨ni', pot', e, ?_, ?_⟩
          · intro f; rw [h1 f]
            simp only [List.mem_append, List.mem_singleton]
            constructor
            · rintro ((h | rfl) | ⟨q, hq, hqe, hqf⟩)
              · exact Or.inl h
              · exact Or.inr ⟨p, by simp, hext, hg⟩
              · exact Or.inr ⟨q, List.mem_cons_of_mem _ hq, hqe, hqf⟩
            · rintro (h | ⟨q, hq, hqe, hqf⟩)
              · exact Or.inl (Or.inl h)
              · rcases List.mem_cons.mp hq with rfl | hq
                · rw [hg] at hqf; cases hqf; exact Or.inl (Or.inr rfl)
                · exact Or.inr ⟨q, hq, hqe, hqf⟩
          · intro q; rw [h2 q]
            simp only [List.mem_cons]
            constructor
            · rintro (h | ⟨h, h'⟩)
              · exact Or.inl h
              · exact Or.inr ⟨Or.inr h, h'⟩
            · rintro (h | ⟨rfl | h, h'⟩)
              · exact Or.inl h
              · exact absurd ⟨hext, by simp [hg]⟩ h'
              · exact Or.inr ⟨h, h'⟩
    · rw [if_pos (by simpa using hext)]
      obtain ⟨ni', pot', e, h1, h2⟩ := ih ni (pot ++ [p]) hd' hsub
      refine ⟨ni', pot', e, ?_, ?_⟩
      · intro f; rw [h1 f]
        constructor
        · rintro (h | ⟨q, hq, hqe, hqf⟩)
          · exact Or.inl h
          · exact Or.inr ⟨q, List.mem_cons_of_mem _ hq, hqe, hqf⟩
        · rintro (h | ⟨q, hq, hqe, hqf⟩)
          · exact Or.inl h
          · rcases List.mem_cons.mp hq with rfl | hq
            · exact absurd hqe hext
            · exact Or.inr ⟨q, hq, hqe, hqf⟩
      · intro q; rw [h2 q]
        simp only [List.mem_append, List.mem_cons, List.not_mem_nil, or_false]
        constructor
        · rintro ((h | rfl) | ⟨h, h'⟩)
          · exact Or.inl h
          · exact Or.inr ⟨Or.inl rfl, fun hh => hext hh.1⟩
          · exact Or.inr ⟨Or.inr h, h'⟩
        · rintro (h | ⟨rfl | h, h'⟩)
          · exact Or.inl (Or.inl h)
          · exact Or.inl (Or.inr rfl)
          · exact Or.inr ⟨h, h'⟩

/-! ### the loop over the image files -/

theorem dirFold_spec (img0 : Image) (hn : (paths img0).Nodup) (pot excl : List Str) :
    ∀ (img : List File) (st : DirState), (∀ f ∈ img, f ∈ img0) → (∀ g ∈ st.1, g ∈ img0) →
      (∀ f, f ∈ (img.foldl (dirStep pot excl) st).1 ↔
        f ∈ st.1 ∨ (f ∈ img ∧ remaining (mapAll pot f.path) (mapAll excl f.path) ≠ [])) ∧
      (∀ g ∈ (img.foldl (dirStep pot excl) st).1, g ∈ img0) := by
  intro img
  induction img with
  | nil => intro st _ h; exact ⟨by simp, h⟩
  | cons f fs ih =>
    intro st hsub hst
    simp only [List.foldl]
    have hf0 : f ∈ img0 := hsub f (by simp)
    have hsub' : ∀ g ∈ fs, g ∈ img0 := fun g hg => hsub g (List.mem_cons_of_mem _ hg)
    by_cases hrem : remaining (mapAll pot f.path) (mapAll excl f.path) = []
    · have hstep : (dirStep pot excl st f).1 = st.1 := by
        unfold dirStep; simp [hrem]
      obtain ⟨h1, h2⟩ := ih (dirStep pot excl st f) hsub' (by rw [hstep]; exact hst)
      refine ⟨?_, h2⟩
      intro g; rw [h1 g, hstep]
      constructor
      · rintro (h | ⟨h, h'⟩)
        · exact Or.inl h
        · exact Or.inr ⟨List.mem_cons_of_mem _ h, h'⟩
      · rintro (h | ⟨h, h'⟩)
        · exact Or.inl h
        · rcases List.mem_cons.mp h with rfl | h
          · exact absurd hrem h'
          · exact Or.inr ⟨h, h'⟩
    · have hstep : (dirStep pot excl st f).1 = if f.path ∈ paths st.1 then st.1 else st.1 ++ [f] := by
        unfold dirStep
        have : (remaining (mapAll pot f.path) (mapAll excl f.path)).isEmpty = false := by
          cases hr : remaining (mapAll pot f.path) (mapAll excl f.path) with
          | nil => exact absurd hr hrem
          | cons _ _ => rfl
        simp [this]
      have hmem : ∀ g, g ∈ (dirStep pot excl st f).1 ↔ g ∈ st.1 ∨ g = f := by
        intro g; rw [hstep]
        by_cases hin : f.path ∈ paths st.1
        · rw [if_pos hin]
          constructor
          · exact Or.inl
          · rintro (h | rfl)
            · exact h
            · obtain ⟨g', hg', hp⟩ := List.mem_map.mp hin
              have : g' = g := eq_of_mem_nodup_paths hn (hst g' hg') hf0 hp
              exact this ▸ hg'
        · rw [if_neg hin]; simp
      have hst' : ∀ g ∈ (dirStep pot excl st f).1, g ∈ img0 := by
        intro g hg
        rcases (hmem g).mp hg with h | rfl
        · exact hst g h
        · exact hf0
      obtain ⟨h1, h2⟩ := ih (dirStep pot excl st f) hsub' hst'
      refine ⟨?_, h2⟩
      intro g; rw [h1 g, hmem g]
      constructor
      · rintro ((h | rfl) | ⟨h, h'⟩)
        · exact Or.inl h
        · exact Or.inr ⟨by simp, hrem⟩
        · exact Or.inr ⟨List.mem_cons_of_mem _ h, h'⟩
      · rintro (h | ⟨h, h'⟩)
        · exact Or.inl (Or.inl h)
        · rcases List.mem_cons.mp h with rfl | h
          · exact Or.inl (Or.inr rfl)
          · exact Or.inr ⟨h, h'⟩

/-! ### image-level selection = the intended selection, under the side condition -/

/-- Hypotheses on an image and a path selection. -/
structure Hyp (img : Image) (pths excl : List Str) : Prop where
  nodup : (paths img).Nodup
  fkeys : ∀ f ∈ img, IsKey f.path
  pkeys : ∀ p ∈ pths, IsKey p
  ekeys : ∀ e ∈ excl, IsKey e
  pnd : pths.Nodup
  end_ : excl.Nodup
  nodot : ∀ p ∈ pths, p ≠ dot
  /-- the property's side condition: no --path lies inside (or equals) an --exclude-path -/
  side : ∀ p ∈ pths, ∀ e ∈ excl, equalsOrContainsPath e p = false
  /-- no file path is a directory of another file -/
  pfree : ∀ f ∈ img, ∀ g ∈ img, equalsOrContainsPath f.path g.path = true → f.path = g.path
  /-- no --path selects a file that is only an import of the image -/
  imp : ∀ f ∈ img, f.isImport = true → mapHas pths f.path = false

theorem remaining_ne_nil {mp me : List Str} :
    remaining mp me ≠ [] ↔ ∃ p ∈ mp, ∀ e ∈ me, equalsOrContainsPath p e = false := by
  unfold remaining
  rw [Ne, List.filter_eq_nil_iff]
  simp

theorem sel_equiv {img : Image} {pths excl pot : List Str} (h : Hyp img pths excl)
    (hpot : ∀ p, p ∈ pot ↔ (p ∈ pths ∧ ¬(ext p = protoExt ∧ (getFile img p).isSome = true)))
    {f : File} (hf : f ∈ img) :
    ((∃ p ∈ pths, ext p = protoExt ∧ getFile img p = some f) ∨
        remaining (mapAll pot f.path) (mapAll excl f.path) ≠ []) ↔
      (mapHas pths f.path = true ∧ mapHas excl f.path = false) := by
  constructor
  · rintro (⟨p, hp, _, hg⟩ | hrem)
    · have hfp := (getFile_some hg).2
      refine ⟨mapHas_iff.mpr ⟨p, hp, by rw [hfp]; exact ecp_refl p⟩, mapHas_false_iff.mpr ?_⟩
      intro e he
      rw [hfp]; exact h.side p hp e he
    · obtain ⟨p, hp, hall⟩ := remaining_ne_nil.mp hrem
      obtain ⟨hppot, hpf⟩ := mem_mapAll.mp hp
      have hpp := ((hpot p).mp hppot).1
      refine ⟨mapHas_iff.mpr ⟨p, hpp, hpf⟩, mapHas_false_iff.mpr ?_⟩
      intro e he
      cases hef : equalsOrContainsPath e f.path with
      | false => rfl
      | true =>
        exfalso
        rcases ecp_chain (h.pkeys p hpp) (h.ekeys e he) (h.fkeys f hf) hpf hef with hc | hc
        · have := hall e (mem_mapAll.mpr ⟨he, hef⟩)
          rw [hc] at this; cases this
        · have := h.side p hpp e he
          rw [hc] at this; cases this
  · rintro ⟨hp, he⟩
    obtain ⟨p, hpp, hpf⟩ := mapHas_iff.mp hp
    by_cases hppot : p ∈ pot
    · right
      apply remaining_ne_nil.mpr
      refine ⟨p, mem_mapAll.mpr ⟨hppot, hpf⟩, ?_⟩
      intro e hee
      obtain ⟨he1, he2⟩ := mem_mapAll.mp hee
      have := mapHas_false_iff.mp he e he1
      rw [this] at he2; cases he2
    · left
      have : ext p = protoExt ∧ (getFile img p).isSome = true := by
        apply Classical.byContradiction
        intro hc
        exact hppot ((hpot p).mpr ⟨hpp, hc⟩)
      obtain ⟨hext, hsome⟩ := this
      obtain ⟨g, hg⟩ := Option.isSome_iff_exists.mp hsome
      obtain ⟨hgi, hgp⟩ := getFile_some hg
      have hpe : g.path = f.path := h.pfree g hgi f hf (by rw [hgp]; exact hpf)
      have : g = f := eq_of_mem_nodup_paths h.nodup hgi hf hpe
      exact ⟨p, hpp, hext, this ▸ hg⟩

theorem mapAll_nil (p : Str) : mapAll [] p = [] := rfl
theorem remaining_nil (me : List Str) : remaining [] me = [] := rfl

/-- The roots `imageWithOnlyPaths` hands to `getImageWithImports`, under `Hyp`. -/
theorem iwop_roots {img : Image} {pths excl : List Str} (h : Hyp img pths excl)
    (hne : pths ≠ [] ∨ excl ≠ []) :
    ∃ ni, imageWithOnlyPaths img pths excl true = getImageWithImports img ni ∧
      (∀ g ∈ ni, g ∈ img) ∧
      (∀ f, f ∈ ni ↔ (f ∈ img ∧ f.isImport = false ∧ selected pths excl f.path = true)) := by
  unfold imageWithOnlyPaths
  rw [validUnique_keys pths h.pkeys h.pnd, validUnique_keys excl h.ekeys h.end_]
  simp only [Bool.not_true, Bool.false_eq_true, if_false, Bool.false_and]
  cases hp : pths with
  | nil =>
    have hex : excl ≠ [] := by
      rcases hne with h' | h'
      · exact absurd hp h'
      · exact h'
    have : excl.isEmpty = false := by cases excl with | nil => exact absurd rfl hex | cons _ _ => rfl
    simp only [List.isEmpty_nil, this, Bool.not_false, Bool.and_self, if_true]
    refine ⟨_, rfl, ?_, ?_⟩
    · intro g hg; exact (List.mem_filter.mp hg).1
    · intro f
      simp [List.mem_filter, selected]
  | cons p0 ps =>
    rw [← hp]
    have hpe : pths.isEmpty = false := by rw [hp]; rfl
    simp only [hpe, Bool.false_and, Bool.false_eq_true, if_false]
    have hsame : (pths.any fun p => excl.contains p) = false := by
      rw [List.any_eq_false]
      intro p hpp hc
      have hpe' : p ∈ excl := by simpa using hc
      have := h.side p hpp p hpe'
      rw [ecp_refl] at this; cases this
    rw [hsame]
    simp only [Bool.false_eq_true, if_false]
    obtain ⟨ni0, pot, e, h1, h2⟩ := splitPaths_spec img h.nodup pths [] [] h.nodot (by simp)
    rw [e]
    simp only
    have hpot : ∀ p, p ∈ pot ↔ (p ∈ pths ∧ ¬(ext p = protoExt ∧ (getFile img p).isSome = true)) := by
      intro p; rw [h2 p]; simp
    have hni0 : ∀ g ∈ ni0, g ∈ img := by
      intro g hg
      rcases (h1 g).mp hg with h' | ⟨p, _, _, hgf⟩
      · cases h'
      · exact (getFile_some hgf).1
    -- characterisation shared by both sub-branches
    have hfinal : ∀ (ni : List File), (∀ g ∈ ni, g ∈ img) →
        (∀ f, f ∈ ni ↔ f ∈ ni0 ∨ (f ∈ img ∧ remaining (mapAll pot f.path) (mapAll excl f.path) ≠ [])) →
        ∀ f, f ∈ ni ↔ (f ∈ img ∧ f.isImport = false ∧ selected pths excl f.path = true) := by
      intro ni hsub hmem f
      rw [hmem f]
      constructor
      · intro hh
        have hfi : f ∈ img := by
          rcases hh with h' | h'
          · exact hni0 f h'
          · exact h'.1
        have hd : (∃ p ∈ pths, ext p = protoExt ∧ getFile img p = some f) ∨
            remaining (mapAll pot f.path) (mapAll excl f.path) ≠ [] := by
          rcases hh with h' | h'
          · rcases (h1 f).mp h' with h'' | h''
            · cases h''
            · exact Or.inl h''
          · exact Or.inr h'.2
        obtain ⟨hs1, hs2⟩ := (sel_equiv h hpot hfi).mp hd
        refine ⟨hfi, ?_, ?_⟩
        · cases hi : f.isImport with
          | false => rfl
          | true => have := h.imp f hfi hi; rw [hs1] at this; cases this
        · unfold selected; simp [hs1, hs2]
      · rintro ⟨hfi, _, hsel⟩
        unfold selected at hsel
        rw [hpe] at hsel
        simp only [Bool.false_or, Bool.and_eq_true, Bool.not_eq_eq_eq_not, Bool.not_true] at hsel
        rcases (sel_equiv h hpot hfi).mpr hsel with hd | hd
        · exact Or.inl ((h1 f).mpr (Or.inr hd))
        · exact Or.inr ⟨hfi, hd⟩
    by_cases hpi : pot.isEmpty = true
    · rw [if_pos hpi]
      refine ⟨ni0, rfl, hni0, hfinal ni0 hni0 ?_⟩
      intro f
      have : pot = [] := List.isEmpty_iff.mp hpi
      subst this
      simp [mapAll_nil, remaining_nil]
    · rw [if_neg hpi]
      obtain ⟨hA, hB⟩ := dirFold_spec img h.nodup pot excl img (ni0, [], []) (fun _ hf => hf) hni0
      exact ⟨_, rfl, hB, hfinal _ hB hA⟩

/-! ### module-level side -/

theorem mem_insertSorted {x y : Str} {l : List Str} : y ∈ insertSorted x l ↔ y = x ∨ y ∈ l := by
  induction l with
  | nil => simp [insertSorted]
  | cons z zs ih =>
    unfold insertSorted
    split
    · simp only [List.mem_cons, ih]
      constructor
      · rintro (h | h | h)
        · exact Or.inr (Or.inl h)
        · exact Or.inl h
        · exact Or.inr (Or.inr h)
      · rintro (h | h | h)
        · exact Or.inr (Or.inl h)
        · exact Or.inl h
        · exact Or.inr (Or.inr h)
    · simp

theorem mem_sortStrs {y : Str} {l : List Str} : y ∈ sortStrs l ↔ y ∈ l := by
  unfold sortStrs
  induction l with
  | nil => simp
  | cons x xs ih => simp only [List.foldr, mem_insertSorted, ih, List.mem_cons]

theorem look_ok_getFile (img : List File) : LookOK (getFile img) :=
  fun _ _ h => (getFile_some h).2

theorem look_ok_lookup (ws : Workspace) : LookOK (lookup ws) :=
  fun _ _ h => (getFile_some h).2

theorem allFiles_withTargeting (ws : Workspace) (pths excl : List Str) :
    allFiles (withTargeting ws pths excl) = allFiles ws := by
  unfold allFiles withTargeting
  induction ws with
  | nil => rfl
  | cons m ms ih =>
    simp only [List.map_cons, List.flatMap_cons, ih]
    congr 1
    split <;> rfl

theorem lookup_withTargeting (ws : Workspace) (pths excl : List Str) :
    lookup (withTargeting ws pths excl) = lookup ws := by
  funext p; unfold lookup; rw [allFiles_withTargeting]

theorem mem_targetFiles {ws : Workspace} {g : File} :
    g ∈ targetFiles ws ↔ ∃ m ∈ ws, g ∈ m.files ∧ isTargetFile m g.path = true := by
  unfold targetFiles
  simp [List.mem_flatMap, List.mem_filter]

theorem mem_targetFiles_withTargeting {ws : Workspace} {pths excl : List Str} {g : File} :
    g ∈ targetFiles (withTargeting ws pths excl) ↔
      ∃ m ∈ ws, g ∈ m.files ∧ m.isTarget = true ∧ selected pths excl g.path = true := by
  rw [mem_targetFiles]
  unfold withTargeting
  constructor
  · rintro ⟨m', hm', hg, ht⟩
    obtain ⟨m, hm, rfl⟩ := List.mem_map.mp hm'
    by_cases hmt : m.isTarget = true
    · rw [if_pos hmt] at hg ht
      rw [isTargetFile_eq] at ht
      simp only [hmt, Bool.true_and] at ht
      exact ⟨m, hm, hg, hmt, ht⟩
    · rw [if_neg hmt] at ht
      rw [isTargetFile_eq] at ht
      simp [hmt] at ht
  · rintro ⟨m, hm, hg, hmt, hsel⟩
    refine ⟨_, List.mem_map.mpr ⟨m, hm, rfl⟩, ?_, ?_⟩
    · rw [if_pos hmt]; exact hg
    · rw [if_pos hmt, isTargetFile_eq]
      simp [hmt, hsel]

/-- Every module without its own target paths / exclude paths. -/
def Plain (ws : Workspace) : Prop := ∀ m ∈ ws, m.targetPaths = [] ∧ m.excludePaths = []

theorem mem_targetFiles_plain {ws : Workspace} (hp : Plain ws) {g : File} :
    g ∈ targetFiles ws ↔ ∃ m ∈ ws, g ∈ m.files ∧ m.isTarget = true := by
  rw [mem_targetFiles]
  constructor
  · rintro ⟨m, hm, hg, ht⟩
    rw [isTargetFile_eq] at ht
    simp only [Bool.and_eq_true] at ht
    exact ⟨m, hm, hg, ht.1⟩
  · rintro ⟨m, hm, hg, ht⟩
    refine ⟨m, hm, hg, ?_⟩
    rw [isTargetFile_eq, (hp m hm).1, (hp m hm).2]
    simp [ht, selected, mapHas]

theorem withTargeting_nil_plain {ws : Workspace} (hp : Plain ws) : withTargeting ws [] [] = ws := by
  unfold withTargeting
  induction ws with
  | nil => rfl
  | cons m ms ih =>
    have h1 := hp m (by simp)
    simp only [List.map_cons]
    rw [ih (fun m' hm' => hp m' (List.mem_cons_of_mem _ hm'))]
    congr 1
    split
    · cases m; simp only at h1; simp [h1.1, h1.2]
    · rfl

theorem mem_allFiles {ws : Workspace} {g : File} : g ∈ allFiles ws ↔ ∃ m ∈ ws, g ∈ m.files := by
  unfold allFiles; simp [List.mem_flatMap]

/-- The accumulator `build` computes. -/
def buildOut (ws : Workspace) : List File :=
  (visitAll (lookup ws) (targetPathsOf ws) ((allFiles ws).length + 1)
    ((targetPathsOf ws).filterMap (lookup ws)) ([], [])).2

theorem build_eq (ws : Workspace) :
    build ws = if (targetPathsOf ws).isEmpty then .error .noTargets
      else if depsResolvable ws (buildOut ws) then .ok (buildOut ws) else .error .compile := rfl

theorem buildOut_spec (ws : Workspace) :
    (paths (buildOut ws)).Nodup ∧
    (∀ h ∈ buildOut ws, ∃ g, lookup ws g.path = some g ∧ h = mark (targetPathsOf ws) g) ∧
    (∀ q, q ∈ paths (buildOut ws) ↔
      ∃ r ∈ targetPathsOf ws, (lookup ws r).isSome = true ∧ Conn (lookup ws) r q) := by
  have hdom : ∀ p f, lookup ws p = some f → p ∈ paths (allFiles ws) := by
    intro p f h
    have := getFile_some h
    rw [← this.2]; exact mem_paths_of_mem this.1
  have hfs : ∀ f ∈ (targetPathsOf ws).filterMap (lookup ws), Src (lookup ws) f := by
    intro f hf
    obtain ⟨r, _, hr⟩ := List.mem_filterMap.mp hf
    exact src_of_look (look_ok_lookup ws) hr
  obtain ⟨h1, h2, h3⟩ := dfs_spec (t := targetPathsOf ws) (look_ok_lookup ws) (paths (allFiles ws)) hdom
    ((allFiles ws).length + 1) (by simp [paths]) _ hfs
  refine ⟨h1, h2, ?_⟩
  intro q
  show q ∈ paths (buildOut ws) ↔ _
  unfold buildOut
  rw [h3 q]
  constructor
  · rintro ⟨f, hf, hc⟩
    obtain ⟨r, hr, hlr⟩ := List.mem_filterMap.mp hf
    have : f.path = r := look_ok_lookup ws r f hlr
    exact ⟨r, hr, by simp [hlr], this ▸ hc⟩
  · rintro ⟨r, hr, hsome, hc⟩
    obtain ⟨f, hf⟩ := Option.isSome_iff_exists.mp hsome
    have : f.path = r := look_ok_lookup ws r f hf
    exact ⟨f, List.mem_filterMap.mpr ⟨r, hr, hf⟩, this ▸ hc⟩

theorem conn_snoc {look : Str → Option File} {p q d : Str} {f g : File} (hc : Conn look p q)
    (hf : look q = some f) (hd : d ∈ f.deps) (hg : look d = some g) : Conn look p d := by
  induction hc with
  | refl p => exact Conn.step hf hd hg (Conn.refl d)
  | @step p d' q f' g' hf' hd' hg' _ ih => exact Conn.step hf' hd' hg' (ih hf)

theorem mark_congr {t t' : List Str} (h : ∀ p, p ∈ t ↔ p ∈ t') (g : File) : mark t g = mark t' g := by
  unfold mark
  have : t.contains g.path = t'.contains g.path := by
    cases h1 : t.contains g.path <;> cases h2 : t'.contains g.path <;> simp_all
  rw [this]

theorem mark_mark (t t' : List Str) (g : File) : mark t (mark t' g) = mark t g := rfl

theorem perm_of_canon {out1 out2 : List File} (canon : Str → File)
    (n1 : (paths out1).Nodup) (n2 : (paths out2).Nodup)
    (c1 : ∀ h ∈ out1, h = canon h.path) (c2 : ∀ h ∈ out2, h = canon h.path)
    (hp : ∀ q, q ∈ paths out1 ↔ q ∈ paths out2) : out1.Perm out2 := by
  rw [List.perm_ext_iff_of_nodup (nodup_of_nodup_paths n1) (nodup_of_nodup_paths n2)]
  intro h
  constructor
  · intro hh
    obtain ⟨h2, hh2, hpe⟩ := List.mem_map.mp ((hp h.path).mp (mem_paths_of_mem hh))
    have : h2 = h := by rw [c2 h2 hh2, c1 h hh, hpe]
    exact this ▸ hh2
  · intro hh
    obtain ⟨h1, hh1, hpe⟩ := List.mem_map.mp ((hp h.path).mpr (mem_paths_of_mem hh))
    have : h1 = h := by rw [c1 h1 hh1, c2 h hh, hpe]
    exact this ▸ hh1

/-! ### assembling the two sides -/

/-- Hypotheses of `targeting_equivalence` on the workspace and the selection. -/
structure SideConditions (ws : Workspace) (pths excl : List Str) : Prop where
  plain : Plain ws
  /-- a file path occurs once in the module set (duplicates are rejected by the module set) -/
  uniq : (paths (allFiles ws)).Nodup
  fkeys : ∀ f ∈ allFiles ws, IsKey f.path
  pkeys : ∀ p ∈ pths, IsKey p
  ekeys : ∀ e ∈ excl, IsKey e
  pnd : pths.Nodup
  end_ : excl.Nodup
  nodot : ∀ p ∈ pths, p ≠ dot
  /-- THE side condition of the property: no --path lies inside (or equals) an --exclude-path -/
  side : ∀ p ∈ pths, ∀ e ∈ excl, equalsOrContainsPath e p = false
  /-- source trees are prefix-free -/
  pfree : ∀ f ∈ allFiles ws, ∀ g ∈ allFiles ws,
    equalsOrContainsPath f.path g.path = true → f.path = g.path
  /-- no --path selects a file of an untargeted module ("all modules targeted" implies this) -/
  imp : ∀ m ∈ ws, m.isTarget = false → ∀ f ∈ m.files, mapHas pths f.path = false

section Assemble
variable {ws : Workspace} {pths excl : List Str} {img : Image}

/-- Facts about the fully built image. -/
structure FullFacts (ws : Workspace) (img : Image) : Prop where
  eq : img = buildOut ws
  res : depsResolvable ws img = true
  nodup : (paths img).Nodup
  src : ∀ h ∈ img, ∃ g, lookup ws g.path = some g ∧ h = mark (targetPathsOf ws) g
  reach : ∀ q, q ∈ paths img ↔
    ∃ r ∈ targetPathsOf ws, (lookup ws r).isSome = true ∧ Conn (lookup ws) r q

theorem fullFacts_of_build (hfull : build ws = .ok img) : FullFacts ws img := by
  rw [build_eq] at hfull
  by_cases h1 : (targetPathsOf ws).isEmpty = true
  · rw [if_pos h1] at hfull; cases hfull
  · rw [if_neg h1] at hfull
    by_cases h2 : depsResolvable ws (buildOut ws) = true
    · rw [if_pos h2] at hfull
      have : buildOut ws = img := by injection hfull
      subst this
      obtain ⟨a, b, c⟩ := buildOut_spec ws
      exact ⟨rfl, h2, a, b, c⟩
    · rw [if_neg h2] at hfull; cases hfull

theorem full_closed (ff : FullFacts ws img) {h : File} (hh : h ∈ img) {d : Str} (hd : d ∈ h.deps)
    (hsome : (lookup ws d).isSome = true) : d ∈ paths img := by
  obtain ⟨g, hg, he⟩ := ff.src h hh
  obtain ⟨r, hr, hrs, hc⟩ := (ff.reach h.path).mp (mem_paths_of_mem hh)
  obtain ⟨g', hg'⟩ := Option.isSome_iff_exists.mp hsome
  have hp : h.path = g.path := by rw [he]; rfl
  have hdeps : h.deps = g.deps := by rw [he]; rfl
  rw [hp] at hc
  exact (ff.reach d).mpr ⟨r, hr, hrs, conn_snoc hc hg (hdeps ▸ hd) hg'⟩

theorem full_B1 (ff : FullFacts ws img) {p : Str} {h : File} (hg : getFile img p = some h) :
    ∃ g, lookup ws p = some g ∧ h = mark (targetPathsOf ws) g := by
  obtain ⟨hi, hp⟩ := getFile_some hg
  obtain ⟨g, hlg, he⟩ := ff.src h hi
  have : g.path = p := by rw [← hp, he]; rfl
  exact ⟨g, this ▸ hlg, he⟩

theorem full_B2 (ff : FullFacts ws img) {p : Str} {g : File} (hl : lookup ws p = some g)
    (hp : p ∈ paths img) : getFile img p = some (mark (targetPathsOf ws) g) := by
  obtain ⟨h, hh, hhp⟩ := List.mem_map.mp hp
  obtain ⟨g', hlg', he⟩ := ff.src h hh
  have hgp : g'.path = p := by rw [← hhp, he]; rfl
  rw [hgp, hl] at hlg'
  have : g = g' := Option.some.inj hlg'
  have := getFile_of_mem_nodup ff.nodup hh
  rw [hhp] at this
  rw [this, he]
  congr 1
  exact (Option.some.inj hlg').symm ▸ rfl

theorem conn_img_to_ws (ff : FullFacts ws img) {p q : Str} (hc : Conn (getFile img) p q) :
    Conn (lookup ws) p q := by
  induction hc with
  | refl p => exact Conn.refl p
  | @step p d q f g hf hd hg _ ih =>
    obtain ⟨f', hf', he⟩ := full_B1 ff hf
    obtain ⟨g', hg', _⟩ := full_B1 ff hg
    have hdeps : f.deps = f'.deps := by rw [he]; rfl
    exact Conn.step hf' (hdeps ▸ hd) hg' ih

theorem conn_ws_to_img (ff : FullFacts ws img) {p q : Str} (hc : Conn (lookup ws) p q)
    (hp : p ∈ paths img) : Conn (getFile img) p q := by
  induction hc with
  | refl p => exact Conn.refl p
  | @step p d q f g hf hd hg _ ih =>
    have h1 := full_B2 ff hf hp
    have hmem : mark (targetPathsOf ws) f ∈ img := (getFile_some h1).1
    have hd' : d ∈ paths img := full_closed ff hmem hd (by simp [hg])
    have h2 := full_B2 ff hg hd'
    exact Conn.step h1 hd h2 (ih hd')

theorem mem_targetPathsOf {ws : Workspace} {p : Str} :
    p ∈ targetPathsOf ws ↔ ∃ g ∈ targetFiles ws, g.path = p := by
  unfold targetPathsOf
  rw [mem_sortStrs]; simp [paths]

theorem hyp_of_side (sc : SideConditions ws pths excl) (ff : FullFacts ws img) :
    Hyp img pths excl := by
  have hfile : ∀ h ∈ img, ∃ g ∈ allFiles ws, g.path = h.path ∧ h = mark (targetPathsOf ws) g := by
    intro h hh
    obtain ⟨g, hg, he⟩ := ff.src h hh
    exact ⟨g, (getFile_some hg).1, by rw [he]; rfl, he⟩
  refine ⟨ff.nodup, ?_, sc.pkeys, sc.ekeys, sc.pnd, sc.end_, sc.nodot, sc.side, ?_, ?_⟩
  · intro f hf
    obtain ⟨g, hg, hp, _⟩ := hfile f hf
    rw [← hp]; exact sc.fkeys g hg
  · intro f hf g hg hc
    obtain ⟨f', hf', hpf, _⟩ := hfile f hf
    obtain ⟨g', hg', hpg, _⟩ := hfile g hg
    rw [← hpf, ← hpg] at hc ⊢
    exact sc.pfree f' hf' g' hg' hc
  · intro f hf hi
    obtain ⟨g, hg, hp, he⟩ := hfile f hf
    obtain ⟨m, hm, hgm⟩ := mem_allFiles.mp hg
    rw [← hp]
    by_cases hmt : m.isTarget = true
    · exfalso
      have : g.path ∈ targetPathsOf ws :=
        mem_targetPathsOf.mpr ⟨g, (mem_targetFiles_plain sc.plain).mpr ⟨m, hm, hgm, hmt⟩, rfl⟩
      rw [he, mark_isImport] at hi
      simp [this] at hi
    · exact sc.imp m hm (by simpa using hmt) g hgm

theorem targeting_main (sc : SideConditions ws pths excl) (hfull : build ws = .ok img) :
    (∃ I M, filterImagePaths img pths excl = .ok I ∧
        build (withTargeting ws pths excl) = .ok M ∧ I.Perm M) ∨
    (filterImagePaths img pths excl = .error .noFiles ∧
        build (withTargeting ws pths excl) = .error .noTargets) := by
  have ff := fullFacts_of_build hfull
  by_cases hboth : pths = [] ∧ excl = []
  · left
    obtain ⟨rfl, rfl⟩ := hboth
    refine ⟨img, img, rfl, ?_, List.Perm.refl _⟩
    rw [withTargeting_nil_plain sc.plain]; exact hfull
  · have hne : pths ≠ [] ∨ excl ≠ [] := by
      by_cases h : pths = []
      · right; intro h'; exact hboth ⟨h, h'⟩
      · left; exact h
    have hfip : filterImagePaths img pths excl = imageWithOnlyPaths img pths excl true := by
      unfold filterImagePaths
      have : (pths.isEmpty && excl.isEmpty) = false := by
        rcases hne with h | h
        · cases pths with | nil => exact absurd rfl h | cons _ _ => rfl
        · cases excl with
          | nil => exact absurd rfl h
          | cons _ _ => simp
      rw [this]; rfl
    have hyp := hyp_of_side sc ff
    obtain ⟨ni, hiw, hnisub, hnimem⟩ := iwop_roots hyp hne
    rw [hfip, hiw]
    -- image-level walk
    let outI := (visitAll (getFile img) (paths ni) (img.length + 1) ni ([], [])).2
    have hdomI : ∀ p f, getFile img p = some f → p ∈ paths img := by
      intro p f h; exact getFile_isSome_iff.mp (by simp [h])
    have hsrcI : ∀ f ∈ ni, Src (getFile img) f :=
      fun f hf => getFile_of_mem_nodup ff.nodup (hnisub f hf)
    obtain ⟨nI, sI, rI⟩ := dfs_spec (t := paths ni) (look_ok_getFile img) (paths img) hdomI
      (img.length + 1) (by simp [paths]) ni hsrcI
    -- module-level walk
    let ws' := withTargeting ws pths excl
    have hlk : lookup ws' = lookup ws := lookup_withTargeting ws pths excl
    have haf : allFiles ws' = allFiles ws := allFiles_withTargeting ws pths excl
    obtain ⟨nM, sM, rM⟩ := buildOut_spec ws'
    -- the two root sets coincide
    have hroots : ∀ p, p ∈ targetPathsOf ws' ↔ p ∈ paths ni := by
      intro p
      rw [mem_targetPathsOf]
      constructor
      · rintro ⟨g, hg, rfl⟩
        obtain ⟨m, hm, hgm, hmt, hsel⟩ := mem_targetFiles_withTargeting.mp hg
        have hgt : g.path ∈ targetPathsOf ws :=
          mem_targetPathsOf.mpr ⟨g, (mem_targetFiles_plain sc.plain).mpr ⟨m, hm, hgm, hmt⟩, rfl⟩
        have hga : g ∈ allFiles ws := mem_allFiles.mpr ⟨m, hm, hgm⟩
        have hlg : lookup ws g.path = some g := getFile_of_mem_nodup sc.uniq hga
        have hpi : g.path ∈ paths img := (ff.reach g.path).mpr ⟨g.path, hgt, by simp [hlg], Conn.refl _⟩
        have hgi := full_B2 ff hlg hpi
        have hmem := (getFile_some hgi).1
        have : mark (targetPathsOf ws) g ∈ ni := by
          apply (hnimem _).mpr
          refine ⟨hmem, ?_, hsel⟩
          rw [mark_isImport]; simp [hgt]
        exact List.mem_map.mpr ⟨_, this, rfl⟩
      · intro hp
        obtain ⟨f, hf, rfl⟩ := List.mem_map.mp hp
        obtain ⟨hfi, himp, hsel⟩ := (hnimem f).mp hf
        obtain ⟨g, hlg, he⟩ := ff.src f hfi
        have hpe : f.path = g.path := by rw [he]; rfl
        have hga : g ∈ allFiles ws := (getFile_some hlg).1
        have hgt : g.path ∈ targetPathsOf ws := by
          rw [he, mark_isImport] at himp
          simpa using himp
        obtain ⟨g2, hg2, hg2p⟩ := mem_targetPathsOf.mp hgt
        obtain ⟨m, hm, hgm, hmt⟩ := (mem_targetFiles_plain sc.plain).mp hg2
        have hg2a : g2 ∈ allFiles ws := mem_allFiles.mpr ⟨m, hm, hgm⟩
        have : g2 = g := eq_of_mem_nodup_paths sc.uniq hg2a hga hg2p
        subst this
        exact ⟨g2, mem_targetFiles_withTargeting.mpr ⟨m, hm, hgm, hmt, hpe ▸ hsel⟩, hpe.symm⟩
    -- path sets of the two results coincide
    have hpaths : ∀ q, q ∈ paths outI ↔ q ∈ paths (buildOut ws') := by
      intro q
      rw [rI q, rM q, hlk]
      constructor
      · rintro ⟨f, hf, hc⟩
        have hfi := hnisub f hf
        obtain ⟨g, hlg, he⟩ := ff.src f hfi
        have hpe : f.path = g.path := by rw [he]; rfl
        exact ⟨f.path, (hroots f.path).mpr (mem_paths_of_mem hf), by rw [hpe]; simp [hlg],
          conn_img_to_ws ff hc⟩
      · rintro ⟨r, hr, _, hc⟩
        obtain ⟨f, hf, rfl⟩ := List.mem_map.mp ((hroots r).mp hr)
        exact ⟨f, hf, conn_ws_to_img ff hc (mem_paths_of_mem (hnisub f hf))⟩
    have hres : ∀ f ∈ img, ∀ d ∈ f.deps, (lookup ws d).isSome = true := by
      have := ff.res
      unfold depsResolvable at this
      intro f hf d hd
      exact List.all_eq_true.mp (List.all_eq_true.mp this f hf) d hd
    cases hni : ni with
    | nil =>
      right
      have ht : targetPathsOf ws' = [] := by
        apply List.eq_nil_iff_forall_not_mem.mpr
        intro p hp
        have := (hroots p).mp hp
        rw [hni] at this; cases this
      refine ⟨rfl, ?_⟩
      rw [build_eq, ht]; rfl
    | cons f0 rest =>
      left
      rw [← hni]
      have hf0 : f0 ∈ ni := by rw [hni]; simp
      have hf0I : f0.path ∈ paths outI := (rI f0.path).mpr ⟨f0, hf0, Conn.refl _⟩
      have hneI : outI ≠ [] := by
        intro h; rw [h] at hf0I; cases hf0I
      have htne : (targetPathsOf ws').isEmpty = false := by
        have := (hroots f0.path).mpr (mem_paths_of_mem hf0)
        cases h : targetPathsOf ws' with
        | nil => rw [h] at this; cases this
        | cons _ _ => rfl
      -- every file of the module-level result has a twin in the image-level result
      have htwin : ∀ h ∈ buildOut ws', ∃ g, lookup ws g.path = some g ∧ h = mark (targetPathsOf ws') g ∧
          mark (targetPathsOf ws) g ∈ img := by
        intro h hh
        obtain ⟨g, hlg, he⟩ := sM h hh
        rw [hlk] at hlg
        refine ⟨g, hlg, he, ?_⟩
        have hpI : h.path ∈ paths outI := (hpaths h.path).mpr (mem_paths_of_mem hh)
        obtain ⟨hI, hhI, hIp⟩ := List.mem_map.mp hpI
        obtain ⟨g1, hg1, he1⟩ := sI hI hhI
        have hg1i : g1.path ∈ paths img := mem_paths_of_mem (getFile_some hg1).1
        have hpp : g1.path = g.path := by
          have h1 : hI.path = g1.path := by rw [he1]; rfl
          have h2 : h.path = g.path := by rw [he]; rfl
          rw [← h1, hIp, h2]
        rw [hpp] at hg1i
        exact (getFile_some (full_B2 ff hlg hg1i)).1
      have hresM : depsResolvable ws' (buildOut ws') = true := by
        unfold depsResolvable
        apply List.all_eq_true.mpr
        intro h hh
        apply List.all_eq_true.mpr
        intro d hd
        obtain ⟨g, _, he, hmem⟩ := htwin h hh
        rw [hlk]
        have hdeps : h.deps = (mark (targetPathsOf ws) g).deps := by rw [he]; rfl
        exact hres _ hmem d (hdeps ▸ hd)
      have hI : getImageWithImports img ni = .ok outI := newImage_ok hneI nI
      have hM : build ws' = .ok (buildOut ws') := by
        rw [build_eq, htne, hresM]; rfl
      refine ⟨outI, buildOut ws', hI, hM, ?_⟩
      let canon : Str → File := fun q =>
        match lookup ws q with
        | some g => mark (targetPathsOf ws') g
        | none => ⟨[], false, [], {}⟩
      apply perm_of_canon canon nI nM ?_ ?_ hpaths
      · intro h hh
        obtain ⟨g1, hg1, he1⟩ := sI h hh
        obtain ⟨g', hlg', heg⟩ := full_B1 ff hg1
        have hp : h.path = g1.path := by rw [he1]; rfl
        show h = canon h.path
        simp only [canon]
        rw [hp, hlg', he1, heg, mark_mark]
        exact mark_congr (fun p => (hroots p).symm) g'
      · intro h hh
        obtain ⟨g, hlg, he⟩ := sM h hh
        rw [hlk] at hlg
        have hp : h.path = g.path := by rw [he]; rfl
        show h = canon h.path
        simp only [canon]
        rw [hp, hlg, he]

end Assemble

end BufProofs.ImagePathsLemmas
