import BufProofs.Lemmas.BreakingHierarchy
/-
  "Only adds" on the flattened view of two schemas, well-formedness (unique keys), and the proof
  that every modelled rule is silent on such a pair.  Props/C04.lean derives `self_clean` and
  `additive_clean` from `runRule_nil`; BreakingAdditive.lean connects the inductively defined
  tree-level relation `⊑ₐ` to this flattened view.
-/
namespace BufProofs.Breaking
open BufModel.Schema BufModel.Breaking

/-! ### well-formedness: the uniqueness facts a compiled image guarantees
    (the Go lookup-map builders return an error otherwise) -/

structure WF (s : Schema) : Prop where
  files : (s.map File.path).Nodup
  msgs : ((allMsgs s).map FlatMsg.fullName).Nodup
  enums : ((allEnums s).map FlatEnum.fullName).Nodup
  svcs : ((allSvcs s).map FlatSvc.fullName).Nodup
  exts : ((extFields s).map fun x => (x.field.extendee, x.field.number)).Nodup
  fields : ∀ m ∈ allMsgs s, (m.info.fields.map (·.number)).Nodup
  methods : ∀ sv ∈ allSvcs s, (sv.svc.methods.map (·.name)).Nodup

/-! ### the flattened "only adds" relation (`e'`/`i'`/`cf` is the NEWER side) -/

structure EnumExt (e e' : Enum) : Prop where
  closed : e'.closed = e.closed
  json : e'.jsonAllow = e.jsonAllow
  /-- nothing deleted -/
  values : ∀ v ∈ e.values, v ∈ e'.values
  rranges : ∀ r ∈ e.reservedRanges, r ∈ e'.reservedRanges
  rnames : ∀ n ∈ e.reservedNames, n ∈ e'.reservedNames

structure InfoExt (i i' : MsgInfo) : Prop where
  name : i'.name = i.name
  /-- nested enums are kept and only extended -/
  enums : ∀ e ∈ i.enums, ∃ e' ∈ i'.enums, e'.name = e.name ∧ EnumExt e e'
  /-- nested extensions are kept unchanged -/
  exts : ∀ x ∈ i.extensions, x ∈ i'.extensions
  noStd : i'.noStdAccessor = i.noStdAccessor
  json : i'.jsonAllow = i.jsonAllow
  /-- existing fields are unchanged -/
  fields : ∀ f ∈ i.fields, f ∈ i'.fields
  /-- new fields are not required and have fresh numbers -/
  fresh : ∀ f' ∈ i'.fields, f' ∈ i.fields ∨ (f'.label ≠ .required ∧ ∀ f ∈ i.fields, f.number ≠ f'.number)
  oneofs : ∀ o ∈ i.oneofs, o.name ∈ i'.oneofs.map (·.name)
  rranges : ∀ r ∈ i.reservedRanges, r ∈ i'.reservedRanges
  rnames : ∀ n ∈ i.reservedNames, n ∈ i'.reservedNames
  extRanges : ∀ r ∈ i.extRanges, r ∈ i'.extRanges

structure SvcExt (s s' : Service) : Prop where
  name : s'.name = s.name
  methods : ∀ m ∈ s.methods, m ∈ s'.methods

structure FileFlatExt (pf cf : File) : Prop where
  path : cf.path = pf.path
  pkg : cf.pkg = pf.pkg
  syn : cf.syn = pf.syn
  opts : cf.opts = pf.opts
  msgs : ∀ pm ∈ pf.flatMsgs, ∃ cm ∈ cf.flatMsgs, cm.nested = pm.nested ∧ InfoExt pm.info cm.info
  enums : ∀ pe ∈ pf.flatEnums, ∃ ce ∈ cf.flatEnums, ce.nested = pe.nested ∧ EnumExt pe.enum ce.enum
  exts : ∀ pe ∈ pf.flatExts, ∃ ce ∈ cf.flatExts, ce.nested = pe.nested ∧ ce.field = pe.field
  svcs : ∀ ps ∈ pf.services, ∃ cs ∈ cf.services, SvcExt ps cs

def SchemaFlatExt (prev cur : Schema) : Prop := ∀ pf ∈ prev, ∃ cf ∈ cur, FileFlatExt pf cf

/-! ### consequences on the schema-wide flattened lists -/

variable {prev cur : Schema}

theorem ext_msgs (h : SchemaFlatExt prev cur) :
    ∀ pm ∈ allMsgs prev, ∃ cm ∈ allMsgs cur, cm.pkg = pm.pkg ∧ cm.nested = pm.nested ∧ InfoExt pm.info cm.info := by
  intro pm hpm
  obtain ⟨pf, hpf, hin⟩ := List.mem_flatMap.1 hpm
  obtain ⟨cf, hcf, hx⟩ := h pf hpf
  obtain ⟨cm, hcm, hn, hi⟩ := hx.msgs pm hin
  refine ⟨cm, List.mem_flatMap.2 ⟨cf, hcf, hcm⟩, ?_, hn, hi⟩
  rw [(mem_flatMsgs_ctx hcm).2.1, (mem_flatMsgs_ctx hin).2.1, hx.pkg]

theorem ext_enums (h : SchemaFlatExt prev cur) :
    ∀ pe ∈ allEnums prev, ∃ ce ∈ allEnums cur, ce.pkg = pe.pkg ∧ ce.nested = pe.nested ∧ EnumExt pe.enum ce.enum := by
  intro pe hpe
  obtain ⟨pf, hpf, hin⟩ := List.mem_flatMap.1 hpe
  obtain ⟨cf, hcf, hx⟩ := h pf hpf
  obtain ⟨ce, hce, hn, hi⟩ := hx.enums pe hin
  refine ⟨ce, List.mem_flatMap.2 ⟨cf, hcf, hce⟩, ?_, hn, hi⟩
  rw [(mem_flatEnums_ctx hce).2, (mem_flatEnums_ctx hin).2, hx.pkg]

theorem ext_exts (h : SchemaFlatExt prev cur) :
    ∀ pe ∈ allExts prev, ∃ ce ∈ allExts cur, ce.pkg = pe.pkg ∧ ce.nested = pe.nested ∧ ce.field = pe.field := by
  intro pe hpe
  obtain ⟨pf, hpf, hin⟩ := List.mem_flatMap.1 hpe
  obtain ⟨cf, hcf, hx⟩ := h pf hpf
  obtain ⟨ce, hce, hn, hi⟩ := hx.exts pe hin
  refine ⟨ce, List.mem_flatMap.2 ⟨cf, hcf, hce⟩, ?_, hn, hi⟩
  rw [(mem_flatExts_ctx hce).2, (mem_flatExts_ctx hin).2, hx.pkg]

theorem mem_flatSvcs_iff {f : File} {s : FlatSvc} (h : s ∈ f.flatSvcs) : s.svc ∈ f.services := by
  unfold File.flatSvcs at h
  obtain ⟨p, hp, rfl⟩ := List.mem_map.1 h
  exact mem_indexed_snd hp

theorem flatSvc_of_mem {f : File} {sv : Service} (h : sv ∈ f.services) :
    ∃ s ∈ f.flatSvcs, s.svc = sv := by
  obtain ⟨i, hi⟩ := exists_indexed_of_mem h
  exact ⟨⟨f.path, f.locs, f.pkg, [6, i], sv⟩, List.mem_map.2 ⟨(i, sv), hi, rfl⟩, rfl⟩

theorem ext_svcs (h : SchemaFlatExt prev cur) :
    ∀ ps ∈ allSvcs prev, ∃ cs ∈ allSvcs cur, cs.pkg = ps.pkg ∧ SvcExt ps.svc cs.svc := by
  intro ps hps
  obtain ⟨pf, hpf, hin⟩ := List.mem_flatMap.1 hps
  obtain ⟨cf, hcf, hx⟩ := h pf hpf
  obtain ⟨csv, hcsv, hext⟩ := hx.svcs ps.svc (mem_flatSvcs_iff hin)
  obtain ⟨cs, hcs, rfl⟩ := flatSvc_of_mem hcsv
  refine ⟨cs, List.mem_flatMap.2 ⟨cf, hcf, hcs⟩, ?_, hext⟩
  rw [(mem_flatSvcs_ctx hcs).2, (mem_flatSvcs_ctx hin).2, hx.pkg]

/-! ### generic silence lemmas for the pair handlers -/

theorem pairwise_found_nil {α κ : Type} [DecidableEq κ] (key : α → κ) (cur prev : List α)
    (onMissing : α → List Ann) (h : ∀ p ∈ prev, ∃ c ∈ cur, key c = key p) :
    pairwise key cur prev onMissing (fun _ _ => []) = [] := by
  rw [pairwise_eq_nil_iff]
  intro p hp
  obtain ⟨c, hf, _, _⟩ := find_key_some key cur (key p) (h p hp)
  rw [hf]

theorem filePairs_nil (hw : WF cur) (h : SchemaFlatExt prev cur) (f : File → File → List Ann)
    (hf : ∀ pf cf, FileFlatExt pf cf → f cf pf = []) : filePairs cur prev f = [] := by
  unfold filePairs
  apply pairwise_ext_nil File.path cur prev _ _ hw.files
  intro pf hpf
  obtain ⟨cf, hcf, hx⟩ := h pf hpf
  exact ⟨cf, hcf, hx.path, hf pf cf hx⟩

theorem msgPairs_nil (hw : WF cur) (h : SchemaFlatExt prev cur) (f : FlatMsg → FlatMsg → List Ann)
    (hf : ∀ c p, c ∈ allMsgs cur → InfoExt p.info c.info → f c p = []) : msgPairs cur prev f = [] := by
  unfold msgPairs
  apply pairwise_ext_nil FlatMsg.fullName _ _ _ _ hw.msgs
  intro pm hpm
  obtain ⟨cm, hcm, hp, hn, hi⟩ := ext_msgs h pm hpm
  exact ⟨cm, hcm, by unfold FlatMsg.fullName; rw [hp, hn], hf cm pm hcm hi⟩

theorem enumPairs_nil (hw : WF cur) (h : SchemaFlatExt prev cur) (f : FlatEnum → FlatEnum → List Ann)
    (hf : ∀ c p, EnumExt p.enum c.enum → f c p = []) : enumPairs cur prev f = [] := by
  unfold enumPairs
  apply pairwise_ext_nil FlatEnum.fullName _ _ _ _ hw.enums
  intro pe hpe
  obtain ⟨ce, hce, hp, hn, hi⟩ := ext_enums h pe hpe
  exact ⟨ce, hce, by unfold FlatEnum.fullName; rw [hp, hn], hf ce pe hi⟩

theorem svcPairs_nil (hw : WF cur) (h : SchemaFlatExt prev cur) (f : FlatSvc → FlatSvc → List Ann)
    (hf : ∀ c p, c ∈ allSvcs cur → SvcExt p.svc c.svc → f c p = []) : svcPairs cur prev f = [] := by
  unfold svcPairs
  apply pairwise_ext_nil FlatSvc.fullName _ _ _ _ hw.svcs
  intro ps hps
  obtain ⟨cs, hcs, hp, hi⟩ := ext_svcs h ps hps
  exact ⟨cs, hcs, by unfold FlatSvc.fullName; rw [hp, hi.name], hf cs ps hcs hi⟩

theorem msgFields_numbers (m : FlatMsg) :
    (msgFields m).map (fun x => x.field.number) = m.info.fields.map (·.number) := by
  unfold msgFields
  rw [List.map_map]
  have : ((fun x : FlatField => x.field.number) ∘ fun p : Nat × Field =>
      (⟨m.file, m.locs, m.path ++ [2, p.1], m.mapLoc, p.2⟩ : FlatField)) = (fun f : Field => f.number) ∘ (·.2) := rfl
  rw [this, ← List.map_map, indexed_map_snd]

theorem svcMethods_names (s : FlatSvc) :
    (svcMethods s).map (fun x => x.m.name) = s.svc.methods.map (·.name) := by
  unfold svcMethods
  rw [List.map_map]
  have : ((fun x : FlatMethod => x.m.name) ∘ fun p : Nat × Method =>
      (⟨s.file, s.locs, s.path ++ [2, p.1], p.2⟩ : FlatMethod)) = (fun f : Method => f.name) ∘ (·.2) := rfl
  rw [this, ← List.map_map, indexed_map_snd]

/-- a field rule that is silent on a pair of IDENTICAL field descriptors is silent on an additive pair -/
theorem fieldPairs_nil (hw : WF cur) (h : SchemaFlatExt prev cur) (f : FlatField → FlatField → List Ann)
    (hf : ∀ c p : FlatField, c.field = p.field → f c p = []) : fieldPairs cur prev f = [] := by
  unfold fieldPairs
  apply List.append_eq_nil_iff.2
  constructor
  · apply msgPairs_nil hw h
    intro cm pm hcm hi
    apply pairwise_ext_nil (fun x : FlatField => x.field.number)
    · rw [msgFields_numbers]; exact hw.fields cm hcm
    · intro pf hpf
      unfold msgFields at hpf
      obtain ⟨ip, hip, rfl⟩ := List.mem_map.1 hpf
      have hmem : ip.2 ∈ cm.info.fields := hi.fields _ (mem_indexed_snd hip)
      obtain ⟨j, hj⟩ := exists_indexed_of_mem hmem
      refine ⟨⟨cm.file, cm.locs, cm.path ++ [2, j], cm.mapLoc, ip.2⟩, ?_, rfl, hf _ _ rfl⟩
      unfold msgFields
      exact List.mem_map.2 ⟨(j, ip.2), hj, rfl⟩
  · apply pairwise_ext_nil _ _ _ _ _ hw.exts
    intro pe hpe
    unfold extFields at hpe
    obtain ⟨e, he, rfl⟩ := List.mem_map.1 hpe
    obtain ⟨ce, hce, _, _, hfld⟩ := ext_exts h e he
    refine ⟨⟨ce.file, ce.locs, ce.path, none, ce.field⟩, ?_, ?_, hf _ _ hfld⟩
    · unfold extFields
      exact List.mem_map.2 ⟨ce, hce, rfl⟩
    · simp [hfld]

theorem methodPairs_nil (hw : WF cur) (h : SchemaFlatExt prev cur) (f : FlatMethod → FlatMethod → List Ann)
    (hf : ∀ c p : FlatMethod, c.m = p.m → f c p = []) : methodPairs cur prev f = [] := by
  unfold methodPairs
  apply svcPairs_nil hw h
  intro cs ps hcs hi
  apply pairwise_ext_nil (fun x : FlatMethod => x.m.name)
  · rw [svcMethods_names]; exact hw.methods cs hcs
  · intro pm hpm
    unfold svcMethods at hpm
    obtain ⟨ip, hip, rfl⟩ := List.mem_map.1 hpm
    have hmem : ip.2 ∈ cs.svc.methods := hi.methods _ (mem_indexed_snd hip)
    obtain ⟨j, hj⟩ := exists_indexed_of_mem hmem
    refine ⟨⟨cs.file, cs.locs, cs.path ++ [2, j], ip.2⟩, ?_, rfl, hf _ _ rfl⟩
    unfold svcMethods
    exact List.mem_map.2 ⟨(j, ip.2), hj, rfl⟩

theorem flatMap_nil {α : Type} (xs : List α) (g : α → List Ann) (h : ∀ x ∈ xs, g x = []) :
    xs.flatMap g = [] := List.flatMap_eq_nil_iff.2 h

/-! ### every rule is silent -/

theorem hasNumber_of_mem {e : Enum} {v : EnumValue} (hv : v ∈ e.values) : e.hasNumber v.number = true := by
  unfold Enum.hasNumber
  exact List.any_eq_true.2 ⟨v, hv, by simp⟩

theorem msgHasNumber_of_mem {i : MsgInfo} {f : Field} (hf : f ∈ i.fields) : i.hasNumber f.number = true := by
  unfold MsgInfo.hasNumber
  exact List.any_eq_true.2 ⟨f, hf, by simp⟩

theorem defaultsEqual_refl (d : DefVal) : defaultsEqual d d = true := by
  cases d with
  | str s => simp [defaultsEqual]
  | num r z => simp [defaultsEqual, DefVal.nan, DefVal.rat]
  | f32 r z n => cases n <;> simp [defaultsEqual, DefVal.nan, DefVal.rat]
  | f64 r a z n => cases n <;> simp [defaultsEqual, DefVal.nan, DefVal.rat]

set_option linter.unusedSectionVars false

section rules
variable (hw : WF cur) (h : SchemaFlatExt prev cur)
include hw h

theorem enumNoDelete_nil : ruleEnumNoDelete cur prev = [] := by
  unfold ruleEnumNoDelete
  apply filePairs_nil hw h
  intro pf cf hx
  apply pairwise_found_nil
  intro pe hpe
  obtain ⟨ce, hce, hn, _⟩ := hx.enums pe hpe
  exact ⟨ce, hce, hn⟩

theorem extensionNoDelete_nil : ruleExtensionNoDelete cur prev = [] := by
  unfold ruleExtensionNoDelete
  apply filePairs_nil hw h
  intro pf cf hx
  apply pairwise_found_nil
  intro pe hpe
  obtain ⟨ce, hce, hn, _⟩ := hx.exts pe hpe
  exact ⟨ce, hce, hn⟩

theorem messageNoDelete_nil : ruleMessageNoDelete cur prev = [] := by
  unfold ruleMessageNoDelete
  apply filePairs_nil hw h
  intro pf cf hx
  apply pairwise_found_nil
  intro pm hpm
  obtain ⟨cm, hcm, hn, _⟩ := hx.msgs pm hpm
  exact ⟨cm, hcm, hn⟩

theorem serviceNoDelete_nil : ruleServiceNoDelete cur prev = [] := by
  unfold ruleServiceNoDelete
  apply filePairs_nil hw h
  intro pf cf hx
  apply pairwise_found_nil
  intro ps hps
  obtain ⟨csv, hcsv, hext⟩ := hx.svcs ps.svc (mem_flatSvcs_iff hps)
  obtain ⟨cs, hcs, rfl⟩ := flatSvc_of_mem hcsv
  exact ⟨cs, hcs, hext.name⟩

theorem fileNoDelete_nil : ruleFileNoDelete cur prev = [] := by
  unfold ruleFileNoDelete
  apply pairwise_found_nil
  intro pf hpf
  obtain ⟨cf, hcf, hx⟩ := h pf hpf
  exact ⟨cf, hcf, hx.path⟩

theorem fileSame_nil {β : Type} [DecidableEq β] (rule : String) (get : File → β) (lp : SPath)
    (hget : ∀ pf cf, FileFlatExt pf cf → get pf = get cf) : fileSame rule get lp cur prev = [] := by
  unfold fileSame
  apply filePairs_nil hw h
  intro pf cf hx
  simp [hget pf cf hx]

theorem packageEnum_nil : rulePackageEnumNoDelete cur prev = [] := by
  unfold rulePackageEnumNoDelete
  apply flatMap_nil
  intro pe hpe
  obtain ⟨ce, hce, hp, hn, _⟩ := ext_enums h pe hpe
  obtain ⟨c, hf, _, _⟩ := find_key_some (fun ce : FlatEnum => (ce.pkg, ce.nested)) (allEnums cur)
    (pe.pkg, pe.nested) ⟨ce, hce, by rw [hp, hn]⟩
  have : (allEnums cur).find? (fun ce => decide (ce.pkg = pe.pkg ∧ ce.nested = pe.nested)) = some c := by
    rw [← hf]; congr 1; funext x; simp [Prod.ext_iff]
  rw [this]; simp

theorem packageExtension_nil : rulePackageExtensionNoDelete cur prev = [] := by
  unfold rulePackageExtensionNoDelete
  apply flatMap_nil
  intro pe hpe
  obtain ⟨ce, hce, hp, hn, _⟩ := ext_exts h pe hpe
  obtain ⟨c, hf, _, _⟩ := find_key_some (fun ce : FlatExt => (ce.pkg, ce.nested)) (allExts cur)
    (pe.pkg, pe.nested) ⟨ce, hce, by rw [hp, hn]⟩
  have : (allExts cur).find? (fun ce => decide (ce.pkg = pe.pkg ∧ ce.nested = pe.nested)) = some c := by
    rw [← hf]; congr 1; funext x; simp [Prod.ext_iff]
  rw [this]; simp

theorem packageMessage_nil : rulePackageMessageNoDelete cur prev = [] := by
  unfold rulePackageMessageNoDelete
  apply flatMap_nil
  intro pm hpm
  obtain ⟨cm, hcm, hp, hn, _⟩ := ext_msgs h pm hpm
  have hin : cm ∈ (allMsgs cur).filter (fun x => decide (x.pkg = pm.pkg)) :=
    List.mem_filter.2 ⟨hcm, by simp [hp]⟩
  obtain ⟨c, hf, _, _⟩ := find_key_some FlatMsg.nested _ pm.nested ⟨cm, hin, hn⟩
  simp only
  rw [hf]; simp

theorem packageService_nil : rulePackageServiceNoDelete cur prev = [] := by
  unfold rulePackageServiceNoDelete
  apply flatMap_nil
  intro ps hps
  obtain ⟨cs, hcs, hp, hi⟩ := ext_svcs h ps hps
  obtain ⟨c, hf, _, _⟩ := find_key_some (fun cs : FlatSvc => (cs.pkg, cs.svc.name)) (allSvcs cur)
    (ps.pkg, ps.svc.name) ⟨cs, hcs, by rw [hp, hi.name]⟩
  have : (allSvcs cur).find? (fun cs => decide (cs.pkg = ps.pkg ∧ cs.svc.name = ps.svc.name)) = some c := by
    rw [← hf]; congr 1; funext x; simp [Prod.ext_iff]
  rw [this]; simp

theorem package_nil : rulePackageNoDelete cur prev = [] := by
  unfold rulePackageNoDelete
  apply flatMap_nil
  intro pf hpf
  obtain ⟨cf, hcf, hx⟩ := h pf hpf
  have : pf.pkg ∈ cur.map File.pkg := hx.pkg ▸ List.mem_map_of_mem hcf
  simp [this]

theorem enumSameType_nil : ruleEnumSameType cur prev = [] := by
  unfold ruleEnumSameType
  apply enumPairs_nil hw h
  intro c p hx
  simp [hx.closed]

theorem enumSameJson_nil : ruleEnumSameJsonFormat cur prev = [] := by
  unfold ruleEnumSameJsonFormat
  apply enumPairs_nil hw h
  intro c p hx
  simp [hx.json]

theorem enumValueNoDelete_nil (r : String) (a b : Bool) : enumValueNoDelete r a b cur prev = [] := by
  unfold enumValueNoDelete
  apply enumPairs_nil hw h
  intro c p hx
  apply flatMap_nil
  intro pv hpv
  simp [hasNumber_of_mem (hx.values pv hpv)]

theorem enumValueSameName_nil : ruleEnumValueSameName cur prev = [] := by
  unfold ruleEnumValueSameName
  apply enumPairs_nil hw h
  intro c p hx
  apply flatMap_nil
  intro pv hpv
  have : ((p.enum.values.filter fun w => decide (w.number = pv.number)).map (·.name)).all
      (fun n => decide (n ∈ (c.enum.values.filter fun w => decide (w.number = pv.number)).map (·.name))) = true := by
    apply List.all_eq_true.2
    intro n hn
    obtain ⟨w, hw', rfl⟩ := List.mem_map.1 hn
    obtain ⟨hwp, hwn⟩ := List.mem_filter.1 hw'
    simp only [decide_eq_true_eq]
    exact List.mem_map.2 ⟨w, List.mem_filter.2 ⟨hx.values w hwp, hwn⟩, rfl⟩
  simp only [this, if_true]

theorem reservedEnum_nil : ruleReservedEnumNoDelete cur prev = [] := by
  unfold ruleReservedEnumNoDelete
  apply enumPairs_nil hw h
  intro c p hx
  apply List.append_eq_nil_iff.2
  constructor
  · apply flatMap_nil
    intro r hr
    simp [rangeMissing_of_mem _ r (hx.rranges r hr)]
  · apply flatMap_nil
    intro n hn
    simp [hx.rnames n hn]

theorem fieldNoDelete_nil (r : String) (a b : Bool) : fieldNoDelete r a b cur prev = [] := by
  unfold fieldNoDelete
  apply msgPairs_nil hw h
  intro c p _ hx
  apply flatMap_nil
  intro pf hpf
  simp [msgHasNumber_of_mem (hx.fields pf hpf)]

theorem extensionMessage_nil : ruleExtensionMessageNoDelete cur prev = [] := by
  unfold ruleExtensionMessageNoDelete
  apply msgPairs_nil hw h
  intro c p _ hx
  apply flatMap_nil
  intro r hr
  simp [rangeMissing_of_mem _ r (hx.extRanges r hr)]

theorem noStd_nil : ruleMessageNoRemoveStdAccessor cur prev = [] := by
  unfold ruleMessageNoRemoveStdAccessor
  apply msgPairs_nil hw h
  intro c p _ hx
  rw [hx.noStd]
  cases p.info.noStdAccessor <;> simp

theorem oneof_nil : ruleOneofNoDelete cur prev = [] := by
  unfold ruleOneofNoDelete
  apply msgPairs_nil hw h
  intro c p _ hx
  apply flatMap_nil
  intro po hpo
  simp [hx.oneofs po hpo]

theorem msgJson_nil : ruleMessageSameJsonFormat cur prev = [] := by
  unfold ruleMessageSameJsonFormat
  apply msgPairs_nil hw h
  intro c p _ hx
  simp [hx.json]

theorem required_nil : ruleMessageSameRequiredFields cur prev = [] := by
  unfold ruleMessageSameRequiredFields
  apply msgPairs_nil hw h
  intro c p _ hx
  apply List.append_eq_nil_iff.2
  constructor
  · apply flatMap_nil
    intro n hn
    have : n ∈ c.info.requiredNumbers := by
      unfold MsgInfo.requiredNumbers at hn ⊢
      obtain ⟨f, hf, rfl⟩ := List.mem_map.1 hn
      obtain ⟨hf1, hf2⟩ := List.mem_filter.1 hf
      exact List.mem_map.2 ⟨f, List.mem_filter.2 ⟨hx.fields f hf1, hf2⟩, rfl⟩
    simp [this]
  · apply flatMap_nil
    intro jf hjf
    have hmem := mem_indexed_snd hjf
    rcases hx.fresh jf.2 hmem with hold | ⟨hnr, _⟩
    · by_cases hreq : jf.2.label = .required
      · have : jf.2.number ∈ p.info.requiredNumbers := by
          unfold MsgInfo.requiredNumbers
          exact List.mem_map.2 ⟨jf.2, List.mem_filter.2 ⟨hold, by simp [hreq]⟩, rfl⟩
        simp [this]
      · simp [hreq]
    · simp [hnr]

theorem reservedMessage_nil : ruleReservedMessageNoDelete cur prev = [] := by
  unfold ruleReservedMessageNoDelete
  apply msgPairs_nil hw h
  intro c p _ hx
  apply List.append_eq_nil_iff.2
  constructor
  · apply flatMap_nil
    intro r hr
    simp [rangeMissing_of_mem _ r (hx.rranges r hr)]
  · apply flatMap_nil
    intro n hn
    simp [hx.rnames n hn]

theorem card_nil (r : String) (g : Card → Nat) : cardRule r g cur prev = [] := by
  unfold cardRule
  apply fieldPairs_nil hw h
  intro c p he
  simp [he]

theorem sameType_nil : ruleFieldSameType cur prev = [] := by
  unfold ruleFieldSameType
  apply fieldPairs_nil hw h
  intro c p he
  simp [he]

theorem wireType_nil : ruleFieldWireCompatibleType cur prev = [] := by
  unfold ruleFieldWireCompatibleType
  apply fieldPairs_nil hw h
  intro c p he
  simp [he]

theorem wireJsonType_nil : ruleFieldWireJsonCompatibleType cur prev = [] := by
  unfold ruleFieldWireJsonCompatibleType
  apply fieldPairs_nil hw h
  intro c p he
  simp [he]

theorem jstype_nil : ruleFieldSameJstype cur prev = [] := by
  unfold ruleFieldSameJstype
  apply fieldPairs_nil hw h
  intro c p he
  simp [he]

theorem utf8_nil : ruleFieldSameUtf8Validation cur prev = [] := by
  unfold ruleFieldSameUtf8Validation
  apply fieldPairs_nil hw h
  intro c p he
  simp [he]

theorem jsonName_nil : ruleFieldSameJsonName cur prev = [] := by
  unfold ruleFieldSameJsonName
  apply fieldPairs_nil hw h
  intro c p he
  simp [he]

theorem name_nil : ruleFieldSameName cur prev = [] := by
  unfold ruleFieldSameName
  apply fieldPairs_nil hw h
  intro c p he
  simp [he]

theorem default_nil : ruleFieldSameDefault cur prev = [] := by
  unfold ruleFieldSameDefault
  apply fieldPairs_nil hw h
  intro c p he
  simp [he, defaultsEqual_refl]

theorem sameOneof_nil : ruleFieldSameOneof cur prev = [] := by
  unfold ruleFieldSameOneof
  apply fieldPairs_nil hw h
  intro c p he
  rw [he]
  by_cases hx : p.field.extendee ≠ ""
  · simp [hx]
  · simp only [hx, if_false]
    cases p.field.realOneof <;> simp

theorem rpcNoDelete_nil : ruleRpcNoDelete cur prev = [] := by
  unfold ruleRpcNoDelete
  apply svcPairs_nil hw h
  intro c p _ hx
  apply flatMap_nil
  intro pm hpm
  have : pm.name ∈ c.svc.methods.map (·.name) := List.mem_map_of_mem (hx.methods pm hpm)
  simp [this]

theorem methodSame_nil {β : Type} [DecidableEq β] (r : String) (get : Method → β) (sub : List Nat) :
    methodSame r get sub cur prev = [] := by
  unfold methodSame
  apply methodPairs_nil hw h
  intro c p he
  simp [he]

theorem fileOpt_nil (r : String) (n : Nat) : ruleFileSameOption r n cur prev = [] := by
  unfold ruleFileSameOption
  apply fileSame_nil hw h
  intro pf cf hx
  unfold File.opt
  rw [hx.opts]

theorem syntax_nil : ruleFileSameSyntax cur prev = [] := by
  unfold ruleFileSameSyntax
  apply fileSame_nil hw h
  intro pf cf hx
  rw [hx.syn]

theorem filePackage_nil : ruleFileSamePackage cur prev = [] := by
  unfold ruleFileSamePackage
  apply fileSame_nil hw h
  intro pf cf hx
  rw [hx.pkg]

omit hw h in
theorem lookup_some_mem {β : Type} : ∀ (l : List (String × β)) (k : String) (v : β),
    l.lookup k = some v → (k, v) ∈ l
  | [], _, _, hl => by simp [List.lookup] at hl
  | (k', v') :: l, k, v, hl => by
    rw [List.lookup_cons] at hl
    by_cases hk : k = k'
    · subst hk; simp at hl; subst hl; exact List.mem_cons_self
    · have : (k == k') = false := by simpa using hk
      rw [this] at hl
      exact List.mem_cons_of_mem _ (lookup_some_mem l k v hl)

/-- every handler of the rule table is silent -/
theorem ruleTable_nil : ∀ p ∈ ruleTable, p.2 cur prev = [] := by
  intro p hp
  simp only [ruleTable, List.mem_cons, List.not_mem_nil, or_false] at hp
  rcases hp with rfl | rfl | rfl | rfl | rfl | rfl | rfl | rfl | rfl | rfl | rfl | rfl | rfl | rfl | rfl | rfl | rfl | rfl | rfl | rfl | rfl | rfl | rfl | rfl | rfl | rfl | rfl | rfl | rfl | rfl | rfl | rfl | rfl | rfl | rfl | rfl | rfl | rfl | rfl | rfl | rfl | rfl | rfl | rfl | rfl | rfl
  · exact enumNoDelete_nil hw h
  · exact extensionNoDelete_nil hw h
  · exact fileNoDelete_nil hw h
  · exact messageNoDelete_nil hw h
  · exact serviceNoDelete_nil hw h
  · exact enumSameType_nil hw h
  · exact enumSameJson_nil hw h
  · exact enumValueNoDelete_nil hw h _ _ _
  · exact enumValueNoDelete_nil hw h _ _ _
  · exact enumValueNoDelete_nil hw h _ _ _
  · exact enumValueSameName_nil hw h
  · exact reservedEnum_nil hw h
  · exact extensionMessage_nil hw h
  · exact fieldNoDelete_nil hw h _ _ _
  · exact fieldNoDelete_nil hw h _ _ _
  · exact fieldNoDelete_nil hw h _ _ _
  · exact noStd_nil hw h
  · exact oneof_nil hw h
  · exact msgJson_nil hw h
  · exact required_nil hw h
  · exact reservedMessage_nil hw h
  · exact card_nil hw h _ _
  · exact card_nil hw h _ _
  · exact card_nil hw h _ _
  · exact sameType_nil hw h
  · exact wireType_nil hw h
  · exact wireJsonType_nil hw h
  · exact jstype_nil hw h
  · exact utf8_nil hw h
  · exact jsonName_nil hw h
  · exact name_nil hw h
  · exact default_nil hw h
  · exact sameOneof_nil hw h
  · exact rpcNoDelete_nil hw h
  · exact methodSame_nil hw h _ _ _
  · exact methodSame_nil hw h _ _ _
  · exact methodSame_nil hw h _ _ _
  · exact methodSame_nil hw h _ _ _
  · exact methodSame_nil hw h _ _ _
  · exact packageEnum_nil hw h
  · exact packageExtension_nil hw h
  · exact packageMessage_nil hw h
  · exact packageService_nil hw h
  · exact package_nil hw h
  · exact syntax_nil hw h
  · exact filePackage_nil hw h

/-- every rule of the model is silent on an additive pair whose newer side has unique keys -/
theorem runRule_nil (id : String) : runRule id cur prev = [] := by
  unfold runRule
  cases hl : ruleTable.lookup id with
  | some f => exact ruleTable_nil hw h (id, f) (lookup_some_mem _ _ _ hl)
  | none =>
    simp only
    cases fileOptRules.lookup id with
    | some n => exact fileOpt_nil hw h _ _
    | none => rfl

end rules

end BufProofs.Breaking

namespace BufProofs.Breaking
open BufModel.Schema BufModel.Breaking

/-- the driver's executable check establishes `WF` (reported as `wf=1` on every correspondence line) -/
theorem WF_of_wfB (s : Schema) (h : wfB s = true) : WF s := by
  unfold wfB at h
  simp only [Bool.and_eq_true, decide_eq_true_eq, List.all_eq_true] at h
  obtain ⟨⟨⟨⟨⟨⟨h1, h2⟩, h3⟩, h4⟩, h5⟩, h6⟩, h7⟩ := h
  exact ⟨h1, h2, h3, h4, h5, h6, h7⟩

end BufProofs.Breaking
