import BufProofs.Lemmas.LintOps2
/-
  C05 — helper lemmas of the per-operator exactness theorems of BufProofs/Props/C05.lean.
-/
namespace BufModel.Lint
open BufModel.Case

theorem clean_no_annotations_aux {o : Options} {rules : List Rule} {w : Schema}
    (h : cleanB o rules w = true) : lint o rules w = [] := by
  unfold lint
  apply flatMap_eq_nil_of_forall
  intro r hr
  exact runRule_nil_of_clean o w r (List.all_eq_true.mp h r hr)

theorem stdNameBad_congr_pascal (o : Options) (b : Bool) (s s' : Service) (m : Rpc)
    (h : toPascalCase s'.name = toPascalCase s.name) : stdNameBad o b s' m = stdNameBad o b s m := by
  unfold stdNameBad; rw [h]

theorem stdNameBad_congr_rpc (o : Options) (b : Bool) (s : Service) (m m' : Rpc)
    (hn : toPascalCase m'.name = toPascalCase m.name) (hi : m'.inType = m.inType) (ho : m'.outType = m.outType) :
    stdNameBad o b s m' = stdNameBad o b s m := by
  unfold stdNameBad; rw [hn, hi, ho]

theorem rpcRow_mem (w : Schema) (f : File) (hf : FileAt w f) (q0 : List Nat) (s0 : Service) (m0 : Rpc)
    (h0 : (q0, s0, m0) ∈ fileRpcs f) : (⟨f.path, q0, m0.inType, m0.outType⟩ : RpcRow) ∈ rpcTable w := by
  rw [rpcTable_eq]
  apply List.mem_flatMap.mpr
  refine ⟨f, hf.nonImport, ?_⟩
  unfold fileRpcRows
  exact List.mem_map.mpr ⟨(q0, s0, m0), h0, rfl⟩

/-- the rules that can see a change of one file's package statement -/
def pkgDirty : List Rule :=
  [.PACKAGE_DEFINED, .PACKAGE_DIRECTORY_MATCH, .PACKAGE_LOWER_SNAKE_CASE, .PACKAGE_VERSION_SUFFIX,
   .DIRECTORY_SAME_PACKAGE, .PACKAGE_NO_IMPORT_CYCLE]

theorem clean_after_setPackage (o : Options) (rules : List Rule) (w : Schema) (f : File)
    (hclean : cleanB o rules w = true) (hf : FileAt w f) (np : Str)
    (hfresh : ∀ g ∈ nonImport w, g.path ≠ f.path → g.pkg ≠ np)
    (hstable : .STABLE_PACKAGE_NO_IMPORT_UNSTABLE ∈ rules → isStable np = none ∨ isStable np = isStable f.pkg)
    (r : Rule) (hr : r ∈ rules) (hnd : r ∉ pkgDirty) : cleanRule o (setPackage f.path np w) r = true := by
  have hc := cleanB_rule hclean hr
  cases he : elemRule r with
  | some er =>
    apply frame_fileOp_elem o w f hf (setPkg np) (fun _ => rfl) (keepsDecls_setPkg np) r er he _ hc
    intro hfr
    cases r <;> simp [isFileRule] at hfr <;> simp [pkgDirty] at hnd <;> simp only [fileLocalGood, elemRule] <;>
      exact id
  | none =>
    have hgrp : ∀ val : File → Str, (∀ g, val (setPkg np g) = val g) →
        groupClean (nonImport w) (·.pkg) val = true →
        groupClean (nonImport (plantFile f.path (setPkg np) w)) (·.pkg) val = true := by
      intro val _ hgc
      apply groupClean_plant w f hf (setPkg np) (fun _ => rfl) _ _ hgc
      intro g hg hp e
      exact absurd e (hfresh g hg hp)
    cases r <;> simp only [elemRule, reduceCtorEq] at he <;> simp [pkgDirty] at hnd
    case STABLE_PACKAGE_NO_IMPORT_UNSTABLE => exact stable_frame_pkg o w f hf np (hstable hr) hc
    case RPC_REQUEST_RESPONSE_UNIQUE =>
      exact rpcUnique_frame_header o w f.path (setPkg np) (fun _ => rfl) (keepsDecls_setPkg np) (fun _ => rfl) hc
    all_goals
      rw [cleanRule_group o _ _ _ _ rfl] at hc ⊢
      exact hgrp _ (fun _ => rfl) hc

/-- a rule on the file itself (`els f = [f]`) after a header rewriting reports at most one annotation -/
theorem runRule_file_rule (o : Options) (rules : List Rule) (w : Schema) (f : File) (hf : FileAt w f)
    (h : File → File) (hI : ∀ g, (h g).isImport = g.isImport) (hclean : cleanB o rules w = true)
    (r : Rule) (hr : r ∈ rules) (bad : Options → File → Bool) (loc : File → List Nat) (good : Options → File → Bool)
    (he : elemRule r = some ⟨File, fun f => [f], bad, loc, good⟩) :
    runRule o (plantFile f.path h w) r = if bad o (h f) = true then [ann r (h f) (loc (h f))] else [] := by
  rw [runRule_header_op o rules w f hf h hI hclean r hr _ he]
  unfold ElemRule.flagged
  simp only [List.filter_cons, List.filter_nil]
  split <;> rfl

/-- the PACKAGE_SAME_<option> rule of option number `i` -/
def optRule : Nat → Option Rule
  | 0 => some .PACKAGE_SAME_CSHARP_NAMESPACE | 1 => some .PACKAGE_SAME_GO_PACKAGE
  | 2 => some .PACKAGE_SAME_JAVA_MULTIPLE_FILES | 3 => some .PACKAGE_SAME_JAVA_PACKAGE
  | 4 => some .PACKAGE_SAME_PHP_NAMESPACE | 5 => some .PACKAGE_SAME_RUBY_PACKAGE
  | 6 => some .PACKAGE_SAME_SWIFT_PREFIX | _ => none

theorem optRule_of_optIndex (r : Rule) (i : Nat) (h : optIndex r = some i) : optRule i = some r := by
  cases r <;> simp only [optIndex, Option.some.injEq, reduceCtorEq] at h <;> subst h <;> rfl

theorem runRule_optRule (o : Options) (w : Schema) (r : Rule) (k : Nat) (h : optIndex r = some k) :
    runRule o w r = groupRule r (nonImport w) (·.pkg) (optVal · k) (optLoc · k) := by
  cases r <;> simp only [optIndex, Option.some.injEq, reduceCtorEq] at h <;> subst h <;> rfl

theorem cleanRule_optRule (o : Options) (w : Schema) (r : Rule) (k : Nat) (h : optIndex r = some k) :
    cleanRule o w r = groupClean (nonImport w) (·.pkg) (optVal · k) := by
  cases r <;> simp only [optIndex, Option.some.injEq, reduceCtorEq] at h <;> subst h <;> rfl

def moveDirty : List Rule := [.FILE_LOWER_SNAKE_CASE, .PACKAGE_DIRECTORY_MATCH, .PACKAGE_SAME_DIRECTORY]

theorem clean_after_moveFile (o : Options) (rules : List Rule) (w : Schema) (f : File)
    (hclean : cleanB o rules w = true) (hf : FileAt w f) (np : Str)
    (hnoimp : ∀ g ∈ w, ∀ imp ∈ g.imports, imp.path ≠ f.path ∧ imp.path ≠ np)
    (hdir : .DIRECTORY_SAME_PACKAGE ∈ rules → ∀ g ∈ nonImport w, g.path ≠ f.path →
      fileDir g = fileDir (setPath np f) → g.pkg = f.pkg)
    (r : Rule) (hr : r ∈ rules) (hnd : r ∉ moveDirty) : cleanRule o (moveFile f.path np w) r = true := by
  have hc := cleanB_rule hclean hr
  cases he : elemRule r with
  | some er =>
    apply frame_fileOp_elem o w f hf (setPath np) (fun _ => rfl) (keepsDecls_setPath np) r er he _ hc
    intro hfr
    cases r <;> simp [isFileRule] at hfr <;> simp [moveDirty] at hnd <;> simp only [fileLocalGood, elemRule] <;>
      exact id
  | none =>
    have hgrp : ∀ val : File → Str, (∀ g, val (setPath np g) = val g) →
        groupClean (nonImport w) (·.pkg) val = true →
        groupClean (nonImport (plantFile f.path (setPath np) w)) (·.pkg) val = true := by
      intro val hval hgc
      apply groupClean_plant w f hf (setPath np) (fun _ => rfl) _ _ hgc
      intro g hg _ e
      rw [hval]
      rw [groupClean_iff] at hgc
      exact hgc g hg f hf.nonImport e
    cases r <;> simp only [elemRule, reduceCtorEq] at he <;> simp [moveDirty] at hnd
    case PACKAGE_NO_IMPORT_CYCLE => exact cycle_frame_setPath o w f np hnoimp hc
    case STABLE_PACKAGE_NO_IMPORT_UNSTABLE => exact stable_frame_setPath o w f np hnoimp hc
    case RPC_REQUEST_RESPONSE_UNIQUE => exact rpcUnique_frame_setPath o w f np hc
    case DIRECTORY_SAME_PACKAGE =>
      rw [cleanRule_group o _ _ _ _ rfl] at hc ⊢
      exact groupClean_plant w f hf (setPath np) (fun _ => rfl) _ _ hc
        (fun g hg hp e => hdir hr g hg hp e)
    all_goals
      rw [cleanRule_group o _ _ _ _ rfl] at hc ⊢
      exact hgrp _ (fun _ => rfl) hc

/-! ### the nine grouping rules as (key, value, location) -/

def groupSpec : Rule → Option ((File → Str) × (File → Str) × (File → List Nat))
  | .DIRECTORY_SAME_PACKAGE => some (fileDir, (·.pkg), pkgLoc)
  | .PACKAGE_SAME_DIRECTORY => some ((·.pkg), fileDir, pkgLoc)
  | .PACKAGE_SAME_CSHARP_NAMESPACE => some ((·.pkg), (optVal · 0), (optLoc · 0))
  | .PACKAGE_SAME_GO_PACKAGE => some ((·.pkg), (optVal · 1), (optLoc · 1))
  | .PACKAGE_SAME_JAVA_MULTIPLE_FILES => some ((·.pkg), (optVal · 2), (optLoc · 2))
  | .PACKAGE_SAME_JAVA_PACKAGE => some ((·.pkg), (optVal · 3), (optLoc · 3))
  | .PACKAGE_SAME_PHP_NAMESPACE => some ((·.pkg), (optVal · 4), (optLoc · 4))
  | .PACKAGE_SAME_RUBY_PACKAGE => some ((·.pkg), (optVal · 5), (optLoc · 5))
  | .PACKAGE_SAME_SWIFT_PREFIX => some ((·.pkg), (optVal · 6), (optLoc · 6))
  | _ => none

theorem runRule_group (o : Options) (w : Schema) (r : Rule) (key val : File → Str) (loc : File → List Nat)
    (h : groupSpec r = some (key, val, loc)) : runRule o w r = groupRule r (nonImport w) key val loc := by
  cases r <;> simp only [groupSpec, Option.some.injEq, Prod.mk.injEq, reduceCtorEq] at h <;>
    obtain ⟨rfl, rfl, rfl⟩ := h <;> rfl

theorem cleanRule_groupSpec (o : Options) (w : Schema) (r : Rule) (key val : File → Str) (loc : File → List Nat)
    (h : groupSpec r = some (key, val, loc)) : cleanRule o w r = groupClean (nonImport w) key val := by
  cases r <;> simp only [groupSpec, Option.some.injEq, Prod.mk.injEq, reduceCtorEq] at h <;>
    obtain ⟨rfl, rfl, rfl⟩ := h <;> rfl

end BufModel.Lint
