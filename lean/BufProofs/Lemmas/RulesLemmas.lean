import BufModel.Rules
/-
  Helper lemmas for C06 (rule selection and suppression).
-/
namespace BufModel.Rules
open BufModel.Path BufGen.RuleTables

/-! ### sorted-unique / sorted insertion only permute or dedupe: membership is preserved -/

theorem mem_insertU {α} [DecidableEq α] (lt : α → α → Bool) (a x : α) (l : List α) :
    a ∈ insertU lt x l ↔ a = x ∨ a ∈ l := by
  induction l with
  | nil => simp [insertU]
  | cons y ys ih =>
    unfold insertU
    by_cases h1 : x = y
    · subst h1; simp
    · simp only [h1, if_false]
      by_cases h2 : lt x y = true
      · simp [h2]
      · have h2' : lt x y = false := by simpa using h2
        simp only [h2', Bool.false_eq_true, if_false, List.mem_cons, ih]
        constructor
        · rintro (h | h | h)
          · exact Or.inr (Or.inl h)
          · exact Or.inl h
          · exact Or.inr (Or.inr h)
        · rintro (h | h | h)
          · exact Or.inr (Or.inl h)
          · exact Or.inl h
          · exact Or.inr (Or.inr h)

theorem mem_uniqueSorted {α} [DecidableEq α] (lt : α → α → Bool) (a : α) (l : List α) :
    a ∈ uniqueSorted lt l ↔ a ∈ l := by
  induction l with
  | nil => simp [uniqueSorted]
  | cons y ys ih =>
    have : uniqueSorted lt (y :: ys) = insertU lt y (uniqueSorted lt ys) := rfl
    rw [this, mem_insertU, ih]; simp

theorem mem_insertS {α} (lt : α → α → Bool) (a x : α) (l : List α) :
    a ∈ insertS lt x l ↔ a = x ∨ a ∈ l := by
  induction l with
  | nil => simp [insertS]
  | cons y ys ih =>
    unfold insertS
    by_cases h : lt y x = true
    · simp only [h, if_true, List.mem_cons, ih]
      constructor
      · rintro (h | h | h) <;> simp [h]
      · rintro (h | h | h) <;> simp [h]
    · simp [h]

theorem mem_sortS {α} (lt : α → α → Bool) (a : α) (l : List α) :
    a ∈ sortS lt l ↔ a ∈ l := by
  induction l with
  | nil => simp [sortS]
  | cons y ys ih =>
    have : sortS lt (y :: ys) = insertS lt y (sortS lt ys) := rfl
    rw [this, mem_insertS, ih]; simp

theorem uniqueSorted_eq_nil {α} [DecidableEq α] (lt : α → α → Bool) (l : List α) :
    uniqueSorted lt l = [] ↔ l = [] := by
  constructor
  · intro h
    cases l with
    | nil => rfl
    | cons y ys =>
      have : y ∈ uniqueSorted lt (y :: ys) := (mem_uniqueSorted lt y _).2 (by simp)
      rw [h] at this; cases this
  · intro h; subst h; rfl

theorem mem_uniqueSortedNoBlank (x : Id) (l : List Id) :
    x ∈ uniqueSortedNoBlank l ↔ x ∈ l ∧ blankId x = false := by
  unfold uniqueSortedNoBlank usIds
  rw [mem_uniqueSorted]; simp

/-! ### expansion -/

theorem expandAll_ok (rs : List RuleRow) : ∀ (ids l : List Id), expandAll rs ids = .ok l →
    ∀ x, x ∈ l ↔ ∃ id ∈ ids, ∃ e, expandOne rs id = some e ∧ x ∈ e
  | [], l, h, x => by
    simp [expandAll] at h; subst h; simp
  | id :: rest, l, h, x => by
    unfold expandAll at h
    cases h1 : expandOne rs id with
    | none => simp [h1] at h
    | some e =>
      cases h2 : expandAll rs rest with
      | error err => simp [h1, h2] at h
      | ok r =>
        simp [h1, h2] at h
        subst h
        have ih := expandAll_ok rs rest r h2 x
        simp only [List.mem_append, ih, List.mem_cons]
        constructor
        · rintro (hx | ⟨i, hi, e', he', hx⟩)
          · exact ⟨id, Or.inl rfl, e, h1, hx⟩
          · exact ⟨i, Or.inr hi, e', he', hx⟩
        · rintro ⟨i, (hi | hi), e', he', hx⟩
          · subst hi; rw [h1] at he'; cases he'; exact Or.inl hx
          · exact Or.inr ⟨i, hi, e', he', hx⟩

theorem expandAll_error (rs : List RuleRow) : ∀ (ids : List Id),
    (∃ id ∈ ids, expandOne rs id = none) → expandAll rs ids = .error .unknownId
  | [], h => by simp at h
  | id :: rest, h => by
    unfold expandAll
    cases h1 : expandOne rs id with
    | none => simp
    | some e =>
      have : ∃ i ∈ rest, expandOne rs i = none := by
        rcases h with ⟨i, hi, hn⟩
        rcases List.mem_cons.1 hi with hi | hi
        · subst hi; rw [h1] at hn; cases hn
        · exact ⟨i, hi, hn⟩
      simp [expandAll_error rs rest this]

theorem expandAll_isOk (rs : List RuleRow) : ∀ (ids : List Id),
    (∀ id ∈ ids, expandOne rs id ≠ none) → ∃ l, expandAll rs ids = .ok l
  | [], _ => ⟨[], rfl⟩
  | id :: rest, h => by
    unfold expandAll
    cases h1 : expandOne rs id with
    | none => exact absurd h1 (h id (by simp))
    | some e =>
      rcases expandAll_isOk rs rest (fun i hi => h i (by simp [hi])) with ⟨r, hr⟩
      exact ⟨e ++ r, by simp [hr]⟩

theorem expandIgnoreOnly_error (rs : List RuleRow) : ∀ (m : List (Id × List Str)),
    (∃ e ∈ m, expandOne rs e.1 = none) → expandIgnoreOnly rs m = .error .unknownId
  | [], h => by simp at h
  | (k, ps) :: rest, h => by
    unfold expandIgnoreOnly
    cases h1 : expandOne rs k with
    | none => simp
    | some e =>
      have : ∃ i ∈ rest, expandOne rs i.1 = none := by
        rcases h with ⟨i, hi, hn⟩
        rcases List.mem_cons.1 hi with hi | hi
        · subst hi; simp [h1] at hn
        · exact ⟨i, hi, hn⟩
      simp [expandIgnoreOnly_error rs rest this]

theorem transformIds_ok (rs : List RuleRow) (ids l : List Id) (h : transformIds rs ids = .ok l) :
    ∀ x, x ∈ l ↔ ∃ id ∈ ids, ∃ e, expandOne rs id = some e ∧ x ∈ e := by
  unfold transformIds at h
  cases h1 : expandAll rs ids with
  | error e => simp [h1] at h
  | ok r =>
    simp [h1] at h; subst h
    intro x
    unfold usIds
    rw [mem_uniqueSorted]; exact expandAll_ok rs ids r h1 x

theorem mem_undeprecate (rs : List RuleRow) (ids : List Id) (x : Id) :
    x ∈ undeprecate rs ids ↔ ∃ id ∈ ids, x ∈ undeprecateOne rs id := by
  unfold undeprecate usIds
  rw [mem_uniqueSorted]; simp [List.mem_flatMap]

/-! ### path matching -/

theorem mapHasLoop_eq_any (m : List Str) : ∀ (fuel : Nat) (cur : Str),
    mapHasLoop m fuel cur = m.any (fun v => ecpLoop v fuel cur)
  | 0, cur => by simp [mapHasLoop, ecpLoop]
  | fuel + 1, cur => by
    unfold mapHasLoop
    by_cases h1 : cur = dot
    · simp [h1, ecpLoop]
    · simp only [h1, if_false]
      by_cases h2 : m.contains cur = true
      · simp only [h2, if_true]
        symm
        rw [List.any_eq_true]
        refine ⟨cur, by simpa using h2, ?_⟩
        simp [ecpLoop, h1]
      · have h2' : m.contains cur = false := by simpa using h2
        simp only [h2', Bool.false_eq_true, if_false]
        rw [mapHasLoop_eq_any m fuel (dir cur)]
        have hne : ∀ v ∈ m, v ≠ cur := by
          intro v hv hvc; subst hvc; exact h2 (by simpa using hv)
        rw [Bool.eq_iff_iff]
        simp only [List.any_eq_true]
        constructor
        · rintro ⟨v, hv, hl⟩
          exact ⟨v, hv, by simp [ecpLoop, h1, hne v hv, hl]⟩
        · rintro ⟨v, hv, hl⟩
          refine ⟨v, hv, ?_⟩
          simpa [ecpLoop, h1, hne v hv] using hl

/-- `MapHasEqualOrContainingPath m path` ⇔ some entry of `m` equals or contains `path`. -/
theorem mapHas_iff (m : List Str) (path : Str) :
    mapHasEqualOrContainingPath m path = true ↔ ∃ v ∈ m, equalsOrContainsPath v path = true := by
  unfold mapHasEqualOrContainingPath
  by_cases h0 : m = []
  · subst h0; simp
  · simp only [h0, if_false]
    by_cases h1 : m.contains dot = true
    · simp only [h1, if_true, true_iff]
      exact ⟨dot, by simpa using h1, by simp [equalsOrContainsPath]⟩
    · have h1' : m.contains dot = false := by simpa using h1
      simp only [h1', Bool.false_eq_true, if_false]
      rw [mapHasLoop_eq_any, List.any_eq_true]
      have hne : ∀ v ∈ m, v ≠ dot := by
        intro v hv hvc; subst hvc; exact h1 (by simpa using hv)
      constructor
      · rintro ⟨v, hv, hl⟩; exact ⟨v, hv, by simp [equalsOrContainsPath, hne v hv, hl]⟩
      · rintro ⟨v, hv, hl⟩; exact ⟨v, hv, by simpa [equalsOrContainsPath, hne v hv] using hl⟩


theorem newRulesConfig_ok (all : List RuleRow) (lint : Bool) (c : CheckConfig) (rc : RulesConfig)
    (hrs : rulesForType all lint ≠ []) (h : newRulesConfig all lint c = .ok rc) :
    ∃ useIds excIds,
      transformIds (rulesForType all lint) (effectiveUse (rulesForType all lint) c.use) = .ok useIds ∧
      transformIds (rulesForType all lint) (uniqueSortedNoBlank c.except) = .ok excIds ∧
      rc.ruleIDs = (undeprecate (rulesForType all lint) useIds).filter
        (fun id => !((undeprecate (rulesForType all lint) excIds).contains id)) := by
  unfold newRulesConfig newRulesConfigCore at h
  simp only [hrs, if_false] at h
  split at h
  · cases h
  · split at h
    · rename_i useIds excIds io h1 h2 h3
      split at h
      · cases h
      · split at h
        · simp at *
        · split at h
          · simp only [Except.ok.injEq] at h
            subst h
            exact ⟨useIds, excIds, h1, h2, rfl⟩
          · cases h
    · cases h

/-! ### the suppression clauses of `ignoreFileLocation` as propositions -/

/-- exclude-imports is requested and the file is an import. -/
def ImportClause (cfg : Config) (f : FileInfo) : Prop :=
  cfg.excludeImports = true ∧ f.isImport = true
/-- some `ignore` path equals or contains (component-wise) the file's path. -/
def IgnorePathClause (cfg : Config) (f : FileInfo) : Prop :=
  ∃ p ∈ cfg.rules.ignoreRootPaths, equalsOrContainsPath p f.path = true
/-- some `ignore_only` path registered for this rule equals or contains the file's path. -/
def IgnoreOnlyClause (cfg : Config) (r : Id) (f : FileInfo) : Prop :=
  ∃ p, (r, p) ∈ cfg.rules.ignoreOnly ∧ equalsOrContainsPath p f.path = true
/-- ignore_unstable_packages is set and the file's package version is unstable. -/
def UnstableClause (cfg : Config) (f : FileInfo) : Prop :=
  cfg.ignoreUnstablePackages = true ∧ f.unstable = true
/-- comment ignores are allowed and the element at `sp` or one of its enclosing declarations
    (its associated source paths) carries a leading-comment line `<prefix> <rule id>…`. -/
def CommentClause (cfg : Config) (r : Id) (f : FileInfo) (sp : SPath) : Prop :=
  cfg.allowCommentIgnores = true ∧ cfg.commentIgnorePrefix ≠ [] ∧ sp ≠ [] ∧
  ∃ ps, associatedSourcePaths sp = .ok ps ∧
    ∃ p ∈ ps, commentIgnoresAt f cfg.commentIgnorePrefix r p = true

def Suppressed (cfg : Config) (r : Id) (f : FileInfo) (sp : SPath) : Prop :=
  ImportClause cfg f ∨ IgnorePathClause cfg f ∨ IgnoreOnlyClause cfg r f ∨ UnstableClause cfg f ∨
    CommentClause cfg r f sp

theorem mem_ignoreOnlyPathsFor (rc : RulesConfig) (r : Id) (p : Str) :
    p ∈ ignoreOnlyPathsFor rc r ↔ (r, p) ∈ rc.ignoreOnly := by
  unfold ignoreOnlyPathsFor
  simp only [List.mem_map, List.mem_filter, decide_eq_true_eq]
  constructor
  · rintro ⟨⟨a, q⟩, ⟨hm, ha⟩, hq⟩
    simp only at ha hq; subst ha; subst hq; exact hm
  · intro h; exact ⟨(r, p), ⟨h, rfl⟩, rfl⟩

theorem ignoreFileLocation_ok (cfg : Config) (r : Id) (f : FileInfo) (sp : SPath) (b : Bool)
    (h : ignoreFileLocation cfg r f sp = .ok b) : b = true ↔ Suppressed cfg r f sp := by
  unfold ignoreFileLocation at h
  unfold Suppressed
  by_cases c1 : (cfg.excludeImports && f.isImport) = true
  · simp only [c1, if_true, Except.ok.injEq] at h
    subst h
    simp only [true_iff]
    left; simpa [ImportClause] using c1
  · have n1 : ¬ ImportClause cfg f := by simpa [ImportClause] using c1
    simp only [c1] at h
    by_cases c2 : mapHasEqualOrContainingPath cfg.rules.ignoreRootPaths f.path = true
    · simp only [c2, if_true, Bool.false_eq_true, if_false, Except.ok.injEq] at h
      subst h
      simp only [true_iff]
      right; left; exact (mapHas_iff _ _).1 c2
    · have n2 : ¬ IgnorePathClause cfg f := fun hc => c2 ((mapHas_iff _ _).2 hc)
      simp only [c2] at h
      by_cases c3 : mapHasEqualOrContainingPath (ignoreOnlyPathsFor cfg.rules r) f.path = true
      · simp only [c3, if_true, Bool.false_eq_true, if_false, Except.ok.injEq] at h
        subst h
        simp only [true_iff]
        right; right; left
        rcases (mapHas_iff _ _).1 c3 with ⟨p, hp, he⟩
        exact ⟨p, (mem_ignoreOnlyPathsFor _ _ _).1 hp, he⟩
      · have n3 : ¬ IgnoreOnlyClause cfg r f := by
          rintro ⟨p, hp, he⟩
          exact c3 ((mapHas_iff _ _).2 ⟨p, (mem_ignoreOnlyPathsFor _ _ _).2 hp, he⟩)
        simp only [c3] at h
        by_cases c4 : (cfg.ignoreUnstablePackages && f.unstable) = true
        · simp only [c4, if_true, Bool.false_eq_true, if_false, Except.ok.injEq] at h
          subst h
          simp only [true_iff]
          right; right; right; left; simpa [UnstableClause] using c4
        · have n4 : ¬ UnstableClause cfg f := by simpa [UnstableClause] using c4
          simp only [c4, Bool.false_eq_true, if_false] at h
          by_cases c5 : (cfg.allowCommentIgnores && decide (cfg.commentIgnorePrefix ≠ [])) = true
          · simp only [c5, if_true] at h
            simp only [Bool.and_eq_true, decide_eq_true_eq] at c5
            by_cases c6 : sp = []
            · simp only [c6, if_true, Except.ok.injEq] at h
              subst h
              simp only [Bool.false_eq_true, false_iff]
              rintro (hc | hc | hc | hc | hc)
              · exact n1 hc
              · exact n2 hc
              · exact n3 hc
              · exact n4 hc
              · exact hc.2.2.1 c6
            · simp only [c6, if_false] at h
              cases hps : associatedSourcePaths sp with
              | error e => simp [hps] at h
              | ok ps =>
                simp only [hps, Except.ok.injEq] at h
                subst h
                constructor
                · intro hany
                  right; right; right; right
                  refine ⟨c5.1, c5.2, c6, ps, hps, ?_⟩
                  simpa [List.any_eq_true] using hany
                · rintro (hc | hc | hc | hc | hc)
                  · exact absurd hc n1
                  · exact absurd hc n2
                  · exact absurd hc n3
                  · exact absurd hc n4
                  · rcases hc with ⟨_, _, _, ps', hps', hex⟩
                    rw [hps] at hps'; cases hps'
                    simpa [List.any_eq_true] using hex
          · simp only [c5, Bool.false_eq_true, if_false, Except.ok.injEq] at h
            subst h
            simp only [Bool.false_eq_true, false_iff]
            rintro (hc | hc | hc | hc | hc)
            · exact n1 hc
            · exact n2 hc
            · exact n3 hc
            · exact n4 hc
            · apply c5; simp [hc.1, hc.2.1]


/-- The location (if any) lies in a file/element that `cfg` suppresses for rule `r`. -/
def LocSuppressed (cfg : Config) (fs : List FileInfo) (r : Id) (l : Option Loc) : Prop :=
  ∃ x, l = some x ∧ Suppressed cfg r (fileAt fs x.file) x.sourcePath

/-- An annotation is suppressed when its file location or its against-file location is. -/
def AnnotSuppressed (cfg : Config) (img : Image) (a : Annot) : Prop :=
  LocSuppressed cfg img.files a.ruleId a.loc ∨ LocSuppressed cfg img.againstFiles a.ruleId a.against

theorem ignoreAnnotation_ok (cfg : Config) (img : Image) (a : Annot) (b : Bool)
    (h : ignoreAnnotation cfg img a = .ok b) : b = true ↔ AnnotSuppressed cfg img a := by
  unfold ignoreAnnotation at h
  unfold AnnotSuppressed LocSuppressed
  have hag : ∀ b', (match a.against with
      | some l => ignoreFileLocation cfg a.ruleId (fileAt img.againstFiles l.file) l.sourcePath
      | none => Except.ok false) = Except.ok b' →
      (b' = true ↔ ∃ x, a.against = some x ∧ Suppressed cfg a.ruleId (fileAt img.againstFiles x.file) x.sourcePath) := by
    intro b' hb'
    cases hA : a.against with
    | none => simp [hA] at hb'; subst hb'; simp
    | some l =>
      simp only [hA] at hb'
      rw [ignoreFileLocation_ok _ _ _ _ _ hb']
      simp
  cases hL : a.loc with
  | none =>
    simp only [hL] at h
    rw [hag b h]; simp
  | some l =>
    simp only [hL] at h
    cases h1 : ignoreFileLocation cfg a.ruleId (fileAt img.files l.file) l.sourcePath with
    | error e => simp [h1] at h
    | ok b1 =>
      have k1 := ignoreFileLocation_ok _ _ _ _ _ h1
      cases b1 with
      | true =>
        simp only [h1, Except.ok.injEq] at h
        subst h
        simp only [true_iff]
        left; exact ⟨l, rfl, k1.1 rfl⟩
      | false =>
        simp only [h1] at h
        rw [hag b h]
        constructor
        · intro hx; right; exact hx
        · rintro (⟨x, hx, hs⟩ | hx)
          · cases hx; exact absurd (k1.2 hs) (by simp)
          · exact hx

theorem filterAnnotations_ok (cfg : Config) (img : Image) : ∀ (l r : List Annot),
    filterAnnotations cfg img l = .ok r →
    (∀ a ∈ l, ∃ b, ignoreAnnotation cfg img a = .ok b) ∧
    (∀ a, a ∈ r ↔ a ∈ l ∧ ignoreAnnotation cfg img a = .ok false)
  | [], r, h => by
    simp [filterAnnotations] at h; subst h; simp
  | a :: rest, r, h => by
    unfold filterAnnotations at h
    cases h1 : ignoreAnnotation cfg img a with
    | error e => simp [h1] at h
    | ok ig =>
      cases h2 : filterAnnotations cfg img rest with
      | error e => simp [h1, h2] at h
      | ok r' =>
        simp only [h1, h2, Except.ok.injEq] at h
        have ih := filterAnnotations_ok cfg img rest r' h2
        constructor
        · intro x hx
          rcases List.mem_cons.1 hx with hx | hx
          · subst hx; exact ⟨ig, h1⟩
          · exact ih.1 x hx
        · intro x
          subst h
          cases ig with
          | true =>
            simp only [if_true, ih.2, List.mem_cons]
            constructor
            · rintro ⟨hx, hi⟩; exact ⟨Or.inr hx, hi⟩
            · rintro ⟨hx | hx, hi⟩
              · subst hx; rw [h1] at hi; cases hi
              · exact ⟨hx, hi⟩
          | false =>
            simp only [Bool.false_eq_true, if_false, List.mem_cons, ih.2]
            constructor
            · rintro (hx | ⟨hx, hi⟩)
              · subst hx; exact ⟨Or.inl rfl, h1⟩
              · exact ⟨Or.inr hx, hi⟩
            · rintro ⟨hx | hx, hi⟩
              · exact Or.inl hx
              · exact Or.inr ⟨hx, hi⟩

theorem dedupByKey_sub : ∀ (l : List FileAnnot) (seen : List Str) (fa : FileAnnot),
    fa ∈ dedupByKey l seen → fa ∈ l
  | [], _, fa, h => by simp [dedupByKey] at h
  | x :: rest, seen, fa, h => by
    unfold dedupByKey at h
    by_cases c : seen.contains (dedupKey x) = true
    · simp only [c, if_true] at h
      exact List.mem_cons_of_mem _ (dedupByKey_sub rest seen fa h)
    · simp only [c] at h
      rcases List.mem_cons.1 h with h | h
      · subst h; simp
      · exact List.mem_cons_of_mem _ (dedupByKey_sub rest _ fa h)

theorem dedupByKey_complete : ∀ (l : List FileAnnot) (seen : List Str) (fa : FileAnnot),
    fa ∈ l → dedupKey fa ∉ seen → ∃ fb ∈ dedupByKey l seen, dedupKey fb = dedupKey fa
  | [], _, fa, h, _ => by cases h
  | x :: rest, seen, fa, h, hs => by
    unfold dedupByKey
    by_cases c : seen.contains (dedupKey x) = true
    · simp only [c, if_true]
      rcases List.mem_cons.1 h with h | h
      · subst h; exact absurd (by simpa using c) hs
      · exact dedupByKey_complete rest seen fa h hs
    · simp only [c]
      rcases List.mem_cons.1 h with h | h
      · subst h; exact ⟨fa, by simp, rfl⟩
      · by_cases e : dedupKey fa = dedupKey x
        · exact ⟨x, by simp, e.symm⟩
        · have : dedupKey fa ∉ dedupKey x :: seen := by
            intro hm
            rcases List.mem_cons.1 hm with hm | hm
            · exact e hm
            · exact hs hm
          rcases dedupByKey_complete rest _ fa h this with ⟨fb, hfb, hk⟩
          exact ⟨fb, List.mem_cons_of_mem _ hfb, hk⟩

/-- `fileAnnotationSet` keeps only members and keeps a representative of every dedup key. -/
theorem fileAnnotationSet_spec (l : List FileAnnot) :
    (∀ fa ∈ fileAnnotationSet l, fa ∈ l) ∧
    (∀ fa ∈ l, ∃ fb ∈ fileAnnotationSet l, dedupKey fb = dedupKey fa) := by
  unfold fileAnnotationSet
  constructor
  · intro fa h
    exact dedupByKey_sub l [] fa ((mem_sortS _ _ _).1 h)
  · intro fa h
    rcases dedupByKey_complete l [] fa h (by simp) with ⟨fb, hfb, hk⟩
    exact ⟨fb, (mem_sortS _ _ _).2 hfb, hk⟩

theorem mem_candidates (ruleIDs : List Id) (img : Image) (a : Annot) :
    a ∈ candidates ruleIDs img ↔ a ∈ img.annots ∧ a.ruleId ∈ ruleIDs := by
  unfold candidates
  rw [mem_sortS]; simp

/-- What `report` keeps: the annotations of selected rules that are not suppressed. -/
def Kept (cfg : Config) (img : Image) (a : Annot) : Prop :=
  a ∈ img.annots ∧ a.ruleId ∈ cfg.rules.ruleIDs ∧ ¬ AnnotSuppressed cfg img a

theorem report_spec (cfg : Config) (img : Image) (out : List FileAnnot) (h : report cfg img = .ok out) :
    (∀ a ∈ img.annots, a.ruleId ∈ cfg.rules.ruleIDs → ∃ b, ignoreAnnotation cfg img a = .ok b) ∧
    (∀ fa ∈ out, ∃ a, Kept cfg img a ∧ toFileAnnot img a = fa) ∧
    (∀ a, Kept cfg img a → ∃ fb ∈ out, dedupKey fb = dedupKey (toFileAnnot img a)) := by
  unfold report at h
  cases hf : filterAnnotations cfg img (candidates cfg.rules.ruleIDs img) with
  | error e => simp [hf] at h
  | ok kept =>
    simp only [hf, Except.ok.injEq] at h
    subst h
    have hk := filterAnnotations_ok cfg img _ kept hf
    have hs := fileAnnotationSet_spec (kept.map (toFileAnnot img))
    have keptIff : ∀ a, a ∈ kept ↔ Kept cfg img a := by
      intro a
      rw [hk.2 a, mem_candidates]
      unfold Kept
      constructor
      · rintro ⟨⟨h1, h2⟩, h3⟩
        refine ⟨h1, h2, ?_⟩
        intro hsup
        have := (ignoreAnnotation_ok cfg img a false h3).2 hsup
        cases this
      · rintro ⟨h1, h2, h3⟩
        refine ⟨⟨h1, h2⟩, ?_⟩
        rcases hk.1 a ((mem_candidates _ _ _).2 ⟨h1, h2⟩) with ⟨b, hb⟩
        cases b with
        | false => exact hb
        | true => exact absurd ((ignoreAnnotation_ok cfg img a true hb).1 rfl) h3
    refine ⟨?_, ?_, ?_⟩
    · intro a h1 h2
      exact hk.1 a ((mem_candidates _ _ _).2 ⟨h1, h2⟩)
    · intro fa hfa
      rcases List.mem_map.1 (hs.1 fa hfa) with ⟨a, ha, rfl⟩
      exact ⟨a, (keptIff a).1 ha, rfl⟩
    · intro a ha
      exact hs.2 _ (List.mem_map.2 ⟨a, (keptIff a).2 ha, rfl⟩)


/-! ### what an id denotes, and selection -/

/-- The set of (non-deprecated) rule ids a rule-or-category id stands for: the rule itself or
    the rules of the category, each replaced by its replacements when deprecated.  Unknown and
    empty ids denote nothing. -/
def denote (rs : List RuleRow) (id : Id) : List Id :=
  ((expandOne rs id).getD []).flatMap (undeprecateOne rs)

/-- An id that is neither a rule id nor a category carried by a rule (of the type at hand). -/
def Unknown (rs : List RuleRow) (id : Id) : Prop :=
  id ≠ "" ∧ isRuleId rs id = false ∧ rulesInCategory rs id = []

instance (rs : List RuleRow) (id : Id) : Decidable (Unknown rs id) := by
  unfold Unknown; infer_instance

theorem expandOne_none_iff (rs : List RuleRow) (id : Id) : expandOne rs id = none ↔ Unknown rs id := by
  unfold expandOne Unknown
  by_cases h0 : id = ""
  · simp [h0]
  · simp only [h0, if_false]
    by_cases h1 : isRuleId rs id = true
    · simp [h1]
    · have h1' : isRuleId rs id = false := by simpa using h1
      simp only [h1', Bool.false_eq_true, if_false]
      cases hc : rulesInCategory rs id with
      | nil => simp [h0]
      | cons a l => simp

theorem mem_denote (rs : List RuleRow) (u x : Id) :
    x ∈ denote rs u ↔ ∃ e, expandOne rs u = some e ∧ ∃ id ∈ e, x ∈ undeprecateOne rs id := by
  unfold denote
  cases h : expandOne rs u with
  | none => simp
  | some e => simp [List.mem_flatMap]

theorem transformIds_error (rs : List RuleRow) (ids : List Id)
    (h : ∃ id ∈ ids, expandOne rs id = none) : transformIds rs ids = .error .unknownId := by
  unfold transformIds; rw [expandAll_error rs ids h]

theorem mem_undeprecate_transform (rs : List RuleRow) (ids l : List Id)
    (h : transformIds rs ids = .ok l) (x : Id) :
    x ∈ undeprecate rs l ↔ ∃ u ∈ ids, x ∈ denote rs u := by
  rw [mem_undeprecate]
  constructor
  · rintro ⟨id, hid, hx⟩
    rcases (transformIds_ok rs ids l h id).1 hid with ⟨u, hu, e, he, hie⟩
    exact ⟨u, hu, (mem_denote rs u x).2 ⟨e, he, id, hie, hx⟩⟩
  · rintro ⟨u, hu, hx⟩
    rcases (mem_denote rs u x).1 hx with ⟨e, he, id, hie, hxid⟩
    exact ⟨id, (transformIds_ok rs ids l h id).2 ⟨u, hu, e, he, hie⟩, hxid⟩

theorem newRulesConfig_unknown (all : List RuleRow) (lint : Bool) (c : CheckConfig)
    (hrs : rulesForType all lint ≠ [])
    (h : (∃ id ∈ effectiveUse (rulesForType all lint) c.use, expandOne (rulesForType all lint) id = none) ∨
         (∃ id ∈ uniqueSortedNoBlank c.except, expandOne (rulesForType all lint) id = none) ∨
         (∃ e ∈ c.ignoreOnly, expandOne (rulesForType all lint) e.1 = none)) :
    ∃ e, newRulesConfig all lint c = .error e := by
  unfold newRulesConfig newRulesConfigCore
  simp only [hrs, if_false]
  split
  · exact ⟨_, rfl⟩
  · cases h1 : transformIds (rulesForType all lint) (effectiveUse (rulesForType all lint) c.use) with
    | error e => exact ⟨_, rfl⟩
    | ok u =>
      cases h2 : transformIds (rulesForType all lint) (uniqueSortedNoBlank c.except) with
      | error e => exact ⟨_, rfl⟩
      | ok x =>
        cases h3 : expandIgnoreOnly (rulesForType all lint) c.ignoreOnly with
        | error e => exact ⟨_, rfl⟩
        | ok io =>
          exfalso
          rcases h with h | h | h
          · rw [transformIds_error _ _ h] at h1; cases h1
          · rw [transformIds_error _ _ h] at h2; cases h2
          · rw [expandIgnoreOnly_error _ _ h] at h3; cases h3


/-! ### orderings "more suppression" used by the monotonicity / scoping theorems -/

/-- `cfg'` suppresses at least what `cfg` suppresses: fewer (or the same) selected rules (more
    `except`), more `ignore` paths, more `ignore_only` entries, options switched on. -/
structure MoreSuppression (cfg cfg' : Config) : Prop where
  rules : ∀ r ∈ cfg'.rules.ruleIDs, r ∈ cfg.rules.ruleIDs
  ignore : ∀ p ∈ cfg.rules.ignoreRootPaths, p ∈ cfg'.rules.ignoreRootPaths
  ignoreOnly : ∀ e ∈ cfg.rules.ignoreOnly, e ∈ cfg'.rules.ignoreOnly
  imports : cfg.excludeImports = true → cfg'.excludeImports = true
  unstable : cfg.ignoreUnstablePackages = true → cfg'.ignoreUnstablePackages = true
  comments : cfg.allowCommentIgnores = true → cfg'.allowCommentIgnores = true
  pre : cfg'.commentIgnorePrefix = cfg.commentIgnorePrefix

/-- `f'` is `f` with (possibly) more comment-ignore directives. -/
structure MoreComments (f f' : FileInfo) : Prop where
  path : f'.path = f.path
  isImport : f'.isImport = f.isImport
  unstable : f'.unstable = f.unstable
  directives : ∀ pre r p, commentIgnoresAt f pre r p = true → commentIgnoresAt f' pre r p = true

/-- `img'` is `img` with (possibly) more comment-ignore directives in its files; the single-rule
    annotation sets are the same. -/
structure MoreCommentsImg (img img' : Image) : Prop where
  annots : img'.annots = img.annots
  files : ∀ i, MoreComments (fileAt img.files i) (fileAt img'.files i)
  againstFiles : ∀ i, MoreComments (fileAt img.againstFiles i) (fileAt img'.againstFiles i)

theorem MoreComments.refl (f : FileInfo) : MoreComments f f := ⟨rfl, rfl, rfl, fun _ _ _ h => h⟩
theorem MoreCommentsImg.refl (img : Image) : MoreCommentsImg img img :=
  ⟨rfl, fun _ => MoreComments.refl _, fun _ => MoreComments.refl _⟩

theorem Suppressed.mono {cfg cfg' : Config} {f f' : FileInfo} (hc : MoreSuppression cfg cfg')
    (hf : MoreComments f f') {r : Id} {sp : SPath} (h : Suppressed cfg r f sp) :
    Suppressed cfg' r f' sp := by
  rcases h with h | h | h | h | h
  · exact Or.inl ⟨hc.imports h.1, by rw [hf.isImport]; exact h.2⟩
  · rcases h with ⟨p, hp, he⟩
    exact Or.inr (Or.inl ⟨p, hc.ignore p hp, by rw [hf.path]; exact he⟩)
  · rcases h with ⟨p, hp, he⟩
    exact Or.inr (Or.inr (Or.inl ⟨p, hc.ignoreOnly _ hp, by rw [hf.path]; exact he⟩))
  · exact Or.inr (Or.inr (Or.inr (Or.inl ⟨hc.unstable h.1, by rw [hf.unstable]; exact h.2⟩)))
  · rcases h with ⟨h1, h2, h3, ps, hps, p, hp, hd⟩
    refine Or.inr (Or.inr (Or.inr (Or.inr ⟨hc.comments h1, by rw [hc.pre]; exact h2, h3, ps, hps, p, hp, ?_⟩)))
    rw [hc.pre]; exact hf.directives _ _ _ hd

theorem AnnotSuppressed.mono {cfg cfg' : Config} {img img' : Image} (hc : MoreSuppression cfg cfg')
    (hi : MoreCommentsImg img img') {a : Annot} (h : AnnotSuppressed cfg img a) :
    AnnotSuppressed cfg' img' a := by
  rcases h with ⟨x, hx, hs⟩ | ⟨x, hx, hs⟩
  · exact Or.inl ⟨x, hx, hs.mono hc (hi.files _)⟩
  · exact Or.inr ⟨x, hx, hs.mono hc (hi.againstFiles _)⟩

theorem toFileAnnot_moreComments {img img' : Image} (hi : MoreCommentsImg img img') (a : Annot) :
    toFileAnnot img' a = toFileAnnot img a := by
  unfold toFileAnnot
  cases a.loc with
  | none => rfl
  | some l => simp [(hi.files l.file).path]

/-- A suppression clause that holds under `cfg'` but not under `cfg` applies to rule `r` in
    file `f` at source path `sp`. -/
def NewlySuppressed (cfg cfg' : Config) (r : Id) (f : FileInfo) (sp : SPath) : Prop :=
  (ImportClause cfg' f ∧ ¬ ImportClause cfg f) ∨
  (∃ p ∈ cfg'.rules.ignoreRootPaths, p ∉ cfg.rules.ignoreRootPaths ∧ equalsOrContainsPath p f.path = true) ∨
  (∃ p, (r, p) ∈ cfg'.rules.ignoreOnly ∧ (r, p) ∉ cfg.rules.ignoreOnly ∧ equalsOrContainsPath p f.path = true) ∨
  (UnstableClause cfg' f ∧ ¬ UnstableClause cfg f) ∨
  (CommentClause cfg' r f sp ∧ ¬ CommentClause cfg r f sp)

theorem newlySuppressed_of {cfg cfg' : Config} {r : Id} {f : FileInfo} {sp : SPath}
    (h' : Suppressed cfg' r f sp) (h : ¬ Suppressed cfg r f sp) : NewlySuppressed cfg cfg' r f sp := by
  have n1 : ¬ ImportClause cfg f := fun x => h (Or.inl x)
  have n2 : ¬ IgnorePathClause cfg f := fun x => h (Or.inr (Or.inl x))
  have n3 : ¬ IgnoreOnlyClause cfg r f := fun x => h (Or.inr (Or.inr (Or.inl x)))
  have n4 : ¬ UnstableClause cfg f := fun x => h (Or.inr (Or.inr (Or.inr (Or.inl x))))
  have n5 : ¬ CommentClause cfg r f sp := fun x => h (Or.inr (Or.inr (Or.inr (Or.inr x))))
  rcases h' with h' | h' | h' | h' | h'
  · exact Or.inl ⟨h', n1⟩
  · rcases h' with ⟨p, hp, he⟩
    exact Or.inr (Or.inl ⟨p, hp, fun hin => n2 ⟨p, hin, he⟩, he⟩)
  · rcases h' with ⟨p, hp, he⟩
    exact Or.inr (Or.inr (Or.inl ⟨p, hp, fun hin => n3 ⟨p, hin, he⟩, he⟩))
  · exact Or.inr (Or.inr (Or.inr (Or.inl ⟨h', n4⟩)))
  · exact Or.inr (Or.inr (Or.inr (Or.inr ⟨h', n5⟩)))

end BufModel.Rules
