import BufProofs.Lemmas.BreakingAdditive
/-
  Membership lemmas for C03: an annotation produced by a rule body on a matched pair (or on a
  previous element without counterpart) is part of the rule's / the category's result.
-/
namespace BufProofs.Breaking
open BufModel.Schema BufModel.Breaking

theorem mem_check {v : Ver} {cat id : String} {cur prev : Schema} {a : Ann}
    (hid : id ∈ rulesOf v cat) (ha : a ∈ runRule id cur prev) : a ∈ check v cat cur prev := by
  unfold check
  exact List.mem_flatMap.2 ⟨id, hid, ha⟩

theorem annAt_head (rule file : String) (locs : List SPath) (p : SPath) (rest : List SPath) (fb : String)
    (h : p ∈ locs) : annAt rule file locs (p :: rest) fb = ⟨rule, file, p⟩ := by
  unfold annAt
  simp [List.find?, h]

variable {cur prev : Schema}

theorem mem_filePairs (hw : WF cur) {f : File → File → List Ann} {pf cf : File} {a : Ann}
    (hpf : pf ∈ prev) (hcf : cf ∈ cur) (hpath : cf.path = pf.path) (ha : a ∈ f cf pf) :
    a ∈ filePairs cur prev f := by
  unfold filePairs
  exact mem_pairwise_pair_unique File.path cur prev _ _ pf cf a hw.files hpf hcf hpath ha

theorem mem_msgPairs (hw : WF cur) {f : FlatMsg → FlatMsg → List Ann} {pm cm : FlatMsg} {a : Ann}
    (hpm : pm ∈ allMsgs prev) (hcm : cm ∈ allMsgs cur) (hname : cm.fullName = pm.fullName) (ha : a ∈ f cm pm) :
    a ∈ msgPairs cur prev f := by
  unfold msgPairs
  exact mem_pairwise_pair_unique FlatMsg.fullName _ _ _ _ pm cm a hw.msgs hpm hcm hname ha

theorem mem_enumPairs (hw : WF cur) {f : FlatEnum → FlatEnum → List Ann} {pe ce : FlatEnum} {a : Ann}
    (hpe : pe ∈ allEnums prev) (hce : ce ∈ allEnums cur) (hname : ce.fullName = pe.fullName) (ha : a ∈ f ce pe) :
    a ∈ enumPairs cur prev f := by
  unfold enumPairs
  exact mem_pairwise_pair_unique FlatEnum.fullName _ _ _ _ pe ce a hw.enums hpe hce hname ha

theorem mem_svcPairs (hw : WF cur) {f : FlatSvc → FlatSvc → List Ann} {ps cs : FlatSvc} {a : Ann}
    (hps : ps ∈ allSvcs prev) (hcs : cs ∈ allSvcs cur) (hname : cs.fullName = ps.fullName) (ha : a ∈ f cs ps) :
    a ∈ svcPairs cur prev f := by
  unfold svcPairs
  exact mem_pairwise_pair_unique FlatSvc.fullName _ _ _ _ ps cs a hw.svcs hps hcs hname ha

/-- a field of a previous message and the field with the same number of the same-named current message -/
theorem mem_fieldPairs (hw : WF cur) {f : FlatField → FlatField → List Ann} {pm cm : FlatMsg}
    {pf cf : FlatField} {a : Ann}
    (hpm : pm ∈ allMsgs prev) (hcm : cm ∈ allMsgs cur) (hname : cm.fullName = pm.fullName)
    (hpf : pf ∈ msgFields pm) (hcf : cf ∈ msgFields cm) (hnum : cf.field.number = pf.field.number)
    (ha : a ∈ f cf pf) : a ∈ fieldPairs cur prev f := by
  unfold fieldPairs
  apply List.mem_append_left
  apply mem_msgPairs hw hpm hcm hname
  apply mem_pairwise_pair_unique (fun x : FlatField => x.field.number) _ _ _ _ pf cf a _ hpf hcf hnum ha
  rw [msgFields_numbers]; exact hw.fields cm hcm

/-- `cf` (current) and `pf` (previous) are paired by NewBreakingFieldPairRuleHandler: the fields with
    the same number of two same-named messages, or two extensions (at any nesting, in any files) of
    the same extendee with the same number -/
def FieldPaired (cur prev : Schema) (cf pf : FlatField) : Prop :=
  (∃ pm cm, pm ∈ allMsgs prev ∧ cm ∈ allMsgs cur ∧ cm.fullName = pm.fullName ∧
      pf ∈ msgFields pm ∧ cf ∈ msgFields cm ∧ cf.field.number = pf.field.number) ∨
  (pf ∈ extFields prev ∧ cf ∈ extFields cur ∧ cf.field.extendee = pf.field.extendee ∧
      cf.field.number = pf.field.number)

theorem mem_fieldPairs_paired (hw : WF cur) {f : FlatField → FlatField → List Ann} {pf cf : FlatField} {a : Ann}
    (hp : FieldPaired cur prev cf pf) (ha : a ∈ f cf pf) : a ∈ fieldPairs cur prev f := by
  rcases hp with ⟨pm, cm, hpm, hcm, hname, hpf, hcf, hnum⟩ | ⟨hpf, hcf, hx, hn⟩
  · exact mem_fieldPairs hw hpm hcm hname hpf hcf hnum ha
  · unfold fieldPairs
    apply List.mem_append_right
    exact mem_pairwise_pair_unique (fun x : FlatField => (x.field.extendee, x.field.number)) _ _ _ _ pf cf a
      hw.exts hpf hcf (by rw [hx, hn]) ha

theorem mem_methodPairs (hw : WF cur) {f : FlatMethod → FlatMethod → List Ann} {ps cs : FlatSvc}
    {pm cm : FlatMethod} {a : Ann}
    (hps : ps ∈ allSvcs prev) (hcs : cs ∈ allSvcs cur) (hname : cs.fullName = ps.fullName)
    (hpm : pm ∈ svcMethods ps) (hcm : cm ∈ svcMethods cs) (hn : cm.m.name = pm.m.name)
    (ha : a ∈ f cm pm) : a ∈ methodPairs cur prev f := by
  unfold methodPairs
  apply mem_svcPairs hw hps hcs hname
  apply mem_pairwise_pair_unique (fun x : FlatMethod => x.m.name) _ _ _ _ pm cm a _ hpm hcm hn ha
  rw [svcMethods_names]; exact hw.methods cs hcs

theorem runRule_eq {id : String} {f : Schema → Schema → List Ann} (h : ruleTable.lookup id = some f)
    (cur prev : Schema) : runRule id cur prev = f cur prev := by
  unfold runRule; rw [h]

/-! ### where each rule is active — the DOCUMENTED table (hand-written from the buf documentation
    "Rules and categories" of the three configuration versions), checked by `decide` against the
    REGENERATED `BufGen.BreakingTables` (`docTable_exact`; re-exported as `C03.rules_active`). -/

/-- the four breaking categories -/
def allCats : List String := ["FILE", "PACKAGE", "WIRE_JSON", "WIRE"]

structure DocRow where
  id : String
  v1beta1 : List String
  v1 : List String
  v2 : List String

def DocRow.cats (r : DocRow) : Ver → List String
  | .v1beta1 => r.v1beta1 | .v1 => r.v1 | .v2 => r.v2

def inF : List String := ["FILE"]
def inFP : List String := ["FILE", "PACKAGE"]
def inFPJ : List String := ["FILE", "PACKAGE", "WIRE_JSON"]
def inAll : List String := ["FILE", "PACKAGE", "WIRE_JSON", "WIRE"]
def inP : List String := ["PACKAGE"]
def inJ : List String := ["WIRE_JSON"]
def inJW : List String := ["WIRE_JSON", "WIRE"]
def inW : List String := ["WIRE"]

def same (id : String) (c : List String) : DocRow := ⟨id, c, c, c⟩

def docTable : List DocRow := [
  same "ENUM_NO_DELETE" inF,
  ⟨"EXTENSION_NO_DELETE", [], [], inF⟩,
  same "FILE_NO_DELETE" inF,
  same "MESSAGE_NO_DELETE" inF,
  same "SERVICE_NO_DELETE" inF,
  same "ENUM_SAME_TYPE" inFP,
  same "ENUM_SAME_JSON_FORMAT" inFPJ,
  same "ENUM_VALUE_NO_DELETE" inFP,
  same "ENUM_VALUE_NO_DELETE_UNLESS_NAME_RESERVED" inJ,
  same "ENUM_VALUE_NO_DELETE_UNLESS_NUMBER_RESERVED" inJW,
  same "ENUM_VALUE_SAME_NAME" inFPJ,
  same "RESERVED_ENUM_NO_DELETE" inAll,
  same "EXTENSION_MESSAGE_NO_DELETE" inFP,
  same "FIELD_NO_DELETE" inFP,
  same "FIELD_NO_DELETE_UNLESS_NAME_RESERVED" inJ,
  same "FIELD_NO_DELETE_UNLESS_NUMBER_RESERVED" inJW,
  same "MESSAGE_NO_REMOVE_STANDARD_DESCRIPTOR_ACCESSOR" inFP,
  same "ONEOF_NO_DELETE" inFP,
  same "MESSAGE_SAME_JSON_FORMAT" inFPJ,
  same "MESSAGE_SAME_REQUIRED_FIELDS" inAll,
  same "RESERVED_MESSAGE_NO_DELETE" inAll,
  ⟨"FIELD_SAME_CARDINALITY", inAll, inFP, inFP⟩,
  same "FIELD_WIRE_COMPATIBLE_CARDINALITY" inW,
  same "FIELD_WIRE_JSON_COMPATIBLE_CARDINALITY" inJ,
  ⟨"FIELD_SAME_TYPE", inAll, inFP, inFP⟩,
  ⟨"FIELD_WIRE_COMPATIBLE_TYPE", [], inW, inW⟩,
  ⟨"FIELD_WIRE_JSON_COMPATIBLE_TYPE", [], inJ, inJ⟩,
  same "FIELD_SAME_JSTYPE" inFP,
  same "FIELD_SAME_UTF8_VALIDATION" inFP,
  same "FIELD_SAME_JSON_NAME" inFPJ,
  same "FIELD_SAME_NAME" inFPJ,
  ⟨"FIELD_SAME_DEFAULT", [], [], inAll⟩,
  same "FIELD_SAME_ONEOF" inAll,
  same "RPC_NO_DELETE" inFP,
  same "RPC_SAME_CLIENT_STREAMING" inAll,
  same "RPC_SAME_SERVER_STREAMING" inAll,
  same "RPC_SAME_IDEMPOTENCY_LEVEL" inAll,
  same "RPC_SAME_REQUEST_TYPE" inAll,
  same "RPC_SAME_RESPONSE_TYPE" inAll,
  same "PACKAGE_ENUM_NO_DELETE" inP,
  ⟨"PACKAGE_EXTENSION_NO_DELETE", [], [], inP⟩,
  same "PACKAGE_MESSAGE_NO_DELETE" inP,
  same "PACKAGE_SERVICE_NO_DELETE" inP,
  same "PACKAGE_NO_DELETE" inP,
  same "FILE_SAME_SYNTAX" inFP,
  ⟨"FILE_SAME_PACKAGE", inF, inAll, inAll⟩,
  same "FILE_SAME_CC_ENABLE_ARENAS" inFP, same "FILE_SAME_CC_GENERIC_SERVICES" inFP,
  same "FILE_SAME_CSHARP_NAMESPACE" inFP, same "FILE_SAME_GO_PACKAGE" inFP,
  same "FILE_SAME_JAVA_GENERIC_SERVICES" inFP, same "FILE_SAME_JAVA_MULTIPLE_FILES" inFP,
  same "FILE_SAME_JAVA_OUTER_CLASSNAME" inFP, same "FILE_SAME_JAVA_PACKAGE" inFP,
  same "FILE_SAME_OBJC_CLASS_PREFIX" inFP, same "FILE_SAME_OPTIMIZE_FOR" inFP,
  same "FILE_SAME_PHP_CLASS_PREFIX" inFP, same "FILE_SAME_PHP_METADATA_NAMESPACE" inFP,
  same "FILE_SAME_PHP_NAMESPACE" inFP, same "FILE_SAME_PY_GENERIC_SERVICES" inFP,
  same "FILE_SAME_RUBY_PACKAGE" inFP, same "FILE_SAME_SWIFT_PREFIX" inFP]

theorem docTable_ids : docTable.map (·.id) = ruleTable.map (·.1) ++ fileOptRules.map (·.1) := by decide

theorem docTable_exact : ∀ v : Ver, ∀ r ∈ docTable, ∀ cat ∈ allCats,
    (cat ∈ r.cats v ↔ r.id ∈ rulesOf v cat) := by
  intro v; cases v <;> decide


theorem docTable_cats : ∀ v : Ver, ∀ r ∈ docTable, ∀ c ∈ r.cats v, c ∈ allCats := by
  intro v; cases v <;> decide

/-- the regenerated tables know no category besides the four -/
theorem table_cats : ∀ v : Ver, ∀ r ∈ v.table, ∀ c ∈ r.cats, c ∈ allCats := by
  intro v; cases v <;> decide

/-- every documented rule is active somewhere in the newest configuration version -/
theorem docTable_v2_nonempty : ∀ r ∈ docTable, r.cats .v2 ≠ [] := by decide

/-- the categories in which rule `id` is documented to be active under config version `v` -/
def activeCats (id : String) (v : Ver) : List String :=
  match docTable.find? (fun r => r.id == id) with
  | some r => r.cats v
  | none => []

theorem active_sound {id : String} {v : Ver} {cat : String} (h : cat ∈ activeCats id v) :
    id ∈ rulesOf v cat := by
  unfold activeCats at h
  split at h
  · rename_i r hr
    have hmem := List.mem_of_find?_eq_some hr
    have hid : r.id = id := by simpa using List.find?_some hr
    have hcat : cat ∈ allCats := docTable_cats v r hmem cat h
    exact hid ▸ (docTable_exact v r hmem cat hcat).1 h
  · cases h

theorem cat_of_mem_rulesOf {id : String} {v : Ver} {cat : String} (h : id ∈ rulesOf v cat) : cat ∈ allCats := by
  unfold rulesOf at h
  obtain ⟨h1, _⟩ := List.mem_filter.1 h
  obtain ⟨r, hr, _⟩ := List.mem_map.1 h1
  obtain ⟨hr1, hr2⟩ := List.mem_filter.1 hr
  exact table_cats v r hr1 cat (by simpa using hr2)

theorem active_complete {id : String} (hid : id ∈ docTable.map (·.id)) {v : Ver} {cat : String}
    (h : id ∈ rulesOf v cat) : cat ∈ activeCats id v := by
  obtain ⟨r0, hr0, hid0⟩ := List.mem_map.1 hid
  unfold activeCats
  cases hf : docTable.find? (fun r => r.id == id) with
  | none =>
    have := List.find?_eq_none.1 hf r0 hr0
    simp [hid0] at this
  | some r =>
    have hmem := List.mem_of_find?_eq_some hf
    have hrid : r.id = id := by simpa using List.find?_some hf
    exact (docTable_exact v r hmem cat (cat_of_mem_rulesOf h)).2 (hrid ▸ h)

/-- `Reports id a cur prev`: the annotation `a` is reported in EVERY configuration (config version ×
    category) in which rule `id` is documented to be active -/
def Reports (id : String) (a : Ann) (cur prev : Schema) : Prop :=
  ∀ (v : Ver) (cat : String), cat ∈ activeCats id v → a ∈ check v cat cur prev

theorem reports_of_run {id : String} {a : Ann} {cur prev : Schema} (h : a ∈ runRule id cur prev) :
    Reports id a cur prev :=
  fun _ _ hc => mem_check (active_sound hc) h

/-- the FILE_SAME_<option> ids are not in the main dispatch table -/
theorem fileOpt_not_in_ruleTable : ∀ p ∈ fileOptRules, (ruleTable.lookup p.1).isNone = true := by decide

end BufProofs.Breaking
