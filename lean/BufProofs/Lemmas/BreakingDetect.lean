import BufProofs.Lemmas.BreakingAdditive
/-
  Membership lemmas for C03: an annotation produced by a rule body on a matched pair (or on a
  previous element without counterpart) is part of the rule's / the category's result.
-/
namespace BufProofs.Breaking
open BufModel.Schema BufModel.Breaking

theorem mem_check {v : Ver} {cat id : String} {cur prev : Schema} {a : Ann}
    (hid : id ∈ rulesOf v cat) (ha : a ∈ runRule id cur prev) : a ∈ check v cat cur prev := by
  unfold check
  exact List.mem_flatMap.2 ⟨id, hid, ha⟩

theorem annAt_head (rule file : String) (locs : List SPath) (p : SPath) (rest : List SPath) (fb : String)
    (h : p ∈ locs) : annAt rule file locs (p :: rest) fb = ⟨rule, file, p⟩ := by
  unfold annAt
  simp [List.find?, h]

variable {cur prev : Schema}

theorem mem_filePairs (hw : WF cur) {f : File → File → List Ann} {pf cf : File} {a : Ann}
    (hpf : pf ∈ prev) (hcf : cf ∈ cur) (hpath : cf.path = pf.path) (ha : a ∈ f cf pf) :
    a ∈ filePairs cur prev f := by
  unfold filePairs
  exact mem_pairwise_pair_unique File.path cur prev _ _ pf cf a hw.files hpf hcf hpath ha

theorem mem_msgPairs (hw : WF cur) {f : FlatMsg → FlatMsg → List Ann} {pm cm : FlatMsg} {a : Ann}
    (hpm : pm ∈ allMsgs prev) (hcm : cm ∈ allMsgs cur) (hname : cm.fullName = pm.fullName) (ha : a ∈ f cm pm) :
    a ∈ msgPairs cur prev f := by
  unfold msgPairs
  exact mem_pairwise_pair_unique FlatMsg.fullName _ _ _ _ pm cm a hw.msgs hpm hcm hname ha

theorem mem_enumPairs (hw : WF cur) {f : FlatEnum → FlatEnum → List Ann} {pe ce : FlatEnum} {a : Ann}
    (hpe : pe ∈ allEnums prev) (hce : ce ∈ allEnums cur) (hname : ce.fullName = pe.fullName) (ha : a ∈ f ce pe) :
    a ∈ enumPairs cur prev f := by
  unfold enumPairs
  exact mem_pairwise_pair_unique FlatEnum.fullName _ _ _ _ pe ce a hw.enums hpe hce hname ha

theorem mem_svcPairs (hw : WF cur) {f : FlatSvc → FlatSvc → List Ann} {ps cs : FlatSvc} {a : Ann}
    (hps : ps ∈ allSvcs prev) (hcs : cs ∈ allSvcs cur) (hname : cs.fullName = ps.fullName) (ha : a ∈ f cs ps) :
    a ∈ svcPairs cur prev f := by
  unfold svcPairs
  exact mem_pairwise_pair_unique FlatSvc.fullName _ _ _ _ ps cs a hw.svcs hps hcs hname ha

/-- a field of a previous message and the field with the same number of the same-named current message -/
theorem mem_fieldPairs (hw : WF cur) {f : FlatField → FlatField → List Ann} {pm cm : FlatMsg}
    {pf cf : FlatField} {a : Ann}
    (hpm : pm ∈ allMsgs prev) (hcm : cm ∈ allMsgs cur) (hname : cm.fullName = pm.fullName)
    (hpf : pf ∈ msgFields pm) (hcf : cf ∈ msgFields cm) (hnum : cf.field.number = pf.field.number)
    (ha : a ∈ f cf pf) : a ∈ fieldPairs cur prev f := by
  unfold fieldPairs
  apply List.mem_append_left
  apply mem_msgPairs hw hpm hcm hname
  apply mem_pairwise_pair_unique (fun x : FlatField => x.field.number) _ _ _ _ pf cf a _ hpf hcf hnum ha
  rw [msgFields_numbers]; exact hw.fields cm hcm

theorem mem_methodPairs (hw : WF cur) {f : FlatMethod → FlatMethod → List Ann} {ps cs : FlatSvc}
    {pm cm : FlatMethod} {a : Ann}
    (hps : ps ∈ allSvcs prev) (hcs : cs ∈ allSvcs cur) (hname : cs.fullName = ps.fullName)
    (hpm : pm ∈ svcMethods ps) (hcm : cm ∈ svcMethods cs) (hn : cm.m.name = pm.m.name)
    (ha : a ∈ f cm pm) : a ∈ methodPairs cur prev f := by
  unfold methodPairs
  apply mem_svcPairs hw hps hcs hname
  apply mem_pairwise_pair_unique (fun x : FlatMethod => x.m.name) _ _ _ _ pm cm a _ hpm hcm hn ha
  rw [svcMethods_names]; exact hw.methods cs hcs

theorem runRule_eq {id : String} {f : Schema → Schema → List Ann} (h : ruleTable.lookup id = some f)
    (cur prev : Schema) : runRule id cur prev = f cur prev := by
  unfold runRule; rw [h]

end BufProofs.Breaking
