import BufModel.Case
/-
  Helper lemmas for the stringutil / protoversion model (C05).
-/
namespace BufModel.Case

/-! ### characters -/

theorem toNat_ofNat (n : Nat) (h : n < 55296) : (Char.ofNat n).toNat = n := by
  have : n.isValidChar := Or.inl h
  simp [Char.ofNat, this, Char.toNat, Char.ofNatAux]

theorem toNat_toUpper_of_lower (c : Char) (h : isLower c = true) : (toUpper c).toNat = c.toNat - 32 := by
  simp only [toUpper, h, if_true]
  simp [isLower] at h
  exact toNat_ofNat _ (by omega)

theorem toNat_toLower_of_upper (c : Char) (h : isUpper c = true) : (toLower c).toNat = c.toNat + 32 := by
  simp only [toLower, h, if_true]
  simp [isUpper] at h
  exact toNat_ofNat _ (by omega)

theorem toUpper_of_not_lower (c : Char) (h : isLower c = false) : toUpper c = c := by
  simp [toUpper, h]

theorem toLower_of_not_upper (c : Char) (h : isUpper c = false) : toLower c = c := by
  simp [toLower, h]

theorem upper_not_lower (c : Char) (h : isUpper c = true) : isLower c = false := by
  simp [isUpper, isLower] at *; omega

theorem lower_not_upper (c : Char) (h : isLower c = true) : isUpper c = false := by
  simp [isUpper, isLower] at *; omega

theorem toUpper_of_upper (c : Char) (h : isUpper c = true) : toUpper c = c :=
  toUpper_of_not_lower c (upper_not_lower c h)

theorem isUpper_toUpper_of_lower (c : Char) (h : isLower c = true) : isUpper (toUpper c) = true := by
  have := toNat_toUpper_of_lower c h
  simp [isUpper, isLower] at *; omega

theorem isLower_toLower_of_upper (c : Char) (h : isUpper c = true) : isLower (toLower c) = true := by
  have := toNat_toLower_of_upper c h
  simp [isUpper, isLower] at *; omega

theorem toUpper_ne_of_lower (c : Char) (h : isLower c = true) : toUpper c ≠ c := by
  intro e
  have := toNat_toUpper_of_lower c h
  rw [e] at this
  simp [isLower] at h; omega

theorem toLower_ne_of_upper (c : Char) (h : isUpper c = true) : toLower c ≠ c := by
  intro e
  have := toNat_toLower_of_upper c h
  rw [e] at this
  omega

/-- toLower never yields an upper-case letter. -/
theorem isUpper_toLower (c : Char) : isUpper (toLower c) = false := by
  cases h : isUpper c
  · rw [toLower_of_not_upper c h]; exact h
  · exact lower_not_upper _ (isLower_toLower_of_upper c h)

/-- toUpper never yields a lower-case letter. -/
theorem isLower_toUpper (c : Char) : isLower (toUpper c) = false := by
  cases h : isLower c
  · rw [toUpper_of_not_lower c h]; exact h
  · exact upper_not_lower _ (isUpper_toUpper_of_lower c h)

theorem alnum_not_delim (c : Char) (h : isAlnum c = true) : isDelimiter c = false := by
  simp [isAlnum, isUpper, isLower, isDigit, isDelimiter] at *; omega

theorem alnum_not_space (c : Char) (h : isAlnum c = true) : isSpace c = false := by
  simp [isAlnum, isUpper, isLower, isDigit, isSpace] at *; omega

theorem upper_alnum (c : Char) (h : isUpper c = true) : isAlnum c = true := by simp [isAlnum, h]

theorem underscore_delim (c : Char) (h : isUnderscore c = true) : isDelimiter c = true := by
  simp [isUnderscore, isDelimiter] at *; omega

theorem lower_alnum (c : Char) (h : isLower c = true) : isAlnum c = true := by simp [isAlnum, h]

theorem isDelimiter_toUpper (c : Char) : isDelimiter (toUpper c) = isDelimiter c := by
  cases h : isLower c
  · rw [toUpper_of_not_lower c h]
  · rw [alnum_not_delim _ (upper_alnum _ (isUpper_toUpper_of_lower c h)),
        alnum_not_delim _ (lower_alnum _ h)]

theorem isDelimiter_toLower (c : Char) : isDelimiter (toLower c) = isDelimiter c := by
  cases h : isUpper c
  · rw [toLower_of_not_upper c h]
  · rw [alnum_not_delim _ (lower_alnum _ (isLower_toLower_of_upper c h)),
        alnum_not_delim _ (upper_alnum _ h)]

theorem isSpace_toUpper (c : Char) : isSpace (toUpper c) = isSpace c := by
  cases h : isLower c
  · rw [toUpper_of_not_lower c h]
  · rw [alnum_not_space _ (upper_alnum _ (isUpper_toUpper_of_lower c h)),
        alnum_not_space _ (lower_alnum _ h)]

theorem isSpace_toLower (c : Char) : isSpace (toLower c) = isSpace c := by
  cases h : isUpper c
  · rw [toLower_of_not_upper c h]
  · rw [alnum_not_space _ (lower_alnum _ (isLower_toLower_of_upper c h)),
        alnum_not_space _ (upper_alnum _ h)]

theorem toUpper_toUpper (c : Char) : toUpper (toUpper c) = toUpper c :=
  toUpper_of_not_lower _ (isLower_toUpper c)

theorem toLower_toLower (c : Char) : toLower (toLower c) = toLower c :=
  toLower_of_not_upper _ (isUpper_toLower c)

end BufModel.Case

namespace BufModel.Case

/-! ### trimming -/

theorem lastIs_cons_cons (p : Char → Bool) (a b : Char) (cs : Str) :
    lastIs p (a :: b :: cs) = lastIs p (b :: cs) := rfl

theorem dropEnd_eq_self (p : Char → Bool) : ∀ s : Str, lastIs p s = false → dropEnd p s = s
  | [], _ => rfl
  | [c], h => by simp [lastIs] at h; simp [dropEnd, h]
  | a :: b :: cs, h => by
    have ih := dropEnd_eq_self p (b :: cs) (by simpa [lastIs_cons_cons] using h)
    show (match dropEnd p (b :: cs) with | [] => if p a then [] else [a] | r => a :: r) = a :: b :: cs
    rw [ih]

theorem trimBoth_eq_self (p : Char → Bool) (s : Str) (h1 : headIs p s = false) (h2 : lastIs p s = false) :
    trimBoth p s = s := by
  unfold trimBoth
  cases s with
  | nil => rfl
  | cons c cs =>
    have : p c = false := by simpa [headIs] using h1
    rw [List.dropWhile_cons_of_neg (by simp [this])]
    exact dropEnd_eq_self p _ h2

theorem lastIs_false_of_all (p q : Char → Bool) (hpq : ∀ c, q c = true → p c = false) :
    ∀ s : Str, s.all q = true → lastIs p s = false
  | [], _ => rfl
  | [c], h => by simp at h; simp [lastIs, hpq c h]
  | a :: b :: cs, h => by
    rw [lastIs_cons_cons]
    exact lastIs_false_of_all p q hpq (b :: cs) (by simp at h ⊢; exact h.2)

theorem mem_dropEnd (p : Char → Bool) : ∀ (s : Str) (x : Char), x ∈ dropEnd p s → x ∈ s
  | [], _, h => by simp [dropEnd] at h
  | c :: cs, x, h => by
    simp only [dropEnd] at h
    split at h
    · split at h
      · simp at h
      · simp at h; simp [h]
    · next r hr =>
      simp at h
      rcases h with h | h
      · simp [h]
      · have : x ∈ dropEnd p cs := by
          revert h; cases hd : dropEnd p cs <;> simp_all
        exact List.mem_cons_of_mem _ (mem_dropEnd p cs x this)

theorem mem_trimBoth (p : Char → Bool) (s : Str) (x : Char) (h : x ∈ trimBoth p s) : x ∈ s := by
  unfold trimBoth at h
  exact (List.dropWhile_sublist p).mem (mem_dropEnd p _ x h)

/-- dropEnd keeps the head when the head is not dropped. -/
theorem dropEnd_cons_of_not (p : Char → Bool) (c : Char) (cs : Str) (h : p c = false) :
    ∃ r, dropEnd p (c :: cs) = c :: r := by
  simp only [dropEnd]
  split
  · exact ⟨[], by simp [h]⟩
  · next r _ => exact ⟨_, rfl⟩

/-! ### ToPascalCase -/

theorem pascalGo_false_fix : ∀ cs : Str, (∀ c ∈ cs, isDelimiter c = false) → pascalGo false cs = cs
  | [], _ => rfl
  | c :: cs, h => by
    have hc : isDelimiter c = false := h c (by simp)
    have ih := pascalGo_false_fix cs (fun x hx => h x (by simp [hx]))
    simp only [pascalGo, hc, Bool.false_or]
    cases hu : isUpper c
    · simp [toLower_of_not_upper c hu, ih]
    · simp [toUpper_of_upper c hu, ih]

/-- The fixpoint condition of ToPascalCase: nothing to trim, no delimiter, first char not lower. -/
theorem pascal_fix (s : Str) (htrim : trimSpace s = s) (hd : ∀ c ∈ s, isDelimiter c = false)
    (hh : headIs isLower s = false) : toPascalCase s = s := by
  unfold toPascalCase
  rw [htrim]
  cases s with
  | nil => rfl
  | cons c cs =>
    have hc : isDelimiter c = false := hd c (by simp)
    have hl : isLower c = false := by simpa [headIs] using hh
    simp only [pascalGo, hc, Bool.true_or]
    simp [toUpper_of_not_lower c hl, pascalGo_false_fix cs (fun x hx => hd x (by simp [hx]))]

theorem pascalGo_no_delim : ∀ (cap : Bool) (cs : Str), ∀ x ∈ pascalGo cap cs, isDelimiter x = false
  | _, [], x, h => by simp [pascalGo] at h
  | cap, c :: cs, x, h => by
    simp only [pascalGo] at h
    split at h
    · exact pascalGo_no_delim true cs x h
    · next hc =>
      simp at h
      rcases h with h | h
      · subst h
        split
        · rw [isDelimiter_toUpper]; simpa using hc
        · rw [isDelimiter_toLower]; simpa using hc
      · exact pascalGo_no_delim false cs x h

theorem pascalGo_true_head : ∀ cs : Str, headIs isLower (pascalGo true cs) = false
  | [] => rfl
  | c :: cs => by
    simp only [pascalGo]
    split
    · exact pascalGo_true_head cs
    · simp [headIs, isLower_toUpper]

/-- every output character comes from a non-delimiter input character, case-mapped -/
theorem pascalGo_space : ∀ (cap : Bool) (cs : Str), (∀ c ∈ cs, isSpace c = true → isDelimiter c = true) →
    ∀ x ∈ pascalGo cap cs, isSpace x = false
  | _, [], _, x, h => by simp [pascalGo] at h
  | cap, c :: cs, hs, x, h => by
    simp only [pascalGo] at h
    split at h
    · exact pascalGo_space true cs (fun y hy => hs y (by simp [hy])) x h
    · next hc =>
      have hsp : isSpace c = false := by
        cases hsc : isSpace c
        · rfl
        · have := hs c (by simp) hsc; simp [this] at hc
      simp at h
      rcases h with h | h
      · subst h
        split
        · rw [isSpace_toUpper]; exact hsp
        · rw [isSpace_toLower]; exact hsp
      · exact pascalGo_space false cs (fun y hy => hs y (by simp [hy])) x h

theorem headIs_false_of_all (p : Char → Bool) : ∀ s : Str, (∀ c ∈ s, p c = false) → headIs p s = false
  | [], _ => rfl
  | c :: _, h => by simp [headIs, h c (by simp)]

theorem lastIs_false_of_forall (p : Char → Bool) : ∀ s : Str, (∀ c ∈ s, p c = false) → lastIs p s = false
  | [], _ => rfl
  | [c], h => by simp [lastIs, h c (by simp)]
  | a :: b :: cs, h => by
    rw [lastIs_cons_cons]
    exact lastIs_false_of_forall p (b :: cs) (fun x hx => h x (by simp at hx ⊢; exact Or.inr hx))

end BufModel.Case

namespace BufModel.Case

theorem eq_of_toNat_eq (c d : Char) (h : c.toNat = d.toNat) : c = d := by
  apply Char.ext
  apply UInt32.toNat_inj.mp
  exact h

theorem eq_underscore (c : Char) (h : isUnderscore c = true) : c = '_' := by
  apply eq_of_toNat_eq
  simp [isUnderscore] at h
  simpa using h

theorem underscore_not_upper (c : Char) (h : isUnderscore c = true) : isUpper c = false := by
  simp [isUnderscore, isUpper] at *; omega

theorem isUnderscore_lit : isUnderscore '_' = true := by decide

/-- the character actually examined by the loop -/
theorem snake_c_eq (c0 : Char) (h : isDelimiter c0 = true → isUnderscore c0 = true) :
    (if isDelimiter c0 then '_' else c0) = c0 := by
  cases hd : isDelimiter c0
  · simp
  · simp only [if_true]; exact (eq_underscore c0 (h hd)).symm

/-- Without upper-case letters (and with '_' as the only delimiter, never doubled) the loop of
    toSnakeCase copies its input. -/
theorem snakeGo_lower_fix : ∀ (cs : Str) (prev last : Char),
    (∀ c ∈ cs, isUpper c = false ∧ (isDelimiter c = true → isUnderscore c = true)) →
    noDoubleUnderscore (last :: cs) = true → snakeGo false prev last cs = cs
  | [], _, _, _, _ => rfl
  | c0 :: cs, prev, last, h, hn => by
    have ⟨hu, hdel⟩ := h c0 (by simp)
    have hc := snake_c_eq c0 hdel
    simp only [noDoubleUnderscore, Bool.and_eq_true, Bool.not_eq_true'] at hn
    have ih := snakeGo_lower_fix cs c0 c0 (fun x hx => h x (by simp [hx])) hn.2
    simp only [snakeGo, hc, isNewWord, hu, Bool.false_and, Bool.or_false, Bool.false_eq_true, if_false]
    have : (isDelimiter c0 && isUnderscore last) = false := by
      cases hd : isDelimiter c0
      · rfl
      · have := hdel hd; simp_all
    simp [this, ih]


theorem nextOk_false_of_head (cs : Str) (h : ∀ c ∈ cs, isUpperSnakeChar c = true) : nextOk cs = false := by
  cases cs with
  | nil => rfl
  | cons n rest =>
    have hn := h n (by simp)
    simp only [nextOk, isNewWord, Bool.true_and]
    simp only [isUpperSnakeChar, Bool.or_eq_true] at hn
    rcases hn with (hn | hn) | hn
    · simp [hn]
    · simp [hn]
    · simp [underscore_delim n hn]

theorem upperSnakeChar_not_lower (c : Char) (h : isUpperSnakeChar c = true) : isLower c = false := by
  simp [isUpperSnakeChar, isUpper, isDigit, isUnderscore, isLower] at *; omega

theorem upperSnakeChar_delim (c : Char) (h : isUpperSnakeChar c = true) (hd : isDelimiter c = true) :
    isUnderscore c = true := by
  simp [isUpperSnakeChar, isUpper, isDigit, isUnderscore, isDelimiter] at *; omega

theorem lowerSnakeChar_not_upper (c : Char) (h : isLowerSnakeChar c = true) : isUpper c = false := by
  simp [isLowerSnakeChar, isUpper, isDigit, isUnderscore, isLower] at *; omega

theorem lowerSnakeChar_delim (c : Char) (h : isLowerSnakeChar c = true) (hd : isDelimiter c = true) :
    isUnderscore c = true := by
  simp [isLowerSnakeChar, isLower, isDigit, isUnderscore, isDelimiter] at *; omega

/-- On [A-Z0-9_] input without "__" the loop of toSnakeCase copies its input: a new word is
    only started before a lower-case continuation or after a lower-case letter. -/
theorem snakeGo_upper_fix : ∀ (cs : Str) (prev last : Char),
    (∀ c ∈ cs, isUpperSnakeChar c = true) → isLower prev = false →
    noDoubleUnderscore (last :: cs) = true → snakeGo false prev last cs = cs
  | [], _, _, _, _, _ => rfl
  | c0 :: cs, prev, last, h, hp, hn => by
    have hk := h c0 (by simp)
    have hdel := upperSnakeChar_delim c0 hk
    have hc := snake_c_eq c0 hdel
    simp only [noDoubleUnderscore, Bool.and_eq_true, Bool.not_eq_true'] at hn
    have ih := snakeGo_upper_fix cs c0 c0 (fun x hx => h x (by simp [hx]))
      (upperSnakeChar_not_lower c0 hk) hn.2
    have hno := nextOk_false_of_head cs (fun x hx => h x (by simp [hx]))
    simp only [snakeGo, hc, isNewWord, hno, hp, Bool.false_and, Bool.or_false, Bool.and_false,
      Bool.false_eq_true, if_false]
    have : (isDelimiter c0 && isUnderscore last) = false := by
      cases hd : isDelimiter c0
      · rfl
      · have := hdel hd; simp_all
    simp [this, ih]

theorem not_delim_of_not_underscore {K : Char → Bool} (hK : ∀ c, K c = true → isDelimiter c = true → isUnderscore c = true)
    (c : Char) (hk : K c = true) (hu : isUnderscore c = false) : isDelimiter c = false := by
  cases hd : isDelimiter c
  · rfl
  · have := hK c hk hd; simp [this] at hu

theorem headIs_mono (p q : Char → Bool) (s : Str) (h : ∀ c ∈ s, p c = true → q c = true)
    (hq : headIs q s = false) : headIs p s = false := by
  cases s with
  | nil => rfl
  | cons c cs =>
    simp only [headIs] at *
    cases hp : p c
    · rfl
    · have := h c (by simp) hp; simp [this] at hq

theorem lastIs_mono (p q : Char → Bool) : ∀ (s : Str), (∀ c ∈ s, p c = true → q c = true) →
    lastIs q s = false → lastIs p s = false
  | [], _, _ => rfl
  | [c], h, hq => by
    simp only [lastIs] at *
    cases hp : p c
    · rfl
    · have := h c (by simp) hp; simp [this] at hq
  | a :: b :: cs, h, hq => by
    rw [lastIs_cons_cons] at *
    exact lastIs_mono p q (b :: cs) (fun x hx => h x (by simp at hx ⊢; exact Or.inr hx)) hq

/-- toSnakeCase (no digit splitting) is the identity on lower_snake identifiers. -/
theorem toSnakeCase_lower_fix (s : Str)
    (h : ∀ c ∈ s, isUpper c = false ∧ (isDelimiter c = true → isUnderscore c = true))
    (hh : headIs isUnderscore s = false) (hl : lastIs isUnderscore s = false)
    (hn : noDoubleUnderscore s = true) : toSnakeCase false s = s := by
  unfold toSnakeCase
  have hd1 : headIs isDelimiter s = false :=
    headIs_mono _ _ s (fun c hc hd => (h c hc).2 hd) hh
  have hd2 : lastIs isDelimiter s = false :=
    lastIs_mono _ _ s (fun c hc hd => (h c hc).2 hd) hl
  rw [trimBoth_eq_self _ s hd1 hd2]
  cases s with
  | nil => rfl
  | cons c cs =>
    simp only
    rw [snakeGo_lower_fix cs c c (fun x hx => h x (by simp [hx])) hn]

theorem toSnakeCase_upper_fix (s : Str) (h : ∀ c ∈ s, isUpperSnakeChar c = true)
    (hh : headIs isUnderscore s = false) (hl : lastIs isUnderscore s = false)
    (hn : noDoubleUnderscore s = true) : toSnakeCase false s = s := by
  unfold toSnakeCase
  have hd1 : headIs isDelimiter s = false :=
    headIs_mono _ _ s (fun c hc hd => upperSnakeChar_delim c (h c hc) hd) hh
  have hd2 : lastIs isDelimiter s = false :=
    lastIs_mono _ _ s (fun c hc hd => upperSnakeChar_delim c (h c hc) hd) hl
  rw [trimBoth_eq_self _ s hd1 hd2]
  cases s with
  | nil => rfl
  | cons c cs =>
    simp only
    rw [snakeGo_upper_fix cs c c (fun x hx => h x (by simp [hx]))
      (upperSnakeChar_not_lower c (h c (by simp))) hn]

theorem map_id_of_forall {f : Char → Char} : ∀ s : Str, (∀ c ∈ s, f c = c) → s.map f = s
  | [], _ => rfl
  | c :: cs, h => by
    simp [h c (by simp), map_id_of_forall cs (fun x hx => h x (by simp [hx]))]

end BufModel.Case

namespace BufModel.Case

theorem pascalIdent_fix (s : Str) (h : isPascalIdent s = true) : toPascalCase s = s := by
  cases s with
  | nil => simp [isPascalIdent] at h
  | cons c cs =>
    simp only [isPascalIdent, Bool.and_eq_true] at h
    have hall : (c :: cs).all isAlnum = true := by simp [upper_alnum c h.1]; simpa using h.2
    have hd : ∀ x ∈ c :: cs, isDelimiter x = false := fun x hx =>
      alnum_not_delim x (by simp at hall hx; rcases hx with rfl | hx; exact hall.1; exact hall.2 x hx)
    apply pascal_fix _ _ hd
    · simp [headIs, upper_not_lower c h.1]
    · exact trimBoth_eq_self _ _ (by simp [headIs, alnum_not_space c (upper_alnum c h.1)])
        (lastIs_false_of_all _ _ alnum_not_space _ hall)

theorem lowerSnakeIdent_fix (s : Str) (h : isLowerSnakeIdent s = true) : toLowerSnakeCase false s = s := by
  simp only [isLowerSnakeIdent, Bool.and_eq_true, Bool.not_eq_true', List.all_eq_true] at h
  obtain ⟨⟨⟨⟨_, hall⟩, hh⟩, hl⟩, hn⟩ := h
  unfold toLowerSnakeCase
  rw [toSnakeCase_lower_fix s (fun c hc => ⟨lowerSnakeChar_not_upper c (hall c hc),
    lowerSnakeChar_delim c (hall c hc)⟩) hh hl hn]
  exact map_id_of_forall s (fun c hc => toLower_of_not_upper c (lowerSnakeChar_not_upper c (hall c hc)))

theorem upperSnakeIdent_fix (s : Str) (h : isUpperSnakeIdent s = true) : toUpperSnakeCase false s = s := by
  simp only [isUpperSnakeIdent, Bool.and_eq_true, Bool.not_eq_true', List.all_eq_true] at h
  obtain ⟨⟨⟨⟨_, hall⟩, hh⟩, hl⟩, hn⟩ := h
  unfold toUpperSnakeCase
  rw [toSnakeCase_upper_fix s hall hh hl hn]
  exact map_id_of_forall s (fun c hc => toUpper_of_not_lower c (upperSnakeChar_not_lower c (hall c hc)))

end BufModel.Case

namespace BufModel.Case

theorem splitFirst_none (p0 : Char) (rest : Str) : ∀ s : Str, (∀ c ∈ s, c ≠ p0) →
    splitFirst (p0 :: rest) s = none
  | [], _ => by simp [splitFirst]
  | c :: cs, h => by
    have hc : c ≠ p0 := h c (by simp)
    have ih := splitFirst_none p0 rest cs (fun x hx => h x (by simp [hx]))
    have hpre : (p0 :: rest).isPrefixOf (c :: cs) = false := by
      simp [List.isPrefixOf, Ne.symm hc]
    simp [splitFirst, hpre, ih]

theorem digit_ne (c p0 : Char) (hc : isDigit c = true) (hp : isDigit p0 = false) : c ≠ p0 := by
  intro e; subst e; simp [hc] at hp

/-- `v<digits>` with 1 ≤ value ≤ 2^31-1 is accepted as a stable version. -/
theorem versionForComponent_stable (ds : Str) (hne : ds ≠ []) (hd : ds.all isDigit = true)
    (h1 : 1 ≤ digitsVal ds) (h2 : digitsVal ds ≤ 2147483647) :
    versionForComponent false ('v' :: ds) = some ⟨digitsVal ds, .stable, 0, 0, []⟩ := by
  have hall : ∀ c ∈ ds, isDigit c = true := List.all_eq_true.mp hd
  have hno : ∀ p0 rest, isDigit p0 = false → splitFirst (p0 :: rest) ds = none :=
    fun p0 rest hp => splitFirst_none p0 rest ds (fun c hc => digit_ne c p0 (hall c hc) hp)
  have hdot : contains ['.'] ('v' :: ds) = false := by
    have : splitFirst ['.'] ('v' :: ds) = none :=
      splitFirst_none '.' [] ('v' :: ds) (fun c hc => by
        simp at hc; rcases hc with rfl | hc
        · decide
        · exact digit_ne c '.' (hall c hc) (by decide))
    simp [contains, this]
  cases ds with
  | nil => exact absurd rfl hne
  | cons d ds' =>
    have hd0 : isDigit d = true := hall d (by simp)
    have hplus : d ≠ '+' := digit_ne d '+' hd0 (by decide)
    have hminus : d ≠ '-' := digit_ne d '-' hd0 (by decide)
    have hparse : parseInt32 (d :: ds') = some (Int.ofNat (digitsVal (d :: ds'))) := by
      unfold parseInt32
      split
      · rename_i heq; cases heq
      · rename_i heq; injection heq with h _; exact absurd h hplus
      · rename_i heq; injection heq with h _; exact absurd h hminus
      · simp [hd, h2]
    have hnum : getNumber (d :: ds') 1 = some (digitsVal (d :: ds')) := by
      unfold getNumber
      rw [hparse]
      have : ¬ ((Int.ofNat (digitsVal (d :: ds'))) < Int.ofNat 1) := by
        simp only [Int.ofNat_eq_natCast]; omega
      simp only [this, if_false]
      simp
    unfold versionForComponent
    simp only [hdot, Bool.false_eq_true, if_false]
    have hv : (('v' : Char) != 'v') = false := by decide
    simp only [hv, Bool.false_eq_true, if_false]
    have ht : splitFirst "test".toList (d :: ds') = none := hno 't' _ (by decide)
    have ha : contains "alpha".toList (d :: ds') = false := by
      have : splitFirst "alpha".toList (d :: ds') = none := hno 'a' _ (by decide)
      unfold contains; rw [this]; rfl
    have hb : contains "beta".toList (d :: ds') = false := by
      have : splitFirst "beta".toList (d :: ds') = none := hno 'b' _ (by decide)
      unfold contains; rw [this]; rfl
    simp only [ht, ha, hb, hnum, Bool.and_self, Bool.or_self, Bool.false_eq_true, if_false]

theorem versionForComponent_no_v (b : Bool) (c : Char) (cs : Str) (h : c ≠ 'v') :
    versionForComponent b (c :: cs) = none := by
  have hv : (c != 'v') = true := by simpa using h
  unfold versionForComponent
  cases cs with
  | nil => simp
  | cons d ds => simp [hv]

theorem splitDots_no_dot : ∀ s : Str, (∀ c ∈ s, c ≠ '.') → splitDots s = [s]
  | [], _ => rfl
  | c :: cs, h => by
    have ih := splitDots_no_dot cs (fun x hx => h x (by simp [hx]))
    have hc : (c == '.') = false := by simpa using h c (by simp)
    simp [splitDots, ih, hc]

/-- a package with a single component has no version, whatever the component is -/
theorem versionForPackage_single (b : Bool) (s : Str) (h : ∀ c ∈ s, c ≠ '.') :
    versionForPackage b s = none := by
  unfold versionForPackage
  split
  · rfl
  · simp [splitDots_no_dot s h]

/-! ### grammar REJECTION (used by the planting theorems of C05: "bad name ⇒ annotation") -/

/-- a name containing a delimiter (underscore, '.', '-', space, tab, CR, LF) is never a fixpoint
    of ToPascalCase -/
theorem toPascalCase_ne_of_delim (s : Str) (c : Char) (hc : c ∈ s) (hd : isDelimiter c = true) :
    toPascalCase s ≠ s := by
  intro e
  have := pascalGo_no_delim true (trimSpace s) c (by unfold toPascalCase at e; rw [e]; exact hc)
  simp [this] at hd

/-- a name starting with a lower-case letter is never a fixpoint of ToPascalCase -/
theorem toPascalCase_ne_of_lower_first (c : Char) (cs : Str) (hl : isLower c = true) :
    toPascalCase (c :: cs) ≠ c :: cs := by
  intro e
  have hsp : isSpace c = false := alnum_not_space c (lower_alnum c hl)
  have hdl : isDelimiter c = false := alnum_not_delim c (lower_alnum c hl)
  unfold toPascalCase trimSpace trimBoth at e
  rw [List.dropWhile_cons_of_neg (by simp [hsp])] at e
  obtain ⟨r, hr⟩ := dropEnd_cons_of_not isSpace c cs hsp
  rw [hr] at e
  simp only [pascalGo, hdl, Bool.true_or] at e
  simp at e
  exact toUpper_ne_of_lower c hl e.1

/-- a name containing an upper-case letter is never a fixpoint of ToLowerSnakeCase -/
theorem toLowerSnakeCase_ne_of_upper (b : Bool) (s : Str) (c : Char) (hc : c ∈ s) (hu : isUpper c = true) :
    toLowerSnakeCase b s ≠ s := by
  intro e
  rw [← e] at hc
  unfold toLowerSnakeCase at hc
  obtain ⟨y, _, rfl⟩ := List.mem_map.mp hc
  simp [isUpper_toLower] at hu

/-- a name containing a lower-case letter is never a fixpoint of ToUpperSnakeCase -/
theorem toUpperSnakeCase_ne_of_lower (b : Bool) (s : Str) (c : Char) (hc : c ∈ s) (hl : isLower c = true) :
    toUpperSnakeCase b s ≠ s := by
  intro e
  rw [← e] at hc
  unfold toUpperSnakeCase at hc
  obtain ⟨y, _, rfl⟩ := List.mem_map.mp hc
  simp [isLower_toUpper] at hl

end BufModel.Case
