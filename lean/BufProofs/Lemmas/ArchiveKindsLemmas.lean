import BufModel.ArchiveKinds
import BufProofs.Lemmas.PathLemmas
import BufProofs.Lemmas.BucketLemmas
/-
  Helper lemmas for the entry-kind theorems of C13 (Untar / Unzip loops over `RawEntry`).
-/
namespace BufModel.ArchiveKinds
open BufModel.Path BufModel.Bucket BufModel.Archive

/-- `unmapArchivePath` fails exactly on the refused names — whatever strip count and matcher. -/
theorem unmap_error_iff (name : Str) (n : Nat) (f : Str → Bool) :
    (∃ er, unmapArchivePath name n f = .error er) ↔ nameRejected name = true := by
  unfold unmapArchivePath nameRejected
  by_cases h0 : name = []
  · simp [h0]
  · simp only [h0, if_false, decide_false, Bool.false_or]
    cases hv : normalizeAndValidate name with
    | error e => simp
    | ok full =>
      simp only
      constructor
      · rintro ⟨er, h⟩
        split at h
        · cases h
        · split at h
          · cases h
          · split at h <;> cases h
      · intro h; cases h

theorem unmap_ok_of_not_rejected (name : Str) (n : Nat) (f : Str → Bool) (h : nameRejected name = false) :
    ∃ r, unmapArchivePath name n f = .ok r := by
  cases hu : unmapArchivePath name n f with
  | ok r => exact ⟨r, rfl⟩
  | error er =>
    have := (unmap_error_iff name n f).mp ⟨er, hu⟩
    rw [h] at this; cases this

/-- a path handed out by `unmapArchivePath` is always accepted by the memory bucket's Put -/
theorem memPut_unmapped (name : Str) (n : Nat) (f : Str → Bool) (p : Str)
    (h : unmapArchivePath name n f = .ok (some p)) (m : Mem) (c : Content) :
    memPut m p c = .ok ((p, c) :: m.erase p) := by
  obtain ⟨_, k, _, _, hk, hne, hp, _⟩ := unmapArchivePath_sound name n f p h
  unfold memPut; rw [hp, validatePath_renderKey hk hne]

/-- One entry, error side (no size limit): Untar and Unzip fail on an entry iff its name is
    refused — whatever its kind and whether or not it carries an AppleDouble name (fix 36b7500: the
    AppleDouble skip of Untar comes after the name check, as in Unzip). -/
theorem extractEntry_error_iff (fmt : Fmt) (n : Nat) (f : Str → Bool) (m : Mem) (e : Entry) :
    (∃ er, extractEntry fmt n f 0 m e = .error er) ↔ nameRejected e.name = true := by
  cases fmt with
  | tar =>
    unfold extractEntry
    simp only
    rw [← unmap_error_iff e.name n f]
    cases hu : unmapArchivePath e.name n f with
    | error er => simp
    | ok r =>
      cases r with
      | none => simp
      | some p =>
        simp only [ne_eq, not_true_eq_false, decide_false, Bool.false_and, Bool.false_eq_true, if_false]
        by_cases hr : e.isRegular = true
        · by_cases ha : isApple .tar e = true
          · simp [hr, ha]
          · simp [hr, ha, memPut_unmapped e.name n f p hu]
        · simp [hr]
  | zip =>
    unfold extractEntry
    simp only
    rw [← unmap_error_iff e.name n f]
    cases hu : unmapArchivePath e.name n f with
    | error er => simp
    | ok r =>
      cases r with
      | none => simp
      | some p =>
        simp only
        by_cases ha : isApple .zip e = true
        · simp [ha]
        · by_cases hr : e.isRegular = true
          · simp [ha, hr, memPut_unmapped e.name n f p hu]
          · simp [ha, hr]

/-- One entry with ANY size limit: a refused name is an error. -/
theorem extractEntry_rejects (fmt : Fmt) (n : Nat) (f : Str → Bool) (mx : Nat) (m : Mem) (e : Entry)
    (hrej : nameRejected e.name = true) :
    ∃ er, extractEntry fmt n f mx m e = .error er := by
  obtain ⟨er, hu⟩ := (unmap_error_iff e.name n f).mpr hrej
  cases fmt with
  | tar =>
    unfold extractEntry
    simp only [hu]
    exact ⟨er, rfl⟩
  | zip =>
    unfold extractEntry
    simp only [hu]
    exact ⟨er, rfl⟩

/-- One entry, write side: whatever the entry is, every object of the bucket afterwards was
    there before, or is the entry's own content under the path `unmapArchivePath` gave — and then
    the entry is a regular, non-AppleDouble one. -/
theorem extractEntry_writes (fmt : Fmt) (n : Nat) (f : Str → Bool) (mx : Nat) (m m' : Mem) (e : Entry)
    (h : extractEntry fmt n f mx m e = .ok m') :
    m' = m ∨ (e.isRegular = true ∧ isApple fmt e = false ∧
      ∃ p, unmapArchivePath e.name n f = .ok (some p) ∧ m' = (p, e.content) :: m.erase p) := by
  cases fmt with
  | tar =>
    unfold extractEntry at h
    simp only at h
    cases hu : unmapArchivePath e.name n f with
    | error er => rw [hu] at h; cases h
    | ok r =>
      rw [hu] at h
      cases r with
      | none => injection h with h; exact Or.inl h.symm
      | some p =>
        simp only at h
        by_cases hr : e.isRegular = true
        · simp only [hr, Bool.not_true, Bool.false_eq_true, if_false] at h
          by_cases ha : isApple .tar e = true
          · simp only [ha, if_true] at h; injection h with h; exact Or.inl h.symm
          · have ha' : isApple .tar e = false := by simpa using ha
            simp only [ha', Bool.false_eq_true, if_false] at h
            split at h
            · cases h
            · rw [memPut_unmapped e.name n f p hu] at h
              injection h with h
              exact Or.inr ⟨hr, ha', p, rfl, h.symm⟩
        · have hr' : e.isRegular = false := by simpa using hr
          simp only [hr', Bool.not_false, if_true] at h
          injection h with h; exact Or.inl h.symm
  | zip =>
    unfold extractEntry at h
    simp only at h
    cases hu : unmapArchivePath e.name n f with
    | error er => rw [hu] at h; cases h
    | ok r =>
      rw [hu] at h
      cases r with
      | none => injection h with h; exact Or.inl h.symm
      | some p =>
        simp only at h
        by_cases ha : isApple .zip e = true
        · simp only [ha, if_true] at h; injection h with h; exact Or.inl h.symm
        · have ha' : isApple .zip e = false := by simpa using ha
          simp only [ha', Bool.false_eq_true, if_false] at h
          by_cases hr : e.isRegular = true
          · simp only [hr, if_true] at h
            rw [memPut_unmapped e.name n f p hu] at h
            injection h with h
            exact Or.inr ⟨hr, ha', p, rfl, h.symm⟩
          · simp only [hr, Bool.false_eq_true, if_false] at h
            injection h with h; exact Or.inl h.symm

/-- The loop: an entry on which the step fails whatever the bucket holds makes the loop fail. -/
theorem extractInto_error_of_mem (fmt : Fmt) (n : Nat) (f : Str → Bool) (mx : Nat)
    (a : Archive) (e : Entry) (he : e ∈ a)
    (hbad : ∀ m, ∃ er, extractEntry fmt n f mx m e = .error er) (m : Mem) :
    ∃ er, (extractInto fmt n f mx a m).1 = some er := by
  induction a generalizing m with
  | nil => cases he
  | cons x rest ih =>
    unfold extractInto
    cases hx : extractEntry fmt n f mx m x with
    | error er => exact ⟨er, rfl⟩
    | ok m' =>
      simp only
      rcases List.mem_cons.mp he with rfl | hin
      · obtain ⟨er, h⟩ := hbad m; rw [hx] at h; cases h
      · exact ih hin m'

/-- The loop without a size limit fails iff some entry is one the step fails on. -/
theorem extractInto_error_iff (fmt : Fmt) (n : Nat) (f : Str → Bool) (a : Archive) (m : Mem) :
    (∃ er, (extractInto fmt n f 0 a m).1 = some er) ↔
      ∃ e ∈ a, nameRejected e.name = true := by
  induction a generalizing m with
  | nil => simp [extractInto]
  | cons x rest ih =>
    unfold extractInto
    cases hx : extractEntry fmt n f 0 m x with
    | error er =>
      simp only [Option.some.injEq, exists_eq', true_iff]
      exact ⟨x, List.mem_cons_self, (extractEntry_error_iff fmt n f m x).mp ⟨er, hx⟩⟩
    | ok m' =>
      simp only
      rw [ih m']
      constructor
      · rintro ⟨e, he, hp⟩; exact ⟨e, List.mem_cons_of_mem _ he, hp⟩
      · rintro ⟨e, he, hp⟩
        rcases List.mem_cons.mp he with rfl | hin
        · obtain ⟨er, h⟩ := (extractEntry_error_iff fmt n f m e).mpr hp
          rw [hx] at h; cases h
        · exact ⟨e, hin, hp⟩

/-- The loop, write side: every object of the bucket after the loop — finished or aborted — was
    there before or is the content of a regular, non-AppleDouble entry under the path
    `unmapArchivePath` computed from that entry's name. -/
theorem extractInto_writes (fmt : Fmt) (n : Nat) (f : Str → Bool) (mx : Nat) (a : Archive) (m : Mem) :
    ∀ kv ∈ (extractInto fmt n f mx a m).2, kv ∈ m ∨
      ∃ e ∈ a, e.isRegular = true ∧ isApple fmt e = false ∧
        unmapArchivePath e.name n f = .ok (some kv.1) ∧ kv.2 = e.content := by
  induction a generalizing m with
  | nil => intro kv h; exact Or.inl (by simpa [extractInto] using h)
  | cons x rest ih =>
    intro kv h
    unfold extractInto at h
    cases hx : extractEntry fmt n f mx m x with
    | error er => rw [hx] at h; exact Or.inl h
    | ok m' =>
      rw [hx] at h
      simp only at h
      rcases ih m' kv h with hin | ⟨e, he, hp⟩
      · rcases extractEntry_writes fmt n f mx m m' x hx with rfl | ⟨hr, ha, p, hu, hm'⟩
        · exact Or.inl hin
        · rw [hm'] at hin
          rcases List.mem_cons.mp hin with rfl | hin'
          · exact Or.inr ⟨x, List.mem_cons_self, hr, ha, hu, rfl⟩
          · exact Or.inl (List.mem_filter.mp hin').1
      · exact Or.inr ⟨e, List.mem_cons_of_mem _ he, hp⟩

/-- The loop, completeness side: when the loop finishes, every regular, non-AppleDouble entry that
    `unmapArchivePath` maps to a path has an object under that path (holding the content of the
    LAST such entry: `extractInto_writes`). -/
theorem extractInto_keeps_key (fmt : Fmt) (n : Nat) (f : Str → Bool) (mx : Nat) (a : Archive) (m : Mem)
    (p : Str) (hp : p ∈ m.keys) : p ∈ (extractInto fmt n f mx a m).2.keys := by
  induction a generalizing m with
  | nil => simpa [extractInto] using hp
  | cons x rest ih =>
    unfold extractInto
    cases hx : extractEntry fmt n f mx m x with
    | error er => exact hp
    | ok m' =>
      simp only
      apply ih m'
      rcases extractEntry_writes fmt n f mx m m' x hx with rfl | ⟨_, _, q, _, hm'⟩
      · exact hp
      · rw [hm']
        by_cases hq : q = p
        · subst hq; simp [Mem.keys]
        · simp only [Mem.keys, List.map_cons, List.mem_cons]
          right
          simp only [Mem.keys, List.mem_map] at hp
          obtain ⟨kv, hkv, rfl⟩ := hp
          exact List.mem_map.mpr ⟨kv, List.mem_filter.mpr ⟨hkv, by simpa using fun h => hq h.symm⟩, rfl⟩

/-- a regular, non-AppleDouble, mapped entry that the step accepts IS written -/
theorem extractEntry_regular (fmt : Fmt) (n : Nat) (f : Str → Bool) (mx : Nat) (m m' : Mem) (e : Entry)
    (hr : e.isRegular = true) (ha : isApple fmt e = false)
    (p : Str) (hu : unmapArchivePath e.name n f = .ok (some p))
    (hx : extractEntry fmt n f mx m e = .ok m') : m' = (p, e.content) :: m.erase p := by
  cases fmt with
  | tar =>
    unfold extractEntry at hx
    simp only [hu, hr, Bool.not_true, Bool.false_eq_true, if_false, ha] at hx
    split at hx
    · cases hx
    · rw [memPut_unmapped e.name n f p hu] at hx
      injection hx with hx; exact hx.symm
  | zip =>
    unfold extractEntry at hx
    simp only [hu, ha, Bool.false_eq_true, if_false, hr, if_true] at hx
    rw [memPut_unmapped e.name n f p hu] at hx
    injection hx with hx; exact hx.symm

theorem extractInto_regular_written (fmt : Fmt) (n : Nat) (f : Str → Bool) (mx : Nat) (a : Archive) (m : Mem)
    (hok : (extractInto fmt n f mx a m).1 = none)
    (e : Entry) (he : e ∈ a) (hr : e.isRegular = true) (ha : isApple fmt e = false)
    (p : Str) (hu : unmapArchivePath e.name n f = .ok (some p)) :
    p ∈ (extractInto fmt n f mx a m).2.keys := by
  induction a generalizing m with
  | nil => cases he
  | cons x rest ih =>
    unfold extractInto at hok ⊢
    cases hx : extractEntry fmt n f mx m x with
    | error er => rw [hx] at hok; cases hok
    | ok m' =>
      rw [hx] at hok
      simp only at hok ⊢
      rcases List.mem_cons.mp he with rfl | hin
      · apply extractInto_keeps_key
        rw [extractEntry_regular fmt n f mx m m' e hr ha p hu hx]
        simp [Mem.keys]
      · exact ih m' hok hin

/-- nothing reads the link name -/
theorem toEntry_linkname (e : RawEntry) (l : Str) : ({ e with linkname := l } : RawEntry).toEntry = e.toEntry := rfl

end BufModel.ArchiveKinds
