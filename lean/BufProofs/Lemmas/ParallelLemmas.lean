import BufModel.Parallel
namespace BufModel.Parallel

theorem verdictGo_true (c : Bool) (jobs : List JobSlot) : verdictGo c true jobs = true := by
  induction jobs with
  | nil => rfl
  | cons j rest ih =>
    unfold verdictGo
    split
    · rfl
    · simpa using ih

theorem verdictGo_false (c : Bool) (jobs : List JobSlot) :
    verdictGo c false jobs = jobs.any (·.fails) := by
  induction jobs with
  | nil => rfl
  | cons j rest ih =>
    unfold verdictGo
    simp only [Bool.and_false, Bool.false_eq_true, if_false, Bool.false_or, List.any_cons]
    cases hf : j.fails with
    | true => simp [verdictGo_true]
    | false => simpa using ih

/-- Sorting with a total, transitive, antisymmetric comparison is canonical: any two arrival
    orders of the same results give the same list. -/
theorem sort_canonical {α : Type} (le : α → α → Bool)
    (trans : ∀ a b c : α, le a b → le b c → le a c)
    (total : ∀ a b : α, le a b || le b a)
    (antisymm : ∀ a b : α, le a b → le b a → a = b)
    (l₁ l₂ : List α) (h : l₁.Perm l₂) : l₁.mergeSort le = l₂.mergeSort le := by
  apply List.Perm.eq_of_pairwise (le := fun a b => le a b = true)
  · intro a b _ _ hab hba; exact antisymm a b hab hba
  · exact List.pairwise_mergeSort trans total l₁
  · exact List.pairwise_mergeSort trans total l₂
  · exact (List.mergeSort_perm l₁ le).trans (h.trans (List.mergeSort_perm l₂ le).symm)


theorem filterMap_congr_mem {α β} (l : List α) (f g : α → Option β) (h : ∀ x ∈ l, f x = g x) :
    l.filterMap f = l.filterMap g := by
  induction l with
  | nil => rfl
  | cons a t ih =>
    simp only [List.filterMap_cons]
    rw [h a (by simp), ih (fun x hx => h x (by simp [hx]))]


end BufModel.Parallel
