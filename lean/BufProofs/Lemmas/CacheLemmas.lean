import BufModel.Cache
import BufProofs.Lemmas.BucketLemmas
import BufProofs.Props.C15
/-
  The inductive invariant of the module-cache writer protocol, for every interleaving of any
  number of writers with crashes and failures; files are written in any order, several in
  flight, each holding an arbitrary prefix.
-/
namespace BufModel.Cache
open BufModel.Path BufModel.Bucket

/-- Well-formed expectation: payload paths are distinct and none is the marker. -/
structure WF (exp : Expected) : Prop where
  nodup : (exp.payload.map (·.1)).Nodup
  noMarker : markerPath ∉ exp.payload.map (·.1)

def Complete (exp : Expected) (entry : Mem) : Prop :=
  ∀ pc ∈ exp.payload, entry.find pc.1 = some pc.2

def OnlyPayloadKeys (exp : Expected) (entry : Mem) : Prop :=
  ∀ kv ∈ entry, kv.1 = markerPath ∨ kv.1 ∈ exp.payload.map (·.1)

structure Inv (exp : Expected) (s : Sys) : Prop where
  markerComplete : markerOK s.entry = true → Complete exp s.entry ∧ s.entry.find markerPath = some markerCanonical
  /-- the writer inside a store holds the lock, there is no valid marker, every `done` object is
      there in full, every in-flight object is not done and holds exactly the recorded prefix -/
  writing : ∀ w done infl, s.writers[w]? = some (.writing done infl) →
    s.lock = some w ∧ markerOK s.entry = false ∧
      (∀ i ∈ done, ∀ pc, exp.payload[i]? = some pc → s.entry.find pc.1 = some pc.2) ∧
      (∀ ik ∈ infl, ik.1 ∉ done ∧ ∃ pc, exp.payload[ik.1]? = some pc ∧ ik.2 ≤ pc.2.length ∧
          s.entry.find pc.1 = some (takeStr ik.2 pc.2))
  lockHeld : ∀ w, s.lock = some w → ∃ done infl, s.writers[w]? = some (.writing done infl)
  keys : OnlyPayloadKeys exp s.entry
  nodupKeys : NodupKeys s.entry

theorem find_putObj_eq (m : Mem) (p : Str) (c : Content) : (putObj m p c).find p = some c := find_cons_eq _ _ _

theorem find_putObj_ne (m : Mem) (p q : Str) (c : Content) (h : p ≠ q) : (putObj m p c).find q = m.find q := by
  unfold putObj; rw [find_cons_ne _ _ _ _ h, find_erase_ne _ _ _ h]

theorem markerOK_putObj_ne (m : Mem) (p : Str) (c : Content) (h : p ≠ markerPath) :
    markerOK (putObj m p c) = markerOK m := by
  unfold markerOK; rw [find_putObj_ne _ _ _ _ h]

theorem markerGarbled_putObj_ne (m : Mem) (p : Str) (c : Content) (h : p ≠ markerPath) :
    markerGarbled (putObj m p c) = markerGarbled m := by
  unfold markerGarbled; rw [find_putObj_ne _ _ _ _ h]

theorem onlyKeys_putObj {exp : Expected} {m : Mem} (h : OnlyPayloadKeys exp m) (p : Str) (c : Content)
    (hp : p = markerPath ∨ p ∈ exp.payload.map (·.1)) : OnlyPayloadKeys exp (putObj m p c) := by
  intro kv hkv
  rcases List.mem_cons.mp hkv with e | hm
  · subst e; exact hp
  · exact h kv (List.mem_filter.mp hm).1

theorem getElem?_set_eq {α : Type} (l : List α) (i : Nat) (a : α) (h : i < l.length) : (l.set i a)[i]? = some a := by
  simp [h]

theorem getElem?_set_ne {α : Type} (l : List α) (i j : Nat) (a : α) (h : i ≠ j) : (l.set i a)[j]? = l[j]? := by
  simp [h]

theorem payload_path_mem {exp : Expected} {i : Nat} {pc : Str × Content} (h : exp.payload[i]? = some pc) :
    pc.1 ∈ exp.payload.map (·.1) :=
  List.mem_map.mpr ⟨pc, List.mem_of_getElem? h, rfl⟩

theorem payload_path_ne_marker {exp : Expected} (wf : WF exp) {i : Nat} {pc : Str × Content}
    (h : exp.payload[i]? = some pc) : pc.1 ≠ markerPath := by
  intro e; exact wf.noMarker (e ▸ payload_path_mem h)

theorem payload_paths_distinct {exp : Expected} (wf : WF exp) {i j : Nat} {a b : Str × Content}
    (hi : exp.payload[i]? = some a) (hj : exp.payload[j]? = some b) (hne : i ≠ j) : a.1 ≠ b.1 := by
  intro e
  have hi' : (exp.payload.map (·.1))[i]? = some a.1 := by simp [List.getElem?_map, hi]
  have hj' : (exp.payload.map (·.1))[j]? = some b.1 := by simp [List.getElem?_map, hj]
  rw [e] at hi'
  have hil : i < (exp.payload.map (·.1)).length := by
    rcases List.getElem?_eq_some_iff.mp hi' with ⟨h, _⟩; exact h
  have := (List.getElem?_inj hil wf.nodup (j := j)).mp (by rw [hi', hj'])
  exact hne this

theorem writing_unique {exp : Expected} {s : Sys} (inv : Inv exp s) {w w' : Nat} {d d' : List Nat}
    {f f' : List (Nat × Nat)}
    (h : s.writers[w]? = some (.writing d f)) (h' : s.writers[w']? = some (.writing d' f')) : w = w' := by
  have a := (inv.writing w d f h).1
  have b := (inv.writing w' d' f' h').1
  rw [a] at b; exact Option.some.inj b

theorem lt_of_getElem?_some {α : Type} {l : List α} {i : Nat} {a : α} (h : l[i]? = some a) : i < l.length := by
  rcases List.getElem?_eq_some_iff.mp h with ⟨h, _⟩; exact h

/-! ### in-flight bookkeeping -/

theorem takeStr_zero (c : Content) : takeStr 0 c = "" := by simp [takeStr]

theorem takeStr_length (c : Content) : takeStr c.length c = c := by
  unfold takeStr
  rw [← String.length_toList, List.take_length, String.ofList_toList]

theorem inflK_some_mem {infl : List (Nat × Nat)} {i k : Nat} (h : inflK infl i = some k) : (i, k) ∈ infl := by
  induction infl with
  | nil => cases h
  | cons jk rest ih =>
    obtain ⟨j, k'⟩ := jk
    unfold inflK at h
    split at h
    · rename_i e; subst e; injection h with h; subst h; exact List.mem_cons_self
    · exact List.mem_cons_of_mem _ (ih h)

theorem inflK_none_ne {infl : List (Nat × Nat)} {i : Nat} (h : inflK infl i = none) :
    ∀ ik ∈ infl, ik.1 ≠ i := by
  induction infl with
  | nil => intro ik hik; cases hik
  | cons jk rest ih =>
    obtain ⟨j, k'⟩ := jk
    unfold inflK at h
    split at h
    · cases h
    · rename_i hne
      intro ik hik
      rcases List.mem_cons.mp hik with e | hr
      · subst e; exact hne
      · exact ih h ik hr

theorem inflK_cons_eq (infl : List (Nat × Nat)) (i k : Nat) : inflK ((i, k) :: infl) i = some k := by
  simp [inflK]

theorem inflK_cons_ne (infl : List (Nat × Nat)) (i j k : Nat) (h : j ≠ i) :
    inflK ((j, k) :: infl) i = inflK infl i := by
  simp [inflK, h]

theorem inflK_dropIdx_ne (infl : List (Nat × Nat)) (i j : Nat) (h : i ≠ j) :
    inflK (dropIdx infl i) j = inflK infl j := by
  induction infl with
  | nil => rfl
  | cons jk rest ih =>
    obtain ⟨a, k'⟩ := jk
    by_cases ha : a = i
    · subst ha
      have : dropIdx ((a, k') :: rest) a = dropIdx rest a := by simp [dropIdx]
      rw [this, ih, inflK_cons_ne _ _ _ _ h]
    · have : dropIdx ((a, k') :: rest) i = (a, k') :: dropIdx rest i := by simp [dropIdx, ha]
      rw [this]
      by_cases haj : a = j
      · subst haj; rw [inflK_cons_eq, inflK_cons_eq]
      · rw [inflK_cons_ne _ _ _ _ haj, inflK_cons_ne _ _ _ _ haj]; exact ih

theorem mem_dropIdx {infl : List (Nat × Nat)} {i : Nat} {ik : Nat × Nat} (h : ik ∈ dropIdx infl i) :
    ik ∈ infl ∧ ik.1 ≠ i := by
  have := List.mem_filter.mp h
  exact ⟨this.1, by simpa using this.2⟩

theorem allDone_iff (n : Nat) (done : List Nat) : allDone n done = true ↔ ∀ i, i < n → i ∈ done := by
  unfold allDone
  simp [List.all_eq_true, List.mem_range]

/-! ### the invariant is inductive -/

/-- Updating writer `w` (which exists) to a non-writing pc, releasing/keeping `lock'`, with the
    same entry. -/
theorem inv_leave {exp : Expected} {s : Sys} (inv : Inv exp s) (w : Nat) (pcOld pcNew : WPc)
    (hw : s.writers[w]? = some pcOld) (hnew : ∀ d f, pcNew ≠ .writing d f)
    (lock' : Option Nat)
    (hlock : (∃ d f, pcOld = .writing d f) → lock' = none)
    (hlock2 : (∀ d f, pcOld ≠ .writing d f) → lock' = s.lock) :
    Inv exp { s with lock := lock', writers := setPc s.writers w pcNew } := by
  have hwl := lt_of_getElem?_some hw
  refine ⟨inv.markerComplete, ?_, ?_, inv.keys, inv.nodupKeys⟩
  · intro w' d f h
    by_cases e : w' = w
    · subst e; simp only [setPc] at h; rw [getElem?_set_eq _ _ _ hwl] at h
      exact absurd (Option.some.inj h) (hnew d f)
    · simp only [setPc] at h; rw [getElem?_set_ne _ _ _ _ (Ne.symm e)] at h
      have old := inv.writing w' d f h
      have hnw : ∀ d0 f0, pcOld ≠ .writing d0 f0 := by
        intro d0 f0 e0; subst e0; exact e (writing_unique inv h hw)
      simp only
      rw [hlock2 hnw]; exact old
  · intro w' hl
    simp only at hl
    by_cases hc : ∃ d f, pcOld = .writing d f
    · rw [hlock hc] at hl; cases hl
    · have hnw : ∀ d0 f0, pcOld ≠ .writing d0 f0 := fun d0 f0 e0 => hc ⟨d0, f0, e0⟩
      rw [hlock2 hnw] at hl
      obtain ⟨d, f, h⟩ := inv.lockHeld w' hl
      have : w' ≠ w := by intro e; subst e; rw [hw] at h; exact hnw d f (Option.some.inj h)
      exact ⟨d, f, by simp only [setPc]; rw [getElem?_set_ne _ _ _ _ (Ne.symm this)]; exact h⟩

/-- The lock holder `w` writes content `c` to payload object `k` (not done) and moves to
    `writing done' infl'`, where every new done index is an old one or `k` written in full, and
    every in-flight entry is an old one (other than `k`) or `k` holding the prefix `c`. -/
theorem inv_write {exp : Expected} (wf : WF exp) {s : Sys} (inv : Inv exp s) (w : Nat)
    (done : List Nat) (infl : List (Nat × Nat))
    (hw : s.writers[w]? = some (.writing done infl)) (k : Nat) (p : Str) (cfull c : Content)
    (hk : exp.payload[k]? = some (p, cfull)) (hkd : k ∉ done)
    (done' : List Nat) (infl' : List (Nat × Nat))
    (hdone' : ∀ i ∈ done', i ∈ done ∨ (i = k ∧ c = cfull))
    (hinfl' : ∀ ik ∈ infl', ik.1 ∉ done' ∧
      ((ik ∈ infl ∧ ik.1 ≠ k) ∨ (ik.1 = k ∧ ik.2 ≤ cfull.length ∧ c = takeStr ik.2 cfull))) :
    Inv exp { s with entry := putObj s.entry p c, writers := setPc s.writers w (.writing done' infl') } := by
  have hwl := lt_of_getElem?_some hw
  have old := inv.writing w done infl hw
  have hpm : p ≠ markerPath := payload_path_ne_marker wf hk
  have hmk : markerOK (putObj s.entry p c) = false := by rw [markerOK_putObj_ne _ _ _ hpm]; exact old.2.1
  refine ⟨?_, ?_, ?_, onlyKeys_putObj inv.keys p c (Or.inr (payload_path_mem hk)), nodupKeys_put inv.nodupKeys p c⟩
  · intro h; simp only at h; rw [hmk] at h; cases h
  · intro w' d0 f0 h
    by_cases e : w' = w
    · subst e; simp only [setPc] at h; rw [getElem?_set_eq _ _ _ hwl] at h
      have := Option.some.inj h
      injection this with e1 e2; subst e1; subst e2
      refine ⟨old.1, hmk, ?_, ?_⟩
      · intro i hi pc hpc
        rcases hdone' i hi with hold | ⟨hik, hc⟩
        · have hne : k ≠ i := fun e => hkd (e ▸ hold)
          have hp : p ≠ pc.1 := payload_paths_distinct wf hk hpc hne
          simp only
          rw [find_putObj_ne _ _ _ _ hp]
          exact old.2.2.1 i hold pc hpc
        · subst hik; rw [hk] at hpc; have := Option.some.inj hpc; subst this; subst hc
          exact find_putObj_eq _ _ _
      · intro ik hik
        obtain ⟨hnd, hcase⟩ := hinfl' ik hik
        refine ⟨hnd, ?_⟩
        rcases hcase with ⟨hold, hne⟩ | ⟨hik1, hlen, hc⟩
        · obtain ⟨_, pc, hpc, hl, hf⟩ := old.2.2.2 ik hold
          refine ⟨pc, hpc, hl, ?_⟩
          have hp : p ≠ pc.1 := payload_paths_distinct wf hk hpc (Ne.symm hne)
          simp only
          rw [find_putObj_ne _ _ _ _ hp]; exact hf
        · refine ⟨(p, cfull), by rw [hik1]; exact hk, hlen, ?_⟩
          simp only
          rw [find_putObj_eq, hc]
    · simp only [setPc] at h; rw [getElem?_set_ne _ _ _ _ (Ne.symm e)] at h
      exact absurd (writing_unique inv h hw) e
  · intro w' hl
    simp only at hl
    rw [old.1] at hl
    have : w' = w := (Option.some.inj hl).symm
    subst this
    exact ⟨done', infl', by simp only [setPc]; exact getElem?_set_eq _ _ _ hwl⟩

theorem step_inv {exp : Expected} (wf : WF exp) (s : Sys) (inv : Inv exp s) (a : Act) :
    Inv exp (step exp s a) := by
  cases a with
  | acquire w =>
    simp only [step]
    split
    · rename_i hw hl
      split
      · exact inv_leave inv w .start (.finished true) hw (by intro d f h; cases h) s.lock
          (by intro ⟨d, f, h⟩; cases h) (fun _ => rfl)
      · split
        · exact inv_leave inv w .start (.finished false) hw (by intro d f h; cases h) s.lock
            (by intro ⟨d, f, h⟩; cases h) (fun _ => rfl)
        · rename_i hmk _
          have hwl := lt_of_getElem?_some hw
          have hmk' : markerOK s.entry = false := by simpa using hmk
          refine ⟨inv.markerComplete, ?_, ?_, inv.keys, inv.nodupKeys⟩
          · intro w' d f h
            by_cases e : w' = w
            · subst e; simp only [setPc] at h; rw [getElem?_set_eq _ _ _ hwl] at h
              have := Option.some.inj h; injection this with e1 e2; subst e1; subst e2
              exact ⟨rfl, hmk', (by intro i hi; cases hi), (by intro ik hik; cases hik)⟩
            · simp only [setPc] at h; rw [getElem?_set_ne _ _ _ _ (Ne.symm e)] at h
              have := (inv.writing w' d f h).1
              rw [hl] at this; cases this
          · intro w' hl'
            simp only at hl'
            have : w' = w := (Option.some.inj hl').symm
            subst this
            exact ⟨[], [], by simp only [setPc]; exact getElem?_set_eq _ _ _ hwl⟩
    · exact inv
  | truncate w i =>
    simp only [step]
    split
    · rename_i done infl hw
      split
      · rename_i p c hk
        split
        · exact inv
        · rename_i hg
          simp only [Bool.or_eq_true, not_or, Bool.not_eq_true, List.contains_iff_mem] at hg
          have hnd : i ∉ done := by
            intro h; have := hg.1; simp [h] at this
          have hnone : inflK infl i = none := by
            cases h : inflK infl i with
            | none => rfl
            | some k => have := hg.2; simp [h] at this
          have old := inv.writing w done infl hw
          refine inv_write wf inv w done infl hw i p c "" hk hnd done ((i, 0) :: infl)
            (fun j hj => Or.inl hj) ?_
          intro ik hik
          rcases List.mem_cons.mp hik with e | hr
          · subst e
            exact ⟨hnd, Or.inr ⟨rfl, Nat.zero_le _, (takeStr_zero c).symm⟩⟩
          · exact ⟨(old.2.2.2 ik hr).1, Or.inl ⟨hr, inflK_none_ne hnone ik hr⟩⟩
      · exact inv
    · exact inv
  | grow w i k =>
    simp only [step]
    split
    · rename_i done infl hw
      split
      · rename_i p c k0 hk hk0
        split
        · rename_i hle
          have old := inv.writing w done infl hw
          have hmem := inflK_some_mem hk0
          have hnd : i ∉ done := (old.2.2.2 _ hmem).1
          refine inv_write wf inv w done infl hw i p c (takeStr k c) hk hnd done ((i, k) :: dropIdx infl i)
            (fun j hj => Or.inl hj) ?_
          intro ik hik
          rcases List.mem_cons.mp hik with e | hr
          · subst e
            exact ⟨hnd, Or.inr ⟨rfl, hle.2, rfl⟩⟩
          · have := mem_dropIdx hr
            exact ⟨(old.2.2.2 ik this.1).1, Or.inl this⟩
        · exact inv
      · exact inv
    · exact inv
  | fill w i =>
    simp only [step]
    split
    · rename_i done infl hw
      split
      · rename_i p c k0 hk hk0
        have old := inv.writing w done infl hw
        have hmem := inflK_some_mem hk0
        have hnd : i ∉ done := (old.2.2.2 _ hmem).1
        refine inv_write wf inv w done infl hw i p c c hk hnd (i :: done) (dropIdx infl i) ?_ ?_
        · intro j hj
          rcases List.mem_cons.mp hj with e | hr
          · exact Or.inr ⟨e, rfl⟩
          · exact Or.inl hr
        · intro ik hik
          have := mem_dropIdx hik
          refine ⟨?_, Or.inl this⟩
          intro hc
          rcases List.mem_cons.mp hc with e | hr
          · exact this.2 e
          · exact (old.2.2.2 ik this.1).1 hr
      · exact inv
    · exact inv
  | fail w =>
    simp only [step]
    split
    · rename_i d f hw
      exact inv_leave inv w (.writing d f) (.finished false) hw (by intro d f h; cases h) none
        (fun _ => rfl) (fun h => absurd rfl (h d f))
    · exact inv
  | commit w =>
    simp only [step]
    split
    · rename_i done infl hw
      split
      · rename_i hg
        simp only [Bool.and_eq_true] at hg
        have hall := (allDone_iff _ _).mp hg.2
        have hwl := lt_of_getElem?_some hw
        have old := inv.writing w done infl hw
        refine ⟨?_, ?_, ?_, onlyKeys_putObj inv.keys markerPath markerCanonical (Or.inl rfl),
          nodupKeys_put inv.nodupKeys _ _⟩
        · intro _
          refine ⟨?_, find_putObj_eq _ _ _⟩
          intro pc hpc
          obtain ⟨j, hjl, hj⟩ := List.getElem_of_mem hpc
          have hj' : exp.payload[j]? = some pc := by rw [List.getElem?_eq_getElem hjl, hj]
          have hne : markerPath ≠ pc.1 := fun e => payload_path_ne_marker wf hj' e.symm
          simp only
          rw [find_putObj_ne _ _ _ _ hne]
          exact old.2.2.1 j (hall j hjl) pc hj'
        · intro w' d0 f0 h
          by_cases e : w' = w
          · subst e; simp only [setPc] at h; rw [getElem?_set_eq _ _ _ hwl] at h
            cases Option.some.inj h
          · simp only [setPc] at h; rw [getElem?_set_ne _ _ _ _ (Ne.symm e)] at h
            exact absurd (writing_unique inv h hw) e
        · intro w' hl; simp only at hl; cases hl
      · exact inv
    · exact inv
  | commitFail w =>
    simp only [step]
    split
    · rename_i d f hw
      split
      · exact inv_leave inv w (.writing d f) (.finished false) hw (by intro d f h; cases h) none
          (fun _ => rfl) (fun h => absurd rfl (h d f))
      · exact inv
    · exact inv
  | crash w =>
    simp only [step]
    split
    · rename_i d f hw
      exact inv_leave inv w (.writing d f) .crashed hw (by intro d f h; cases h) none
        (fun _ => rfl) (fun h => absurd rfl (h d f))
    · rename_i hw
      exact inv_leave inv w .start .crashed hw (by intro d f h; cases h) s.lock
        (by intro ⟨d, f, h⟩; cases h) (fun _ => rfl)
    · exact inv

theorem runActs_inv {exp : Expected} (wf : WF exp) (acts : List Act) (s : Sys) (inv : Inv exp s) :
    Inv exp (runActs exp s acts) := by
  induction acts generalizing s with
  | nil => exact inv
  | cons a rest ih => exact ih _ (step_inv wf s inv a)

theorem runActs_append (exp : Expected) (s : Sys) (a b : List Act) :
    runActs exp s (a ++ b) = runActs exp (runActs exp s a) b := by
  simp [runActs, List.foldl_append]

theorem runActs_cons (exp : Expected) (s : Sys) (a : Act) (rest : List Act) :
    runActs exp s (a :: rest) = runActs exp (step exp s a) rest := rfl


/-! ### Who can change what -/

/-- A step changes the pc of at most one writer, and only of one that is `start` or `writing`. -/
theorem step_writers (exp : Expected) (s : Sys) (a : Act) :
    (step exp s a).writers = s.writers ∨
      ∃ w pcOld pcNew, s.writers[w]? = some pcOld ∧ (∀ b, pcOld ≠ WPc.finished b) ∧ pcOld ≠ WPc.crashed ∧
        (step exp s a).writers = setPc s.writers w pcNew ∧
          (pcNew = WPc.finished true → markerOK (step exp s a).entry = true) := by
  cases a with
  | acquire w =>
    simp only [step]; split
    · rename_i hw _
      split
      · rename_i hm
        exact Or.inr ⟨w, WPc.start, _, hw, (by intro b h; exact WPc.noConfusion h), (by intro h; cases h), rfl, (fun _ => hm)⟩
      · split
        · exact Or.inr ⟨w, WPc.start, _, hw, (by intro b h; exact WPc.noConfusion h), (by intro h; cases h), rfl, (by intro e; cases e)⟩
        · exact Or.inr ⟨w, WPc.start, _, hw, (by intro b h; exact WPc.noConfusion h), (by intro h; cases h), rfl, (by intro e; cases e)⟩
    · exact Or.inl rfl
  | truncate w i =>
    simp only [step]; split
    · rename_i d f hw
      split
      · split
        · exact Or.inl rfl
        · exact Or.inr ⟨w, WPc.writing _ _, _, hw, (by intro b h; exact WPc.noConfusion h), (by intro h; cases h), rfl, (by intro e; cases e)⟩
      · exact Or.inl rfl
    · exact Or.inl rfl
  | grow w i k =>
    simp only [step]; split
    · rename_i d f hw
      split
      · split
        · exact Or.inr ⟨w, WPc.writing _ _, _, hw, (by intro b h; exact WPc.noConfusion h), (by intro h; cases h), rfl, (by intro e; cases e)⟩
        · exact Or.inl rfl
      · exact Or.inl rfl
    · exact Or.inl rfl
  | fill w i =>
    simp only [step]; split
    · rename_i d f hw
      split
      · exact Or.inr ⟨w, WPc.writing _ _, _, hw, (by intro b h; exact WPc.noConfusion h), (by intro h; cases h), rfl, (by intro e; cases e)⟩
      · exact Or.inl rfl
    · exact Or.inl rfl
  | fail w =>
    simp only [step]; split
    · rename_i d f hw
      exact Or.inr ⟨w, WPc.writing _ _, _, hw, (by intro b h; exact WPc.noConfusion h), (by intro h; cases h), rfl, (by intro e; cases e)⟩
    · exact Or.inl rfl
  | commit w =>
    simp only [step]; split
    · rename_i d f hw
      split
      · refine Or.inr ⟨w, WPc.writing _ _, _, hw, (by intro b h; exact WPc.noConfusion h), (by intro h; cases h), rfl, ?_⟩
        intro _
        show markerOK (putObj s.entry markerPath markerCanonical) = true
        unfold markerOK; rw [find_putObj_eq]; decide
      · exact Or.inl rfl
    · exact Or.inl rfl
  | commitFail w =>
    simp only [step]; split
    · rename_i d f hw
      split
      · exact Or.inr ⟨w, WPc.writing _ _, _, hw, (by intro b h; exact WPc.noConfusion h), (by intro h; cases h), rfl, (by intro e; cases e)⟩
      · exact Or.inl rfl
    · exact Or.inl rfl
  | crash w =>
    simp only [step]; split
    · rename_i d f hw; exact Or.inr ⟨w, WPc.writing d f, _, hw, (by intro b h; exact WPc.noConfusion h), (by intro h; cases h), rfl, (by intro e; cases e)⟩
    · rename_i hw; exact Or.inr ⟨w, WPc.start, _, hw, (by intro b h; exact WPc.noConfusion h), (by intro h; cases h), rfl, (by intro e; cases e)⟩
    · exact Or.inl rfl

/-- A finished writer stays finished. -/
theorem finished_stays (exp : Expected) (s : Sys) (a : Act) (w0 : Nat) (b : Bool)
    (h : s.writers[w0]? = some (WPc.finished b)) : (step exp s a).writers[w0]? = some (WPc.finished b) := by
  rcases step_writers exp s a with e | ⟨w, pcOld, pcNew, hw, hnf, _, e, _⟩
  · rw [e]; exact h
  · rw [e]
    have : w ≠ w0 := by intro e'; subst e'; rw [h] at hw; exact hnf b (Option.some.inj hw).symm
    simp only [setPc]; rw [getElem?_set_ne _ _ _ _ this]; exact h

/-- Once the marker is valid no step of any writer modifies the entry. -/
theorem step_entry_stable (exp : Expected) (s : Sys) (inv : Inv exp s) (hm : markerOK s.entry = true) (a : Act) :
    (step exp s a).entry = s.entry := by
  have nowriting : ∀ (w : Nat) (d : List Nat) (f : List (Nat × Nat)), s.writers[w]? ≠ some (WPc.writing d f) := by
    intro w d f h
    have := (inv.writing w d f h).2.1
    rw [hm] at this; cases this
  cases a with
  | acquire w =>
    simp only [step]; repeat' split
    all_goals rfl
  | truncate w i =>
    simp only [step]; split
    · rename_i d f hw; exact absurd hw (nowriting w d f)
    · rfl
  | grow w i k =>
    simp only [step]; split
    · rename_i d f hw; exact absurd hw (nowriting w d f)
    · rfl
  | fill w i =>
    simp only [step]; split
    · rename_i d f hw; exact absurd hw (nowriting w d f)
    · rfl
  | fail w =>
    simp only [step]; split <;> rfl
  | commit w =>
    simp only [step]; split
    · rename_i d f hw; exact absurd hw (nowriting w d f)
    · rfl
  | commitFail w =>
    simp only [step]; split
    · split <;> rfl
    · rfl
  | crash w =>
    simp only [step]; split <;> rfl

/-- The marker becomes valid only through a successful commit. -/
theorem step_marker (exp : Expected) (wf : WF exp) (s : Sys) (a : Act)
    (h : markerOK (step exp s a).entry = true) :
    markerOK s.entry = true ∨ ∃ w : Nat, (step exp s a).writers[w]? = some (WPc.finished true) := by
  cases a with
  | acquire w =>
    simp only [step] at h; split at h
    · split at h
      · exact Or.inl h
      · split at h <;> exact Or.inl h
    · exact Or.inl h
  | truncate w i =>
    simp only [step] at h; split at h
    · split at h
      · rename_i p c hk
        split at h
        · exact Or.inl h
        · simp only at h
          rw [markerOK_putObj_ne _ _ _ (payload_path_ne_marker wf hk)] at h; exact Or.inl h
      · exact Or.inl h
    · exact Or.inl h
  | grow w i k =>
    simp only [step] at h; split at h
    · split at h
      · rename_i p c k0 hk _
        split at h
        · simp only at h
          rw [markerOK_putObj_ne _ _ _ (payload_path_ne_marker wf hk)] at h; exact Or.inl h
        · exact Or.inl h
      · exact Or.inl h
    · exact Or.inl h
  | fill w i =>
    simp only [step] at h; split at h
    · split at h
      · rename_i p c k0 hk _
        simp only at h
        rw [markerOK_putObj_ne _ _ _ (payload_path_ne_marker wf hk)] at h; exact Or.inl h
      · exact Or.inl h
    · exact Or.inl h
  | fail w =>
    simp only [step] at h; split at h <;> exact Or.inl h
  | commit w =>
    simp only [step] at h ⊢; split
    · rename_i d f hw
      split
      · refine Or.inr ⟨w, ?_⟩
        simp only [setPc]; exact getElem?_set_eq _ _ _ (lt_of_getElem?_some hw)
      · rename_i hne
        simp only [hw, hne] at h; exact Or.inl h
    · rename_i hne
      split at h
      · rename_i d f hw; exact absurd hw (hne d f)
      · exact Or.inl h
  | commitFail w =>
    simp only [step] at h; split at h
    · split at h <;> exact Or.inl h
    · exact Or.inl h
  | crash w =>
    simp only [step] at h; split at h <;> exact Or.inl h

/-- In every reachable state a valid marker implies that some store returned success. -/
theorem marker_needs_success (exp : Expected) (wf : WF exp) (acts : List Act) (s : Sys)
    (hs : markerOK s.entry = true → ∃ w : Nat, s.writers[w]? = some (WPc.finished true))
    (h : markerOK (runActs exp s acts).entry = true) :
    ∃ w : Nat, (runActs exp s acts).writers[w]? = some (WPc.finished true) := by
  induction acts generalizing s with
  | nil => exact hs h
  | cons a rest ih =>
    apply ih (step exp s a) _ h
    intro hm
    rcases step_marker exp wf s a hm with hold | hnew
    · obtain ⟨w0, hw0⟩ := hs hold
      exact ⟨w0, finished_stays exp s a w0 true hw0⟩
    · exact hnew

/-- A store returns success only by seeing a valid marker (acquire) or by writing it (commit). -/
theorem step_new_success (exp : Expected) (s : Sys) (a : Act) (w0 : Nat)
    (h : (step exp s a).writers[w0]? = some (WPc.finished true)) :
    s.writers[w0]? = some (WPc.finished true) ∨ markerOK (step exp s a).entry = true := by
  rcases step_writers exp s a with e | ⟨w, pcOld, pcNew, hw, _, _, e, hnew⟩
  · rw [e] at h; exact Or.inl h
  · rw [e] at h
    by_cases hww : w = w0
    · subst hww
      simp only [setPc] at h
      rw [getElem?_set_eq _ _ _ (lt_of_getElem?_some hw)] at h
      exact Or.inr (hnew (Option.some.inj h))
    · simp only [setPc] at h; rw [getElem?_set_ne _ _ _ _ hww] at h; exact Or.inl h

/-- In every reachable state: some store returned success ⇒ the marker is valid. -/
theorem success_needs_marker (exp : Expected) (wf : WF exp) (acts : List Act) (s : Sys) (inv : Inv exp s)
    (hs : ∀ w : Nat, s.writers[w]? = some (WPc.finished true) → markerOK s.entry = true)
    (w : Nat) (h : (runActs exp s acts).writers[w]? = some (WPc.finished true)) :
    markerOK (runActs exp s acts).entry = true := by
  induction acts generalizing s with
  | nil => exact hs w h
  | cons a rest ih =>
    apply ih (step exp s a) (step_inv wf s inv a) _ h
    intro w0 hw0
    rcases step_new_success exp s a w0 hw0 with hold | hnew
    · have hm := hs w0 hold
      rw [step_entry_stable exp s inv hm a]; exact hm
    · exact hnew

/-- An unparsable marker never appears by itself: payload writes do not touch the marker and a
    commit writes the canonical one. -/
theorem step_garbled (exp : Expected) (wf : WF exp) (s : Sys) (a : Act)
    (h : markerGarbled s.entry = false) : markerGarbled (step exp s a).entry = false := by
  cases a with
  | acquire w =>
    simp only [step]; split
    · split
      · exact h
      · split <;> exact h
    · exact h
  | truncate w i =>
    simp only [step]; split
    · split
      · rename_i p c hk
        split
        · exact h
        · simp only; rw [markerGarbled_putObj_ne _ _ _ (payload_path_ne_marker wf hk)]; exact h
      · exact h
    · exact h
  | grow w i k =>
    simp only [step]; split
    · split
      · rename_i p c k0 hk _
        split
        · simp only; rw [markerGarbled_putObj_ne _ _ _ (payload_path_ne_marker wf hk)]; exact h
        · exact h
      · exact h
    · exact h
  | fill w i =>
    simp only [step]; split
    · split
      · rename_i p c k0 hk _
        simp only; rw [markerGarbled_putObj_ne _ _ _ (payload_path_ne_marker wf hk)]; exact h
      · exact h
    · exact h
  | fail w =>
    simp only [step]; split <;> exact h
  | commit w =>
    simp only [step]; split
    · split
      · show markerGarbled (putObj s.entry markerPath markerCanonical) = false
        unfold markerGarbled; rw [find_putObj_eq]; decide
      · exact h
    · exact h
  | commitFail w =>
    simp only [step]; split
    · split <;> exact h
    · exact h
  | crash w =>
    simp only [step]; split <;> exact h

theorem runActs_garbled (exp : Expected) (wf : WF exp) (acts : List Act) (s : Sys)
    (h : markerGarbled s.entry = false) : markerGarbled (runActs exp s acts).entry = false := by
  induction acts generalizing s with
  | nil => exact h
  | cons a rest ih => exact ih _ (step_garbled exp wf s a h)


/-! ### A fault-free store completes the entry — files in any order, any number in flight -/

/-- An action by which writer `w` writes payload data (no failure, no crash, no commit). -/
def OwnWrite (w : Nat) : Act → Prop
  | .truncate w' _ => w' = w
  | .grow w' _ _ => w' = w
  | .fill w' _ => w' = w
  | _ => False

instance (w : Nat) : DecidablePred (OwnWrite w) := by
  intro a; cases a <;> simp only [OwnWrite] <;> infer_instance

/-- Object `i` has been started (it is in flight or done). -/
def Started (done : List Nat) (infl : List (Nat × Nat)) (i : Nat) : Prop :=
  i ∈ done ∨ (inflK infl i).isSome = true

/-- A fault-free write phase of writer `w`: only its own truncate/grow/fill actions, in ANY order
    and interleaving, such that every payload object is started and later filled.  (Actions that
    are not enabled are no-ops, so repeated or premature ones are harmless.) -/
structure FaultFree (exp : Expected) (w : Nat) (acts : List Act) : Prop where
  own : ∀ a ∈ acts, OwnWrite w a
  all : ∀ i, i < exp.payload.length →
    ∃ l1 l2 l3, acts = l1 ++ Act.truncate w i :: (l2 ++ Act.fill w i :: l3)

/-- One whole store by writer `w` with the given write phase. -/
def storeWith (w : Nat) (acts : List Act) : List Act := Act.acquire w :: (acts ++ [Act.commit w])

theorem started_mono_cons {done : List Nat} {infl : List (Nat × Nat)} (i k : Nat) (i0 : Nat)
    (h : Started done infl i0) : Started done ((i, k) :: dropIdx infl i) i0 := by
  rcases h with h | h
  · exact Or.inl h
  · by_cases e : i = i0
    · subst e; exact Or.inr (by rw [inflK_cons_eq]; rfl)
    · exact Or.inr (by rw [inflK_cons_ne _ _ _ _ e, inflK_dropIdx_ne _ _ _ e]; exact h)

theorem step_own (exp : Expected) (s : Sys) (inv : Inv exp s) (w : Nat) (done : List Nat) (infl : List (Nat × Nat))
    (hw : s.writers[w]? = some (.writing done infl)) (a : Act) (ha : OwnWrite w a) :
    ∃ done' infl', (step exp s a).writers[w]? = some (.writing done' infl') ∧
      (∀ i, i ∈ done → i ∈ done') ∧ (∀ i, Started done infl i → Started done' infl' i) ∧
      (∀ i, a = .truncate w i → i < exp.payload.length → Started done' infl' i) ∧
      (∀ i, a = .fill w i → Started done infl i → i ∈ done') := by
  have hwl := lt_of_getElem?_some hw
  cases a with
  | truncate w' i =>
    have e : w' = w := ha
    subst e
    cases hp : exp.payload[i]? with
    | none =>
      have hs : step exp s (.truncate w' i) = s := by simp only [step, hw, hp]
      rw [hs]
      refine ⟨done, infl, hw, fun _ h => h, fun _ h => h, ?_, (fun _ e => by cases e)⟩
      intro i0 e hi0
      injection e with _ e2; subst e2
      have := List.getElem?_eq_none_iff.mp hp
      omega
    | some pc =>
      obtain ⟨p, c⟩ := pc
      by_cases hg : (done.contains i || (inflK infl i).isSome) = true
      · have hs : step exp s (.truncate w' i) = s := by simp only [step, hw, hp, hg, if_true]
        rw [hs]
        refine ⟨done, infl, hw, fun _ h => h, fun _ h => h, ?_, (fun _ e => by cases e)⟩
        intro i0 e _
        injection e with _ e2; subst e2
        simp only [Bool.or_eq_true, List.contains_iff_mem] at hg
        exact hg
      · have hs : step exp s (.truncate w' i) =
            { s with entry := putObj s.entry p "", writers := setPc s.writers w' (.writing done ((i, 0) :: infl)) } := by
          simp only [step, hw, hp, hg]; rfl
        rw [hs]
        refine ⟨done, (i, 0) :: infl, by simp only [setPc]; exact getElem?_set_eq _ _ _ hwl, fun _ h => h, ?_, ?_,
          (fun _ e => by cases e)⟩
        · intro i0 h
          rcases h with h | h
          · exact Or.inl h
          · by_cases e : i = i0
            · subst e; exact Or.inr (by rw [inflK_cons_eq]; rfl)
            · exact Or.inr (by rw [inflK_cons_ne _ _ _ _ e]; exact h)
        · intro i0 e _
          injection e with _ e2; subst e2
          exact Or.inr (by rw [inflK_cons_eq]; rfl)
  | grow w' i k =>
    have e : w' = w := ha
    subst e
    cases hp : exp.payload[i]? with
    | none =>
      have hs : step exp s (.grow w' i k) = s := by simp only [step, hw, hp]
      rw [hs]
      exact ⟨done, infl, hw, fun _ h => h, fun _ h => h, (fun _ e => by cases e), (fun _ e => by cases e)⟩
    | some pc =>
      obtain ⟨p, c⟩ := pc
      cases hk : inflK infl i with
      | none =>
        have hs : step exp s (.grow w' i k) = s := by simp only [step, hw, hp, hk]
        rw [hs]
        exact ⟨done, infl, hw, fun _ h => h, fun _ h => h, (fun _ e => by cases e), (fun _ e => by cases e)⟩
      | some k0 =>
        by_cases hg : k0 ≤ k ∧ k ≤ c.length
        · have hs : step exp s (.grow w' i k) =
              { s with entry := putObj s.entry p (takeStr k c),
                       writers := setPc s.writers w' (.writing done ((i, k) :: dropIdx infl i)) } := by
            simp only [step, hw, hp, hk, hg, and_self, if_true]
          rw [hs]
          exact ⟨done, (i, k) :: dropIdx infl i, by simp only [setPc]; exact getElem?_set_eq _ _ _ hwl, fun _ h => h,
            fun i0 h => started_mono_cons i k i0 h, (fun _ e => by cases e), (fun _ e => by cases e)⟩
        · have hs : step exp s (.grow w' i k) = s := by simp only [step, hw, hp, hk, hg, if_false]
          rw [hs]
          exact ⟨done, infl, hw, fun _ h => h, fun _ h => h, (fun _ e => by cases e), (fun _ e => by cases e)⟩
  | fill w' i =>
    have e : w' = w := ha
    subst e
    have old := inv.writing w' done infl hw
    cases hk : inflK infl i with
    | none =>
      have hs : step exp s (.fill w' i) = s := by
        cases hp : exp.payload[i]? <;> simp only [step, hw, hp, hk]
      rw [hs]
      refine ⟨done, infl, hw, fun _ h => h, fun _ h => h, (fun _ e => by cases e), ?_⟩
      intro i0 e h
      injection e with _ e2; subst e2
      rcases h with h | h
      · exact h
      · rw [hk] at h; cases h
    | some k0 =>
      obtain ⟨_, pc, hp, _, _⟩ := old.2.2.2 _ (inflK_some_mem hk)
      obtain ⟨p, c⟩ := pc
      simp only at hp
      have hs : step exp s (.fill w' i) =
          { s with entry := putObj s.entry p c, writers := setPc s.writers w' (.writing (i :: done) (dropIdx infl i)) } := by
        simp only [step, hw, hp, hk]
      rw [hs]
      refine ⟨i :: done, dropIdx infl i, by simp only [setPc]; exact getElem?_set_eq _ _ _ hwl,
        fun _ h => List.mem_cons_of_mem _ h, ?_, (fun _ e => by cases e), ?_⟩
      · intro i0 h
        rcases h with h | h
        · exact Or.inl (List.mem_cons_of_mem _ h)
        · by_cases e : i = i0
          · subst e; exact Or.inl List.mem_cons_self
          · exact Or.inr (by rw [inflK_dropIdx_ne _ _ _ e]; exact h)
      · intro i0 e _
        injection e with _ e2; subst e2
        exact List.mem_cons_self
  | acquire _ => exact absurd ha (by simp [OwnWrite])
  | fail _ => exact absurd ha (by simp [OwnWrite])
  | commit _ => exact absurd ha (by simp [OwnWrite])
  | commitFail _ => exact absurd ha (by simp [OwnWrite])
  | crash _ => exact absurd ha (by simp [OwnWrite])

theorem run_own (exp : Expected) (wf : WF exp) (acts : List Act) (s : Sys) (inv : Inv exp s) (w : Nat)
    (done : List Nat) (infl : List (Nat × Nat))
    (hw : s.writers[w]? = some (.writing done infl)) (hown : ∀ a ∈ acts, OwnWrite w a) :
    ∃ done' infl', (runActs exp s acts).writers[w]? = some (.writing done' infl') ∧
      (∀ i, i ∈ done → i ∈ done') ∧ (∀ i, Started done infl i → Started done' infl' i) := by
  induction acts generalizing s done infl with
  | nil => exact ⟨done, infl, hw, fun _ h => h, fun _ h => h⟩
  | cons a rest ih =>
    obtain ⟨d1, f1, h1, hd1, hs1, _, _⟩ := step_own exp s inv w done infl hw a (hown a List.mem_cons_self)
    obtain ⟨d2, f2, h2, hd2, hs2⟩ := ih (step exp s a) (step_inv wf s inv a) d1 f1 h1
      (fun x hx => hown x (List.mem_cons_of_mem _ hx))
    exact ⟨d2, f2, h2, fun i h => hd2 i (hd1 i h), fun i h => hs2 i (hs1 i h)⟩

/-- After `… truncate w i … fill w i …` object `i` is done. -/
theorem run_done (exp : Expected) (wf : WF exp) (s : Sys) (inv : Inv exp s) (w : Nat)
    (done : List Nat) (infl : List (Nat × Nat)) (hw : s.writers[w]? = some (.writing done infl))
    (l1 l2 l3 : List Act) (i : Nat) (hi : i < exp.payload.length)
    (hown : ∀ a ∈ l1 ++ Act.truncate w i :: (l2 ++ Act.fill w i :: l3), OwnWrite w a) :
    ∃ done' infl', (runActs exp s (l1 ++ Act.truncate w i :: (l2 ++ Act.fill w i :: l3))).writers[w]? =
        some (.writing done' infl') ∧ i ∈ done' := by
  have o1 : ∀ a ∈ l1, OwnWrite w a := fun a h => hown a (List.mem_append_left _ h)
  have o2 : ∀ a ∈ l2, OwnWrite w a := fun a h =>
    hown a (List.mem_append_right _ (List.mem_cons_of_mem _ (List.mem_append_left _ h)))
  have o3 : ∀ a ∈ l3, OwnWrite w a := fun a h =>
    hown a (List.mem_append_right _ (List.mem_cons_of_mem _ (List.mem_append_right _ (List.mem_cons_of_mem _ h))))
  obtain ⟨d1, f1, h1, _, _⟩ := run_own exp wf l1 s inv w done infl hw o1
  have inv1 := runActs_inv wf l1 s inv
  obtain ⟨d2, f2, h2, _, _, ht, _⟩ := step_own exp _ inv1 w d1 f1 h1 (Act.truncate w i) rfl
  have st2 := ht i rfl hi
  have inv2 := step_inv wf _ inv1 (Act.truncate w i)
  obtain ⟨d3, f3, h3, _, hs3⟩ := run_own exp wf l2 _ inv2 w d2 f2 h2 o2
  have inv3 := runActs_inv wf l2 _ inv2
  obtain ⟨d4, f4, h4, _, _, _, hf⟩ := step_own exp _ inv3 w d3 f3 h3 (Act.fill w i) rfl
  have hd4 := hf i rfl (hs3 i st2)
  have inv4 := step_inv wf _ inv3 (Act.fill w i)
  obtain ⟨d5, f5, h5, hd5, _⟩ := run_own exp wf l3 _ inv4 w d4 f4 h4 o3
  refine ⟨d5, f5, ?_, hd5 i hd4⟩
  rw [runActs_append, runActs_cons, runActs_append, runActs_cons]
  exact h5

theorem step_finished_noop (exp : Expected) (s : Sys) (w : Nat) (b : Bool)
    (hw : s.writers[w]? = some (WPc.finished b)) (a : Act)
    (ha : OwnWrite w a ∨ a = Act.commit w) : step exp s a = s := by
  rcases ha with ha | e
  · cases a with
    | truncate w' i => have e : w' = w := ha; subst e; simp only [step, hw]
    | grow w' i k => have e : w' = w := ha; subst e; simp only [step, hw]
    | fill w' i => have e : w' = w := ha; subst e; simp only [step, hw]
    | acquire _ => exact absurd ha (by simp [OwnWrite])
    | fail _ => exact absurd ha (by simp [OwnWrite])
    | commit _ => exact absurd ha (by simp [OwnWrite])
    | commitFail _ => exact absurd ha (by simp [OwnWrite])
    | crash _ => exact absurd ha (by simp [OwnWrite])
  · subst e; simp only [step, hw]

theorem runActs_finished_noop (exp : Expected) (w : Nat) (b : Bool) (acts : List Act)
    (hacts : ∀ a ∈ acts, OwnWrite w a ∨ a = Act.commit w)
    (s : Sys) (hw : s.writers[w]? = some (WPc.finished b)) : runActs exp s acts = s := by
  induction acts with
  | nil => rfl
  | cons a rest ih =>
    rw [runActs_cons, step_finished_noop exp s w b hw a (hacts a List.mem_cons_self)]
    exact ih (fun x hx => hacts x (List.mem_cons_of_mem _ hx))

/-- store_completes: from ANY state satisfying the invariant in which the lock is free, writer `w`
    has not started and the marker (if any) parses, one fault-free store — files written in any
    order, any number in flight, growing by arbitrary prefixes — ends with a valid marker, returns
    success and releases the lock. -/
theorem store_completes (exp : Expected) (wf : WF exp) (s : Sys) (inv : Inv exp s) (w : Nat)
    (hlock : s.lock = none) (hw : s.writers[w]? = some WPc.start)
    (hg : markerGarbled s.entry = false) (acts : List Act) (hff : FaultFree exp w acts) :
    markerOK (runActs exp s (storeWith w acts)).entry = true ∧
      (runActs exp s (storeWith w acts)).writers[w]? = some (WPc.finished true) ∧
      (runActs exp s (storeWith w acts)).lock = none := by
  have hwl := lt_of_getElem?_some hw
  unfold storeWith
  rw [runActs_cons]
  by_cases hm : markerOK s.entry = true
  · -- already complete: the store returns at once
    have h1 : step exp s (Act.acquire w) = { s with writers := setPc s.writers w (WPc.finished true) } := by
      simp only [step, hw, hlock, hm, if_true]
    have hf : (step exp s (Act.acquire w)).writers[w]? = some (WPc.finished true) := by
      rw [h1]; simp only [setPc]; exact getElem?_set_eq _ _ _ hwl
    rw [runActs_finished_noop exp w true (acts ++ [Act.commit w])
      (by intro a ha; rcases List.mem_append.mp ha with h | h
          · exact Or.inl (hff.own a h)
          · simp at h; exact Or.inr h) _ hf]
    exact ⟨by rw [h1]; exact hm, hf, by rw [h1]; exact hlock⟩
  · have hmf : markerOK s.entry = false := by simpa using hm
    have h1 : step exp s (Act.acquire w) =
        { s with lock := some w, writers := setPc s.writers w (WPc.writing [] []) } := by
      simp only [step, hw, hlock, hmf, hg]; rfl
    have hw1 : (step exp s (Act.acquire w)).writers[w]? = some (WPc.writing [] []) := by
      rw [h1]; simp only [setPc]; exact getElem?_set_eq _ _ _ hwl
    have inv1 := step_inv wf s inv (Act.acquire w)
    rw [runActs_append]
    obtain ⟨d, f, hw2, _, _⟩ := run_own exp wf acts _ inv1 w [] [] hw1 hff.own
    have inv2 := runActs_inv wf acts _ inv1
    have hall : ∀ i, i < exp.payload.length → i ∈ d := by
      intro i hi
      obtain ⟨l1, l2, l3, e⟩ := hff.all i hi
      obtain ⟨d', f', hw', hid⟩ := run_done exp wf _ inv1 w [] [] hw1 l1 l2 l3 i hi (e ▸ hff.own)
      rw [← e, hw2] at hw'
      have := Option.some.inj hw'
      injection this with e1 _
      rw [e1]; exact hid
    have hnil : f = [] := by
      apply List.eq_nil_iff_forall_not_mem.mpr
      intro ik hik
      obtain ⟨hnd, pc, hpc, _, _⟩ := (inv2.writing w d f hw2).2.2.2 ik hik
      exact hnd (hall ik.1 (lt_of_getElem?_some hpc))
    subst hnil
    generalize runActs exp (step exp s (Act.acquire w)) acts = s2 at hw2 inv2 ⊢
    have hwl2 := lt_of_getElem?_some hw2
    have hgd : (([] : List (Nat × Nat)).isEmpty && allDone exp.payload.length d) = true := by
      rw [(allDone_iff _ _).mpr hall]; rfl
    have hc : runActs exp s2 [Act.commit w] =
        { entry := putObj s2.entry markerPath markerCanonical, lock := none,
          writers := setPc s2.writers w (WPc.finished true) } := by
      show step exp s2 (Act.commit w) = _
      simp only [step, hw2]; rw [if_pos hgd]
    rw [hc]
    refine ⟨?_, ?_, rfl⟩
    · show markerOK (putObj s2.entry markerPath markerCanonical) = true
      unfold markerOK; rw [find_putObj_eq]; decide
    · simp only [setPc]; exact getElem?_set_eq _ _ _ hwl2

/-! ### Concrete fault-free schedules: one file after the other in any order; all files in flight -/

/-- One object after the other, in the given order. -/
def seqSchedule (w : Nat) : List Nat → List Act
  | [] => []
  | i :: rest => Act.truncate w i :: Act.fill w i :: seqSchedule w rest

/-- Everything is started (in `order1`), then everything is completed (in `order2`). -/
def parSchedule (w : Nat) (order1 order2 : List Nat) : List Act :=
  order1.map (Act.truncate w) ++ order2.map (Act.fill w)

theorem seqSchedule_own (w : Nat) (order : List Nat) : ∀ a ∈ seqSchedule w order, OwnWrite w a := by
  induction order with
  | nil => intro a h; cases h
  | cons i rest ih =>
    intro a h
    simp only [seqSchedule, List.mem_cons] at h
    rcases h with e | e | h
    · subst e; rfl
    · subst e; rfl
    · exact ih a h

theorem seqSchedule_split (w : Nat) (order : List Nat) (i : Nat) (hi : i ∈ order) :
    ∃ l1 l2 l3, seqSchedule w order = l1 ++ Act.truncate w i :: (l2 ++ Act.fill w i :: l3) := by
  induction order with
  | nil => cases hi
  | cons j rest ih =>
    rcases List.mem_cons.mp hi with e | hr
    · subst e; exact ⟨[], [], seqSchedule w rest, rfl⟩
    · obtain ⟨l1, l2, l3, e⟩ := ih hr
      exact ⟨Act.truncate w j :: Act.fill w j :: l1, l2, l3, by simp only [seqSchedule, e, List.cons_append]⟩

/-- Any order that mentions every payload index gives a fault-free write phase. -/
theorem seqSchedule_faultFree (exp : Expected) (w : Nat) (order : List Nat)
    (h : ∀ i, i < exp.payload.length → i ∈ order) : FaultFree exp w (seqSchedule w order) :=
  ⟨seqSchedule_own w order, fun i hi => seqSchedule_split w order i (h i hi)⟩

theorem parSchedule_faultFree (exp : Expected) (w : Nat) (order1 order2 : List Nat)
    (h1 : ∀ i, i < exp.payload.length → i ∈ order1) (h2 : ∀ i, i < exp.payload.length → i ∈ order2) :
    FaultFree exp w (parSchedule w order1 order2) := by
  refine ⟨?_, ?_⟩
  · intro a ha
    rcases List.mem_append.mp ha with h | h
    · obtain ⟨i, _, e⟩ := List.mem_map.mp h; subst e; rfl
    · obtain ⟨i, _, e⟩ := List.mem_map.mp h; subst e; rfl
  · intro i hi
    obtain ⟨a1, b1, e1⟩ := List.append_of_mem (h1 i hi)
    obtain ⟨a2, b2, e2⟩ := List.append_of_mem (h2 i hi)
    refine ⟨a1.map (Act.truncate w), b1.map (Act.truncate w) ++ a2.map (Act.fill w), b2.map (Act.fill w), ?_⟩
    unfold parSchedule
    rw [e1, e2]
    simp [List.map_append, List.append_assoc]

/-! ### A complete entry loads as a hit with exactly the pinned module files -/

theorem stripFiles_prefix (x : Str) : stripFiles (filesPrefix ++ x) = some x := by
  unfold stripFiles
  have : filesPrefix.isPrefixOf (filesPrefix ++ x) = true :=
    List.isPrefixOf_iff_prefix.mpr (List.prefix_append _ _)
  simp [this]

/-- Side files do not live under files/. -/
def SidesOutsideFiles (exp : Expected) : Prop := ∀ s ∈ exp.sides, stripFiles s.1 = none

theorem subsetOf_iff (a b : List (Str × Content)) : subsetOf a b = true ↔ ∀ x ∈ a, x ∈ b := by
  unfold subsetOf
  simp [List.all_eq_true]

theorem complete_loads_hit (exp : Expected) (hside : SidesOutsideFiles exp) (entry : Mem)
    (hc : Complete exp entry) (hm : entry.find markerPath = some markerCanonical)
    (hk : OnlyPayloadKeys exp entry) (hn : NodupKeys entry) :
    load exp entry = .hit (moduleFilesOf entry) ∧
      sameSet (moduleFilesOf entry) (exp.files.filter fun f => isModuleFile f.1) = true := by
  have hsides : (exp.sides.all fun s => (entry.find s.1).isSome) = true := by
    rw [List.all_eq_true]
    intro s hs
    have : s ∈ exp.payload := List.mem_append.mpr (Or.inr hs)
    rw [hc s this]; rfl
  have hsame : sameSet (moduleFilesOf entry) (exp.files.filter fun f => isModuleFile f.1) = true := by
    unfold sameSet
    rw [Bool.and_eq_true, subsetOf_iff, subsetOf_iff]
    constructor
    · intro x hx
      unfold moduleFilesOf at hx
      obtain ⟨kv, hkv, hfx⟩ := List.mem_filterMap.mp hx
      cases hst : stripFiles kv.1 with
      | none => rw [hst] at hfx; cases hfx
      | some rel =>
        rw [hst] at hfx
        simp only at hfx
        split at hfx
        · rename_i hmod
          injection hfx with hfx
          rcases hk kv hkv with hmk | hpay
          · exfalso
            have hnone : stripFiles markerPath = none := by decide
            rw [hmk, hnone] at hst; cases hst
          · obtain ⟨pc, hpc, hpe⟩ := List.mem_map.mp hpay
            rcases List.mem_append.mp hpc with hf | hs
            · obtain ⟨f0, hf0, hfe⟩ := List.mem_map.mp hf
              have hp : kv.1 = filesPrefix ++ f0.1 := by rw [← hpe, ← hfe]
              have hrel : rel = f0.1 := by
                rw [hp, stripFiles_prefix] at hst; exact (Option.some.inj hst).symm
              have hfind := hc pc hpc
              rw [← hfe] at hfind
              simp only at hfind
              have hkvfind : entry.find kv.1 = some kv.2 := (mem_iff_find hn kv.1 kv.2).mp hkv
              rw [hp, hfind] at hkvfind
              have hc2 : f0.2 = kv.2 := Option.some.inj hkvfind
              rw [← hfx, hrel, ← hc2]
              apply List.mem_filter.mpr
              refine ⟨hf0, ?_⟩
              rw [← hrel]; exact hmod
            · exfalso
              have := hside pc hs
              rw [hpe, hst] at this; cases this
        · cases hfx
    · intro f hf
      obtain ⟨hfm, hmod⟩ := List.mem_filter.mp hf
      have hpay : (filesPrefix ++ f.1, f.2) ∈ exp.payload :=
        List.mem_append.mpr (Or.inl (List.mem_map.mpr ⟨f, hfm, rfl⟩))
      have hfind := hc _ hpay
      simp only at hfind
      have hmem := find_some_mem hfind
      unfold moduleFilesOf
      apply List.mem_filterMap.mpr
      refine ⟨(filesPrefix ++ f.1, f.2), hmem, ?_⟩
      dsimp only
      rw [stripFiles_prefix]
      dsimp only
      rw [if_pos hmod]
  refine ⟨?_, hsame⟩
  unfold load
  rw [hm]
  simp only
  have hv : markerValid markerCanonical = true := by decide
  simp only [hv, Bool.not_true, Bool.false_eq_true, if_false, hsides, hsame, Bool.true_and, decide_true, if_true]

/-! ### The write phase under a fault schedule: link to the C15 model -/

section FaultLink
open BufModel.Faults BufProofs.C15

/-- Payload paths are validated normal paths (what a bucket walk yields and the store joins). -/
def PayloadValid (exp : Expected) : Prop := ∀ pc ∈ exp.payload, validatePath pc.1 = .ok pc.1

/-- Writing one object never touches another key — whether or not the write fails. -/
theorem writeObj_frame (joins : Bool) (s : Sched) (d : Dest) (path : Str) (chunks : List Content)
    (hv : validatePath path = .ok path) (k : Str) (hk : path ≠ k) :
    (writeObj joins s d path chunks).2.mem.find k = d.mem.find k := by
  unfold writeObj
  split
  · rfl
  · rw [hv]
    simp only
    rw [find_cons_ne _ _ _ _ hk, find_erase_ne _ _ _ hk]

theorem copyAll_frame (fx : Facts) (s : Sched) (d : Dest) (jobs : List (Str × List Content))
    (hvalid : ∀ j ∈ jobs, validatePath j.1 = .ok j.1) (k : Str) (hk : k ∉ jobs.map (·.1)) :
    (copyAll fx s d jobs).2.1.mem.find k = d.mem.find k := by
  induction jobs generalizing d with
  | nil => rfl
  | cons j rest ih =>
    obtain ⟨p, cs⟩ := j
    simp only [List.map, List.mem_cons, not_or] at hk
    simp only [copyAll]
    rw [ih _ (fun j hj => hvalid j (List.mem_cons_of_mem _ hj)) hk.2]
    unfold copyPath
    exact writeObj_frame _ s d p cs (hvalid (p, cs) List.mem_cons_self) k (fun e => hk.1 e.symm)

theorem putSides_frame (fx : Facts) (s : Sched) (d : Dest) (jobs : List (Str × List Content))
    (hvalid : ∀ j ∈ jobs, validatePath j.1 = .ok j.1) (k : Str) (hk : k ∉ jobs.map (·.1)) :
    (putSides fx s d jobs).2.mem.find k = d.mem.find k := by
  induction jobs generalizing d with
  | nil => rfl
  | cons j rest ih =>
    obtain ⟨p, cs⟩ := j
    simp only [List.map, List.mem_cons, not_or] at hk
    have h1 : (putPath fx s d p cs).2.mem.find k = d.mem.find k :=
      writeObj_frame _ s d p cs (hvalid (p, cs) List.mem_cons_self) k (fun e => hk.1 e.symm)
    simp only [putSides]
    split
    · exact h1
    · rw [ih _ (fun j hj => hvalid j (List.mem_cons_of_mem _ hj)) hk.2]; exact h1

/-- no_silent_failure for the side-file phase: success ⇒ no fault fired and every side file is in
    the destination in full; nothing else changed. -/
theorem putSides_ok (s : Sched) (jobs : List (Str × List Content)) (d d' : Dest)
    (hvalid : ∀ j ∈ jobs, validatePath j.1 = .ok j.1)
    (hnodup : (jobs.map (·.1)).Nodup)
    (h : putSides Facts.allTrue s d jobs = (false, d')) :
    d'.fired = d.fired ∧ (∀ j ∈ jobs, d'.mem.find j.1 = some (joinContent j.2)) := by
  induction jobs generalizing d with
  | nil => simp [putSides] at h; subst h; simp
  | cons j rest ih =>
    obtain ⟨p, cs⟩ := j
    simp only [putSides] at h
    split at h
    · simp at h
    · rename_i hne
      have hw : writeObj true s d p cs = (false, (writeObj true s d p cs).2) := by
        have : (writeObj true s d p cs).1 = false := by simpa [putPath, Facts.allTrue] using hne
        exact Prod.ext this rfl
      obtain ⟨hf, q, hq, hmem⟩ := writeObj_ok s d _ p cs hw
      have hpq : q = p := by
        have := hvalid (p, cs) List.mem_cons_self; simp only at this; rw [this] at hq
        injection hq with e; exact e.symm
      subst hpq
      simp only [List.map, List.nodup_cons] at hnodup
      have h' : putSides Facts.allTrue s (writeObj true s d q cs).2 rest = (false, d') := by
        simpa [putPath, Facts.allTrue] using h
      obtain ⟨ihf, ihall⟩ := ih _ (fun j hj => hvalid j (List.mem_cons_of_mem _ hj)) hnodup.2 h'
      refine ⟨by rw [ihf, hf], ?_⟩
      intro j hjm
      rcases List.mem_cons.mp hjm with e | hr
      · subst e
        have hfr := putSides_frame Facts.allTrue s (writeObj true s d q cs).2 rest
          (fun j hj => hvalid j (List.mem_cons_of_mem _ hj)) q hnodup.1
        rw [h'] at hfr
        simp only at hfr ⊢
        rw [hfr, hmem, find_cons_eq]
      · exact ihall j hr

theorem atomicRun_err_final (old : Option Content) (chunks : List Content) (failAt : Option Nat)
    (h : (atomicRun old chunks failAt).1 = true) : (atomicRun old chunks failAt).2.final = old := by
  unfold atomicRun at h ⊢
  simp only at h ⊢
  split
  · rfl
  · rename_i h0
    rw [if_neg h0] at h
    have hfin := atomicWrites_final failAt (aStep { final := old, temp := none } .createTemp) 1 false chunks
    split
    · simp only; rw [hfin]; rfl
    · rename_i h1
      rw [if_neg h1] at h
      split
      · simp only; rw [hfin]; rfl
      · rename_i h2
        rw [if_neg h2] at h; cases h

theorem fileJobs_paths (exp : Expected) (chunk : Content → List Content) :
    (fileJobs exp chunk).map (·.1) ++ (sideJobs exp chunk).map (·.1) = exp.payload.map (·.1) := by
  simp [fileJobs, sideJobs, Expected.payload, List.map_append, List.map_map, Function.comp_def]

theorem fileJobs_valid {exp : Expected} (hv : PayloadValid exp) (chunk : Content → List Content) :
    ∀ j ∈ fileJobs exp chunk, validatePath j.1 = .ok j.1 := by
  intro j hj
  obtain ⟨f, hf, e⟩ := List.mem_map.mp hj
  subst e
  exact hv (filesPrefix ++ f.1, f.2) (List.mem_append.mpr (Or.inl (List.mem_map.mpr ⟨f, hf, rfl⟩)))

theorem sideJobs_valid {exp : Expected} (hv : PayloadValid exp) (chunk : Content → List Content) :
    ∀ j ∈ sideJobs exp chunk, validatePath j.1 = .ok j.1 := by
  intro j hj
  obtain ⟨f, hf, e⟩ := List.mem_map.mp hj
  subst e
  exact hv f (List.mem_append.mpr (Or.inr hf))

theorem marker_not_job {exp : Expected} (wf : WF exp) (chunk : Content → List Content) :
    markerPath ∉ (fileJobs exp chunk).map (·.1) ∧ markerPath ∉ (sideJobs exp chunk).map (·.1) := by
  have := wf.noMarker
  rw [← fileJobs_paths exp chunk] at this
  exact ⟨fun h => this (List.mem_append_left _ h), fun h => this (List.mem_append_right _ h)⟩

/-- A failing step index names an actual step of the atomic put. -/
def FailAtInRange (chunks : List Content) (failAt : Option Nat) : Prop :=
  ∀ k, failAt = some k → k ≤ chunks.length + 2

theorem atomicRun_ok_final (old : Option Content) (chunks : List Content) (failAt : Option Nat)
    (hr : FailAtInRange chunks failAt) (h : (atomicRun old chunks failAt).1 = false) :
    failAt = none ∧ (atomicRun old chunks failAt).2.final = some (joinContent chunks) := by
  cases failAt with
  | none => rw [atomic_success]; exact ⟨rfl, rfl⟩
  | some k => rw [atomic_failed_leaves_old old chunks k (hr k rfl)] at h; cases h

/-- The marker is written only if every earlier phase REPORTED success — and then (C15
    `copyAll_ok`, `writeObj_ok`, `atomic_success`) no scheduled fault fired, no step of the marker
    put failed, and every payload object is in the entry in full. -/
theorem storeRun_ok (exp : Expected) (wf : WF exp) (hv : PayloadValid exp)
    (chunk : Content → List Content) (hchunk : ∀ c, joinContent (chunk c) = c)
    (s : Sched) (mch : List Content) (mfail : Option Nat) (hr : FailAtInRange mch mfail) (d d' : Dest)
    (h : storeRun Facts.allTrue s mch mfail d (fileJobs exp chunk) (sideJobs exp chunk) = (false, d')) :
    d'.fired = d.fired ∧ mfail = none ∧ Complete exp d'.mem ∧
      d'.mem.find markerPath = some (joinContent mch) := by
  have hpaths := fileJobs_paths exp chunk
  have hnd : ((fileJobs exp chunk).map (·.1) ++ (sideJobs exp chunk).map (·.1)).Nodup := by
    rw [hpaths]; exact wf.nodup
  obtain ⟨hndf, hnds, hdisj⟩ := List.nodup_append.mp hnd
  unfold storeRun at h
  simp only at h
  split at h
  · simp at h
  · rename_i hc
    split at h
    · simp at h
    · rename_i hs
      have hcopy : copyAll Facts.allTrue s d (fileJobs exp chunk) =
          (false, (copyAll Facts.allTrue s d (fileJobs exp chunk)).2.1,
            (copyAll Facts.allTrue s d (fileJobs exp chunk)).2.2) :=
        Prod.ext (by simpa using hc) rfl
      obtain ⟨cf, _, call, _⟩ := copyAll_ok s (fileJobs exp chunk) d _ _ (fileJobs_valid hv chunk) hndf hcopy
      generalize (copyAll Facts.allTrue s d (fileJobs exp chunk)).2.1 = d1 at *
      have hside : putSides Facts.allTrue s d1 (sideJobs exp chunk) =
          (false, (putSides Facts.allTrue s d1 (sideJobs exp chunk)).2) :=
        Prod.ext (by simpa using hs) rfl
      obtain ⟨sf, sall⟩ := putSides_ok s (sideJobs exp chunk) d1 _ (sideJobs_valid hv chunk) hnds hside
      have sframe := putSides_frame Facts.allTrue s d1 (sideJobs exp chunk) (sideJobs_valid hv chunk)
      generalize (putSides Facts.allTrue s d1 (sideJobs exp chunk)).2 = d2 at *
      have herr := congrArg Prod.fst h
      have hd := congrArg Prod.snd h
      simp only at herr hd
      obtain ⟨hnone, hfinal⟩ := atomicRun_ok_final _ mch mfail hr herr
      rw [hfinal] at hd
      simp only at hd
      subst hd
      refine ⟨by simp only; rw [sf, cf], hnone, ?_, find_putObj_eq _ _ _⟩
      intro pc hpc
      have hne : markerPath ≠ pc.1 := fun e => wf.noMarker (e ▸ List.mem_map.mpr ⟨pc, hpc, rfl⟩)
      simp only
      rw [find_putObj_ne _ _ _ _ hne]
      rcases List.mem_append.mp hpc with hf | hsd
      · obtain ⟨f, hfm, e⟩ := List.mem_map.mp hf
        subst e
        have hj : (filesPrefix ++ f.1, chunk f.2) ∈ fileJobs exp chunk := List.mem_map.mpr ⟨f, hfm, rfl⟩
        have hnot : (filesPrefix ++ f.1) ∉ (sideJobs exp chunk).map (·.1) :=
          fun hin => hdisj _ (List.mem_map.mpr ⟨_, hj, rfl⟩) _ hin rfl
        simp only
        rw [sframe _ hnot, call _ hj, hchunk]
      · have hj : (pc.1, chunk pc.2) ∈ sideJobs exp chunk := List.mem_map.mpr ⟨pc, hsd, rfl⟩
        rw [sall _ hj, hchunk]

/-- A store that reports an error has not touched the marker: whichever phase failed — a file
    copy, a side file, or a step of the atomic marker put — the object at `module.yaml` is the one
    that was there before. -/
theorem storeRun_err_marker_untouched (exp : Expected) (wf : WF exp) (hv : PayloadValid exp)
    (chunk : Content → List Content) (fx : Facts)
    (s : Sched) (mch : List Content) (mfail : Option Nat) (d : Dest)
    (h : (storeRun fx s mch mfail d (fileJobs exp chunk) (sideJobs exp chunk)).1 = true) :
    (storeRun fx s mch mfail d (fileJobs exp chunk) (sideJobs exp chunk)).2.mem.find markerPath =
      d.mem.find markerPath := by
  obtain ⟨hmf, hms⟩ := marker_not_job wf chunk
  have e1 := copyAll_frame fx s d (fileJobs exp chunk) (fileJobs_valid hv chunk) markerPath hmf
  have e2 := putSides_frame fx s (copyAll fx s d (fileJobs exp chunk)).2.1 (sideJobs exp chunk)
    (sideJobs_valid hv chunk) markerPath hms
  unfold storeRun at h ⊢
  simp only at h ⊢
  split
  · exact e1
  · rename_i hc
    rw [if_neg hc] at h
    split
    · rw [e2, e1]
    · rename_i hs
      rw [if_neg hs] at h
      simp only at h ⊢
      have hfin := atomicRun_err_final _ mch mfail h
      rw [hfin]
      cases hold : (putSides fx s (copyAll fx s d (fileJobs exp chunk)).2.1 (sideJobs exp chunk)).2.mem.find markerPath with
      | none => simp only; rw [find_erase_eq, ← e1, ← e2, hold]
      | some c => simp only; rw [find_putObj_eq, ← e1, ← e2, hold]

/-- If any scheduled fault fires during the file or side-file phase, the store reports an error
    (contrapositive of `storeRun_ok`). -/
theorem storeRun_fault_reported (exp : Expected) (wf : WF exp) (hv : PayloadValid exp)
    (chunk : Content → List Content) (hchunk : ∀ c, joinContent (chunk c) = c)
    (s : Sched) (mch : List Content) (mfail : Option Nat) (hr : FailAtInRange mch mfail) (d : Dest)
    (hfired : (storeRun Facts.allTrue s mch mfail d (fileJobs exp chunk) (sideJobs exp chunk)).2.fired ≠ d.fired) :
    (storeRun Facts.allTrue s mch mfail d (fileJobs exp chunk) (sideJobs exp chunk)).1 = true := by
  cases he : (storeRun Facts.allTrue s mch mfail d (fileJobs exp chunk) (sideJobs exp chunk)).1 with
  | true => rfl
  | false =>
    exfalso
    exact hfired (storeRun_ok exp wf hv chunk hchunk s mch mfail hr d _ (Prod.ext he rfl)).1

end FaultLink

/-! ### Tar layout -/

theorem tarEntry_nodup {exp : Expected} (wf : WF exp) : NodupKeys (tarEntry exp) := by
  unfold NodupKeys tarEntry
  simp only [List.map]
  exact List.nodup_cons.mpr ⟨wf.noMarker, wf.nodup⟩

theorem tarEntry_onlyKeys (exp : Expected) : OnlyPayloadKeys exp (tarEntry exp) := by
  intro kv hkv
  rcases List.mem_cons.mp hkv with e | h
  · subst e; exact Or.inl rfl
  · exact Or.inr (List.mem_map.mpr ⟨kv, h, rfl⟩)

theorem tarEntry_complete {exp : Expected} (wf : WF exp) : Complete exp (tarEntry exp) := by
  intro pc hpc
  exact (mem_iff_find (tarEntry_nodup wf) pc.1 pc.2).mp (List.mem_cons_of_mem _ hpc)

theorem tarEntry_marker (exp : Expected) : (tarEntry exp).find markerPath = some markerCanonical :=
  find_cons_eq _ _ _


end BufModel.Cache
