import BufModel.Cache
import BufProofs.Lemmas.BucketLemmas
/-
  The inductive invariant of the module-cache writer protocol, for every interleaving of any
  number of writers with crashes and failures.
-/
namespace BufModel.Cache
open BufModel.Path BufModel.Bucket

/-- Well-formed expectation: payload paths are distinct and none is the marker. -/
structure WF (exp : Expected) : Prop where
  nodup : (exp.payload.map (·.1)).Nodup
  noMarker : markerPath ∉ exp.payload.map (·.1)

def Complete (exp : Expected) (entry : Mem) : Prop :=
  ∀ pc ∈ exp.payload, entry.find pc.1 = some pc.2

def OnlyPayloadKeys (exp : Expected) (entry : Mem) : Prop :=
  ∀ kv ∈ entry, kv.1 = markerPath ∨ kv.1 ∈ exp.payload.map (·.1)

structure Inv (exp : Expected) (s : Sys) : Prop where
  markerComplete : markerOK s.entry = true → Complete exp s.entry ∧ s.entry.find markerPath = some markerCanonical
  writing : ∀ w i t, s.writers[w]? = some (.writing i t) →
    s.lock = some w ∧ markerOK s.entry = false ∧ i ≤ exp.payload.length ∧
      ∀ j, j < i → ∀ pc, exp.payload[j]? = some pc → s.entry.find pc.1 = some pc.2
  lockHeld : ∀ w, s.lock = some w → ∃ i t, s.writers[w]? = some (.writing i t)
  keys : OnlyPayloadKeys exp s.entry
  nodupKeys : NodupKeys s.entry

theorem find_putObj_eq (m : Mem) (p : Str) (c : Content) : (putObj m p c).find p = some c := find_cons_eq _ _ _

theorem find_putObj_ne (m : Mem) (p q : Str) (c : Content) (h : p ≠ q) : (putObj m p c).find q = m.find q := by
  unfold putObj; rw [find_cons_ne _ _ _ _ h, find_erase_ne _ _ _ h]

theorem markerOK_putObj_ne (m : Mem) (p : Str) (c : Content) (h : p ≠ markerPath) :
    markerOK (putObj m p c) = markerOK m := by
  unfold markerOK; rw [find_putObj_ne _ _ _ _ h]

theorem onlyKeys_putObj {exp : Expected} {m : Mem} (h : OnlyPayloadKeys exp m) (p : Str) (c : Content)
    (hp : p = markerPath ∨ p ∈ exp.payload.map (·.1)) : OnlyPayloadKeys exp (putObj m p c) := by
  intro kv hkv
  rcases List.mem_cons.mp hkv with e | hm
  · subst e; exact hp
  · exact h kv (List.mem_filter.mp hm).1

theorem getElem?_set_eq {α : Type} (l : List α) (i : Nat) (a : α) (h : i < l.length) : (l.set i a)[i]? = some a := by
  simp [List.getElem?_set, h]

theorem getElem?_set_ne' {α : Type} (l : List α) (i j : Nat) (a : α) (h : i ≠ j) : (l.set i a)[j]? = l[j]? := by
  simp [List.getElem?_set, h]

theorem payload_path_mem {exp : Expected} {i : Nat} {pc : Str × Content} (h : exp.payload[i]? = some pc) :
    pc.1 ∈ exp.payload.map (·.1) :=
  List.mem_map.mpr ⟨pc, List.mem_of_getElem? h, rfl⟩

theorem payload_path_ne_marker {exp : Expected} (wf : WF exp) {i : Nat} {pc : Str × Content}
    (h : exp.payload[i]? = some pc) : pc.1 ≠ markerPath := by
  intro e; exact wf.noMarker (e ▸ payload_path_mem h)

theorem payload_paths_distinct {exp : Expected} (wf : WF exp) {i j : Nat} {a b : Str × Content}
    (hi : exp.payload[i]? = some a) (hj : exp.payload[j]? = some b) (hne : i ≠ j) : a.1 ≠ b.1 := by
  intro e
  have hi' : (exp.payload.map (·.1))[i]? = some a.1 := by simp [List.getElem?_map, hi]
  have hj' : (exp.payload.map (·.1))[j]? = some b.1 := by simp [List.getElem?_map, hj]
  rw [e] at hi'
  have hil : i < (exp.payload.map (·.1)).length := by
    rcases List.getElem?_eq_some_iff.mp hi' with ⟨h, _⟩; exact h
  have := (List.getElem?_inj hil wf.nodup (j := j)).mp (by rw [hi', hj'])
  exact hne this


theorem writing_unique {exp : Expected} {s : Sys} (inv : Inv exp s) {w w' i i' : Nat} {t t' : Bool}
    (h : s.writers[w]? = some (.writing i t)) (h' : s.writers[w']? = some (.writing i' t')) : w = w' := by
  have a := (inv.writing w i t h).1
  have b := (inv.writing w' i' t' h').1
  rw [a] at b; exact Option.some.inj b

theorem lt_of_getElem?_some {α : Type} {l : List α} {i : Nat} {a : α} (h : l[i]? = some a) : i < l.length := by
  rcases List.getElem?_eq_some_iff.mp h with ⟨h, _⟩; exact h

/-- Updating writer `w` (which exists) to a non-writing pc, releasing/keeping `lock'`, with the
    same entry. -/
theorem inv_leave {exp : Expected} {s : Sys} (inv : Inv exp s) (w : Nat) (pcOld pcNew : WPc)
    (hw : s.writers[w]? = some pcOld) (hnew : ∀ i t, pcNew ≠ .writing i t)
    (lock' : Option Nat)
    (hlock : (∃ i t, pcOld = .writing i t) → lock' = none)
    (hlock2 : (∀ i t, pcOld ≠ .writing i t) → lock' = s.lock) :
    Inv exp { s with lock := lock', writers := setPc s.writers w pcNew } := by
  have hwl := lt_of_getElem?_some hw
  refine ⟨inv.markerComplete, ?_, ?_, inv.keys, inv.nodupKeys⟩
  · intro w' i t h
    by_cases e : w' = w
    · subst e; simp only [setPc] at h; rw [getElem?_set_eq _ _ _ hwl] at h
      exact absurd (Option.some.inj h) (hnew i t)
    · simp only [setPc] at h; rw [getElem?_set_ne' _ _ _ _ (Ne.symm e)] at h
      have old := inv.writing w' i t h
      -- the old pc of w cannot be writing (else w = w'), so the lock is unchanged
      have hnw : ∀ i0 t0, pcOld ≠ .writing i0 t0 := by
        intro i0 t0 e0; subst e0; exact e (writing_unique inv h hw)
      simp only
      rw [hlock2 hnw]; exact old
  · intro w' hl
    simp only at hl
    by_cases hc : ∃ i t, pcOld = .writing i t
    · rw [hlock hc] at hl; cases hl
    · have hnw : ∀ i0 t0, pcOld ≠ .writing i0 t0 := fun i0 t0 e0 => hc ⟨i0, t0, e0⟩
      rw [hlock2 hnw] at hl
      obtain ⟨i, t, h⟩ := inv.lockHeld w' hl
      have : w' ≠ w := by intro e; subst e; rw [hw] at h; exact hnw i t (Option.some.inj h)
      exact ⟨i, t, by simp only [setPc]; rw [getElem?_set_ne' _ _ _ _ (Ne.symm this)]; exact h⟩

/-- The lock holder `w` writes object `p` (a payload path) and moves to `writing i' t'`. -/
theorem inv_write {exp : Expected} (wf : WF exp) {s : Sys} (inv : Inv exp s) (w i : Nat) (t : Bool)
    (hw : s.writers[w]? = some (.writing i t)) (k : Nat) (p : Str) (cOld c : Content)
    (hk : exp.payload[k]? = some (p, cOld)) (i' : Nat) (t' : Bool) (hi' : i' ≤ exp.payload.length)
    (hprefix : ∀ j, j < i' → ∀ pc, exp.payload[j]? = some pc → (putObj s.entry p c).find pc.1 = some pc.2) :
    Inv exp { s with entry := putObj s.entry p c, writers := setPc s.writers w (.writing i' t') } := by
  have hwl := lt_of_getElem?_some hw
  have old := inv.writing w i t hw
  have hpm : p ≠ markerPath := payload_path_ne_marker wf hk
  have hmk : markerOK (putObj s.entry p c) = false := by rw [markerOK_putObj_ne _ _ _ hpm]; exact old.2.1
  refine ⟨?_, ?_, ?_, onlyKeys_putObj inv.keys p c (Or.inr (payload_path_mem hk)), nodupKeys_put inv.nodupKeys p c⟩
  · intro h; simp only at h; rw [hmk] at h; cases h
  · intro w' i0 t0 h
    by_cases e : w' = w
    · subst e; simp only [setPc] at h; rw [getElem?_set_eq _ _ _ hwl] at h
      have := Option.some.inj h
      injection this with e1 e2; subst e1; subst e2
      exact ⟨old.1, hmk, hi', hprefix⟩
    · simp only [setPc] at h; rw [getElem?_set_ne' _ _ _ _ (Ne.symm e)] at h
      exact absurd (writing_unique inv h hw) e
  · intro w' hl
    simp only at hl
    rw [old.1] at hl
    have : w' = w := (Option.some.inj hl).symm
    subst this
    exact ⟨i', t', by simp only [setPc]; exact getElem?_set_eq _ _ _ hwl⟩

theorem step_inv {exp : Expected} (wf : WF exp) (s : Sys) (inv : Inv exp s) (a : Act) :
    Inv exp (step exp s a) := by
  cases a with
  | acquire w =>
    simp only [step]
    split
    · rename_i hw hl
      split
      · exact inv_leave inv w .start (.finished true) hw (by intro i t h; cases h) s.lock
          (by intro ⟨i, t, h⟩; cases h) (fun _ => rfl)
      · rename_i hmk
        have hwl := lt_of_getElem?_some hw
        have hmk' : markerOK s.entry = false := by simpa using hmk
        refine ⟨inv.markerComplete, ?_, ?_, inv.keys, inv.nodupKeys⟩
        · intro w' i t h
          by_cases e : w' = w
          · subst e; simp only [setPc] at h; rw [getElem?_set_eq _ _ _ hwl] at h
            have := Option.some.inj h; injection this with e1 e2; subst e1; subst e2
            exact ⟨rfl, hmk', Nat.zero_le _, by intro j hj; omega⟩
          · simp only [setPc] at h; rw [getElem?_set_ne' _ _ _ _ (Ne.symm e)] at h
            have := (inv.writing w' i t h).1
            rw [hl] at this; cases this
        · intro w' hl'
          simp only at hl'
          have : w' = w := (Option.some.inj hl').symm
          subst this
          exact ⟨0, false, by simp only [setPc]; exact getElem?_set_eq _ _ _ hwl⟩
    · exact inv
  | truncate w =>
    simp only [step]
    split
    · rename_i i hw
      split
      · rename_i p c hk
        have old := inv.writing w i false hw
        refine inv_write wf inv w i false hw i p c "" hk i true old.2.2.1 ?_
        intro j hj pc hpc
        have hne : p ≠ pc.1 := fun e => payload_paths_distinct wf hk hpc (by omega) (by simpa using e)
        rw [find_putObj_ne _ _ _ _ hne]
        exact old.2.2.2 j hj pc hpc
      · exact inv
    · exact inv
  | fill w =>
    simp only [step]
    split
    · rename_i i hw
      split
      · rename_i p c hk
        have old := inv.writing w i true hw
        have hil : i < exp.payload.length := lt_of_getElem?_some hk
        refine inv_write wf inv w i true hw i p c c hk (i + 1) false (by omega) ?_
        intro j hj pc hpc
        by_cases e : j = i
        · subst e; rw [hk] at hpc; have := Option.some.inj hpc; subst this
          exact find_putObj_eq _ _ _
        · have hne : p ≠ pc.1 := fun e' => payload_paths_distinct wf hk hpc (fun x => e x.symm) (by simpa using e')
          rw [find_putObj_ne _ _ _ _ hne]
          exact old.2.2.2 j (by omega) pc hpc
      · exact inv
    · exact inv
  | fail w =>
    simp only [step]
    split
    · rename_i i t hw
      split
      · exact inv_leave inv w (.writing i t) (.finished false) hw (by intro i t h; cases h) none
          (fun _ => rfl) (fun h => absurd rfl (h i t))
      · exact inv
    · exact inv
  | commit w =>
    simp only [step]
    split
    · rename_i i hw
      split
      · rename_i hi
        have hwl := lt_of_getElem?_some hw
        have old := inv.writing w i false hw
        refine ⟨?_, ?_, ?_, onlyKeys_putObj inv.keys markerPath markerCanonical (Or.inl rfl),
          nodupKeys_put inv.nodupKeys _ _⟩
        · intro _
          refine ⟨?_, find_putObj_eq _ _ _⟩
          intro pc hpc
          obtain ⟨j, hjl, hj⟩ := List.getElem_of_mem hpc
          have hj' : exp.payload[j]? = some pc := by rw [List.getElem?_eq_getElem hjl, hj]
          have hne : markerPath ≠ pc.1 := fun e => payload_path_ne_marker wf hj' e.symm
          simp only
          rw [find_putObj_ne _ _ _ _ hne]
          exact old.2.2.2 j (by omega) pc hj'
        · intro w' i0 t0 h
          by_cases e : w' = w
          · subst e; simp only [setPc] at h; rw [getElem?_set_eq _ _ _ hwl] at h
            cases Option.some.inj h
          · simp only [setPc] at h; rw [getElem?_set_ne' _ _ _ _ (Ne.symm e)] at h
            exact absurd (writing_unique inv h hw) e
        · intro w' hl; simp only at hl; cases hl
      · exact inv
    · exact inv
  | commitFail w =>
    simp only [step]
    split
    · rename_i i hw
      split
      · exact inv_leave inv w (.writing i false) (.finished false) hw (by intro i t h; cases h) none
          (fun _ => rfl) (fun h => absurd rfl (h i false))
      · exact inv
    · exact inv
  | crash w =>
    simp only [step]
    split
    · rename_i i t hw
      exact inv_leave inv w (.writing i t) .crashed hw (by intro i t h; cases h) none
        (fun _ => rfl) (fun h => absurd rfl (h i t))
    · rename_i hw
      exact inv_leave inv w .start .crashed hw (by intro i t h; cases h) s.lock
        (by intro ⟨i, t, h⟩; cases h) (fun _ => rfl)
    · exact inv

theorem runActs_inv {exp : Expected} (wf : WF exp) (acts : List Act) (s : Sys) (inv : Inv exp s) :
    Inv exp (runActs exp s acts) := by
  induction acts generalizing s with
  | nil => exact inv
  | cons a rest ih => exact ih _ (step_inv wf s inv a)


/-! ### Who can change what -/

/-- A step changes the pc of at most one writer, and only of one that is `start` or `writing`. -/
theorem step_writers (exp : Expected) (s : Sys) (a : Act) :
    (step exp s a).writers = s.writers ∨
      ∃ w pcOld pcNew, s.writers[w]? = some pcOld ∧ (∀ b, pcOld ≠ WPc.finished b) ∧
        (step exp s a).writers = setPc s.writers w pcNew := by
  cases a with
  | acquire w =>
    simp only [step]; split
    · rename_i hw _
      split
      · exact Or.inr ⟨w, WPc.start, _, hw, (by intro b h; exact WPc.noConfusion h), rfl⟩
      · exact Or.inr ⟨w, WPc.start, _, hw, (by intro b h; exact WPc.noConfusion h), rfl⟩
    · exact Or.inl rfl
  | truncate w =>
    simp only [step]; split
    · rename_i i hw
      split
      · exact Or.inr ⟨w, WPc.writing _ _, _, hw, (by intro b h; exact WPc.noConfusion h), rfl⟩
      · exact Or.inl rfl
    · exact Or.inl rfl
  | fill w =>
    simp only [step]; split
    · rename_i i hw
      split
      · exact Or.inr ⟨w, WPc.writing _ _, _, hw, (by intro b h; exact WPc.noConfusion h), rfl⟩
      · exact Or.inl rfl
    · exact Or.inl rfl
  | fail w =>
    simp only [step]; split
    · rename_i i t hw
      split
      · exact Or.inr ⟨w, WPc.writing _ _, _, hw, (by intro b h; exact WPc.noConfusion h), rfl⟩
      · exact Or.inl rfl
    · exact Or.inl rfl
  | commit w =>
    simp only [step]; split
    · rename_i i hw
      split
      · exact Or.inr ⟨w, WPc.writing _ _, _, hw, (by intro b h; exact WPc.noConfusion h), rfl⟩
      · exact Or.inl rfl
    · exact Or.inl rfl
  | commitFail w =>
    simp only [step]; split
    · rename_i i hw
      split
      · exact Or.inr ⟨w, WPc.writing _ _, _, hw, (by intro b h; exact WPc.noConfusion h), rfl⟩
      · exact Or.inl rfl
    · exact Or.inl rfl
  | crash w =>
    simp only [step]; split
    · rename_i i t hw; exact Or.inr ⟨w, WPc.writing i t, _, hw, (by intro b h; exact WPc.noConfusion h), rfl⟩
    · rename_i hw; exact Or.inr ⟨w, WPc.start, _, hw, (by intro b h; exact WPc.noConfusion h), rfl⟩
    · exact Or.inl rfl

/-- A finished writer stays finished. -/
theorem finished_stays (exp : Expected) (s : Sys) (a : Act) (w0 : Nat) (b : Bool)
    (h : s.writers[w0]? = some (WPc.finished b)) : (step exp s a).writers[w0]? = some (WPc.finished b) := by
  rcases step_writers exp s a with e | ⟨w, pcOld, pcNew, hw, hnf, e⟩
  · rw [e]; exact h
  · rw [e]
    have : w ≠ w0 := by intro e'; subst e'; rw [h] at hw; exact hnf b (Option.some.inj hw).symm
    simp only [setPc]; rw [getElem?_set_ne' _ _ _ _ this]; exact h

/-- The marker becomes valid only through a successful commit. -/
theorem step_marker (exp : Expected) (wf : WF exp) (s : Sys) (a : Act)
    (h : markerOK (step exp s a).entry = true) :
    markerOK s.entry = true ∨ ∃ w : Nat, (step exp s a).writers[w]? = some (WPc.finished true) := by
  cases a with
  | acquire w =>
    simp only [step] at h; split at h
    · split at h <;> exact Or.inl h
    · exact Or.inl h
  | truncate w =>
    simp only [step] at h; split at h
    · split at h
      · rename_i p c hk
        simp only at h
        rw [markerOK_putObj_ne _ _ _ (payload_path_ne_marker wf hk)] at h; exact Or.inl h
      · exact Or.inl h
    · exact Or.inl h
  | fill w =>
    simp only [step] at h; split at h
    · split at h
      · rename_i p c hk
        simp only at h
        rw [markerOK_putObj_ne _ _ _ (payload_path_ne_marker wf hk)] at h; exact Or.inl h
      · exact Or.inl h
    · exact Or.inl h
  | fail w =>
    simp only [step] at h; split at h
    · split at h <;> exact Or.inl h
    · exact Or.inl h
  | commit w =>
    simp only [step] at h ⊢; split
    · rename_i i hw
      split
      · refine Or.inr ⟨w, ?_⟩
        simp only [setPc]; exact getElem?_set_eq _ _ _ (lt_of_getElem?_some hw)
      · rename_i hne
        simp only [hw, hne, if_false] at h; exact Or.inl h
    · rename_i hne
      split at h
      · rename_i i hw; exact absurd hw (hne i)
      · exact Or.inl h
  | commitFail w =>
    simp only [step] at h; split at h
    · split at h <;> exact Or.inl h
    · exact Or.inl h
  | crash w =>
    simp only [step] at h; split at h <;> exact Or.inl h

/-- In every reachable state a valid marker implies that some store returned success. -/
theorem marker_needs_success (exp : Expected) (wf : WF exp) (acts : List Act) (s : Sys)
    (hs : markerOK s.entry = true → ∃ w : Nat, s.writers[w]? = some (WPc.finished true))
    (h : markerOK (runActs exp s acts).entry = true) :
    ∃ w : Nat, (runActs exp s acts).writers[w]? = some (WPc.finished true) := by
  induction acts generalizing s with
  | nil => exact hs h
  | cons a rest ih =>
    apply ih (step exp s a) _ h
    intro hm
    rcases step_marker exp wf s a hm with hold | hnew
    · obtain ⟨w0, hw0⟩ := hs hold
      exact ⟨w0, finished_stays exp s a w0 true hw0⟩
    · exact hnew


/-! ### A fault-free store completes the entry from any reachable state -/

def rounds (w : Nat) : Nat → List Act
  | 0 => []
  | k + 1 => Act.truncate w :: Act.fill w :: rounds w k

/-- The action sequence of one uninterrupted, fault-free store by writer `w`. -/
def storeActs (exp : Expected) (w : Nat) : List Act :=
  Act.acquire w :: (rounds w exp.payload.length ++ [Act.commit w])

theorem step_truncate_eq (exp : Expected) (s : Sys) (w i : Nat) (p : Str) (c : Content)
    (hw : s.writers[w]? = some (WPc.writing i false)) (hk : exp.payload[i]? = some (p, c)) :
    step exp s (Act.truncate w) =
      { s with entry := putObj s.entry p "", writers := setPc s.writers w (WPc.writing i true) } := by
  simp only [step, hw, hk]

theorem step_fill_eq (exp : Expected) (s : Sys) (w i : Nat) (p : Str) (c : Content)
    (hw : s.writers[w]? = some (WPc.writing i true)) (hk : exp.payload[i]? = some (p, c)) :
    step exp s (Act.fill w) =
      { s with entry := putObj s.entry p c, writers := setPc s.writers w (WPc.writing (i + 1) false) } := by
  simp only [step, hw, hk]

theorem step_commit_eq (exp : Expected) (s : Sys) (w : Nat)
    (hw : s.writers[w]? = some (WPc.writing exp.payload.length false)) :
    step exp s (Act.commit w) =
      { entry := putObj s.entry markerPath markerCanonical, lock := none,
        writers := setPc s.writers w (WPc.finished true) } := by
  simp only [step, hw, if_true]

theorem rounds_progress (exp : Expected) (w : Nat) (k : Nat) (s : Sys) (i : Nat)
    (hw : s.writers[w]? = some (WPc.writing i false)) (hik : i + k ≤ exp.payload.length) :
    (runActs exp s (rounds w k)).writers[w]? = some (WPc.writing (i + k) false) := by
  induction k generalizing s i with
  | zero => simpa [rounds, runActs] using hw
  | succ k ih =>
    have hil : i < exp.payload.length := by omega
    have hwl := lt_of_getElem?_some hw
    obtain ⟨pc, hpc⟩ : ∃ pc, exp.payload[i]? = some pc := ⟨exp.payload[i], List.getElem?_eq_getElem hil⟩
    obtain ⟨p, c⟩ := pc
    have e1 := step_truncate_eq exp s w i p c hw hpc
    have h1 : (step exp s (Act.truncate w)).writers[w]? = some (WPc.writing i true) := by
      rw [e1]; simp only [setPc]; exact getElem?_set_eq _ _ _ hwl
    have hwl1 := lt_of_getElem?_some h1
    have e2 := step_fill_eq exp (step exp s (Act.truncate w)) w i p c h1 hpc
    have h2 : (step exp (step exp s (Act.truncate w)) (Act.fill w)).writers[w]? = some (WPc.writing (i + 1) false) := by
      rw [e2]; simp only [setPc]; exact getElem?_set_eq _ _ _ hwl1
    have := ih (step exp (step exp s (Act.truncate w)) (Act.fill w)) (i + 1) h2 (by omega)
    have hshape : runActs exp s (rounds w (k + 1)) =
        runActs exp (step exp (step exp s (Act.truncate w)) (Act.fill w)) (rounds w k) := rfl
    rw [hshape, this]; congr 2; omega

theorem step_finished_noop (exp : Expected) (s : Sys) (w : Nat) (b : Bool)
    (hw : s.writers[w]? = some (WPc.finished b)) (a : Act)
    (ha : a = Act.truncate w ∨ a = Act.fill w ∨ a = Act.commit w) : step exp s a = s := by
  rcases ha with e | e | e <;> subst e <;> simp only [step, hw]

theorem runActs_finished_noop (exp : Expected) (w : Nat) (b : Bool) (acts : List Act)
    (hacts : ∀ a ∈ acts, a = Act.truncate w ∨ a = Act.fill w ∨ a = Act.commit w)
    (s : Sys) (hw : s.writers[w]? = some (WPc.finished b)) : runActs exp s acts = s := by
  induction acts with
  | nil => rfl
  | cons a rest ih =>
    simp only [runActs, List.foldl]
    rw [step_finished_noop exp s w b hw a (hacts a (by simp))]
    exact ih (fun x hx => hacts x (List.mem_cons_of_mem _ hx))

theorem rounds_mem (w k : Nat) : ∀ a ∈ rounds w k, a = Act.truncate w ∨ a = Act.fill w ∨ a = Act.commit w := by
  induction k with
  | zero => intro a h; cases h
  | succ k ih =>
    intro a h
    simp only [rounds, List.mem_cons] at h
    rcases h with e | e | h
    · exact Or.inl e
    · exact Or.inr (Or.inl e)
    · exact ih a h

/-- later_store_repairs: from ANY reachable state in which the lock is free — whatever partial,
    truncated or missing files earlier crashed or failed stores left behind — one fault-free
    store ends with a valid marker and returns success. -/
theorem store_completes (exp : Expected) (s : Sys) (w : Nat)
    (hlock : s.lock = none) (hw : s.writers[w]? = some WPc.start) :
    markerOK (runActs exp s (storeActs exp w)).entry = true ∧
      (runActs exp s (storeActs exp w)).writers[w]? = some (WPc.finished true) := by
  have hwl := lt_of_getElem?_some hw
  simp only [storeActs, runActs, List.foldl]
  by_cases hm : markerOK s.entry = true
  · -- already complete: the store returns at once
    have h1 : step exp s (Act.acquire w) = { s with writers := setPc s.writers w (WPc.finished true) } := by
      simp only [step, hw, hlock, hm, if_true]
    have hf : (step exp s (Act.acquire w)).writers[w]? = some (WPc.finished true) := by
      rw [h1]; simp only [setPc]; exact getElem?_set_eq _ _ _ hwl
    have := runActs_finished_noop exp w true (rounds w exp.payload.length ++ [Act.commit w])
      (by intro a ha; rcases List.mem_append.mp ha with h | h
          · exact rounds_mem w _ a h
          · simp at h; exact Or.inr (Or.inr h)) _ hf
    simp only [runActs] at this
    rw [this]
    exact ⟨by rw [h1]; exact hm, hf⟩
  · have hmf : markerOK s.entry = false := by simpa using hm
    have h1 : step exp s (Act.acquire w) =
        { s with lock := some w, writers := setPc s.writers w (WPc.writing 0 false) } := by
      simp only [step, hw, hlock, hmf]; rfl
    have hw1 : (step exp s (Act.acquire w)).writers[w]? = some (WPc.writing 0 false) := by
      rw [h1]; simp only [setPc]; exact getElem?_set_eq _ _ _ hwl
    rw [List.foldl_append]
    have hr := rounds_progress exp w exp.payload.length (step exp s (Act.acquire w)) 0 hw1 (by omega)
    simp only [runActs, Nat.zero_add] at hr
    generalize List.foldl (step exp) (step exp s (Act.acquire w)) (rounds w exp.payload.length) = s2 at hr ⊢
    have hwl2 := lt_of_getElem?_some hr
    show markerOK (step exp s2 (Act.commit w)).entry = true ∧ (step exp s2 (Act.commit w)).writers[w]? = _
    rw [step_commit_eq exp s2 w hr]
    constructor
    · show markerOK (putObj s2.entry markerPath markerCanonical) = true
      unfold markerOK; rw [find_putObj_eq]; decide
    · simp only [setPc]; exact getElem?_set_eq _ _ _ hwl2


/-! ### A complete entry loads as a hit with exactly the pinned module files -/

theorem stripFiles_prefix (x : Str) : stripFiles (filesPrefix ++ x) = some x := by
  unfold stripFiles
  have : filesPrefix.isPrefixOf (filesPrefix ++ x) = true :=
    List.isPrefixOf_iff_prefix.mpr (List.prefix_append _ _)
  simp [this]

/-- Side files do not live under files/. -/
def SidesOutsideFiles (exp : Expected) : Prop := ∀ s ∈ exp.sides, stripFiles s.1 = none

theorem subsetOf_iff (a b : List (Str × Content)) : subsetOf a b = true ↔ ∀ x ∈ a, x ∈ b := by
  unfold subsetOf
  simp [List.all_eq_true, List.contains_iff_mem]

theorem complete_loads_hit (exp : Expected) (hside : SidesOutsideFiles exp) (entry : Mem)
    (hc : Complete exp entry) (hm : entry.find markerPath = some markerCanonical)
    (hk : OnlyPayloadKeys exp entry) (hn : NodupKeys entry) :
    load exp entry = .hit (moduleFilesOf entry) ∧
      sameSet (moduleFilesOf entry) (exp.files.filter fun f => isModuleFile f.1) = true := by
  have hsides : (exp.sides.all fun s => (entry.find s.1).isSome) = true := by
    rw [List.all_eq_true]
    intro s hs
    have : s ∈ exp.payload := List.mem_append.mpr (Or.inr hs)
    rw [hc s this]; rfl
  have hsame : sameSet (moduleFilesOf entry) (exp.files.filter fun f => isModuleFile f.1) = true := by
    unfold sameSet
    rw [Bool.and_eq_true, subsetOf_iff, subsetOf_iff]
    constructor
    · intro x hx
      unfold moduleFilesOf at hx
      obtain ⟨kv, hkv, hfx⟩ := List.mem_filterMap.mp hx
      cases hst : stripFiles kv.1 with
      | none => rw [hst] at hfx; cases hfx
      | some rel =>
        rw [hst] at hfx
        simp only at hfx
        split at hfx
        · rename_i hmod
          injection hfx with hfx
          rcases hk kv hkv with hmk | hpay
          · exfalso
            have hnone : stripFiles markerPath = none := by decide
            rw [hmk, hnone] at hst; cases hst
          · obtain ⟨pc, hpc, hpe⟩ := List.mem_map.mp hpay
            rcases List.mem_append.mp hpc with hf | hs
            · obtain ⟨f0, hf0, hfe⟩ := List.mem_map.mp hf
              have hp : kv.1 = filesPrefix ++ f0.1 := by rw [← hpe, ← hfe]
              have hrel : rel = f0.1 := by
                rw [hp, stripFiles_prefix] at hst; exact (Option.some.inj hst).symm
              have hfind := hc pc hpc
              rw [← hfe] at hfind
              simp only at hfind
              have hkvfind : entry.find kv.1 = some kv.2 := (mem_iff_find hn kv.1 kv.2).mp hkv
              rw [hp, hfind] at hkvfind
              have hc2 : f0.2 = kv.2 := Option.some.inj hkvfind
              rw [← hfx, hrel, ← hc2]
              apply List.mem_filter.mpr
              refine ⟨hf0, ?_⟩
              rw [← hrel]; exact hmod
            · exfalso
              have := hside pc hs
              rw [hpe, hst] at this; cases this
        · cases hfx
    · intro f hf
      obtain ⟨hfm, hmod⟩ := List.mem_filter.mp hf
      have hpay : (filesPrefix ++ f.1, f.2) ∈ exp.payload :=
        List.mem_append.mpr (Or.inl (List.mem_map.mpr ⟨f, hfm, rfl⟩))
      have hfind := hc _ hpay
      simp only at hfind
      have hmem := find_some_mem hfind
      unfold moduleFilesOf
      apply List.mem_filterMap.mpr
      refine ⟨(filesPrefix ++ f.1, f.2), hmem, ?_⟩
      dsimp only
      rw [stripFiles_prefix]
      dsimp only
      rw [if_pos hmod]
  refine ⟨?_, hsame⟩
  unfold load
  rw [hm]
  simp only
  have hv : markerValid markerCanonical = true := by decide
  simp only [hv, Bool.not_true, Bool.false_eq_true, if_false, hsides, hsame, Bool.true_and, decide_true, if_true]

end BufModel.Cache
