import BufModel.OutFile
/-
  Helper lemmas for Props/C11OutFile.lean (model BufModel/OutFile.lean): association-list
  lookup / update, and what replacing the END of a symbolic-link walk does to walks.
-/
namespace BufModel.OutFile

variable {α : Type}

theorem of_lookup_set_eq (fs : FS α) (p : Name) (n : Node α) : lookup (setNode fs p n) p = some n := by
  induction fs with
  | nil => simp [setNode, lookup]
  | cons h t ih =>
    obtain ⟨q, m⟩ := h
    by_cases hq : q = p
    · simp [setNode, lookup, hq]
    · simp [setNode, lookup, hq, ih]

theorem of_lookup_set_ne (fs : FS α) (p r : Name) (n : Node α) (h : r ≠ p) :
    lookup (setNode fs p n) r = lookup fs r := by
  induction fs with
  | nil =>
    have : ¬ p = r := fun e => h e.symm
    simp [setNode, lookup, this]
  | cons hd t ih =>
    obtain ⟨q, m⟩ := hd
    by_cases hq : q = p
    · subst hq
      have : ¬ q = r := fun e => h e.symm
      simp [setNode, lookup, this]
    · by_cases hr : q = r
      · subst hr
        simp [setNode, lookup, hq]
      · simp [setNode, lookup, hq, hr, ih]

/-- the name a walk ends at is not a symbolic link -/
theorem of_resolve_terminal (fs : FS α) : ∀ (fuel : Nat) (p q : Name),
    resolve fs fuel p = .ok q → ∀ t, lookup fs q ≠ some (.link t) := by
  intro fuel
  induction fuel with
  | zero => intro p q h; simp [resolve] at h
  | succ f ih =>
    intro p q h t
    unfold resolve at h
    split at h
    · exact ih _ _ h t
    · rename_i hne
      cases h
      intro hl
      exact hne t hl

/-- replacing the node the walk of `p` ends at (by a non-link) does not change that walk -/
theorem of_resolve_set_same (fs : FS α) (n : Node α) (hn : ∀ t, n ≠ .link t) : ∀ (fuel : Nat) (p q : Name),
    resolve fs fuel p = .ok q → resolve (setNode fs q n) fuel p = .ok q := by
  intro fuel
  induction fuel with
  | zero => intro p q h; simp [resolve] at h
  | succ f ih =>
    intro p q h
    have hterm := of_resolve_terminal fs (f + 1) p q h
    unfold resolve at h
    unfold resolve
    split at h
    · rename_i t hl
      have hpq : p ≠ q := by
        intro e; subst e; exact hterm t hl
      rw [of_lookup_set_ne fs q p n hpq, hl]
      exact ih _ _ h
    · rename_i hne
      cases h
      rw [of_lookup_set_eq]
      split
      · rename_i t hl
        cases hl
        exact absurd rfl (hn t)
      · rfl

/-- a walk that ends elsewhere does not see the replaced node at all -/
theorem of_resolve_set_other (fs : FS α) (q : Name) (n : Node α) (hq : ∀ t, lookup fs q ≠ some (.link t)) :
    ∀ (fuel : Nat) (r q' : Name), resolve fs fuel r = .ok q' → q' ≠ q →
      resolve (setNode fs q n) fuel r = .ok q' := by
  intro fuel
  induction fuel with
  | zero => intro r q' h; simp [resolve] at h
  | succ f ih =>
    intro r q' h hne
    unfold resolve at h
    unfold resolve
    split at h
    · rename_i t hl
      have hrq : r ≠ q := by
        intro e; subst e; exact hq t hl
      rw [of_lookup_set_ne fs q r n hrq, hl]
      exact ih _ _ h hne
    · rename_i hnl
      cases h
      rw [of_lookup_set_ne fs q r n hne]
      split
      · rename_i t hl
        exact absurd hl (hnl t)
      · rfl

theorem of_createWith_ok (wr : List α → List α → List α) (fs fs' : FS α) (p : Name) (c : List α)
    (h : createWith wr fs p c = .ok fs') :
    ∃ q, resolve fs (maxLinks + 1) p = .ok q ∧ lookup fs q ≠ some .dir ∧
      fs' = setNode fs q (.file (wr (oldBytes fs q) c)) := by
  unfold createWith at h
  split at h
  · cases h
  · rename_i q hr
    split at h
    · cases h
    · rename_i hnd
      cases h
      exact ⟨q, hr, fun e => hnd e, rfl⟩

/-- what a successful write leaves behind, for any open mode -/
theorem of_read_after_createWith (wr : List α → List α → List α) (fs fs' : FS α) (p : Name) (c : List α)
    (h : createWith wr fs p c = .ok fs') :
    ∃ q, resolve fs (maxLinks + 1) p = .ok q ∧ readBack fs' p = .ok (wr (oldBytes fs q) c) := by
  obtain ⟨q, hr, _, hfs⟩ := of_createWith_ok wr fs fs' p c h
  refine ⟨q, hr, ?_⟩
  subst hfs
  have hr' := of_resolve_set_same fs (.file (wr (oldBytes fs q) c)) (by intro t e; cases e) _ p q hr
  unfold readBack
  rw [hr']
  simp [of_lookup_set_eq]

end BufModel.OutFile
