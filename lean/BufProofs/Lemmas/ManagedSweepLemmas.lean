import BufProofs.Lemmas.ManagedLemmas
/-
  C18, source-info sweep: location paths that run MORE than one element below a FieldOptions
  location (`[4,m,2,f,8,50000,1]`: a message-typed custom option set through a sub-field,
  `[…,8,50003,0]`: an element of a repeated option, `[…,8,50002,3,3,0]` …).

  * `pathType_below_root`: whatever lies below a FieldOptions location, at ANY depth, is
    classified as a field option (`getPathType` keeps the classification of the element right
    below the options message when the classifier has finished and path elements remain).
  * `SweepInv2` / `sweepLoop_inv2`: a second loop invariant of the sweeper, about the counters of
    the trie, on location lists in which a FieldOptions location occurs once and before the
    locations inside it (`RootsFirst`, what compilers emit).
  * `sweepRemoved_root_iff`: on such lists a FieldOptions location is removed exactly when at
    least one location inside it was removed and none inside it stays.
-/
namespace BufProofs.ManagedLemmas
open BufModel.Managed

/-! ### the classifier on deep paths -/

theorem dfaRun_done (pt : PathType) (l : List Nat) : dfaRun .done pt l = pt := by
  cases l <;> rfl

theorem dfaRun_cons (st : DState) (pt : PathType) (x : Nat) (xs : List Nat) (h : st ≠ .done) :
    dfaRun st pt (x :: xs) = dfaRun (dfaStep st x).1 (dfaStep st x).2 xs := by
  cases st <;> first | exact absurd rfl h | rfl

/-- every step keeps "the classification is FieldOptions-root exactly in state fieldOptions". -/
theorem dfaStep_root_iff (st : DState) (x : Nat) :
    ((dfaStep st x).2 = .fieldOptionsRoot ↔ (dfaStep st x).1 = .fieldOptions) := by
  cases st <;> unfold dfaStep <;> (repeat' split) <;> simp

theorem dfaRun_below_root :
    ∀ (r : List Nat) (st : DState) (pt : PathType) (x : Nat) (rest : List Nat),
      st ≠ .done → (pt = .fieldOptionsRoot ↔ st = .fieldOptions) →
      dfaRun st pt r = .fieldOptionsRoot → dfaRun st pt (r ++ x :: rest) = .fieldOption
  | [], st, pt, x, rest, _, hiff, h => by
    have hpt : pt = .fieldOptionsRoot := by cases st <;> exact h
    have hst := hiff.mp hpt
    subst hst
    show dfaRun .fieldOptions pt (x :: rest) = .fieldOption
    rw [dfaRun_cons _ _ _ _ (by decide)]
    show dfaRun .done .fieldOption rest = .fieldOption
    exact dfaRun_done _ _
  | y :: ys, st, pt, x, rest, hnd, _, h => by
    rw [dfaRun_cons _ _ _ _ hnd] at h
    show dfaRun st pt (y :: (ys ++ x :: rest)) = .fieldOption
    rw [dfaRun_cons _ _ _ _ hnd]
    by_cases hd : (dfaStep st y).1 = .done
    · rw [hd, dfaRun_done] at h
      have := (dfaStep_root_iff st y).mp h
      rw [hd] at this; cases this
    · exact dfaRun_below_root ys _ _ x rest hd (dfaStep_root_iff st y) h

theorem properPrefix_split {a d : List Nat} (h : properPrefix a d = true) :
    ∃ x rest, d = a ++ x :: rest := by
  unfold properPrefix at h
  simp only [Bool.and_eq_true, decide_eq_true_eq] at h
  obtain ⟨t, rfl⟩ := List.isPrefixOf_iff_prefix.mp h.1
  cases t with
  | nil => simp at h
  | cons x rest => exact ⟨x, rest, rfl⟩

/-- `getPathType` below a FieldOptions location: every longer path with that prefix — one
    element below (`[…,8,6]`), two (`[…,8,50000,1]`, `[…,8,50003,0]`) or more — is a field
    option. -/
theorem pathType_below_root {r d : List Nat} (hr : pathType r = .fieldOptionsRoot)
    (hp : properPrefix r d = true) : pathType d = .fieldOption := by
  obtain ⟨x, rest, rfl⟩ := properPrefix_split hp
  exact dfaRun_below_root r .start .notFieldOption x rest (by decide) (by decide) hr

/-- FieldOptions locations are never nested in one another. -/
theorem root_not_below_root {r d : List Nat} (hr : pathType r = .fieldOptionsRoot)
    (hp : properPrefix r d = true) : pathType d ≠ .fieldOptionsRoot := by
  rw [pathType_below_root hr hp]; decide

/-! ### the trie counters on compiler-shaped location lists -/

/-- what compilers emit: a FieldOptions location occurs once, and before every location
    inside it. -/
def RootsFirst (all : List Loc) : Prop :=
  ∀ (i : Nat) (li : Loc), all[i]? = some li → pathType li.path = .fieldOptionsRoot →
    ∀ (j : Nat) (lj : Loc), all[j]? = some lj →
      (lj.path = li.path → j = i) ∧ (properPrefix li.path lj.path = true → i < j)

theorem properPrefix_irrefl (p : List Nat) : properPrefix p p = false := by
  unfold properPrefix; simp

theorem isFileOptPath_not_root {p : List Nat} (h : isFileOptPath p = true) :
    pathType p = .notFieldOption := by
  unfold isFileOptPath at h
  match p, h with
  | [a, b], h =>
    simp at h; subst h; rfl

/-- two FieldOptions paths that are both proper prefixes of one path are equal. -/
theorem roots_above_eq {a b d : List Nat} (ha : pathType a = .fieldOptionsRoot)
    (hb : pathType b = .fieldOptionsRoot) (hpa : properPrefix a d = true) (hpb : properPrefix b d = true) :
    a = b := by
  have h1 : a <+: d := by
    unfold properPrefix at hpa; simp only [Bool.and_eq_true] at hpa
    exact List.isPrefixOf_iff_prefix.mp hpa.1
  have h2 : b <+: d := by
    unfold properPrefix at hpb; simp only [Bool.and_eq_true] at hpb
    exact List.isPrefixOf_iff_prefix.mp hpb.1
  rcases Nat.lt_trichotomy a.length b.length with hl | hl | hl
  · have hab : a <+: b := List.prefix_of_prefix_length_le h1 h2 (by omega)
    have : properPrefix a b = true := by
      unfold properPrefix; simp only [Bool.and_eq_true, decide_eq_true_eq]
      exact ⟨List.isPrefixOf_iff_prefix.mpr hab, hl⟩
    exact absurd hb (root_not_below_root ha this)
  · exact List.prefix_of_prefix_length_le h1 h2 (by omega) |>.eq_of_length hl
  · have hba : b <+: a := List.prefix_of_prefix_length_le h2 h1 (by omega)
    have : properPrefix b a = true := by
      unfold properPrefix; simp only [Bool.and_eq_true, decide_eq_true_eq]
      exact ⟨List.isPrefixOf_iff_prefix.mpr hba, hl⟩
    exact absurd ha (root_not_below_root hb this)

theorem trieUpd_paths (g : TEntry → TEntry) (hg : ∀ e, (g e).path = e.path) :
    ∀ (t : List TEntry) (d : List Nat), (trieUpdAncestor g t d).map (·.path) = t.map (·.path)
  | [], _ => rfl
  | e :: es, d => by
    unfold trieUpdAncestor
    split
    · simp [hg]
    · simp [trieUpd_paths g hg es d]

theorem trieHit_paths (t : List TEntry) (d : List Nat) : (trieHit t d).map (·.path) = t.map (·.path) :=
  trieUpd_paths (fun e => { e with hit := true }) (fun _ => rfl) t d

theorem trieRegister_paths (t : List TEntry) (d : List Nat) :
    (trieRegister t d).map (·.path) = t.map (·.path) :=
  trieUpd_paths (fun e => { e with count := e.count + 1 }) (fun _ => rfl) t d

/-- with pairwise different root paths only THE entry above `d` is updated. -/
theorem trieUpd_mem2 (g : TEntry → TEntry) :
    ∀ (t : List TEntry) (d : List Nat),
      (t.map (·.path)).Nodup → (∀ e ∈ t, pathType e.path = .fieldOptionsRoot) →
      ∀ e' ∈ trieUpdAncestor g t d,
        (e' ∈ t ∧ properPrefix e'.path d = false) ∨ (∃ e ∈ t, e' = g e ∧ properPrefix e.path d = true)
  | [], _, _, _, e', h => by simp [trieUpdAncestor] at h
  | e :: es, d, hn, hr, e', h => by
    have hn' : (es.map (·.path)).Nodup := (List.nodup_cons.mp (by simpa using hn)).2
    have hne : e.path ∉ es.map (·.path) := (List.nodup_cons.mp (by simpa using hn)).1
    unfold trieUpdAncestor at h
    split at h
    · rename_i hp
      rcases List.mem_cons.mp h with rfl | h2
      · exact Or.inr ⟨e, by simp, rfl, hp⟩
      · refine Or.inl ⟨by simp [h2], ?_⟩
        cases hpp : properPrefix e'.path d with
        | false => rfl
        | true =>
          have := roots_above_eq (hr e (by simp)) (hr e' (by simp [h2])) hp hpp
          exact absurd (List.mem_map.mpr ⟨e', h2, this.symm⟩) hne
    · rename_i hp
      rcases List.mem_cons.mp h with rfl | h2
      · exact Or.inl ⟨by simp, by simpa using hp⟩
      · rcases trieUpd_mem2 g es d hn' (fun x hx => hr x (by simp [hx])) e' h2 with ⟨h3, h4⟩ | ⟨e0, h4, h5⟩
        · exact Or.inl ⟨by simp [h3], h4⟩
        · exact Or.inr ⟨e0, by simp [h4], h5⟩

/-- and it IS updated. -/
theorem trieUpd_hits (g : TEntry → TEntry) :
    ∀ (t : List TEntry) (d : List Nat) (e : TEntry), e ∈ t → properPrefix e.path d = true →
      (t.map (·.path)).Nodup → (∀ e ∈ t, pathType e.path = .fieldOptionsRoot) →
      g e ∈ trieUpdAncestor g t d
  | [], _, _, h, _, _, _ => by simp at h
  | x :: xs, d, e, h, hp, hn, hr => by
    have hn' : (xs.map (·.path)).Nodup := (List.nodup_cons.mp (by simpa using hn)).2
    have hne : x.path ∉ xs.map (·.path) := (List.nodup_cons.mp (by simpa using hn)).1
    unfold trieUpdAncestor
    split
    · rename_i hx
      rcases List.mem_cons.mp h with rfl | h2
      · simp
      · have := roots_above_eq (hr x (by simp)) (hr e (by simp [h2])) hx hp
        exact absurd (List.mem_map.mpr ⟨e, h2, this.symm⟩) hne
    · rename_i hx
      rcases List.mem_cons.mp h with rfl | h2
      · exact absurd hp hx
      · exact List.mem_cons_of_mem _ (trieUpd_hits g xs d e h2 hp hn' (fun y hy => hr y (by simp [hy])))

/-- what the data attached to one path end of the trie means after the first `i` locations. -/
structure EntryOK (mk : List (List Nat)) (all : List Loc) (i : Nat) (e : TEntry) : Prop where
  root : pathType e.path = .fieldOptionsRoot
  here : ∃ loc : Loc, all[e.index]? = some loc ∧ loc.path = e.path
  lt : e.index < i
  zero : e.count = 0 → ∀ k, k < i → ∀ loc : Loc, all[k]? = some loc →
    properPrefix e.path loc.path = true → loc.path ∈ mk
  pos : e.count ≠ 0 → ∃ (k : Nat) (loc : Loc), all[k]? = some loc ∧
    properPrefix e.path loc.path = true ∧ loc.path ∉ mk
  hit : e.hit = true ↔ ∃ (k : Nat) (loc : Loc), k < i ∧ all[k]? = some loc ∧
    properPrefix e.path loc.path = true ∧ loc.path ∈ mk

theorem EntryOK.step_other {mk : List (List Nat)} {all : List Loc} {i : Nat} {e : TEntry} {loc : Loc}
    (hget : all[i]? = some loc) (h : EntryOK mk all i e) (hp : properPrefix e.path loc.path = false) :
    EntryOK mk all (i + 1) e := by
  refine ⟨h.root, h.here, by have := h.lt; omega, ?_, h.pos, ?_⟩
  · intro hz k hk l hl hpp
    by_cases hki : k = i
    · subst hki; rw [hget] at hl; cases hl; rw [hp] at hpp; cases hpp
    · exact h.zero hz k (by omega) l hl hpp
  · constructor
    · intro hh
      obtain ⟨k, l, a, b, c, d⟩ := h.hit.mp hh
      exact ⟨k, l, by omega, b, c, d⟩
    · rintro ⟨k, l, a, b, c, d⟩
      by_cases hki : k = i
      · subst hki; rw [hget] at b; cases b; rw [hp] at c; cases c
      · exact h.hit.mpr ⟨k, l, by omega, b, c, d⟩

theorem EntryOK.step_kept {mk : List (List Nat)} {all : List Loc} {i : Nat} {e : TEntry} {loc : Loc}
    (hget : all[i]? = some loc) (h : EntryOK mk all i e) (hp : properPrefix e.path loc.path = true)
    (hm : loc.path ∉ mk) : EntryOK mk all (i + 1) { e with count := e.count + 1 } := by
  refine ⟨h.root, h.here, by have := h.lt; show e.index < i + 1; omega, ?_, ?_, ?_⟩
  · intro hz; simp at hz
  · intro _; exact ⟨i, loc, hget, hp, hm⟩
  · show e.hit = true ↔ _
    constructor
    · intro hh
      obtain ⟨k, l, a, b, c, d⟩ := h.hit.mp hh
      exact ⟨k, l, by omega, b, c, d⟩
    · rintro ⟨k, l, a, b, c, d⟩
      by_cases hki : k = i
      · subst hki; rw [hget] at b; cases b; exact absurd d hm
      · exact h.hit.mpr ⟨k, l, by omega, b, c, d⟩

theorem EntryOK.step_hit {mk : List (List Nat)} {all : List Loc} {i : Nat} {e : TEntry} {loc : Loc}
    (hget : all[i]? = some loc) (h : EntryOK mk all i e) (hp : properPrefix e.path loc.path = true)
    (hm : loc.path ∈ mk) : EntryOK mk all (i + 1) { e with hit := true } := by
  refine ⟨h.root, h.here, by have := h.lt; show e.index < i + 1; omega, ?_, h.pos, ?_⟩
  · intro hz k hk l hl hpp
    by_cases hki : k = i
    · subst hki; rw [hget] at hl; cases hl; exact hm
    · exact h.zero hz k (by omega) l hl hpp
  · exact ⟨fun _ => ⟨i, loc, by omega, hget, hp, hm⟩, fun _ => rfl⟩

theorem EntryOK.new_next {mk : List (List Nat)} {all : List Loc} {i : Nat} {loc : Loc}
    (hrf : RootsFirst all) (hget : all[i]? = some loc) (hroot : pathType loc.path = .fieldOptionsRoot) :
    EntryOK mk all (i + 1) ⟨loc.path, i, 0, false⟩ := by
  refine ⟨hroot, ⟨loc, hget, rfl⟩, by show i < i + 1; omega, ?_, by intro h; simp at h, ?_⟩
  · intro _ k hk l hl hpp
    have := ((hrf i loc hget hroot) k l hl).2 hpp
    omega
  · constructor
    · intro hh; cases hh
    · rintro ⟨k, l, a, b, c, _⟩
      have := ((hrf i loc hget hroot) k l b).2 c
      omega

/-- second loop invariant of `sweepLoop` (the trie counters), on `RootsFirst` lists. -/
structure SweepInv2 (mk : List (List Nat)) (all : List Loc) (i : Nat) (st : SweepSt) : Prop where
  entries : ∀ e ∈ st.trie, EntryOK mk all i e
  nodup : (st.trie.map (·.path)).Nodup
  inserted : ∀ k, k < i → ∀ loc : Loc, all[k]? = some loc → pathType loc.path = .fieldOptionsRoot →
    loc.path ∈ st.trie.map (·.path)
  removedShape : ∀ k ∈ st.removed, ∃ loc : Loc, all[k]? = some loc ∧ (loc.path ∈ mk ∨ loc.path = [8])
  marksNotRoot : ∀ k, k < i → ∀ loc : Loc, all[k]? = some loc → loc.path ∈ mk →
    pathType loc.path ≠ .fieldOptionsRoot

theorem sweepInv2_init (mk : List (List Nat)) (all : List Loc) : SweepInv2 mk all 0 ⟨[], []⟩ :=
  ⟨by intro e he; simp at he, by simp, by intro k hk; omega, by intro k hk; simp at hk, by intro k hk; omega⟩

/-- the state right after `insertRoot` for location `i`. -/
structure Mid (mk : List (List Nat)) (all : List Loc) (i : Nat) (loc : Loc) (t : List TEntry) : Prop where
  entries : ∀ e ∈ t, EntryOK mk all i e ∨ (e = ⟨loc.path, i, 0, false⟩ ∧ pathType loc.path = .fieldOptionsRoot)
  nodup : (t.map (·.path)).Nodup
  inserted : ∀ k, k < i + 1 → ∀ l : Loc, all[k]? = some l → pathType l.path = .fieldOptionsRoot →
    l.path ∈ t.map (·.path)

theorem Mid.roots {mk : List (List Nat)} {all : List Loc} {i : Nat} {loc : Loc} {t : List TEntry}
    (m : Mid mk all i loc t) : ∀ e ∈ t, pathType e.path = .fieldOptionsRoot := by
  intro e he
  rcases m.entries e he with h | ⟨rfl, h⟩
  · exact h.root
  · exact h

theorem Mid.next_other {mk : List (List Nat)} {all : List Loc} {i : Nat} {loc : Loc} {t : List TEntry}
    (hrf : RootsFirst all) (hget : all[i]? = some loc) (m : Mid mk all i loc t) (e : TEntry) (he : e ∈ t)
    (hp : properPrefix e.path loc.path = false) : EntryOK mk all (i + 1) e := by
  rcases m.entries e he with h | ⟨rfl, h⟩
  · exact h.step_other hget hp
  · exact EntryOK.new_next hrf hget h

theorem Mid.old_of_above {mk : List (List Nat)} {all : List Loc} {i : Nat} {loc : Loc} {t : List TEntry}
    (m : Mid mk all i loc t) (e : TEntry) (he : e ∈ t)
    (hp : properPrefix e.path loc.path = true) : EntryOK mk all i e := by
  rcases m.entries e he with h | ⟨rfl, _⟩
  · exact h
  · rw [properPrefix_irrefl] at hp; cases hp

theorem mid_of_inv {mk : List (List Nat)} {all : List Loc} {i : Nat} {st : SweepSt} {loc : Loc}
    (hrf : RootsFirst all) (hget : all[i]? = some loc) (inv : SweepInv2 mk all i st) :
    Mid mk all i loc (insertRoot st loc i).trie ∧ (insertRoot st loc i).removed = st.removed := by
  unfold insertRoot
  split
  · rename_i hroot
    refine ⟨?_, rfl⟩
    have hnot : ¬ (st.trie.any fun e => e.path = loc.path) = true := by
      intro hany
      obtain ⟨e, he, hpe⟩ := List.any_eq_true.mp hany
      have hpe : e.path = loc.path := by simpa using hpe
      obtain ⟨l, hl, hlp⟩ := (inv.entries e he).here
      have := ((hrf i loc hget hroot) e.index l hl).1 (by rw [hlp, hpe])
      have := (inv.entries e he).lt
      omega
    have htrie : trieInsert st.trie loc.path i = st.trie ++ [⟨loc.path, i, 0, false⟩] := by
      unfold trieInsert; simp only [hnot, Bool.false_eq_true, ↓reduceIte]
    show Mid mk all i loc (trieInsert st.trie loc.path i)
    rw [htrie]
    refine ⟨?_, ?_, ?_⟩
    · intro e he
      rcases List.mem_append.mp he with h1 | h1
      · exact Or.inl (inv.entries e h1)
      · simp at h1; exact Or.inr ⟨h1, hroot⟩
    · rw [List.map_append, List.nodup_append]
      refine ⟨inv.nodup, by simp, ?_⟩
      intro a ha b hb
      simp at hb; subst hb
      intro hab; subst hab
      obtain ⟨e, he, hpe⟩ := List.mem_map.mp ha
      exact hnot (List.any_eq_true.mpr ⟨e, he, by simpa using hpe⟩)
    · intro k hk l hl hr
      rw [List.map_append]
      by_cases hki : k = i
      · subst hki; rw [hget] at hl; cases hl; simp
      · exact List.mem_append_left _ (inv.inserted k (by omega) l hl hr)
  · rename_i hroot
    refine ⟨⟨fun e he => Or.inl (inv.entries e he), inv.nodup, ?_⟩, rfl⟩
    intro k hk l hl hr
    by_cases hki : k = i
    · subst hki; rw [hget] at hl; cases hl; exact absurd hr hroot
    · exact inv.inserted k (by omega) l hl hr

/-- entries after an update of THE ancestor of the current location. -/
theorem Mid.after_upd {mk : List (List Nat)} {all : List Loc} {i : Nat} {loc : Loc} {t : List TEntry}
    (hrf : RootsFirst all) (hget : all[i]? = some loc) (m : Mid mk all i loc t) (g : TEntry → TEntry)
    (hg : ∀ e, EntryOK mk all i e → properPrefix e.path loc.path = true → EntryOK mk all (i + 1) (g e)) :
    ∀ e' ∈ trieUpdAncestor g t loc.path, EntryOK mk all (i + 1) e' := by
  intro e' he'
  rcases trieUpd_mem2 g t loc.path m.nodup m.roots e' he' with ⟨h1, h2⟩ | ⟨e, h1, rfl, h3⟩
  · exact m.next_other hrf hget e' h1 h2
  · exact hg e (m.old_of_above e h1 h3) h3

theorem sweepLoop_inv2 (mk : List (List Nat)) (all : List Loc) (hrf : RootsFirst all) :
    ∀ (rest : List Loc) (i : Nat) (prev : Option (List Nat)) (st st' : SweepSt),
      all.drop i = rest → (∀ k, k + 1 = i → prev = (all[k]?).map (·.path)) →
      SweepInv2 mk all i st → sweepLoop mk i prev rest st = some st' →
      ∃ n, all.length ≤ n ∧ SweepInv2 mk all n st'
  | [], i, prev, st, st', hdrop, _, inv, h => by
    unfold sweepLoop at h; cases h
    have hi : all.length ≤ i := by
      have := congrArg List.length hdrop; simp at this; omega
    exact ⟨i, hi, inv⟩
  | loc :: rest, i, prev, st, st', hdrop, hprev, inv, h => by
    obtain ⟨hget, hdrop'⟩ := drop_cons_get hdrop
    unfold sweepLoop at h
    obtain ⟨mid, hrem⟩ := mid_of_inv hrf hget inv
    have hprev' : ∀ k, k + 1 = i + 1 → some loc.path = (all[k]?).map (·.path) := by
      intro k hk
      have : k = i := by omega
      subst this; rw [hget]; rfl
    generalize insertRoot st loc i = st1 at h mid hrem
    by_cases hmk : mk.contains loc.path = true
    · have hmem : loc.path ∈ mk := by simpa using hmk
      simp only [hmk, Bool.not_true, Bool.false_eq_true, ↓reduceIte] at h
      split at h; · cases h
      rename_i hi0
      split at h
      · rename_i hfo
        split at h; · cases h
        rename_i hpv
        have hpv : prev = some [8] := by simpa using hpv
        have hnf := isFileOptPath_not_root hfo
        refine sweepLoop_inv2 mk all hrf rest (i + 1) _
          { trie := st1.trie, removed := i :: (i - 1) :: st1.removed } st' hdrop' hprev' ⟨?_, mid.nodup, mid.inserted, ?_, ?_⟩ h
        · intro e he
          refine mid.next_other hrf hget e he ?_
          cases hpp : properPrefix e.path loc.path with
          | false => rfl
          | true =>
            have := pathType_below_root (mid.roots e he) hpp
            rw [hnf] at this; cases this
        · intro k hk
          simp only [List.mem_cons] at hk
          rcases hk with rfl | rfl | hk
          · exact ⟨loc, hget, Or.inl hmem⟩
          · have h1 := hprev (i - 1) (by omega)
            rw [hpv] at h1
            cases hq : all[i - 1]? with
            | none => rw [hq] at h1; cases h1
            | some l =>
              rw [hq] at h1
              simp only [Option.map_some, Option.some.injEq] at h1
              exact ⟨l, rfl, Or.inr h1.symm⟩
          · rw [hrem] at hk; exact inv.removedShape k hk
        · intro k hk l hl hm
          by_cases hki : k = i
          · subst hki; rw [hget] at hl; cases hl; rw [hnf]; decide
          · exact inv.marksNotRoot k (by omega) l hl hm
      · rename_i hfo
        split at h
        · rename_i hpt
          refine sweepLoop_inv2 mk all hrf rest (i + 1) _ _ st' hdrop' hprev' ⟨?_, ?_, ?_, ?_, ?_⟩ h
          · exact mid.after_upd hrf hget _ (fun e he hp => he.step_hit hget hp hmem)
          · show ((trieHit st1.trie loc.path).map (·.path)).Nodup
            rw [trieHit_paths]; exact mid.nodup
          · intro k hk l hl hr
            show l.path ∈ (trieHit st1.trie loc.path).map (·.path)
            rw [trieHit_paths]; exact mid.inserted k hk l hl hr
          · intro k hk
            simp only [List.mem_cons] at hk
            rcases hk with rfl | hk
            · exact ⟨loc, hget, Or.inl hmem⟩
            · rw [hrem] at hk; exact inv.removedShape k hk
          · intro k hk l hl hm
            by_cases hki : k = i
            · subst hki; rw [hget] at hl; cases hl; rw [hpt]; decide
            · exact inv.marksNotRoot k (by omega) l hl hm
        · cases h
    · have hnmem : loc.path ∉ mk := by simpa using hmk
      simp only [hmk, Bool.not_false, ↓reduceIte] at h
      refine sweepLoop_inv2 mk all hrf rest (i + 1) _ _ st' hdrop' hprev' ⟨?_, ?_, ?_, ?_, ?_⟩ h
      · unfold registerKept; split
        · exact mid.after_upd hrf hget _ (fun e he hp => he.step_kept hget hp hnmem)
        · rename_i hpt
          intro e he
          refine mid.next_other hrf hget e he ?_
          cases hpp : properPrefix e.path loc.path with
          | false => rfl
          | true => exact absurd (pathType_below_root (mid.roots e he) hpp) hpt
      · unfold registerKept; split
        · show ((trieRegister st1.trie loc.path).map (·.path)).Nodup
          rw [trieRegister_paths]; exact mid.nodup
        · exact mid.nodup
      · intro k hk l hl hr
        unfold registerKept; split
        · show l.path ∈ (trieRegister st1.trie loc.path).map (·.path)
          rw [trieRegister_paths]; exact mid.inserted k hk l hl hr
        · exact mid.inserted k hk l hl hr
      · intro k hk
        have : (registerKept st1 loc).removed = st1.removed := by unfold registerKept; split <;> rfl
        rw [this, hrem] at hk; exact inv.removedShape k hk
      · intro k hk l hl hm
        by_cases hki : k = i
        · subst hki; rw [hget] at hl; cases hl; exact absurd hm hnmem
        · exact inv.marksNotRoot k (by omega) l hl hm

/-- On a `RootsFirst` list the sweeper removes a FieldOptions location EXACTLY when at least one
    location inside it is removed (its path is a mark) and no location inside it stays — at
    whatever depth below the options message those locations are. -/
theorem sweepRemoved_root_iff {mk : List (List Nat)} {locs : List Loc} {rm : List Nat}
    (hrf : RootsFirst locs) (h : sweepRemoved true mk locs = some rm)
    (r : Nat) (lr : Loc) (hr : locs[r]? = some lr) (hroot : pathType lr.path = .fieldOptionsRoot) :
    r ∈ rm ↔
      (∃ (j : Nat) (lj : Loc), locs[j]? = some lj ∧ properPrefix lr.path lj.path = true ∧ lj.path ∈ mk) ∧
      (∀ (j : Nat) (lj : Loc), locs[j]? = some lj → properPrefix lr.path lj.path = true → lj.path ∈ mk) := by
  unfold sweepRemoved at h
  cases hl : sweepLoop mk 0 none locs ⟨[], []⟩ with
  | none => simp [hl] at h
  | some st =>
    simp only [hl, Option.some.injEq] at h
    subst h
    obtain ⟨n, hn, inv⟩ := sweepLoop_inv2 mk locs hrf locs 0 none _ st (by simp) (by intro k hk; omega)
      (sweepInv2_init mk locs) hl
    have hlt : ∀ (k : Nat) (loc : Loc), locs[k]? = some loc → k < n := by
      intro k loc hk
      rcases Nat.lt_or_ge k locs.length with h1 | h1
      · omega
      · simp [List.getElem?_eq_none h1] at hk
    constructor
    · intro hmem
      rcases List.mem_append.mp hmem with h1 | h1
      · obtain ⟨l, hl1, hl2⟩ := inv.removedShape r h1
        rw [hr] at hl1; cases hl1
        rcases hl2 with h2 | h2
        · exact absurd hroot (inv.marksNotRoot r (hlt r lr hr) lr hr h2)
        · rw [h2] at hroot; exact absurd hroot (by decide)
      · unfold emptiedRoots at h1
        obtain ⟨e, he, rfl⟩ := List.mem_map.mp h1
        obtain ⟨he1, he2⟩ := List.mem_filter.mp he
        simp only [Bool.not_true, Bool.false_or, Bool.and_eq_true, decide_eq_true_eq] at he2
        have ok := inv.entries e he1
        obtain ⟨l, hl1, hl2⟩ := ok.here
        rw [hr] at hl1; cases hl1
        rw [hl2]
        refine ⟨?_, ?_⟩
        · obtain ⟨k, l, _, b, c, d⟩ := ok.hit.mp he2.2
          exact ⟨k, l, b, c, d⟩
        · intro j lj hj hp
          exact ok.zero he2.1 j (hlt j lj hj) lj hj hp
    · rintro ⟨⟨j, lj, hj, hp, hm⟩, hall⟩
      refine List.mem_append.mpr (Or.inr ?_)
      obtain ⟨e, he, hpe⟩ := List.mem_map.mp (inv.inserted r (hlt r lr hr) lr hr hroot)
      have ok := inv.entries e he
      obtain ⟨l, hl1, hl2⟩ := ok.here
      have hidx : e.index = r := ((hrf r lr hr hroot) e.index l hl1).1 (by rw [hl2, hpe])
      unfold emptiedRoots
      refine List.mem_map.mpr ⟨e, List.mem_filter.mpr ⟨he, ?_⟩, hidx⟩
      simp only [Bool.not_true, Bool.false_or, Bool.and_eq_true, decide_eq_true_eq]
      refine ⟨?_, ok.hit.mpr ⟨j, lj, hlt j lj hj, hj, by rw [hpe]; exact hp, hm⟩⟩
      cases hc : e.count with
      | zero => rfl
      | succ c =>
        obtain ⟨k, l, a, b, c'⟩ := ok.pos (by omega)
        exact absurd (hall k l a (by rw [← hpe]; exact b)) c'

/-- decidable form of `RootsFirst` (for concrete location lists). -/
def rootsFirstB (all : List Loc) : Bool :=
  all.zipIdx.all fun pi =>
    pathType pi.1.path != .fieldOptionsRoot ||
      all.zipIdx.all fun pj =>
        (pj.1.path != pi.1.path || pj.2 == pi.2) && (!properPrefix pi.1.path pj.1.path || decide (pi.2 < pj.2))

theorem rootsFirst_of_check {all : List Loc} (h : rootsFirstB all = true) : RootsFirst all := by
  intro i li hi hroot j lj hj
  unfold rootsFirstB at h
  have h1 := List.all_eq_true.mp h (li, i) (List.mem_zipIdx_iff_getElem?.mpr hi)
  simp only [hroot, bne_self_eq_false, Bool.false_or] at h1
  have h2 := List.all_eq_true.mp h1 (lj, j) (List.mem_zipIdx_iff_getElem?.mpr hj)
  simp only [Bool.and_eq_true, Bool.or_eq_true, bne_iff_ne, ne_eq, beq_iff_eq, Bool.not_eq_eq_eq_not,
    Bool.not_true, decide_eq_true_eq] at h2
  refine ⟨fun hp => ?_, fun hp => ?_⟩
  · rcases h2.1 with h3 | h3
    · exact absurd hp h3
    · exact h3
  · rcases h2.2 with h3 | h3
    · rw [hp] at h3; cases h3
    · exact h3

end BufProofs.ManagedLemmas
