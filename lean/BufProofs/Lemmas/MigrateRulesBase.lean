import BufModel.MigrateRules
import BufProofs.Lemmas.RulesLemmas
import BufProofs.Lemmas.RulesResolveLemmas
/-
  Base lemmas and the decidable table facts for the rule-selection part of C16 (`buf config migrate`), on top of the C06 lemmas
  about `newRulesConfig` (`Selected`, `denote`, `newEnabledCheckConfig_spec`).
-/
namespace BufModel.MigrateRules
open BufModel.Path BufModel.Rules BufGen.RuleTables

/-! ### what `newRulesConfig` selects are rule ids of the table -/

theorem ruleIDs_are_rules (all : List RuleRow) (lint : Bool) (c : CheckConfig) (rc : RulesConfig)
    (hrs : rulesForType all lint ≠ []) (h : newRulesConfig all lint c = .ok rc) :
    ∀ x ∈ rc.ruleIDs, isRuleId (rulesForType all lint) x = true := by
  unfold newRulesConfig newRulesConfigCore at h
  simp only [hrs, if_false] at h
  split at h
  · cases h
  · split at h
    · rename_i useIds excIds io h1 h2 h3
      split at h
      · cases h
      · rename_i hchk
        split at h
        · simp at *
        · split at h
          · simp only [Except.ok.injEq] at h
            subst h
            intro x hx
            have hx' := (List.mem_filter.1 hx).1
            have hall : (undeprecate (rulesForType all lint) useIds).all (isRuleId (rulesForType all lint)) = true := by
              cases hA : (undeprecate (rulesForType all lint) useIds).all (isRuleId (rulesForType all lint)) with
              | true => rfl
              | false => simp [hA] at hchk
            exact List.all_eq_true.1 hall x hx'
          · cases h
    · cases h

theorem isRuleId_iff (rs : List RuleRow) (x : Id) : isRuleId rs x = true ↔ ∃ r ∈ rs, r.id = x := by
  unfold isRuleId; simp

theorem mem_rulesForType (all : List RuleRow) (lint : Bool) (r : RuleRow) :
    r ∈ rulesForType all lint ↔ r ∈ all ∧ r.isLint = lint := by
  unfold rulesForType; simp

/-- `Client.ConfiguredRules` as a set: the selected ids. -/
theorem configuredRules_mem (all : List RuleRow) (lint : Bool) (c : CheckConfig) (ids : List Id)
    (hdb : c.disableBuiltin = false) (hrs : rulesForType all lint ≠ [])
    (h : configuredRules all lint false c = .ok ids) (x : Id) :
    x ∈ ids ↔ Selected (rulesForType all lint) c.use c.except x := by
  unfold configuredRules resolve at h
  simp only [hdb, Bool.false_eq_true, if_false] at h
  cases hr : newRulesConfig all lint c with
  | error e => simp [hr] at h
  | ok rc =>
    simp only [hr, Except.ok.injEq] at h
    subst h
    rw [← newRulesConfig_sel all lint c rc hrs hr x]
    unfold configuredRuleIds
    simp only [List.mem_map, List.mem_filter, List.contains_iff_mem]
    constructor
    · rintro ⟨r, ⟨_, hc⟩, rfl⟩; exact hc
    · intro hx
      rcases (isRuleId_iff _ _).1 (ruleIDs_are_rules all lint c rc hrs hr x hx) with ⟨r, hr', rfl⟩
      exact ⟨r, ⟨((mem_rulesForType _ _ _).1 hr').1, hx⟩, rfl⟩

theorem configuredRules_disabled (all : List RuleRow) (lint : Bool) (c : CheckConfig)
    (hdb : c.disableBuiltin = true) : configuredRules all lint false c = .ok [] := by
  unfold configuredRules resolve
  simp only [hdb, if_true]
  have : newRulesConfig [] lint c = .ok { ruleIDs := [], ignoreRootPaths := [], ignoreOnly := [] } := by
    unfold newRulesConfig newRulesConfigCore; simp [rulesForType]
  simp [this, configuredRuleIds]

/-! ### `denote` of a non-deprecated rule id is the id itself -/

theorem blank_empty : blankId "" = true := by decide

theorem denote_self (rs : List RuleRow) (x : Id) (h0 : x ≠ "") (h1 : isRuleId rs x = true)
    (h2 : replacementsOf rs x = none) : denote rs x = [x] := by
  simp [denote, expandOne, h0, h1, undeprecateOne, h2]

/-- every replacement of a deprecated rule is a non-deprecated, non-empty rule id (what
    `tables_replacements_wellformed` of C06 states about the regenerated tables) -/
def ReplacementsWF (rs : List RuleRow) : Prop :=
  ∀ d ∈ rs, d.deprecated = true → ∀ r ∈ d.replacements, r ≠ "" ∧ isRuleId rs r = true ∧ replacementsOf rs r = none

theorem replacementsOf_some (rs : List RuleRow) (id : Id) (repl : List Id) (h : replacementsOf rs id = some repl) :
    ∃ d ∈ rs, d.id = id ∧ d.deprecated = true ∧ d.replacements = repl := by
  unfold replacementsOf at h
  cases hf : rs.find? (fun r => r.id = id) with
  | none => simp [hf] at h
  | some d =>
    simp only [hf] at h
    have hm := List.mem_of_find?_eq_some hf
    have hid : d.id = id := by simpa using List.find?_some hf
    by_cases hd : d.deprecated = true
    · simp [hd] at h; exact ⟨d, hm, hid, hd, h⟩
    · simp [hd] at h

/-- What an id denotes are non-deprecated ids. -/
theorem denote_nondeprecated (rs : List RuleRow) (hwf : ReplacementsWF rs) (u x : Id)
    (hx : x ∈ denote rs u) : replacementsOf rs x = none := by
  rcases (mem_denote rs u x).1 hx with ⟨e, _, id, _, hxid⟩
  unfold undeprecateOne at hxid
  cases hrep : replacementsOf rs id with
  | none => simp [hrep] at hxid; subst hxid; exact hrep
  | some repl =>
    simp [hrep] at hxid
    rcases replacementsOf_some rs id repl hrep with ⟨d, hd, _, hdep, hrepl⟩
    subst hrepl
    exact (hwf d hd hdep x hxid).2.2

/-- A selected id is a non-deprecated rule id. -/
theorem selected_nondeprecated (rs : List RuleRow) (hwf : ReplacementsWF rs) (use exc : List Id) (x : Id)
    (hs : Selected rs use exc x) : replacementsOf rs x = none := by
  rcases hs.1 with ⟨u, _, hx⟩
  exact denote_nondeprecated rs hwf u x hx

/-! ### decidable facts about a pair of tables (old version, v2) that the theorems need -/

/-- ids (rule ids and the categories the rules carry) that a configuration of the table can name -/
def idUniverse (rs : List RuleRow) : List Id := rs.map (·.id) ++ rs.flatMap (·.categories)

theorem mem_idUniverse_of_expandOne (rs : List RuleRow) (u : Id) (e : List Id) (h0 : u ≠ "")
    (h : expandOne rs u = some e) : u ∈ idUniverse rs := by
  unfold expandOne at h
  simp only [h0, if_false] at h
  unfold idUniverse
  by_cases h1 : isRuleId rs u = true
  · rcases (isRuleId_iff _ _).1 h1 with ⟨r, hr, rfl⟩
    exact List.mem_append_left _ (List.mem_map.2 ⟨r, hr, rfl⟩)
  · have h1' : isRuleId rs u = false := by simpa using h1
    simp only [h1', Bool.false_eq_true, if_false] at h
    cases hc : rulesInCategory rs u with
    | nil => simp [hc] at h
    | cons a l =>
      have : a ∈ rulesInCategory rs u := by rw [hc]; simp
      unfold rulesInCategory at this
      rcases List.mem_map.1 this with ⟨r, hr, _⟩
      have hr' := List.mem_filter.1 hr
      exact List.mem_append_right _ (List.mem_flatMap.2 ⟨r, hr'.1, by simpa using hr'.2⟩)

/-- The decidable table facts (checked by `decide` on the regenerated tables). -/
structure TablesOK (old new : List RuleRow) : Prop where
  /-- ids are not blank -/
  newIdsNonblank : ∀ r ∈ new, blankId r.id = false
  oldIdsNonblank : ∀ r ∈ old, blankId r.id = false
  /-- replacements of deprecated rules are non-deprecated rule ids of the same table -/
  newWF : ReplacementsWF new
  oldWF : ReplacementsWF old
  /-- a rule that is not deprecated in the old version is not deprecated in v2 -/
  nondepKept : ∀ r ∈ old, isDeprecatedIn old r.id = false → isRuleId new r.id = true → replacementsOf new r.id = none
  /-- the default rules of the old version are not deprecated, and those that exist in v2 are
      default rules of v2 -/
  defaults : ∀ r ∈ old, r.isDefault = true →
    replacementsOf old r.id = none ∧ (isRuleId new r.id = true → r.id ∈ defaultIds new)
  /-- the translation of an id keeps a (non-blank) id whenever the id denotes a v2 rule -/
  translateKeeps : ∀ u ∈ idUniverse old, ∀ x ∈ denote old u, isRuleId new x = true →
    (translateId old new u).any (fun t => !blankId t) = true

instance (rs : List RuleRow) : Decidable (ReplacementsWF rs) := by unfold ReplacementsWF; infer_instance

/-- The same facts as one decidable proposition. -/
def tablesOKb (old new : List RuleRow) : Prop :=
  (∀ r ∈ new, blankId r.id = false) ∧ (∀ r ∈ old, blankId r.id = false) ∧ ReplacementsWF new ∧ ReplacementsWF old ∧
  (∀ r ∈ old, isDeprecatedIn old r.id = false → isRuleId new r.id = true → replacementsOf new r.id = none) ∧
  (∀ r ∈ old, r.isDefault = true →
    replacementsOf old r.id = none ∧ (isRuleId new r.id = true → r.id ∈ defaultIds new)) ∧
  (∀ u ∈ idUniverse old, ∀ x ∈ denote old u, isRuleId new x = true →
    (translateId old new u).any (fun t => !blankId t) = true)

instance (old new : List RuleRow) : Decidable (tablesOKb old new) := by unfold tablesOKb; infer_instance

theorem TablesOK.of_b {old new : List RuleRow} (h : tablesOKb old new) : TablesOK old new :=
  ⟨h.1, h.2.1, h.2.2.1, h.2.2.2.1, h.2.2.2.2.1, h.2.2.2.2.2.1, h.2.2.2.2.2.2⟩

end BufModel.MigrateRules
