import BufProofs.Lemmas.MigrateRulesLemmas
import BufProofs.Lemmas.MigrateRulesIgnoreOnly
/-
  Definitions used by the statements of the C16 migration theorems (Props/C16Migrate*.lean).
-/
namespace BufProofs.C16
open BufModel.Path BufModel.Rules BufModel.MigrateRules BufGen.RuleTables

/-- The rules of the given type in v2. -/
abbrev v2Rules (lint : Bool) : List RuleRow := rulesForType (rulesOf .v2) lint
/-- The rules of the given type in the version that is migrated. -/
abbrev oldRules (v : Version) (lint : Bool) : List RuleRow := rulesForType (rulesOf v) lint

/-- The id translation of the migrator is the identity on rule ids (a deprecated rule is never
    selected: the selection of every version already holds its replacements), so "the image of
    the selected set" is the selected set minus the rules v2 does not have. -/
def hasV2Counterpart (lint : Bool) (x : Id) : Bool := isRuleId (v2Rules lint) x

/-- THE exception of `migrate_preserves_selected_rules`, as a decidable function of the
    configuration: some rule the configuration selects (and that v2 has) is, with the v2
    category membership, covered by the translated `except` list. -/
def exceptCoversSelected (v : Version) (lint : Bool) (c : CheckConfig) : Bool :=
  match selectedIds (rulesOf v) lint c with
  | .ok S => S.any fun x => hasV2Counterpart lint x && coveredB (oldRules v lint) (v2Rules lint) c.except x
  | .error _ => false

/-- A rule of both versions that v2 does not deprecate (only such rules can be selected before
    AND after the migration). -/
def sharedRule (v : Version) (lint : Bool) (r : Id) : Bool :=
  isRuleId (oldRules v lint) r && isRuleId (v2Rules lint) r && (replacementsOf (v2Rules lint) r).isNone

/-- An `ignore_only` key is translated faithfully when, for every shared rule, the translated
    key(s) denote the rule in v2 exactly when the key denoted it before. -/
def keyFaithful (v : Version) (lint : Bool) (k : Id) : Bool :=
  (v2Rules lint).all fun row =>
    !(sharedRule v lint row.id) ||
      ((translateId (oldRules v lint) (v2Rules lint) k).any (fun k' => (denote (v2Rules lint) k').contains row.id)
        == (denote (oldRules v lint) k).contains row.id)

/-- The categories that exist in the migrated version AND in v2 with a different membership among
    the shared rules.  The migrator copies such a key verbatim (recorded findings
    migrate-{lint,breaking}-changed-ignore-only-category-key). -/
def driftingCategories : Version → Bool → List Id
  | .v1beta1, true => ["MINIMAL", "BASIC", "DEFAULT", "STANDARD"]
  | .v1beta1, false => ["PACKAGE", "WIRE_JSON", "WIRE"]
  | .v1, true => ["MINIMAL", "BASIC", "DEFAULT", "STANDARD"]
  | _, _ => []

/-- shorthand for the examples -/
def chkCfg (use exc : List Id) (io : List (Id × List Str) := []) : CheckConfig :=
  { use := use, except := exc, ignore := [], ignoreOnly := io, disableBuiltin := false }

instance (tr : Id → List Id) (m : List (Id × List Str)) : Decidable (CollisionFree tr m) := by
  unfold CollisionFree; infer_instance

end BufProofs.C16
