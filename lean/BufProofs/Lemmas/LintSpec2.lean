import BufProofs.Lemmas.LintLemmas
/-
  C05 — INDEPENDENT readings of the Clean conditions that are not grammars (audit S2): what
  `good` means in the words of the rule documentation, proved equivalent to the coded predicate.
-/
namespace BufModel.Lint
open BufModel.Case

/-! ### comments -/

theorem dropWhile_nil_iff (p : Char → Bool) : ∀ s : Str, s.dropWhile p = [] ↔ ∀ c ∈ s, p c = true
  | [] => by simp
  | a :: t => by
    cases ha : p a with
    | true =>
      rw [List.dropWhile_cons_of_pos (by simp [ha]), dropWhile_nil_iff p t]
      constructor
      · intro h c hc
        simp only [List.mem_cons] at hc
        rcases hc with rfl | hc
        · exact ha
        · exact h c hc
      · intro h c hc; exact h c (by simp [hc])
    | false =>
      rw [List.dropWhile_cons_of_neg (by simp [ha])]
      constructor
      · intro h; simp at h
      · intro h; have := h a (by simp); rw [ha] at this; simp at this

theorem dropWhile_head_not (p : Char → Bool) : ∀ (s : Str) (a : Char) (t : Str), s.dropWhile p = a :: t → p a = false
  | [], _, _, h => by simp at h
  | b :: r, a, t, h => by
    cases hb : p b with
    | true =>
      rw [List.dropWhile_cons_of_pos (by simp [hb])] at h
      exact dropWhile_head_not p r a t h
    | false =>
      rw [List.dropWhile_cons_of_neg (by simp [hb])] at h
      simp only [List.cons.injEq] at h
      rw [← h.1]; exact hb

theorem trimBoth_eq_nil_iff (p : Char → Bool) (s : Str) : trimBoth p s = [] ↔ ∀ c ∈ s, p c = true := by
  unfold trimBoth
  constructor
  · intro h
    rw [← dropWhile_nil_iff]
    match hd : s.dropWhile p with
    | [] => rfl
    | a :: t =>
      obtain ⟨r, hr⟩ := dropEnd_cons_of_not p a t (dropWhile_head_not p s a t hd)
      rw [hd, hr] at h
      simp at h
  · intro h
    rw [(dropWhile_nil_iff p s).mpr h]; rfl

/-- `hasPrefix` is "is a prefix of" -/
theorem hasPrefix_iff (pre s : Str) : hasPrefix pre s = true ↔ ∃ rest, s = pre ++ rest := by
  unfold hasPrefix
  rw [List.isPrefixOf_iff_prefix]
  constructor
  · rintro ⟨t, rfl⟩; exact ⟨t, rfl⟩
  · rintro ⟨t, rfl⟩; exact ⟨t, rfl⟩

/-- `hasSuffix` is "is a suffix of" -/
theorem hasSuffix_iff (suf s : Str) : hasSuffix suf s = true ↔ ∃ pre, s = pre ++ suf := by
  unfold hasSuffix
  rw [List.isPrefixOf_iff_prefix, List.reverse_prefix]
  constructor
  · rintro ⟨t, rfl⟩; exact ⟨t, rfl⟩
  · rintro ⟨t, rfl⟩; exact ⟨t, rfl⟩

/-- **COMMENT_* in the words of the documentation** (with the one exclude prefix `ex` that
    bufcheck.Client always passes, "buf:lint:ignore"): the leading comment is accepted iff it has a
    line that contains a non-space character and, trimmed, does not start with `ex`. -/
theorem validLeadingComment_single_iff (ex c : Str) :
    validLeadingComment [ex] c = true ↔
      ∃ line ∈ splitLines c, (∃ ch ∈ line, isSpace ch = false) ∧ ¬ ∃ rest, trimSpace line = ex ++ rest := by
  unfold validLeadingComment
  simp only [List.any_eq_true, List.mem_singleton, exists_eq_left, Bool.and_eq_true, Bool.not_eq_true']
  constructor
  · rintro ⟨line, hl, hne, hp⟩
    refine ⟨line, hl, ?_, ?_⟩
    · apply Classical.byContradiction
      intro hn
      have : trimSpace line = [] := (trimBoth_eq_nil_iff isSpace line).mpr (fun ch hch => by
        apply Classical.byContradiction
        intro h2
        exact hn ⟨ch, hch, by simpa using h2⟩)
      rw [this] at hne; simp at hne
    · intro hx
      have := (hasPrefix_iff ex (trimSpace line)).mpr hx
      rw [this] at hp; simp at hp
  · rintro ⟨line, hl, ⟨ch, hch, hns⟩, hnp⟩
    refine ⟨line, hl, ?_, ?_⟩
    · cases ht : trimSpace line with
      | nil =>
        have := (trimBoth_eq_nil_iff isSpace line).mp ht ch hch
        rw [hns] at this; simp at this
      | cons a t => simp
    · cases hp : hasPrefix ex (trimSpace line) with
      | false => rfl
      | true => exact absurd ((hasPrefix_iff _ _).mp hp) hnp

/-! ### RPC_REQUEST_STANDARD_NAME / RPC_RESPONSE_STANDARD_NAME -/

/-- the message name of a fully-qualified type name -/
def typeBase (full : Str) : Str := if contains ['.'] full then lastDotComponent full else full

theorem stdName_core (allow : Bool) (full base e1 e2 : Str) :
    (if (allow && full == emptyType) = true then false else (base != e1 && base != e2)) = false ↔
      (allow = true ∧ full = emptyType) ∨ base = e1 ∨ base = e2 := by
  by_cases h : (allow && full == emptyType) = true
  · rw [if_pos h]
    simp only [Bool.and_eq_true, beq_iff_eq] at h
    simp [h.1, h.2]
  · rw [if_neg h]
    simp only [Bool.and_eq_true, beq_iff_eq, not_and] at h
    simp only [Bool.and_eq_false_iff, bne_eq_false_iff_eq]
    constructor
    · rintro (h1 | h1)
      · exact Or.inr (Or.inl h1)
      · exact Or.inr (Or.inr h1)
    · rintro (⟨h1, h2⟩ | h1 | h1)
      · exact absurd h2 (h h1)
      · exact Or.inl h1
      · exact Or.inr h1

/-- **The standard-name rules in the words of the documentation**, for PascalCase RPC and
    service names: the request (response) message is named `<Rpc>Request` or
    `<Service><Rpc>Request` (…`Response`) — or it is google.protobuf.Empty and the side's allow
    option is set. -/
theorem stdNameBad_iff (o : Options) (isReq : Bool) (s : Service) (m : Rpc)
    (hm : isPascalIdent m.name = true) (hs : isPascalIdent s.name = true) :
    stdNameBad o isReq s m = false ↔
      ((if isReq then o.rpcAllowGoogleProtobufEmptyRequests else o.rpcAllowGoogleProtobufEmptyResponses) = true ∧
        (if isReq then m.inType else m.outType) = emptyType) ∨
      typeBase (if isReq then m.inType else m.outType) =
        m.name ++ (if isReq then "Request".toList else "Response".toList) ∨
      typeBase (if isReq then m.inType else m.outType) =
        s.name ++ (m.name ++ (if isReq then "Request".toList else "Response".toList)) := by
  unfold stdNameBad typeBase
  simp only [pascalIdent_fix _ hm, pascalIdent_fix _ hs]
  cases isReq <;> simp only [Bool.false_eq_true, if_false, if_true] <;> exact stdName_core _ _ _ _ _

/-! ### PACKAGE_VERSION_SUFFIX -/

theorem splitDots_append_dot : ∀ (a b : Str), splitDots (a ++ '.' :: b) = splitDots a ++ splitDots b
  | [], b => by
    simp only [List.nil_append, splitDots]
    cases h : splitDots b with
    | nil => exact absurd h (splitDots_ne_nil b)
    | cons l ls => simp
  | c :: cs, b => by
    have ih := splitDots_append_dot cs b
    simp only [List.cons_append, splitDots]
    rw [ih]
    cases h : splitDots cs with
    | nil => exact absurd h (splitDots_ne_nil cs)
    | cons l ls =>
      simp only [List.cons_append]
      split <;> rfl

/-- **PACKAGE_VERSION_SUFFIX accepts every package `<anything>.v<N>`** (1 ≤ N ≤ 2³¹-1): the grammar
    theorem `versionForComponent_stable`, composed with the package splitting. -/
theorem versionForPackage_stable (pre ds : Str) (hne : ds ≠ []) (hd : ds.all isDigit = true)
    (h1 : 1 ≤ digitsVal ds) (h2 : digitsVal ds ≤ 2147483647) :
    versionForPackage false (pre ++ '.' :: 'v' :: ds) = some ⟨digitsVal ds, .stable, 0, 0, []⟩ := by
  unfold versionForPackage
  have hnodot : ∀ c ∈ ('v' :: ds), c ≠ '.' := by
    intro c hc
    simp only [List.mem_cons] at hc
    rcases hc with rfl | hc
    · decide
    · intro e; subst e
      have := List.all_eq_true.mp hd _ hc
      exact absurd this (by decide)
  rw [splitDots_append_dot, splitDots_no_dot _ hnodot]
  have hlen : ¬ (splitDots pre ++ ['v' :: ds]).length < 2 := by
    have := splitDots_ne_nil pre
    cases h : splitDots pre with
    | nil => exact absurd h this
    | cons a t => simp
  simp only [List.append_eq_nil_iff, reduceCtorEq, and_false, List.isEmpty_iff, if_false, hlen,
    List.getLast?_append, List.getLast?_singleton, Option.some_or]
  exact versionForComponent_stable ds hne hd h1 h2

/-- a package whose last component does not start with 'v' has no version suffix -/
theorem versionForPackage_no_v (b : Bool) (pre : Str) (c : Char) (cs : Str) (hc : c ≠ 'v')
    (hnodot : ∀ x ∈ c :: cs, x ≠ '.') : versionForPackage b (pre ++ '.' :: c :: cs) = none := by
  unfold versionForPackage
  rw [splitDots_append_dot, splitDots_no_dot _ hnodot]
  have hlen : ¬ (splitDots pre ++ [c :: cs]).length < 2 := by
    have := splitDots_ne_nil pre
    cases h : splitDots pre with
    | nil => exact absurd h this
    | cons a t => simp
  simp only [List.append_eq_nil_iff, reduceCtorEq, and_false, List.isEmpty_iff, if_false, hlen,
    List.getLast?_append, List.getLast?_singleton, Option.some_or]
  exact versionForComponent_no_v b c cs hc

/-! ### PACKAGE_LOWER_SNAKE_CASE -/

theorem joinSep_mem (sep : Str) : ∀ (l : List Str) (x : Char), x ∈ joinSep sep l → x ∈ sep ∨ ∃ a ∈ l, x ∈ a
  | [], _, h => by simp [joinSep] at h
  | [a], x, h => by
    simp only [joinSep] at h
    exact Or.inr ⟨a, by simp, h⟩
  | a :: b :: t, x, h => by
    simp only [joinSep, List.mem_append] at h
    rcases h with (h | h) | h
    · exact Or.inr ⟨a, by simp, h⟩
    · exact Or.inl h
    · rcases joinSep_mem sep (b :: t) x h with h | ⟨y, hy, hx⟩
      · exact Or.inl h
      · exact Or.inr ⟨y, by simp [hy], hx⟩

/-- a package containing an upper-case letter is never its own lower_snake_case form -/
theorem pkgLowerSnake_ne_of_upper (pkg : Str) (c : Char) (hc : c ∈ pkg) (hu : isUpper c = true) :
    pkg ≠ pkgLowerSnake pkg := by
  intro e
  rw [e] at hc
  unfold pkgLowerSnake at hc
  rcases joinSep_mem _ _ c hc with h | ⟨a, ha, hx⟩
  · simp only [List.mem_singleton] at h
    subst h
    exact absurd hu (by decide)
  · obtain ⟨comp, _, rfl⟩ := List.mem_map.mp ha
    unfold toLowerSnakeCase at hx
    obtain ⟨y, _, rfl⟩ := List.mem_map.mp hx
    simp [isUpper_toLower] at hu

end BufModel.Lint
