import BufProofs.Lemmas.LintLemmas
/-
  C05 — SET-LEVEL SPECIFICATIONS: for any number of violations, the annotations of a rule are
  exactly the violations of its specification.

  * per-element rules: `mem_runRule_elem_iff` (an annotation ⇔ an enumerated element of a target
    file whose coded predicate holds);
  * the nine grouping rules: `mem_groupRule_iff` ("a file is annotated ⇔ some file with the same
    key has a different value" — two files of one package with different option X ⇒ ALL files
    of that package are annotated);
  * RPC_REQUEST_RESPONSE_UNIQUE: `mem_rpcUniqueT_iff` (`RpcViolation`);
  * STABLE_PACKAGE_NO_IMPORT_UNSTABLE: `mem_stableNoUnstable_iff`.
  PACKAGE_NO_IMPORT_CYCLE has no independent specification here (fuelled search, as coded).
-/
namespace BufModel.Lint
open BufModel.Case

/-! ### per-element rules -/

theorem mem_runRule_elem_iff (o : Options) (w : Schema) (r : Rule) (er : ElemRule) (he : elemRule r = some er)
    (a : Annotation) :
    a ∈ runRule o w r ↔ ∃ f ∈ w, f.isImport = false ∧ ∃ e ∈ er.els f, er.bad o e = true ∧ a = ann r f (er.loc e) := by
  rw [runRule_elem o w r er he]
  constructor
  · intro h
    obtain ⟨f, hf, ha⟩ := List.mem_flatMap.mp h
    obtain ⟨p, hp, rfl⟩ := List.mem_map.mp ha
    unfold ElemRule.flagged at hp
    obtain ⟨e, he', rfl⟩ := List.mem_map.mp hp
    have := List.mem_filter.mp he'
    exact ⟨f, (mem_nonImport hf).1, (mem_nonImport hf).2, e, this.1, this.2, rfl⟩
  · rintro ⟨f, hf, hni, e, hmem, hbad, rfl⟩
    apply List.mem_flatMap.mpr
    refine ⟨f, by unfold nonImport; simp [hf, hni], ?_⟩
    apply List.mem_map.mpr
    refine ⟨er.loc e, ?_, rfl⟩
    unfold ElemRule.flagged
    exact List.mem_map.mpr ⟨e, List.mem_filter.mpr ⟨hmem, hbad⟩, rfl⟩

/-! ### dedup -/

theorem dedup_cons (x : Str) (xs : List Str) :
    dedup (x :: xs) = if (dedup xs).contains x then dedup xs else x :: dedup xs := rfl

theorem mem_dedup (xs : List Str) (y : Str) : y ∈ dedup xs ↔ y ∈ xs := by
  induction xs with
  | nil => simp [dedup]
  | cons x t ih =>
    rw [dedup_cons]
    split
    · next hc =>
      have hx : x ∈ dedup t := by simpa using hc
      constructor
      · intro h; exact List.mem_cons_of_mem _ (ih.mp h)
      · intro h
        simp only [List.mem_cons] at h
        rcases h with rfl | h
        · exact hx
        · exact ih.mpr h
    · simp only [List.mem_cons, ih]

/-- the deduplicated list has more than one element iff the list has two different elements -/
theorem dedup_length_gt_one_iff (xs : List Str) :
    (dedup xs).length > 1 ↔ ∃ x ∈ xs, ∃ y ∈ xs, x ≠ y := by
  constructor
  · intro h
    apply Classical.byContradiction
    intro hn
    have : (dedup xs).length ≤ 1 := dedup_length_le_one xs (fun x hx y hy =>
      Classical.byContradiction fun hne => hn ⟨x, hx, y, hy, hne⟩)
    omega
  · rintro ⟨x, hx, y, hy, hne⟩
    have hx' := (mem_dedup xs x).mpr hx
    have hy' := (mem_dedup xs y).mpr hy
    match hd : dedup xs, hx', hy' with
    | [], h, _ => simp at h
    | [a], h1, h2 =>
      simp only [List.mem_singleton] at h1 h2
      exact absurd (h1.trans h2.symm) hne
    | _ :: _ :: _, _, _ => simp

/-! ### the grouping rules -/

/-- **Set-level specification of the nine grouping rules** (PACKAGE_SAME_<option> ×7,
    PACKAGE_SAME_DIRECTORY, DIRECTORY_SAME_PACKAGE).  A file `g` is annotated (at `loc g`) exactly
    when some file with the same `key` has a different `val`; nothing else is reported.  Hence: two
    files of one package with different option values ⇒ every file of that package is annotated. -/
theorem mem_groupRule_iff (r : Rule) (files : List File) (key val : File → Str) (loc : File → List Nat)
    (a : Annotation) :
    a ∈ groupRule r files key val loc ↔
      ∃ g ∈ files, a = ann r g (loc g) ∧ ∃ g' ∈ files, key g' = key g ∧ val g' ≠ val g := by
  unfold groupRule
  constructor
  · intro h
    obtain ⟨k, _, hk⟩ := List.mem_flatMap.mp h
    simp only at hk
    split at hk
    · next hlen =>
      obtain ⟨g, hg, rfl⟩ := List.mem_map.mp hk
      have hg' := List.mem_filter.mp hg
      refine ⟨g, hg'.1, rfl, ?_⟩
      obtain ⟨x, hx, y, hy, hne⟩ := (dedup_length_gt_one_iff _).mp hlen
      obtain ⟨g1, hg1, rfl⟩ := List.mem_map.mp hx
      obtain ⟨g2, hg2, rfl⟩ := List.mem_map.mp hy
      have h1 := List.mem_filter.mp hg1
      have h2 := List.mem_filter.mp hg2
      have kg : key g = k := by simpa using hg'.2
      by_cases e : val g1 = val g
      · refine ⟨g2, h2.1, ?_, ?_⟩
        · have : key g2 = k := by simpa using h2.2
          rw [this, kg]
        · intro e2; exact hne (e.trans e2.symm)
      · refine ⟨g1, h1.1, ?_, e⟩
        have : key g1 = k := by simpa using h1.2
        rw [this, kg]
    · simp at hk
  · rintro ⟨g, hg, rfl, g', hg', hk, hv⟩
    apply List.mem_flatMap.mpr
    refine ⟨key g, (mem_dedup _ _).mpr (List.mem_map.mpr ⟨g, hg, rfl⟩), ?_⟩
    simp only
    have hlen : (dedup ((files.filter (fun f => key f == key g)).map val)).length > 1 := by
      apply (dedup_length_gt_one_iff _).mpr
      refine ⟨val g', List.mem_map.mpr ⟨g', List.mem_filter.mpr ⟨hg', by simp [hk]⟩, rfl⟩,
        val g, List.mem_map.mpr ⟨g, List.mem_filter.mpr ⟨hg, by simp⟩, rfl⟩, hv⟩
    rw [if_pos hlen]
    exact List.mem_map.mpr ⟨g, List.mem_filter.mpr ⟨hg, by simp⟩, rfl⟩

/-- the pairwise Clean condition of a grouping rule, as a proposition -/
theorem groupClean_iff (files : List File) (key val : File → Str) :
    groupClean files key val = true ↔ ∀ g ∈ files, ∀ g' ∈ files, key g = key g' → val g = val g' := by
  unfold groupClean
  simp only [List.all_eq_true, Bool.or_eq_true, Bool.not_eq_true', beq_eq_false_iff_ne, beq_iff_eq]
  constructor
  · intro h g hg g' hg' e
    rcases h g hg g' hg' with hne | he
    · exact absurd e hne
    · exact he
  · intro h g hg g' hg'
    by_cases e : key g = key g'
    · exact Or.inr (h g hg g' hg' e)
    · exact Or.inl e

/-- …and it is EXACTLY "the rule reports nothing" -/
theorem groupRule_nil_iff (r : Rule) (files : List File) (key val : File → Str) (loc : File → List Nat) :
    groupRule r files key val loc = [] ↔ groupClean files key val = true := by
  constructor
  · intro h
    rw [groupClean_iff]
    intro g hg g' hg' e
    apply Classical.byContradiction
    intro hne
    have : ann r g (loc g) ∈ groupRule r files key val loc :=
      (mem_groupRule_iff r files key val loc _).mpr ⟨g, hg, rfl, g', hg', e.symm, fun e2 => hne e2.symm⟩
    rw [h] at this
    simp at this
  · exact groupRule_nil r files key val loc

/-! ### RPC_REQUEST_RESPONSE_UNIQUE -/

def usesType (t : Str) (x : RpcRow) : Bool := x.inType == t || x.outType == t

/-- The documented meaning of RPC_REQUEST_RESPONSE_UNIQUE for one RPC `x` of the method table `ms`:
    (1) request and response type are the same message — unless `rpc_allow_same_request_response`,
    or it is google.protobuf.Empty and BOTH allow_google_protobuf_empty_* options are set; or
    (2) a type `t` that `x` uses is used by at least two RPCs — where google.protobuf.Empty, when at
    least one allow_* option is set, only counts on the side(s) the options do NOT allow: `x` must
    have Empty on such a side, and at least two RPCs must. -/
def RpcViolation (o : Options) (ms : List RpcRow) (x : RpcRow) : Prop :=
  (o.rpcAllowSameRequestResponse = false ∧ x.inType = x.outType ∧
    ¬(x.inType = emptyType ∧ o.rpcAllowGoogleProtobufEmptyRequests = true ∧
      o.rpcAllowGoogleProtobufEmptyResponses = true)) ∨
  (∃ t, usesType t x = true ∧ 2 ≤ (ms.filter (usesType t)).length ∧
    ((¬(t = emptyType ∧ (o.rpcAllowGoogleProtobufEmptyRequests = true ∨ o.rpcAllowGoogleProtobufEmptyResponses = true))) ∨
     (t = emptyType ∧ o.rpcAllowGoogleProtobufEmptyRequests = false ∧ o.rpcAllowGoogleProtobufEmptyResponses = true ∧
        x.inType = emptyType ∧ 2 ≤ (ms.filter (fun y => y.inType == emptyType)).length) ∨
     (t = emptyType ∧ o.rpcAllowGoogleProtobufEmptyResponses = false ∧ o.rpcAllowGoogleProtobufEmptyRequests = true ∧
        x.outType = emptyType ∧ 2 ≤ (ms.filter (fun y => y.outType == emptyType)).length)))

theorem filter_filter_sub {α} (l : List α) (p q : α → Bool) (h : ∀ x, q x = true → p x = true) :
    (l.filter p).filter q = l.filter q := by
  rw [List.filter_filter]
  apply List.filter_congr
  intro x _
  cases hq : q x
  · simp
  · simp [h x hq]

/-- **Set-level specification of RPC_REQUEST_RESPONSE_UNIQUE**: the annotations are exactly the
    annotations of the violating rows. -/
theorem mem_rpcUniqueT_iff (o : Options) (ms : List RpcRow) (a : Annotation) :
    a ∈ rpcUniqueT o ms ↔ ∃ x ∈ ms, a = x.ann ∧ RpcViolation o ms x := by
  unfold rpcUniqueT
  simp only [List.mem_append]
  have hreq : ∀ users : List RpcRow, users = ms.filter (usesType emptyType) →
      users.filter (fun x => x.inType == emptyType) = ms.filter (fun y => y.inType == emptyType) := by
    intro users hu; rw [hu]
    exact filter_filter_sub ms _ _ (fun x hx => by simp [usesType, hx])
  have hresp : ∀ users : List RpcRow, users = ms.filter (usesType emptyType) →
      users.filter (fun x => x.outType == emptyType) = ms.filter (fun y => y.outType == emptyType) := by
    intro users hu; rw [hu]
    exact filter_filter_sub ms _ _ (fun x hx => by simp [usesType, hx])
  constructor
  · rintro (h | h)
    · by_cases hs : o.rpcAllowSameRequestResponse = true
      · simp [hs] at h
      · simp only [hs] at h
        obtain ⟨x, hx, ha⟩ := List.mem_flatMap.mp h
        split at ha
        · next hc =>
          simp only [List.mem_singleton] at ha
          refine ⟨x, hx, ha, Or.inl ⟨by simpa using hs, ?_, ?_⟩⟩
          · simp only [Bool.and_eq_true, beq_iff_eq] at hc; exact hc.1
          · intro hcon
            simp [hcon.1, hcon.2.1, hcon.2.2] at hc
        · simp at ha
    · obtain ⟨t, _, ht⟩ := List.mem_flatMap.mp h
      have hfil : (ms.filter fun x => x.inType == t || x.outType == t) = ms.filter (usesType t) := rfl
      simp only [hfil] at ht
      split at ht
      · simp at ht
      · next hlen =>
        have hlen2 : 2 ≤ (ms.filter (usesType t)).length := by omega
        split at ht
        · next hsp =>
          simp only [Bool.and_eq_true, beq_iff_eq, Bool.or_eq_true] at hsp
          obtain ⟨rfl, hallow⟩ := hsp
          split at ht
          · simp at ht
          · next hboth =>
            rw [hreq _ rfl, hresp _ rfl] at ht
            simp only [List.mem_append] at ht
            rcases ht with ht | ht
            · split at ht
              · next hc =>
                obtain ⟨x, hx, rfl⟩ := List.mem_map.mp ht
                have hx' := List.mem_filter.mp hx
                simp only [Bool.and_eq_true, Bool.not_eq_true', decide_eq_true_eq] at hc
                have hin : x.inType = emptyType := by simpa using hx'.2
                refine ⟨x, hx'.1, rfl, Or.inr ⟨emptyType, by simp [usesType, hin], hlen2, Or.inr (Or.inl
                  ⟨rfl, hc.1, ?_, hin, by omega⟩)⟩⟩
                rcases hallow with h1 | h1
                · rw [hc.1] at h1; exact absurd h1 (by simp)
                · exact h1
              · simp at ht
            · split at ht
              · next hc =>
                obtain ⟨x, hx, rfl⟩ := List.mem_map.mp ht
                have hx' := List.mem_filter.mp hx
                simp only [Bool.and_eq_true, Bool.not_eq_true', decide_eq_true_eq] at hc
                have hout : x.outType = emptyType := by simpa using hx'.2
                refine ⟨x, hx'.1, rfl, Or.inr ⟨emptyType, by simp [usesType, hout], hlen2, Or.inr (Or.inr
                  ⟨rfl, hc.1, ?_, hout, by omega⟩)⟩⟩
                rcases hallow with h1 | h1
                · exact h1
                · rw [hc.1] at h1; exact absurd h1 (by simp)
              · simp at ht
        · next hsp =>
          obtain ⟨x, hx, rfl⟩ := List.mem_map.mp ht
          have hx' := List.mem_filter.mp hx
          refine ⟨x, hx'.1, rfl, Or.inr ⟨t, hx'.2, hlen2, Or.inl ?_⟩⟩
          intro hcon
          apply hsp
          simp only [Bool.and_eq_true, beq_iff_eq, Bool.or_eq_true]
          exact hcon
  · rintro ⟨x, hx, rfl, hv⟩
    rcases hv with ⟨hs, hio, hne⟩ | ⟨t, hu, hlen, hcase⟩
    · left
      simp only [hs, Bool.false_eq_true, if_false]
      apply List.mem_flatMap.mpr
      refine ⟨x, hx, ?_⟩
      have : (x.inType == x.outType && !(x.inType == emptyType && o.rpcAllowGoogleProtobufEmptyRequests
          && o.rpcAllowGoogleProtobufEmptyResponses)) = true := by
        simp only [Bool.and_eq_true, beq_iff_eq, Bool.not_eq_true', hio, true_and]
        cases h1 : (x.outType == emptyType) <;> cases h2 : o.rpcAllowGoogleProtobufEmptyRequests <;>
          cases h3 : o.rpcAllowGoogleProtobufEmptyResponses <;> simp
        exact hne ⟨by rw [hio]; simpa using h1, h2, h3⟩
      rw [if_pos this]; simp
    · right
      apply List.mem_flatMap.mpr
      have htypes : t ∈ dedup (ms.flatMap fun x => [x.inType, x.outType]) := by
        apply (mem_dedup _ _).mpr
        apply List.mem_flatMap.mpr
        refine ⟨x, hx, ?_⟩
        simp only [usesType, Bool.or_eq_true, beq_iff_eq] at hu
        simp only [List.mem_cons, List.not_mem_nil, or_false]
        rcases hu with h | h
        · exact Or.inl h.symm
        · exact Or.inr h.symm
      refine ⟨t, htypes, ?_⟩
      have hfil : (ms.filter fun x => x.inType == t || x.outType == t) = ms.filter (usesType t) := rfl
      simp only [hfil]
      have hxu : x ∈ ms.filter (usesType t) := List.mem_filter.mpr ⟨hx, hu⟩
      rw [if_neg (by omega)]
      rcases hcase with hns | ⟨rfl, hreqf, hrespt, hin, hcnt⟩ | ⟨rfl, hrespf, hreqt, hout, hcnt⟩
      · rw [if_neg]
        · exact List.mem_map.mpr ⟨x, hxu, rfl⟩
        · intro hc
          apply hns
          simpa only [Bool.and_eq_true, beq_iff_eq, Bool.or_eq_true] using hc
      · rw [if_pos (by simp [hrespt]), if_neg (by simp [hreqf]), hreq _ rfl, hresp _ rfl]
        simp only [List.mem_append]
        left
        rw [if_pos (by simp only [hreqf, Bool.not_false, Bool.true_and, decide_eq_true_eq]; omega)]
        exact List.mem_map.mpr ⟨x, List.mem_filter.mpr ⟨hx, by simp [hin]⟩, rfl⟩
      · rw [if_pos (by simp [hreqt]), if_neg (by simp [hrespf]), hreq _ rfl, hresp _ rfl]
        simp only [List.mem_append]
        right
        rw [if_pos (by simp only [hrespf, Bool.not_false, Bool.true_and, decide_eq_true_eq]; omega)]
        exact List.mem_map.mpr ⟨x, List.mem_filter.mpr ⟨hx, by simp [hout]⟩, rfl⟩

/-! ### STABLE_PACKAGE_NO_IMPORT_UNSTABLE -/

/-- **Set-level specification of STABLE_PACKAGE_NO_IMPORT_UNSTABLE**: import number `i` of a
    target file `f` is annotated exactly when `f`'s package is stable and the import resolves
    (among the target files) to a file whose package is versioned and unstable. -/
theorem mem_stableNoUnstable_iff (w : Schema) (a : Annotation) :
    a ∈ stableNoUnstable w ↔ ∃ f ∈ nonImport w, isStable f.pkg = some true ∧
      ∃ i imp, (i, imp) ∈ indexed f.imports ∧ ∃ g, findFile (nonImport w) imp.path = some g ∧
        isStable g.pkg = some false ∧ a = ann .STABLE_PACKAGE_NO_IMPORT_UNSTABLE f [3, i] := by
  unfold stableNoUnstable
  constructor
  · intro h
    obtain ⟨f, hf, ha⟩ := List.mem_flatMap.mp h
    split at ha
    · simp at ha
    · next hst =>
      obtain ⟨⟨i, imp⟩, himp, hx⟩ := List.mem_flatMap.mp ha
      simp only at hx
      split at hx
      · simp at hx
      · next g hg =>
        split at hx
        · next hus =>
          simp only [List.mem_singleton] at hx
          refine ⟨f, hf, ?_, i, imp, himp, g, hg, by simpa using hus, hx⟩
          simpa using hst
        · simp at hx
  · rintro ⟨f, hf, hst, i, imp, himp, g, hg, hus, rfl⟩
    apply List.mem_flatMap.mpr
    refine ⟨f, hf, ?_⟩
    rw [if_neg (by simp [hst])]
    apply List.mem_flatMap.mpr
    refine ⟨(i, imp), himp, ?_⟩
    simp only [hg, hus, beq_self_eq_true, if_true, List.mem_singleton]

/-! ### an annotation names the rule that produced it -/

theorem groupRule_rule (r : Rule) (files : List File) (key val : File → Str) (loc : File → List Nat)
    (a : Annotation) (h : a ∈ groupRule r files key val loc) : a.rule = r := by
  obtain ⟨g, _, rfl, _⟩ := (mem_groupRule_iff r files key val loc a).mp h
  rfl

theorem importCycle_rule (w : Schema) (a : Annotation) (h : a ∈ importCycle w) :
    a.rule = .PACKAGE_NO_IMPORT_CYCLE := by
  unfold importCycle at h
  obtain ⟨f, _, ha⟩ := List.mem_flatMap.mp h
  split at ha
  · simp at ha
  · obtain ⟨⟨i, imp⟩, _, hx⟩ := List.mem_flatMap.mp ha
    simp only at hx
    split at hx
    · simp at hx
    · split at hx
      · simp at hx
      · split at hx
        · simp only [List.mem_singleton] at hx; subst hx; rfl
        · simp at hx

theorem runRule_rule (o : Options) (w : Schema) (r : Rule) (a : Annotation) (h : a ∈ runRule o w r) :
    a.rule = r := by
  cases he : elemRule r with
  | some er =>
    obtain ⟨f, _, _, e, _, _, rfl⟩ := (mem_runRule_elem_iff o w r er he a).mp h
    rfl
  | none =>
    rw [runRule_global o w r he] at h
    cases r <;> simp only [globalRule] at h <;>
      first
        | exact groupRule_rule _ _ _ _ _ a h
        | exact importCycle_rule w a h
        | (obtain ⟨x, _, rfl⟩ := rpcUniqueT_sub o _ a (rpcUniqueCoded_sub o w a h); rfl)
        | (obtain ⟨f, _, _, i, imp, _, g, _, _, rfl⟩ := (mem_stableNoUnstable_iff w a).mp h; rfl)
        | (simp at h)

/-- lint is the union of its rules' reports, and each report carries its rule -/
theorem mem_lint_iff (o : Options) (rules : List Rule) (w : Schema) (a : Annotation) :
    a ∈ lint o rules w ↔ a.rule ∈ rules ∧ a ∈ runRule o w a.rule := by
  unfold lint
  constructor
  · intro h
    obtain ⟨r, hr, ha⟩ := List.mem_flatMap.mp h
    have := runRule_rule o w r a ha
    subst this
    exact ⟨hr, ha⟩
  · rintro ⟨hr, ha⟩
    exact List.mem_flatMap.mpr ⟨_, hr, ha⟩

end BufModel.Lint
