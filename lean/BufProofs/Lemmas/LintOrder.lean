import BufProofs.Lemmas.LintLemmas
/-
  C05 — DECLARATION ORDER: the iteration helpers enumerate the element that stands at position
  `|l₁|` of a list `l₁ ++ x :: l₂` with index `|l₁|`, whatever `l₁` and `l₂` are.  One lemma per list
  the helpers walk (top-level and nested messages / enums, fields, nested and file-level extensions,
  oneofs, enum values, services, RPCs, imports).
-/
namespace BufModel.Lint
open BufModel.Case

theorem indexFrom_at {α} : ∀ (l₁ : List α) (x : α) (l₂ : List α) (i : Nat),
    (i + l₁.length, x) ∈ indexFrom i (l₁ ++ x :: l₂)
  | [], x, l₂, i => by simp [indexFrom]
  | a :: t, x, l₂, i => by
    have h := indexFrom_at t x l₂ (i + 1)
    have e : i + (a :: t).length = i + 1 + t.length := by simp only [List.length_cons]; omega
    rw [e]
    simp only [List.cons_append, indexFrom, List.mem_cons]
    exact Or.inr h

theorem indexed_at {α} (l₁ : List α) (x : α) (l₂ : List α) :
    (l₁.length, x) ∈ indexed (l₁ ++ x :: l₂) := by
  have h := indexFrom_at l₁ x l₂ 0
  simpa [indexed] using h

/-- conversely: an entry `(j, x)` of `indexFrom i l` splits `l` at position `j - i` -/
theorem indexFrom_split {α} : ∀ (l : List α) (i j : Nat) (x : α), (j, x) ∈ indexFrom i l →
    ∃ l₁ l₂, l = l₁ ++ x :: l₂ ∧ j = i + l₁.length
  | [], _, _, _, h => by simp [indexFrom] at h
  | a :: t, i, j, x, h => by
    simp only [indexFrom, List.mem_cons, Prod.mk.injEq] at h
    rcases h with ⟨rfl, rfl⟩ | h
    · exact ⟨[], t, rfl, by simp⟩
    · obtain ⟨l₁, l₂, e, hj⟩ := indexFrom_split t (i + 1) j x h
      exact ⟨a :: l₁, l₂, by rw [e]; rfl, by simp only [List.length_cons]; omega⟩

theorem indexed_split {α} (l : List α) (j : Nat) (x : α) (h : (j, x) ∈ indexed l) :
    ∃ l₁ l₂, l = l₁ ++ x :: l₂ ∧ j = l₁.length := by
  obtain ⟨l₁, l₂, e, hj⟩ := indexFrom_split l 0 j x h
  exact ⟨l₁, l₂, e, by omega⟩

theorem mem_indexFrom_snd {α} : ∀ (l : List α) (i j : Nat) (x : α), (j, x) ∈ indexFrom i l → x ∈ l
  | [], _, _, _, h => by simp [indexFrom] at h
  | a :: t, i, j, x, h => by
    simp only [indexFrom, List.mem_cons, Prod.mk.injEq] at h
    rcases h with ⟨_, rfl⟩ | h
    · exact List.mem_cons_self
    · exact List.mem_cons_of_mem _ (mem_indexFrom_snd t (i + 1) j x h)

/-! ### messages -/

theorem visitMsgs_at (p : List Nat) (tag : Nat) : ∀ (l₁ : List Message) (x : Message) (l₂ : List Message) (i : Nat),
    ∀ y ∈ visitMsg (p ++ [tag, i + l₁.length]) x, y ∈ visitMsgs p tag i (l₁ ++ x :: l₂)
  | [], x, l₂, i => by
    intro y hy
    simp only [List.nil_append, visitMsgs, List.mem_append]
    exact Or.inl (by simpa using hy)
  | a :: t, x, l₂, i => by
    intro y hy
    have e : i + (a :: t).length = i + 1 + t.length := by simp only [List.length_cons]; omega
    rw [e] at hy
    simp only [List.cons_append, visitMsgs, List.mem_append]
    exact Or.inr (visitMsgs_at p tag t x l₂ (i + 1) y hy)

/-- a top-level message at position `|l₁|` is enumerated at `[4, |l₁|]` -/
theorem fileMsgs_top_at (f : File) (l₁ : List Message) (m : Message) (l₂ : List Message)
    (h : f.msgs = l₁ ++ m :: l₂) : ([4, l₁.length], m) ∈ fileMsgs f := by
  unfold fileMsgs
  rw [h]
  have := visitMsgs_at [] 4 l₁ m l₂ 0 ([4, l₁.length], m) (by simpa using visitMsg_self [4, l₁.length] m)
  simpa using this

mutual
  /-- everything below an enumerated message is enumerated -/
  theorem visitMsg_closed (p : List Nat) : ∀ (m : Message) (q : List Nat) (x : Message),
      (q, x) ∈ visitMsg p m → ∀ y ∈ visitMsgs q 3 0 x.msgs, y ∈ visitMsg p m
    | .mk n c me fs os xs es ms, q, x, h => by
      simp only [visitMsg, List.mem_cons] at h
      intro y hy
      simp only [visitMsg, List.mem_cons]
      right
      rcases h with h | h
      · cases h
        simpa [Message.msgs] using hy
      · exact visitMsgs_closed p 3 0 ms q x h y hy
  theorem visitMsgs_closed (p : List Nat) (tag : Nat) : ∀ (i : Nat) (ms : List Message) (q : List Nat) (x : Message),
      (q, x) ∈ visitMsgs p tag i ms → ∀ y ∈ visitMsgs q 3 0 x.msgs, y ∈ visitMsgs p tag i ms
    | _, [], _, _, h => by simp [visitMsgs] at h
    | i, m :: rest, q, x, h => by
      simp only [visitMsgs, List.mem_append] at h
      intro y hy
      simp only [visitMsgs, List.mem_append]
      rcases h with h | h
      · exact Or.inl (visitMsg_closed (p ++ [tag, i]) m q x h y hy)
      · exact Or.inr (visitMsgs_closed p tag (i + 1) rest q x h y hy)
end

/-- a message nested at position `|l₁|` in an enumerated message `m` (at `p`) is enumerated at
    `p ++ [3, |l₁|]` — at any depth -/
theorem fileMsgs_nested_at (f : File) (p : List Nat) (m : Message) (hm : (p, m) ∈ fileMsgs f)
    (l₁ : List Message) (x : Message) (l₂ : List Message) (h : m.msgs = l₁ ++ x :: l₂) :
    (p ++ [3, l₁.length], x) ∈ fileMsgs f := by
  apply visitMsgs_closed [] 4 0 f.msgs p m hm
  rw [h]
  have := visitMsgs_at p 3 l₁ x l₂ 0 (p ++ [3, l₁.length], x) (by simpa using visitMsg_self (p ++ [3, l₁.length]) x)
  simpa using this

/-! ### enums and enum values -/

/-- a top-level enum at position `|l₁|` is enumerated at `[5, |l₁|]` -/
theorem fileEnums_top_at (f : File) (l₁ : List Enum) (e : Enum) (l₂ : List Enum)
    (h : f.enums = l₁ ++ e :: l₂) : ([5, l₁.length], e) ∈ fileEnums f := by
  unfold fileEnums
  apply List.mem_append_left
  rw [h]
  exact List.mem_map.mpr ⟨(l₁.length, e), indexed_at l₁ e l₂, rfl⟩

/-- an enum nested at position `|l₁|` in an enumerated message is enumerated at `p ++ [4, |l₁|]` -/
theorem fileEnums_nested_at (f : File) (p : List Nat) (m : Message) (hm : (p, m) ∈ fileMsgs f)
    (l₁ : List Enum) (e : Enum) (l₂ : List Enum) (h : m.enums = l₁ ++ e :: l₂) :
    (p ++ [4, l₁.length], e) ∈ fileEnums f := by
  unfold fileEnums
  apply List.mem_append_right
  apply List.mem_flatMap.mpr
  refine ⟨(p, m), hm, ?_⟩
  show _ ∈ (indexed m.enums).map _
  rw [h]
  exact List.mem_map.mpr ⟨(l₁.length, e), indexed_at l₁ e l₂, rfl⟩

/-- the value declared at position `|l₁|` of an enumerated enum is enumerated at `p ++ [2, |l₁|]` —
    whatever is declared before and after it (numbers, names, aliases) -/
theorem fileEnumValues_at (f : File) (p : List Nat) (e : Enum) (he : (p, e) ∈ fileEnums f)
    (l₁ : List EnumValue) (v : EnumValue) (l₂ : List EnumValue) (h : e.values = l₁ ++ v :: l₂) :
    (p ++ [2, l₁.length], e, v) ∈ fileEnumValues f := by
  unfold fileEnumValues
  apply List.mem_flatMap.mpr
  refine ⟨(p, e), he, ?_⟩
  show _ ∈ (indexed e.values).map _
  rw [h]
  exact List.mem_map.mpr ⟨(l₁.length, v), indexed_at l₁ v l₂, rfl⟩

/-- conversely: every enumerated value is the value at some position of an enumerated enum -/
theorem fileEnumValues_split (f : File) (q : List Nat) (e : Enum) (v : EnumValue)
    (h : (q, e, v) ∈ fileEnumValues f) :
    ∃ p l₁ l₂, (p, e) ∈ fileEnums f ∧ e.values = l₁ ++ v :: l₂ ∧ q = p ++ [2, l₁.length] := by
  unfold fileEnumValues at h
  obtain ⟨⟨p, e'⟩, he, hx⟩ := List.mem_flatMap.mp h
  obtain ⟨⟨i, v'⟩, hi, hq⟩ := List.mem_map.mp hx
  simp only [Prod.mk.injEq] at hq
  obtain ⟨rfl, rfl, rfl⟩ := hq
  obtain ⟨l₁, l₂, hv, rfl⟩ := indexed_split _ _ _ hi
  exact ⟨p, l₁, l₂, he, hv, rfl⟩

/-! ### fields, extensions, oneofs -/

theorem fileFields_field_at (f : File) (p : List Nat) (m : Message) (hm : (p, m) ∈ fileMsgs f)
    (l₁ : List Field) (fd : Field) (l₂ : List Field) (h : m.fields = l₁ ++ fd :: l₂) :
    (p ++ [2, l₁.length], some m, fd) ∈ fileFields f := by
  unfold fileFields
  apply List.mem_append_left
  apply List.mem_flatMap.mpr
  refine ⟨(p, m), hm, ?_⟩
  apply List.mem_append_left
  show _ ∈ (indexed m.fields).map _
  rw [h]
  exact List.mem_map.mpr ⟨(l₁.length, fd), indexed_at l₁ fd l₂, rfl⟩

theorem fileFields_nestedExt_at (f : File) (p : List Nat) (m : Message) (hm : (p, m) ∈ fileMsgs f)
    (l₁ : List Field) (fd : Field) (l₂ : List Field) (h : m.exts = l₁ ++ fd :: l₂) :
    (p ++ [6, l₁.length], some m, fd) ∈ fileFields f := by
  unfold fileFields
  apply List.mem_append_left
  apply List.mem_flatMap.mpr
  refine ⟨(p, m), hm, ?_⟩
  apply List.mem_append_right
  show _ ∈ (indexed m.exts).map _
  rw [h]
  exact List.mem_map.mpr ⟨(l₁.length, fd), indexed_at l₁ fd l₂, rfl⟩

theorem fileFields_fileExt_at (f : File) (l₁ : List Field) (fd : Field) (l₂ : List Field)
    (h : f.exts = l₁ ++ fd :: l₂) : ([7, l₁.length], (none : Option Message), fd) ∈ fileFields f := by
  unfold fileFields
  apply List.mem_append_right
  rw [h]
  exact List.mem_map.mpr ⟨(l₁.length, fd), indexed_at l₁ fd l₂, rfl⟩

theorem fileOneofs_at (f : File) (p : List Nat) (m : Message) (hm : (p, m) ∈ fileMsgs f)
    (l₁ : List Oneof) (oo : Oneof) (l₂ : List Oneof) (h : m.oneofs = l₁ ++ oo :: l₂) :
    (p ++ [8, l₁.length], m, l₁.length, oo) ∈ fileOneofs f := by
  unfold fileOneofs
  apply List.mem_flatMap.mpr
  refine ⟨(p, m), hm, ?_⟩
  show _ ∈ (indexed m.oneofs).map _
  rw [h]
  exact List.mem_map.mpr ⟨(l₁.length, oo), indexed_at l₁ oo l₂, rfl⟩

/-! ### services, RPCs, imports -/

theorem fileSvcs_at (f : File) (l₁ : List Service) (s : Service) (l₂ : List Service)
    (h : f.svcs = l₁ ++ s :: l₂) : ([6, l₁.length], s) ∈ fileSvcs f := by
  unfold fileSvcs
  rw [h]
  exact List.mem_map.mpr ⟨(l₁.length, s), indexed_at l₁ s l₂, rfl⟩

theorem fileRpcs_at (f : File) (s₁ : List Service) (s : Service) (s₂ : List Service)
    (hs : f.svcs = s₁ ++ s :: s₂) (r₁ : List Rpc) (r : Rpc) (r₂ : List Rpc) (hr : s.rpcs = r₁ ++ r :: r₂) :
    ([6, s₁.length, 2, r₁.length], s, r) ∈ fileRpcs f := by
  unfold fileRpcs
  apply List.mem_flatMap.mpr
  refine ⟨([6, s₁.length], s), fileSvcs_at f s₁ s s₂ hs, ?_⟩
  show _ ∈ (indexed s.rpcs).map _
  rw [hr]
  exact List.mem_map.mpr ⟨(r₁.length, r), indexed_at r₁ r r₂, rfl⟩

end BufModel.Lint
