import BufProofs.Lemmas.BreakingDetect
import BufProofs.Lemmas.BreakingDecide
import BufProofs.Lemmas.BreakingEdits
/-
  Witness schemas for the non-vacuity examples of Props/C03.lean and Props/C04.lean.

  `wPrev → wCur` is ONE pair of schemas (5 → 4 files, nesting depth 3, two packages) in which every
  edit family of C03 occurs at the same time, each surrounded by unrelated additive changes that
  shift the indices (a new first file, a new first message, a new first field, a new first
  service, a new first RPC), so the annotations have to be located on the CURRENT tree.
  The edited message `acme.v1.Outer.Mid.Inner` sits at depth 3, the edited enums at depth 3
  inside `acme.v1.Outer.Mid`.

      acme/v1/a.proto   the element-level edits (fields of Inner, enums / oneofs / reserved of Mid,
                        nested deletions, RPCs of service Api, deleted service OldSvc)
      acme/v1/b.proto   syntax and file-option changes
      acme/v1/c.proto   package change acme.v1 → acme.v2
      old/d.proto       deleted together with its package `old`
      acme/v1/e.proto   deleted, its package survives
      acme/v1/new.proto new (additive), first in the current image

  `aS0 → aS1 → aS2` is a chain of purely additive edits for C04.
-/
namespace BufProofs.Breaking.W
open BufModel.Schema BufModel.Breaking

deriving instance DecidableEq for FlatMsg
deriving instance DecidableEq for FlatEnum
deriving instance DecidableEq for FlatExt
deriving instance DecidableEq for FlatSvc
deriving instance DecidableEq for FlatField
deriving instance DecidableEq for FlatMethod

/-! ### constructors with defaults -/

/-- an optional scalar field without presence (proto3 style), json name = name, zero default -/
def fld (n : Int) (name : String) (k : Kind) : Field :=
  { number := n, name := name, fullName := "", jsonName := name, label := .optional, ty := k, kind := k,
    typeName := [], oneof := none, isMap := false, hasPresence := false, reqCard := false,
    inMapEntry := false, extendee := "", jstype := 0, utf8 := 0, dflt := .num "0" true }

def info (name : String) : MsgInfo :=
  { name := name, fields := [], extensions := [], enums := [], oneofs := [], reservedRanges := [],
    reservedNames := [], extRanges := [], messageSet := false, noStdAccessor := false, jsonAllow := true,
    mapEntry := false }

def enm (name : String) (vals : List EnumValue) : Enum :=
  { name := name, values := vals, reservedRanges := [], reservedNames := [], closed := true, jsonAllow := true }

def mth (name inp out : String) : Method := ⟨name, inp, out, false, false, 0⟩

def pkgV1 : QName := ["acme", "v1"]

/-! ### previous image -/

def pInnerFields : List Field := [
  fld 1 "f_del" .int32,
  fld 2 "f_type" .int32,
  { fld 3 "f_msg" .message with typeName := ["acme", "v1", "Outer"], hasPresence := true },
  { fld 4 "f_card" .int32 with hasPresence := true },
  fld 5 "old_name" .string,
  { fld 6 "f_json" .string with jsonName := "fJson" },
  fld 7 "f_oneof" .int32,
  { fld 8 "f_dflt" .int32 with hasPresence := true, dflt := .num "5" false },
  { fld 9 "f_req" .int32 with label := .required, reqCard := true, hasPresence := true },
  fld 11 "f_js" .int64,
  { fld 12 "f_utf8" .string with utf8 := 2 },
  fld 13 "f_del2" .bool]

def pColor : Enum :=
  { enm "Color" [⟨"RED", 0⟩, ⟨"GREEN", 1⟩, ⟨"BLUE", 2⟩] with reservedRanges := [(10, 20)], reservedNames := ["OLD"] }
def pMode : Enum := enm "Mode" [⟨"MODE_A", 0⟩]

def pMidExt : Field :=
  { fld 100 "mid_ext" .int32 with fullName := "acme.v1.Outer.Mid.mid_ext", extendee := "acme.v1.Ext" }

def pInnerM : Msg := .mk { info "Inner" with fields := pInnerFields, oneofs := [⟨"choice", false⟩] } []

def pMid : Msg :=
  .mk { info "Mid" with
        fields := [fld 1 "m" .string], extensions := [pMidExt],
        enums := [pColor, pMode, enm "OldEnum" [⟨"X", 0⟩]],
        oneofs := [⟨"choice", false⟩, ⟨"gone", false⟩],
        reservedRanges := [(50, 60)], reservedNames := ["legacy"] }
    [pInnerM, .mk (info "Gone") []]

def pApi : Service :=
  ⟨"Api", [mth "Get" ".acme.v1.Outer" ".acme.v1.Outer", mth "Put" ".acme.v1.Outer" ".acme.v1.Outer",
           mth "Up" ".acme.v1.Outer" ".acme.v1.Outer", mth "Down" ".acme.v1.Outer" ".acme.v1.Outer",
           mth "Idem" ".acme.v1.Outer" ".acme.v1.Outer", mth "Del" ".acme.v1.Outer" ".acme.v1.Outer"]⟩

def pOuterM : Msg := .mk { info "Outer" with fields := [fld 1 "id" .int32] } [pMid]

def pKeptExt : Field := { fld 102 "kept_ext" .int32 with fullName := "acme.v1.kept_ext", extendee := "acme.v1.Ext" }

def pA : File :=
  { path := "acme/v1/a.proto", pkg := pkgV1, syn := .proto2, opts := [], locs := [],
    messages := [pOuterM,
                 .mk { info "Ext" with extRanges := [(100, 200)] } []],
    enums := [enm "Status" [⟨"S0", 0⟩]],
    services := [pApi, ⟨"OldSvc", [mth "Ping" ".acme.v1.Outer" ".acme.v1.Outer"]⟩],
    extensions := [pKeptExt] }

def pB : File :=
  { path := "acme/v1/b.proto", pkg := pkgV1, syn := .proto2, opts := [(11, "example.com/old"), (1, "com.acme")],
    locs := [], messages := [.mk (info "B") []], enums := [], services := [], extensions := [] }

def pC : File :=
  { path := "acme/v1/c.proto", pkg := pkgV1, syn := .proto3, opts := [], locs := [],
    messages := [.mk (info "C") []], enums := [], services := [], extensions := [] }

def pD : File :=
  { path := "old/d.proto", pkg := ["old"], syn := .proto3, opts := [], locs := [],
    messages := [.mk (info "D") []], enums := [], services := [], extensions := [] }

def pEExt : Field := { fld 150 "e_ext" .int32 with fullName := "acme.v1.e_ext", extendee := "acme.v1.Ext" }

def pE : File :=
  { path := "acme/v1/e.proto", pkg := pkgV1, syn := .proto2, opts := [], locs := [],
    messages := [.mk (info "EM") []], enums := [enm "EE" [⟨"EE_0", 0⟩]],
    services := [⟨"ES", []⟩], extensions := [pEExt] }

def wPrev : Schema := [pA, pB, pC, pD, pE]

/-! ### current image -/

def cInnerFields : List Field := [
  fld 20 "f_new" .int32,
  { fld 2 "f_type" .string with dflt := .str "" },
  { fld 3 "f_msg" .message with typeName := ["acme", "v1", "Ext"], hasPresence := true },
  { fld 4 "f_card" .int32 with label := .repeated },
  { fld 5 "new_name" .string with jsonName := "old_name" },
  { fld 6 "f_json" .string with jsonName := "other" },
  { fld 7 "f_oneof" .int32 with oneof := some ("choice", false), hasPresence := true },
  { fld 8 "f_dflt" .int32 with hasPresence := true, dflt := .num "7" false },
  { fld 9 "f_req" .int32 with hasPresence := true },
  { fld 10 "f_newreq" .int32 with label := .required, reqCard := true, hasPresence := true },
  { fld 11 "f_js" .int64 with jstype := 1 },
  { fld 12 "f_utf8" .string with utf8 := 3 }]

def cColor : Enum :=
  { enm "Color" [⟨"RED", 0⟩, ⟨"LIME", 1⟩] with reservedRanges := [(10, 15)], reservedNames := ["FUTURE"] }
def cMode : Enum := { enm "Mode" [⟨"MODE_A", 0⟩, ⟨"MODE_B", 1⟩] with closed := false, jsonAllow := false }

def cInnerM : Msg :=
  .mk { info "Inner" with fields := cInnerFields, oneofs := [⟨"choice", false⟩],
                          reservedRanges := [(30, 40)], reservedNames := ["f_future"] } [.mk (info "Deeper") []]

def cMid : Msg :=
  .mk { info "Mid" with
        fields := [fld 2 "m2" .string, fld 1 "m" .string],
        enums := [enm "NewEnum" [⟨"N", 0⟩], cColor, cMode],
        oneofs := [⟨"choice", false⟩],
        reservedRanges := [(50, 55)], jsonAllow := false }
    [.mk (info "Added") [],
     cInnerM]

def cApi : Service :=
  ⟨"Api", [mth "Fresh" ".acme.v1.Outer" ".acme.v1.Outer",
           mth "Get" ".acme.v1.Ext" ".acme.v1.Outer", mth "Put" ".acme.v1.Outer" ".acme.v1.Ext",
           { mth "Up" ".acme.v1.Outer" ".acme.v1.Outer" with clientStreaming := true },
           { mth "Down" ".acme.v1.Outer" ".acme.v1.Outer" with serverStreaming := true },
           { mth "Idem" ".acme.v1.Outer" ".acme.v1.Outer" with idempotency := 1 }]⟩

/-- path of the current `acme.v1.Outer.Mid` and `acme.v1.Outer.Mid.Inner` -/
def midP : SPath := [4, 1, 3, 1]
def innerP : SPath := [4, 1, 3, 1, 3, 1]

/-- the source paths of a.proto that have a location.  Deliberately incomplete: no `json_name`
    ([…,10]) on f_json, no `jstype` option, no `features` on the enums and messages — there the
    annotations fall back as the code prescribes. -/
def cALocs : List SPath := [
  [2], [12], [4, 0], [4, 1], [4, 1, 3, 0], midP, innerP, [4, 2], [4, 2, 7, 2],
  innerP ++ [2, 1], innerP ++ [2, 1, 5], innerP ++ [2, 2], innerP ++ [2, 2, 6], innerP ++ [2, 3],
  innerP ++ [2, 4], innerP ++ [2, 4, 1], innerP ++ [2, 5], innerP ++ [2, 6], innerP ++ [2, 7],
  innerP ++ [2, 7, 7], innerP ++ [2, 8], innerP ++ [2, 9], innerP ++ [2, 10], innerP ++ [2, 11],
  midP ++ [4, 1], midP ++ [4, 1, 2, 1], midP ++ [4, 1, 2, 1, 2], midP ++ [4, 2],
  [6, 1], [6, 1, 2, 1], [6, 1, 2, 1, 2], [6, 1, 2, 2], [6, 1, 2, 2, 3], [6, 1, 2, 3], [6, 1, 2, 4],
  [6, 1, 2, 5], [6, 1, 2, 5, 4, 34], [7, 1], [7, 1, 1], [7, 1, 5]]

/-- the surviving extension 102 of acme.v1.Ext: int32 → string, renamed -/
def cKeptExt : Field :=
  { fld 102 "renamed_ext" .string with fullName := "acme.v1.renamed_ext", extendee := "acme.v1.Ext", dflt := .str "" }
def cTopExt : Field := { fld 101 "top_ext" .int32 with fullName := "acme.v1.top_ext", extendee := "acme.v1.Ext" }

def cOuterM : Msg :=
  .mk { info "Outer" with fields := [fld 2 "extra" .int32, fld 1 "id" .int32] } [.mk (info "Sib") [], cMid]

def cA : File :=
  { path := "acme/v1/a.proto", pkg := pkgV1, syn := .proto2, opts := [], locs := cALocs,
    messages := [.mk (info "Fresh") [],
                 cOuterM,
                 .mk { info "Ext" with extRanges := [(100, 150)], noStdAccessor := true } []],
    enums := [enm "Status" [⟨"S0", 0⟩, ⟨"S1", 1⟩]],
    services := [⟨"NewSvc", []⟩, cApi],
    extensions := [cTopExt, cKeptExt] }

def cB : File :=
  { path := "acme/v1/b.proto", pkg := pkgV1, syn := .proto3, opts := [(11, "example.com/new"), (1, "com.acme")],
    locs := [[8, 11], [12], [4, 0]], messages := [.mk (info "B") []], enums := [], services := [], extensions := [] }

def cC : File :=
  { path := "acme/v1/c.proto", pkg := ["acme", "v2"], syn := .proto3, opts := [], locs := [[2], [4, 0]],
    messages := [.mk (info "C") []], enums := [], services := [], extensions := [] }

def cNew : File :=
  { path := "acme/v1/new.proto", pkg := pkgV1, syn := .proto3, opts := [], locs := [[4, 0]],
    messages := [.mk (info "N2") []], enums := [], services := [], extensions := [] }

def wCur : Schema := [cNew, cA, cB, cC]

/-! ### the flattened elements the theorems talk about -/

def msgOf (s : Schema) (q : QName) : FlatMsg := ((allMsgs s).find? fun m => m.fullName == q).getD default
def enumOf (s : Schema) (q : QName) : FlatEnum := ((allEnums s).find? fun e => e.fullName == q).getD default
def svcOf (s : Schema) (q : QName) : FlatSvc := ((allSvcs s).find? fun e => e.fullName == q).getD default
def fieldOf (m : FlatMsg) (n : Int) : FlatField := ((msgFields m).find? fun f => f.field.number == n).getD default
def methodOf (s : FlatSvc) (n : String) : FlatMethod := ((svcMethods s).find? fun f => f.m.name == n).getD default

def pInner : FlatMsg := msgOf wPrev ["acme", "v1", "Outer", "Mid", "Inner"]
def cInner : FlatMsg := msgOf wCur ["acme", "v1", "Outer", "Mid", "Inner"]
def pMidF : FlatMsg := msgOf wPrev ["acme", "v1", "Outer", "Mid"]
def cMidF : FlatMsg := msgOf wCur ["acme", "v1", "Outer", "Mid"]
def pExtF : FlatMsg := msgOf wPrev ["acme", "v1", "Ext"]
def cExtF : FlatMsg := msgOf wCur ["acme", "v1", "Ext"]
def pColorF : FlatEnum := enumOf wPrev ["acme", "v1", "Outer", "Mid", "Color"]
def cColorF : FlatEnum := enumOf wCur ["acme", "v1", "Outer", "Mid", "Color"]
def pModeF : FlatEnum := enumOf wPrev ["acme", "v1", "Outer", "Mid", "Mode"]
def cModeF : FlatEnum := enumOf wCur ["acme", "v1", "Outer", "Mid", "Mode"]
def extOf (s : Schema) (q : QName) : FlatExt := ((allExts s).find? fun e => e.pkg ++ e.nested == q).getD default
def pGoneF : FlatMsg := msgOf wPrev ["acme", "v1", "Outer", "Mid", "Gone"]
def pEMF : FlatMsg := msgOf wPrev ["acme", "v1", "EM"]
def pOldEnumF : FlatEnum := enumOf wPrev ["acme", "v1", "Outer", "Mid", "OldEnum"]
def pEEF : FlatEnum := enumOf wPrev ["acme", "v1", "EE"]
def pMidExtF : FlatExt := extOf wPrev ["acme", "v1", "Outer", "Mid", "mid_ext"]
def pEExtF : FlatExt := extOf wPrev ["acme", "v1", "e_ext"]
def pOldSvcF : FlatSvc := svcOf wPrev ["acme", "v1", "OldSvc"]
def pESF : FlatSvc := svcOf wPrev ["acme", "v1", "ES"]
def pApiF : FlatSvc := svcOf wPrev ["acme", "v1", "Api"]
def cApiF : FlatSvc := svcOf wCur ["acme", "v1", "Api"]

theorem wCur_wf : WF wCur := WF_of_wfB _ (by decide)

theorem pA_mem : pA ∈ wPrev := by simp [wPrev]
theorem pB_mem : pB ∈ wPrev := by simp [wPrev]
theorem pC_mem : pC ∈ wPrev := by simp [wPrev]
theorem pD_mem : pD ∈ wPrev := by simp [wPrev]
theorem pE_mem : pE ∈ wPrev := by simp [wPrev]
theorem cA_mem : cA ∈ wCur := by simp [wCur]
theorem cB_mem : cB ∈ wCur := by simp [wCur]
theorem cC_mem : cC ∈ wCur := by simp [wCur]

theorem pInner_mem : pInner ∈ allMsgs wPrev := by decide
theorem cInner_mem : cInner ∈ allMsgs wCur := by decide
theorem inner_name : cInner.fullName = pInner.fullName := by decide
theorem pMid_mem : pMidF ∈ allMsgs wPrev := by decide
theorem cMid_mem : cMidF ∈ allMsgs wCur := by decide
theorem mid_name : cMidF.fullName = pMidF.fullName := by decide
theorem pExt_mem : pExtF ∈ allMsgs wPrev := by decide
theorem cExt_mem : cExtF ∈ allMsgs wCur := by decide
theorem ext_name : cExtF.fullName = pExtF.fullName := by decide
theorem pColor_mem : pColorF ∈ allEnums wPrev := by decide
theorem cColor_mem : cColorF ∈ allEnums wCur := by decide
theorem color_name : cColorF.fullName = pColorF.fullName := by decide
theorem pMode_mem : pModeF ∈ allEnums wPrev := by decide
theorem cMode_mem : cModeF ∈ allEnums wCur := by decide
theorem mode_name : cModeF.fullName = pModeF.fullName := by decide
theorem pGone_mem : pGoneF ∈ pA.flatMsgs := by decide
theorem pEM_mem : pEMF ∈ allMsgs wPrev := by decide
theorem pOldEnum_mem : pOldEnumF ∈ pA.flatEnums := by decide
theorem pEE_mem : pEEF ∈ allEnums wPrev := by decide
theorem pMidExt_mem : pMidExtF ∈ pA.flatExts := by decide
theorem pEExt_mem : pEExtF ∈ allExts wPrev := by decide
theorem pOldSvc_mem : pOldSvcF ∈ pA.flatSvcs := by decide
theorem pES_mem : pESF ∈ allSvcs wPrev := by decide
theorem pA_flatMsgs_sub {m : FlatMsg} (h : m ∈ pA.flatMsgs) : m ∈ allMsgs wPrev :=
  List.mem_flatMap.2 ⟨pA, pA_mem, h⟩
theorem pA_flatEnums_sub {m : FlatEnum} (h : m ∈ pA.flatEnums) : m ∈ allEnums wPrev :=
  List.mem_flatMap.2 ⟨pA, pA_mem, h⟩
theorem pA_flatExts_sub {m : FlatExt} (h : m ∈ pA.flatExts) : m ∈ allExts wPrev :=
  List.mem_flatMap.2 ⟨pA, pA_mem, h⟩
theorem pA_flatSvcs_sub {m : FlatSvc} (h : m ∈ pA.flatSvcs) : m ∈ allSvcs wPrev :=
  List.mem_flatMap.2 ⟨pA, pA_mem, h⟩
theorem pApi_mem : pApiF ∈ allSvcs wPrev := by decide
theorem cApi_mem : cApiF ∈ allSvcs wCur := by decide
theorem api_name : cApiF.fullName = pApiF.fullName := by decide

/-! ### C04: a chain of purely additive edits `aS0 → aS1 → aS2`, a neighbour that is breaking only in
    the stricter categories (`aDel`), and the closed-enum first-value pair (`cxP → cxC`) -/

def statusFld : Field := { fld 2 "status" .enum with typeName := ["shop", "v1", "Status"] }
def openEnum (name : String) (vals : List EnumValue) : Enum := { enm name vals with closed := false }

def orderFile (msgs : List Msg) (enums : List Enum) (svcs : List Service) : File :=
  { path := "shop/v1/order.proto", pkg := ["shop", "v1"], syn := .proto3, opts := [(11, "shop/v1;shopv1")],
    locs := [[4, 0], [4, 1], [4, 1, 2, 0]], messages := msgs, enums := enums, services := svcs, extensions := [] }

def getRpc : Method := mth "Get" ".shop.v1.Order" ".shop.v1.Order"

/-- S₀ -/
def aS0 : Schema := [orderFile
  [.mk { info "Order" with fields := [fld 1 "id" .string, statusFld], enums := [openEnum "Kind" [⟨"K0", 0⟩]] }
     [.mk { info "Line" with fields := [fld 1 "sku" .string] } []]]
  [openEnum "Status" [⟨"S_UNSPECIFIED", 0⟩, ⟨"S_PAID", 1⟩]]
  [⟨"Orders", [getRpc]⟩]]

/-- S₁ = S₀ + a new first top-level message, a new first field and a oneof in Order, a message at
    depth 3 (Order.Line.Tax), a reserved range in Order.Line, an appended enum value and an alias in
    Status, a new first RPC -/
def aS1 : Schema := [orderFile
  [.mk (info "Audit") [],
   .mk { info "Order" with fields := [fld 3 "note" .string, fld 1 "id" .string, statusFld],
                           enums := [openEnum "Kind" [⟨"K0", 0⟩]], oneofs := [⟨"extra", false⟩] }
     [.mk { info "Line" with fields := [fld 1 "sku" .string], reservedRanges := [(5, 9)] } [.mk (info "Tax") []]]]
  [openEnum "Status" [⟨"S_UNSPECIFIED", 0⟩, ⟨"S_PAID", 1⟩, ⟨"S_SETTLED", 1⟩, ⟨"S_SHIPPED", 2⟩]]
  [⟨"Orders", [mth "List" ".shop.v1.Audit" ".shop.v1.Audit", getRpc]⟩]]

def payFile : File :=
  { path := "shop/v1/pay.proto", pkg := ["shop", "v1"], syn := .proto3, opts := [], locs := [[4, 0]],
    messages := [.mk { info "Payment" with fields := [fld 1 "amount" .int64] } []], enums := [], services := [],
    extensions := [] }

/-- S₂ = S₁ + a new first file, a field in the depth-3 message, a nested enum at depth 2, a reserved
    name, an extension range, a new enum and a new service -/
def aS2 : Schema := [payFile, orderFile
  [.mk (info "Audit") [],
   .mk { info "Order" with fields := [fld 3 "note" .string, fld 1 "id" .string, statusFld],
                           enums := [openEnum "Kind" [⟨"K0", 0⟩]], oneofs := [⟨"extra", false⟩],
                           extRanges := [(1000, 2000)] }
     [.mk { info "Line" with fields := [fld 1 "sku" .string], reservedRanges := [(5, 9)], reservedNames := ["old"],
                             enums := [openEnum "Unit" [⟨"U0", 0⟩]] }
        [.mk { info "Tax" with fields := [fld 1 "rate" .double] } []]]]
  [openEnum "Currency" [⟨"C0", 0⟩],
   openEnum "Status" [⟨"S_UNSPECIFIED", 0⟩, ⟨"S_PAID", 1⟩, ⟨"S_SETTLED", 1⟩, ⟨"S_SHIPPED", 2⟩]]
  [⟨"Orders", [mth "List" ".shop.v1.Audit" ".shop.v1.Audit", getRpc]⟩, ⟨"Admin", []⟩]]

/-- S₁ with field 3 `note` of Order deleted and its number and name reserved: breaking under FILE and
    PACKAGE (FIELD_NO_DELETE), compatible under WIRE_JSON and WIRE -/
def aDel : Schema := [orderFile
  [.mk (info "Audit") [],
   .mk { info "Order" with fields := [fld 1 "id" .string, statusFld],
                           enums := [openEnum "Kind" [⟨"K0", 0⟩]], oneofs := [⟨"extra", false⟩],
                           reservedRanges := [(3, 3)], reservedNames := ["note"] }
     [.mk { info "Line" with fields := [fld 1 "sku" .string], reservedRanges := [(5, 9)] } [.mk (info "Tax") []]]]
  [openEnum "Status" [⟨"S_UNSPECIFIED", 0⟩, ⟨"S_PAID", 1⟩, ⟨"S_SETTLED", 1⟩, ⟨"S_SHIPPED", 2⟩]]
  [⟨"Orders", [mth "List" ".shop.v1.Audit" ".shop.v1.Audit", getRpc]⟩]]

theorem aS1_wf : WF aS1 := WF_of_wfB _ (by decide)
theorem aS2_wf : WF aS2 := WF_of_wfB _ (by decide)
theorem aS0_wf : WF aS0 := WF_of_wfB _ (by decide)
theorem aS01 : aS0 ⊑ₐ aS1 := schemaExtB_sound _ _ (by decide)
theorem aS12 : aS1 ⊑ₐ aS2 := schemaExtB_sound _ _ (by decide)

/-- proto2 `enum Level { LOW = 1; HIGH = 2; }  message Cfg { optional Level level = 1; }`: the
    default of `level` is the FIRST value, LOW = 1 -/
def cfgFile (vals : List EnumValue) (dflt : DefVal) : File :=
  { path := "cfg.proto", pkg := ["cfg"], syn := .proto2, opts := [], locs := [[4, 0], [4, 0, 2, 0], [5, 0]],
    messages := [.mk { info "Cfg" with fields :=
      [{ fld 1 "level" .enum with typeName := ["cfg", "Level"], hasPresence := true, dflt := dflt }] } []],
    enums := [enm "Level" vals], services := [], extensions := [] }

def cxP : Schema := [cfgFile [⟨"LOW", 1⟩, ⟨"HIGH", 2⟩] (.num "1" false)]
/-- the same source with `NONE = 0;` inserted in front: the default of `level` becomes NONE = 0 -/
def cxC : Schema := [cfgFile [⟨"NONE", 0⟩, ⟨"LOW", 1⟩, ⟨"HIGH", 2⟩] (.num "0" true)]


/-- file name of the edited file and abbreviations used by the examples -/
def fileA : String := "acme/v1/a.proto"

/-- the previous / current field number `n` of `Inner`, as a flattened field -/
def pF (n : Int) : FlatField := fieldOf pInner n
def cF (n : Int) : FlatField := fieldOf cInner n
/-- the previous / current method `n` of service `Api` -/
def pM (n : String) : FlatMethod := methodOf pApiF n
def cM (n : String) : FlatMethod := methodOf cApiF n

theorem inner_paired (n : Int) (hp : pF n ∈ msgFields pInner) (hc : cF n ∈ msgFields cInner)
    (hn : (cF n).field.number = (pF n).field.number) : FieldPaired wCur wPrev (cF n) (pF n) :=
  Or.inl ⟨pInner, cInner, pInner_mem, cInner_mem, inner_name, hp, hc, hn⟩

/-- the extension 102 of acme.v1.Ext, previous and current (now the 2nd file-level extension) -/
def pKeptX : FlatField := ⟨fileA, [], [7, 0], none, pKeptExt⟩
def cKeptX : FlatField := ⟨fileA, cALocs, [7, 1], none, cKeptExt⟩
theorem kept_paired : FieldPaired wCur wPrev cKeptX pKeptX := Or.inr ⟨by decide, by decide, rfl, rfl⟩


/-! ### group / delimited encoded fields: witness `gPrev → gCur` (see the examples at the end of
    Props/C03.lean for the source-level reading) -/

def gE (fs : List Field) : File :=
  { path := "g/e.proto", pkg := ["g"], syn := .editions, opts := [],
    locs := [[4, 0], [4, 0, 2, 0], [4, 0, 2, 0, 6], [4, 0, 2, 1], [4, 0, 2, 1, 6], [4, 0, 2, 2], [4, 0, 2, 2, 6],
             [4, 0, 2, 3], [4, 0, 2, 3, 6]],
    messages := [.mk { info "M" with fields := fs } [], .mk (info "X") [], .mk (info "Y") []],
    enums := [], services := [], extensions := [] }

def gP (g fname : String) : File :=
  { path := "g/p.proto", pkg := ["g"], syn := .proto2, opts := [],
    locs := [[4, 0], [4, 0, 2, 0], [4, 0, 2, 0, 6], [4, 0, 3, 0]],
    messages := [.mk { info "P" with fields :=
      [{ fld 1 fname .group with typeName := ["g", "P", g], hasPresence := true }] } [.mk (info g) []]],
    enums := [], services := [], extensions := [] }

def gmsg (n : Int) (name : String) (k : Kind) (t : String) : Field :=
  { fld n name .message with kind := k, typeName := ["g", t], hasPresence := true }

def gPrev : Schema :=
  [gE [gmsg 1 "a" .group "X", gmsg 2 "b" .message "X", gmsg 3 "c" .message "X"], gP "Grp1" "grp1"]
def gCur : Schema :=
  [gE [fld 9 "fresh" .int32, gmsg 1 "a" .group "Y", gmsg 2 "b" .group "X", gmsg 3 "c" .message "Y"], gP "Grp2" "grp2"]

theorem gCur_wf : WF gCur := WF_of_wfB _ (by decide)

def gpM : FlatMsg := msgOf gPrev ["g", "M"]
def gcM : FlatMsg := msgOf gCur ["g", "M"]
def gpP : FlatMsg := msgOf gPrev ["g", "P"]
def gcP : FlatMsg := msgOf gCur ["g", "P"]

theorem gM_paired (n : Int) (hp : fieldOf gpM n ∈ msgFields gpM) (hc : fieldOf gcM n ∈ msgFields gcM)
    (hn : (fieldOf gcM n).field.number = (fieldOf gpM n).field.number) :
    FieldPaired gCur gPrev (fieldOf gcM n) (fieldOf gpM n) :=
  Or.inl ⟨gpM, gcM, by decide, by decide, by decide, hp, hc, hn⟩

theorem gP_paired : FieldPaired gCur gPrev (fieldOf gcP 1) (fieldOf gpP 1) :=
  Or.inl ⟨gpP, gcP, by decide, by decide, by decide, by decide, by decide, rfl⟩


/-! ### defaults of 64-bit integer fields above 2^53: witness `dPrev → dCur`
    proto2 `message Lim { optional int64 max_offset = 1 [default = 9007199254740993];
    optional uint64 max_id = 2 [default = 18446744073709551615]; optional sint64 floor = 3
    [default = -9223372036854775807]; optional string tag = 4 [default = "abc"]; }` versus the same
    with the defaults 9007199254740992, 18446744073709551614, -9223372036854775808, "ABC" (each pair
    of integers rounds to the same float64) -/
def dFile (d1 d2 d3 d4 : DefVal) : File :=
  { path := "lim.proto", pkg := ["lim"], syn := .proto2, opts := [],
    locs := [[4, 0], [4, 0, 2, 0], [4, 0, 2, 0, 7], [4, 0, 2, 1], [4, 0, 2, 1, 7], [4, 0, 2, 2], [4, 0, 2, 2, 7],
             [4, 0, 2, 3], [4, 0, 2, 3, 7]],
    messages := [.mk { info "Lim" with fields :=
      [{ fld 1 "max_offset" .int64 with hasPresence := true, dflt := d1 },
       { fld 2 "max_id" .uint64 with hasPresence := true, dflt := d2 },
       { fld 3 "floor" .sint64 with hasPresence := true, dflt := d3 },
       { fld 4 "tag" .string with hasPresence := true, dflt := d4 }] } []],
    enums := [], services := [], extensions := [] }

def dPrev : Schema := [dFile (.num "9007199254740993/1" false) (.num "18446744073709551615/1" false)
  (.num "-9223372036854775807/1" false) (.str "616263")]
def dCur : Schema := [dFile (.num "9007199254740992/1" false) (.num "18446744073709551614/1" false)
  (.num "-9223372036854775808/1" false) (.str "414243")]

theorem dCur_wf : WF dCur := WF_of_wfB _ (by decide)
def dpM : FlatMsg := msgOf dPrev ["lim", "Lim"]
def dcM : FlatMsg := msgOf dCur ["lim", "Lim"]
theorem dM_paired (n : Int) (hp : fieldOf dpM n ∈ msgFields dpM) (hc : fieldOf dcM n ∈ msgFields dcM)
    (hn : (fieldOf dcM n).field.number = (fieldOf dpM n).field.number) :
    FieldPaired dCur dPrev (fieldOf dcM n) (fieldOf dpM n) :=
  Or.inl ⟨dpM, dcM, by decide, by decide, by decide, hp, hc, hn⟩

/-! ### the ALIAS family of the enum-value rules: witness `alPrev → alCur…`
    proto2 `al.proto`, package `al`:
      enum Mode { option allow_alias = true; OFF = 0; ON = 1; LEGACY = 2; ENABLED = 1; OLD = 2;
                  ANCIENT = 2; X = 3; Y = 3; }
      message Holder { enum Inner { option allow_alias = true; A = 0; B = 5; C = 5; } }
    versus (`alCurSome`) the same with number 1 gone and only ONE of its two names reserved
    (`reserved "ON";`), alias OLD of number 2 gone (LEGACY, ANCIENT stay), number 3 gone with BOTH
    names and the number reserved (`reserved "X", "Y"; reserved 3;`), `Inner` without number 5 and
    `reserved "C"; reserved 6 to 8;` (a range NEXT TO the number).  `alCurAll` differs from
    `alCurSome` in reserving both names of 1 (`reserved "ON", "ENABLED";`). -/
def alMode (vals : List EnumValue) (rn : List Name) (rr : List Range) : Enum :=
  { enm "Mode" vals with reservedNames := rn, reservedRanges := rr }
def alInner (vals : List EnumValue) (rn : List Name) (rr : List Range) : Enum :=
  { enm "Inner" vals with reservedNames := rn, reservedRanges := rr }
def alFile (mode inner : Enum) : File :=
  { path := "al.proto", pkg := ["al"], syn := .proto2, opts := [],
    locs := [[5, 0], [5, 0, 2, 0], [5, 0, 2, 0, 2], [5, 0, 2, 1], [5, 0, 2, 1, 2], [5, 0, 2, 2], [5, 0, 2, 2, 2],
             [5, 0, 2, 3], [5, 0, 2, 3, 2], [5, 0, 2, 4], [5, 0, 2, 4, 2], [5, 0, 2, 5], [5, 0, 2, 5, 2],
             [5, 0, 2, 6], [5, 0, 2, 6, 2], [5, 0, 2, 7], [5, 0, 2, 7, 2], [4, 0], [4, 0, 4, 0]],
    messages := [.mk { info "Holder" with enums := [inner] } []],
    enums := [mode], services := [], extensions := [] }

def alPrev : Schema := [alFile
  (alMode [⟨"OFF", 0⟩, ⟨"ON", 1⟩, ⟨"LEGACY", 2⟩, ⟨"ENABLED", 1⟩, ⟨"OLD", 2⟩, ⟨"ANCIENT", 2⟩, ⟨"X", 3⟩, ⟨"Y", 3⟩] [] [])
  (alInner [⟨"A", 0⟩, ⟨"B", 5⟩, ⟨"C", 5⟩] [] [])]
def alCurSome : Schema := [alFile
  (alMode [⟨"OFF", 0⟩, ⟨"LEGACY", 2⟩, ⟨"ANCIENT", 2⟩] ["ON", "X", "Y"] [(3, 3)])
  (alInner [⟨"A", 0⟩] ["C"] [(6, 8)])]
def alCurAll : Schema := [alFile
  (alMode [⟨"OFF", 0⟩, ⟨"LEGACY", 2⟩, ⟨"ANCIENT", 2⟩] ["ON", "ENABLED", "X", "Y"] [(3, 3)])
  (alInner [⟨"A", 0⟩] ["C"] [(6, 8)])]

theorem alCurSome_wf : WF alCurSome := WF_of_wfB _ (by decide)
theorem alCurAll_wf : WF alCurAll := WF_of_wfB _ (by decide)
def alpMode : FlatEnum := enumOf alPrev ["al", "Mode"]
def alcMode : FlatEnum := enumOf alCurSome ["al", "Mode"]
def alpInner : FlatEnum := enumOf alPrev ["al", "Holder", "Inner"]
def alcInner : FlatEnum := enumOf alCurSome ["al", "Holder", "Inner"]
theorem alpMode_mem : alpMode ∈ allEnums alPrev := by decide
theorem alcMode_mem : alcMode ∈ allEnums alCurSome := by decide
theorem alMode_name : alcMode.fullName = alpMode.fullName := by decide
theorem alpInner_mem : alpInner ∈ allEnums alPrev := by decide
theorem alcInner_mem : alcInner ∈ allEnums alCurSome := by decide
theorem alInner_name : alcInner.fullName = alpInner.fullName := by decide

end BufProofs.Breaking.W
