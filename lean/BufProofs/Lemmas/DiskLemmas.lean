import BufModel.Disk
import BufProofs.Lemmas.BucketLemmas
import BufProofs.Lemmas.ArchiveLemmas
/-
  Lemmas for the disk-bucket tree model: on prefix-free histories the tree behaves like the
  memory bucket.
-/
namespace BufModel.Disk
open BufModel.Path BufModel.Bucket

theorem mem_ancestors {k x : Key} (h : x ∈ ancestors k) : x <+: k ∧ x ≠ k ∧ x ≠ [] := by
  unfold ancestors at h
  obtain ⟨n, hn, hx⟩ := List.mem_filterMap.mp h
  have hlt : n < k.length := List.mem_range.mp hn
  by_cases h0 : n = 0
  · simp [h0] at hx
  · simp only [h0, if_false] at hx
    have hx' : x = k.take n := (Option.some.inj hx).symm
    subst hx'
    refine ⟨List.take_prefix n k, ?_, ?_⟩
    · intro e
      have : (k.take n).length = k.length := by rw [e]
      rw [List.length_take] at this
      omega
    · intro e
      have : (k.take n).length = 0 := by rw [e]; rfl
      rw [List.length_take] at this
      omega

theorem allProper_of_prefix {x k : Key} (hk : AllProper k) (h : x <+: k) : AllProper x := by
  obtain ⟨t, ht⟩ := h
  rw [← ht] at hk
  exact (allProper_append.mp hk).1

theorem mem_addDirs {ds as : List Key} {x : Key} (h : x ∈ addDirs ds as) : x ∈ ds ∨ x ∈ as := by
  induction as generalizing ds with
  | nil => exact Or.inl h
  | cons a rest ih =>
    unfold addDirs at h
    split at h
    · rcases ih h with h' | h'
      · exact Or.inl h'
      · exact Or.inr (List.mem_cons_of_mem _ h')
    · rcases ih h with h' | h'
      · rcases List.mem_cons.mp h' with e | h''
        · exact Or.inr (by rw [e]; exact List.mem_cons_self)
        · exact Or.inl h''
      · exact Or.inr (List.mem_cons_of_mem _ h')

/-- strict component-prefix -/
def Below (a b : Key) : Prop := a <+: b ∧ a ≠ b

/-- `U` is the set of keys the history ever puts. The tree invariant relative to `U`. -/
structure TreeInv (U : List Key) (d : Disk) : Prop where
  filesIn : ∀ kv ∈ d.files, ∃ u ∈ U, kv.1 = renderKey u
  dirsBelow : ∀ x ∈ d.dirs, ∃ u ∈ U, Below x u

def UProper (U : List Key) : Prop := ∀ u ∈ U, AllProper u ∧ u ≠ []

def PrefixFree (U : List Key) : Prop := ∀ a ∈ U, ∀ b ∈ U, ¬ Below a b

/-- `k` neither lies strictly below nor strictly above any key of `U`. -/
def Unrelated (U : List Key) (k : Key) : Prop := ∀ u ∈ U, ¬ Below k u ∧ ¬ Below u k

theorem isFile_mem {U : List Key} {d : Disk} (inv : TreeInv U d) (hU : UProper U) {a : Key}
    (ha : AllProper a) (h : isFile d a = true) : a ∈ U := by
  unfold isFile at h
  cases hf : d.files.find (renderKey a) with
  | none => rw [hf] at h; cases h
  | some c =>
    obtain ⟨u, hu, he⟩ := inv.filesIn _ (find_some_mem hf)
    simp only at he
    have := renderKey_inj ha (hU u hu).1 he
    rw [this]; exact hu

theorem no_file_ancestor {U : List Key} {d : Disk} (inv : TreeInv U d) (hU : UProper U)
    {k : Key} (hk : AllProper k) (hno : ∀ u ∈ U, ¬ Below u k) :
    (ancestors k).any (isFile d) = false := by
  cases h : (ancestors k).any (isFile d) with
  | false => rfl
  | true =>
    exfalso
    obtain ⟨a, ha, hfile⟩ := List.any_eq_true.mp h
    obtain ⟨hpre, hne, _⟩ := mem_ancestors ha
    have hap := allProper_of_prefix hk hpre
    exact hno a (isFile_mem inv hU hap hfile) ⟨hpre, hne⟩

theorem not_isDir {U : List Key} {d : Disk} (inv : TreeInv U d) {k : Key}
    (hno : ∀ u ∈ U, ¬ Below k u) : isDir d k = false := by
  cases h : isDir d k with
  | false => rfl
  | true =>
    exfalso
    unfold isDir at h
    have hm : k ∈ d.dirs := by simpa using h
    obtain ⟨u, hu, hb⟩ := inv.dirsBelow k hm
    exact hno u hu hb

theorem underFile_false {U : List Key} {d : Disk} (inv : TreeInv U d) (hU : UProper U)
    (pfx : Str) (k : Key) (hk : AllProper k) (hv : validatePrefix pfx = .ok (renderKey k))
    (hno : ∀ u ∈ U, ¬ Below u k) : underFile d.files pfx = false := by
  unfold underFile
  rw [hv]
  simp only [keyOfPath, cleanComps_renderKey hk]
  have := no_file_ancestor inv hU hk hno
  unfold isFile at this
  exact this

/-- Put of a key of a prefix-free `U`: the tree accepts it exactly like the memory bucket. -/
theorem diskPut_eq_mem {U : List Key} {d : Disk} (inv : TreeInv U d) (hU : UProper U) (hpf : PrefixFree U)
    (path : Str) (c : Content) (k : Key) (hk : AllProper k) (hne : k ≠ [])
    (hv : validatePath path = .ok (renderKey k)) (hkU : k ∈ U) :
    ∃ d', diskPut d path c = .ok d' ∧ memPut d.files path c = .ok d'.files ∧ TreeInv U d' := by
  unfold diskPut memPut
  rw [hv]
  simp only [keyOfPath, cleanComps_renderKey hk]
  have h1 := no_file_ancestor inv hU hk (fun u hu hb => hpf u hu k hkU hb)
  have h2 := not_isDir inv (k := k) (fun u hu hb => hpf k hkU u hu hb)
  simp only [h1, h2, Bool.false_eq_true, if_false]
  refine ⟨_, rfl, rfl, ?_, ?_⟩
  · intro kv hkv
    rcases List.mem_cons.mp hkv with e | hm
    · subst e; exact ⟨k, hkU, rfl⟩
    · exact inv.filesIn kv (List.mem_filter.mp hm).1
  · intro x hx
    rcases mem_addDirs hx with h | h
    · exact inv.dirsBelow x h
    · obtain ⟨hpre, hnek, _⟩ := mem_ancestors h
      exact ⟨k, hkU, hpre, hnek⟩

/-- Delete of a key unrelated to (or equal to a member of) `U`: same answer as the memory bucket. -/
theorem diskDelete_eq_mem {U : List Key} {d : Disk} (inv : TreeInv U d) (hU : UProper U)
    (path : Str) (k : Key) (hk : AllProper k) (hne : k ≠ [])
    (hv : validatePath path = .ok (renderKey k)) (hun : Unrelated U k) :
    (∃ d', diskDelete d path = .ok d' ∧ memDelete d.files path = .ok d'.files ∧ TreeInv U d') ∨
    (diskDelete d path = .error .notExist ∧ memDelete d.files path = .error .notExist) := by
  unfold diskDelete memDelete
  rw [hv]
  simp only [keyOfPath, cleanComps_renderKey hk]
  cases hf : d.files.find (renderKey k) with
  | some c0 =>
    left
    have : isFile d k = true := by unfold isFile; rw [hf]; rfl
    simp only [this, if_true]
    refine ⟨_, rfl, rfl, ?_, inv.dirsBelow⟩
    intro kv hkv
    exact inv.filesIn kv (List.mem_filter.mp hkv).1
  | none =>
    right
    have h0 : isFile d k = false := by unfold isFile; rw [hf]; rfl
    have h1 := no_file_ancestor inv hU hk (fun u hu => (hun u hu).2)
    have h2 := not_isDir inv (k := k) (fun u hu => (hun u hu).1)
    simp only [h0, h1, h2, Bool.false_eq_true, if_false, and_self]

/-- DeleteAll of a prefix that is not strictly below a key of `U`. -/
theorem diskDeleteAll_eq_mem {U : List Key} {d : Disk} (inv : TreeInv U d) (hU : UProper U)
    (pfx : Str) (k : Key) (hk : AllProper k) (hv : validatePrefix pfx = .ok (renderKey k))
    (hno : ∀ u ∈ U, ¬ Below u k) :
    ∃ d', diskDeleteAll d pfx = .ok d' ∧ memDeleteAll d.files pfx = .ok d'.files ∧ TreeInv U d' := by
  have huf := underFile_false inv hU pfx k hk hv hno
  unfold diskDeleteAll memDeleteAll
  rw [hv]
  simp only [huf, Bool.false_eq_true, if_false]
  refine ⟨_, rfl, rfl, ?_, ?_⟩
  · intro kv hkv; exact inv.filesIn kv (List.mem_filter.mp hkv).1
  · intro x hx; exact inv.dirsBelow x (List.mem_filter.mp hx).1

theorem diskWalk_eq_mem {U : List Key} {d : Disk} (inv : TreeInv U d) (hU : UProper U)
    (pfx : Str) (k : Key) (hk : AllProper k) (hv : validatePrefix pfx = .ok (renderKey k))
    (hno : ∀ u ∈ U, ¬ Below u k) : diskWalk d pfx = memWalk d.files pfx := by
  unfold diskWalk
  rw [underFile_false inv hU pfx k hk hv hno]; simp

theorem treeInv_empty (U : List Key) : TreeInv U empty := by
  constructor
  · intro kv h; simp [empty] at h
  · intro x h; simp [empty] at h


/-! ### The mixed-kind walk / copy the C14 driver runs, tied to `rWalk` / `rCopy` -/

theorem unmapPartial_none (p : Str) (l out : List (Str × Content)) :
    unmapPartial p l = (out, none) ↔ unmapAll p l = .ok out := by
  induction l generalizing out with
  | nil => simp [unmapPartial, unmapAll, eq_comm]
  | cons kv rest ih =>
    obtain ⟨k, v⟩ := kv
    unfold unmapPartial unmapAll
    cases hu : unmapPrefix p k with
    | error e => simp
    | ok o =>
      cases o with
      | none => simpa using ih out
      | some r =>
        simp only
        cases hr : unmapPartial p rest with
        | mk o e =>
          cases e with
          | some er =>
            have : ∀ out', unmapAll p rest ≠ .ok out' := by
              intro out' h
              have := (ih out').mpr h
              rw [hr] at this; cases this
            cases hua : unmapAll p rest with
            | error e' => simp
            | ok out' => exact absurd hua (this out')
          | none =>
            have := (ih o).mp hr
            rw [this]
            simp [eq_comm]

theorem mergePartial_none (seen l out : List (Str × Content)) :
    mergePartial seen l = (out, none) ↔ mergeMulti seen l = .ok out := by
  induction l generalizing out with
  | nil => simp [mergePartial, mergeMulti, eq_comm]
  | cons kv rest ih =>
    unfold mergePartial mergeMulti
    by_cases hs : hasKey seen kv.1 = true
    · simp [hs]
    · simp only [hs, Bool.false_eq_true, if_false]
      cases hr : mergePartial seen rest with
      | mk o e =>
        cases e with
        | some er =>
          have : ∀ out', mergeMulti seen rest ≠ .ok out' := by
            intro out' h
            have := (ih out').mpr h
            rw [hr] at this; cases this
          cases hua : mergeMulti seen rest with
          | error e' => simp
          | ok out' => exact absurd hua (this out')
        | none =>
          have := (ih o).mp hr
          rw [this]
          simp [eq_comm]

/-- Whenever the streaming walk completes (with any mix of disk bases) it has visited exactly
    the list `rWalk` computes. -/
theorem rWalkD_ok (flags : List Bool) (e : BExpr) (bs : Bases) (pfx : Str)
    (objs : List (Str × Content)) (h : rWalkD flags e bs pfx = (objs, none)) : rWalk e bs pfx = .ok objs := by
  induction e generalizing pfx objs with
  | base i =>
    simp only [rWalkD] at h
    split at h
    · cases h
    · simp only [rWalk]
      cases hm : memWalk (bs.get i) pfx with
      | error e => rw [hm] at h; cases h
      | ok l => rw [hm] at h; injection h with h1 _; rw [h1]
  | pre p b ih =>
    simp only [rWalkD] at h
    simp only [rWalk]
    cases hnv : normalizeAndValidate pfx with
    | error e => rw [hnv] at h; cases h
    | ok q =>
      rw [hnv] at h; simp only at h ⊢
      cases hw : rWalkD flags b bs (join [p, q]) with
      | mk il ie =>
        rw [hw] at h
        cases hu : unmapPartial p il with
        | mk ol oe =>
          rw [hu] at h
          injection h with h1 h2
          cases oe with
          | some ue => cases h2
          | none =>
            simp only at h2
            subst h2; subst h1
            rw [ih _ _ hw]
            exact (unmapPartial_none p il ol).mp hu
  | filt f b ih =>
    simp only [rWalkD] at h
    simp only [rWalk]
    cases hnv : normalizeAndValidate pfx with
    | error e => rw [hnv] at h; cases h
    | ok q =>
      rw [hnv] at h; simp only at h ⊢
      cases hw : rWalkD flags b bs q with
      | mk il ie =>
        rw [hw] at h
        injection h with h1 h2
        simp only at h2; subst h2
        rw [ih _ _ hw, ← h1]
  | multi a b iha ihb =>
    simp only [rWalkD] at h
    simp only [rWalk]
    cases hwa : rWalkD flags a bs pfx with
    | mk la ea =>
      rw [hwa] at h
      cases ea with
      | some e => cases h
      | none =>
        simp only at h
        cases hwb : rWalkD flags b bs pfx with
        | mk lb eb =>
          rw [hwb] at h
          cases hm : mergePartial la lb with
          | mk ol oe =>
            rw [hm] at h
            injection h with h1 h2
            cases oe with
            | some em => cases h2
            | none =>
              simp only at h2; subst h2
              rw [iha _ _ hwa, ihb _ _ hwb]
              simp only
              rw [(mergePartial_none la lb ol).mp hm, ← h1]
  | overlay a b iha ihb =>
    simp only [rWalkD] at h
    simp only [rWalk]
    cases hwa : rWalkD flags a bs pfx with
    | mk la ea =>
      rw [hwa] at h
      cases ea with
      | some e => cases h
      | none =>
        simp only at h
        cases hwb : rWalkD flags b bs pfx with
        | mk lb eb =>
          rw [hwb] at h
          injection h with h1 h2
          simp only at h2; subst h2
          rw [iha _ _ hwa, ihb _ _ hwb, ← h1]
  | strip b ih =>
    simp only [rWalkD] at h
    simp only [rWalk]; exact ih _ _ h

/-- With no disk base the streaming walk completes whenever `rWalk` succeeds, with the same
    list: on memory bases the two walks have the same successful results. -/
theorem rWalkD_of_rWalk_ok (flags : List Bool) (hf : ∀ i, flags.getD i false = false) (e : BExpr)
    (bs : Bases) (pfx : Str) (objs : List (Str × Content)) (h : rWalk e bs pfx = .ok objs) :
    rWalkD flags e bs pfx = (objs, none) := by
  induction e generalizing pfx objs with
  | base i =>
    simp only [rWalk] at h
    simp only [rWalkD, hf i, h]; simp
  | pre p b ih =>
    simp only [rWalk] at h
    simp only [rWalkD]
    cases hnv : normalizeAndValidate pfx with
    | error e => rw [hnv] at h; cases h
    | ok q =>
      rw [hnv] at h; simp only at h ⊢
      cases hw : rWalk b bs (join [p, q]) with
      | error e => rw [hw] at h; cases h
      | ok inner =>
        rw [hw] at h; simp only at h
        rw [ih _ _ hw]
        simp only [(unmapPartial_none p inner objs).mpr h]
  | filt f b ih =>
    simp only [rWalk] at h
    simp only [rWalkD]
    cases hnv : normalizeAndValidate pfx with
    | error e => rw [hnv] at h; cases h
    | ok q =>
      rw [hnv] at h; simp only at h ⊢
      cases hw : rWalk b bs q with
      | error e => rw [hw] at h; cases h
      | ok inner =>
        rw [hw] at h; injection h with h
        rw [ih _ _ hw, ← h]
  | multi a b iha ihb =>
    simp only [rWalk] at h
    simp only [rWalkD]
    cases hwa : rWalk a bs pfx with
    | error e => rw [hwa] at h; cases h
    | ok oa =>
      rw [hwa] at h; simp only at h
      cases hwb : rWalk b bs pfx with
      | error e => rw [hwb] at h; cases h
      | ok ob =>
        rw [hwb] at h; simp only at h
        cases hm : mergeMulti oa ob with
        | error e => rw [hm] at h; cases h
        | ok ob' =>
          rw [hm] at h; injection h with h
          rw [iha _ _ hwa, ihb _ _ hwb]
          simp only [(mergePartial_none oa ob ob').mpr hm, h]
  | overlay a b iha ihb =>
    simp only [rWalk] at h
    simp only [rWalkD]
    cases hwa : rWalk a bs pfx with
    | error e => rw [hwa] at h; cases h
    | ok oa =>
      rw [hwa] at h; simp only at h
      cases hwb : rWalk b bs pfx with
      | error e => rw [hwb] at h; cases h
      | ok ob =>
        rw [hwb] at h; injection h with h
        rw [iha _ _ hwa, ihb _ _ hwb]
        simp only [h]
  | strip b ih =>
    simp only [rWalk] at h
    simp only [rWalkD]; exact ih _ _ h

/-- A successful put on a base of either kind is `memPut` on its object map. -/
theorem basePut_files {isDisk : Bool} {d d' : Disk} {p : Str} {c : Content}
    (h : basePut isDisk d p c = .ok d') : memPut d.files p c = .ok d'.files := by
  unfold basePut at h
  cases isDisk with
  | false =>
    simp only [Bool.false_eq_true, if_false] at h
    cases hm : memPut d.files p c with
    | error e => rw [hm] at h; cases h
    | ok m' => rw [hm] at h; injection h with h; rw [← h]
  | true =>
    simp only [if_true] at h
    unfold diskPut at h
    unfold memPut
    cases hv : validatePath p with
    | error e => rw [hv] at h; cases h
    | ok q =>
      rw [hv] at h
      simp only at h ⊢
      split at h
      · cases h
      · split at h
        · cases h
        · injection h with h; rw [← h]

theorem putAllD_files {isDisk : Bool} {objs : List (Str × Content)} :
    ∀ {d d' : Disk}, putAllD isDisk d objs = .ok d' → putAll d.files objs = .ok d'.files := by
  induction objs with
  | nil => intro d d' h; simp [putAllD] at h; subst h; rfl
  | cons o rest ih =>
    intro d d' h
    obtain ⟨k, v⟩ := o
    simp only [putAllD] at h
    cases hp : basePut isDisk d k v with
    | error e => rw [hp] at h; cases h
    | ok d1 =>
      rw [hp] at h
      simp only at h
      simp only [putAll, basePut_files hp]
      exact ih h

/-- The copy the driver runs refines `rCopy`: whenever it succeeds (on a target of either kind,
    with any mix of disk bases in the source) the target's object map and the count are those of
    `rCopy` on the plain maps. -/
theorem copyD_refines_rCopy (flags : List Bool) (e : BExpr) (he : e.WF) (bs : Bases) (hbs : BasesOK bs)
    (t : Nat) (isDisk : Bool) (d0 d' : Disk) (n : Nat) (ht : bs.get t = d0.files)
    (h : copyD flags e bs isDisk d0 = .ok (n, d')) :
    rCopy e bs t = .ok (n, bs.set t d'.files) := by
  unfold copyD at h
  cases hw0 : rWalkD flags e bs [] with
  | mk paths werr =>
  rw [hw0] at h
  cases werr with
  | some er => cases h
  | none =>
    have hw : rWalkD flags e bs [] = (paths, none) := hw0
    simp only at h
    cases hr : readObjects e bs paths with
    | error er => rw [hr] at h; cases h
    | ok objs =>
      rw [hr] at h
      simp only at h
      cases hp : putAllD isDisk d0 objs with
      | error er => rw [hp] at h; cases h
      | ok d1 =>
        rw [hp] at h
        injection h with h
        injection h with h1 h2
        subst h1; subst h2
        have hw' := rWalkD_ok flags e bs [] paths hw
        obtain ⟨kq, hkq, hnv, hc⟩ := rWalk_coherent e he bs hbs [] paths hw'
        -- the per-object Get returns the walked content
        have hget : ∀ kv ∈ paths, rGet e bs kv.1 = .ok kv.2 := by
          intro kv hkv
          obtain ⟨kk, hkk, hk⟩ := hc.rendered kv hkv
          obtain ⟨c', hg⟩ := readObjects_ok_get e bs paths objs hr kv hkv
          have hne : kk ≠ [] := by
            intro e0; subst e0
            rw [hk, renderKey_nil] at hg
            exact BufModel.Archive.rGet_dot_not_ok e bs c' hg
          have := (hc.sound kk kv.2 hkk (by rw [← hk]; exact hkv)).2 hne
          rw [hk]; exact this
        have : objs = paths := by
          have := readObjects_eq e bs paths hget
          rw [hr] at this; injection this
        subst this
        have hpa := putAllD_files hp
        rw [← ht] at hpa
        simp only [rCopy, hw', hpa]

end BufModel.Disk
