import BufModel.Disk
import BufProofs.Lemmas.BucketLemmas
/-
  Lemmas for the disk-bucket tree model: on prefix-free histories the tree behaves like the
  memory bucket.
-/
namespace BufModel.Disk
open BufModel.Path BufModel.Bucket

theorem mem_ancestors {k x : Key} (h : x ∈ ancestors k) : x <+: k ∧ x ≠ k ∧ x ≠ [] := by
  unfold ancestors at h
  obtain ⟨n, hn, hx⟩ := List.mem_filterMap.mp h
  have hlt : n < k.length := List.mem_range.mp hn
  by_cases h0 : n = 0
  · simp [h0] at hx
  · simp only [h0, if_false] at hx
    have hx' : x = k.take n := (Option.some.inj hx).symm
    subst hx'
    refine ⟨List.take_prefix n k, ?_, ?_⟩
    · intro e
      have : (k.take n).length = k.length := by rw [e]
      rw [List.length_take] at this
      omega
    · intro e
      have : (k.take n).length = 0 := by rw [e]; rfl
      rw [List.length_take] at this
      omega

theorem allProper_of_prefix {x k : Key} (hk : AllProper k) (h : x <+: k) : AllProper x := by
  obtain ⟨t, ht⟩ := h
  rw [← ht] at hk
  exact (allProper_append.mp hk).1

theorem mem_addDirs {ds as : List Key} {x : Key} (h : x ∈ addDirs ds as) : x ∈ ds ∨ x ∈ as := by
  induction as generalizing ds with
  | nil => exact Or.inl h
  | cons a rest ih =>
    unfold addDirs at h
    split at h
    · rcases ih h with h' | h'
      · exact Or.inl h'
      · exact Or.inr (List.mem_cons_of_mem _ h')
    · rcases ih h with h' | h'
      · rcases List.mem_cons.mp h' with e | h''
        · exact Or.inr (by rw [e]; exact List.mem_cons_self)
        · exact Or.inl h''
      · exact Or.inr (List.mem_cons_of_mem _ h')

/-- strict component-prefix -/
def Below (a b : Key) : Prop := a <+: b ∧ a ≠ b

/-- `U` is the set of keys the history ever puts. The tree invariant relative to `U`. -/
structure TreeInv (U : List Key) (d : Disk) : Prop where
  filesIn : ∀ kv ∈ d.files, ∃ u ∈ U, kv.1 = renderKey u
  dirsBelow : ∀ x ∈ d.dirs, ∃ u ∈ U, Below x u

def UProper (U : List Key) : Prop := ∀ u ∈ U, AllProper u ∧ u ≠ []

def PrefixFree (U : List Key) : Prop := ∀ a ∈ U, ∀ b ∈ U, ¬ Below a b

/-- `k` neither lies strictly below nor strictly above any key of `U`. -/
def Unrelated (U : List Key) (k : Key) : Prop := ∀ u ∈ U, ¬ Below k u ∧ ¬ Below u k

theorem isFile_mem {U : List Key} {d : Disk} (inv : TreeInv U d) (hU : UProper U) {a : Key}
    (ha : AllProper a) (h : isFile d a = true) : a ∈ U := by
  unfold isFile at h
  cases hf : d.files.find (renderKey a) with
  | none => rw [hf] at h; cases h
  | some c =>
    obtain ⟨u, hu, he⟩ := inv.filesIn _ (find_some_mem hf)
    simp only at he
    have := renderKey_inj ha (hU u hu).1 he
    rw [this]; exact hu

theorem no_file_ancestor {U : List Key} {d : Disk} (inv : TreeInv U d) (hU : UProper U)
    {k : Key} (hk : AllProper k) (hno : ∀ u ∈ U, ¬ Below u k) :
    (ancestors k).any (isFile d) = false := by
  cases h : (ancestors k).any (isFile d) with
  | false => rfl
  | true =>
    exfalso
    obtain ⟨a, ha, hfile⟩ := List.any_eq_true.mp h
    obtain ⟨hpre, hne, _⟩ := mem_ancestors ha
    have hap := allProper_of_prefix hk hpre
    exact hno a (isFile_mem inv hU hap hfile) ⟨hpre, hne⟩

theorem not_isDir {U : List Key} {d : Disk} (inv : TreeInv U d) {k : Key}
    (hno : ∀ u ∈ U, ¬ Below k u) : isDir d k = false := by
  cases h : isDir d k with
  | false => rfl
  | true =>
    exfalso
    unfold isDir at h
    have hm : k ∈ d.dirs := by simpa using h
    obtain ⟨u, hu, hb⟩ := inv.dirsBelow k hm
    exact hno u hu hb

theorem underFile_false {U : List Key} {d : Disk} (inv : TreeInv U d) (hU : UProper U)
    (pfx : Str) (k : Key) (hk : AllProper k) (hv : validatePrefix pfx = .ok (renderKey k))
    (hno : ∀ u ∈ U, ¬ Below u k) : underFile d.files pfx = false := by
  unfold underFile
  rw [hv]
  simp only [keyOfPath, cleanComps_renderKey hk]
  have := no_file_ancestor inv hU hk hno
  unfold isFile at this
  exact this

/-- Put of a key of a prefix-free `U`: the tree accepts it exactly like the memory bucket. -/
theorem diskPut_eq_mem {U : List Key} {d : Disk} (inv : TreeInv U d) (hU : UProper U) (hpf : PrefixFree U)
    (path : Str) (c : Content) (k : Key) (hk : AllProper k) (hne : k ≠ [])
    (hv : validatePath path = .ok (renderKey k)) (hkU : k ∈ U) :
    ∃ d', diskPut d path c = .ok d' ∧ memPut d.files path c = .ok d'.files ∧ TreeInv U d' := by
  unfold diskPut memPut
  rw [hv]
  simp only [keyOfPath, cleanComps_renderKey hk]
  have h1 := no_file_ancestor inv hU hk (fun u hu hb => hpf u hu k hkU hb)
  have h2 := not_isDir inv (k := k) (fun u hu hb => hpf k hkU u hu hb)
  simp only [h1, h2, Bool.false_eq_true, if_false]
  refine ⟨_, rfl, rfl, ?_, ?_⟩
  · intro kv hkv
    rcases List.mem_cons.mp hkv with e | hm
    · subst e; exact ⟨k, hkU, rfl⟩
    · exact inv.filesIn kv (List.mem_filter.mp hm).1
  · intro x hx
    rcases mem_addDirs hx with h | h
    · exact inv.dirsBelow x h
    · obtain ⟨hpre, hnek, _⟩ := mem_ancestors h
      exact ⟨k, hkU, hpre, hnek⟩

/-- Delete of a key unrelated to (or equal to a member of) `U`: same answer as the memory bucket. -/
theorem diskDelete_eq_mem {U : List Key} {d : Disk} (inv : TreeInv U d) (hU : UProper U)
    (path : Str) (k : Key) (hk : AllProper k) (hne : k ≠ [])
    (hv : validatePath path = .ok (renderKey k)) (hun : Unrelated U k) :
    (∃ d', diskDelete d path = .ok d' ∧ memDelete d.files path = .ok d'.files ∧ TreeInv U d') ∨
    (diskDelete d path = .error .notExist ∧ memDelete d.files path = .error .notExist) := by
  unfold diskDelete memDelete
  rw [hv]
  simp only [keyOfPath, cleanComps_renderKey hk]
  cases hf : d.files.find (renderKey k) with
  | some c0 =>
    left
    have : isFile d k = true := by unfold isFile; rw [hf]; rfl
    simp only [this, if_true]
    refine ⟨_, rfl, rfl, ?_, inv.dirsBelow⟩
    intro kv hkv
    exact inv.filesIn kv (List.mem_filter.mp hkv).1
  | none =>
    right
    have h0 : isFile d k = false := by unfold isFile; rw [hf]; rfl
    have h1 := no_file_ancestor inv hU hk (fun u hu => (hun u hu).2)
    have h2 := not_isDir inv (k := k) (fun u hu => (hun u hu).1)
    simp only [h0, h1, h2, Bool.false_eq_true, if_false, and_self]

/-- DeleteAll of a prefix that is not strictly below a key of `U`. -/
theorem diskDeleteAll_eq_mem {U : List Key} {d : Disk} (inv : TreeInv U d) (hU : UProper U)
    (pfx : Str) (k : Key) (hk : AllProper k) (hv : validatePrefix pfx = .ok (renderKey k))
    (hno : ∀ u ∈ U, ¬ Below u k) :
    ∃ d', diskDeleteAll d pfx = .ok d' ∧ memDeleteAll d.files pfx = .ok d'.files ∧ TreeInv U d' := by
  have huf := underFile_false inv hU pfx k hk hv hno
  unfold diskDeleteAll memDeleteAll
  rw [hv]
  simp only [huf, Bool.false_eq_true, if_false]
  refine ⟨_, rfl, rfl, ?_, ?_⟩
  · intro kv hkv; exact inv.filesIn kv (List.mem_filter.mp hkv).1
  · intro x hx; exact inv.dirsBelow x (List.mem_filter.mp hx).1

theorem diskWalk_eq_mem {U : List Key} {d : Disk} (inv : TreeInv U d) (hU : UProper U)
    (pfx : Str) (k : Key) (hk : AllProper k) (hv : validatePrefix pfx = .ok (renderKey k))
    (hno : ∀ u ∈ U, ¬ Below u k) : diskWalk d pfx = memWalk d.files pfx := by
  unfold diskWalk
  rw [underFile_false inv hU pfx k hk hv hno]; simp

theorem treeInv_empty (U : List Key) : TreeInv U empty := by
  constructor
  · intro kv h; simp [empty] at h
  · intro x h; simp [empty] at h

end BufModel.Disk
