import BufModel.ImagePaths
/-
  Helper lemmas for C11 (iv): an independent reading of unknown-field bytes as a list of
  top-level fields, and `stripLoop` expressed through it.
-/
namespace BufProofs.WireLemmas
open BufModel.ImagePaths

/-- One top-level field: its number and its raw bytes (tag + value). -/
structure Field where
  num : Nat
  raw : Bytes
  deriving DecidableEq, Repr

/-- Split bytes into top-level fields (`none` = malformed), with the protowire rules of the model. -/
def parseFields : Nat → Bytes → Option (List Field)
  | 0, _ => none
  | fuel + 1, rest =>
    if rest.isEmpty then some []
    else match consumeTag rest with
      | none => none
      | some (num, typ, n) =>
        match consumeFieldValue num typ (rest.drop n) with
        | none => none
        | some m =>
          match parseFields fuel (rest.drop (n + m)) with
          | none => none
          | some fs => some ({ num := num, raw := rest.take (n + m) } :: fs)

def parse (u : Bytes) : Option (List Field) := parseFields (u.length + 1) u

def render (fs : List Field) : Bytes := fs.flatMap (·.raw)

def keep (fs : List Field) : List Field := fs.filter (fun f => f.num ≠ bufExtensionFieldNumber)

theorem stripLoop_eq (fuel : Nat) : ∀ (rest acc : Bytes),
    stripLoop fuel rest acc = (parseFields fuel rest).map (fun fs => acc ++ render (keep fs)) := by
  induction fuel with
  | zero => intro rest acc; rfl
  | succ fuel ih =>
    intro rest acc
    unfold stripLoop parseFields
    by_cases he : rest.isEmpty = true
    · simp [he, render, keep]
    · simp only [he, Bool.false_eq_true, if_false]
      cases ht : consumeTag rest with
      | none => rfl
      | some x =>
        obtain ⟨num, typ, n⟩ := x
        simp only
        cases hv : consumeFieldValue num typ (rest.drop n) with
        | none => rfl
        | some m =>
          simp only
          rw [ih]
          cases hp : parseFields fuel (rest.drop (n + m)) with
          | none => rfl
          | some fs =>
            simp only [Option.map_some]
            by_cases h8 : num = bufExtensionFieldNumber
            · simp [h8, keep, render]
            · simp [h8, keep, render, List.append_assoc]

theorem parseFields_render (fuel : Nat) : ∀ (rest : Bytes) (fs : List Field),
    parseFields fuel rest = some fs → render fs = rest := by
  induction fuel with
  | zero => intro rest fs h; cases h
  | succ fuel ih =>
    intro rest fs h
    unfold parseFields at h
    by_cases he : rest.isEmpty = true
    · simp only [he, if_true] at h
      cases h
      simp [render, List.isEmpty_iff.mp he]
    · simp only [he, Bool.false_eq_true, if_false] at h
      cases ht : consumeTag rest with
      | none => rw [ht] at h; cases h
      | some x =>
        obtain ⟨num, typ, n⟩ := x
        rw [ht] at h
        simp only at h
        cases hv : consumeFieldValue num typ (rest.drop n) with
        | none => rw [hv] at h; cases h
        | some m =>
          rw [hv] at h
          simp only at h
          cases hp : parseFields fuel (rest.drop (n + m)) with
          | none => rw [hp] at h; cases h
          | some fs' =>
            rw [hp] at h
            cases h
            have := ih _ _ hp
            simp only [render, List.flatMap_cons] at this ⊢
            rw [this, List.take_append_drop]

end BufProofs.WireLemmas
