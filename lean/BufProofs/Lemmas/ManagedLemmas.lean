import BufModel.Managed
/-
  Helper lemmas for C18 (managed mode).
-/
namespace BufProofs.ManagedLemmas
open BufModel.Managed

/-- pointwise relation between two lists of the same length. -/
def AllRel {α β : Type} (R : α → β → Prop) : List α → List β → Prop
  | [], [] => True
  | a :: as, b :: bs => R a b ∧ AllRel R as bs
  | _, _ => False

theorem AllRel.mono {α β : Type} {R S : α → β → Prop} (h : ∀ a b, R a b → S a b) :
    ∀ {l : List α} {l' : List β}, AllRel R l l' → AllRel S l l'
  | [], [], _ => trivial
  | _ :: _, _ :: _, ⟨h1, h2⟩ => ⟨h _ _ h1, AllRel.mono h h2⟩
  | [], _ :: _, hf => hf.elim
  | _ :: _, [], hf => hf.elim

theorem AllRel.map_self {α β : Type} {R : α → β → Prop} (g : α → β) (h : ∀ a, R a (g a)) :
    ∀ l : List α, AllRel R l (l.map g)
  | [] => trivial
  | a :: as => ⟨h a, AllRel.map_self g h as⟩

theorem AllRel.map_left {α β γ : Type} {R : β → γ → Prop} (g : α → β) :
    ∀ {l : List α} {l' : List γ}, AllRel R (l.map g) l' → AllRel (fun a c => R (g a) c) l l'
  | [], [], _ => trivial
  | _ :: _, _ :: _, ⟨h1, h2⟩ => ⟨h1, AllRel.map_left g h2⟩
  | [], _ :: _, hf => hf.elim
  | _ :: _, [], hf => hf.elim

theorem AllRel.length_eq {α β : Type} {R : α → β → Prop} :
    ∀ {l : List α} {l' : List β}, AllRel R l l' → l.length = l'.length
  | [], [], _ => rfl
  | _ :: _, _ :: _, ⟨_, h2⟩ => by simp [AllRel.length_eq h2]
  | [], _ :: _, hf => hf.elim
  | _ :: _, [], hf => hf.elim

theorem AllRel.get {α β : Type} {R : α → β → Prop} :
    ∀ {l : List α} {l' : List β}, AllRel R l l' →
      ∀ (i : Nat) (a : α) (b : β), l[i]? = some a → l'[i]? = some b → R a b
  | [], [], _ => by intro i a b h; simp at h
  | x :: xs, y :: ys, ⟨h1, h2⟩ => by
      intro i a b ha hb
      cases i with
      | zero => simp at ha hb; subst ha; subst hb; exact h1
      | succ n => simp at ha hb; exact AllRel.get h2 n a b ha hb
  | [], _ :: _, hf => hf.elim
  | _ :: _, [], hf => hf.elim


theorem removeIndices_sublist (locs : List Loc) (rm : List Nat) :
    (removeIndices locs rm).Sublist locs := by
  unfold removeIndices
  have h1 : ((locs.zipIdx.filter fun p => !rm.contains p.2).map (·.1)).Sublist (locs.zipIdx.map (·.1)) :=
    List.Sublist.map _ List.filter_sublist
  simpa using h1

theorem sweepLocs_sublist {fixed : Bool} {mk : List (List Nat)} {locs l : List Loc}
    (h : sweepLocs fixed mk locs = some l) : l.Sublist locs := by
  unfold sweepLocs at h
  split at h
  · cases h; exact List.Sublist.refl _
  · cases hs : sweepRemoved fixed mk locs with
    | none => simp [hs] at h
    | some rm => simp [hs] at h; subst h; exact removeIndices_sublist _ _

/-- what `sweepAll` does to one (already modified) file. -/
def SweptOr (fixed : Bool) (p : File × List (List Nat)) (f' : File) : Prop :=
  ∃ l, f' = { p.1 with locs := l } ∧ (l = p.1.locs ∨ sweepLocs fixed p.2 p.1.locs = some l)

theorem sweepAll_rel (fixed : Bool) :
    ∀ l : List (File × List (List Nat)), AllRel (SweptOr fixed) l (sweepAll fixed l).files
  | [] => trivial
  | (f, mk) :: rest => by
    unfold sweepAll
    split
    · refine ⟨⟨f.locs, rfl, Or.inl rfl⟩, ?_⟩
      exact AllRel.map_self _ (fun p => ⟨p.1.locs, rfl, Or.inl rfl⟩) rest
    · rename_i l hl
      exact ⟨⟨l, rfl, Or.inr hl⟩, sweepAll_rel fixed rest⟩

def Swept (fixed : Bool) (p : File × List (List Nat)) (f' : File) : Prop :=
  ∃ l, f' = { p.1 with locs := l } ∧ sweepLocs fixed p.2 p.1.locs = some l

theorem sweepAll_ok (fixed : Bool) :
    ∀ l : List (File × List (List Nat)), (sweepAll fixed l).err = false →
      AllRel (Swept fixed) l (sweepAll fixed l).files
  | [], _ => trivial
  | (f, mk) :: rest, h => by
    unfold sweepAll at h ⊢
    split
    · rename_i hn; simp [hn] at h
    · rename_i l hl
      simp [hl] at h
      exact ⟨⟨l, rfl, hl⟩, sweepAll_ok fixed rest h⟩


/-- relation between an input file and the corresponding output file of `modifyWith`. -/
def OutRel (fixed preserve : Bool) (cfg : Config) (f f' : File) : Prop :=
  SweptOr fixed (modifyOptions preserve cfg f, fileMarks preserve cfg f) f'

theorem modifyWith_rel (fixed preserve : Bool) (cfg : Config) (img : List File)
    (h : cfg.enabled = true) :
    AllRel (OutRel fixed preserve cfg) img (modifyWith fixed preserve cfg img).files := by
  unfold modifyWith
  simp only [h, Bool.not_true, Bool.false_eq_true, ↓reduceIte]
  exact AllRel.map_left (fun f => (modifyOptions preserve cfg f, fileMarks preserve cfg f)) (sweepAll_rel fixed _)

theorem modifyWith_ok (fixed preserve : Bool) (cfg : Config) (img : List File)
    (h : cfg.enabled = true) (he : (modifyWith fixed preserve cfg img).err = false) :
    AllRel (fun f f' => Swept fixed (modifyOptions preserve cfg f, fileMarks preserve cfg f) f')
      img (modifyWith fixed preserve cfg img).files := by
  unfold modifyWith at he ⊢
  simp only [h, Bool.not_true, Bool.false_eq_true, ↓reduceIte] at he ⊢
  exact AllRel.map_left (fun f => (modifyOptions preserve cfg f, fileMarks preserve cfg f)) (sweepAll_ok fixed _ he)


theorem drop_cons_get {α : Type} {l : List α} {i : Nat} {x : α} {xs : List α}
    (h : l.drop i = x :: xs) : l[i]? = some x ∧ l.drop (i + 1) = xs := by
  induction l generalizing i with
  | nil => simp at h
  | cons a as ih =>
    cases i with
    | zero => simp at h; simp [h.1, h.2]
    | succ n => simp at h; simpa using ih h

/-- loop invariant of `sweepLoop` w.r.t. the whole location list `all`, after the first `i`
    locations have been processed. -/
structure SweepInv (mk : List (List Nat)) (all : List Loc) (i : Nat) (st : SweepSt) : Prop where
  removedOk : ∀ k ∈ st.removed,
    (∃ loc : Loc, all[k]? = some loc ∧ loc.path ∈ mk) ∨
    (∃ loc : Loc, all[k + 1]? = some loc ∧ loc.path ∈ mk ∧ isFileOptPath loc.path = true)
  trieOk : ∀ e ∈ st.trie,
    (∃ loc : Loc, all[e.index]? = some loc ∧ loc.path = e.path) ∧ pathType e.path = .fieldOptionsRoot ∧
    (e.hit = true → ∃ (j : Nat) (loc : Loc), all[j]? = some loc ∧ loc.path ∈ mk ∧ properPrefix e.path loc.path = true)
  complete : ∀ k, k < i → ∀ loc : Loc, all[k]? = some loc → loc.path ∈ mk → k ∈ st.removed
  parents : ∀ k, k + 1 < i → ∀ loc : Loc, all[k + 1]? = some loc → loc.path ∈ mk →
    isFileOptPath loc.path = true → k ∈ st.removed

theorem trieUpd_mem (g : TEntry → TEntry) :
    ∀ (t : List TEntry) (d : List Nat) (e' : TEntry), e' ∈ trieUpdAncestor g t d →
      e' ∈ t ∨ ∃ e ∈ t, e' = g e ∧ properPrefix e.path d = true
  | [], _, e', h => by simp [trieUpdAncestor] at h
  | e :: es, d, e', h => by
    unfold trieUpdAncestor at h
    split at h
    · rename_i hp
      rcases List.mem_cons.mp h with rfl | h2
      · exact Or.inr ⟨e, by simp, rfl, hp⟩
      · exact Or.inl (by simp [h2])
    · rcases List.mem_cons.mp h with rfl | h2
      · exact Or.inl (by simp)
      · rcases trieUpd_mem g es d e' h2 with h3 | ⟨e0, h4, h5⟩
        · exact Or.inl (by simp [h3])
        · exact Or.inr ⟨e0, by simp [h4], h5⟩

theorem trieInsert_mem (t : List TEntry) (p : List Nat) (i : Nat) (e' : TEntry)
    (h : e' ∈ trieInsert t p i) :
    e' ∈ t ∨ (e'.path = p ∧ e'.index = i ∧ (e' = ⟨p, i, 0, false⟩ ∨ ∃ e ∈ t, e' = { e with index := i })) := by
  unfold trieInsert at h
  split at h
  · obtain ⟨e, he, rfl⟩ := List.mem_map.mp h
    by_cases hp : e.path = p
    · simp only [hp, ↓reduceIte]
      exact Or.inr ⟨trivial, trivial, Or.inr ⟨e, he, by simp [hp]⟩⟩
    · simp only [hp, ↓reduceIte]; exact Or.inl he
  · rcases List.mem_append.mp h with h1 | h1
    · exact Or.inl h1
    · simp at h1; subst h1; exact Or.inr ⟨rfl, rfl, Or.inl rfl⟩

theorem insertRoot_inv {mk : List (List Nat)} {all : List Loc} {i : Nat} {st : SweepSt} {loc : Loc}
    (hget : all[i]? = some loc) (inv : SweepInv mk all i st) : SweepInv mk all i (insertRoot st loc i) := by
  unfold insertRoot
  split
  · rename_i hroot
    refine ⟨inv.removedOk, ?_, inv.complete, inv.parents⟩
    intro e he
    rcases trieInsert_mem _ _ _ _ he with h1 | ⟨hp, hi, h2⟩
    · exact inv.trieOk e h1
    · refine ⟨⟨loc, by rw [hi]; exact hget, hp.symm⟩, by rw [hp]; exact hroot, ?_⟩
      rcases h2 with rfl | ⟨e0, he0, rfl⟩
      · intro hh; simp at hh
      · intro hh; exact (inv.trieOk e0 he0).2.2 hh
  · exact inv

theorem sweepLoop_inv (mk : List (List Nat)) (all : List Loc) :
    ∀ (rest : List Loc) (i : Nat) (prev : Option (List Nat)) (st st' : SweepSt),
      all.drop i = rest → SweepInv mk all i st → sweepLoop mk i prev rest st = some st' →
      SweepInv mk all all.length st'
  | [], i, prev, st, st', hdrop, inv, h => by
    unfold sweepLoop at h; cases h
    have hi : all.length ≤ i := by
      have := congrArg List.length hdrop; simp at this; omega
    exact ⟨inv.removedOk, inv.trieOk, fun k hk loc hl hm => by
      have : k < all.length := by
        rcases Nat.lt_or_ge k all.length with h1 | h1
        · exact h1
        · simp [List.getElem?_eq_none h1] at hl
      exact inv.complete k (by omega) loc hl hm, fun k hk loc hl hm hf => by
      have : k + 1 < all.length := by
        rcases Nat.lt_or_ge (k + 1) all.length with h1 | h1
        · exact h1
        · simp [List.getElem?_eq_none h1] at hl
      exact inv.parents k (by omega) loc hl hm hf⟩
  | loc :: rest, i, prev, st, st', hdrop, inv, h => by
    obtain ⟨hget, hdrop'⟩ := drop_cons_get hdrop
    unfold sweepLoop at h
    have inv1 := insertRoot_inv hget inv
    generalize insertRoot st loc i = st1 at h inv1
    by_cases hmk : mk.contains loc.path = true
    · have hmem : loc.path ∈ mk := by simpa using hmk
      simp only [hmk, Bool.not_true, Bool.false_eq_true, ↓reduceIte] at h
      split at h; · cases h
      rename_i hi0
      split at h
      · rename_i hfo
        split at h; · cases h
        refine sweepLoop_inv mk all rest (i + 1) _
          { trie := st1.trie, removed := i :: (i - 1) :: st1.removed } st' hdrop' ⟨?_, inv1.trieOk, ?_, ?_⟩ h
        · intro k hk
          simp only [List.mem_cons] at hk
          rcases hk with rfl | rfl | hk
          · exact Or.inl ⟨loc, hget, hmem⟩
          · refine Or.inr ⟨loc, ?_, hmem, hfo⟩
            have : i - 1 + 1 = i := by omega
            rw [this]; exact hget
          · exact inv1.removedOk k hk
        · intro k hk l hl hm
          by_cases hki : k = i
          · subst hki; simp
          · simp only [List.mem_cons]
            exact Or.inr (Or.inr (inv1.complete k (by omega) l hl hm))
        · intro k hk l hl hm hf
          by_cases hki : k + 1 = i
          · have : k = i - 1 := by omega
            subst this; simp
          · simp only [List.mem_cons]
            exact Or.inr (Or.inr (inv1.parents k (by omega) l hl hm hf))
      · rename_i hfo
        split at h
        · refine sweepLoop_inv mk all rest (i + 1) _ _ st' hdrop' ⟨?_, ?_, ?_, ?_⟩ h
          · intro k hk
            simp only [List.mem_cons] at hk
            rcases hk with rfl | hk
            · exact Or.inl ⟨loc, hget, hmem⟩
            · exact inv1.removedOk k hk
          · intro e he
            rcases trieUpd_mem _ _ _ _ he with h1 | ⟨e0, he0, rfl, hpp⟩
            · exact inv1.trieOk e h1
            · obtain ⟨a, b, _⟩ := inv1.trieOk e0 he0
              exact ⟨a, b, fun _ => ⟨i, loc, hget, hmem, hpp⟩⟩
          · intro k hk l hl hm
            by_cases hki : k = i
            · subst hki; simp
            · simp only [List.mem_cons]
              exact Or.inr (inv1.complete k (by omega) l hl hm)
          · intro k hk l hl hm hf
            by_cases hki : k + 1 = i
            · subst hki; rw [hget] at hl; cases hl; exact absurd hf hfo
            · simp only [List.mem_cons]
              exact Or.inr (inv1.parents k (by omega) l hl hm hf)
        · cases h
    · have hnmem : loc.path ∉ mk := by simpa using hmk
      simp only [hmk, Bool.not_false, ↓reduceIte] at h
      refine sweepLoop_inv mk all rest (i + 1) _ _ st' hdrop' ⟨?_, ?_, ?_, ?_⟩ h
      · unfold registerKept; split
        · exact inv1.removedOk
        · exact inv1.removedOk
      · unfold registerKept; split
        · intro e he
          rcases trieUpd_mem _ _ _ _ he with h1 | ⟨e0, he0, rfl, _⟩
          · exact inv1.trieOk e h1
          · exact inv1.trieOk e0 he0
        · exact inv1.trieOk
      · intro k hk l hl hm
        by_cases hki : k = i
        · subst hki; rw [hget] at hl; cases hl; exact absurd hm hnmem
        · have := inv1.complete k (by omega) l hl hm
          unfold registerKept; split <;> exact this
      · intro k hk l hl hm hf
        by_cases hki : k + 1 = i
        · subst hki; rw [hget] at hl; cases hl; exact absurd hm hnmem
        · have := inv1.parents k (by omega) l hl hm hf
          unfold registerKept; split <;> exact this


/-! ### options messages as lists by field number -/

theorem getOpt_setOpt_same (n : Nat) (v : OVal) : ∀ os : Opts, getOpt n (setOpt n v os) = some v
  | [] => by simp [setOpt, getOpt]
  | (k, w) :: rest => by
    unfold setOpt
    by_cases h : k = n
    · simp [h, getOpt]
    · simp [h, getOpt, getOpt_setOpt_same n v rest]

theorem getOpt_setOpt_ne {n m : Nat} (v : OVal) (h : m ≠ n) :
    ∀ os : Opts, getOpt n (setOpt m v os) = getOpt n os
  | [] => by simp [setOpt, getOpt, h]
  | (k, w) :: rest => by
    unfold setOpt
    by_cases hk : k = m
    · subst hk; simp [getOpt, h]
    · by_cases hn : k = n
      · subst hn; simp [hk, getOpt]
      · simp [hk, getOpt, hn, getOpt_setOpt_ne v h rest]

/-! ### the modifiers in "parallel" form -/

/-- the writes of the twelve file-option modifiers, each decided on the INPUT file. -/
def fileChanges (preserve : Bool) (cfg : Config) (f : File) (gs : List Gov) : List (Nat × OVal) :=
  gs.filterMap fun g => (govChange preserve cfg f g).map fun v => (g.tag, v)

def setAll (cs : List (Nat × OVal)) (os : Opts) : Opts := cs.foldl (fun os c => setOpt c.1 c.2 os) os

/-- the thirteen modifiers, each reading the input file. -/
def applyOptions (preserve : Bool) (cfg : Config) (f : File) : File :=
  { f with opts := setAll (fileChanges preserve cfg f Gov.all) f.opts
           fields := f.fields.map (applyField preserve cfg f) }

def marks (preserve : Bool) (cfg : Config) (f : File) : List (List Nat) :=
  (fileChanges preserve cfg f Gov.all).map (fun c => [8, c.1]) ++ jsMarks preserve cfg f

/-- two files that agree on path, package and module. -/
def SameKey (f g : File) : Prop := g.path = f.path ∧ g.pkg = f.pkg ∧ g.module = f.module

theorem fileMatch_congr {f g : File} (h : SameKey f g) (p m : List Char) : fileMatch g p m = fileMatch f p m := by
  unfold fileMatch; rw [h.1, h.2.2]

theorem isFileOptionDisabled_congr {f g : File} (h : SameKey f g) (cfg : Config) (o : FileOption) :
    isFileOptionDisabled cfg g o = isFileOptionDisabled cfg f o := by
  unfold isFileOptionDisabled; simp only [fileMatch_congr h]

theorem lastOverride_congr {f g : File} (h : SameKey f g) (cfg : Config) (o : FileOption) :
    lastOverride cfg g o = lastOverride cfg f o := by
  unfold lastOverride; simp only [fileMatch_congr h]

theorem jocv_congr {f g : File} (h : SameKey f g) : javaOuterClassnameValue g = javaOuterClassnameValue f := by
  unfold javaOuterClassnameValue; rw [h.1]
theorem objc_congr {f g : File} (h : SameKey f g) : objcClassPrefixValue g = objcClassPrefixValue f := by
  unfold objcClassPrefixValue; rw [h.2.1]
theorem csharp_congr {f g : File} (h : SameKey f g) : csharpNamespaceValue g = csharpNamespaceValue f := by
  unfold csharpNamespaceValue; rw [h.2.1]
theorem php_congr {f g : File} (h : SameKey f g) : phpNamespaceValue g = phpNamespaceValue f := by
  unfold phpNamespaceValue; rw [h.2.1]
theorem phpMeta_congr {f g : File} (h : SameKey f g) : phpMetadataNamespaceValue g = phpMetadataNamespaceValue f := by
  unfold phpMetadataNamespaceValue; rw [php_congr h]
theorem ruby_congr {f g : File} (h : SameKey f g) : rubyPackageValue g = rubyPackageValue f := by
  unfold rubyPackageValue; rw [h.2.1]
theorem goImport_congr {f g : File} (h : SameKey f g) (p : List Char) : goPackageImportPath g p = goPackageImportPath f p := by
  unfold goPackageImportPath; rw [h.1, h.2.1]

theorem defaultSOO_congr {f g : File} (h : SameKey f g) (o : StrOpt) : o.defaultSOO g = o.defaultSOO f := by
  cases o <;> unfold StrOpt.defaultSOO <;>
    simp only [jocv_congr h, objc_congr h, csharp_congr h, php_congr h, phpMeta_congr h, ruby_congr h]

theorem valueFunc_congr {f g : File} (h : SameKey f g) (o : StrOpt) (s : SOO) : o.valueFunc g s = o.valueFunc f s := by
  cases o <;> unfold StrOpt.valueFunc <;>
    simp only [getJavaPackageValue, getCsharpNamespaceValue, getPhpMetadataNamespaceValue, getRubyPackageValue,
      jocv_congr h, objc_congr h, csharp_congr h, php_congr h, ruby_congr h, goImport_congr h, h.2.1]

theorem strTarget_congr {f g : File} (h : SameKey f g) (cfg : Config) (o : StrOpt) :
    strTarget cfg g o = strTarget cfg f o := by
  unfold strTarget stringOverride sooStep
  simp only [fileMatch_congr h, isFileOptionDisabled_congr h, defaultSOO_congr h, valueFunc_congr h]

theorem boolTarget_congr {f g : File} (h : SameKey f g) (cfg : Config) (o : BoolOpt) :
    boolTarget cfg g o = boolTarget cfg f o := by
  unfold boolTarget; simp only [isFileOptionDisabled_congr h, lastOverride_congr h]

theorem optimizeTarget_congr {f g : File} (h : SameKey f g) (cfg : Config) :
    optimizeTarget cfg g = optimizeTarget cfg f := by
  unfold optimizeTarget; simp only [isFileOptionDisabled_congr h, lastOverride_congr h]

theorem jsOverrides_congr {f g : File} (h : SameKey f g) (cfg : Config) : jsOverrides cfg g = jsOverrides cfg f := by
  unfold jsOverrides; simp only [fileMatch_congr h]

theorem jsDisables_congr {f g : File} (h : SameKey f g) (cfg : Config) : jsDisables cfg g = jsDisables cfg f := by
  unfold jsDisables; simp only [fileMatch_congr h]

theorem jsFileActive_congr {f g : File} (h : SameKey f g) (cfg : Config) : jsFileActive cfg g = jsFileActive cfg f := by
  unfold jsFileActive; rw [jsOverrides_congr h, jsDisables_congr h, h.1]

theorem jsTarget_congr {f g : File} (h : SameKey f g) (cfg : Config) (n : List Char) : jsTarget cfg g n = jsTarget cfg f n := by
  unfold jsTarget; rw [jsOverrides_congr h]

theorem jsChange_congr {f g : File} (h : SameKey f g) (p : Bool) (cfg : Config) (fd : Field) :
    jsChange p cfg g fd = jsChange p cfg f fd := by
  unfold jsChange
  simp only [jsFileActive_congr h, jsDisables_congr h, jsTarget_congr h]

theorem applyField_congr {f g : File} (h : SameKey f g) (p : Bool) (cfg : Config) (fd : Field) :
    applyField p cfg g fd = applyField p cfg f fd := by
  unfold applyField; rw [jsChange_congr h]

theorem jsMarks_congr {f g : File} (h : SameKey f g) (hf : g.fields = f.fields) (p : Bool) (cfg : Config) :
    jsMarks p cfg g = jsMarks p cfg f := by
  unfold jsMarks; simp only [jsChange_congr h, hf]

/-- each file-option modifier reads the file only through path / package / module and the
    current value of ITS OWN option. -/
theorem govChange_congr {f c : File} (h : SameKey f c) (p : Bool) (cfg : Config) (g : Gov)
    (ho : getOpt g.tag c.opts = getOpt g.tag f.opts) : govChange p cfg c g = govChange p cfg f g := by
  cases g with
  | str o =>
    have : c.strOpts o = f.strOpts o := by unfold File.strOpts; rw [show getOpt o.tag c.opts = getOpt o.tag f.opts from ho]
    show (strChange p cfg c o).map OVal.str = (strChange p cfg f o).map OVal.str
    unfold strChange; rw [this, strTarget_congr h]
  | bool o =>
    have : c.boolOpts o = f.boolOpts o := by unfold File.boolOpts; rw [show getOpt o.tag c.opts = getOpt o.tag f.opts from ho]
    show (boolChange p cfg c o).map OVal.bool = (boolChange p cfg f o).map OVal.bool
    unfold boolChange; rw [this, boolTarget_congr h]
  | optimize =>
    have : c.optimizeFor = f.optimizeFor := by unfold File.optimizeFor; rw [show getOpt optimizeForTag c.opts = getOpt optimizeForTag f.opts from ho]
    show (optimizeChange p cfg c).map OVal.num = (optimizeChange p cfg f).map OVal.num
    unfold optimizeChange; rw [this, optimizeTarget_congr h]

theorem Gov.tag_inj : ∀ g g' : Gov, g.tag = g'.tag → g = g' := by
  intro g g' h
  cases g with
  | str o => cases g' with
    | str o' => cases o <;> cases o' <;> first | rfl | (exact absurd h (by decide))
    | bool o' => cases o <;> cases o' <;> exact absurd h (by decide)
    | optimize => cases o <;> exact absurd h (by decide)
  | bool o => cases g' with
    | str o' => cases o <;> cases o' <;> exact absurd h (by decide)
    | bool o' => cases o <;> cases o' <;> first | rfl | (exact absurd h (by decide))
    | optimize => cases o <;> exact absurd h (by decide)
  | optimize => cases g' with
    | str o' => cases o' <;> exact absurd h (by decide)
    | bool o' => cases o' <;> exact absurd h (by decide)
    | optimize => rfl

theorem Gov.all_nodup : Gov.all.Nodup := by decide
theorem Gov.mem_all : ∀ g : Gov, g ∈ Gov.all := by
  intro g; cases g with
  | str o => cases o <;> decide
  | bool o => cases o <;> decide
  | optimize => decide


theorem getOpt_setAll_other (n : Nat) :
    ∀ (cs : List (Nat × OVal)) (os : Opts), (∀ c ∈ cs, c.1 ≠ n) → getOpt n (setAll cs os) = getOpt n os
  | [], _, _ => rfl
  | c :: cs, os, h => by
    show getOpt n (setAll cs (setOpt c.1 c.2 os)) = _
    rw [getOpt_setAll_other n cs _ (fun c' hc' => h c' (by simp [hc']))]
    exact getOpt_setOpt_ne _ (h c (by simp)) _

theorem mem_fileChanges {p : Bool} {cfg : Config} {f : File} {gs : List Gov} {c : Nat × OVal} :
    c ∈ fileChanges p cfg f gs ↔ ∃ g ∈ gs, govChange p cfg f g = some c.2 ∧ g.tag = c.1 := by
  unfold fileChanges
  simp only [List.mem_filterMap, Option.map_eq_some_iff]
  constructor
  · rintro ⟨g, hg, v, hv, rfl⟩; exact ⟨g, hg, hv, rfl⟩
  · rintro ⟨g, hg, hv, ht⟩; exact ⟨g, hg, c.2, hv, by rw [ht]⟩

/-- the value of field number `n` after the file-option modifiers: if `n` is the number of
    governed option `g ∈ gs` that decided to write `v`, it is `v`; otherwise it is unchanged. -/
theorem getOpt_setAll_changes (p : Bool) (cfg : Config) (f : File) :
    ∀ (gs : List Gov) (os : Opts), gs.Nodup → ∀ g ∈ gs,
      getOpt g.tag (setAll (fileChanges p cfg f gs) os) = (govChange p cfg f g).or (getOpt g.tag os)
  | [], _, _, g, hg => by simp at hg
  | g0 :: gs, os, hnd, g, hg => by
    have hnd' : gs.Nodup := (List.nodup_cons.mp hnd).2
    have hnot : g0 ∉ gs := (List.nodup_cons.mp hnd).1
    by_cases hgg : g = g0
    · subst hgg
      have hrest : ∀ c ∈ fileChanges p cfg f gs, c.1 ≠ g.tag := by
        intro c hc
        obtain ⟨g', hg', _, ht⟩ := mem_fileChanges.mp hc
        intro he
        have : g' = g := Gov.tag_inj _ _ (by rw [ht, he])
        exact hnot (this ▸ hg')
      cases hc : govChange p cfg f g with
      | none =>
        have : fileChanges p cfg f (g :: gs) = fileChanges p cfg f gs := by
          unfold fileChanges; simp [hc]
        rw [this, getOpt_setAll_other _ _ _ hrest]; simp
      | some v =>
        have : fileChanges p cfg f (g :: gs) = (g.tag, v) :: fileChanges p cfg f gs := by
          unfold fileChanges; simp [hc]
        rw [this]
        show getOpt g.tag (setAll (fileChanges p cfg f gs) (setOpt g.tag v os)) = _
        rw [getOpt_setAll_other _ _ _ hrest, getOpt_setOpt_same]; simp
    · have hg' : g ∈ gs := by
        rcases List.mem_cons.mp hg with h | h
        · exact absurd h hgg
        · exact h
      have hne : g0.tag ≠ g.tag := fun he => hgg (Gov.tag_inj _ _ he.symm)
      cases hc : govChange p cfg f g0 with
      | none =>
        have : fileChanges p cfg f (g0 :: gs) = fileChanges p cfg f gs := by
          unfold fileChanges; simp [hc]
        rw [this]; exact getOpt_setAll_changes p cfg f gs os hnd' g hg'
      | some v =>
        have : fileChanges p cfg f (g0 :: gs) = (g0.tag, v) :: fileChanges p cfg f gs := by
          unfold fileChanges; simp [hc]
        rw [this]
        show getOpt g.tag (setAll (fileChanges p cfg f gs) (setOpt g0.tag v os)) = _
        rw [getOpt_setAll_changes p cfg f gs _ hnd' g hg', getOpt_setOpt_ne _ hne]

theorem getOpt_applyOptions_gov (p : Bool) (cfg : Config) (f : File) (g : Gov) :
    getOpt g.tag (applyOptions p cfg f).opts = (govChange p cfg f g).or (getOpt g.tag f.opts) :=
  getOpt_setAll_changes p cfg f Gov.all f.opts Gov.all_nodup g (Gov.mem_all g)

theorem getOpt_applyOptions_other (p : Bool) (cfg : Config) (f : File) (n : Nat)
    (h : ∀ g : Gov, g.tag ≠ n) : getOpt n (applyOptions p cfg f).opts = getOpt n f.opts := by
  apply getOpt_setAll_other
  intro c hc
  obtain ⟨g, _, _, ht⟩ := mem_fileChanges.mp hc
  rw [← ht]; exact h g

/-- the sequential run of the twelve modifiers (each reading the file as the previous ones
    left it) computes the same as deciding every option on the input file. -/
theorem foldl_stepGov (p : Bool) (cfg : Config) (f : File) :
    ∀ (gs : List Gov) (c : File) (mk : List (List Nat)), gs.Nodup → SameKey f c →
      (∀ g ∈ gs, getOpt g.tag c.opts = getOpt g.tag f.opts) →
      gs.foldl (stepGov p cfg) (c, mk) =
        ({ c with opts := setAll (fileChanges p cfg f gs) c.opts },
         mk ++ (fileChanges p cfg f gs).map (fun ch => [8, ch.1]))
  | [], c, mk, _, _, _ => by simp [fileChanges, setAll]
  | g :: gs, c, mk, hnd, hk, ho => by
    have hnd' : gs.Nodup := (List.nodup_cons.mp hnd).2
    have hnot : g ∉ gs := (List.nodup_cons.mp hnd).1
    have hcg : govChange p cfg c g = govChange p cfg f g := govChange_congr hk p cfg g (ho g (by simp))
    have hstep : stepGov p cfg (c, mk) g =
        match govChange p cfg f g with
        | some v => ({ c with opts := setOpt g.tag v c.opts }, mk ++ [[8, g.tag]])
        | none => (c, mk) := by
      unfold stepGov; simp only [hcg]; cases govChange p cfg f g <;> rfl
    simp only [List.foldl_cons]
    rw [hstep]
    cases hc : govChange p cfg f g with
    | none =>
      have : fileChanges p cfg f (g :: gs) = fileChanges p cfg f gs := by
        unfold fileChanges; simp [hc]
      rw [this]
      exact foldl_stepGov p cfg f gs c mk hnd' hk (fun g' hg' => ho g' (by simp [hg']))
    | some v =>
      have : fileChanges p cfg f (g :: gs) = (g.tag, v) :: fileChanges p cfg f gs := by
        unfold fileChanges; simp [hc]
      rw [this]
      simp only
      rw [foldl_stepGov p cfg f gs _ _ hnd' (show SameKey f { c with opts := setOpt g.tag v c.opts } from hk)
        (fun g' hg' => by
          have hne : g.tag ≠ g'.tag := fun he => hnot ((Gov.tag_inj _ _ he) ▸ hg')
          show getOpt g'.tag (setOpt g.tag v c.opts) = _
          rw [getOpt_setOpt_ne _ hne]; exact ho g' (by simp [hg']))]
      simp [setAll]

theorem modifyFile_eq (p : Bool) (cfg : Config) (f : File) :
    modifyFile p cfg f = (applyOptions p cfg f, marks p cfg f) := by
  unfold modifyFile
  rw [foldl_stepGov p cfg f Gov.all f [] Gov.all_nodup ⟨rfl, rfl, rfl⟩ (fun _ _ => rfl)]
  have hk : SameKey f { f with opts := setAll (fileChanges p cfg f Gov.all) f.opts } := ⟨rfl, rfl, rfl⟩
  simp only [List.nil_append]
  unfold applyOptions marks
  rw [jsMarks_congr hk rfl]
  congr 2

theorem modifyOptions_eq (p : Bool) (cfg : Config) (f : File) :
    modifyOptions p cfg f = if isWKT f.path then f else applyOptions p cfg f := by
  unfold modifyOptions; rw [modifyFile_eq]

theorem fileMarks_eq (p : Bool) (cfg : Config) (f : File) :
    fileMarks p cfg f = if isWKT f.path then [] else marks p cfg f := by
  unfold fileMarks; rw [modifyFile_eq]


/-! ### typed views of the modifiers' output -/

theorem applyOptions_strOpts (p : Bool) (cfg : Config) (f : File) (o : StrOpt) :
    (applyOptions p cfg f).strOpts o =
      match strChange p cfg f o with | some v => some v | none => f.strOpts o := by
  unfold File.strOpts
  rw [show o.tag = (Gov.str o).tag from rfl, getOpt_applyOptions_gov]
  have hg : govChange p cfg f (Gov.str o) = (strChange p cfg f o).map OVal.str := rfl
  rw [hg]
  cases strChange p cfg f o <;> simp

theorem applyOptions_boolOpts (p : Bool) (cfg : Config) (f : File) (o : BoolOpt) :
    (applyOptions p cfg f).boolOpts o =
      match boolChange p cfg f o with | some v => some v | none => f.boolOpts o := by
  unfold File.boolOpts
  rw [show o.tag = (Gov.bool o).tag from rfl, getOpt_applyOptions_gov]
  have hg : govChange p cfg f (Gov.bool o) = (boolChange p cfg f o).map OVal.bool := rfl
  rw [hg]
  cases boolChange p cfg f o <;> simp

theorem applyOptions_optimizeFor (p : Bool) (cfg : Config) (f : File) :
    (applyOptions p cfg f).optimizeFor =
      match optimizeChange p cfg f with | some v => some v | none => f.optimizeFor := by
  unfold File.optimizeFor
  rw [show optimizeForTag = Gov.optimize.tag from rfl, getOpt_applyOptions_gov]
  have hg : govChange p cfg f Gov.optimize = (optimizeChange p cfg f).map OVal.num := rfl
  rw [hg]
  cases optimizeChange p cfg f <;> simp

theorem applyField_jstype (p : Bool) (cfg : Config) (f : File) (fd : Field) :
    (applyField p cfg f fd).jstype =
      match jsChange p cfg f fd with | some v => some v | none => fd.jstype := by
  unfold applyField
  cases jsChange p cfg f fd with
  | none => rfl
  | some v => simp only; unfold Field.jstype; simp only [getOpt_setOpt_same]

theorem applyField_getOpt_other (p : Bool) (cfg : Config) (f : File) (fd : Field) (n : Nat)
    (h : n ≠ jstypeTag) : getOpt n (applyField p cfg f fd).opts = getOpt n fd.opts := by
  unfold applyField
  cases jsChange p cfg f fd with
  | none => rfl
  | some v => exact getOpt_setOpt_ne _ (Ne.symm h) _

theorem applyField_getOpt_js (p : Bool) (cfg : Config) (f : File) (fd : Field) :
    getOpt jstypeTag (applyField p cfg f fd).opts =
      ((jsChange p cfg f fd).map OVal.num).or (getOpt jstypeTag fd.opts) := by
  unfold applyField
  cases jsChange p cfg f fd with
  | none => simp
  | some v => simp [getOpt_setOpt_same]

/-! ### a modifier writes only a value different from the one present -/

theorem govChange_ne (p : Bool) (cfg : Config) (f : File) (g : Gov) (v : OVal)
    (h : govChange p cfg f g = some v) : getOpt g.tag f.opts ≠ some v := by
  intro he
  cases g with
  | str o =>
    have h' : (strChange p cfg f o).map OVal.str = some v := h
    obtain ⟨s, hs, rfl⟩ := Option.map_eq_some_iff.mp h'
    have hso : f.strOpts o = some s := by
      unfold File.strOpts; rw [show getOpt o.tag f.opts = some (OVal.str s) from he]
    unfold strChange at hs
    split at hs; · cases hs
    split at hs; · cases hs
    split at hs; · cases hs
    rename_i v' _ hne
    cases hs
    exact hne (by rw [hso]; rfl)
  | bool o =>
    have h' : (boolChange p cfg f o).map OVal.bool = some v := h
    obtain ⟨s, hs, rfl⟩ := Option.map_eq_some_iff.mp h'
    have hso : f.boolOpts o = some s := by
      unfold File.boolOpts; rw [show getOpt o.tag f.opts = some (OVal.bool s) from he]
    unfold boolChange at hs
    split at hs; · cases hs
    split at hs; · cases hs
    split at hs; · cases hs
    rename_i v' _ hne
    cases hs
    exact hne (by rw [hso]; rfl)
  | optimize =>
    have h' : (optimizeChange p cfg f).map OVal.num = some v := h
    obtain ⟨s, hs, rfl⟩ := Option.map_eq_some_iff.mp h'
    have hso : f.optimizeFor = some s := by
      unfold File.optimizeFor; rw [show getOpt optimizeForTag f.opts = some (OVal.num s) from he]
    unfold optimizeChange at hs
    split at hs; · cases hs
    split at hs; · cases hs
    split at hs; · cases hs
    rename_i v' _ hne
    cases hs
    exact hne (by rw [hso]; rfl)

theorem jsChange_ne (p : Bool) (cfg : Config) (f : File) (fd : Field) (v : Nat)
    (h : jsChange p cfg f fd = some v) : getOpt jstypeTag fd.opts ≠ some (.num v) := by
  intro he
  have hj : fd.jstype = some v := by unfold Field.jstype; rw [he]
  unfold jsChange at h
  split at h; · cases h
  split at h; · cases h
  split at h; · cases h
  split at h; · cases h
  split at h; · cases h
  split at h; · cases h
  split at h; · cases h
  rename_i hne
  cases h
  exact hne hj

/-- file options: a modifier reports a write (and marks the location) exactly when the value
    of its option differs afterwards. -/
theorem gov_marked_iff_changed (p : Bool) (cfg : Config) (f : File) (g : Gov) :
    (govChange p cfg f g).isSome = true ↔
      getOpt g.tag (applyOptions p cfg f).opts ≠ getOpt g.tag f.opts := by
  rw [getOpt_applyOptions_gov]
  cases hc : govChange p cfg f g with
  | none => simp
  | some v =>
    simp only [Option.isSome_some, true_iff]
    exact fun he => govChange_ne p cfg f g v hc he.symm

theorem js_marked_iff_changed (p : Bool) (cfg : Config) (f : File) (fd : Field) :
    (jsChange p cfg f fd).isSome = true ↔
      getOpt jstypeTag (applyField p cfg f fd).opts ≠ getOpt jstypeTag fd.opts := by
  rw [applyField_getOpt_js]
  cases hc : jsChange p cfg f fd with
  | none => simp
  | some v =>
    simp only [Option.isSome_some, Option.map_some, true_iff]
    exact fun he => jsChange_ne p cfg f fd v hc he.symm


/-! ### what managed mode governs -/

/-- `checkOptionSetFunc(descriptor.Options)`. -/
def govIsSet (f : File) : Gov → Bool
  | .str o => (f.strOpts o).isSome
  | .bool o => (f.boolOpts o).isSome
  | .optimize => f.optimizeFor.isSome

/-- Managed mode governs FileOptions field number `n` of file `f`: managed mode is enabled, the
    file is not a well-known type, `n` is the number of one of the twelve governed options, no
    disable rule exempts that option for this file, and (with `ModifyPreserveExisting`) the
    option is not already set. -/
def Governs (p : Bool) (cfg : Config) (f : File) (n : Nat) : Prop :=
  cfg.enabled = true ∧ isWKT f.path = false ∧
    ∃ g : Gov, g.tag = n ∧ isFileOptionDisabled cfg f g.fileOpt = false ∧ (p && govIsSet f g) = false

/-- some disable rule exempts jstype of this field: it is for jstype or for everything, matches
    the file, and names this field or no field. -/
def jsDisabledFor (cfg : Config) (f : File) (name : List Char) : Bool :=
  cfg.disables.any fun d =>
    (d.jstype || d.fileOption = .unspecified) && fileMatch f d.path d.module &&
      (d.fieldName = [] || d.fieldName = name)

/-- the value of the LAST override rule for jstype that matches the file and names this field
    or no field. -/
def jsSpec (cfg : Config) (f : File) (name : List Char) : Option Nat :=
  ((cfg.overrides.filter fun r => (r.jstype && fileMatch f r.path r.module) &&
      (r.fieldName = [] || r.fieldName = name)).getLast?).map (·.nval)

/-- Managed mode governs `jstype` of field `fd` of file `f`. -/
def JsGoverns (p : Bool) (cfg : Config) (f : File) (fd : Field) : Prop :=
  cfg.enabled = true ∧ isWKT f.path = false ∧ jsDisabledFor cfg f fd.fullName = false ∧
    (jsSpec cfg f fd.fullName).isSome = true ∧ fd.typ.any jsTypePermitted = true ∧
    (p && fd.jstype.isSome) = false

theorem govChange_none_of_disabled (p : Bool) (cfg : Config) (f : File) (g : Gov)
    (h : isFileOptionDisabled cfg f g.fileOpt = true) : govChange p cfg f g = none := by
  cases g with
  | str o =>
    have h' : isFileOptionDisabled cfg f o.valueOpt = true := h
    have : strTarget cfg f o = none := by
      unfold strTarget stringOverride; simp [h', SOO.empty]
    show (strChange p cfg f o).map OVal.str = none
    unfold strChange; simp [this]
  | bool o =>
    have h' : isFileOptionDisabled cfg f o.fileOpt = true := h
    show (boolChange p cfg f o).map OVal.bool = none
    unfold boolChange boolTarget; simp [h']
  | optimize =>
    have h' : isFileOptionDisabled cfg f .optimizeFor = true := h
    show (optimizeChange p cfg f).map OVal.num = none
    unfold optimizeChange optimizeTarget; simp [h']

theorem govChange_none_of_preserved (cfg : Config) (f : File) (g : Gov)
    (h : govIsSet f g = true) : govChange true cfg f g = none := by
  cases g with
  | str o =>
    have h' : (f.strOpts o).isSome = true := h
    show (strChange true cfg f o).map OVal.str = none
    unfold strChange; simp [h']
  | bool o =>
    have h' : (f.boolOpts o).isSome = true := h
    show (boolChange true cfg f o).map OVal.bool = none
    unfold boolChange; simp [h']
  | optimize =>
    have h' : f.optimizeFor.isSome = true := h
    show (optimizeChange true cfg f).map OVal.num = none
    unfold optimizeChange; simp [h']

/-- frame for file options, at the level of one file's modifiers. -/
theorem modifyOptions_frame_opts (p : Bool) (cfg : Config) (f : File) (he : cfg.enabled = true) (n : Nat)
    (h : ¬ Governs p cfg f n) : getOpt n (modifyOptions p cfg f).opts = getOpt n f.opts := by
  rw [modifyOptions_eq]
  by_cases hw : isWKT f.path = true
  · simp [hw]
  · simp only [hw, Bool.false_eq_true, ↓reduceIte]
    by_cases hg : ∃ g : Gov, g.tag = n
    · obtain ⟨g, rfl⟩ := hg
      rw [getOpt_applyOptions_gov]
      have : govChange p cfg f g = none := by
        by_cases hd : isFileOptionDisabled cfg f g.fileOpt = true
        · exact govChange_none_of_disabled p cfg f g hd
        · by_cases hp : (p && govIsSet f g) = true
          · simp only [Bool.and_eq_true] at hp
            obtain ⟨rfl, hs⟩ := hp
            exact govChange_none_of_preserved cfg f g hs
          · exact absurd ⟨he, by simpa using hw, g, rfl, by simpa using hd, by simpa using hp⟩ h
      simp [this]
    · exact getOpt_applyOptions_other p cfg f n (fun g hgt => hg ⟨g, hgt⟩)

/-! ### jstype: the walk callback against the declarative description -/

theorem foldl_last {α β : Type} (p : α → Bool) (g : α → β) (l : List α) (init : Option β) :
    l.foldl (fun acc r => if p r then some (g r) else acc) init =
      (((l.filter p).getLast?).map g).or init := by
  induction l generalizing init with
  | nil => simp
  | cons a as ih =>
    simp only [List.foldl_cons, ih]
    by_cases hp : p a = true
    · simp only [hp, if_true, List.filter_cons_of_pos]
      cases hl : (as.filter p) with
      | nil => simp
      | cons b bs =>
        have : (b :: bs).getLast? = some ((b :: bs).getLast (by simp)) := List.getLast?_eq_some_getLast (by simp)
        simp [this]
    · simp [hp]

/-- `lastOverride` is the last rule, in configuration order, that matches the file and is for
    exactly this option. -/
theorem lastOverride_eq (cfg : Config) (f : File) (o : FileOption) :
    lastOverride cfg f o =
      (cfg.overrides.filter fun r => fileMatch f r.path r.module && r.fileOption = o).getLast? := by
  unfold lastOverride
  have := foldl_last (fun r : Override => fileMatch f r.path r.module && decide (r.fileOption = o)) id cfg.overrides none
  simpa using this

theorem jsTarget_eq (cfg : Config) (f : File) (name : List Char) :
    jsTarget cfg f name = jsSpec cfg f name := by
  unfold jsTarget jsOverrides jsSpec
  have := foldl_last (fun r : Override => decide (r.fieldName = []) || decide (r.fieldName = name)) (·.nval)
    (cfg.overrides.filter fun r => r.jstype && fileMatch f r.path r.module) none
  simp only [Bool.or_eq_true, decide_eq_true_eq] at this
  simp only [Bool.or_eq_true, decide_eq_true_eq, this, Option.or_none, List.filter_filter]
  congr 2
  apply List.filter_congr
  intro r _
  cases r.jstype <;> cases fileMatch f r.path r.module <;> simp

theorem jsDisabledFor_eq (cfg : Config) (f : File) (name : List Char) :
    jsDisabledFor cfg f name =
      ((jsDisables cfg f).any (fun r => r.fieldName = []) || (jsDisables cfg f).any (fun r => r.fieldName = name)) := by
  unfold jsDisabledFor jsDisables
  rw [List.any_filter, List.any_filter]
  induction cfg.disables with
  | nil => rfl
  | cons d ds ih =>
    simp only [List.any_cons, ih]
    cases d.jstype <;> cases fileMatch f d.path d.module <;> cases decide (d.fieldName = []) <;>
      cases decide (d.fieldName = name) <;> cases decide (d.fileOption = FileOption.unspecified) <;> simp


/-- the value `modifyJsType` leaves in `jstype` of one field, stated without the code's
    filters and loops: exempted by a disable rule, or no matching override, or preserved, or a
    type jstype is not permitted on ⇒ unchanged; otherwise the last matching override. -/
def jsWant (p : Bool) (cfg : Config) (f : File) (fd : Field) : Option Nat :=
  if isWKT f.path then fd.jstype
  else if jsDisabledFor cfg f fd.fullName then fd.jstype
  else match jsSpec cfg f fd.fullName with
    | none => fd.jstype
    | some v =>
      if p && fd.jstype.isSome then fd.jstype
      else if fd.typ.any jsTypePermitted then some v else fd.jstype

theorem jsTarget_nil (cfg : Config) (f : File) (name : List Char) (h : jsOverrides cfg f = []) :
    jsTarget cfg f name = none := by
  unfold jsTarget; rw [h]; rfl

theorem jsChange_spec (p : Bool) (cfg : Config) (f : File) (fd : Field) :
    (match jsChange p cfg f fd with | some v => some v | none => fd.jstype) = jsWant p cfg f fd := by
  unfold jsWant
  rw [jsDisabledFor_eq, ← jsTarget_eq]
  unfold jsChange jsFileActive
  by_cases hw : isWKT f.path = true
  · simp [hw]
  · simp only [hw, Bool.false_eq_true, ↓reduceIte, Bool.not_false, Bool.and_true]
    by_cases hd1 : (jsDisables cfg f).any (fun r => r.fieldName = []) = true
    · simp [hd1]
    · by_cases hd2 : (jsDisables cfg f).any (fun r => r.fieldName = fd.fullName) = true
      · simp [hd2]
      · simp only [hd1, hd2, Bool.not_false, Bool.and_true, Bool.or_self, Bool.false_eq_true, ↓reduceIte,
          Bool.not_not]
        by_cases hov : (jsOverrides cfg f).isEmpty = true
        · have : jsTarget cfg f fd.fullName = none := jsTarget_nil cfg f _ (List.isEmpty_iff.mp hov)
          simp [hov, this]
        · simp only [hov, Bool.false_eq_true, ↓reduceIte]
          cases jsTarget cfg f fd.fullName with
          | none => rfl
          | some v =>
            simp only
            by_cases hp : (p && fd.jstype.isSome) = true
            · simp [hp]
            · simp only [hp, Bool.false_eq_true, ↓reduceIte]
              cases ht : fd.typ with
              | none => simp
              | some t =>
                by_cases hperm : jsTypePermitted t = true
                · simp only [hperm, Bool.not_true, Bool.false_eq_true, ↓reduceIte, Option.any_some]
                  by_cases heq : fd.jstype = some v
                  · simp [heq]
                  · simp [heq]
                · simp [hperm]

theorem applyField_jstype_spec (p : Bool) (cfg : Config) (f : File) (fd : Field) :
    (applyField p cfg f fd).jstype = jsWant p cfg f fd := by
  exact (applyField_jstype p cfg f fd).trans (jsChange_spec p cfg f fd)

theorem jsChange_none_of_not_governs (p : Bool) (cfg : Config) (f : File) (fd : Field)
    (he : cfg.enabled = true) (h : ¬ JsGoverns p cfg f fd) : jsChange p cfg f fd = none := by
  cases hc : jsChange p cfg f fd with
  | none => rfl
  | some v =>
    exfalso
    have hs := jsChange_spec p cfg f fd
    have hne := jsChange_ne p cfg f fd v hc
    rw [hc] at hs
    simp only at hs
    have hjs : fd.jstype ≠ some v := by
      intro hj
      unfold jsChange at hc
      split at hc; · cases hc
      split at hc; · cases hc
      split at hc; · cases hc
      split at hc; · cases hc
      split at hc; · cases hc
      split at hc; · cases hc
      split at hc; · cases hc
      rename_i hne'
      cases hc; exact hne' hj
    apply h
    unfold jsWant at hs
    by_cases hw : isWKT f.path = true
    · simp [hw] at hs; exact absurd hs.symm hjs
    · simp only [hw, Bool.false_eq_true, ↓reduceIte] at hs
      by_cases hd : jsDisabledFor cfg f fd.fullName = true
      · simp [hd] at hs; exact absurd hs.symm hjs
      · simp only [hd, Bool.false_eq_true, ↓reduceIte] at hs
        cases hsp : jsSpec cfg f fd.fullName with
        | none => simp [hsp] at hs; exact absurd hs.symm hjs
        | some w =>
          simp only [hsp] at hs
          by_cases hp : (p && fd.jstype.isSome) = true
          · simp [hp] at hs; exact absurd hs.symm hjs
          · simp only [hp, Bool.false_eq_true, ↓reduceIte] at hs
            by_cases hperm : fd.typ.any jsTypePermitted = true
            · exact ⟨he, by simpa using hw, by simpa using hd, by simp [hsp], hperm, by simpa using hp⟩
            · simp [hperm] at hs; exact absurd hs.symm hjs

/-! ### frame -/

/-- what cannot change in a field: name, path, type, the opaque rest, and every field option
    managed mode does not govern for it. -/
def FieldFrame (p : Bool) (cfg : Config) (f : File) (fd fd' : Field) : Prop :=
  fd'.fullName = fd.fullName ∧ fd'.path = fd.path ∧ fd'.typ = fd.typ ∧ fd'.rest = fd.rest ∧
  ∀ n : Nat, (n ≠ jstypeTag ∨ ¬ JsGoverns p cfg f fd) → getOpt n fd'.opts = getOpt n fd.opts

/-- what cannot change in a file. -/
def FileFrame (p : Bool) (cfg : Config) (f f' : File) : Prop :=
  f'.payload = f.payload ∧ f'.path = f.path ∧ f'.pkg = f.pkg ∧ f'.module = f.module ∧
  (∀ n : Nat, ¬ Governs p cfg f n → getOpt n f'.opts = getOpt n f.opts) ∧
  AllRel (FieldFrame p cfg f) f.fields f'.fields ∧ f'.locs.Sublist f.locs

theorem applyField_frame (p : Bool) (cfg : Config) (f : File) (he : cfg.enabled = true) (fd : Field) :
    FieldFrame p cfg f fd (applyField p cfg f fd) := by
  have h4 : (applyField p cfg f fd).fullName = fd.fullName ∧ (applyField p cfg f fd).path = fd.path ∧
      (applyField p cfg f fd).typ = fd.typ ∧ (applyField p cfg f fd).rest = fd.rest := by
    unfold applyField; split <;> exact ⟨rfl, rfl, rfl, rfl⟩
  refine ⟨h4.1, h4.2.1, h4.2.2.1, h4.2.2.2, ?_⟩
  intro n hn
  rcases hn with hn | hn
  · exact applyField_getOpt_other p cfg f fd n hn
  · unfold applyField; rw [jsChange_none_of_not_governs p cfg f fd he hn]

theorem AllRel.refl_of {α : Type} {R : α → α → Prop} (h : ∀ a, R a a) : ∀ l : List α, AllRel R l l
  | [] => trivial
  | a :: as => ⟨h a, AllRel.refl_of h as⟩

theorem applyOptions_proj (p : Bool) (cfg : Config) (f : File) :
    (applyOptions p cfg f).payload = f.payload ∧ (applyOptions p cfg f).path = f.path ∧
    (applyOptions p cfg f).pkg = f.pkg ∧ (applyOptions p cfg f).module = f.module ∧
    (applyOptions p cfg f).locs = f.locs ∧
    (applyOptions p cfg f).fields = f.fields.map (applyField p cfg f) := ⟨rfl, rfl, rfl, rfl, rfl, rfl⟩

theorem modifyOptions_locs (p : Bool) (cfg : Config) (f : File) :
    (modifyOptions p cfg f).locs = f.locs := by
  rw [modifyOptions_eq]; split <;> rfl

theorem modifyOptions_frame (p : Bool) (cfg : Config) (f : File) (he : cfg.enabled = true) :
    FileFrame p cfg f (modifyOptions p cfg f) := by
  have hopts := modifyOptions_frame_opts p cfg f he
  rw [modifyOptions_eq] at hopts ⊢
  by_cases hw : isWKT f.path = true
  · simp only [hw, ↓reduceIte] at hopts ⊢
    exact ⟨rfl, rfl, rfl, rfl, fun _ _ => rfl, AllRel.refl_of (fun _ => ⟨rfl, rfl, rfl, rfl, fun _ _ => rfl⟩) _, List.Sublist.refl _⟩
  · simp only [hw, Bool.false_eq_true, ↓reduceIte] at hopts ⊢
    exact ⟨rfl, rfl, rfl, rfl, hopts, AllRel.map_self _ (applyField_frame p cfg f he) _, List.Sublist.refl _⟩

theorem outRel_frame {fixed p : Bool} {cfg : Config} {f f' : File} (he : cfg.enabled = true)
    (h : OutRel fixed p cfg f f') : FileFrame p cfg f f' := by
  obtain ⟨l, rfl, hl⟩ := h
  obtain ⟨h1, h2, h3, h4, h5, h6, _⟩ := modifyOptions_frame p cfg f he
  refine ⟨h1, h2, h3, h4, h5, h6, ?_⟩
  simp only [modifyOptions_locs] at hl
  rcases hl with rfl | hs
  · exact List.Sublist.refl _
  · exact sweepLocs_sublist hs


/-! ### marks = options whose value changed -/

/-- `p` is the SourceCodeInfo path of an option whose value differs between `f` and `f'`:
    `[8, n]` for FileOptions field `n`, `field path ++ [8, 6]` for a field's jstype. -/
def Changed (f f' : File) (p : List Nat) : Prop :=
  (∃ n : Nat, p = [8, n] ∧ getOpt n f'.opts ≠ getOpt n f.opts) ∨
  (∃ (j : Nat) (fd fd' : Field), f.fields[j]? = some fd ∧ f'.fields[j]? = some fd' ∧
    getOpt jstypeTag fd'.opts ≠ getOpt jstypeTag fd.opts ∧ fd.path ≠ [] ∧ p = fd.path ++ [8, jstypeTag])

theorem changed_congr {f f' f'' : File} (ho : f''.opts = f'.opts) (hf : f''.fields = f'.fields) (p : List Nat) :
    Changed f f'' p ↔ Changed f f' p := by
  unfold Changed; rw [ho, hf]

theorem not_changed_self (f : File) (p : List Nat) : ¬ Changed f f p := by
  rintro (⟨n, _, h⟩ | ⟨j, fd, fd', h1, h2, h3, _⟩)
  · exact h rfl
  · rw [h1] at h2; cases h2; exact h3 rfl

theorem marks_iff_changed (p : Bool) (cfg : Config) (f : File) (q : List Nat) :
    q ∈ marks p cfg f ↔ Changed f (applyOptions p cfg f) q := by
  unfold marks Changed
  simp only [List.mem_append, List.mem_map]
  constructor
  · rintro (⟨c, hc, rfl⟩ | hq)
    · obtain ⟨g, _, hg, ht⟩ := mem_fileChanges.mp hc
      refine Or.inl ⟨c.1, rfl, ?_⟩
      rw [← ht]
      exact (gov_marked_iff_changed p cfg f g).mp (by simp [hg])
    · unfold jsMarks at hq
      obtain ⟨fd, hfd, hq⟩ := List.mem_filterMap.mp hq
      cases hc : jsChange p cfg f fd with
      | none => simp [hc] at hq
      | some v =>
        simp only [hc] at hq
        by_cases hp : fd.path = []
        · simp [hp] at hq
        · simp only [hp, ↓reduceIte, Option.some.injEq] at hq
          obtain ⟨j, hj⟩ := List.getElem?_of_mem hfd
          refine Or.inr ⟨j, fd, applyField p cfg f fd, hj, ?_, ?_, hp, hq.symm⟩
          · show (f.fields.map (applyField p cfg f))[j]? = _
            simp [hj]
          · exact (js_marked_iff_changed p cfg f fd).mp (by simp [hc])
  · rintro (⟨n, rfl, hne⟩ | ⟨j, fd, fd', hj, hj', hne, hp, rfl⟩)
    · by_cases hg : ∃ g : Gov, g.tag = n
      · obtain ⟨g, rfl⟩ := hg
        have := (gov_marked_iff_changed p cfg f g).mpr hne
        obtain ⟨v, hv⟩ := Option.isSome_iff_exists.mp this
        exact Or.inl ⟨(g.tag, v), mem_fileChanges.mpr ⟨g, Gov.mem_all g, hv, rfl⟩, rfl⟩
      · exact absurd (getOpt_applyOptions_other p cfg f n (fun g hgt => hg ⟨g, hgt⟩)) hne
    · have hfd' : fd' = applyField p cfg f fd := by
        have : (f.fields.map (applyField p cfg f))[j]? = some fd' := hj'
        simp [hj] at this; exact this.symm
      subst hfd'
      have := (js_marked_iff_changed p cfg f fd).mpr hne
      obtain ⟨v, hv⟩ := Option.isSome_iff_exists.mp this
      refine Or.inr ?_
      unfold jsMarks
      exact List.mem_filterMap.mpr ⟨fd, List.mem_of_getElem? hj, by simp [hv, hp]⟩

/-- the paths handed to the sweeper for a file are exactly the paths of the options whose
    value the modifiers changed. -/
theorem fileMarks_iff_changed (p : Bool) (cfg : Config) (f : File) (q : List Nat) :
    q ∈ fileMarks p cfg f ↔ Changed f (modifyOptions p cfg f) q := by
  rw [fileMarks_eq, modifyOptions_eq]
  by_cases hw : isWKT f.path = true
  · simp only [hw, ↓reduceIte, List.not_mem_nil, false_iff]; exact not_changed_self f q
  · simp only [hw, Bool.false_eq_true, ↓reduceIte]; exact marks_iff_changed p cfg f q

theorem removeIndices_nil (locs : List Loc) : removeIndices locs [] = locs := by
  unfold removeIndices
  simp only [List.contains_nil, Bool.not_false]
  rw [List.filter_eq_self.mpr (fun _ _ => rfl)]
  simp


/-! ### fixed points and idempotence -/

theorem strChange_fixed {f g : File} (h : SameKey f g) (p : Bool) (cfg : Config) (o : StrOpt)
    (hg : g.strOpts o = (match strChange p cfg f o with | some v => some v | none => f.strOpts o)) :
    strChange p cfg g o = none := by
  unfold strChange at hg ⊢
  rw [strTarget_congr h]
  by_cases hp : (p && (f.strOpts o).isSome) = true
  · simp only [hp, ↓reduceIte] at hg
    rw [hg]; simp [hp]
  · simp only [hp, Bool.false_eq_true, ↓reduceIte] at hg
    cases ht : strTarget cfg f o with
    | none => simp only [ht] at hg; rw [hg]; simp
    | some v =>
      simp only [ht] at hg ⊢
      by_cases hc : (f.strOpts o).getD [] = v
      · simp only [hc, ↓reduceIte] at hg; rw [hg]; simp [hc]
      · simp only [hc, ↓reduceIte] at hg; rw [hg]; simp

theorem boolChange_fixed {f g : File} (h : SameKey f g) (p : Bool) (cfg : Config) (o : BoolOpt)
    (hg : g.boolOpts o = (match boolChange p cfg f o with | some v => some v | none => f.boolOpts o)) :
    boolChange p cfg g o = none := by
  unfold boolChange at hg ⊢
  rw [boolTarget_congr h]
  by_cases hp : (p && (f.boolOpts o).isSome) = true
  · simp only [hp, ↓reduceIte] at hg
    rw [hg]; simp [hp]
  · simp only [hp, Bool.false_eq_true, ↓reduceIte] at hg
    cases ht : boolTarget cfg f o with
    | none => simp only [ht] at hg; rw [hg]; simp
    | some v =>
      simp only [ht] at hg ⊢
      by_cases hc : (f.boolOpts o).getD o.protoDefault = v
      · simp only [hc, ↓reduceIte] at hg; rw [hg]; simp [hc]
      · simp only [hc, ↓reduceIte] at hg; rw [hg]; simp

theorem optimizeChange_fixed {f g : File} (h : SameKey f g) (p : Bool) (cfg : Config)
    (hg : g.optimizeFor = (match optimizeChange p cfg f with | some v => some v | none => f.optimizeFor)) :
    optimizeChange p cfg g = none := by
  unfold optimizeChange at hg ⊢
  rw [optimizeTarget_congr h]
  by_cases hp : (p && f.optimizeFor.isSome) = true
  · simp only [hp, ↓reduceIte] at hg
    rw [hg]; simp [hp]
  · simp only [hp, Bool.false_eq_true, ↓reduceIte] at hg
    cases ht : optimizeTarget cfg f with
    | none => simp only [ht] at hg; rw [hg]; simp
    | some v =>
      simp only [ht] at hg ⊢
      by_cases hc : f.optimizeFor.getD optimizeSpeed = v
      · simp only [hc, ↓reduceIte] at hg; rw [hg]; simp [hc]
      · simp only [hc, ↓reduceIte] at hg; rw [hg]; simp

theorem jsChange_fixed {f g : File} (h : SameKey f g) (p : Bool) (cfg : Config) (fd : Field) :
    jsChange p cfg g (applyField p cfg f fd) = none := by
  rw [jsChange_congr h]
  cases hc : jsChange p cfg f fd with
  | none => unfold applyField; rw [hc]; exact hc
  | some v =>
    have hj : (applyField p cfg f fd).jstype = some v := by rw [applyField_jstype, hc]
    have hn : (applyField p cfg f fd).fullName = fd.fullName := by unfold applyField; rw [hc]
    have ht : (applyField p cfg f fd).typ = fd.typ := by unfold applyField; rw [hc]
    unfold jsChange at hc ⊢
    rw [hn, ht, hj]
    split at hc; · cases hc
    rename_i h1
    split at hc; · cases hc
    rename_i h2
    split at hc; · cases hc
    rename_i v' hv'
    split at hc; · cases hc
    split at hc; · cases hc
    rename_i t htt
    split at hc; · cases hc
    rename_i h5
    split at hc; · cases hc
    cases hc
    simp [h1, h2, h5]

theorem govChange_fixed {f c : File} (h : SameKey f c) (p : Bool) (cfg : Config) (g : Gov)
    (hc : getOpt g.tag c.opts = getOpt g.tag (applyOptions p cfg f).opts) : govChange p cfg c g = none := by
  cases g with
  | str o =>
    have : c.strOpts o = (applyOptions p cfg f).strOpts o := by
      unfold File.strOpts; rw [show getOpt o.tag c.opts = getOpt o.tag (applyOptions p cfg f).opts from hc]
    show (strChange p cfg c o).map OVal.str = none
    rw [strChange_fixed h p cfg o (this.trans (applyOptions_strOpts p cfg f o))]; rfl
  | bool o =>
    have : c.boolOpts o = (applyOptions p cfg f).boolOpts o := by
      unfold File.boolOpts; rw [show getOpt o.tag c.opts = getOpt o.tag (applyOptions p cfg f).opts from hc]
    show (boolChange p cfg c o).map OVal.bool = none
    rw [boolChange_fixed h p cfg o (this.trans (applyOptions_boolOpts p cfg f o))]; rfl
  | optimize =>
    have : c.optimizeFor = (applyOptions p cfg f).optimizeFor := by
      unfold File.optimizeFor; rw [show getOpt optimizeForTag c.opts = getOpt optimizeForTag (applyOptions p cfg f).opts from hc]
    show (optimizeChange p cfg c).map OVal.num = none
    rw [optimizeChange_fixed h p cfg (this.trans (applyOptions_optimizeFor p cfg f))]; rfl

/-- a file that agrees with the modifiers' output on options and fields is a fixed point of
    the modifiers and yields no marks. -/
theorem applyOptions_fixed (p : Bool) (cfg : Config) (f : File) (l : List Loc) :
    applyOptions p cfg { applyOptions p cfg f with locs := l } = { applyOptions p cfg f with locs := l } ∧
    marks p cfg { applyOptions p cfg f with locs := l } = [] := by
  have hk : SameKey f { applyOptions p cfg f with locs := l } := ⟨rfl, rfl, rfl⟩
  generalize hG : ({ applyOptions p cfg f with locs := l } : File) = G at hk
  have hGo : G.opts = (applyOptions p cfg f).opts := by rw [← hG]
  have hGf : G.fields = f.fields.map (applyField p cfg f) := by rw [← hG]; rfl
  have hch : fileChanges p cfg G Gov.all = [] := by
    unfold fileChanges
    apply List.filterMap_eq_nil_iff.mpr
    intro g _
    rw [govChange_fixed hk p cfg g (by rw [hGo])]; rfl
  have hf : ∀ fd ∈ G.fields, jsChange p cfg G fd = none := by
    intro fd hfd
    rw [hGf] at hfd
    obtain ⟨fd0, _, rfl⟩ := List.mem_map.mp hfd
    exact jsChange_fixed hk p cfg fd0
  have h4 : G.fields.map (applyField p cfg G) = G.fields := by
    conv => rhs; rw [← List.map_id G.fields]
    apply List.map_congr_left
    intro fd hfd
    unfold applyField; simp [hf fd hfd]
  constructor
  · unfold applyOptions
    rw [hch, h4]; rfl
  · unfold marks
    rw [hch]
    simp only [List.map_nil, List.nil_append]
    unfold jsMarks
    apply List.filterMap_eq_nil_iff.mpr
    intro fd hfd; simp [hf fd hfd]

theorem modifyOptions_fixed (p : Bool) (cfg : Config) (f : File) (l : List Loc) :
    modifyOptions p cfg { modifyOptions p cfg f with locs := l } = { modifyOptions p cfg f with locs := l } ∧
    fileMarks p cfg { modifyOptions p cfg f with locs := l } = [] := by
  simp only [modifyOptions_eq, fileMarks_eq]
  by_cases hw : isWKT f.path = true
  · simp only [hw, ↓reduceIte]
    simp
  · simp only [hw, Bool.false_eq_true, ↓reduceIte]
    have hp : isWKT ({ applyOptions p cfg f with locs := l } : File).path = false := by
      show isWKT f.path = false
      simpa using hw
    simp only [hp, Bool.false_eq_true, ↓reduceIte]
    exact applyOptions_fixed p cfg f l

theorem sweepAll_nomarks (fixed : Bool) :
    ∀ l : List File, sweepAll fixed (l.map fun f => (f, ([] : List (List Nat)))) = ⟨l, false⟩
  | [] => rfl
  | f :: fs => by
    simp only [List.map_cons]
    unfold sweepAll
    have : sweepLocs fixed [] f.locs = some f.locs := by unfold sweepLocs; simp
    simp only [this, sweepAll_nomarks fixed fs]

theorem AllRel.mem_right {α β : Type} {R : α → β → Prop} :
    ∀ {l : List α} {l' : List β}, AllRel R l l' → ∀ b ∈ l', ∃ a ∈ l, R a b
  | [], [], _ => by intro b hb; simp at hb
  | x :: xs, y :: ys, ⟨h1, h2⟩ => by
      intro b hb
      rcases List.mem_cons.mp hb with rfl | hb'
      · exact ⟨x, by simp, h1⟩
      · obtain ⟨a, ha, hr⟩ := AllRel.mem_right h2 b hb'
        exact ⟨a, by simp [ha], hr⟩
  | [], _ :: _, hf => hf.elim
  | _ :: _, [], hf => hf.elim

/-- Idempotence: applying managed mode to its own output changes nothing and reports no
    error — also when the first application ended with a sweep error, with or without
    `ModifyPreserveExisting`, for the sweeper before and after the fix. -/
theorem modifyWith_idempotent (fixed p : Bool) (cfg : Config) (img : List File) :
    modifyWith fixed p cfg (modifyWith fixed p cfg img).files =
      ⟨(modifyWith fixed p cfg img).files, false⟩ := by
  cases he : cfg.enabled
  · unfold modifyWith; simp [he]
  · have hrel := modifyWith_rel fixed p cfg img he
    generalize (modifyWith fixed p cfg img).files = out at hrel
    unfold modifyWith
    simp only [he, Bool.not_true, Bool.false_eq_true, ↓reduceIte]
    have : out.map (fun f => (modifyOptions p cfg f, fileMarks p cfg f)) =
        out.map (fun f => (f, ([] : List (List Nat)))) := by
      apply List.map_congr_left
      intro g hg
      obtain ⟨f, _, l, rfl, _⟩ := AllRel.mem_right hrel g hg
      have := modifyOptions_fixed p cfg f l
      rw [this.1, this.2]
    rw [this, sweepAll_nomarks]

/-! ### helpers for the property theorems -/

/-- `f'` is what `Modify(img, cfg)` (with `ModifyPreserveExisting` iff `p`) leaves at the
    position where `img` holds `f`. -/
def Out (p : Bool) (cfg : Config) (img : List File) (f f' : File) : Prop :=
  ∃ i : Nat, img[i]? = some f ∧ (modifyWith true p cfg img).files[i]? = some f'

theorem sweepInv_init (mk : List (List Nat)) (all : List Loc) : SweepInv mk all 0 ⟨[], []⟩ :=
  ⟨by intro k hk; simp at hk, by intro e he; simp at he, by intro k hk; omega, by intro k hk; omega⟩


/-! ### string options: `stringOverrideFromConfig` against a declarative description -/

/-- the elements after the last one satisfying `q` (the whole list if none does). -/
def afterLast {α : Type} (q : α → Bool) : List α → List α
  | [] => []
  | a :: as => if as.any q then afterLast q as else if q a then as else a :: as

theorem afterLast_snoc {α : Type} (q : α → Bool) (r : α) :
    ∀ l : List α, afterLast q (l ++ [r]) = if q r then [] else afterLast q l ++ [r]
  | [] => by
    by_cases h : q r = true <;> simp [afterLast, h]
  | a :: as => by
    have ih := afterLast_snoc q r as
    show afterLast q (a :: (as ++ [r])) = _
    unfold afterLast
    by_cases h : q r = true
    · simp only [h, ↓reduceIte] at ih ⊢
      simp [h, ih]
    · simp only [h, Bool.false_eq_true, ↓reduceIte] at ih ⊢
      have hany : (as ++ [r]).any q = as.any q := by simp [h]
      rw [hany, ih]
      by_cases h2 : as.any q = true
      · simp [h2]
      · simp only [h2, Bool.false_eq_true, ↓reduceIte]
        by_cases h3 : q a = true <;> simp [h3]

theorem filter_snoc {α : Type} (q : α → Bool) (l : List α) (r : α) :
    (l ++ [r]).filter q = if q r then l.filter q ++ [r] else l.filter q := by
  by_cases h : q r = true <;> simp [List.filter_append, h]

/-- `specSOO` on the list of rules that match the file. -/
def specOf (isV isP isS : Override → Bool) (d0 : SOO) (ms : List Override) : SOO :=
  let base : SOO := match (ms.filter isV).getLast? with
    | some r => ⟨r.sval, [], []⟩
    | none => d0
  let tail := afterLast isV ms
  let lp := (tail.filter isP).getLast?
  let ls := (tail.filter isS).getLast?
  ⟨if lp.isSome || ls.isSome then [] else base.value,
   (lp.map (·.sval)).getD base.pfx, (ls.map (·.sval)).getD base.suffix⟩

/-- The override options `stringOverrideFromConfig` arrives at, described by WHICH rules
    count rather than by the loop.  Among the override rules that match the file, in
    configuration order:
    * the last rule for the value option (if any) resets everything to its value; before it,
      nothing matters; without one the start is the default (`d0`);
    * after it, the last rule for the prefix option and the last rule for the suffix option
      (only where that companion option exists and is not disabled: `useP` / `useS`) give
      prefix and suffix, the other one being kept; as soon as one of them exists the value is
      blank (so the value function computes it from prefix/suffix). -/
def specSOO (f : File) (vOpt pOpt sOpt : FileOption) (useP useS : Bool) (d0 : SOO) (l : List Override) : SOO :=
  specOf (fun r => decide (r.fileOption = vOpt)) (fun r => useP && decide (r.fileOption = pOpt))
    (fun r => useS && decide (r.fileOption = sOpt)) d0 (l.filter fun r => fileMatch f r.path r.module)

theorem specOf_nil (isV isP isS : Override → Bool) (d0 : SOO) : specOf isV isP isS d0 [] = d0 := by
  cases d0; simp [specOf, afterLast]

theorem specSOO_nil (f : File) (vOpt pOpt sOpt : FileOption) (useP useS : Bool) (d0 : SOO) :
    specSOO f vOpt pOpt sOpt useP useS d0 [] = d0 := specOf_nil _ _ _ d0

theorem specOf_snoc (isV isP isS : Override → Bool) (d0 : SOO) (ms : List Override) (r : Override) :
    specOf isV isP isS d0 (ms ++ [r]) =
      if isV r then ⟨r.sval, [], []⟩
      else
        ⟨if isP r || isS r then [] else (specOf isV isP isS d0 ms).value,
         if isP r then r.sval else (specOf isV isP isS d0 ms).pfx,
         if isS r then r.sval else (specOf isV isP isS d0 ms).suffix⟩ := by
  unfold specOf
  cases hv : isV r <;> cases hp : isP r <;> cases hs : isS r <;>
    simp [afterLast_snoc, hv, hp, hs]

theorem specSOO_snoc_aux (f : File) (vOpt pOpt sOpt : FileOption) (useP useS : Bool) (d0 : SOO)
    (pre : List Override) (r : Override) (hm : fileMatch f r.path r.module = true) :
    specSOO f vOpt pOpt sOpt useP useS d0 (pre ++ [r]) =
      if decide (r.fileOption = vOpt) then ⟨r.sval, [], []⟩
      else
        let S := specSOO f vOpt pOpt sOpt useP useS d0 pre
        ⟨if (useP && decide (r.fileOption = pOpt)) || (useS && decide (r.fileOption = sOpt)) then [] else S.value,
         if useP && decide (r.fileOption = pOpt) then r.sval else S.pfx,
         if useS && decide (r.fileOption = sOpt) then r.sval else S.suffix⟩ := by
  have hms : (pre ++ [r]).filter (fun r => fileMatch f r.path r.module) =
      pre.filter (fun r => fileMatch f r.path r.module) ++ [r] := by
    rw [filter_snoc]; simp [hm]
  unfold specSOO
  rw [hms, specOf_snoc]

theorem specSOO_snoc (f : File) (vOpt pOpt sOpt : FileOption) (useP useS : Bool) (d0 : SOO)
    (hps : pOpt = sOpt → useP = false ∧ useS = false)
    (pre : List Override) (r : Override) :
    specSOO f vOpt pOpt sOpt useP useS d0 (pre ++ [r]) =
      sooStep f vOpt pOpt sOpt (!useP) (!useS) (specSOO f vOpt pOpt sOpt useP useS d0 pre) r := by
  by_cases hm : fileMatch f r.path r.module = true
  · rw [specSOO_snoc_aux f vOpt pOpt sOpt useP useS d0 pre r hm]
    unfold sooStep
    simp only [hm, Bool.not_true, Bool.false_eq_true, ↓reduceIte]
    by_cases hv : r.fileOption = vOpt
    · simp [hv]
    · have hvf : decide (r.fileOption = vOpt) = false := by simpa using hv
      simp only [hv, ↓reduceIte]
      by_cases hp : r.fileOption = pOpt
      · have hsne : useP = true → ¬ (pOpt = sOpt) := fun hu he => by
          have := (hps he).1; rw [hu] at this; cases this
        have hpd : decide (r.fileOption = pOpt) = true := by simpa using hp
        simp only [hp, ↓reduceIte]
        cases hu : useP
        · have hS : (useS && decide (pOpt = sOpt)) = false := by
            by_cases he : pOpt = sOpt
            · simp [(hps he).2]
            · simp [he]
          simp [hS]
        · have hS : (useS && decide (pOpt = sOpt)) = false := by
            simp [hsne hu]
          simp [hS]
      · have hpf : decide (r.fileOption = pOpt) = false := by simpa using hp
        simp only [hp, ↓reduceIte]
        by_cases hs : r.fileOption = sOpt
        · simp only [hs, decide_true, Bool.and_true, ↓reduceIte]
          cases hu : useS <;> simp
        · have hsf : decide (r.fileOption = sOpt) = false := by simpa using hs
          simp [hs]
  · unfold sooStep
    simp only [hm, Bool.not_false, ↓reduceIte]
    have hms : (pre ++ [r]).filter (fun r => fileMatch f r.path r.module) =
        pre.filter (fun r => fileMatch f r.path r.module) := by
      rw [filter_snoc]; simp [hm]
    unfold specSOO
    simp only [hms]

theorem foldl_sooStep_spec (f : File) (vOpt pOpt sOpt : FileOption) (useP useS : Bool) (d0 : SOO)
    (hps : pOpt = sOpt → useP = false ∧ useS = false) :
    ∀ (l pre : List Override),
      l.foldl (sooStep f vOpt pOpt sOpt (!useP) (!useS)) (specSOO f vOpt pOpt sOpt useP useS d0 pre) =
        specSOO f vOpt pOpt sOpt useP useS d0 (pre ++ l)
  | [], pre => by simp
  | r :: l, pre => by
    simp only [List.foldl_cons]
    rw [← specSOO_snoc f vOpt pOpt sOpt useP useS d0 hps, foldl_sooStep_spec f vOpt pOpt sOpt useP useS d0 hps l]
    simp

theorem stringOverride_disabled {cfg : Config} {f : File} {d : SOO} {v p s : FileOption}
    (h : isFileOptionDisabled cfg f v = true) : stringOverride cfg f d v p s = SOO.empty := by
  unfold stringOverride; simp [h]

theorem StrOpt.companions_distinct (o : StrOpt) :
    o.prefixOpt = o.suffixOpt → o.prefixOpt = .unspecified ∧ o.suffixOpt = .unspecified := by
  cases o <;> simp [StrOpt.prefixOpt, StrOpt.suffixOpt]

/-- the prefix companion of string option `o` exists and is not disabled for the file. -/
def usePfx (cfg : Config) (f : File) (o : StrOpt) : Bool :=
  !(o.prefixOpt = .unspecified || isFileOptionDisabled cfg f o.prefixOpt)
def useSfx (cfg : Config) (f : File) (o : StrOpt) : Bool :=
  !(o.suffixOpt = .unspecified || isFileOptionDisabled cfg f o.suffixOpt)

/-- the override options for string option `o` of file `f`, declaratively (see `specSOO`);
    the start is the managed default with prefix / suffix blanked where unusable. -/
def strSpecSOO (cfg : Config) (f : File) (o : StrOpt) : SOO :=
  specSOO f o.valueOpt o.prefixOpt o.suffixOpt (usePfx cfg f o) (useSfx cfg f o)
    ⟨(o.defaultSOO f).value, if usePfx cfg f o then (o.defaultSOO f).pfx else [],
     if useSfx cfg f o then (o.defaultSOO f).suffix else []⟩ cfg.overrides

theorem stringOverride_eq_spec (cfg : Config) (f : File) (o : StrOpt)
    (hd : isFileOptionDisabled cfg f o.valueOpt = false) :
    stringOverride cfg f (o.defaultSOO f) o.valueOpt o.prefixOpt o.suffixOpt = strSpecSOO cfg f o := by
  unfold stringOverride strSpecSOO
  simp only [hd, Bool.false_eq_true, ↓reduceIte]
  have hps : o.prefixOpt = o.suffixOpt → usePfx cfg f o = false ∧ useSfx cfg f o = false := by
    intro he
    obtain ⟨h1, h2⟩ := StrOpt.companions_distinct o he
    unfold usePfx useSfx; simp [h1, h2]
  have hP : (decide (o.prefixOpt = .unspecified) || isFileOptionDisabled cfg f o.prefixOpt) = !usePfx cfg f o := by
    unfold usePfx; simp
  have hS : (decide (o.suffixOpt = .unspecified) || isFileOptionDisabled cfg f o.suffixOpt) = !useSfx cfg f o := by
    unfold useSfx; simp
  rw [hP, hS]
  have h0 := foldl_sooStep_spec f o.valueOpt o.prefixOpt o.suffixOpt (usePfx cfg f o) (useSfx cfg f o)
    ⟨(o.defaultSOO f).value, if usePfx cfg f o then (o.defaultSOO f).pfx else [],
     if useSfx cfg f o then (o.defaultSOO f).suffix else []⟩ hps cfg.overrides []
  rw [specSOO_nil] at h0
  simp only [List.nil_append] at h0
  rw [← h0]
  congr 2
  · cases usePfx cfg f o <;> simp
  · cases useSfx cfg f o <;> simp

/-- The value managed mode wants in string option `o` of file `f` (`none` = it leaves the
    option alone): nothing when a disable rule exempts the option, or when nothing at all is
    configured (all-blank override options), or when the computed value is empty; otherwise the
    explicit value of the winning value override, else the default formula applied to the
    winning prefix / suffix. -/
def strSpec (cfg : Config) (f : File) (o : StrOpt) : Option (List Char) :=
  if isFileOptionDisabled cfg f o.valueOpt then none
  else
    let s := strSpecSOO cfg f o
    if s = SOO.empty then none
    else
      let v := if s.value = [] then o.valueFunc f s else s.value
      if v = [] then none else some v

theorem strTarget_eq_spec (cfg : Config) (f : File) (o : StrOpt) : strTarget cfg f o = strSpec cfg f o := by
  unfold strTarget strSpec
  cases hd : isFileOptionDisabled cfg f o.valueOpt
  · rw [stringOverride_eq_spec cfg f o hd]; simp
  · rw [stringOverride_disabled hd]; simp

/-- an override rule concerns string option `o` of file `f`: it matches the file and is for the
    option itself or for its prefix / suffix companion. -/
def relevant (f : File) (o : StrOpt) (r : Override) : Bool :=
  fileMatch f r.path r.module &&
    (r.fileOption = o.valueOpt ||
     (r.fileOption = o.prefixOpt && o.prefixOpt ≠ .unspecified) ||
     (r.fileOption = o.suffixOpt && o.suffixOpt ≠ .unspecified))

theorem sooStep_irrelevant (cfg : Config) (f : File) (o : StrOpt) (acc : SOO) (r : Override)
    (hr : relevant f o r = false) :
    sooStep f o.valueOpt o.prefixOpt o.suffixOpt
      (o.prefixOpt = .unspecified || isFileOptionDisabled cfg f o.prefixOpt)
      (o.suffixOpt = .unspecified || isFileOptionDisabled cfg f o.suffixOpt) acc r = acc := by
  unfold sooStep
  unfold relevant at hr
  by_cases hm : fileMatch f r.path r.module = true
  · simp only [hm, Bool.true_and, Bool.or_eq_false_iff, Bool.and_eq_false_imp, decide_eq_true_eq,
      decide_eq_false_iff_not] at hr
    obtain ⟨⟨h1, h2⟩, h3⟩ := hr
    simp only [hm, Bool.not_true, Bool.false_eq_true, ↓reduceIte, h1]
    by_cases hp : r.fileOption = o.prefixOpt
    · have := h2 hp; simp at this; simp [hp, this]
    · simp only [hp, ↓reduceIte]
      by_cases hs : r.fileOption = o.suffixOpt
      · have := h3 hs; simp at this; simp [hs, this]
      · simp [hs]
  · simp [hm]

theorem foldl_irrelevant (cfg : Config) (f : File) (o : StrOpt) (post : List Override)
    (hpost : ∀ r ∈ post, relevant f o r = false) (acc : SOO) :
    post.foldl (sooStep f o.valueOpt o.prefixOpt o.suffixOpt
      (o.prefixOpt = .unspecified || isFileOptionDisabled cfg f o.prefixOpt)
      (o.suffixOpt = .unspecified || isFileOptionDisabled cfg f o.suffixOpt)) acc = acc := by
  induction post generalizing acc with
  | nil => rfl
  | cons r rs ih =>
    simp only [List.foldl_cons]
    rw [sooStep_irrelevant cfg f o acc r (hpost r (by simp))]
    exact ih (fun r' hr' => hpost r' (by simp [hr'])) acc

/-! ### glue used by the property theorems -/

theorem out_rel {p : Bool} {cfg : Config} {img : List File} {f f' : File} (he : cfg.enabled = true)
    (h : Out p cfg img f f') : OutRel true p cfg f f' := by
  obtain ⟨i, h1, h2⟩ := h
  exact AllRel.get (modifyWith_rel true p cfg img he) i f f' h1 h2

theorem out_typed {p : Bool} {cfg : Config} {img : List File} {f f' : File} (he : cfg.enabled = true)
    (h : Out p cfg img f f') (hw : isWKT f.path = false) :
    (∀ o, f'.strOpts o = (applyOptions p cfg f).strOpts o) ∧
    (∀ o, f'.boolOpts o = (applyOptions p cfg f).boolOpts o) ∧
    f'.optimizeFor = (applyOptions p cfg f).optimizeFor ∧
    f'.fields = f.fields.map (applyField p cfg f) := by
  obtain ⟨h1, h2⟩ : f'.opts = (modifyOptions p cfg f).opts ∧ f'.fields = (modifyOptions p cfg f).fields := by
    obtain ⟨l, rfl, _⟩ := out_rel he h
    exact ⟨rfl, rfl⟩
  rw [modifyOptions_eq] at h1 h2
  simp only [hw, Bool.false_eq_true, ↓reduceIte] at h1 h2
  refine ⟨fun o => ?_, fun o => ?_, ?_, h2⟩
  · unfold File.strOpts; rw [h1]
  · unfold File.boolOpts; rw [h1]
  · unfold File.optimizeFor; rw [h1]

theorem strSpec_ne_nil {cfg : Config} {f : File} {o : StrOpt} {v : List Char}
    (h : strSpec cfg f o = some v) : v ≠ [] := by
  unfold strSpec at h
  by_cases hd : isFileOptionDisabled cfg f o.valueOpt = true
  · simp [hd] at h
  · simp only [hd, Bool.false_eq_true, ↓reduceIte] at h
    by_cases he : strSpecSOO cfg f o = SOO.empty
    · simp [he] at h
    · simp only [he, ↓reduceIte] at h
      by_cases hv : (if (strSpecSOO cfg f o).value = [] then o.valueFunc f (strSpecSOO cfg f o)
          else (strSpecSOO cfg f o).value) = []
      · simp [hv] at h
      · simp only [hv, ↓reduceIte, Option.some.injEq] at h; rw [← h]; exact hv


/-! ### a concrete image and configuration for the non-vacuity examples -/

def exFile : File :=
  { path := "acme/weather/v1/weather.proto".toList, pkg := "acme.weather.v1".toList,
    module := some "buf.build/acme/weather".toList,
    opts := [(1, .str "com.old".toList), (23, .bool true), (50001, .raw 77)],
    fields := [⟨"acme.weather.v1.M.id".toList, [4, 0, 2, 0], some 3, [(3, .bool true), (6, .num 1)], 11⟩,
               ⟨"acme.weather.v1.M.n".toList, [4, 0, 2, 1], some 5, [], 12⟩],
    locs := [⟨[], 0⟩, ⟨[8], 1⟩, ⟨[8, 1], 2⟩, ⟨[8], 3⟩, ⟨[8, 23], 4⟩, ⟨[4, 0, 2, 0, 8], 5⟩,
             ⟨[4, 0, 2, 0, 8, 6], 6⟩, ⟨[4, 0, 2, 0, 8, 3], 7⟩, ⟨[4, 0, 2, 1, 8], 8⟩],
    payload := 7 }

def exWkt : File :=
  { exFile with path := "google/protobuf/timestamp.proto".toList, pkg := "google.protobuf".toList }

def exCfg : Config :=
  { enabled := true,
    disables := [⟨"acme".toList, [], [], .csharpNamespace, false⟩],
    overrides := [⟨[], [], [], .javaPackage, false, "ignored.earlier".toList, false, 0⟩,
                  ⟨[], [], [], .javaPackageSuffix, false, "gen".toList, false, 0⟩,
                  ⟨[], [], [], .goPackagePrefix, false, "gen/go".toList, false, 0⟩,
                  ⟨[], [], [], .javaMultipleFiles, false, [], false, 0⟩,
                  ⟨[], [], [], .unspecified, true, [], false, 2⟩] }

end BufProofs.ManagedLemmas
