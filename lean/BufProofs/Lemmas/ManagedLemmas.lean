import BufModel.Managed
/-
  Helper lemmas for C18 (managed mode).
-/
namespace BufProofs.ManagedLemmas
open BufModel.Managed

/-- pointwise relation between two lists of the same length. -/
def AllRel {α β : Type} (R : α → β → Prop) : List α → List β → Prop
  | [], [] => True
  | a :: as, b :: bs => R a b ∧ AllRel R as bs
  | _, _ => False

theorem AllRel.mono {α β : Type} {R S : α → β → Prop} (h : ∀ a b, R a b → S a b) :
    ∀ {l : List α} {l' : List β}, AllRel R l l' → AllRel S l l'
  | [], [], _ => trivial
  | _ :: _, _ :: _, ⟨h1, h2⟩ => ⟨h _ _ h1, AllRel.mono h h2⟩
  | [], _ :: _, hf => hf.elim
  | _ :: _, [], hf => hf.elim

theorem AllRel.map_self {α β : Type} {R : α → β → Prop} (g : α → β) (h : ∀ a, R a (g a)) :
    ∀ l : List α, AllRel R l (l.map g)
  | [] => trivial
  | a :: as => ⟨h a, AllRel.map_self g h as⟩

theorem AllRel.map_left {α β γ : Type} {R : β → γ → Prop} (g : α → β) :
    ∀ {l : List α} {l' : List γ}, AllRel R (l.map g) l' → AllRel (fun a c => R (g a) c) l l'
  | [], [], _ => trivial
  | _ :: _, _ :: _, ⟨h1, h2⟩ => ⟨h1, AllRel.map_left g h2⟩
  | [], _ :: _, hf => hf.elim
  | _ :: _, [], hf => hf.elim

theorem AllRel.length_eq {α β : Type} {R : α → β → Prop} :
    ∀ {l : List α} {l' : List β}, AllRel R l l' → l.length = l'.length
  | [], [], _ => rfl
  | _ :: _, _ :: _, ⟨_, h2⟩ => by simp [AllRel.length_eq h2]
  | [], _ :: _, hf => hf.elim
  | _ :: _, [], hf => hf.elim

theorem AllRel.get {α β : Type} {R : α → β → Prop} :
    ∀ {l : List α} {l' : List β}, AllRel R l l' →
      ∀ (i : Nat) (a : α) (b : β), l[i]? = some a → l'[i]? = some b → R a b
  | [], [], _ => by intro i a b h; simp at h
  | x :: xs, y :: ys, ⟨h1, h2⟩ => by
      intro i a b ha hb
      cases i with
      | zero => simp at ha hb; subst ha; subst hb; exact h1
      | succ n => simp at ha hb; exact AllRel.get h2 n a b ha hb
  | [], _ :: _, hf => hf.elim
  | _ :: _, [], hf => hf.elim


theorem removeIndices_sublist (locs : List Loc) (rm : List Nat) :
    (removeIndices locs rm).Sublist locs := by
  unfold removeIndices
  have h1 : ((locs.zipIdx.filter fun p => !rm.contains p.2).map (·.1)).Sublist (locs.zipIdx.map (·.1)) :=
    List.Sublist.map _ List.filter_sublist
  simpa using h1

theorem sweepLocs_sublist {fixed : Bool} {mk : List (List Nat)} {locs l : List Loc}
    (h : sweepLocs fixed mk locs = some l) : l.Sublist locs := by
  unfold sweepLocs at h
  split at h
  · cases h; exact List.Sublist.refl _
  · cases hs : sweepRemoved fixed mk locs with
    | none => simp [hs] at h
    | some rm => simp [hs] at h; subst h; exact removeIndices_sublist _ _

/-- what `sweepAll` does to one (already modified) file. -/
def SweptOr (fixed : Bool) (p : File × List (List Nat)) (f' : File) : Prop :=
  ∃ l, f' = { p.1 with locs := l } ∧ (l = p.1.locs ∨ sweepLocs fixed p.2 p.1.locs = some l)

theorem sweepAll_rel (fixed : Bool) :
    ∀ l : List (File × List (List Nat)), AllRel (SweptOr fixed) l (sweepAll fixed l).files
  | [] => trivial
  | (f, mk) :: rest => by
    unfold sweepAll
    split
    · refine ⟨⟨f.locs, rfl, Or.inl rfl⟩, ?_⟩
      exact AllRel.map_self _ (fun p => ⟨p.1.locs, rfl, Or.inl rfl⟩) rest
    · rename_i l hl
      exact ⟨⟨l, rfl, Or.inr hl⟩, sweepAll_rel fixed rest⟩

def Swept (fixed : Bool) (p : File × List (List Nat)) (f' : File) : Prop :=
  ∃ l, f' = { p.1 with locs := l } ∧ sweepLocs fixed p.2 p.1.locs = some l

theorem sweepAll_ok (fixed : Bool) :
    ∀ l : List (File × List (List Nat)), (sweepAll fixed l).err = false →
      AllRel (Swept fixed) l (sweepAll fixed l).files
  | [], _ => trivial
  | (f, mk) :: rest, h => by
    unfold sweepAll at h ⊢
    split
    · rename_i hn; simp [hn] at h
    · rename_i l hl
      simp [hl] at h
      exact ⟨⟨l, rfl, hl⟩, sweepAll_ok fixed rest h⟩


/-- relation between an input file and the corresponding output file of `modifyWith`. -/
def OutRel (fixed preserve : Bool) (cfg : Config) (f f' : File) : Prop :=
  SweptOr fixed (modifyOptions preserve cfg f, fileMarks preserve cfg f) f'

theorem modifyWith_rel (fixed preserve : Bool) (cfg : Config) (img : List File)
    (h : cfg.enabled = true) :
    AllRel (OutRel fixed preserve cfg) img (modifyWith fixed preserve cfg img).files := by
  unfold modifyWith
  simp only [h, Bool.not_true, Bool.false_eq_true, ↓reduceIte]
  exact AllRel.map_left (fun f => (modifyOptions preserve cfg f, fileMarks preserve cfg f)) (sweepAll_rel fixed _)

theorem modifyWith_ok (fixed preserve : Bool) (cfg : Config) (img : List File)
    (h : cfg.enabled = true) (he : (modifyWith fixed preserve cfg img).err = false) :
    AllRel (fun f f' => Swept fixed (modifyOptions preserve cfg f, fileMarks preserve cfg f) f')
      img (modifyWith fixed preserve cfg img).files := by
  unfold modifyWith at he ⊢
  simp only [h, Bool.not_true, Bool.false_eq_true, ↓reduceIte] at he ⊢
  exact AllRel.map_left (fun f => (modifyOptions preserve cfg f, fileMarks preserve cfg f)) (sweepAll_ok fixed _ he)

theorem modifyOptions_locs (preserve : Bool) (cfg : Config) (f : File) :
    (modifyOptions preserve cfg f).locs = f.locs := by
  unfold modifyOptions applyOptions; split <;> rfl

def FieldFrame (fd fd' : Field) : Prop :=
  fd'.fullName = fd.fullName ∧ fd'.path = fd.path ∧ fd'.typ = fd.typ ∧ fd'.rest = fd.rest

def FileFrame (f f' : File) : Prop :=
  f'.rest = f.rest ∧ f'.path = f.path ∧ f'.pkg = f.pkg ∧ f'.module = f.module ∧
  AllRel FieldFrame f.fields f'.fields ∧ f'.locs.Sublist f.locs

theorem applyField_frame (preserve : Bool) (cfg : Config) (f : File) (fd : Field) :
    FieldFrame fd (applyField preserve cfg f fd) := by
  unfold applyField; split <;> simp [FieldFrame]

theorem AllRel.refl' {α : Type} {R : α → α → Prop} (h : ∀ a, R a a) : ∀ l : List α, AllRel R l l
  | [] => trivial
  | a :: as => ⟨h a, AllRel.refl' h as⟩

theorem modifyOptions_frame (preserve : Bool) (cfg : Config) (f : File) :
    FileFrame f (modifyOptions preserve cfg f) := by
  unfold modifyOptions
  split
  · exact ⟨rfl, rfl, rfl, rfl, AllRel.refl' (fun _ => ⟨rfl, rfl, rfl, rfl⟩) _, List.Sublist.refl _⟩
  · exact ⟨rfl, rfl, rfl, rfl, AllRel.map_self _ (applyField_frame preserve cfg f) _, List.Sublist.refl _⟩

theorem outRel_frame {fixed preserve : Bool} {cfg : Config} {f f' : File}
    (h : OutRel fixed preserve cfg f f') : FileFrame f f' := by
  obtain ⟨l, rfl, hl⟩ := h
  obtain ⟨h1, h2, h3, h4, h5, _⟩ := modifyOptions_frame preserve cfg f
  refine ⟨h1, h2, h3, h4, h5, ?_⟩
  simp only [modifyOptions_locs] at hl
  rcases hl with rfl | hs
  · exact List.Sublist.refl _
  · exact sweepLocs_sublist hs


theorem drop_cons_get {α : Type} {l : List α} {i : Nat} {x : α} {xs : List α}
    (h : l.drop i = x :: xs) : l[i]? = some x ∧ l.drop (i + 1) = xs := by
  induction l generalizing i with
  | nil => simp at h
  | cons a as ih =>
    cases i with
    | zero => simp at h; simp [h.1, h.2]
    | succ n => simp at h; simpa using ih h

/-- loop invariant of `sweepLoop` w.r.t. the whole location list `all`, after the first `i`
    locations have been processed. -/
structure SweepInv (mk : List (List Nat)) (all : List Loc) (i : Nat) (st : SweepSt) : Prop where
  removedOk : ∀ k ∈ st.removed,
    (∃ loc : Loc, all[k]? = some loc ∧ loc.path ∈ mk) ∨
    (∃ loc : Loc, all[k + 1]? = some loc ∧ loc.path ∈ mk ∧ isFileOptPath loc.path = true)
  trieOk : ∀ e ∈ st.trie,
    (∃ loc : Loc, all[e.index]? = some loc ∧ loc.path = e.path) ∧ pathType e.path = .fieldOptionsRoot ∧
    (e.hit = true → ∃ (j : Nat) (loc : Loc), all[j]? = some loc ∧ loc.path ∈ mk ∧ properPrefix e.path loc.path = true)
  complete : ∀ k, k < i → ∀ loc : Loc, all[k]? = some loc → loc.path ∈ mk → k ∈ st.removed

theorem trieUpd_mem (g : TEntry → TEntry) :
    ∀ (t : List TEntry) (d : List Nat) (e' : TEntry), e' ∈ trieUpdAncestor g t d →
      e' ∈ t ∨ ∃ e ∈ t, e' = g e ∧ properPrefix e.path d = true
  | [], _, e', h => by simp [trieUpdAncestor] at h
  | e :: es, d, e', h => by
    unfold trieUpdAncestor at h
    split at h
    · rename_i hp
      rcases List.mem_cons.mp h with rfl | h2
      · exact Or.inr ⟨e, by simp, rfl, hp⟩
      · exact Or.inl (by simp [h2])
    · rcases List.mem_cons.mp h with rfl | h2
      · exact Or.inl (by simp)
      · rcases trieUpd_mem g es d e' h2 with h3 | ⟨e0, h4, h5⟩
        · exact Or.inl (by simp [h3])
        · exact Or.inr ⟨e0, by simp [h4], h5⟩

theorem trieInsert_mem (t : List TEntry) (p : List Nat) (i : Nat) (e' : TEntry)
    (h : e' ∈ trieInsert t p i) :
    e' ∈ t ∨ (e'.path = p ∧ e'.index = i ∧ (e' = ⟨p, i, 0, false⟩ ∨ ∃ e ∈ t, e' = { e with index := i })) := by
  unfold trieInsert at h
  split at h
  · obtain ⟨e, he, rfl⟩ := List.mem_map.mp h
    by_cases hp : e.path = p
    · simp only [hp, ↓reduceIte]
      exact Or.inr ⟨trivial, trivial, Or.inr ⟨e, he, by simp [hp]⟩⟩
    · simp only [hp, ↓reduceIte]; exact Or.inl he
  · rcases List.mem_append.mp h with h1 | h1
    · exact Or.inl h1
    · simp at h1; subst h1; exact Or.inr ⟨rfl, rfl, Or.inl rfl⟩

theorem insertRoot_inv {mk : List (List Nat)} {all : List Loc} {i : Nat} {st : SweepSt} {loc : Loc}
    (hget : all[i]? = some loc) (inv : SweepInv mk all i st) : SweepInv mk all i (insertRoot st loc i) := by
  unfold insertRoot
  split
  · rename_i hroot
    refine ⟨inv.removedOk, ?_, inv.complete⟩
    intro e he
    rcases trieInsert_mem _ _ _ _ he with h1 | ⟨hp, hi, h2⟩
    · exact inv.trieOk e h1
    · refine ⟨⟨loc, by rw [hi]; exact hget, hp.symm⟩, by rw [hp]; exact hroot, ?_⟩
      rcases h2 with rfl | ⟨e0, he0, rfl⟩
      · intro hh; simp at hh
      · intro hh; exact (inv.trieOk e0 he0).2.2 hh
  · exact inv

theorem sweepLoop_inv (mk : List (List Nat)) (all : List Loc) :
    ∀ (rest : List Loc) (i : Nat) (prev : Option (List Nat)) (st st' : SweepSt),
      all.drop i = rest → SweepInv mk all i st → sweepLoop mk i prev rest st = some st' →
      SweepInv mk all all.length st'
  | [], i, prev, st, st', hdrop, inv, h => by
    unfold sweepLoop at h; cases h
    have hi : all.length ≤ i := by
      have := congrArg List.length hdrop; simp at this; omega
    exact ⟨inv.removedOk, inv.trieOk, fun k hk loc hl hm => by
      have : k < all.length := by
        rcases Nat.lt_or_ge k all.length with h1 | h1
        · exact h1
        · simp [List.getElem?_eq_none h1] at hl
      exact inv.complete k (by omega) loc hl hm⟩
  | loc :: rest, i, prev, st, st', hdrop, inv, h => by
    obtain ⟨hget, hdrop'⟩ := drop_cons_get hdrop
    unfold sweepLoop at h
    have inv1 := insertRoot_inv hget inv
    generalize insertRoot st loc i = st1 at h inv1
    by_cases hmk : mk.contains loc.path = true
    · have hmem : loc.path ∈ mk := by simpa using hmk
      simp only [hmk, Bool.not_true, Bool.false_eq_true, ↓reduceIte] at h
      split at h; · cases h
      rename_i hi0
      split at h
      · rename_i hfo
        split at h; · cases h
        refine sweepLoop_inv mk all rest (i + 1) _
          { trie := st1.trie, removed := i :: (i - 1) :: st1.removed } st' hdrop' ⟨?_, inv1.trieOk, ?_⟩ h
        · intro k hk
          simp only [List.mem_cons] at hk
          rcases hk with rfl | rfl | hk
          · exact Or.inl ⟨loc, hget, hmem⟩
          · refine Or.inr ⟨loc, ?_, hmem, hfo⟩
            have : i - 1 + 1 = i := by omega
            rw [this]; exact hget
          · exact inv1.removedOk k hk
        · intro k hk l hl hm
          by_cases hki : k = i
          · subst hki; simp
          · simp only [List.mem_cons]
            exact Or.inr (Or.inr (inv1.complete k (by omega) l hl hm))
      · split at h
        · refine sweepLoop_inv mk all rest (i + 1) _ _ st' hdrop' ⟨?_, ?_, ?_⟩ h
          · intro k hk
            simp only [List.mem_cons] at hk
            rcases hk with rfl | hk
            · exact Or.inl ⟨loc, hget, hmem⟩
            · exact inv1.removedOk k hk
          · intro e he
            rcases trieUpd_mem _ _ _ _ he with h1 | ⟨e0, he0, rfl, hpp⟩
            · exact inv1.trieOk e h1
            · obtain ⟨a, b, _⟩ := inv1.trieOk e0 he0
              exact ⟨a, b, fun _ => ⟨i, loc, hget, hmem, hpp⟩⟩
          · intro k hk l hl hm
            by_cases hki : k = i
            · subst hki; simp
            · simp only [List.mem_cons]
              exact Or.inr (inv1.complete k (by omega) l hl hm)
        · cases h
    · have hnmem : loc.path ∉ mk := by simpa using hmk
      simp only [hmk, Bool.not_false, ↓reduceIte] at h
      refine sweepLoop_inv mk all rest (i + 1) _ _ st' hdrop' ⟨?_, ?_, ?_⟩ h
      · unfold registerKept; split
        · exact inv1.removedOk
        · exact inv1.removedOk
      · unfold registerKept; split
        · intro e he
          rcases trieUpd_mem _ _ _ _ he with h1 | ⟨e0, he0, rfl, _⟩
          · exact inv1.trieOk e h1
          · exact inv1.trieOk e0 he0
        · exact inv1.trieOk
      · intro k hk l hl hm
        by_cases hki : k = i
        · subst hki; rw [hget] at hl; cases hl; exact absurd hm hnmem
        · have := inv1.complete k (by omega) l hl hm
          unfold registerKept; split <;> exact this




/-! ### helpers for the property theorems -/

/-- `f'` is what `modify cfg img` returns at the position where `img` holds `f`. -/
def Out (cfg : Config) (img : List File) (f f' : File) : Prop :=
  ∃ i : Nat, img[i]? = some f ∧ (BufModel.Managed.modify cfg img).files[i]? = some f'


theorem foldl_last {α β : Type} (p : α → Bool) (g : α → β) (l : List α) (init : Option β) :
    l.foldl (fun acc r => if p r then some (g r) else acc) init =
      (((l.filter p).getLast?).map g).or init := by
  induction l generalizing init with
  | nil => simp
  | cons a as ih =>
    simp only [List.foldl_cons, ih]
    by_cases hp : p a = true
    · simp only [hp, if_true, List.filter_cons_of_pos]
      cases hl : (as.filter p) with
      | nil => simp
      | cons b bs =>
        have : (b :: bs).getLast? = some ((b :: bs).getLast (by simp)) := List.getLast?_eq_some_getLast (by simp)
        simp [this]
    · simp [hp]

/-- `lastOverride` is the last rule, in configuration order, that matches the file and is for
    exactly this option. -/
theorem lastOverride_eq (cfg : Config) (f : File) (o : FileOption) :
    lastOverride cfg f o =
      (cfg.overrides.filter fun r => fileMatch f r.path r.module && r.fileOption = o).getLast? := by
  unfold lastOverride
  have := foldl_last (fun r : Override => fileMatch f r.path r.module && decide (r.fileOption = o)) id cfg.overrides none
  simpa using this


theorem stringOverride_disabled {cfg : Config} {f : File} {d : SOO} {v p s : FileOption}
    (h : isFileOptionDisabled cfg f v = true) : stringOverride cfg f d v p s = SOO.empty := by
  unfold stringOverride; simp [h]

/-- an override rule concerns string option `o` of file `f`: it matches the file and is for the
    option itself or for its prefix / suffix companion. -/
def relevant (f : File) (o : StrOpt) (r : Override) : Bool :=
  fileMatch f r.path r.module &&
    (r.fileOption = o.valueOpt ||
     (r.fileOption = o.prefixOpt && o.prefixOpt ≠ .unspecified) ||
     (r.fileOption = o.suffixOpt && o.suffixOpt ≠ .unspecified))

theorem sooStep_irrelevant (cfg : Config) (f : File) (o : StrOpt) (acc : SOO) (r : Override)
    (hr : relevant f o r = false) :
    sooStep f o.valueOpt o.prefixOpt o.suffixOpt
      (o.prefixOpt = .unspecified || isFileOptionDisabled cfg f o.prefixOpt)
      (o.suffixOpt = .unspecified || isFileOptionDisabled cfg f o.suffixOpt) acc r = acc := by
  unfold sooStep
  unfold relevant at hr
  by_cases hm : fileMatch f r.path r.module = true
  · simp only [hm, Bool.true_and, Bool.or_eq_false_iff, Bool.and_eq_false_imp, decide_eq_true_eq,
      decide_eq_false_iff_not] at hr
    obtain ⟨⟨h1, h2⟩, h3⟩ := hr
    simp only [hm, Bool.not_true, Bool.false_eq_true, ↓reduceIte, h1]
    by_cases hp : r.fileOption = o.prefixOpt
    · have := h2 hp; simp at this; simp [hp, this]
    · simp only [hp, ↓reduceIte]
      by_cases hs : r.fileOption = o.suffixOpt
      · have := h3 hs; simp at this; simp [hs, this]
      · simp [hs]
  · simp [hm]

theorem foldl_irrelevant (cfg : Config) (f : File) (o : StrOpt) (post : List Override)
    (hpost : ∀ r ∈ post, relevant f o r = false) (acc : SOO) :
    post.foldl (sooStep f o.valueOpt o.prefixOpt o.suffixOpt
      (o.prefixOpt = .unspecified || isFileOptionDisabled cfg f o.prefixOpt)
      (o.suffixOpt = .unspecified || isFileOptionDisabled cfg f o.suffixOpt)) acc = acc := by
  induction post generalizing acc with
  | nil => rfl
  | cons r rs ih =>
    simp only [List.foldl_cons]
    rw [sooStep_irrelevant cfg f o acc r (hpost r (by simp))]
    exact ih (fun r' hr' => hpost r' (by simp [hr'])) acc


theorem sweepInv_init (mk : List (List Nat)) (all : List Loc) : SweepInv mk all 0 ⟨[], []⟩ :=
  ⟨by intro k hk; simp at hk, by intro e he; simp at he, by intro k hk; omega⟩


/-! ### a concrete image and configuration for the non-vacuity examples -/

def exFile : File :=
  { path := "acme/weather/v1/weather.proto".toList, pkg := "acme.weather.v1".toList,
    module := some "buf.build/acme/weather".toList,
    strOpts := fun o => if o = .javaPackage then some "com.old".toList else none,
    boolOpts := fun _ => none, optimizeFor := none,
    fields := [⟨"acme.weather.v1.M.id".toList, [4, 0, 2, 0], some 3, some 1, 0⟩,
               ⟨"acme.weather.v1.M.n".toList, [4, 0, 2, 1], some 5, none, 0⟩],
    locs := [⟨[], 0⟩, ⟨[8], 1⟩, ⟨[8, 1], 2⟩, ⟨[4, 0, 2, 0, 8], 3⟩, ⟨[4, 0, 2, 0, 8, 6], 4⟩,
             ⟨[4, 0, 2, 1, 8], 5⟩],
    rest := 7 }

def exWkt : File :=
  { exFile with path := "google/protobuf/timestamp.proto".toList, pkg := "google.protobuf".toList }

def exCfg : Config :=
  { enabled := true,
    disables := [⟨"acme".toList, [], [], .csharpNamespace, false⟩],
    overrides := [⟨[], [], [], .goPackagePrefix, false, "gen/go".toList, false, 0⟩,
                  ⟨[], [], [], .javaMultipleFiles, false, [], false, 0⟩,
                  ⟨[], [], [], .unspecified, true, [], false, 2⟩] }


/-- two files that agree on path, package and module. -/
def SameKey (f g : File) : Prop := g.path = f.path ∧ g.pkg = f.pkg ∧ g.module = f.module

theorem fileMatch_congr {f g : File} (h : SameKey f g) (p m : List Char) : fileMatch g p m = fileMatch f p m := by
  unfold fileMatch; rw [h.1, h.2.2]

theorem isFileOptionDisabled_congr {f g : File} (h : SameKey f g) (cfg : Config) (o : FileOption) :
    isFileOptionDisabled cfg g o = isFileOptionDisabled cfg f o := by
  unfold isFileOptionDisabled; simp only [fileMatch_congr h]

theorem lastOverride_congr {f g : File} (h : SameKey f g) (cfg : Config) (o : FileOption) :
    lastOverride cfg g o = lastOverride cfg f o := by
  unfold lastOverride; simp only [fileMatch_congr h]

theorem jocv_congr {f g : File} (h : SameKey f g) : javaOuterClassnameValue g = javaOuterClassnameValue f := by
  unfold javaOuterClassnameValue; rw [h.1]
theorem objc_congr {f g : File} (h : SameKey f g) : objcClassPrefixValue g = objcClassPrefixValue f := by
  unfold objcClassPrefixValue; rw [h.2.1]
theorem csharp_congr {f g : File} (h : SameKey f g) : csharpNamespaceValue g = csharpNamespaceValue f := by
  unfold csharpNamespaceValue; rw [h.2.1]
theorem php_congr {f g : File} (h : SameKey f g) : phpNamespaceValue g = phpNamespaceValue f := by
  unfold phpNamespaceValue; rw [h.2.1]
theorem phpMeta_congr {f g : File} (h : SameKey f g) : phpMetadataNamespaceValue g = phpMetadataNamespaceValue f := by
  unfold phpMetadataNamespaceValue; rw [php_congr h]
theorem ruby_congr {f g : File} (h : SameKey f g) : rubyPackageValue g = rubyPackageValue f := by
  unfold rubyPackageValue; rw [h.2.1]
theorem goImport_congr {f g : File} (h : SameKey f g) (p : List Char) : goPackageImportPath g p = goPackageImportPath f p := by
  unfold goPackageImportPath; rw [h.1, h.2.1]

theorem defaultSOO_congr {f g : File} (h : SameKey f g) (o : StrOpt) : o.defaultSOO g = o.defaultSOO f := by
  cases o <;> unfold StrOpt.defaultSOO <;>
    simp only [jocv_congr h, objc_congr h, csharp_congr h, php_congr h, phpMeta_congr h, ruby_congr h]

theorem valueFunc_congr {f g : File} (h : SameKey f g) (o : StrOpt) (s : SOO) : o.valueFunc g s = o.valueFunc f s := by
  cases o <;> unfold StrOpt.valueFunc <;>
    simp only [getJavaPackageValue, getCsharpNamespaceValue, getPhpMetadataNamespaceValue, getRubyPackageValue,
      jocv_congr h, objc_congr h, csharp_congr h, php_congr h, ruby_congr h, goImport_congr h, h.2.1]

theorem strTarget_congr {f g : File} (h : SameKey f g) (cfg : Config) (o : StrOpt) :
    strTarget cfg g o = strTarget cfg f o := by
  unfold strTarget stringOverride sooStep
  simp only [fileMatch_congr h, isFileOptionDisabled_congr h, defaultSOO_congr h, valueFunc_congr h]

theorem boolTarget_congr {f g : File} (h : SameKey f g) (cfg : Config) (o : BoolOpt) :
    boolTarget cfg g o = boolTarget cfg f o := by
  unfold boolTarget; simp only [isFileOptionDisabled_congr h, lastOverride_congr h]

theorem optimizeTarget_congr {f g : File} (h : SameKey f g) (cfg : Config) :
    optimizeTarget cfg g = optimizeTarget cfg f := by
  unfold optimizeTarget; simp only [isFileOptionDisabled_congr h, lastOverride_congr h]

theorem jsOverrides_congr {f g : File} (h : SameKey f g) (cfg : Config) : jsOverrides cfg g = jsOverrides cfg f := by
  unfold jsOverrides; simp only [fileMatch_congr h]

theorem jsDisables_congr {f g : File} (h : SameKey f g) (cfg : Config) : jsDisables cfg g = jsDisables cfg f := by
  unfold jsDisables; simp only [fileMatch_congr h]

theorem jsFileActive_congr {f g : File} (h : SameKey f g) (cfg : Config) : jsFileActive cfg g = jsFileActive cfg f := by
  unfold jsFileActive; rw [jsOverrides_congr h, jsDisables_congr h, h.1]

theorem jsTarget_congr {f g : File} (h : SameKey f g) (cfg : Config) (n : List Char) : jsTarget cfg g n = jsTarget cfg f n := by
  unfold jsTarget; rw [jsOverrides_congr h]




theorem strChange_fixed {f g : File} (h : SameKey f g) (cfg : Config) (o : StrOpt)
    (hg : g.strOpts o = (match strChange false cfg f o with | some v => some v | none => f.strOpts o)) :
    strChange false cfg g o = none := by
  unfold strChange at hg ⊢
  simp only [Bool.false_and, Bool.false_eq_true, ↓reduceIte, strTarget_congr h] at hg ⊢
  cases ht : strTarget cfg f o with
  | none => rfl
  | some v =>
    simp only [ht] at hg ⊢
    by_cases hc : (f.strOpts o).getD [] = v
    · simp only [hc, ↓reduceIte] at hg; simp [hg, hc]
    · simp only [hc, ↓reduceIte] at hg; simp [hg]

theorem boolChange_fixed {f g : File} (h : SameKey f g) (cfg : Config) (o : BoolOpt)
    (hg : g.boolOpts o = (match boolChange false cfg f o with | some v => some v | none => f.boolOpts o)) :
    boolChange false cfg g o = none := by
  unfold boolChange at hg ⊢
  simp only [Bool.false_and, Bool.false_eq_true, ↓reduceIte, boolTarget_congr h] at hg ⊢
  cases ht : boolTarget cfg f o with
  | none => rfl
  | some v =>
    simp only [ht] at hg ⊢
    by_cases hc : (f.boolOpts o).getD o.protoDefault = v
    · simp only [hc, ↓reduceIte] at hg; simp [hg, hc]
    · simp only [hc, ↓reduceIte] at hg; simp [hg]

theorem optimizeChange_fixed {f g : File} (h : SameKey f g) (cfg : Config)
    (hg : g.optimizeFor = (match optimizeChange false cfg f with | some v => some v | none => f.optimizeFor)) :
    optimizeChange false cfg g = none := by
  unfold optimizeChange at hg ⊢
  simp only [Bool.false_and, Bool.false_eq_true, ↓reduceIte, optimizeTarget_congr h] at hg ⊢
  cases ht : optimizeTarget cfg f with
  | none => rfl
  | some v =>
    simp only [ht] at hg ⊢
    by_cases hc : f.optimizeFor.getD optimizeSpeed = v
    · simp only [hc, ↓reduceIte] at hg; simp [hg, hc]
    · simp only [hc, ↓reduceIte] at hg; simp [hg]

theorem jsChange_fixed {f g : File} (h : SameKey f g) (cfg : Config) (fd : Field) :
    jsChange false cfg g (applyField false cfg f fd) = none := by
  unfold applyField
  cases hc : jsChange false cfg f fd with
  | none =>
    simp only
    rw [← hc]
    unfold jsChange
    simp only [jsFileActive_congr h, jsDisables_congr h, jsTarget_congr h]
  | some v =>
    simp only
    unfold jsChange at hc ⊢
    simp only [jsFileActive_congr h, jsDisables_congr h, jsTarget_congr h]
    split at hc; · cases hc
    rename_i h1
    split at hc; · cases hc
    rename_i h2
    split at hc; · cases hc
    rename_i v' hv'
    split at hc; · cases hc
    split at hc; · cases hc
    rename_i t ht
    split at hc; · cases hc
    rename_i h5
    split at hc; · cases hc
    cases hc
    simp [h1, h2, h5]




/-- a file that agrees with the modifiers' output on the governed options is a fixed point of
    the modifiers and yields no marks. -/
theorem applyOptions_fixed' (cfg : Config) (f g : File) (hk : SameKey f g)
    (e1 : g.strOpts = (applyOptions false cfg f).strOpts)
    (e2 : g.boolOpts = (applyOptions false cfg f).boolOpts)
    (e3 : g.optimizeFor = (applyOptions false cfg f).optimizeFor)
    (e4 : g.fields = (applyOptions false cfg f).fields) :
    applyOptions false cfg g = g ∧ marks false cfg g = [] := by
  have hs : ∀ o, strChange false cfg g o = none := fun o => strChange_fixed hk cfg o (by rw [e1]; rfl)
  have hb : ∀ o, boolChange false cfg g o = none := fun o => boolChange_fixed hk cfg o (by rw [e2]; rfl)
  have ho : optimizeChange false cfg g = none := optimizeChange_fixed hk cfg (by rw [e3]; rfl)
  have hf : ∀ fd ∈ g.fields, jsChange false cfg g fd = none := by
    intro fd hfd
    rw [e4] at hfd
    obtain ⟨fd0, _, rfl⟩ := List.mem_map.mp hfd
    exact jsChange_fixed hk cfg fd0
  have h4 : g.fields.map (applyField false cfg g) = g.fields := by
    conv => rhs; rw [← List.map_id g.fields]
    apply List.map_congr_left
    intro fd hfd
    unfold applyField; simp [hf fd hfd]
  constructor
  · unfold applyOptions
    simp only [hs, hb, ho, h4]
  · unfold marks
    have m1 : (StrOpt.all.filterMap fun o => (strChange false cfg g o).map fun _ => [8, o.tag]) = [] := by
      simp [hs]
    have m2 : (BoolOpt.all.filterMap fun o => (boolChange false cfg g o).map fun _ => [8, o.tag]) = [] := by
      simp [hb]
    rw [m1, m2, ho]
    simp only [List.nil_append, Option.map_none, Option.toList_none]
    apply List.filterMap_eq_nil_iff.mpr
    intro fd hfd; simp [hf fd hfd]

theorem applyOptions_fixed (cfg : Config) (f : File) (l : List Loc) :
    applyOptions false cfg { applyOptions false cfg f with locs := l } = { applyOptions false cfg f with locs := l } ∧
    marks false cfg { applyOptions false cfg f with locs := l } = [] :=
  applyOptions_fixed' cfg f _ ⟨rfl, rfl, rfl⟩ rfl rfl rfl rfl

theorem modifyOptions_fixed (cfg : Config) (f : File) (l : List Loc) :
    modifyOptions false cfg { modifyOptions false cfg f with locs := l } = { modifyOptions false cfg f with locs := l } ∧
    fileMarks false cfg { modifyOptions false cfg f with locs := l } = [] := by
  by_cases hw : isWKT f.path = true
  · have hm : modifyOptions false cfg f = f := by unfold modifyOptions; simp [hw]
    rw [hm]
    have hp : isWKT ({ f with locs := l } : File).path = true := hw
    unfold modifyOptions fileMarks
    simp [hp]
  · have hm : modifyOptions false cfg f = applyOptions false cfg f := by unfold modifyOptions; simp [hw]
    rw [hm]
    have hp : isWKT ({ applyOptions false cfg f with locs := l } : File).path = false := by
      show isWKT f.path = false
      simpa using hw
    unfold modifyOptions fileMarks
    simp only [hp, Bool.false_eq_true, ↓reduceIte]
    exact applyOptions_fixed cfg f l

theorem sweepAll_nomarks (fixed : Bool) :
    ∀ l : List File, sweepAll fixed (l.map fun f => (f, ([] : List (List Nat)))) = ⟨l, false⟩
  | [] => rfl
  | f :: fs => by
    simp only [List.map_cons]
    unfold sweepAll
    have : sweepLocs fixed [] f.locs = some f.locs := by unfold sweepLocs; simp
    simp only [this, sweepAll_nomarks fixed fs]

theorem AllRel.mem_right {α β : Type} {R : α → β → Prop} :
    ∀ {l : List α} {l' : List β}, AllRel R l l' → ∀ b ∈ l', ∃ a ∈ l, R a b
  | [], [], _ => by intro b hb; simp at hb
  | x :: xs, y :: ys, ⟨h1, h2⟩ => by
      intro b hb
      rcases List.mem_cons.mp hb with rfl | hb'
      · exact ⟨x, by simp, h1⟩
      · obtain ⟨a, ha, hr⟩ := AllRel.mem_right h2 b hb'
        exact ⟨a, by simp [ha], hr⟩
  | [], _ :: _, hf => hf.elim
  | _ :: _, [], hf => hf.elim

/-- Idempotence: applying managed mode to its own output changes nothing and reports no
    error — also when the first application ended with a sweep error. -/
theorem modifyWith_idempotent (fixed : Bool) (cfg : Config) (img : List File) :
    modifyWith fixed false cfg (modifyWith fixed false cfg img).files =
      ⟨(modifyWith fixed false cfg img).files, false⟩ := by
  cases he : cfg.enabled
  · unfold modifyWith; simp [he]
  · have hrel := modifyWith_rel fixed false cfg img he
    generalize (modifyWith fixed false cfg img).files = out at hrel
    unfold modifyWith
    simp only [he, Bool.not_true, Bool.false_eq_true, ↓reduceIte]
    have : out.map (fun f => (modifyOptions false cfg f, fileMarks false cfg f)) =
        out.map (fun f => (f, ([] : List (List Nat)))) := by
      apply List.map_congr_left
      intro g hg
      obtain ⟨f, _, l, rfl, _⟩ := AllRel.mem_right hrel g hg
      have := modifyOptions_fixed cfg f l
      rw [this.1, this.2]
    rw [this, sweepAll_nomarks]



end BufProofs.ManagedLemmas
