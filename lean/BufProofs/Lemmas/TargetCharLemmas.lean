import BufProofs.Lemmas.TargetingLemmas
import BufProofs.Lemmas.DfsLemmas
/-
  Second-pass lemmas for C01 / C10: the target-file decision characterised.

  * `mapHas_iff`                       MapHasEqualOrContainingPath m p ⇔ ∃ q ∈ m, q ⊑ p
  * `isTargetFile_paths_iff`,
    `isTargetFile_protoFile_iff`       user-level reading of getIsTargetFileForPathUncached
  * `mem_moduleTargetFiles`            the per-module target walk lists exactly the target files
  * `walkTargets_ok` / `walkTargets_of_nodup`   the multi-bucket walk, both directions
  * `targetList_ok`, `mem_targetList`, `targetList_ok_of`
-/
set_option linter.unusedSectionVars false
set_option linter.unusedVariables false
namespace BufModel.Targeting
open BufModel.Path BufModel.Graph

/-! ### MapHasEqualOrContainingPath -/

theorem mapHasLoop_eq_any (m : List Str) : ∀ (fuel : Nat) (cur : Str),
    mapHasLoop m fuel cur = m.any (fun v => ecpLoop v fuel cur)
  | 0, cur => by simp [mapHasLoop, ecpLoop]
  | fuel + 1, cur => by
    unfold mapHasLoop
    by_cases h1 : cur = dot
    · simp [h1, ecpLoop]
    · simp only [h1, if_false]
      by_cases h2 : cur ∈ m
      · simp only [h2, if_true]
        symm
        rw [List.any_eq_true]
        exact ⟨cur, h2, by simp [ecpLoop, h1]⟩
      · simp only [h2, if_false]
        rw [mapHasLoop_eq_any m fuel (dir cur)]
        have hne : ∀ v ∈ m, v ≠ cur := by
          intro v hv hvc; subst hvc; exact h2 hv
        rw [Bool.eq_iff_iff]
        simp only [List.any_eq_true]
        constructor
        · rintro ⟨v, hv, hl⟩
          exact ⟨v, hv, by simp [ecpLoop, h1, hne v hv, hl]⟩
        · rintro ⟨v, hv, hl⟩
          refine ⟨v, hv, ?_⟩
          simpa [ecpLoop, h1, hne v hv] using hl

/-- `MapHasEqualOrContainingPath m path` ⇔ some entry of `m` equals or contains `path`
    (component-wise, `normalpath.EqualsOrContainsPath`). -/
theorem mapHas_iff (m : List Str) (path : Str) :
    mapHasEqualOrContainingPath m path = true ↔ ∃ q ∈ m, equalsOrContainsPath q path = true := by
  unfold mapHasEqualOrContainingPath
  by_cases h0 : m = []
  · subst h0; simp
  · simp only [h0, if_false]
    by_cases h1 : dot ∈ m
    · simp only [h1, if_true, true_iff]
      exact ⟨dot, h1, by simp [equalsOrContainsPath]⟩
    · simp only [h1, if_false]
      rw [mapHasLoop_eq_any, List.any_eq_true]
      have hne : ∀ v ∈ m, v ≠ dot := by
        intro v hv hvc; subst hvc; exact h1 hv
      constructor
      · rintro ⟨v, hv, hl⟩; exact ⟨v, hv, by simp [equalsOrContainsPath, hne v hv, hl]⟩
      · rintro ⟨v, hv, hl⟩; exact ⟨v, hv, by simpa [equalsOrContainsPath, hne v hv] using hl⟩

theorem mapHas_false_iff (m : List Str) (path : Str) :
    mapHasEqualOrContainingPath m path = false ↔ ∀ q ∈ m, equalsOrContainsPath q path = false := by
  rw [← Bool.not_eq_true, mapHas_iff]
  constructor
  · intro h q hq
    cases he : equalsOrContainsPath q path with
    | false => rfl
    | true => exact absurd ⟨q, hq, he⟩ h
  · rintro h ⟨q, hq, he⟩
    rw [h q hq] at he; cases he

/-! ### getIsTargetFileForPathUncached, read at user level -/

/-- Without a proto-file reference: a file is a target file iff its module is targeted, no
    `--path` was given or some `--path` equals or contains the file's path, and no
    `--exclude-path` equals or contains it. -/
theorem isTargetFile_paths_iff (mt : Bool) (cfg : TCfg) (files : List PFile) (f : PFile)
    (hpf : cfg.protoFile = []) :
    isTargetFile mt cfg files f = true ↔
      mt = true ∧
      (cfg.paths = [] ∨ ∃ q ∈ cfg.paths, equalsOrContainsPath q f.path = true) ∧
      (∀ q ∈ cfg.excludes, equalsOrContainsPath q f.path = false) := by
  unfold isTargetFile
  cases mt
  · simp
  · simp only [Bool.not_true, Bool.false_eq_true, ↓reduceIte, hpf, ne_eq, not_true_eq_false, true_and]
    by_cases hp : cfg.paths = []
    · by_cases he : cfg.excludes = []
      · simp [hp, he]
      · simp only [hp, he, decide_true, decide_false, Bool.and_false, Bool.false_eq_true, ↓reduceIte,
          Bool.not_eq_true', true_or, true_and]
        exact mapHas_false_iff _ _
    · by_cases he : cfg.excludes = []
      · simp only [hp, he, decide_false, Bool.false_and, Bool.false_eq_true, ↓reduceIte, decide_true,
          false_or, List.not_mem_nil, false_imp_iff, implies_true, and_true]
        exact mapHas_iff _ _
      · simp only [hp, he, decide_false, Bool.false_and, Bool.false_eq_true, ↓reduceIte,
          Bool.and_eq_true, Bool.not_eq_true', false_or]
        rw [mapHas_iff, mapHas_false_iff]

/-- With a proto-file reference (`buf build path/to/file.proto`): the referenced file is always
    a target; with `include_package_files=true` so is every file whose package equals the
    (non-empty) package of the referenced file, provided the module has that file. -/
theorem isTargetFile_protoFile_iff (mt : Bool) (cfg : TCfg) (files : List PFile) (f : PFile)
    (hpf : cfg.protoFile ≠ []) :
    isTargetFile mt cfg files f = true ↔
      mt = true ∧
      (f.path = cfg.protoFile ∨
        (cfg.includePackageFiles = true ∧
          ∃ t, files.find? (fun g => g.path == cfg.protoFile) = some t ∧ t.pkg ≠ [] ∧ t.pkg = f.pkg)) := by
  unfold isTargetFile
  cases mt
  · simp
  · simp only [Bool.not_true, Bool.false_eq_true, ↓reduceIte, ne_eq, hpf, not_false_eq_true, true_and]
    by_cases h1 : f.path = cfg.protoFile
    · simp [h1]
    · simp only [h1, ↓reduceIte, false_or]
      cases hi : cfg.includePackageFiles
      · simp
      · simp only [Bool.not_true, Bool.false_eq_true, ↓reduceIte, true_and]
        cases hfind : files.find? (fun g => g.path == cfg.protoFile) with
        | none => simp
        | some t =>
          simp only [Option.some.injEq, exists_eq_left']
          by_cases hp : t.pkg = []
          · simp [hp]
          · simp [hp]

/-- in a bucket (paths pairwise distinct) `find?` by path finds THE file with that path. -/
theorem find_path_of_nodup {files : List PFile} (hnd : (files.map (·.path)).Nodup) {t : PFile} {p : Str}
    (ht : t ∈ files) (hp : t.path = p) : files.find? (fun g => g.path == p) = some t := by
  induction files with
  | nil => simp at ht
  | cons g gs ih =>
    simp only [List.map_cons, List.nodup_cons] at hnd
    rcases List.mem_cons.mp ht with rfl | ht'
    · simp [List.find?, hp]
    · have hne : g.path ≠ p := by
        intro hg
        exact hnd.1 (List.mem_map.mpr ⟨t, ht', by rw [hp, hg]⟩)
      have hb : (g.path == p) = false := by simpa using hne
      rw [List.find?_cons, hb]
      exact ih hnd.2 ht'

/-- the same with "the module has a file `t` with that path" instead of `find?`. -/
theorem isTargetFile_protoFile_iff_mem (mt : Bool) (cfg : TCfg) (files : List PFile) (f : PFile)
    (hpf : cfg.protoFile ≠ []) (hnd : (files.map (·.path)).Nodup) :
    isTargetFile mt cfg files f = true ↔
      mt = true ∧
      (f.path = cfg.protoFile ∨
        (cfg.includePackageFiles = true ∧
          ∃ t ∈ files, t.path = cfg.protoFile ∧ t.pkg ≠ [] ∧ t.pkg = f.pkg)) := by
  rw [isTargetFile_protoFile_iff mt cfg files f hpf]
  constructor
  · rintro ⟨h1, h2⟩
    refine ⟨h1, h2.imp id ?_⟩
    rintro ⟨hi, t, hfind, hp, hpk⟩
    exact ⟨hi, t, List.mem_of_find?_eq_some hfind, by simpa using List.find?_some hfind, hp, hpk⟩
  · rintro ⟨h1, h2⟩
    refine ⟨h1, h2.imp id ?_⟩
    rintro ⟨hi, t, ht, htp, hp, hpk⟩
    exact ⟨hi, t, find_path_of_nodup hnd ht htp, hp, hpk⟩

/-- a file of a module that is not targeted is never a target file. -/
theorem isTargetIn_false_of_nontarget (t : TWS) (m : Nat) (f : PFile) (h : modIsTarget t m = false) :
    isTargetIn t m f = false := by
  unfold isTargetIn isTargetFile
  simp [h]

theorem modIsTarget_of_isTargetIn {t : TWS} {m : Nat} {f : PFile} (h : isTargetIn t m f = true) :
    modIsTarget t m = true := by
  cases hm : modIsTarget t m with
  | true => rfl
  | false => rw [isTargetIn_false_of_nontarget t m f hm] at h; cases h

/-! ### the per-module target walk -/

/-- what `ModuleSetBuilder.AddLocalModule` validates (module_set_builder.go: "cannot set
    TargetPaths and ProtoFileTargetPath"): a proto-file reference excludes path lists. -/
def WfCfg (c : TCfg) : Prop := c.protoFile ≠ [] → c.paths = [] ∧ c.excludes = []

instance (c : TCfg) : Decidable (WfCfg c) := by unfold WfCfg; exact inferInstance

theorem dedup_nodup {β : Type} [DecidableEq β] : ∀ (l : List β), (dedup l).Nodup
  | [] => by simp [dedup]
  | x :: xs => by
    simp only [dedup]
    split
    · exact dedup_nodup xs
    · rename_i h
      exact List.nodup_cons.mpr ⟨fun hh => h (mem_dedup.mp hh), dedup_nodup xs⟩

/-- soundness of the per-module walk, no hypothesis: everything it yields is a file of the module
    and a target file. -/
theorem mem_moduleTargetFiles_sound {t : TWS} {m : Nat} {f : PFile} (h : f ∈ (moduleTargetFiles t m).1) :
    f ∈ modFiles t.ws m ∧ isTargetIn t m f = true := by
  unfold moduleTargetFiles at h
  dsimp only at h
  split at h
  · simp only [List.mem_filter, List.mem_reverse, mem_dedup, List.mem_flatMap] at h
    obtain ⟨⟨tp, _, hf⟩, ht⟩ := h
    exact ⟨hf.1, ht⟩
  · simpa [List.mem_filter] using h

/-- The per-module walk yields EXACTLY the target files of the module (for a configuration the
    builder accepts: no proto-file reference together with `--path`). -/
theorem mem_moduleTargetFiles {t : TWS} {m : Nat} {f : PFile} (hwf : WfCfg (cfgOf t m)) :
    f ∈ (moduleTargetFiles t m).1 ↔ f ∈ modFiles t.ws m ∧ isTargetIn t m f = true := by
  refine ⟨mem_moduleTargetFiles_sound, ?_⟩
  rintro ⟨hf, ht⟩
  unfold moduleTargetFiles
  dsimp only
  split
  · rename_i hp
    simp only [List.mem_filter, List.mem_reverse, mem_dedup, List.mem_flatMap]
    refine ⟨?_, ht⟩
    have hpf : (cfgOf t m).protoFile = [] := by
      apply Classical.byContradiction
      intro hne
      exact hp (hwf hne).1
    have := (isTargetFile_paths_iff _ _ _ _ hpf).mp ht
    rcases this.2.1 with h | ⟨q, hq, he⟩
    · exact absurd h hp
    · exact ⟨q, hq, hf, he⟩
  · simp only [List.mem_filter]
    exact ⟨hf, ht⟩

/-- path-injectivity inside a bucket. -/
theorem path_inj_of_nodup {files : List PFile} (hnd : (files.map (·.path)).Nodup) {a b : PFile}
    (ha : a ∈ files) (hb : b ∈ files) (h : a.path = b.path) : a = b := by
  induction files with
  | nil => simp at ha
  | cons g gs ih =>
    simp only [List.map_cons, List.nodup_cons] at hnd
    rcases List.mem_cons.mp ha with rfl | ha'
    · rcases List.mem_cons.mp hb with rfl | hb'
      · rfl
      · exact absurd (List.mem_map.mpr ⟨b, hb', h.symm⟩) hnd.1
    · rcases List.mem_cons.mp hb with rfl | hb'
      · exact absurd (List.mem_map.mpr ⟨a, ha', h⟩) hnd.1
      · exact ih hnd.2 ha' hb'

/-- the per-module walk yields each path once. -/
theorem moduleTargetFiles_nodup {t : TWS} {m : Nat} (hnd : ((modFiles t.ws m).map (·.path)).Nodup) :
    ((moduleTargetFiles t m).1.map (·.path)).Nodup := by
  unfold moduleTargetFiles
  dsimp only
  split
  · rw [List.nodup_iff_pairwise_ne, List.pairwise_map]
    apply List.Pairwise.filter
    rw [List.pairwise_reverse]
    have hd := dedup_nodup
      ((List.flatMap (fun tp => List.filter (fun f => equalsOrContainsPath tp f.path) (modFiles t.ws m))
        (cfgOf t m).paths).reverse)
    rw [List.nodup_iff_pairwise_ne] at hd
    refine List.Pairwise.imp_of_mem ?_ hd
    intro a b ha hb hab hpath
    have ha' : a ∈ modFiles t.ws m := by
      simp only [mem_dedup, List.mem_reverse, List.mem_flatMap, List.mem_filter] at ha
      obtain ⟨_, _, h, _⟩ := ha; exact h
    have hb' : b ∈ modFiles t.ws m := by
      simp only [mem_dedup, List.mem_reverse, List.mem_flatMap, List.mem_filter] at hb
      obtain ⟨_, _, h, _⟩ := hb; exact h
    exact hab (path_inj_of_nodup hnd ha' hb' hpath.symm)
  · exact (List.Sublist.map _ List.filter_sublist).nodup hnd

/-! ### the multi-bucket target walk -/

theorem walkTargets_go_ok (m : Nat) : ∀ (fs : List PFile) (acc acc' : List (Nat × PFile)),
    walkTargets.go m fs acc = .ok acc' →
      acc' = acc ++ fs.map (fun f => (m, f)) ∧
      ((acc.map (·.2.path)).Nodup → (acc'.map (·.2.path)).Nodup) := by
  intro fs
  induction fs with
  | nil => intro acc acc' h; simp only [walkTargets.go] at h; injection h with h; subst h; simp
  | cons f fs ih =>
    intro acc acc' h
    simp only [walkTargets.go] at h
    split at h
    · cases h
    · rename_i hany
      obtain ⟨e, hnd⟩ := ih _ _ h
      refine ⟨by rw [e]; simp [List.append_assoc], fun hn => hnd ?_⟩
      rw [List.map_append, List.nodup_append]
      refine ⟨hn, by simp, ?_⟩
      intro a ha b hb hab
      simp only [List.map_cons, List.map_nil, List.mem_singleton] at hb
      subst hb
      apply hany
      obtain ⟨x, hx, hxa⟩ := List.mem_map.mp ha
      exact List.any_eq_true.mpr ⟨x, hx, by simp [hxa, hab]⟩

theorem walkTargets_go_of_nodup (m : Nat) : ∀ (fs : List PFile) (acc : List (Nat × PFile)),
    ((acc ++ fs.map (fun f => (m, f))).map (·.2.path)).Nodup →
      walkTargets.go m fs acc = .ok (acc ++ fs.map (fun f => (m, f))) := by
  intro fs
  induction fs with
  | nil => intro acc _; simp [walkTargets.go]
  | cons f fs ih =>
    intro acc hn
    simp only [walkTargets.go]
    have hsplit : acc ++ (f :: fs).map (fun f => (m, f)) = (acc ++ [(m, f)]) ++ fs.map (fun f => (m, f)) := by
      simp [List.append_assoc]
    rw [hsplit] at hn ⊢
    have hnot : ¬ (acc.any (fun x => x.2.path == f.path) = true) := by
      intro hany
      obtain ⟨x, hx, hxp⟩ := List.any_eq_true.mp hany
      have hxp : x.2.path = f.path := by simpa using hxp
      rw [List.map_append, List.map_append, List.append_assoc, List.nodup_append] at hn
      exact hn.2.2 _ (List.mem_map.mpr ⟨x, hx, rfl⟩) f.path (by simp) hxp
    rw [if_neg hnot]
    exact ih _ hn

/-- a walk of module `m` ends with NoProtoFilesError: the walk validates (no `--path`), the
    module is targeted and has no .proto file. -/
def emptyTargetErr (t : TWS) (m : Nat) : Bool :=
  (moduleTargetFiles t m).2 && modIsTarget t m && (modFiles t.ws m).isEmpty

/-- the (module, file) pairs the multi-bucket walk yields, in walk order. -/
def targetsOf (t : TWS) (ms : List Nat) : List (Nat × PFile) :=
  ms.flatMap (fun m => (moduleTargetFiles t m).1.map (fun f => (m, f)))

def allTargets (t : TWS) : List (Nat × PFile) := targetsOf t (List.range t.ws.mods.length)

theorem walkTargets_cons (t : TWS) (m : Nat) (ms : List Nat) (acc : List (Nat × PFile)) :
    walkTargets t (m :: ms) acc =
      match walkTargets.go m (moduleTargetFiles t m).1 acc with
      | .error e => .error e
      | .ok acc' => if emptyTargetErr t m then .error .noProtoFiles else walkTargets t ms acc' := by
  simp only [walkTargets, emptyTargetErr]
  rfl

/-- inversion of a successful target walk. -/
theorem walkTargets_ok (t : TWS) : ∀ (ms : List Nat) (acc acc' : List (Nat × PFile)),
    walkTargets t ms acc = .ok acc' →
      acc' = acc ++ targetsOf t ms ∧
      ((acc.map (·.2.path)).Nodup → (acc'.map (·.2.path)).Nodup) ∧
      ∀ m ∈ ms, emptyTargetErr t m = false := by
  intro ms
  induction ms with
  | nil => intro acc acc' h; simp only [walkTargets] at h; injection h with h; subst h; simp [targetsOf]
  | cons m ms ih =>
    intro acc acc' h
    rw [walkTargets_cons] at h
    split at h
    · cases h
    · rename_i a1 hgo
      split at h
      · cases h
      · rename_i hne
        obtain ⟨e1, n1⟩ := walkTargets_go_ok m _ _ _ hgo
        obtain ⟨e2, n2, ne2⟩ := ih _ _ h
        refine ⟨by rw [e2, e1]; simp [targetsOf, List.append_assoc], fun hn => n2 (n1 hn), ?_⟩
        intro m' hm'
        rcases List.mem_cons.mp hm' with rfl | hm'
        · simpa using hne
        · exact ne2 m' hm'

/-- success criterion of the target walk. -/
theorem walkTargets_of_nodup (t : TWS) : ∀ (ms : List Nat) (acc : List (Nat × PFile)),
    ((acc ++ targetsOf t ms).map (·.2.path)).Nodup →
    (∀ m ∈ ms, emptyTargetErr t m = false) →
      walkTargets t ms acc = .ok (acc ++ targetsOf t ms) := by
  intro ms
  induction ms with
  | nil => intro acc _ _; simp [walkTargets, targetsOf]
  | cons m ms ih =>
    intro acc hn hne
    have hsplit : acc ++ targetsOf t (m :: ms) =
        (acc ++ (moduleTargetFiles t m).1.map (fun f => (m, f))) ++ targetsOf t ms := by
      simp [targetsOf, List.append_assoc]
    rw [hsplit] at hn ⊢
    rw [walkTargets_cons]
    have h1 : ((acc ++ (moduleTargetFiles t m).1.map (fun f => (m, f))).map (·.2.path)).Nodup := by
      rw [List.map_append] at hn
      exact (List.nodup_append.mp hn).1
    rw [walkTargets_go_of_nodup m _ _ h1]
    simp only [hne m List.mem_cons_self, Bool.false_eq_true, ↓reduceIte]
    exact ih _ hn (fun m' hm' => hne m' (List.mem_cons_of_mem _ hm'))

theorem mem_targetsOf {t : TWS} {ms : List Nat} {x : Nat × PFile} :
    x ∈ targetsOf t ms ↔ x.1 ∈ ms ∧ x.2 ∈ (moduleTargetFiles t x.1).1 := by
  unfold targetsOf
  simp only [List.mem_flatMap, List.mem_map]
  constructor
  · rintro ⟨m, hm, f, hf, rfl⟩; exact ⟨hm, hf⟩
  · rintro ⟨h1, h2⟩; exact ⟨x.1, h1, x.2, h2, rfl⟩

/-! ### GetTargetFileInfos → the sorted root list -/

/-- inversion of a successful `targetList`. -/
theorem targetList_ok {t : TWS} {roots : List Str} (h : targetList t = .ok roots) :
    roots = sortPaths ((allTargets t).map (·.2.path)) ∧ ((allTargets t).map (·.2.path)).Nodup ∧
    allTargets t ≠ [] ∧ ∀ m, m < t.ws.mods.length → emptyTargetErr t m = false := by
  unfold targetList at h
  split at h
  · cases h
  · rename_i acc hacc
    obtain ⟨e, hn, hne⟩ := walkTargets_ok t _ _ _ hacc
    simp only [List.nil_append] at e
    have e' : acc = allTargets t := e
    subst e'
    split at h
    · cases h
    · rename_i hnil
      injection h with h
      exact ⟨h.symm, hn (by simp), hnil, fun m hm => hne m (List.mem_range.mpr hm)⟩

theorem targetList_nodup {t : TWS} {roots : List Str} (h : targetList t = .ok roots) : roots.Nodup := by
  obtain ⟨e, hn, _⟩ := targetList_ok h
  rw [e]; exact sortPaths_nodup hn

theorem targetList_sorted {t : TWS} {roots : List Str} (h : targetList t = .ok roots) :
    roots.Pairwise (fun a b => strLe a b = true) := by
  obtain ⟨e, _⟩ := targetList_ok h
  rw [e]; exact sortPaths_sorted _

theorem targetList_ne_nil {t : TWS} {roots : List Str} (h : targetList t = .ok roots) : roots ≠ [] := by
  obtain ⟨e, _, hne, _⟩ := targetList_ok h
  intro hr
  cases hall : allTargets t with
  | nil => exact hne hall
  | cons x xs =>
    have : x.2.path ∈ roots := by
      rw [e, mem_sortPaths, hall]; simp
    rw [hr] at this; simp at this

/-- every module's configuration is one the builder accepts. -/
def WfCfgs (t : TWS) : Prop := ∀ m, WfCfg (cfgOf t m)

/-- THE characterisation of the root list: a path is a root iff it is the path of a file `f` of
    some module `m` of the module set with `isTargetIn t m f`.  (No dedup / first-wins is involved:
    a path that is a target file twice makes `targetList` fail, see `targetList_nodup`.) -/
theorem mem_targetList {t : TWS} {roots : List Str} (hwf : WfCfgs t) (h : targetList t = .ok roots)
    (p : Str) :
    p ∈ roots ↔ ∃ m f, f ∈ modFiles t.ws m ∧ isTargetIn t m f = true ∧ f.path = p := by
  obtain ⟨e, _⟩ := targetList_ok h
  rw [e, mem_sortPaths]
  simp only [List.mem_map]
  constructor
  · rintro ⟨x, hx, rfl⟩
    obtain ⟨_, h2⟩ := mem_targetsOf.mp hx
    obtain ⟨h3, h4⟩ := mem_moduleTargetFiles_sound h2
    exact ⟨x.1, x.2, h3, h4, rfl⟩
  · rintro ⟨m, f, hf, ht, rfl⟩
    refine ⟨(m, f), mem_targetsOf.mpr ⟨List.mem_range.mpr (modFiles_lt hf), ?_⟩, rfl⟩
    exact (mem_moduleTargetFiles (hwf m)).mpr ⟨hf, ht⟩

/-- soundness half without the configuration hypothesis. -/
theorem mem_targetList_sound {t : TWS} {roots : List Str} (h : targetList t = .ok roots) {p : Str}
    (hp : p ∈ roots) : ∃ m f, f ∈ modFiles t.ws m ∧ isTargetIn t m f = true ∧ f.path = p := by
  obtain ⟨e, _⟩ := targetList_ok h
  rw [e, mem_sortPaths] at hp
  obtain ⟨x, hx, rfl⟩ := List.mem_map.mp hp
  obtain ⟨_, h2⟩ := mem_targetsOf.mp hx
  obtain ⟨h3, h4⟩ := mem_moduleTargetFiles_sound h2
  exact ⟨x.1, x.2, h3, h4, rfl⟩

/-- Success criterion for `targetList`: every bucket lists a path once, no path is a target file
    of two modules, a targeted module walked without `--path` has a .proto file, and there is at
    least one target file. -/
theorem targetList_ok_of (t : TWS) (hwf : WfCfgs t)
    (hfiles : ∀ m, ((modFiles t.ws m).map (·.path)).Nodup)
    (hdisj : ∀ m m' f f', m ≠ m' → f ∈ modFiles t.ws m → f' ∈ modFiles t.ws m' →
      isTargetIn t m f = true → isTargetIn t m' f' = true → f.path ≠ f'.path)
    (hnonempty : ∀ m, m < t.ws.mods.length → modIsTarget t m = true → (cfgOf t m).paths = [] →
      (modFiles t.ws m).isEmpty = false)
    (hsome : ∃ m f, f ∈ modFiles t.ws m ∧ isTargetIn t m f = true) :
    ∃ roots, targetList t = .ok roots := by
  have hnd : ((allTargets t).map (·.2.path)).Nodup := by
    unfold allTargets targetsOf
    rw [List.nodup_iff_pairwise_ne, List.pairwise_map, List.pairwise_flatMap]
    refine ⟨?_, ?_⟩
    · intro m _
      rw [List.pairwise_map]
      have := moduleTargetFiles_nodup (t := t) (m := m) (hfiles m)
      rw [List.nodup_iff_pairwise_ne, List.pairwise_map] at this
      exact this
    · refine List.Pairwise.imp ?_ (List.pairwise_lt_range (n := t.ws.mods.length))
      intro a b hab x hx y hy
      obtain ⟨f, hf, rfl⟩ := List.mem_map.mp hx
      obtain ⟨g, hg, rfl⟩ := List.mem_map.mp hy
      obtain ⟨hf1, hf2⟩ := mem_moduleTargetFiles_sound hf
      obtain ⟨hg1, hg2⟩ := mem_moduleTargetFiles_sound hg
      exact hdisj a b f g (by omega) hf1 hg1 hf2 hg2
  have hempty : ∀ m ∈ List.range t.ws.mods.length, emptyTargetErr t m = false := by
    intro m hm
    cases he : emptyTargetErr t m with
    | false => rfl
    | true =>
      unfold emptyTargetErr at he
      simp only [Bool.and_eq_true] at he
      obtain ⟨⟨h1, h2⟩, h3⟩ := he
      have hp : (cfgOf t m).paths = [] := by
        unfold moduleTargetFiles at h1
        dsimp only at h1
        split at h1
        · cases h1
        · rename_i hh; simpa using hh
      rw [hnonempty m (List.mem_range.mp hm) h2 hp] at h3
      cases h3
  have hw := walkTargets_of_nodup t (List.range t.ws.mods.length) [] (by simpa [allTargets] using hnd) hempty
  obtain ⟨m, f, hf, ht⟩ := hsome
  have hmem : (m, f) ∈ allTargets t :=
    mem_targetsOf.mpr ⟨List.mem_range.mpr (modFiles_lt hf), (mem_moduleTargetFiles (hwf m)).mpr ⟨hf, ht⟩⟩
  unfold targetList
  simp only [List.nil_append] at hw
  rw [hw]
  have hne : targetsOf t (List.range t.ws.mods.length) ≠ [] := by
    intro hh
    unfold allTargets at hmem
    rw [hh] at hmem; simp at hmem
  simp only [hne, ↓reduceIte]
  exact ⟨_, rfl⟩

end BufModel.Targeting
