import BufProofs.Lemmas.BreakingAdditive
/-
  Executable checkers for the hypotheses of the C04 theorems, with soundness proofs, so that the
  non-vacuity examples can establish `prev ⊑ₐ cur` and `KindsOK cur` on concrete schemas by `decide`:
  `schemaExtB_sound : schemaExtB prev cur = true → prev ⊑ₐ cur`,
  `KindsOK_of_kindsOkB : kindsOkB s = true → KindsOK s` (`kindsOkB` is what the driver reports as
  `kinds=1` on every correspondence line).
-/
namespace BufProofs.Breaking
open BufModel.Schema BufModel.Breaking

theorem enumExt_iff (e e' : Enum) : EnumExt e e' ↔
    (e'.closed = e.closed ∧ e'.jsonAllow = e.jsonAllow ∧ (∀ v ∈ e.values, v ∈ e'.values) ∧
     (∀ r ∈ e.reservedRanges, r ∈ e'.reservedRanges) ∧ ∀ n ∈ e.reservedNames, n ∈ e'.reservedNames) :=
  ⟨fun h => ⟨h.closed, h.json, h.values, h.rranges, h.rnames⟩, fun ⟨a, b, c, d, e⟩ => ⟨a, b, c, d, e⟩⟩

instance (e e' : Enum) : Decidable (EnumExt e e') := decidable_of_iff _ (enumExt_iff e e').symm

theorem infoExt_iff (i i' : MsgInfo) : InfoExt i i' ↔
    (i'.name = i.name ∧ (∀ e ∈ i.enums, ∃ e' ∈ i'.enums, e'.name = e.name ∧ EnumExt e e') ∧
     (∀ x ∈ i.extensions, x ∈ i'.extensions) ∧ i'.noStdAccessor = i.noStdAccessor ∧ i'.jsonAllow = i.jsonAllow ∧
     (∀ f ∈ i.fields, f ∈ i'.fields) ∧
     (∀ f' ∈ i'.fields, f' ∈ i.fields ∨ (f'.label ≠ .required ∧ ∀ f ∈ i.fields, f.number ≠ f'.number)) ∧
     (∀ o ∈ i.oneofs, o.name ∈ i'.oneofs.map (·.name)) ∧ (∀ r ∈ i.reservedRanges, r ∈ i'.reservedRanges) ∧
     (∀ n ∈ i.reservedNames, n ∈ i'.reservedNames) ∧ ∀ r ∈ i.extRanges, r ∈ i'.extRanges) :=
  ⟨fun h => ⟨h.name, h.enums, h.exts, h.noStd, h.json, h.fields, h.fresh, h.oneofs, h.rranges, h.rnames, h.extRanges⟩,
   fun ⟨a, b, c, d, e, f, g, h, i, j, k⟩ => ⟨a, b, c, d, e, f, g, h, i, j, k⟩⟩

instance (i i' : MsgInfo) : Decidable (InfoExt i i') := decidable_of_iff _ (infoExt_iff i i').symm

theorem svcExt_iff (s s' : Service) : SvcExt s s' ↔ (s'.name = s.name ∧ ∀ m ∈ s.methods, m ∈ s'.methods) :=
  ⟨fun h => ⟨h.name, h.methods⟩, fun ⟨a, b⟩ => ⟨a, b⟩⟩

instance (s s' : Service) : Decidable (SvcExt s s') := decidable_of_iff _ (svcExt_iff s s').symm

mutual
def msgExtB : Msg → Msg → Bool
  | .mk i ns, m' => decide (InfoExt i m'.info) && msgsExtB ns m'.nested
def msgsExtB : List Msg → List Msg → Bool
  | [], _ => true
  | n :: ns, ns' => ns'.any (fun n' => msgExtB n n') && msgsExtB ns ns'
end

mutual
theorem msgExtB_sound : ∀ (m m' : Msg), msgExtB m m' = true → MsgExt m m'
  | .mk i ns, m', h => by
    rw [msgExtB] at h
    rw [MsgExt]
    simp only [Bool.and_eq_true, decide_eq_true_eq] at h
    exact ⟨h.1, msgsExtB_sound ns _ h.2⟩
theorem msgsExtB_sound : ∀ (ns ns' : List Msg), msgsExtB ns ns' = true → MsgsExt ns ns'
  | [], _, _ => by rw [MsgsExt]; trivial
  | n :: ns, ns', h => by
    rw [msgsExtB] at h
    rw [MsgsExt]
    simp only [Bool.and_eq_true, List.any_eq_true] at h
    obtain ⟨⟨n', hn', hb⟩, h2⟩ := h
    exact ⟨⟨n', hn', msgExtB_sound n n' hb⟩, msgsExtB_sound ns ns' h2⟩
end

def fileExtB (pf cf : File) : Bool :=
  decide (cf.path = pf.path) && decide (cf.pkg = pf.pkg) && decide (cf.syn = pf.syn) &&
  decide (cf.opts = pf.opts) && msgsExtB pf.messages cf.messages &&
  decide (∀ e ∈ pf.enums, ∃ e' ∈ cf.enums, e'.name = e.name ∧ EnumExt e e') &&
  decide (∀ x ∈ pf.extensions, x ∈ cf.extensions) &&
  decide (∀ s ∈ pf.services, ∃ s' ∈ cf.services, SvcExt s s')

theorem fileExtB_sound (pf cf : File) (h : fileExtB pf cf = true) : FileExt pf cf := by
  unfold fileExtB at h
  simp only [Bool.and_eq_true, decide_eq_true_eq] at h
  obtain ⟨⟨⟨⟨⟨⟨⟨h1, h2⟩, h3⟩, h4⟩, h5⟩, h6⟩, h7⟩, h8⟩ := h
  exact ⟨h1, h2, h3, h4, msgsExtB_sound _ _ h5, h6, h7, h8⟩

/-- executable version of `prev ⊑ₐ cur` -/
def schemaExtB (prev cur : Schema) : Bool := prev.all fun pf => cur.any fun cf => fileExtB pf cf

theorem schemaExtB_sound (prev cur : Schema) (h : schemaExtB prev cur = true) : prev ⊑ₐ cur := by
  intro pf hpf
  unfold schemaExtB at h
  obtain ⟨cf, hcf, hb⟩ := List.any_eq_true.1 (List.all_eq_true.1 h pf hpf)
  exact ⟨cf, hcf, fileExtB_sound pf cf hb⟩

/-- the driver's executable check establishes `KindsOK` (reported as `kinds=1` on every
    correspondence line) -/
theorem KindsOK_of_kindsOkB (s : Schema) (h : kindsOkB s = true) : KindsOK s := by
  unfold kindsOkB at h
  simp only [Bool.and_eq_true, List.all_eq_true, decide_eq_true_eq] at h
  obtain ⟨h1, h2⟩ := h
  intro c hc
  rcases hc with hc | ⟨m, hm, hc⟩
  · unfold extFields at hc
    obtain ⟨e, he, rfl⟩ := List.mem_map.1 hc
    exact h2 e he
  · unfold msgFields at hc
    obtain ⟨p, hp, rfl⟩ := List.mem_map.1 hc
    exact h1 m hm p.2 (mem_indexed_snd hp)

end BufProofs.Breaking
