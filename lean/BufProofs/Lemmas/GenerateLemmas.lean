import BufModel.Generate
import BufProofs.Lemmas.PathLemmas
import BufProofs.Props.C01
/-
  Helper lemmas for C17: sorting/dedup are permutations, `getFile`, the DFS of
  `addFileWithImports` (no duplicates, output ⊆ seen, everything new was unseen, grey set
  unchanged; on an ordered image: fuel suffices, dependencies come first), the counting lemmas
  for `ImagesToCodeGeneratorRequests`, and the response-side invariants.
-/
set_option linter.unusedSimpArgs false
namespace BufModel.Generate
open BufModel.Path BufModel.Bucket

/-! ### sortStrs / dedup -/

theorem insertSorted_perm (x : Str) (l : List Str) : (insertSorted x l).Perm (x :: l) := by
  induction l with
  | nil => exact List.Perm.refl _
  | cons y ys ih =>
    unfold insertSorted
    split
    · exact ((List.Perm.cons y ih).trans (List.Perm.swap x y ys))
    · exact List.Perm.refl _

theorem sortStrs_perm (l : List Str) : (sortStrs l).Perm l := by
  induction l with
  | nil => exact List.Perm.refl _
  | cons x xs ih =>
    show (insertSorted x (sortStrs xs)).Perm (x :: xs)
    exact (insertSorted_perm x _).trans (List.Perm.cons x ih)

theorem mem_sortStrs {x : Str} {l : List Str} : x ∈ sortStrs l ↔ x ∈ l :=
  (sortStrs_perm l).mem_iff

theorem nodup_sortStrs {l : List Str} : (sortStrs l).Nodup ↔ l.Nodup :=
  (sortStrs_perm l).nodup_iff

theorem mem_dedup {x : Str} {l : List Str} : x ∈ dedup l ↔ x ∈ l := by
  induction l with
  | nil => simp [dedup]
  | cons y ys ih =>
    unfold dedup
    split
    · rename_i h
      rw [ih]; constructor
      · intro hx; exact List.mem_cons_of_mem _ hx
      · intro hx; rcases List.mem_cons.mp hx with rfl | hx
        · exact h
        · exact hx
    · simp [ih]

theorem nodup_dedup (l : List Str) : (dedup l).Nodup := by
  induction l with
  | nil => simp [dedup]
  | cons y ys ih =>
    unfold dedup
    split
    · exact ih
    · rename_i h
      exact List.nodup_cons.mpr ⟨fun hm => h (mem_dedup.mp hm), ih⟩

/-! ### getFile -/

theorem getFile_some {img : Image} {p : Str} {f : File} (h : getFile img p = some f) :
    f ∈ img ∧ f.path = p := by
  induction img with
  | nil => simp [getFile] at h
  | cons g gs ih =>
    unfold getFile at h
    split at h
    · rename_i hp
      injection h with h; subst h
      exact ⟨by simp, hp⟩
    · have := ih h
      exact ⟨List.mem_cons_of_mem _ this.1, this.2⟩

theorem getFile_of_mem_paths {img : Image} {p : Str} (h : p ∈ paths img) :
    ∃ f, getFile img p = some f := by
  induction img with
  | nil => simp [paths] at h
  | cons g gs ih =>
    unfold getFile
    by_cases hp : g.path = p
    · exact ⟨g, by simp [hp]⟩
    · simp only [if_neg hp]
      apply ih
      simp [paths] at h
      rcases h with h | h
      · exact absurd h.symm hp
      · simpa [paths] using h

theorem getFile_of_mem_nodup {img : Image} {f : File} (hn : (paths img).Nodup) (hf : f ∈ img) :
    getFile img f.path = some f := by
  induction img with
  | nil => cases hf
  | cons g gs ih =>
    unfold getFile
    simp only [paths, List.map_cons, List.nodup_cons] at hn
    rcases List.mem_cons.mp hf with rfl | hf
    · simp
    · have hne : g.path ≠ f.path := by
        intro e; apply hn.1; rw [e]; exact List.mem_map_of_mem hf
      simp only [if_neg hne]
      exact ih hn.2 hf

theorem mem_paths_of_mem {img : List File} {f : File} (h : f ∈ img) : f.path ∈ paths img :=
  List.mem_map_of_mem h

theorem eq_of_mem_nodup_paths {img : List File} {f g : File} (hn : (paths img).Nodup)
    (hf : f ∈ img) (hg : g ∈ img) (hp : f.path = g.path) : f = g := by
  have h1 := getFile_of_mem_nodup hn hf
  have h2 := getFile_of_mem_nodup hn hg
  rw [hp, h2] at h1
  injection h1 with h1; exact h1.symm

/-! ### The DFS -/

@[simp] theorem mark_path (t : List Str) (f : File) : (mark t f).path = f.path := rfl
@[simp] theorem mark_deps (t : List Str) (f : File) : (mark t f).deps = f.deps := rfl
@[simp] theorem mark_isWKT (t : List Str) (f : File) : (mark t f).isWKT = f.isWKT := rfl
theorem mark_isImport (t : List Str) (f : File) : (mark t f).isImport = !(t.contains f.path) := rfl

/-- The step of the dependency loop inside `addFileWithImports`. -/
def depStep (img : Image) (t : List Str) (fuel : Nat) (st : DState) (d : Str) : DState :=
  match getFile img d with
  | some g => visit img t fuel g st
  | none => st

theorem visit_zero (img : Image) (t : List Str) (f : File) (st : DState) :
    visit img t 0 f st = st := rfl

theorem visit_succ (img : Image) (t : List Str) (fuel : Nat) (f : File) (st : DState) :
    visit img t (fuel + 1) f st =
      if f.path ∈ st.1 then st
      else ((f.deps.foldl (depStep img t fuel) (f.path :: st.1, st.2)).1,
            (f.deps.foldl (depStep img t fuel) (f.path :: st.1, st.2)).2 ++ [mark t f]) := rfl

/-- `st'` extends `st`: the accumulator grew by `new`, exactly the paths of `new` were added
    to `seen`, they were all unseen before, pairwise distinct, and are marked image files. -/
def Ext (img : Image) (t : List Str) (st st' : DState) : Prop :=
  ∃ new : List File, st'.2 = st.2 ++ new ∧ (∀ p, p ∈ st'.1 ↔ (p ∈ st.1 ∨ p ∈ paths new)) ∧
    (∀ p ∈ paths new, p ∉ st.1) ∧ (paths new).Nodup ∧ (∀ h ∈ new, ∃ g ∈ img, h = mark t g)

theorem ext_refl (img : Image) (t : List Str) (st : DState) : Ext img t st st :=
  ⟨[], by simp, by simp [paths], by simp [paths], by simp [paths], by simp⟩

theorem ext_trans {img : Image} {t : List Str} {a b c : DState}
    (h1 : Ext img t a b) (h2 : Ext img t b c) : Ext img t a c := by
  obtain ⟨n1, e1, s1, u1, d1, m1⟩ := h1
  obtain ⟨n2, e2, s2, u2, d2, m2⟩ := h2
  refine ⟨n1 ++ n2, ?_, ?_, ?_, ?_, ?_⟩
  · rw [e2, e1, List.append_assoc]
  · intro p
    rw [s2 p, s1 p]
    simp only [paths, List.map_append, List.mem_append]
    constructor
    · rintro ((h | h) | h)
      · exact Or.inl h
      · exact Or.inr (Or.inl h)
      · exact Or.inr (Or.inr h)
    · rintro (h | h | h)
      · exact Or.inl (Or.inl h)
      · exact Or.inl (Or.inr h)
      · exact Or.inr h
  · intro p hp
    simp only [paths, List.map_append, List.mem_append] at hp
    rcases hp with hp | hp
    · exact u1 p hp
    · intro ha
      exact u2 p hp ((s1 p).mpr (Or.inl ha))
  · simp only [paths, List.map_append]
    rw [List.nodup_append]
    refine ⟨d1, d2, ?_⟩
    intro x hx y hy hxy
    subst hxy
    exact u2 x hy ((s1 x).mpr (Or.inr hx))
  · intro h hh
    rcases List.mem_append.mp hh with hh | hh
    · exact m1 h hh
    · exact m2 h hh

theorem foldl_rel {α : Type} (R : DState → DState → Prop) (hrefl : ∀ s, R s s)
    (htrans : ∀ {a b c}, R a b → R b c → R a c) (step : DState → α → DState)
    (l : List α) (hstep : ∀ s, ∀ d ∈ l, R s (step s d)) (s : DState) :
    R s (l.foldl step s) := by
  induction l generalizing s with
  | nil => exact hrefl s
  | cons d ds ih =>
    simp only [List.foldl]
    exact htrans (hstep s d (by simp)) (ih (fun s' d' hd' => hstep s' d' (by simp [hd'])) _)

theorem visit_ext (img : Image) (t : List Str) (fuel : Nat) :
    ∀ (f : File) (st : DState), f ∈ img → Ext img t st (visit img t fuel f st) := by
  induction fuel with
  | zero => intro f st _; exact ext_refl img t st
  | succ fuel ih =>
    intro f st hf
    rw [visit_succ]
    by_cases hs : f.path ∈ st.1
    · rw [if_pos hs]; exact ext_refl img t st
    · rw [if_neg hs]
      have hfold : Ext img t (f.path :: st.1, st.2)
          (f.deps.foldl (depStep img t fuel) (f.path :: st.1, st.2)) := by
        apply foldl_rel (Ext img t) (ext_refl img t) (fun h1 h2 => ext_trans h1 h2)
        intro s d _
        unfold depStep
        split
        · rename_i g hg
          exact ih g s (getFile_some hg).1
        · exact ext_refl img t s
      obtain ⟨n1, e1, s1, u1, d1, m1⟩ := hfold
      refine ⟨n1 ++ [mark t f], ?_, ?_, ?_, ?_, ?_⟩
      · simp only at e1 ⊢
        rw [e1, List.append_assoc]
      · intro p
        simp only at s1 ⊢
        rw [s1 p]
        simp only [paths, List.map_append, List.mem_append, List.map_cons, List.map_nil,
          List.mem_cons, mark_path, List.not_mem_nil, or_false]
        constructor
        · rintro ((h | h) | h)
          · exact Or.inr (Or.inr h)
          · exact Or.inl h
          · exact Or.inr (Or.inl h)
        · rintro (h | h | h)
          · exact Or.inl (Or.inr h)
          · exact Or.inr h
          · exact Or.inl (Or.inl h)
      · intro p hp
        simp only [paths, List.map_append, List.mem_append, List.map_cons, List.map_nil,
          mark_path, List.mem_singleton] at hp
        rcases hp with hp | hp
        · intro ha
          exact u1 p hp (List.mem_cons_of_mem _ ha)
        · subst hp; exact hs
      · simp only [paths, List.map_append, List.map_cons, List.map_nil, mark_path]
        rw [List.nodup_append]
        refine ⟨d1, by simp, ?_⟩
        intro x hx y hy hxy
        simp at hy
        subst hxy; subst hy
        exact u1 _ hx (by simp)
      · intro h hh
        rcases List.mem_append.mp hh with hh | hh
        · exact m1 h hh
        · simp at hh; exact ⟨f, hf, hh⟩

theorem fold_depStep_ext (img : Image) (t : List Str) (fuel : Nat) (ds : List Str) (st : DState) :
    Ext img t st (ds.foldl (depStep img t fuel) st) := by
  apply foldl_rel (Ext img t) (ext_refl img t) (fun h1 h2 => ext_trans h1 h2)
  intro s d _
  unfold depStep
  split
  · rename_i g hg; exact visit_ext img t fuel g s (getFile_some hg).1
  · exact ext_refl img t s

/-- With fuel left, the visited file ends up in `seen`. -/
theorem visit_succ_seen (img : Image) (t : List Str) (fuel : Nat) (f : File) (st : DState) :
    f.path ∈ (visit img t (fuel + 1) f st).1 := by
  rw [visit_succ]
  by_cases hs : f.path ∈ st.1
  · rw [if_pos hs]; exact hs
  · rw [if_neg hs]
    obtain ⟨_, _, s1, _, _, _⟩ := fold_depStep_ext img t fuel f.deps (f.path :: st.1, st.2)
    exact (s1 f.path).mpr (Or.inl (by simp))

theorem ext_seen_mono {img : Image} {t : List Str} {a b : DState} (h : Ext img t a b) {p : Str}
    (hp : p ∈ a.1) : p ∈ b.1 := by
  obtain ⟨_, _, s, _, _, _⟩ := h
  exact (s p).mpr (Or.inl hp)

theorem visitAll_ext (img : Image) (t : List Str) (fs : List File) (hfs : ∀ f ∈ fs, f ∈ img)
    (st : DState) : Ext img t st (visitAll img t fs st) := by
  unfold visitAll
  apply foldl_rel (Ext img t) (ext_refl img t) (fun h1 h2 => ext_trans h1 h2)
  intro s f hf
  exact visit_ext img t _ f s (hfs f hf)

theorem visitAll_seen (img : Image) (t : List Str) (fs : List File) (hfs : ∀ f ∈ fs, f ∈ img)
    (st : DState) (f : File) (hf : f ∈ fs) : f.path ∈ (visitAll img t fs st).1 := by
  induction fs generalizing st with
  | nil => cases hf
  | cons g gs ih =>
    have hgs : ∀ f ∈ gs, f ∈ img := fun f h => hfs f (List.mem_cons_of_mem _ h)
    show f.path ∈ (visitAll img t gs (visit img t (img.length + 1) g st)).1
    rcases List.mem_cons.mp hf with rfl | hf
    · exact ext_seen_mono (visitAll_ext img t gs hgs _) (visit_succ_seen img t _ f st)
    · exact ih hgs _ hf

theorem targetFiles_mem (img : Image) (t : List Str) :
    ∀ f ∈ t.filterMap (getFile img), f ∈ img := by
  intro f hf
  obtain ⟨p, _, hp⟩ := List.mem_filterMap.mp hf
  exact (getFile_some hp).1

/-- The sub-image built for a set of target paths: facts used by the property theorems. -/
theorem sub_ext (img : Image) (t : List Str) :
    Ext img t ([], []) (visitAll img t (t.filterMap (getFile img)) ([], [])) :=
  visitAll_ext img t _ (targetFiles_mem img t) _

theorem sub_nodup (img : Image) (t : List Str) : (paths (imageWithOnlyPaths img t)).Nodup := by
  obtain ⟨n, e, _, _, d, _⟩ := sub_ext img t
  unfold imageWithOnlyPaths
  rw [e]; simpa using d

theorem sub_marked (img : Image) (t : List Str) :
    ∀ h ∈ imageWithOnlyPaths img t, ∃ g ∈ img, h = mark t g := by
  obtain ⟨n, e, _, _, _, m⟩ := sub_ext img t
  unfold imageWithOnlyPaths
  rw [e]; simpa using m

theorem sub_seen_iff (img : Image) (t : List Str) (p : Str) :
    p ∈ (visitAll img t (t.filterMap (getFile img)) ([], [])).1 ↔ p ∈ paths (imageWithOnlyPaths img t) := by
  obtain ⟨n, e, s, _, _, _⟩ := sub_ext img t
  unfold imageWithOnlyPaths
  rw [s p, e]; simp

theorem sub_target_mem (img : Image) (t : List Str) (p : Str) (hp : p ∈ t) (hpi : p ∈ paths img) :
    p ∈ paths (imageWithOnlyPaths img t) := by
  obtain ⟨f, hf⟩ := getFile_of_mem_paths hpi
  have hmem : f ∈ t.filterMap (getFile img) := List.mem_filterMap.mpr ⟨p, hp, hf⟩
  have := visitAll_seen img t _ (targetFiles_mem img t) ([], []) f hmem
  rw [(getFile_some hf).2] at this
  exact (sub_seen_iff img t p).mp this

/-! ### Counting `file_to_generate` -/

theorem reqFiles_nil (n : List Str) (ii iw : Bool) (used : List Str) :
    reqFiles n ii iw [] used = ([], [], used) := rfl

theorem reqFiles_cons (n : List Str) (ii iw : Bool) (f : File) (fs : List File) (used : List Str) :
    reqFiles n ii iw (f :: fs) used =
      (if (isFileToGenerate f used n ii iw).1
        then f.path :: (reqFiles n ii iw fs (isFileToGenerate f used n ii iw).2).1
        else (reqFiles n ii iw fs (isFileToGenerate f used n ii iw).2).1,
       (f, (isFileToGenerate f used n ii iw).1) :: (reqFiles n ii iw fs (isFileToGenerate f used n ii iw).2).2.1,
       (reqFiles n ii iw fs (isFileToGenerate f used n ii iw).2).2.2) := rfl

theorem itg_nonImport (f : File) (used n : List Str) (ii iw : Bool) (h : f.isImport = false) :
    isFileToGenerate f used n ii iw = (true, f.path :: used) := by
  simp [isFileToGenerate, h]

theorem itg_import_nonImp (f : File) (used n : List Str) (ii iw : Bool) (h : f.isImport = true)
    (hn : f.path ∈ n) : (isFileToGenerate f used n ii iw).1 = false := by
  unfold isFileToGenerate
  simp only [h]
  cases ii <;> cases iw <;> cases f.isWKT <;> by_cases hu : f.path ∈ used <;> simp [hu, hn]

def eligible (ii iw w : Bool) : Bool := ii && (iw || !w)

theorem itg_import (f : File) (used n : List Str) (ii iw : Bool) (h : f.isImport = true)
    (hn : f.path ∉ n) :
    isFileToGenerate f used n ii iw =
      if eligible ii iw f.isWKT && !(used.contains f.path) then (true, f.path :: used) else (false, used) := by
  unfold isFileToGenerate eligible
  simp only [h]
  cases ii <;> cases iw <;> cases f.isWKT <;> by_cases hu : f.path ∈ used <;> simp [hu, hn]

theorem itg_used (f : File) (used n : List Str) (ii iw : Bool) :
    (isFileToGenerate f used n ii iw).2 = used ∨ (isFileToGenerate f used n ii iw).2 = f.path :: used := by
  unfold isFileToGenerate
  repeat' split
  all_goals simp

/-- A path that is a non-import somewhere (hence in `nonImportPaths`) is generated exactly by
    the files that carry it as a non-import. -/
theorem reqFiles_count_nonImp (n : List Str) (ii iw : Bool) (p : Str) (hp : p ∈ n) :
    ∀ (fs : List File) (used : List Str),
      (reqFiles n ii iw fs used).1.count p = fs.countP (fun f => f.path = p && !f.isImport) := by
  intro fs
  induction fs with
  | nil => intro used; simp [reqFiles_nil]
  | cons f fs ih =>
    intro used
    rw [reqFiles_cons]
    simp only
    by_cases hi : f.isImport = true
    · by_cases hfp : f.path = p
      · have := itg_import_nonImp f used n ii iw hi (hfp ▸ hp)
        rw [this]
        simp [ih, hi, hfp]
      · cases hg : (isFileToGenerate f used n ii iw).1 <;> simp [ih, hfp]
    · have hi' : f.isImport = false := by simpa using hi
      rw [itg_nonImport f used n ii iw hi']
      by_cases hfp : f.path = p
      · simp [ih, hi', hfp]
      · simp [ih, hi', hfp]

theorem reqFiles_import (n : List Str) (ii iw : Bool) (p : Str) (w : Bool) (hpn : p ∉ n) :
    ∀ (fs : List File) (used : List Str), (paths fs).Nodup →
      (∀ f ∈ fs, f.path = p → f.isImport = true ∧ f.isWKT = w) →
      (reqFiles n ii iw fs used).1.count p =
        (if eligible ii iw w && !(used.contains p) && (paths fs).contains p then 1 else 0) ∧
      (reqFiles n ii iw fs used).2.2.contains p =
        (used.contains p || (eligible ii iw w && (paths fs).contains p)) := by
  intro fs
  induction fs with
  | nil => intro used _ _; simp [reqFiles_nil, paths]
  | cons f fs ih =>
    intro used hnd hall
    have hnd' : (paths fs).Nodup := by
      simp only [paths, List.map_cons, List.nodup_cons] at hnd; exact hnd.2
    have hall' : ∀ g ∈ fs, g.path = p → g.isImport = true ∧ g.isWKT = w :=
      fun g hg => hall g (List.mem_cons_of_mem _ hg)
    rw [reqFiles_cons]
    simp only
    by_cases hfp : f.path = p
    · obtain ⟨hi, hw⟩ := hall f (by simp) hfp
      have hnot : p ∉ paths fs := by
        simp only [paths, List.map_cons, List.nodup_cons] at hnd
        rw [← hfp]; exact hnd.1
      have hc : (paths fs).contains p = false := by simpa using hnot
      rw [itg_import f used n ii iw hi (hfp ▸ hpn), hw, hfp]
      by_cases hcond : (eligible ii iw w && !(used.contains p)) = true
      · rw [if_pos hcond]
        obtain ⟨ih1, ih2⟩ := ih (p :: used) hnd' hall'
        simp only at ih1 ih2 ⊢
        rw [ih2]
        simp only [Bool.and_eq_true, Bool.not_eq_true'] at hcond
        have hnu : p ∉ used := by simpa using hcond.2
        simp [ih1, hc, paths, hfp, hcond.1, hcond.2, hnu]
      · rw [if_neg hcond]
        obtain ⟨ih1, ih2⟩ := ih used hnd' hall'
        simp only [Bool.false_eq_true, if_false] at ih1 ih2 ⊢
        rw [ih1, ih2]
        have hcond' : (eligible ii iw w && !(used.contains p)) = false := by simpa using hcond
        constructor
        · rw [hcond']; simp
        · simp only [hc, Bool.and_false, Bool.or_false, paths, List.map_cons, hfp, List.contains_cons, BEq.rfl, Bool.true_or, Bool.and_true]
          cases he : eligible ii iw w <;> cases hu : used.contains p <;> simp_all
    · have hcount : ∀ l : List Str, (if (isFileToGenerate f used n ii iw).1 then f.path :: l else l).count p = l.count p := by
        intro l; cases (isFileToGenerate f used n ii iw).1 <;> simp [List.count_cons, hfp]
      rw [hcount]
      have hused : (isFileToGenerate f used n ii iw).2.contains p = used.contains p := by
        rcases itg_used f used n ii iw with h | h <;> rw [h]
        simp [List.contains_cons]
        intro e; exact absurd e.symm hfp
      obtain ⟨ih1, ih2⟩ := ih (isFileToGenerate f used n ii iw).2 hnd' hall'
      rw [ih1, ih2, hused]
      have hpc : (paths (f :: fs)).contains p = (paths fs).contains p := by
        simp only [paths, List.map_cons, List.contains_cons]
        have : (p == f.path) = false := by simpa using fun e : p = f.path => hfp e.symm
        simp [this]
      rw [hpc]
      exact ⟨rfl, rfl⟩

theorem allGenerated_cons (r : Request) (rs : List Request) :
    allGenerated (r :: rs) = r.toGenerate ++ allGenerated rs := by
  simp [allGenerated]

theorem reqs_cons (n : List Str) (ii iw : Bool) (img : Image) (rest : List Image) (used : List Str) :
    reqs n ii iw (img :: rest) used =
      { toGenerate := (reqFiles n ii iw img used).1, protoFiles := (reqFiles n ii iw img used).2.1,
        sourceFiles := (reqFiles n ii iw img used).1 } ::
        reqs n ii iw rest (reqFiles n ii iw img used).2.2 := rfl

theorem reqs_count_nonImp (n : List Str) (ii iw : Bool) (p : Str) (hp : p ∈ n) :
    ∀ (imgs : List Image) (used : List Str),
      (allGenerated (reqs n ii iw imgs used)).count p =
        (imgs.map fun img => img.countP (fun f => f.path = p && !f.isImport)).sum := by
  intro imgs
  induction imgs with
  | nil => intro used; simp [reqs, allGenerated]
  | cons img rest ih =>
    intro used
    rw [reqs_cons, allGenerated_cons, List.count_append, ih]
    simp [reqFiles_count_nonImp n ii iw p hp]

theorem bool_count_aux (e u a b : Bool) :
    ((if (e && !u && a) = true then 1 else 0) + (if (e && !(u || e && a) && b) = true then 1 else 0) : Nat) =
      if (e && !u && (a || b)) = true then 1 else 0 := by
  cases e <;> cases u <;> cases a <;> cases b <;> rfl

theorem reqs_count_import (n : List Str) (ii iw : Bool) (p : Str) (w : Bool) (hpn : p ∉ n) :
    ∀ (imgs : List Image) (used : List Str), (∀ img ∈ imgs, (paths img).Nodup) →
      (∀ img ∈ imgs, ∀ f ∈ img, f.path = p → f.isImport = true ∧ f.isWKT = w) →
      (allGenerated (reqs n ii iw imgs used)).count p =
        (if eligible ii iw w && !(used.contains p) && imgs.any (fun img => (paths img).contains p)
          then 1 else 0) := by
  intro imgs
  induction imgs with
  | nil => intro used _ _; simp [reqs, allGenerated]
  | cons img rest ih =>
    intro used hnd hall
    rw [reqs_cons, allGenerated_cons, List.count_append]
    obtain ⟨h1, h2⟩ := reqFiles_import n ii iw p w hpn img used (hnd img (by simp)) (hall img (by simp))
    have ih' := ih (reqFiles n ii iw img used).2.2
      (fun i hi => hnd i (List.mem_cons_of_mem _ hi)) (fun i hi => hall i (List.mem_cons_of_mem _ hi))
    simp only
    rw [h1, ih', h2]
    simp only [List.any_cons]
    exact bool_count_aux _ _ _ _

theorem countP_eq_one_of_unique {α : Type} (P : α → Bool) (l : List α) (hn : l.Nodup) (a : α)
    (ha : a ∈ l) (hP : ∀ x ∈ l, P x = true ↔ x = a) : l.countP P = 1 := by
  induction l with
  | nil => cases ha
  | cons x xs ih =>
    have hn' := List.nodup_cons.mp hn
    by_cases hx : x = a
    · subst hx
      have hz : xs.countP P = 0 := by
        rw [List.countP_eq_zero]
        intro y hy hPy
        have := (hP y (List.mem_cons_of_mem _ hy)).mp hPy
        subst this; exact hn'.1 hy
      rw [List.countP_cons_of_pos ((hP x (by simp)).mpr rfl), hz]
    · have hPx : ¬ P x = true := fun h => hx ((hP x (by simp)).mp h)
      rw [List.countP_cons_of_neg hPx]
      rcases List.mem_cons.mp ha with h | h
      · exact absurd h.symm hx
      · exact ih hn'.2 h (fun y hy => hP y (List.mem_cons_of_mem _ hy))

theorem nodup_of_nodup_paths {l : List File} (h : (paths l).Nodup) : l.Nodup := by
  induction l with
  | nil => exact List.nodup_nil
  | cons x xs ih =>
    simp only [paths, List.map_cons, List.nodup_cons] at h
    exact List.nodup_cons.mpr ⟨fun hx => h.1 (List.mem_map_of_mem hx), ih h.2⟩

theorem sum_map_zero {α : Type} (g : α → Nat) (xs : List α) (h : ∀ d ∈ xs, g d = 0) :
    (xs.map g).sum = 0 := by
  induction xs with
  | nil => rfl
  | cons y ys ih =>
    simp only [List.map_cons, List.sum_cons]
    rw [h y (by simp), ih (fun d hd => h d (List.mem_cons_of_mem _ hd))]

theorem sum_indicator (l : List Str) (a : Str) (g : Str → Nat) (hn : l.Nodup) (ha : a ∈ l)
    (hg : ∀ d ∈ l, g d = if d = a then 1 else 0) : (l.map g).sum = 1 := by
  induction l with
  | nil => cases ha
  | cons x xs ih =>
    have hn' := List.nodup_cons.mp hn
    simp only [List.map_cons, List.sum_cons]
    by_cases hx : x = a
    · subst hx
      have hz : (xs.map g).sum = 0 := by
        apply sum_map_zero
        intro d hd
        rw [hg d (List.mem_cons_of_mem _ hd)]
        have : d ≠ x := fun e => hn'.1 (e ▸ hd)
        simp [this]
      rw [hg x (by simp), hz]; simp
    · rw [hg x (by simp), if_neg hx]
      rcases List.mem_cons.mp ha with h | h
      · exact absurd h.symm hx
      · rw [ih hn'.2 h (fun d hd => hg d (List.mem_cons_of_mem _ hd))]

/-! ### ImageByDir -/

theorem mem_nonImports {img : Image} {f : File} : f ∈ nonImports img ↔ f ∈ img ∧ f.isImport = false := by
  simp [nonImports]

theorem mem_targetsInDir {img : Image} {d p : Str} :
    p ∈ targetsInDir img d ↔ ∃ g ∈ img, g.isImport = false ∧ dir g.path = d ∧ g.path = p := by
  unfold targetsInDir
  rw [mem_sortStrs]
  simp only [List.mem_map, List.mem_filter, mem_nonImports, decide_eq_true_eq]
  constructor
  · rintro ⟨g, ⟨⟨hg, hi⟩, hd⟩, hp⟩; exact ⟨g, hg, hi, hd, hp⟩
  · rintro ⟨g, hg, hi, hd, hp⟩; exact ⟨g, ⟨⟨hg, hi⟩, hd⟩, hp⟩

theorem nodup_dirsOf (img : Image) : (dirsOf img).Nodup :=
  nodup_sortStrs.mpr (nodup_dedup _)

theorem mem_dirsOf {img : Image} {d : Str} :
    d ∈ dirsOf img ↔ ∃ g ∈ img, g.isImport = false ∧ dir g.path = d := by
  unfold dirsOf
  rw [mem_sortStrs, mem_dedup]
  simp only [List.mem_map, mem_nonImports]
  constructor
  · rintro ⟨g, ⟨hg, hi⟩, hd⟩; exact ⟨g, hg, hi, hd⟩
  · rintro ⟨g, hg, hi, hd⟩; exact ⟨g, ⟨hg, hi⟩, hd⟩

/-- In the sub-image of directory `d`, the target `f` occurs as a non-import exactly once if
    `d` is its directory and not at all otherwise. -/
theorem sub_countP_target (img : Image) (f : File) (hf : f ∈ img)
    (hni : f.isImport = false) (d : Str) :
    (imageWithOnlyPaths img (targetsInDir img d)).countP (fun x => x.path = f.path && !x.isImport) =
      if d = dir f.path then 1 else 0 := by
  by_cases hd : d = dir f.path
  · rw [if_pos hd]
    have hpt : f.path ∈ targetsInDir img d := mem_targetsInDir.mpr ⟨f, hf, hni, hd.symm, rfl⟩
    have hps := sub_target_mem img _ f.path hpt (mem_paths_of_mem hf)
    obtain ⟨h, hh, hhp⟩ := List.mem_map.mp hps
    apply countP_eq_one_of_unique _ _ (nodup_of_nodup_paths (sub_nodup img _)) h hh
    intro x hx
    constructor
    · intro hP
      simp only [Bool.and_eq_true, decide_eq_true_eq] at hP
      exact eq_of_mem_nodup_paths (sub_nodup img _) hx hh (hP.1.trans hhp.symm)
    · intro e; subst e
      obtain ⟨g, _, hg⟩ := sub_marked img _ x hx
      simp only [Bool.and_eq_true, decide_eq_true_eq, Bool.not_eq_true']
      refine ⟨hhp, ?_⟩
      rw [hg, mark_isImport]
      have : g.path = f.path := by rw [hg] at hhp; exact hhp
      rw [this]
      simpa using hpt
  · rw [if_neg hd, List.countP_eq_zero]
    intro x hx hP
    simp only [Bool.and_eq_true, decide_eq_true_eq, Bool.not_eq_true'] at hP
    obtain ⟨g, _, hg⟩ := sub_marked img _ x hx
    rw [hg, mark_isImport] at hP
    simp only [mark_path, Bool.not_eq_false', List.contains_iff_mem] at hP
    rw [hP.1] at hP
    obtain ⟨g', hg', _, hd', hp'⟩ := mem_targetsInDir.mp hP.2
    apply hd
    rw [← hd', hp']

/-! ### The images a plugin's requests are built from -/

def stratImages (img : Image) (cfg : PluginCfg) : List Image :=
  if cfg.strategyAll then [img] else imageByDir img

theorem pluginRequests_eq (img : Image) (cfg : PluginCfg) :
    pluginRequests img cfg =
      reqs (allNonImportPaths (stratImages img cfg)) cfg.includeImports cfg.includeWKT (stratImages img cfg) [] := rfl

theorem reqFiles_protoFiles (n : List Str) (ii iw : Bool) :
    ∀ (fs : List File) (used : List Str), (reqFiles n ii iw fs used).2.1.map (·.1) = fs := by
  intro fs
  induction fs with
  | nil => intro used; rfl
  | cons f fs ih => intro used; rw [reqFiles_cons]; simp [ih]

theorem reqs_protoFiles (n : List Str) (ii iw : Bool) :
    ∀ (imgs : List Image) (used : List Str),
      (reqs n ii iw imgs used).map (fun r => r.protoFiles.map (·.1)) = imgs := by
  intro imgs
  induction imgs with
  | nil => intro used; rfl
  | cons img rest ih => intro used; rw [reqs_cons]; simp [ih, reqFiles_protoFiles]

/-- Every file of a strategy image is an image file with possibly a different import mark. -/
theorem stratImages_files (img : Image) (cfg : PluginCfg) :
    ∀ i ∈ stratImages img cfg, ∀ x ∈ i, ∃ g ∈ img, x.path = g.path ∧ x.isWKT = g.isWKT ∧ x.deps = g.deps := by
  intro i hi x hx
  unfold stratImages at hi
  split at hi
  · simp at hi; subst hi; exact ⟨x, hx, rfl, rfl, rfl⟩
  · unfold imageByDir at hi
    obtain ⟨d, _, rfl⟩ := List.mem_map.mp hi
    obtain ⟨g, hg, rfl⟩ := sub_marked img _ x hx
    exact ⟨g, hg, rfl, rfl, rfl⟩

theorem stratImages_nodup (img : Image) (cfg : PluginCfg) (hn : (paths img).Nodup) :
    ∀ i ∈ stratImages img cfg, (paths i).Nodup := by
  intro i hi
  unfold stratImages at hi
  split at hi
  · simp at hi; subst hi; exact hn
  · unfold imageByDir at hi
    obtain ⟨d, _, rfl⟩ := List.mem_map.mp hi
    exact sub_nodup img _

/-- A file that is an import of the input image is an import in every strategy image. -/
theorem stratImages_import (img : Image) (cfg : PluginCfg) (hn : (paths img).Nodup)
    (g : File) (hg : g ∈ img) (hi : g.isImport = true) :
    ∀ i ∈ stratImages img cfg, ∀ x ∈ i, x.path = g.path → x.isImport = true ∧ x.isWKT = g.isWKT := by
  intro i hii x hx hp
  unfold stratImages at hii
  split at hii
  · simp at hii; subst hii
    have := eq_of_mem_nodup_paths hn hx hg hp
    subst this; exact ⟨hi, rfl⟩
  · unfold imageByDir at hii
    obtain ⟨d, _, rfl⟩ := List.mem_map.mp hii
    obtain ⟨g', hg', rfl⟩ := sub_marked img _ x hx
    have hgg : g' = g := eq_of_mem_nodup_paths hn hg' hg hp
    subst hgg
    refine ⟨?_, rfl⟩
    rw [mark_isImport]
    simp only [Bool.not_eq_true', ← Bool.not_eq_true, List.contains_iff_mem]
    intro hc
    obtain ⟨g'', hg'', hni, _, hp''⟩ := mem_targetsInDir.mp hc
    have := eq_of_mem_nodup_paths hn hg'' hg' hp''
    subst this
    rw [hi] at hni; cases hni

theorem stratImages_import_not_nonImp (img : Image) (cfg : PluginCfg) (hn : (paths img).Nodup)
    (g : File) (hg : g ∈ img) (hi : g.isImport = true) :
    g.path ∉ allNonImportPaths (stratImages img cfg) := by
  intro hmem
  unfold allNonImportPaths at hmem
  obtain ⟨i, hii, hx⟩ := List.mem_flatMap.mp hmem
  obtain ⟨x, hxn, hp⟩ := List.mem_map.mp hx
  obtain ⟨hxi, hni⟩ := mem_nonImports.mp hxn
  have := (stratImages_import img cfg hn g hg hi i hii x hxi hp).1
  rw [this] at hni; cases hni

theorem stratImages_paths_sub (img : Image) (cfg : PluginCfg) :
    ∀ i ∈ stratImages img cfg, ∀ p ∈ paths i, p ∈ paths img := by
  intro i hi p hp
  obtain ⟨x, hx, rfl⟩ := List.mem_map.mp hp
  obtain ⟨g, hg, hpg, _, _⟩ := stratImages_files img cfg i hi x hx
  rw [hpg]; exact mem_paths_of_mem hg

theorem import_generated_count (img : Image) (cfg : PluginCfg) (hn : (paths img).Nodup)
    (g : File) (hg : g ∈ img) (hi : g.isImport = true) :
    (allGenerated (pluginRequests img cfg)).count g.path =
      if eligible cfg.includeImports cfg.includeWKT g.isWKT &&
          (stratImages img cfg).any (fun i => (paths i).contains g.path) then 1 else 0 := by
  rw [pluginRequests_eq,
    reqs_count_import _ _ _ g.path g.isWKT (stratImages_import_not_nonImp img cfg hn g hg hi)
      (stratImages img cfg) [] (stratImages_nodup img cfg hn) (stratImages_import img cfg hn g hg hi)]
  simp

theorem request_files_mem_stratImages (img : Image) (cfg : PluginCfg) (r : Request)
    (hr : r ∈ pluginRequests img cfg) : r.protoFiles.map (·.1) ∈ stratImages img cfg := by
  rw [pluginRequests_eq] at hr
  have := reqs_protoFiles (allNonImportPaths (stratImages img cfg)) cfg.includeImports cfg.includeWKT
    (stratImages img cfg) []
  rw [← this]
  exact List.mem_map.mpr ⟨r, hr, rfl⟩

/-! ### Dependency order -/

/-- Every file's dependencies that are files of `img` occur earlier in the list `L`. -/
def DepsBefore (img : Image) (L : List File) : Prop :=
  ∀ pre h post, L = pre ++ h :: post → ∀ d ∈ h.deps, d ∈ paths img → d ∈ paths pre

/-- The input image is ordered: distinct paths, dependencies first. -/
def Ordered (img : Image) : Prop := (paths img).Nodup ∧ DepsBefore img img

def rank (img : Image) (p : Str) : Nat := (paths img).idxOf p

theorem rank_le (img : Image) (p : Str) : rank img p ≤ img.length := by
  unfold rank
  have := @List.idxOf_le_length _ _ _ (paths img) p
  simpa [paths] using this

theorem ordered_rank {img : Image} (ho : Ordered img) {f : File} (hf : f ∈ img) {d : Str}
    (hd : d ∈ f.deps) (hdi : d ∈ paths img) : rank img d < rank img f.path := by
  obtain ⟨pre, post, e⟩ := List.append_of_mem hf
  have hdp := ho.2 pre f post e d hd hdi
  have hnd := ho.1
  rw [e] at hnd
  simp only [paths, List.map_append, List.map_cons] at hnd
  have hfp : f.path ∉ List.map (·.path) pre := by
    intro hm
    have := (List.nodup_append.mp hnd).2.2 _ hm f.path (by simp)
    exact this rfl
  unfold rank
  rw [e]
  simp only [paths, List.map_append, List.map_cons, List.idxOf_append]
  rw [if_pos (by simpa [paths] using hdp), if_neg hfp, List.idxOf_cons_self]
  have := List.idxOf_lt_length_of_mem (by simpa [paths] using hdp : d ∈ List.map (·.path) pre)
  omega

theorem depsBefore_nil (img : Image) : DepsBefore img [] := by
  intro pre h post e
  cases pre <;> simp at e

theorem depsBefore_snoc {img : Image} {L : List File} {h : File} (hL : DepsBefore img L)
    (hh : ∀ d ∈ h.deps, d ∈ paths img → d ∈ paths L) : DepsBefore img (L ++ [h]) := by
  intro pre x post e d hd hdi
  rcases List.eq_nil_or_concat post with hp | ⟨post', b, hp⟩
  · subst hp
    have := List.append_inj' e (by simp)
    obtain ⟨e1, e2⟩ := this
    simp at e2
    subst e1; subst e2
    exact hh d hd hdi
  · rw [hp, List.concat_eq_append] at e
    have e' : L ++ [h] = (pre ++ x :: post') ++ [b] := by rw [e]; simp
    obtain ⟨e1, _⟩ := List.append_inj' e' (by simp)
    exact hL pre x post' e1 d hd hdi

theorem ext_grey {img : Image} {t : List Str} {a b : DState} (h : Ext img t a b) (p : Str) :
    (p ∈ b.1 ∧ p ∉ paths b.2) ↔ (p ∈ a.1 ∧ p ∉ paths a.2) := by
  obtain ⟨n, e, s, u, _, _⟩ := h
  rw [e, s p]
  simp only [paths, List.map_append, List.mem_append, not_or]
  constructor
  · rintro ⟨h1 | h1, h2, h3⟩
    · exact ⟨h1, h2⟩
    · exact absurd h1 h3
  · rintro ⟨h1, h2⟩
    exact ⟨Or.inl h1, h2, fun h3 => u p h3 h1⟩

theorem ext_acc_mono {img : Image} {t : List Str} {a b : DState} (h : Ext img t a b) {p : Str}
    (hp : p ∈ paths a.2) : p ∈ paths b.2 := by
  obtain ⟨n, e, _, _, _, _⟩ := h
  rw [e]; simp only [paths, List.map_append, List.mem_append]; exact Or.inl hp

/-- On an ordered image the DFS never runs out of fuel below the rank of the file, keeps the
    "dependencies first" invariant of the accumulator, and leaves the file in the accumulator. -/
theorem visit_ordered (img : Image) (t : List Str) (ho : Ordered img) :
    ∀ (fuel : Nat) (f : File) (st : DState), f ∈ img → rank img f.path < fuel →
      (∀ p, p ∈ st.1 → p ∉ paths st.2 → rank img f.path < rank img p) →
      DepsBefore img st.2 →
      DepsBefore img (visit img t fuel f st).2 ∧ (f.path ∈ paths (visit img t fuel f st).2) := by
  intro fuel
  induction fuel with
  | zero => intro f st _ h; omega
  | succ fuel ih =>
    intro f st hf hr hgrey hdb
    rw [visit_succ]
    by_cases hs : f.path ∈ st.1
    · rw [if_pos hs]
      refine ⟨hdb, ?_⟩
      apply Classical.byContradiction
      intro hnot
      have := hgrey f.path hs hnot
      omega
    · rw [if_neg hs]
      -- the dependency loop
      have hloop : ∀ (ds : List Str) (s : DState), (∀ d ∈ ds, d ∈ f.deps) →
          Ext img t (f.path :: st.1, st.2) s → DepsBefore img s.2 →
          Ext img t (f.path :: st.1, st.2) (ds.foldl (depStep img t fuel) s) ∧
          DepsBefore img (ds.foldl (depStep img t fuel) s).2 ∧
          (∀ d ∈ ds, d ∈ paths img → d ∈ paths (ds.foldl (depStep img t fuel) s).2) := by
        intro ds
        induction ds with
        | nil => intro s _ he hd; exact ⟨he, hd, by simp⟩
        | cons d ds ihd =>
          intro s hsub he hd
          have hdf : d ∈ f.deps := hsub d (by simp)
          have hsub' : ∀ d' ∈ ds, d' ∈ f.deps := fun d' h => hsub d' (List.mem_cons_of_mem _ h)
          simp only [List.foldl]
          -- one step
          have hstep : Ext img t s (depStep img t fuel s d) ∧ DepsBefore img (depStep img t fuel s d).2 ∧
              (d ∈ paths img → d ∈ paths (depStep img t fuel s d).2) := by
            unfold depStep
            split
            · rename_i g hg
              obtain ⟨hgi, hgp⟩ := getFile_some hg
              have hdi : d ∈ paths img := hgp ▸ mem_paths_of_mem hgi
              have hrk : rank img g.path < rank img f.path := by
                rw [hgp]; exact ordered_rank ho hf hdf hdi
              have hgrey' : ∀ p, p ∈ s.1 → p ∉ paths s.2 → rank img g.path < rank img p := by
                intro p hp1 hp2
                have := (ext_grey he p).mp ⟨hp1, hp2⟩
                simp only [List.mem_cons] at this
                rcases this.1 with rfl | h1
                · exact hrk
                · have := hgrey p h1 this.2; omega
              obtain ⟨r1, r2⟩ := ih g s hgi (by omega) hgrey' hd
              exact ⟨visit_ext img t fuel g s hgi, r1, fun _ => hgp ▸ r2⟩
            · rename_i hnone
              refine ⟨ext_refl img t s, hd, ?_⟩
              intro hdi
              obtain ⟨g, hg⟩ := getFile_of_mem_paths hdi
              rw [hg] at hnone; cases hnone
          obtain ⟨e1, d1, m1⟩ := hstep
          obtain ⟨e2, d2, m2⟩ := ihd (depStep img t fuel s d) hsub' (ext_trans he e1) d1
          refine ⟨e2, d2, ?_⟩
          intro d' hd' hdi'
          rcases List.mem_cons.mp hd' with rfl | hd'
          · have hx : Ext img t (depStep img t fuel s d') (ds.foldl (depStep img t fuel) (depStep img t fuel s d')) :=
              fold_depStep_ext img t fuel ds _
            exact ext_acc_mono hx (m1 hdi')
          · exact m2 d' hd' hdi'
      obtain ⟨_, hd1, hm1⟩ := hloop f.deps (f.path :: st.1, st.2) (fun d h => h)
        (ext_refl img t _) hdb
      constructor
      · simp only
        apply depsBefore_snoc hd1
        intro d hd hdi
        rw [mark_deps] at hd
        exact hm1 d hd hdi
      · simp [paths]

theorem visitAll_ordered (img : Image) (t : List Str) (ho : Ordered img) (fs : List File)
    (hfs : ∀ f ∈ fs, f ∈ img) (s : DState) (he : Ext img t ([], []) s) (hd : DepsBefore img s.2) :
    DepsBefore img (visitAll img t fs s).2 := by
  induction fs generalizing s with
  | nil => exact hd
  | cons f fs ih =>
    show DepsBefore img (visitAll img t fs (visit img t (img.length + 1) f s)).2
    have hf : f ∈ img := hfs f (by simp)
    apply ih (fun g hg => hfs g (List.mem_cons_of_mem _ hg))
    · exact ext_trans he (visit_ext img t _ f s hf)
    · refine (visit_ordered img t ho _ f s hf (by have := rank_le img f.path; omega) ?_ hd).1
      intro p hp1 hp2
      have := (ext_grey he p).mp ⟨hp1, hp2⟩
      simp at this

theorem sub_depsBefore (img : Image) (t : List Str) (ho : Ordered img) :
    DepsBefore img (imageWithOnlyPaths img t) :=
  visitAll_ordered img t ho _ (targetFiles_mem img t) _ (ext_refl img t _) (depsBefore_nil img)

theorem stratImages_depsBefore (img : Image) (cfg : PluginCfg) (ho : Ordered img) :
    ∀ i ∈ stratImages img cfg, DepsBefore img i := by
  intro i hi
  unfold stratImages at hi
  split at hi
  · simp at hi; subst hi; exact ho.2
  · unfold imageByDir at hi
    obtain ⟨d, _, rfl⟩ := List.mem_map.mp hi
    exact sub_depsBefore img _ ho

theorem reqFiles_gen_sub (n : List Str) (ii iw : Bool) :
    ∀ (fs : List File) (used : List Str), ∀ p ∈ (reqFiles n ii iw fs used).1, p ∈ paths fs := by
  intro fs
  induction fs with
  | nil => intro used p hp; simp [reqFiles_nil] at hp
  | cons f fs ih =>
    intro used p hp
    rw [reqFiles_cons] at hp
    simp only at hp
    split at hp
    · rcases List.mem_cons.mp hp with rfl | hp
      · simp [paths]
      · simp only [paths, List.map_cons, List.mem_cons]; exact Or.inr (ih _ p hp)
    · simp only [paths, List.map_cons, List.mem_cons]; exact Or.inr (ih _ p hp)

theorem reqs_mem (n : List Str) (ii iw : Bool) :
    ∀ (imgs : List Image) (used : List Str), ∀ r ∈ reqs n ii iw imgs used,
      ∃ i ∈ imgs, ∃ u, r.toGenerate = (reqFiles n ii iw i u).1 ∧
        r.protoFiles = (reqFiles n ii iw i u).2.1 ∧ r.sourceFiles = (reqFiles n ii iw i u).1 := by
  intro imgs
  induction imgs with
  | nil => intro used r hr; simp [reqs] at hr
  | cons i rest ih =>
    intro used r hr
    rw [reqs_cons] at hr
    rcases List.mem_cons.mp hr with rfl | hr
    · exact ⟨i, by simp, used, rfl, rfl, rfl⟩
    · obtain ⟨j, hj, u, h⟩ := ih _ r hr
      exact ⟨j, List.mem_cons_of_mem _ hj, u, h⟩

theorem reqFiles_flag (n : List Str) (ii iw : Bool) :
    ∀ (fs : List File) (used : List Str), (paths fs).Nodup →
      ∀ x ∈ (reqFiles n ii iw fs used).2.1, (x.2 = true ↔ x.1.path ∈ (reqFiles n ii iw fs used).1) := by
  intro fs
  induction fs with
  | nil => intro used _ x hx; simp [reqFiles_nil] at hx
  | cons f fs ih =>
    intro used hnd x hx
    simp only [paths, List.map_cons, List.nodup_cons] at hnd
    have hsub := reqFiles_gen_sub n ii iw fs (isFileToGenerate f used n ii iw).2
    rw [reqFiles_cons] at hx ⊢
    simp only at hx ⊢
    rcases List.mem_cons.mp hx with rfl | hx
    · simp only
      cases hg : (isFileToGenerate f used n ii iw).1
      · simp only [Bool.false_eq_true, if_false, false_iff]
        intro hm; exact hnd.1 (hsub _ hm)
      · simp
    · have hxm : x.1 ∈ fs := by
        have := reqFiles_protoFiles n ii iw fs (isFileToGenerate f used n ii iw).2
        rw [← this]; exact List.mem_map_of_mem hx
      have hne : x.1.path ≠ f.path := fun e => hnd.1 (e ▸ List.mem_map_of_mem hxm)
      rw [ih _ hnd.2 x hx]
      cases (isFileToGenerate f used n ii iw).1
      · simp
      · simp [hne]

/-- Transitive dependency through files of the image. -/
inductive Reach (img : Image) : Str → Str → Prop
  | refl (p : Str) : Reach img p p
  | step {p q d : Str} : Reach img p q → (∃ f ∈ img, f.path = q ∧ d ∈ f.deps) → d ∈ paths img → Reach img p d

theorem closed_under_deps {img : Image} {L : List File} (hn : (paths img).Nodup)
    (hL : DepsBefore img L) (hm : ∀ x ∈ L, ∃ g ∈ img, x.path = g.path ∧ x.isWKT = g.isWKT ∧ x.deps = g.deps)
    {p q : Str} (hr : Reach img p q) (hp : p ∈ paths L) : q ∈ paths L := by
  induction hr with
  | refl => exact hp
  | step _ hdep hdi ih =>
    obtain ⟨f, hf, hfq, hd⟩ := hdep
    obtain ⟨x, hx, hxp⟩ := List.mem_map.mp ih
    obtain ⟨g, hg, hgp, _, hgd⟩ := hm x hx
    have : g = f := eq_of_mem_nodup_paths hn hg hf (by rw [← hgp, hxp, hfq])
    subst this
    obtain ⟨pre, post, e⟩ := List.append_of_mem hx
    have := hL pre x post e _ (hgd ▸ hd) hdi
    rw [e]; simp only [paths, List.map_append, List.mem_append]; exact Or.inl this

/-! ### A decidable check of `Ordered` (for the non-vacuity examples) -/

def depsBeforeB (img : Image) : List Str → List File → Bool
  | _, [] => true
  | pre, h :: rest =>
    h.deps.all (fun d => !(paths img).contains d || pre.contains d) &&
      depsBeforeB img (pre ++ [h.path]) rest

theorem depsBeforeB_sound (img : Image) :
    ∀ (L : List File) (pre0 : List File), depsBeforeB img (paths pre0) L = true →
      ∀ pre h post, L = pre ++ h :: post → ∀ d ∈ h.deps, d ∈ paths img → d ∈ paths (pre0 ++ pre) := by
  intro L
  induction L with
  | nil => intro pre0 _ pre h post e; cases pre <;> simp at e
  | cons x xs ih =>
    intro pre0 hb pre h post e d hd hdi
    simp only [depsBeforeB, Bool.and_eq_true, List.all_eq_true] at hb
    cases pre with
    | nil =>
      simp only [List.nil_append, List.cons.injEq] at e
      obtain ⟨rfl, _⟩ := e
      have := hb.1 d hd
      simp only [Bool.or_eq_true, Bool.not_eq_true', List.contains_iff_mem] at this
      rcases this with h1 | h1
      · have : (paths img).contains d = true := by simpa using hdi
        rw [this] at h1; cases h1
      · simpa using h1
    | cons y ys =>
      simp only [List.cons_append, List.cons.injEq] at e
      obtain ⟨rfl, e⟩ := e
      have hb2 : depsBeforeB img (paths (pre0 ++ [x])) xs = true := by
        simpa [paths] using hb.2
      have := ih (pre0 ++ [x]) hb2 ys h post e d hd hdi
      simpa [paths] using this

def orderedB (img : Image) : Bool := decide ((paths img).Nodup) && depsBeforeB img [] img

theorem orderedB_sound {img : Image} (h : orderedB img = true) : Ordered img := by
  simp only [orderedB, Bool.and_eq_true, decide_eq_true_eq] at h
  refine ⟨h.1, ?_⟩
  intro pre x post e d hd hdi
  have := depsBeforeB_sound img img [] (by simpa [paths] using h.2) pre x post e d hd hdi
  simpa using this

/-! ## Response side -/

/-- A bucket key that is a validated relative path: proper name components only, at least one. -/
def KeyOK (k : Str) : Prop := ∃ ns : Key, AllProper ns ∧ ns ≠ [] ∧ k = renderKey ns

theorem validatePath_keyOK {s k : Str} (h : validatePath s = .ok k) : KeyOK k := by
  unfold validatePath at h
  split at h
  · cases h
  · rename_i p hp
    split at h
    · cases h
    · rename_i hne
      injection h with h; subst h
      obtain ⟨ns, hns, e⟩ := validate_sound s p hp
      refine ⟨ns, hns, ?_, e⟩
      intro hnil; subst hnil
      apply hne; rw [e]; rfl

theorem find_some_mem_keys {m : Mem} {p : Str} {c : Content} (h : m.find p = some c) : p ∈ m.keys := by
  induction m with
  | nil => simp [Mem.find] at h
  | cons kv rest ih =>
    obtain ⟨k, v⟩ := kv
    unfold Mem.find at h
    split at h
    · rename_i hk; subst hk; simp [Mem.keys]
    · have := ih h
      simp only [Mem.keys, List.map_cons, List.mem_cons] at this ⊢
      exact Or.inr this

theorem keys_erase_sub {m : Mem} {p k : Str} (h : k ∈ (m.erase p).keys) : k ∈ m.keys := by
  unfold Mem.erase Mem.keys at h
  obtain ⟨kv, hkv, rfl⟩ := List.mem_map.mp h
  exact List.mem_map_of_mem (List.mem_filter.mp hkv).1

theorem memPut_keys {m m' : Mem} {name : Str} {c : Content} (h : memPut m name c = .ok m') :
    ∃ p, validatePath name = .ok p ∧ ∀ k ∈ m'.keys, k = p ∨ k ∈ m.keys := by
  unfold memPut at h
  split at h
  · cases h
  · rename_i p hp
    injection h with h; subst h
    refine ⟨p, hp, ?_⟩
    intro k hk
    simp only [Mem.keys, List.map_cons, List.mem_cons] at hk
    rcases hk with hk | hk
    · exact Or.inl hk
    · exact Or.inr (keys_erase_sub hk)

theorem memGet_key {m : Mem} {name : Str} {c : Content} (h : memGet m name = .ok c) :
    ∃ p, validatePath name = .ok p ∧ p ∈ m.keys := by
  unfold memGet at h
  split at h
  · cases h
  · rename_i p hp
    split at h
    · rename_i c' hf
      exact ⟨p, hp, find_some_mem_keys hf⟩
    · cases h

theorem liftP_ok {α : Type} {r : Except PErr α} {a : α} (h : liftP r = .ok a) : r = .ok a := by
  cases r with
  | error e => simp [liftP] at h
  | ok b => simp [liftP] at h; subst h; rfl

/-- One response file: a plain file creates/overwrites exactly the validated name; an insertion
    point needs its (validated) target to be in the same bucket already and creates nothing. -/
theorem writeFile_keys {m m' : Mem} {f : RFile} (h : writeFile m f = .ok m') :
    ∃ p, validatePath f.getName = .ok p ∧ (∀ k ∈ m'.keys, k = p ∨ k ∈ m.keys) ∧
      (f.getIP ≠ [] → p ∈ m.keys) := by
  unfold writeFile at h
  split at h
  · rename_i hip
    split at h
    · cases h
    · rename_i target hget
      split at h
      · cases h
      · obtain ⟨p, hp, hk⟩ := memGet_key hget
        obtain ⟨p', hp', hk'⟩ := memPut_keys (liftP_ok h)
        rw [hp] at hp'; injection hp' with hp'; subst hp'
        exact ⟨p, hp, hk', fun _ => hk⟩
  · rename_i hip
    obtain ⟨p, hp, hk⟩ := memPut_keys (liftP_ok h)
    exact ⟨p, hp, hk, fun hne => absurd hne hip⟩

/-- Where a key of the bucket of out directory `o` comes from: a non-insertion file of a
    plugin in `D` whose out directory is `o` and whose validated name is the key. -/
def Source (cwd : Str) (D : List PluginResp) (o k : Str) : Prop :=
  ∃ p ∈ D, absPath cwd p.out = o ∧ ∃ f ∈ p.files, f.getIP = [] ∧ validatePath f.getName = .ok k

theorem source_mono {cwd : Str} {D D' : List PluginResp} {o k : Str} (hsub : ∀ p ∈ D, p ∈ D')
    (h : Source cwd D o k) : Source cwd D' o k := by
  obtain ⟨p, hp, rest⟩ := h
  exact ⟨p, hsub p hp, rest⟩

/-- `writeResponse` for plugin `p` (files `fs` are a suffix of `p.files`). -/
theorem writeResponse_inv (cwd : Str) (D : List PluginResp) (p : PluginResp) (hpD : p ∈ D) :
    ∀ (fs : List RFile) (m m' : Mem), (∀ f ∈ fs, f ∈ p.files) →
      (∀ k ∈ m.keys, Source cwd D (absPath cwd p.out) k) →
      writeResponse m fs = .ok m' →
      (∀ k ∈ m'.keys, Source cwd D (absPath cwd p.out) k) ∧
      (∀ f ∈ fs, f.getIP ≠ [] →
        ∃ k, validatePath f.getName = .ok k ∧ Source cwd D (absPath cwd p.out) k) := by
  intro fs
  induction fs with
  | nil =>
    intro m m' _ hm h
    simp [writeResponse] at h; subst h
    exact ⟨hm, by simp⟩
  | cons f fs ih =>
    intro m m' hsub hm h
    unfold writeResponse at h
    split at h
    · cases h
    · rename_i m1 hw
      obtain ⟨k, hk, hkeys, hins⟩ := writeFile_keys hw
      have hfp : f ∈ p.files := hsub f (by simp)
      have hm1 : ∀ k' ∈ m1.keys, Source cwd D (absPath cwd p.out) k' := by
        intro k' hk'
        rcases hkeys k' hk' with rfl | hold
        · by_cases hip : f.getIP = []
          · exact ⟨p, hpD, rfl, f, hfp, hip, hk⟩
          · exact hm _ (hins hip)
        · exact hm k' hold
      obtain ⟨r1, r2⟩ := ih m1 m' (fun g hg => hsub g (List.mem_cons_of_mem _ hg)) hm1 h
      refine ⟨r1, ?_⟩
      intro g hg hip
      rcases List.mem_cons.mp hg with rfl | hg
      · exact ⟨k, hk, hm _ (hins hip)⟩
      · exact r2 g hg hip

theorem find_mem {bs : Buckets} {o : Str} {m : Mem} (h : bs.find o = some m) : (o, m) ∈ bs := by
  induction bs with
  | nil => simp [Buckets.find] at h
  | cons kv rest ih =>
    obtain ⟨k, v⟩ := kv
    unfold Buckets.find at h
    split at h
    · rename_i hk; injection h with h; subst hk; subst h; simp
    · exact List.mem_cons_of_mem _ (ih h)

theorem mem_set {bs : Buckets} {o : Str} {m : Mem} {x : Str × Mem} (h : x ∈ bs.set o m) :
    x = (o, m) ∨ x ∈ bs := by
  induction bs with
  | nil => simp [Buckets.set] at h; exact Or.inl h
  | cons kv rest ih =>
    obtain ⟨k, v⟩ := kv
    unfold Buckets.set at h
    split at h
    · rename_i hk
      rcases List.mem_cons.mp h with h | h
      · subst hk; exact Or.inl h
      · exact Or.inr (List.mem_cons_of_mem _ h)
    · rcases List.mem_cons.mp h with h | h
      · exact Or.inr (by rw [h]; simp)
      · rcases ih h with h | h
        · exact Or.inl h
        · exact Or.inr (List.mem_cons_of_mem _ h)

/-- Invariant of the response writer: every key of every bucket has a source in this run. -/
def Prov (cwd : Str) (D : List PluginResp) (bs : Buckets) : Prop :=
  ∀ o m, (o, m) ∈ bs → ∀ k ∈ m.keys, Source cwd D o k

theorem addResponses_inv (cwd : Str) (all : List PluginResp) :
    ∀ (ps : List PluginResp) (bs bs' : Buckets), (∀ p ∈ ps, p ∈ all) → Prov cwd all bs →
      addResponses cwd bs ps = .ok bs' →
      Prov cwd all bs' ∧
      (∀ p ∈ ps, ∀ f ∈ p.files, f.getIP ≠ [] →
        ∃ k, validatePath f.getName = .ok k ∧ Source cwd all (absPath cwd p.out) k) := by
  intro ps
  induction ps with
  | nil =>
    intro bs bs' _ hprov h
    simp [addResponses] at h; subst h
    exact ⟨hprov, by simp⟩
  | cons p ps ih =>
    intro bs bs' hsub hprov h
    unfold addResponses at h
    split at h
    · cases h
    · rename_i bs1 hadd
      unfold addResponse at hadd
      simp only at hadd
      split at hadd
      · cases hadd
      · rename_i m hw
        injection hadd with hadd
        have hpa : p ∈ all := hsub p (by simp)
        have hm0 : ∀ k ∈ ((bs.find (absPath cwd p.out)).getD []).keys, Source cwd all (absPath cwd p.out) k := by
          intro k hk
          cases hf : bs.find (absPath cwd p.out) with
          | none => rw [hf] at hk; simp [Mem.keys] at hk
          | some m0 => rw [hf] at hk; exact hprov _ m0 (find_mem hf) k hk
        obtain ⟨w1, w2⟩ := writeResponse_inv cwd all p hpa p.files _ m (fun f h => h) hm0 hw
        have hprov1 : Prov cwd all bs1 := by
          intro o m' hmem k hk
          rw [← hadd] at hmem
          rcases mem_set hmem with e | hold
          · injection e with e1 e2; subst e1; subst e2; exact w1 k hk
          · exact hprov o m' hold k hk
        obtain ⟨r1, r2⟩ := ih bs1 bs' (fun q hq => hsub q (List.mem_cons_of_mem _ hq)) hprov1 h
        refine ⟨r1, ?_⟩
        intro q hq f hf hip
        rcases List.mem_cons.mp hq with rfl | hq
        · exact w2 f hf hip
        · exact r2 q hq f hf hip

/-! ### ValidatePluginResponses -/

def keysOf (key : Str → Str → Str) (p : PluginResp) : List Str :=
  (p.files.filter fun f => f.getIP = []).map fun f => key p.out f.getName

def allKeys (key : Str → Str → Str) (ps : List PluginResp) : List Str := ps.flatMap (keysOf key)

theorem validateFiles_ok (key : Str → Str → Str) (out : Str) :
    ∀ (fs : List RFile) (seen seen' : List Str), validateFiles key out fs seen = .ok seen' →
      seen' = (((fs.filter fun f => f.getIP = []).map fun f => key out f.getName).reverse ++ seen) ∧
      (seen.Nodup → seen'.Nodup) := by
  intro fs
  induction fs with
  | nil => intro seen seen' h; simp [validateFiles] at h; subst h; simp
  | cons f fs ih =>
    intro seen seen' h
    unfold validateFiles at h
    split at h
    · rename_i hip
      obtain ⟨e, n⟩ := ih seen seen' h
      refine ⟨?_, n⟩
      rw [e]; simp [List.filter_cons, hip]
    · rename_i hip
      have hip' : f.getIP = [] := by simpa using hip
      simp only at h
      split at h
      · cases h
      · rename_i hnot
        obtain ⟨e, n⟩ := ih _ seen' h
        refine ⟨?_, fun hs => n (List.nodup_cons.mpr ⟨hnot, hs⟩)⟩
        rw [e]; simp [List.filter_cons, hip']

theorem validatePluginResponses_ok (key : Str → Str → Str) :
    ∀ (ps : List PluginResp) (seen seen' : List Str), validatePluginResponses key ps seen = .ok seen' →
      seen' = (allKeys key ps).reverse ++ seen ∧ (seen.Nodup → seen'.Nodup) := by
  intro ps
  induction ps with
  | nil => intro seen seen' h; simp [validatePluginResponses] at h; subst h; simp [allKeys]
  | cons p ps ih =>
    intro seen seen' h
    unfold validatePluginResponses at h
    split at h
    · cases h
    · rename_i s1 hv
      obtain ⟨e1, n1⟩ := validateFiles_ok key p.out p.files seen s1 hv
      obtain ⟨e2, n2⟩ := ih s1 seen' h
      refine ⟨?_, fun hs => n2 (n1 hs)⟩
      rw [e2, e1]; simp [allKeys, keysOf]

theorem validate_error_is_duplicate (key : Str → Str → Str) :
    ∀ (ps : List PluginResp) (seen : List Str) (e : GErr),
      validatePluginResponses key ps seen = .error e → e = .duplicate := by
  intro ps
  induction ps with
  | nil => intro seen e h; simp [validatePluginResponses] at h
  | cons p ps ih =>
    intro seen e h
    unfold validatePluginResponses at h
    split at h
    · rename_i e' hv
      injection h with h; subst h
      -- validateFiles only fails with .duplicate
      clear ih
      generalize p.files = fs at hv
      induction fs generalizing seen with
      | nil => simp [validateFiles] at hv
      | cons f fs ihf =>
        unfold validateFiles at hv
        split at hv
        · exact ihf _ hv
        · simp only at hv
          split at hv
          · injection hv with hv; exact hv.symm
          · exact ihf _ hv
    · exact ih _ e h


/-! ### Built images are ordered (connection to C01) -/

/-- The image `buf generate` receives from the build (`BufModel.Targeting.buildImage`, property
    C01) seen as a C17 image: the dependencies of a file are what the compiler says it imports,
    `isWKT` is `datawkt.Exists` (a parameter `w`). -/
def ofBuilt (c : BufModel.Targeting.Compiler) (w : Str → Bool) (img : List BufModel.Targeting.ImgFile) : Image :=
  img.map fun f => ⟨f.path, f.isImport, w f.path, c.imports f.path⟩

theorem paths_ofBuilt (c : BufModel.Targeting.Compiler) (w : Str → Bool) (img : List BufModel.Targeting.ImgFile) :
    paths (ofBuilt c w img) = img.map (·.path) := by
  unfold paths ofBuilt; simp

/-- Every image the build can produce is `Ordered`: C01's `image_nodup` and
    `image_topological`. -/
theorem ordered_of_buildImage (t : BufModel.Targeting.TWS) (c : BufModel.Targeting.Compiler)
    (perm : List Str → List Str) (img : List BufModel.Targeting.ImgFile)
    (h : BufModel.Targeting.buildImage t c perm = .ok img) (w : Str → Bool) :
    Ordered (ofBuilt c w img) := by
  constructor
  · rw [paths_ofBuilt]; exact BufProofs.C01.image_nodup t c perm img h
  · intro pre x post e d hd _
    unfold ofBuilt at e
    obtain ⟨l1, l2', hl, hpre, hrest⟩ := List.map_eq_append_iff.mp e
    obtain ⟨f, l2, hl2, hx, _⟩ := List.map_eq_cons_iff.mp hrest
    subst hl2
    have := BufProofs.C01.image_topological t c perm img h l1 f l2 hl d (by rw [← hx] at hd; exact hd)
    rw [← hpre]
    simpa [paths] using this


/-! ### From bucket keys to disk paths -/

/-- An absolute path cleans to `/` followed by proper name components (no `..` survives at the
    root). -/
theorem clean_abs_shape (s : Str) (h : isAbs s = true) :
    ∃ os : List Comp, AllProper os ∧ clean s = '/' :: joinSlash os := by
  obtain ⟨k, names, hr, hp, hk⟩ := reduce_shape true (splitSlash s) (splitSlash_no_slash s)
  have hk0 : k = 0 := hk rfl
  subst hk0
  refine ⟨names, hp, ?_⟩
  unfold clean
  rw [h, hr]
  simp [render]

theorem isAbs_ne_nil {s : Str} (h : isAbs s = true) : s ≠ [] := by
  intro e; subst e; simp [isAbs] at h

theorem isAbs_append {s : Str} (h : isAbs s = true) (t : Str) : isAbs (s ++ t) = true := by
  cases s with
  | nil => simp [isAbs] at h
  | cons c cs => simpa [isAbs] using h

/-- `filepath.Abs(out)` against an absolute working directory is `/` followed by proper name
    components. -/
theorem absPath_shape (cwd out : Str) (hc : isAbs cwd = true) :
    ∃ os : List Comp, AllProper os ∧ absPath cwd out = '/' :: joinSlash os := by
  unfold absPath
  by_cases ho : isAbs out = true
  · simp only [ho, if_true]; exact clean_abs_shape out ho
  · simp only [ho, Bool.false_eq_true, if_false]
    unfold join
    have hcn := isAbs_ne_nil hc
    by_cases hon : out = []
    · subst hon
      simp only [List.filter, hcn, ne_eq, not_false_eq_true, decide_true, not_true_eq_false, decide_false]
      exact clean_abs_shape _ (by simpa [joinSlash] using hc)
    · simp only [List.filter, hcn, hon, ne_eq, not_false_eq_true, decide_true]
      exact clean_abs_shape _ (by
        show isAbs (cwd ++ '/' :: out) = true
        exact isAbs_append hc _)

theorem splitSlash_rooted_plain {os : List Comp} (h : AllProper os) :
    (∀ c ∈ splitSlash ('/' :: joinSlash os), Proper c ∨ c = dot ∨ c = []) ∧
    (splitSlash ('/' :: joinSlash os)).filter (fun c => decide (Proper c)) = os := by
  rw [splitSlash_cons_slash]
  have hnp : ¬ Proper ([] : Comp) := fun h => h.1 rfl
  cases os with
  | nil =>
    simp only [joinSlash, splitSlash]
    exact ⟨by intro c hc; simp at hc; exact Or.inr (Or.inr hc), by simp [List.filter, hnp]⟩
  | cons o os' =>
    rw [splitSlash_joinSlash (o :: os') (by simp) (fun n hn => proper_no_slash (h n hn))]
    constructor
    · intro c hc
      rcases List.mem_cons.mp hc with rfl | hc
      · exact Or.inr (Or.inr rfl)
      · exact Or.inl (h c hc)
    · simp only [List.filter, hnp, decide_false]
      exact filter_proper_of_allProper h

/-- The file `storageos` writes for bucket key `k` under root `o`: the root's components
    followed by the key's components — no `..`, at least one component below the root. -/
theorem diskPath_shape {os ns : List Comp} (ho : AllProper os) (hn : AllProper ns) :
    diskPath ('/' :: joinSlash os) (renderKey ns) = '/' :: joinSlash (os ++ ns) := by
  unfold diskPath join
  have hnb := renderKey_ne_nil hn
  simp only [List.filter, hnb, ne_eq, not_false_eq_true, decide_true, reduceCtorEq]
  show clean (('/' :: joinSlash os) ++ '/' :: renderKey ns) = _
  unfold clean
  have habs : isAbs (('/' :: joinSlash os) ++ '/' :: renderKey ns) = true := by simp [isAbs]
  rw [habs, splitSlash_append]
  obtain ⟨h1, h2⟩ := splitSlash_rooted_plain ho
  rw [reduce_plain true _ (by
    intro c hc
    rcases List.mem_append.mp hc with hc | hc
    · exact h1 c hc
    · exact splitSlash_renderKey_plain hn c hc)]
  rw [List.filter_append, h2, filter_splitSlash_renderKey hn]
  simp [render]

/-! ### Forward direction: every returned file lands in its plugin's bucket -/

theorem mem_keys_erase {m : Mem} {p k : Str} (h : k ∈ m.keys) (hne : k ≠ p) : k ∈ (m.erase p).keys := by
  unfold Mem.keys at h
  obtain ⟨kv, hkv, rfl⟩ := List.mem_map.mp h
  unfold Mem.erase Mem.keys
  exact List.mem_map.mpr ⟨kv, List.mem_filter.mpr ⟨hkv, by simpa using hne⟩, rfl⟩

theorem memPut_keys_fwd {m m' : Mem} {name : Str} {c : Content} (h : memPut m name c = .ok m') :
    ∃ p, validatePath name = .ok p ∧ p ∈ m'.keys ∧ ∀ k ∈ m.keys, k ∈ m'.keys := by
  unfold memPut at h
  split at h
  · cases h
  · rename_i p hp
    injection h with h; subst h
    refine ⟨p, hp, by simp [Mem.keys], ?_⟩
    intro k hk
    by_cases e : k = p
    · subst e; simp [Mem.keys]
    · have := mem_keys_erase hk e
      simp only [Mem.keys, List.map_cons, List.mem_cons]
      exact Or.inr this

theorem writeFile_keys_fwd {m m' : Mem} {f : RFile} (h : writeFile m f = .ok m') :
    ∃ p, validatePath f.getName = .ok p ∧ p ∈ m'.keys ∧ ∀ k ∈ m.keys, k ∈ m'.keys := by
  unfold writeFile at h
  split at h
  · split at h
    · cases h
    · split at h
      · cases h
      · exact memPut_keys_fwd (liftP_ok h)
  · exact memPut_keys_fwd (liftP_ok h)

theorem writeResponse_fwd :
    ∀ (fs : List RFile) (m m' : Mem), writeResponse m fs = .ok m' →
      (∀ k ∈ m.keys, k ∈ m'.keys) ∧ ∀ f ∈ fs, ∃ p, validatePath f.getName = .ok p ∧ p ∈ m'.keys
  | [], m, m', h => by
    simp [writeResponse] at h; subst h
    exact ⟨fun k hk => hk, by simp⟩
  | f :: fs, m, m', h => by
    unfold writeResponse at h
    split at h
    · cases h
    · rename_i m1 hw
      obtain ⟨p, hp, hpm, hmono⟩ := writeFile_keys_fwd hw
      obtain ⟨r1, r2⟩ := writeResponse_fwd fs m1 m' h
      refine ⟨fun k hk => r1 k (hmono k hk), ?_⟩
      intro g hg
      rcases List.mem_cons.mp hg with rfl | hg
      · exact ⟨p, hp, r1 p hpm⟩
      · exact r2 g hg

/-- bucket `o` exists and holds key `k`. -/
def HasKey (bs : Buckets) (o k : Str) : Prop := ∃ m, bs.find o = some m ∧ k ∈ m.keys

theorem find_set_same (bs : Buckets) (o : Str) (m : Mem) : (bs.set o m).find o = some m := by
  induction bs with
  | nil => simp [Buckets.set, Buckets.find]
  | cons kv rest ih =>
    obtain ⟨k, v⟩ := kv
    unfold Buckets.set
    by_cases hk : k = o
    · simp [hk, Buckets.find]
    · simp [hk, Buckets.find, ih]

theorem find_set_ne (bs : Buckets) {o o' : Str} (m : Mem) (h : o' ≠ o) : (bs.set o m).find o' = bs.find o' := by
  induction bs with
  | nil => simp [Buckets.set, Buckets.find, Ne.symm h]
  | cons kv rest ih =>
    obtain ⟨k, v⟩ := kv
    unfold Buckets.set
    by_cases hk : k = o
    · subst hk; simp [Buckets.find, Ne.symm h]
    · by_cases hk' : k = o'
      · subst hk'; simp [hk, Buckets.find]
      · simp [hk, hk', Buckets.find, ih]

theorem addResponse_fwd {cwd : Str} {bs bs' : Buckets} {p : PluginResp} (h : addResponse cwd bs p = .ok bs') :
    (∀ o k, HasKey bs o k → HasKey bs' o k) ∧
    ∀ f ∈ p.files, ∃ k, validatePath f.getName = .ok k ∧ HasKey bs' (absPath cwd p.out) k := by
  unfold addResponse at h
  simp only at h
  split at h
  · cases h
  · rename_i m hw
    injection h with h; subst h
    obtain ⟨r1, r2⟩ := writeResponse_fwd _ _ _ hw
    constructor
    · intro o k ⟨m0, hf, hk⟩
      by_cases ho : o = absPath cwd p.out
      · subst ho
        refine ⟨m, find_set_same _ _ _, r1 k ?_⟩
        rw [hf]; exact hk
      · exact ⟨m0, by rw [find_set_ne _ _ ho]; exact hf, hk⟩
    · intro f hf
      obtain ⟨k, hk, hkm⟩ := r2 f hf
      exact ⟨k, hk, m, find_set_same _ _ _, hkm⟩

theorem addResponses_fwd (cwd : Str) :
    ∀ (ps : List PluginResp) (bs bs' : Buckets), addResponses cwd bs ps = .ok bs' →
      (∀ o k, HasKey bs o k → HasKey bs' o k) ∧
      ∀ p ∈ ps, ∀ f ∈ p.files, ∃ k, validatePath f.getName = .ok k ∧ HasKey bs' (absPath cwd p.out) k
  | [], bs, bs', h => by
    simp [addResponses] at h; subst h
    exact ⟨fun _ _ hk => hk, by simp⟩
  | p :: ps, bs, bs', h => by
    unfold addResponses at h
    split at h
    · cases h
    · rename_i bs1 hadd
      obtain ⟨a1, a2⟩ := addResponse_fwd hadd
      obtain ⟨r1, r2⟩ := addResponses_fwd cwd ps bs1 bs' h
      refine ⟨fun o k hk => r1 o k (a1 o k hk), ?_⟩
      intro q hq f hf
      rcases List.mem_cons.mp hq with rfl | hq
      · obtain ⟨k, hk, hh⟩ := a2 f hf
        exact ⟨k, hk, r1 _ _ hh⟩
      · exact r2 q hq f hf

theorem hasKey_flushed {bs : Buckets} {o k : Str} (h : HasKey bs o k) :
    ∃ c, (o, k, c) ∈ flushed bs := by
  obtain ⟨m, hf, hk⟩ := h
  unfold Mem.keys at hk
  obtain ⟨⟨k', c⟩, hkc, rfl⟩ := List.mem_map.mp hk
  refine ⟨c, ?_⟩
  unfold flushed
  exact List.mem_flatMap.mpr ⟨(o, m), find_mem hf, List.mem_map.mpr ⟨(k', c), hkc, rfl⟩⟩

end BufModel.Generate
