import BufProofs.Lemmas.LintFrame
/-
  C05 — PLANTING: generic machinery that turns
    * Clean on the original workspace,
    * frame lemmas for the rules that do not read the changed declaration,
    * "the changed declaration is bad" (derived from the grammar theorems),
  into the exact annotation list of the planted workspace.
-/
namespace BufModel.Lint
open BufModel.Case

/-! ### list algebra -/

/-- in a list with distinct keys, rewriting elements such that only the element with key
    `key e0` becomes `bad` leaves exactly that element after filtering -/
theorem filter_map_single {α κ} (τ : α → α) (bad : α → Bool) (key : α → κ) (e0 : α) : ∀ (l : List α),
    e0 ∈ l → (l.map key).Nodup → (∀ x ∈ l, key x ≠ key e0 → bad (τ x) = false) → bad (τ e0) = true →
    (l.map τ).filter bad = [τ e0]
  | [], h, _, _, _ => by simp at h
  | a :: t, hmem, hk, hother, hbad => by
    simp only [List.map_cons, List.nodup_cons] at hk
    simp only [List.mem_cons] at hmem
    rcases hmem with rfl | hmem
    · simp only [List.map_cons, List.filter_cons, hbad, if_true]
      congr 1
      apply filter_eq_nil_of_forall
      intro y hy
      obtain ⟨x, hx, rfl⟩ := List.mem_map.mp hy
      apply hother x (by simp [hx])
      intro e
      exact hk.1 (by rw [← e]; exact List.mem_map.mpr ⟨x, hx, rfl⟩)
    · have hne : key a ≠ key e0 := by
        intro e
        exact hk.1 (by rw [e]; exact List.mem_map.mpr ⟨e0, hmem, rfl⟩)
      simp only [List.map_cons, List.filter_cons, hother a (by simp) hne]
      exact filter_map_single τ bad key e0 t hmem hk.2 (fun x hx => hother x (by simp [hx])) hbad

/-- distinct keys: the element with a given key is unique -/
theorem eq_of_key_eq {α κ} (key : α → κ) : ∀ (l : List α) (x y : α), (l.map key).Nodup → x ∈ l → y ∈ l →
    key x = key y → x = y
  | [], _, _, _, h, _, _ => by simp at h
  | a :: t, x, y, hk, hx, hy, e => by
    simp only [List.map_cons, List.nodup_cons] at hk
    simp only [List.mem_cons] at hx hy
    rcases hx with rfl | hx <;> rcases hy with rfl | hy
    · rfl
    · exact absurd (List.mem_map.mpr ⟨y, hy, e.symm⟩) hk.1
    · exact absurd (List.mem_map.mpr ⟨x, hx, e⟩) hk.1
    · exact eq_of_key_eq key t x y hk.2 hx hy e

/-! ### the rule list -/

/-- if every configured rule except `r0` is Clean, lint is what `r0` reports -/
theorem lint_single (o : Options) (rules : List Rule) (w : Schema) (r0 : Rule)
    (hN : rules.Nodup) (hr0 : r0 ∈ rules)
    (hothers : ∀ r ∈ rules, r ≠ r0 → cleanRule o w r = true) :
    lint o rules w = runRule o w r0 := by
  obtain ⟨pre, post, rfl⟩ := List.append_of_mem hr0
  have hnot : r0 ∉ pre ∧ r0 ∉ post := by
    rw [List.nodup_append] at hN
    simp only [List.nodup_cons] at hN
    exact ⟨fun h => hN.2.2 r0 h r0 (by simp) rfl, hN.2.1.1⟩
  have hnil : ∀ l : List Rule, (∀ r ∈ l, r ∈ pre ++ r0 :: post) → r0 ∉ l → l.flatMap (runRule o w) = [] :=
    fun l hl hn => flatMap_eq_nil_of_forall l _ (fun r hr =>
      runRule_nil_of_clean o w r (hothers r (hl r hr) (fun e => hn (e ▸ hr))))
  unfold lint
  rw [List.flatMap_append, List.flatMap_cons, hnil pre (fun r hr => by simp [hr]) hnot.1,
    hnil post (fun r hr => by simp [hr]) hnot.2]
  simp

/-- membership form for several dirty rules: an annotation is reported iff one of the configured
    `dirty` rules reports it -/
theorem mem_lint_of_dirty (o : Options) (rules : List Rule) (w : Schema) (dirty : List Rule)
    (hothers : ∀ r ∈ rules, r ∉ dirty → cleanRule o w r = true) (a : Annotation) :
    a ∈ lint o rules w ↔ ∃ r ∈ rules, r ∈ dirty ∧ a ∈ runRule o w r := by
  unfold lint
  constructor
  · intro h
    obtain ⟨r, hr, ha⟩ := List.mem_flatMap.mp h
    by_cases hd : r ∈ dirty
    · exact ⟨r, hr, hd, ha⟩
    · rw [runRule_nil_of_clean o w r (hothers r hr hd)] at ha
      simp at ha
  · rintro ⟨r, hr, _, ha⟩
    exact List.mem_flatMap.mpr ⟨r, hr, ha⟩

/-! ### one file of the workspace -/

/-- `f` is a target (non-import) file of `w`, and the only file of `w` with its path (file paths
    are unique in an image) -/
structure FileAt (w : Schema) (f : File) : Prop where
  mem : f ∈ w
  target : f.isImport = false
  once : (w.map (·.path)).count f.path = 1

theorem FileAt.split {w : Schema} {f : File} (h : FileAt w f) :
    ∃ pre post, w = pre ++ f :: post ∧ ∀ g ∈ pre ++ post, g.path ≠ f.path := by
  obtain ⟨pre, post, rfl⟩ := List.append_of_mem h.mem
  refine ⟨pre, post, rfl, ?_⟩
  have hc := h.once
  simp only [List.map_append, List.map_cons, List.count_append, List.count_cons_self] at hc
  have h1 : (pre.map (·.path)).count f.path = 0 := by omega
  have h2 : (post.map (·.path)).count f.path = 0 := by omega
  intro g hg e
  simp only [List.mem_append] at hg
  rcases hg with hg | hg
  · exact List.count_eq_zero.mp h1 (by rw [← e]; exact List.mem_map.mpr ⟨g, hg, rfl⟩)
  · exact List.count_eq_zero.mp h2 (by rw [← e]; exact List.mem_map.mpr ⟨g, hg, rfl⟩)

theorem FileAt.nonImport {w : Schema} {f : File} (h : FileAt w f) : f ∈ nonImport w := by
  unfold Lint.nonImport
  simp [h.mem, h.target]

theorem FileAt.unique {w : Schema} {f : File} (h : FileAt w f) (g : File) (hg : g ∈ w) (e : g.path = f.path) :
    g = f := by
  obtain ⟨pre, post, rfl, hne⟩ := h.split
  simp only [List.mem_append, List.mem_cons] at hg
  rcases hg with hg | rfl | hg
  · exact absurd e (hne g (by simp [hg]))
  · rfl
  · exact absurd e (hne g (by simp [hg]))

theorem flagged_nil_of_cleanRule (o : Options) (w : Schema) (r : Rule) (er : ElemRule) (he : elemRule r = some er)
    (hc : cleanRule o w r = true) (g : File) (hg : g ∈ nonImport w) : er.flagged o g = [] := by
  rw [cleanRule_elem o w r er he] at hc
  exact flagged_nil_of_good er r he o g (List.all_eq_true.mp hc g hg)

theorem nonImport_append (a b : Schema) : nonImport (a ++ b) = nonImport a ++ nonImport b := by
  unfold nonImport; rw [List.filter_append]

/-- what a per-element rule reports on a workspace in which ONE file was rewritten, when the
    rule was Clean before: the flagged elements of the rewritten file -/
theorem runRule_plant_elem (o : Options) (w : Schema) (r : Rule) (er : ElemRule) (he : elemRule r = some er)
    (f : File) (hf : FileAt w f) (h : File → File) (hI : ∀ g, (h g).isImport = g.isImport)
    (hc : cleanRule o w r = true) :
    runRule o (plantFile f.path h w) r = (er.flagged o (h f)).map (ann r (h f)) := by
  rw [runRule_elem o _ r er he]
  unfold plantFile
  rw [nonImport_map _ (sel_isImport f.path h hI), flatMap_map_left]
  obtain ⟨pre, post, hsplit, hne⟩ := hf.split
  have hnil : ∀ l : List File, (∀ g ∈ l, g ∈ Lint.nonImport w ∧ g.path ≠ f.path) →
      l.flatMap (fun g => (er.flagged o (sel f.path h g)).map (ann r (sel f.path h g))) = [] := by
    intro l hl
    apply flatMap_eq_nil_of_forall
    intro g hg
    have : sel f.path h g = g := by
      unfold sel
      split
      · next hp => exact absurd (by simpa using hp) (hl g hg).2
      · rfl
    rw [this, flagged_nil_of_cleanRule o w r er he hc g (hl g hg).1]; rfl
  have hself : sel f.path h f = h f := by unfold sel; simp
  have hsub : Lint.nonImport w = Lint.nonImport pre ++ f :: Lint.nonImport post := by
    rw [hsplit, nonImport_append]
    congr 1
    unfold Lint.nonImport
    simp [hf.target]
  rw [hsub, List.flatMap_append, List.flatMap_cons]
  rw [hnil (Lint.nonImport pre), hnil (Lint.nonImport post), hself]
  · simp
  · intro g hg
    exact ⟨by rw [hsub]; simp [hg], hne g (by simp [(mem_nonImport hg).1])⟩
  · intro g hg
    exact ⟨by rw [hsub]; simp [hg], hne g (by simp [(mem_nonImport hg).1])⟩

/-! ### rules that DO read the changed group of declarations -/

/-- a per-element rule whose elements are rewritten elementwise (`els (h f) = (els f).map τ`)
    stays Clean when every good element stays good -/
theorem frame_via_map (o : Options) (w : Schema) (r : Rule) {α : Type} (els : File → List α)
    (bad : Options → α → Bool) (loc : α → List Nat) (good : Options → α → Bool)
    (he : elemRule r = some ⟨α, els, bad, loc, good⟩)
    (f : File) (hf : FileAt w f) (h : File → File) (hI : ∀ g, (h g).isImport = g.isImport)
    (τ : α → α) (hmap : els (h f) = (els f).map τ)
    (hpt : ∀ x ∈ els f, good o x = true → good o (τ x) = true)
    (hc : cleanRule o w r = true) : cleanRule o (plantFile f.path h w) r = true := by
  apply cleanRule_elem_plant o w r _ he f.path h hI _ hc
  intro f' hf' hp hg
  have : f' = f := hf.unique f' (mem_nonImport hf').1 hp
  subst this
  show (els (h f')).all (good o) = true
  rw [hmap, List.all_map]
  apply List.all_eq_true.mpr
  intro x hx
  exact hpt x hx (List.all_eq_true.mp hg x hx)

/-- the four enum-VALUE rules when enum declarations are rewritten as a whole (value list
    possibly restructured): it suffices that, per enum, "all values good" is preserved.  `G` is
    the rule's `good`, which does not look at the source path. -/
theorem frame_values (o : Options) (w : Schema) (r : Rule)
    (bad : Options → (List Nat × Enum × EnumValue) → Bool) (loc : (List Nat × Enum × EnumValue) → List Nat)
    (good : Options → (List Nat × Enum × EnumValue) → Bool)
    (he : elemRule r = some ⟨List Nat × Enum × EnumValue, fileEnumValues, bad, loc, good⟩)
    (hpath : ∀ p p' e v, good o (p, e, v) = good o (p', e, v))
    (f : File) (hf : FileAt w f) (T : Tr)
    (hpt : ∀ qe ∈ fileEnums f, (∀ v ∈ qe.2.values, good o ([], qe.2, v) = true) →
      ∀ v ∈ (T.enumFull qe.1 qe.2).values, good o ([], T.enumFull qe.1 qe.2, v) = true)
    (hc : cleanRule o w r = true) : cleanRule o (plantFile f.path (mapFile T) w) r = true := by
  apply cleanRule_elem_plant o w r _ he f.path (mapFile T) (fun _ => rfl) _ hc
  intro f' hf' hp hg
  have : f' = f := hf.unique f' (mem_nonImport hf').1 hp
  subst this
  show (fileEnumValues (mapFile T f')).all (good o) = true
  rw [fileEnumValues_map]
  apply List.all_eq_true.mpr
  intro x hx
  obtain ⟨qe, hqe, hx⟩ := List.mem_flatMap.mp hx
  obtain ⟨iv, hiv, rfl⟩ := List.mem_map.mp hx
  rw [hpath _ []]
  apply hpt qe hqe
  · intro v hv
    obtain ⟨j, hj⟩ := mem_indexFrom qe.2.values 0 v hv
    have hm : (qe.1 ++ [2, j], qe.2, v) ∈ fileEnumValues f' := by
      unfold fileEnumValues
      exact List.mem_flatMap.mpr ⟨qe, hqe, List.mem_map.mpr ⟨(j, v), hj, rfl⟩⟩
    have h1 : good o (qe.1 ++ [2, j], qe.2, v) = true := List.all_eq_true.mp hg _ hm
    rw [hpath _ []] at h1
    exact h1
  · exact mem_indexFrom_val 0 _ iv hiv

/-! ### the planted rule -/

/-- elementwise rewriting in which only the element with key `key e0` changes, and becomes bad:
    the rule flags exactly that element -/
theorem flagged_via_map (o : Options) (r : Rule) {α : Type} (els : File → List α)
    (bad : Options → α → Bool) (loc : α → List Nat) (good : Options → α → Bool)
    (he : elemRule r = some ⟨α, els, bad, loc, good⟩)
    (f f' : File) (τ : α → α) (hmap : els f' = (els f).map τ)
    (key : α → List Nat) (hk : ((els f).map key).Nodup)
    (e0 : α) (he0 : e0 ∈ els f) (hgood : (els f).all (good o) = true)
    (hother : ∀ x ∈ els f, key x ≠ key e0 → good o x = true → good o (τ x) = true)
    (hbad : bad o (τ e0) = true) :
    ElemRule.flagged ⟨α, els, bad, loc, good⟩ o f' = [loc (τ e0)] := by
  unfold ElemRule.flagged
  show ((els f').filter (bad o)).map loc = _
  rw [hmap, filter_map_single τ (bad o) key e0 (els f) he0 hk _ hbad]
  · rfl
  · intro x hx hne
    exact good_not_bad r _ he o (τ x) (hother x hx hne (List.all_eq_true.mp hgood x hx))

theorem cleanB_rule {o : Options} {rules : List Rule} {w : Schema} (h : cleanB o rules w = true) {r : Rule}
    (hr : r ∈ rules) : cleanRule o w r = true := List.all_eq_true.mp h r hr

/-- what the planted rule reports: exactly the rewritten element -/
theorem runRule_plant_via_map (o : Options) (w : Schema) (r0 : Rule) {α : Type}
    (els : File → List α) (bad : Options → α → Bool) (loc : α → List Nat) (good : Options → α → Bool)
    (he : elemRule r0 = some ⟨α, els, bad, loc, good⟩) (hc : cleanRule o w r0 = true)
    (f : File) (hf : FileAt w f) (h : File → File) (hI : ∀ g, (h g).isImport = g.isImport)
    (τ : α → α) (hmap : els (h f) = (els f).map τ)
    (key : α → List Nat) (hk : ((els f).map key).Nodup)
    (e0 : α) (he0 : e0 ∈ els f)
    (hother : ∀ x ∈ els f, key x ≠ key e0 → good o x = true → good o (τ x) = true) (hbad : bad o (τ e0) = true) :
    runRule o (plantFile f.path h w) r0 = [ann r0 (h f) (loc (τ e0))] := by
  rw [runRule_plant_elem o w r0 _ he f hf h hI hc]
  have hg : (els f).all (good o) = true := by
    rw [cleanRule_elem o w r0 _ he] at hc
    exact List.all_eq_true.mp hc f hf.nonImport
  rw [flagged_via_map o r0 els bad loc good he f (h f) τ hmap key hk e0 he0 hg hother hbad]
  rfl

/-- **Exact planting, elementwise form.**  The workspace is Clean; ONE target file is rewritten
    so that the elements of rule `r0` are rewritten elementwise, only the element `e0` changes and
    becomes bad; every other configured rule stays Clean (frame lemmas).  Then lint reports exactly
    `r0` at the location of the rewritten `e0`. -/
theorem plant_via_map (o : Options) (rules : List Rule) (w : Schema) (r0 : Rule) {α : Type}
    (els : File → List α) (bad : Options → α → Bool) (loc : α → List Nat) (good : Options → α → Bool)
    (he : elemRule r0 = some ⟨α, els, bad, loc, good⟩)
    (hN : rules.Nodup) (hr0 : r0 ∈ rules) (hclean : cleanB o rules w = true)
    (f : File) (hf : FileAt w f) (h : File → File) (hI : ∀ g, (h g).isImport = g.isImport)
    (τ : α → α) (hmap : els (h f) = (els f).map τ)
    (key : α → List Nat) (hk : ((els f).map key).Nodup)
    (e0 : α) (he0 : e0 ∈ els f)
    (hother : ∀ x ∈ els f, key x ≠ key e0 → good o x = true → good o (τ x) = true) (hbad : bad o (τ e0) = true)
    (hframe : ∀ r ∈ rules, r ≠ r0 → cleanRule o (plantFile f.path h w) r = true) :
    lint o rules (plantFile f.path h w) = [ann r0 (h f) (loc (τ e0))] := by
  rw [lint_single o rules _ r0 hN hr0 hframe]
  exact runRule_plant_via_map o w r0 els bad loc good he (cleanB_rule hclean hr0) f hf h hI τ hmap key hk e0 he0
    hother hbad

end BufModel.Lint
