import BufModel.MultiFail
import BufProofs.Lemmas.DepsLemmas
/-
  Lemmas about BufModel.MultiFail (all names prefixed `mf_`):

  * erasure     `mf_moduleDepsE_erase`: without unparsable files and documentation files, forgetting the
                identity of the error turns `moduleDepsE` into `Graph.moduleDeps`
  * the scan    `mf_scanFilesE_eq`: the scan of a module fails with the FIRST of its `scanErrs`, and
                otherwise appends `discover` (the owners of the imports not yet known, in discovery order)
  * invariance  `mf_moduleDepsE_walk_perm`: `WalkPerm` workspaces (same modules, the files of each in
                another order) give the same `moduleDepsE` when no module has two scan failures
-/
namespace BufModel.MultiFail
open BufModel.Path BufModel.Graph

/-! ### erasure -/

def eraseE {α : Type} : Except MFErr α → Except DErr α
  | .ok a => .ok a
  | .error e => .error e.erase

theorem mf_hasPathE_nodocs (t : MFWS) (hd : t.docs = []) (m : Nat) (p : Str) : hasPathE t m p = hasPath t.ws m p := by
  simp [hasPathE, hd]

theorem mf_ownerE_nodocs (t : MFWS) (hd : t.docs = []) (p : Str) : ownerE t p = owner t.ws p := by
  unfold ownerE owner providersE providers
  simp only [mf_hasPathE_nodocs t hd]
  generalize List.filter (fun m => hasPath t.ws m p) (List.range t.ws.mods.length) = l
  match l with
  | [] => rfl
  | [_] => rfl
  | _ :: _ :: _ => rfl

theorem mf_scanImports_append (ws : WS) (m : Nat) (dir : Bool) :
    ∀ (a b : List Str) (d : DepMap) (nw : List Nat),
      scanImports ws m dir (a ++ b) d nw =
        match scanImports ws m dir a d nw with
        | .error e => .error e
        | .ok x => scanImports ws m dir b x.1 x.2 := by
  intro a
  induction a with
  | nil => intro b d nw; simp [scanImports]
  | cons p ps ih =>
    intro b d nw
    simp only [List.cons_append, scanImports]
    split
    · split
      · exact ih b d nw
      · rfl
    · rfl
    · split
      · exact ih b d nw
      · split
        · exact ih b d nw
        · exact ih b _ _

theorem mf_scanImportsE_erase (t : MFWS) (hd : t.docs = []) (m : Nat) (dir : Bool) (file : Str) :
    ∀ (ps : List Str) (d : DepMap) (nw : List Nat),
      eraseE (scanImportsE t m dir file ps d nw) = scanImports t.ws m dir ps d nw := by
  intro ps
  induction ps with
  | nil => intro d nw; simp [scanImportsE, scanImports, eraseE]
  | cons p ps ih =>
    intro d nw
    simp only [scanImportsE, scanImports, mf_ownerE_nodocs t hd]
    cases ho : owner t.ws p with
    | none =>
      simp only []
      split
      · exact ih d nw
      · rfl
    | dup => rfl
    | one k =>
      simp only []
      split
      · exact ih d nw
      · split
        · exact ih d nw
        · exact ih _ _

theorem mf_scanFilesE_erase (t : MFWS) (hb : t.broken = []) (hd : t.docs = []) (m : Nat) (dir : Bool) :
    ∀ (fs : List PFile) (d : DepMap) (nw : List Nat),
      eraseE (scanFilesE t m dir fs d nw) = scanImports t.ws m dir (fs.flatMap (·.imports)) d nw := by
  intro fs
  induction fs with
  | nil => intro d nw; simp [scanFilesE, scanImports, eraseE]
  | cons f fs ih =>
    intro d nw
    simp only [scanFilesE, hb, List.contains_nil, Bool.false_eq_true, if_false, List.flatMap_cons]
    rw [mf_scanImports_append, ← mf_scanImportsE_erase t hd m dir f.path f.imports d nw]
    cases h : scanImportsE t m dir f.path f.imports d nw with
    | error e => simp [eraseE]
    | ok x =>
      obtain ⟨d', nw'⟩ := x
      simp only [eraseE]
      exact ih d' nw'

theorem mf_foldE_erase {β σ : Type} (f : β → σ → Except MFErr σ) (g : β → σ → Except DErr σ)
    (h : ∀ c s, eraseE (f c s) = g c s) : ∀ (cs : List β) (s : σ), eraseE (foldE f cs s) = foldE g cs s := by
  intro cs
  induction cs with
  | nil => intro s; simp [foldE, eraseE]
  | cons c cs ih =>
    intro s
    simp only [foldE]
    rw [← h c s]
    cases hf : f c s with
    | error e => simp [eraseE]
    | ok s' => simp only [eraseE]; exact ih s'

theorem mf_depsRecE_erase (t : MFWS) (hb : t.broken = []) (hd : t.docs = []) :
    ∀ (fuel m : Nat) (dir : Bool) (par : List Nat) (s : List Nat × DepMap),
      eraseE (depsRecE t fuel m dir par s) = depsRec t.ws fuel m dir par s := by
  intro fuel
  induction fuel with
  | zero => intro m dir par s; simp [depsRecE, depsRecWith, depsRec, eraseE, MFErr.erase]
  | succ fuel ih =>
    intro m dir par s
    obtain ⟨vis, d⟩ := s
    simp only [depsRecE, depsRecWith, depsRec, allImports]
    split
    · simp [eraseE, MFErr.erase]
    · split
      · simp [eraseE]
      · rw [← mf_scanFilesE_erase t hb hd m dir (modFiles t.ws m) d []]
        cases hs : scanFilesE t m dir (modFiles t.ws m) d [] with
        | error e => simp [eraseE]
        | ok x =>
          obtain ⟨d', nw⟩ := x
          simp only [eraseE]
          cases he : (modFiles t.ws m).isEmpty with
          | true => simp [MFErr.erase]
          | false =>
            simp only [Bool.false_eq_true, if_false]
            exact mf_foldE_erase _ _ (fun c s => ih c false (m :: par) s) _ _

/-- Erasing the identities of `moduleDepsE` gives `Graph.moduleDeps`: the id-carrying traversal IS
    the traversal of Graph.lean (C10's model) whenever the workspace has nothing Graph.lean cannot
    express. -/
theorem mf_moduleDepsE_erase (t : MFWS) (hb : t.broken = []) (hd : t.docs = []) (r : Nat) :
    eraseE (moduleDepsE t r) = moduleDeps t.ws r := by
  unfold moduleDepsE moduleDepsWith moduleDeps
  have h := mf_depsRecE_erase t hb hd (t.ws.mods.length + 1) r true [] ([], [])
  unfold depsRecE at h
  rw [← h]
  cases hr : depsRecWith (sortBy natLe) t (t.ws.mods.length + 1) r true [] ([], []) with
  | error e => simp [eraseE]
  | ok x =>
    obtain ⟨vis, d⟩ := x
    simp only [eraseE]
    cases hdup : dupAmong t.ws vis <;> simp [MFErr.erase]

/-! ### what one scan does -/

/-- the owners of the imports `ps`, other than `self` and the already known `ks`, each once, in
    discovery order. -/
def discover (t : MFWS) (self : Nat) : List Str → List Nat → List Nat
  | [], _ => []
  | p :: ps, ks =>
    match ownerE t p with
    | .one m =>
      if m = self then discover t self ps ks
      else if m ∈ ks then discover t self ps ks
      else m :: discover t self ps (ks ++ [m])
    | _ => discover t self ps ks

theorem mf_keys_snoc (d : DepMap) (m : Nat) (dir : Bool) : DepMap.keys (d ++ [(m, dir)]) = DepMap.keys d ++ [m] := by
  simp [DepMap.keys]

/-- The scan of the imports of one file: the first import that does not resolve decides;
    otherwise the newly discovered owners are appended. -/
theorem mf_scanImportsE_eq (t : MFWS) (self : Nat) (dir : Bool) (file : Str) :
    ∀ (ps : List Str) (d : DepMap) (nw : List Nat),
      scanImportsE t self dir file ps d nw =
        match (ps.filterMap (importErr t file)).head? with
        | some e => .error e
        | none => .ok (d ++ (discover t self ps (DepMap.keys d)).map (fun k => (k, dir)),
                       nw ++ discover t self ps (DepMap.keys d)) := by
  intro ps
  induction ps with
  | nil => intro d nw; simp [scanImportsE, discover]
  | cons p ps ih =>
    intro d nw
    simp only [scanImportsE, discover, List.filterMap_cons, importErr]
    cases ho : ownerE t p with
    | none =>
      simp only []
      cases hw : isWkt t.ws p with
      | true => simp only [if_true]; exact ih d nw
      | false => simp
    | dup => simp
    | one k =>
      simp only []
      by_cases h1 : k = self
      · simp only [h1, if_true]; exact ih d nw
      · simp only [h1, if_false]
        by_cases h2 : k ∈ DepMap.keys d
        · simp only [h2, if_true]; exact ih d nw
        · simp only [h2, if_false]
          rw [ih, mf_keys_snoc]
          cases (ps.filterMap (importErr t file)).head? with
          | some e => rfl
          | none => simp [List.append_assoc]

theorem mf_discover_append (t : MFWS) (self : Nat) :
    ∀ (a b : List Str) (ks : List Nat),
      discover t self (a ++ b) ks = discover t self a ks ++ discover t self b (ks ++ discover t self a ks) := by
  intro a
  induction a with
  | nil => intro b ks; simp [discover]
  | cons p ps ih =>
    intro b ks
    simp only [List.cons_append, discover]
    cases ho : ownerE t p with
    | none => simp only []; exact ih b ks
    | dup => simp only []; exact ih b ks
    | one k =>
      simp only []
      by_cases h1 : k = self
      · simp only [h1, if_true]; exact ih b ks
      · simp only [h1, if_false]
        by_cases h2 : k ∈ ks
        · simp only [h2, if_true]; exact ih b ks
        · simp only [h2, if_false]
          rw [ih]
          simp [List.append_assoc]

/-- The scan of the files of a module in walk order: the FIRST scan failure in walk order decides;
    otherwise the owners discovered over all imports are appended. -/
theorem mf_scanFilesE_eq (t : MFWS) (self : Nat) (dir : Bool) :
    ∀ (fs : List PFile) (d : DepMap) (nw : List Nat),
      scanFilesE t self dir fs d nw =
        match (fs.flatMap (fileErrs t self)).head? with
        | some e => .error e
        | none => .ok (d ++ (discover t self (fs.flatMap (·.imports)) (DepMap.keys d)).map (fun k => (k, dir)),
                       nw ++ discover t self (fs.flatMap (·.imports)) (DepMap.keys d)) := by
  intro fs
  induction fs with
  | nil => intro d nw; simp [scanFilesE, discover]
  | cons f fs ih =>
    intro d nw
    simp only [scanFilesE, List.flatMap_cons, fileErrs]
    cases hb : t.broken.contains (self, f.path) with
    | true => simp
    | false =>
      simp only [Bool.false_eq_true, if_false, List.head?_append]
      rw [mf_scanImportsE_eq]
      cases he : (f.imports.filterMap (importErr t f.path)).head? with
      | some e => simp
      | none =>
        simp only [Option.none_or]
        rw [ih, mf_discover_append, keys_append, keys_map_pair]
        cases (fs.flatMap (fileErrs t self)).head? with
        | some e => rfl
        | none => simp [List.append_assoc]

/-- what `discover` finds, as a set. -/
theorem mf_mem_discover (t : MFWS) (self : Nat) :
    ∀ (ps : List Str) (ks : List Nat) (x : Nat),
      x ∈ discover t self ps ks ↔ x ≠ self ∧ x ∉ ks ∧ ∃ p ∈ ps, ownerE t p = .one x := by
  intro ps
  induction ps with
  | nil => intro ks x; simp [discover]
  | cons p ps ih =>
    intro ks x
    simp only [discover]
    have skip : (∀ k, ownerE t p = .one k → k = self ∨ k ∈ ks) →
        ((x ≠ self ∧ x ∉ ks ∧ ∃ q ∈ ps, ownerE t q = .one x) ↔ (x ≠ self ∧ x ∉ ks ∧ ∃ q ∈ p :: ps, ownerE t q = .one x)) := by
      intro hk
      constructor
      · rintro ⟨a, b, q, hq, ho⟩; exact ⟨a, b, q, List.mem_cons_of_mem _ hq, ho⟩
      · rintro ⟨a, b, q, hq, ho⟩
        rcases List.mem_cons.mp hq with rfl | hq
        · rcases hk x ho with h | h
          · exact absurd h a
          · exact absurd h b
        · exact ⟨a, b, q, hq, ho⟩
    cases ho : ownerE t p with
    | none => simp only []; rw [ih]; exact skip (fun k hk => by rw [ho] at hk; cases hk)
    | dup => simp only []; rw [ih]; exact skip (fun k hk => by rw [ho] at hk; cases hk)
    | one k =>
      simp only []
      by_cases h1 : k = self
      · simp only [h1, if_true]; rw [ih]
        exact skip (fun k' hk => by rw [ho] at hk; injection hk with hk; left; rw [← hk, h1])
      · simp only [h1, if_false]
        by_cases h2 : k ∈ ks
        · simp only [h2, if_true]; rw [ih]
          exact skip (fun k' hk => by rw [ho] at hk; injection hk with hk; right; rw [← hk]; exact h2)
        · simp only [h2, if_false]
          rw [List.mem_cons, ih]
          constructor
          · rintro (rfl | ⟨a, b, q, hq, hoq⟩)
            · exact ⟨h1, h2, p, List.mem_cons_self, ho⟩
            · exact ⟨a, fun hx => b (List.mem_append.mpr (Or.inl hx)), q, List.mem_cons_of_mem _ hq, hoq⟩
          · rintro ⟨a, b, q, hq, hoq⟩
            by_cases hxk : x = k
            · left; exact hxk
            · right
              refine ⟨a, ?_, ?_⟩
              · intro hx
                rcases List.mem_append.mp hx with hx | hx
                · exact b hx
                · exact hxk (by simpa using hx)
              · rcases List.mem_cons.mp hq with rfl | hq
                · rw [ho] at hoq; injection hoq with hoq; exact absurd hoq.symm hxk
                · exact ⟨q, hq, hoq⟩

theorem mf_nodup_discover (t : MFWS) (self : Nat) :
    ∀ (ps : List Str) (ks : List Nat), (discover t self ps ks).Nodup := by
  intro ps
  induction ps with
  | nil => intro ks; simp [discover]
  | cons p ps ih =>
    intro ks
    simp only [discover]
    cases ho : ownerE t p with
    | none => exact ih ks
    | dup => exact ih ks
    | one k =>
      simp only []
      by_cases h1 : k = self
      · simp only [h1, if_true]; exact ih ks
      · simp only [h1, if_false]
        by_cases h2 : k ∈ ks
        · simp only [h2, if_true]; exact ih ks
        · simp only [h2, if_false]
          rw [List.nodup_cons]
          refine ⟨?_, ih _⟩
          intro hk
          have := ((mf_mem_discover t self ps (ks ++ [k]) k).mp hk).2.1
          exact this (by simp)

/-! ### two enumerations of the same workspace -/

/-- `t'` is `t` enumerated in another order: the same modules, the .proto files of each module
    reported by the storage walk in another order; nothing else differs. -/
structure WalkPerm (t t' : MFWS) : Prop where
  len : t.ws.mods.length = t'.ws.mods.length
  files : ∀ m, (modFiles t.ws m).Perm (modFiles t'.ws m)
  wkt : ∀ p, isWkt t.ws p = isWkt t'.ws p
  broken : t.broken = t'.broken
  docs : t.docs = t'.docs
  targets : targetMods t.ws = targetMods t'.ws

variable {t t' : MFWS}

theorem WalkPerm.hasPath_eq (h : WalkPerm t t') (m : Nat) (p : Str) : hasPath t.ws m p = hasPath t'.ws m p := by
  unfold Graph.hasPath
  exact (h.files m).any_eq

theorem WalkPerm.ownerE_eq (h : WalkPerm t t') (p : Str) : ownerE t p = ownerE t' p := by
  unfold MultiFail.ownerE providersE hasPathE
  simp only [h.hasPath_eq, h.len, h.docs]

theorem WalkPerm.importErr_eq (h : WalkPerm t t') (file p : Str) : importErr t file p = importErr t' file p := by
  unfold MultiFail.importErr
  rw [h.ownerE_eq, h.wkt]

theorem WalkPerm.fileErrs_eq (h : WalkPerm t t') (m : Nat) (f : PFile) : fileErrs t m f = fileErrs t' m f := by
  unfold MultiFail.fileErrs
  have : MultiFail.importErr t f.path = MultiFail.importErr t' f.path := funext (h.importErr_eq f.path)
  rw [h.broken, this]

theorem WalkPerm.scanErrs_perm (h : WalkPerm t t') (m : Nat) : (scanErrs t m).Perm (scanErrs t' m) := by
  unfold MultiFail.scanErrs
  have : MultiFail.fileErrs t m = MultiFail.fileErrs t' m := funext (h.fileErrs_eq m)
  rw [this]
  exact (h.files m).flatMap_right _

theorem WalkPerm.discover_eq (h : WalkPerm t t') (self : Nat) :
    ∀ (ps : List Str) (ks : List Nat), discover t self ps ks = discover t' self ps ks := by
  intro ps
  induction ps with
  | nil => intro ks; rfl
  | cons p ps ih =>
    intro ks
    simp only [discover, h.ownerE_eq, ih]

/-- A list with at most one element has the same head as each of its permutations. -/
theorem mf_head?_perm_of_length_le_one {α : Type} {l l' : List α} (hp : l.Perm l') (hl : l.length ≤ 1) :
    l.head? = l'.head? := by
  match l, hl with
  | [], _ => rw [← hp.nil_eq]
  | [a], _ => rw [List.perm_singleton.mp hp.symm]

/-- `discover` over two orders of the same imports, against two orders of the same known keys:
    the same owners, in another order. -/
theorem mf_discover_perm (t : MFWS) (self : Nat) {ps ps' : List Str} {ks ks' : List Nat}
    (hps : ps.Perm ps') (hks : ∀ x, x ∈ ks ↔ x ∈ ks') :
    (discover t self ps ks).Perm (discover t self ps' ks') := by
  rw [List.perm_ext_iff_of_nodup (mf_nodup_discover t self ps ks) (mf_nodup_discover t self ps' ks')]
  intro x
  rw [mf_mem_discover, mf_mem_discover, hks x]
  constructor
  · rintro ⟨a, b, q, hq, ho⟩; exact ⟨a, b, q, hps.mem_iff.mp hq, ho⟩
  · rintro ⟨a, b, q, hq, ho⟩; exact ⟨a, b, q, hps.mem_iff.mpr hq, ho⟩

theorem mf_natLe_antisymm (a b : Nat) (h1 : natLe a b = true) (h2 : natLe b a = true) : a = b := by
  simp only [natLe, decide_eq_true_eq] at h1 h2
  omega

/-- the sort before the descent makes the order of discovery irrelevant. -/
theorem mf_sortNat_perm {l l' : List Nat} (h : l.Perm l') : sortBy natLe l = sortBy natLe l' := by
  apply List.Perm.eq_of_pairwise (le := fun a b => natLe a b = true)
  · intro a b _ _ h1 h2; exact mf_natLe_antisymm a b h1 h2
  · exact sortBy_pairwise natLe natLe_total natLe_trans l
  · exact sortBy_pairwise natLe natLe_total natLe_trans l'
  · exact ((sortBy_perm natLe l).trans h).trans (sortBy_perm natLe l').symm

/-! ### the relational induction -/

/-- results of two runs agree: the same error, or the same visited list and dep maps that are
    permutations of each other. -/
def SRel (s s' : List Nat × DepMap) : Prop := s.1 = s'.1 ∧ s.2.Perm s'.2

def RRel {σ : Type} (R : σ → σ → Prop) : Except MFErr σ → Except MFErr σ → Prop
  | .error e, .error e' => e = e'
  | .ok x, .ok y => R x y
  | _, _ => False

theorem mf_foldE_rel {β σ : Type} (R : σ → σ → Prop) (f f' : β → σ → Except MFErr σ)
    (h : ∀ c s s', R s s' → RRel R (f c s) (f' c s')) :
    ∀ (cs : List β) (s s' : σ), R s s' → RRel R (foldE f cs s) (foldE f' cs s') := by
  intro cs
  induction cs with
  | nil => intro s s' hr; simpa [foldE, RRel] using hr
  | cons c cs ih =>
    intro s s' hr
    have hc := h c s s' hr
    simp only [foldE]
    cases h1 : f c s with
    | error e =>
      cases h2 : f' c s' with
      | error e' => rw [h1, h2] at hc; simpa [RRel] using hc
      | ok y => rw [h1, h2] at hc; simp [RRel] at hc
    | ok x =>
      cases h2 : f' c s' with
      | error e' => rw [h1, h2] at hc; simp [RRel] at hc
      | ok y =>
        rw [h1, h2] at hc
        exact ih x y (by simpa [RRel] using hc)

theorem mf_keys_perm {d d' : DepMap} (h : d.Perm d') : ∀ x, x ∈ DepMap.keys d ↔ x ∈ DepMap.keys d' := by
  intro x
  exact (h.map (·.1)).mem_iff

theorem mf_depsRecE_rel (h : WalkPerm t t') (hdet : scanDet t = true) :
    ∀ (fuel m : Nat) (dir : Bool) (par : List Nat) (s s' : List Nat × DepMap), SRel s s' →
      RRel SRel (depsRecE t fuel m dir par s) (depsRecE t' fuel m dir par s') := by
  intro fuel
  induction fuel with
  | zero => intro m dir par s s' _; simp [depsRecE, depsRecWith, RRel]
  | succ fuel ih =>
    intro m dir par s s' hs
    obtain ⟨vis, d⟩ := s
    obtain ⟨vis', d'⟩ := s'
    obtain ⟨hv, hd⟩ := hs
    simp only at hv hd
    subst hv
    simp only [depsRecE, depsRecWith]
    by_cases h1 : m ∈ par
    · simp [h1, RRel]
    · simp only [h1, if_false]
      by_cases h2 : m ∈ vis
      · simp only [h2, if_true, RRel]; exact ⟨rfl, hd⟩
      · simp only [h2, if_false]
        rw [mf_scanFilesE_eq, mf_scanFilesE_eq]
        -- the scan fails the same way in both enumerations
        have hhead : ((modFiles t.ws m).flatMap (fileErrs t m)).head? = ((modFiles t'.ws m).flatMap (fileErrs t' m)).head? := by
          apply mf_head?_perm_of_length_le_one (h.scanErrs_perm m)
          by_cases hm : m < t.ws.mods.length
          · have := (List.all_eq_true.mp hdet) m (List.mem_range.mpr hm)
            simpa using this
          · have : modFiles t.ws m = [] := by
              unfold modFiles
              rw [List.getElem?_eq_none (by omega)]
              rfl
            simp [MultiFail.scanErrs, this]
        rw [← hhead]
        cases ((modFiles t.ws m).flatMap (fileErrs t m)).head? with
        | some e => simp [RRel]
        | none =>
          simp only [List.nil_append]
          rw [← (h.files m).isEmpty_eq]
          cases he : (modFiles t.ws m).isEmpty with
          | true => simp [RRel]
          | false =>
            simp only [Bool.false_eq_true, if_false]
            have hnew : (discover t m ((modFiles t.ws m).flatMap (·.imports)) (DepMap.keys d)).Perm
                (discover t' m ((modFiles t'.ws m).flatMap (·.imports)) (DepMap.keys d')) := by
              rw [← h.discover_eq]
              exact mf_discover_perm t m ((h.files m).flatMap_right _) (mf_keys_perm hd)
            rw [mf_sortNat_perm hnew]
            apply mf_foldE_rel SRel
            · intro c s s' hs
              exact ih c false (m :: par) s s' hs
            · exact ⟨rfl, hd.append (hnew.map _)⟩

/-! ### keys of the dep map stay unique -/

theorem mf_depsRecE_keys_nodup (t : MFWS) :
    ∀ (fuel m : Nat) (dir : Bool) (par : List Nat) (s r : List Nat × DepMap),
      (DepMap.keys s.2).Nodup → depsRecE t fuel m dir par s = .ok r → (DepMap.keys r.2).Nodup := by
  intro fuel
  induction fuel with
  | zero => intro m dir par s r _ h; simp [depsRecE, depsRecWith] at h
  | succ fuel ih =>
    intro m dir par s r hnd h
    obtain ⟨vis, d⟩ := s
    simp only [depsRecE, depsRecWith] at h
    by_cases h1 : m ∈ par
    · simp [h1] at h
    · simp only [h1, if_false] at h
      by_cases h2 : m ∈ vis
      · simp only [h2, if_true] at h
        injection h with h; subst h; exact hnd
      · simp only [h2, if_false] at h
        rw [mf_scanFilesE_eq] at h
        cases hh : ((modFiles t.ws m).flatMap (fileErrs t m)).head? with
        | some e => rw [hh] at h; simp at h
        | none =>
          rw [hh] at h
          simp only [List.nil_append] at h
          cases he : (modFiles t.ws m).isEmpty with
          | true => rw [he] at h; simp at h
          | false =>
            rw [he] at h
            simp only [Bool.false_eq_true, if_false] at h
            refine foldE_ok_inv _ (fun s : List Nat × DepMap => (DepMap.keys s.2).Nodup) _ _ _ ?_ ?_ h
            · show (DepMap.keys (d ++ _)).Nodup
              rw [keys_append, keys_map_pair, List.nodup_append]
              refine ⟨hnd, mf_nodup_discover _ _ _ _, ?_⟩
              intro a ha b hb hab
              subst hab
              exact ((mf_mem_discover _ _ _ _ _).mp hb).2.1 ha
            · intro c _ s s' hs hc
              exact ih c false (m :: par) s s' hs hc

theorem mf_sortDeps_perm {d d' : DepMap} (h : d.Perm d') (hnd : (DepMap.keys d).Nodup) :
    sortBy depLe d = sortBy depLe d' := by
  have htot : ∀ a b : Nat × Bool, depLe a b = true ∨ depLe b a = true := fun a b => natLe_total a.1 b.1
  have htr : ∀ a b c : Nat × Bool, depLe a b = true → depLe b c = true → depLe a c = true :=
    fun a b c => natLe_trans a.1 b.1 c.1
  apply List.Perm.eq_of_pairwise (le := fun a b => depLe a b = true)
  · intro a b ha hb h1 h2
    have hk : a.1 = b.1 := mf_natLe_antisymm a.1 b.1 h1 h2
    have ha' : a ∈ d := (sortBy_perm depLe d).mem_iff.mp ha
    have hb' : b ∈ d := h.mem_iff.mpr ((sortBy_perm depLe d').mem_iff.mp hb)
    -- two entries of a list whose keys are unique with the same key are the same entry
    have : ∀ (l : DepMap), (DepMap.keys l).Nodup → a ∈ l → b ∈ l → a = b := by
      intro l
      induction l with
      | nil => intro _ h; cases h
      | cons x xs ihx =>
        intro hn hax hbx
        simp only [DepMap.keys, List.map_cons, List.nodup_cons] at hn
        rcases List.mem_cons.mp hax with hax | hax
        · rcases List.mem_cons.mp hbx with hbx | hbx
          · rw [hax, hbx]
          · exact absurd (List.mem_map.mpr ⟨b, hbx, by rw [← hax, hk]⟩) hn.1
        · rcases List.mem_cons.mp hbx with hbx | hbx
          · exact absurd (List.mem_map.mpr ⟨a, hax, by rw [← hbx, hk]⟩) hn.1
          · exact ihx hn.2 hax hbx
    exact this d hnd ha' hb'
  · exact sortBy_pairwise depLe htot htr d
  · exact sortBy_pairwise depLe htot htr d'
  · exact ((sortBy_perm depLe d).trans h).trans (sortBy_perm depLe d').symm

theorem WalkPerm.dupAmong_eq (h : WalkPerm t t') (vis : List Nat) : dupAmong t.ws vis = dupAmong t'.ws vis := by
  unfold Graph.dupAmong
  have : ∀ m m', (modFiles t.ws m).any (fun f => Graph.hasPath t.ws m' f.path) = (modFiles t'.ws m).any (fun f => Graph.hasPath t'.ws m' f.path) := by
    intro m m'
    simp only [h.hasPath_eq]
    exact (h.files m).any_eq
  simp only [this]

/-- `ModuleDeps()` as coded does not depend on the order in which the storage enumerates the files
    of the modules, as long as no module has two scan failures of its own. -/
theorem mf_moduleDepsE_walk_perm (h : WalkPerm t t') (hdet : scanDet t = true) (r : Nat) :
    moduleDepsE t r = moduleDepsE t' r := by
  unfold moduleDepsE moduleDepsWith
  have hrel := mf_depsRecE_rel h hdet (t.ws.mods.length + 1) r true [] ([], []) ([], []) ⟨rfl, List.Perm.refl _⟩
  have hnd := mf_depsRecE_keys_nodup t (t.ws.mods.length + 1) r true [] ([], [])
  unfold depsRecE at hrel hnd
  rw [← h.len]
  cases h1 : depsRecWith (sortBy natLe) t (t.ws.mods.length + 1) r true [] ([], []) with
  | error e =>
    cases h2 : depsRecWith (sortBy natLe) t' (t.ws.mods.length + 1) r true [] ([], []) with
    | error e' => rw [h1, h2] at hrel; simp only [RRel] at hrel; rw [hrel]
    | ok y => rw [h1, h2] at hrel; simp [RRel] at hrel
  | ok x =>
    cases h2 : depsRecWith (sortBy natLe) t' (t.ws.mods.length + 1) r true [] ([], []) with
    | error e' => rw [h1, h2] at hrel; simp [RRel] at hrel
    | ok y =>
      rw [h1, h2] at hrel
      obtain ⟨vis, d⟩ := x
      obtain ⟨vis', d'⟩ := y
      obtain ⟨hv, hd⟩ := hrel
      simp only at hv hd
      subst hv
      have := hnd (vis, d) (by simp [DepMap.keys]) h1
      simp only [h.dupAmong_eq, mf_sortDeps_perm hd this]

theorem mf_dagRecE_walk_perm (h : WalkPerm t t') (hdet : scanDet t = true) :
    ∀ (fuel m : Nat) (g : Dag), dagRecE t fuel m g = dagRecE t' fuel m g := by
  intro fuel
  induction fuel with
  | zero => intro m g; rfl
  | succ fuel ih =>
    intro m g
    simp only [dagRecE, mf_moduleDepsE_walk_perm h hdet m]
    have : (fun (d : Nat × Bool) g' => dagRecE t fuel d.1 (addEdge g' m d.1)) = (fun d g' => dagRecE t' fuel d.1 (addEdge g' m d.1)) := by
      funext d g'; exact ih _ _
    rw [this]

/-- `ModuleSetToDAG` likewise. -/
theorem mf_toDAGE_walk_perm (h : WalkPerm t t') (hdet : scanDet t = true) : toDAGE t = toDAGE t' := by
  unfold toDAGE
  have : (fun m g => dagRecE t (t.ws.mods.length + 1) m g) = (fun m g => dagRecE t' (t'.ws.mods.length + 1) m g) := by
    funext m g; rw [← h.len]; exact mf_dagRecE_walk_perm h hdet _ _ _
  rw [this, h.targets]

end BufModel.MultiFail
