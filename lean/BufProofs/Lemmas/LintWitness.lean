import BufProofs.Lemmas.LintOps3
/-
  C05 — a concrete MULTI-FILE workspace for the non-vacuity examples of the planting theorems:
  two target files of one package (`a.proto` with a top-level enum, a message with a nested
  message + nested enum + oneof, request/response messages, a service with two RPCs, an import
  and a file-level extension; `b.proto` with one message) and the import-only file `exDep`, which
  is full of violations.
-/
namespace BufModel.Lint
open BufModel.Case

def pColor : Enum :=
  { name := "Color".toList, comment := " A color.\n".toList,
    values := [⟨"COLOR_UNSPECIFIED".toList, " Zero.\n".toList, 0⟩, ⟨"COLOR_RED".toList, " Red.\n".toList, 1⟩] }

def pKind : Enum :=
  { name := "Kind".toList, comment := " A kind.\n".toList,
    values := [⟨"KIND_UNSPECIFIED".toList, " Zero.\n".toList, 0⟩, ⟨"KIND_A".toList, " A.\n".toList, 1⟩] }

def pInner : Message :=
  .mk "Inner".toList " Inner.\n".toList false [fld "id" " Id.\n"] [] [] [pColor] []

def pFooBar : Field := fld "foo_bar" " Foo.\n"
def pChoice : Oneof := ⟨"choice".toList, " Choice.\n".toList, false⟩

def pOuter : Message :=
  .mk "Outer".toList " Outer.\n".toList false
    [pFooBar, ⟨"a".toList, " A.\n".toList, false, false, false, some 0⟩,
     ⟨"b".toList, " B.\n".toList, false, false, false, some 0⟩]
    [pChoice] [] [] [pInner]

def pGet : Rpc :=
  ⟨"GetFoo".toList, " Get.\n".toList, "acme.foo.v1.GetFooRequest".toList, "acme.foo.v1.GetFooResponse".toList, false, false⟩
def pList : Rpc :=
  ⟨"ListFoo".toList, " List.\n".toList, "acme.foo.v1.ListFooRequest".toList, "acme.foo.v1.ListFooResponse".toList, false, false⟩
def pSvc : Service := ⟨"FooService".toList, " Svc.\n".toList, [pGet, pList]⟩
def pImp : Import := ⟨"Dep/Bad.proto".toList, false, false, false⟩
def pOpts : List (Option Str) := [none, some "example.com/foo/v1;foov1".toList, none, none, none, none, none]

def pA : File :=
  { path := "acme/foo/v1/a.proto".toList, pkg := "acme.foo.v1".toList,
    imports := [pImp], langOpts := pOpts, enums := [pKind],
    msgs := [pOuter, exReq "GetFooRequest", exReq "GetFooResponse", exReq "ListFooRequest", exReq "ListFooResponse"],
    svcs := [pSvc], exts := [fld "file_ext" " File-level extension.\n"] }

def pB : File :=
  { path := "acme/foo/v1/b.proto".toList, pkg := "acme.foo.v1".toList, langOpts := pOpts,
    msgs := [exReq "Other"] }

/-- the workspace: two target files of one package, one import-only file full of violations -/
def pw : Schema := [pA, pB, exDep]

theorem pA_at : FileAt pw pA := ⟨by simp [pw], rfl, by decide⟩
theorem pB_at : FileAt pw pB := ⟨by simp [pw], rfl, by decide⟩

/-- source paths used by the examples -/
def pathOuter : List Nat := [4, 0]
def pathInner : List Nat := [4, 0, 3, 0]
def pathColor : List Nat := [4, 0, 3, 0, 4, 0]
def pathRed : List Nat := [4, 0, 3, 0, 4, 0, 2, 1]
def pathZero : List Nat := [4, 0, 3, 0, 4, 0, 2, 0]
def pathFooBar : List Nat := [4, 0, 2, 0]
def pathChoice : List Nat := [4, 0, 8, 0]
def pathSvc : List Nat := [6, 0]
def pathList : List Nat := [6, 0, 2, 1]

theorem pColor_mem : (pathColor, pColor) ∈ fileEnums pA := by decide
theorem pRed_mem : (pathRed, pColor, (⟨"COLOR_RED".toList, " Red.\n".toList, 1⟩ : EnumValue)) ∈ fileEnumValues pA := by
  decide
theorem pZero_mem :
    (pathZero, pColor, (⟨"COLOR_UNSPECIFIED".toList, " Zero.\n".toList, 0⟩ : EnumValue)) ∈ fileEnumValues pA := by
  decide
theorem pInner_mem : (pathInner, pInner) ∈ fileMsgs pA := .tail _ (.head _)
theorem pFooBar_mem : (pathFooBar, some pOuter, pFooBar) ∈ fileFields pA := .head _
theorem pChoice_mem : (pathChoice, pOuter, 0, pChoice) ∈ fileOneofs pA := .head _
theorem pSvc_mem : (pathSvc, pSvc) ∈ fileSvcs pA := by decide
theorem pList_mem : (pathList, pSvc, pList) ∈ fileRpcs pA := by decide
theorem pImp_mem : (0, pImp) ∈ indexed pA.imports := by decide

theorem pw_clean : cleanB {} Rule.all pw = true := by decide

/-- the methods of the witness workspace have pairwise distinct fully-qualified names -/
theorem pw_full_names : FullNamesDistinct pw := by decide
theorem all_nodup : Rule.all.Nodup := by decide
theorem pB_mem : pB ∈ nonImport pw := .tail _ (.head _)

end BufModel.Lint
