import BufProofs.Lemmas.LintMap
/-
  C05 — FRAME lemmas: which rules cannot see a given change.

  `plantFile fp h w` rewrites the file(s) of path `fp` with `h`.  This file proves

  * congruence of every multi-file rule (the nine grouping rules, PACKAGE_NO_IMPORT_CYCLE,
    STABLE_PACKAGE_NO_IMPORT_UNSTABLE, RPC_REQUEST_RESPONSE_UNIQUE) under a rewriting that keeps
    what the rule reads of a file (path / package / import flag / import PATHS / language
    options / the table of RPC request-response types);
  * `frame_deep`: a transformer that is the identity on every group of declarations a rule
    reads (`dep`) leaves that rule's Clean condition intact — at any nesting depth, in any file.
-/
namespace BufModel.Lint
open BufModel.Case

/-- rewrite the file(s) whose path is `fp` -/
def sel (fp : Str) (h : File → File) (f : File) : File := if f.path == fp then h f else f

def plantFile (fp : Str) (h : File → File) (w : Schema) : Schema := w.map (sel fp h)

/-- what the header-reading rules need of a rewriting -/
structure KeepsHdr (g : File → File) : Prop where
  path : ∀ f, (g f).path = f.path
  pkg : ∀ f, (g f).pkg = f.pkg
  isImport : ∀ f, (g f).isImport = f.isImport
  importPaths : ∀ f, (g f).imports.map (·.path) = f.imports.map (·.path)

theorem KeepsHdr.sel {h : File → File} (fp : Str) (k : KeepsHdr h) : KeepsHdr (sel fp h) := by
  constructor <;> intro f <;> unfold Lint.sel <;> split
  · exact k.path f
  · rfl
  · exact k.pkg f
  · rfl
  · exact k.isImport f
  · rfl
  · exact k.importPaths f
  · rfl

theorem keepsHdr_mapFile (T : Tr) : KeepsHdr (mapFile T) := ⟨fun _ => rfl, fun _ => rfl, fun _ => rfl, fun _ => rfl⟩

/-! ### lists -/

theorem filter_map_comm {α β} (l : List α) (g : α → β) (p : β → Bool) :
    (l.map g).filter p = (l.filter (fun x => p (g x))).map g := by
  induction l with
  | nil => rfl
  | cons a t ih =>
    simp only [List.map_cons, List.filter_cons]
    split <;> simp [ih]

theorem nonImport_map (g : File → File) (hI : ∀ f, (g f).isImport = f.isImport) (w : Schema) :
    nonImport (w.map g) = (nonImport w).map g := by
  unfold nonImport
  rw [filter_map_comm]
  congr 1
  apply List.filter_congr
  intro f _
  rw [hI]

theorem map_congr_fn {α β} (l : List α) (f g : α → β) (h : ∀ x, f x = g x) : l.map f = l.map g := by
  have : f = g := funext h
  rw [this]

theorem indexFrom_map {α β} (h : α → β) : ∀ (i : Nat) (l : List α),
    indexFrom i (l.map h) = (indexFrom i l).map (fun jx => (jx.1, h jx.2))
  | _, [] => rfl
  | i, x :: xs => by simp only [List.map_cons, indexFrom]; rw [indexFrom_map h (i + 1) xs]

/-! ### grouping rules -/

theorem groupRule_map (r : Rule) (l : List File) (g : File → File) (key val : File → Str) (loc : File → List Nat)
    (hk : ∀ f, key (g f) = key f) (hv : ∀ f, val (g f) = val f) (hl : ∀ f, loc (g f) = loc f)
    (hp : ∀ f, (g f).path = f.path) :
    groupRule r (l.map g) key val loc = groupRule r l key val loc := by
  unfold groupRule
  rw [List.map_map, map_congr_fn l (key ∘ g) key hk]
  apply flatMap_congr_mem
  intro k _
  simp only
  rw [filter_map_comm, List.map_map, List.map_map]
  have e1 : (fun x => key (g x) == k) = (fun x => key x == k) := funext fun x => by rw [hk]
  rw [e1, map_congr_fn _ (val ∘ g) val hv]
  rw [map_congr_fn _ ((fun f => ann r f (loc f)) ∘ g) (fun f => ann r f (loc f))
    (fun f => by simp only [Function.comp, ann, hl, hp])]

theorem groupClean_map (l : List File) (g : File → File) (key val : File → Str)
    (hk : ∀ f, key (g f) = key f) (hv : ∀ f, val (g f) = val f) :
    groupClean (l.map g) key val = groupClean l key val := by
  unfold groupClean
  simp only [List.all_map, Function.comp_def, hk, hv]

/-! ### file lookup, package graph -/

theorem findFile_map (g : File → File) (hp : ∀ f, (g f).path = f.path) (p : Str) : ∀ l : List File,
    findFile (l.map g) p = (findFile l p).map g
  | [] => rfl
  | a :: t => by
    unfold findFile
    simp only [List.map_cons, List.find?_cons, hp]
    split
    · rfl
    · exact findFile_map g hp p t

theorem filterMap_imports_congr {β} (F F' : Import → Option β) : ∀ (l l' : List Import),
    l.map (·.path) = l'.map (·.path) → (∀ a b : Import, a.path = b.path → F a = F' b) →
    l.filterMap F = l'.filterMap F'
  | [], [], _, _ => rfl
  | [], _ :: _, h, _ => by simp at h
  | _ :: _, [], h, _ => by simp at h
  | a :: t, b :: t', h, hF => by
    simp only [List.map_cons, List.cons.injEq] at h
    simp only [List.filterMap_cons, hF a b h.1, filterMap_imports_congr F F' t t' h.2 hF]

theorem flatMap_indexFrom_congr {β} (F F' : Nat × Import → List β) : ∀ (i : Nat) (l l' : List Import),
    l.map (·.path) = l'.map (·.path) → (∀ (j : Nat) (a b : Import), a.path = b.path → F (j, a) = F' (j, b)) →
    (indexFrom i l).flatMap F = (indexFrom i l').flatMap F'
  | _, [], [], _, _ => rfl
  | _, [], _ :: _, h, _ => by simp at h
  | _, _ :: _, [], h, _ => by simp at h
  | i, a :: t, b :: t', h, hF => by
    simp only [List.map_cons, List.cons.injEq] at h
    simp only [indexFrom, List.flatMap_cons, hF i a b h.1, flatMap_indexFrom_congr F F' (i + 1) t t' h.2 hF]

theorem pkgEdges_map (g : File → File) (k : KeepsHdr g) (w : Schema) (pkg : Str) :
    pkgEdges (w.map g) pkg = pkgEdges w pkg := by
  unfold pkgEdges
  congr 1
  rw [filter_map_comm, flatMap_map_left]
  have e1 : (fun x : File => (g x).pkg == pkg) = (fun x => x.pkg == pkg) := funext fun x => by rw [k.pkg]
  rw [e1]
  apply flatMap_congr_mem
  intro f _
  apply filterMap_imports_congr _ _ _ _ (k.importPaths f)
  intro a b hab
  simp only [hab, findFile_map g k.path]
  cases findFile w b.path with
  | none => rfl
  | some f' => simp only [Option.map_some, k.pkg]

theorem reaches_map (g : File → File) (k : KeepsHdr g) (w : Schema) (target : Str) :
    ∀ (fuel : Nat) (used : List Str) (cur : Str),
      reaches (w.map g) target fuel used cur = reaches w target fuel used cur
  | 0, _, _ => rfl
  | fuel + 1, used, cur => by
    simp only [reaches, pkgEdges_map g k]
    have : (fun nxt => !nxt.isEmpty && reaches (w.map g) target fuel (cur :: used) nxt) =
        (fun nxt => !nxt.isEmpty && reaches w target fuel (cur :: used) nxt) :=
      funext fun nxt => by rw [reaches_map g k w target fuel (cur :: used) nxt]
    rw [this]

theorem importCycle_map (g : File → File) (k : KeepsHdr g) (w : Schema) :
    importCycle (w.map g) = importCycle w := by
  unfold importCycle
  rw [nonImport_map g k.isImport, flatMap_map_left]
  apply flatMap_congr_mem
  intro f _
  simp only [k.pkg]
  split
  · rfl
  · apply flatMap_indexFrom_congr _ _ 0 _ _ (k.importPaths f)
    intro j a b hab
    simp only [hab, findFile_map g k.path, List.length_map, reaches_map g k, ann, k.path]
    cases findFile w b.path with
    | none => rfl
    | some f' => simp only [Option.map_some, k.pkg]

theorem stableNoUnstable_map (g : File → File) (k : KeepsHdr g) (w : Schema) :
    stableNoUnstable (w.map g) = stableNoUnstable w := by
  unfold stableNoUnstable
  simp only [nonImport_map g k.isImport]
  rw [flatMap_map_left]
  apply flatMap_congr_mem
  intro f _
  simp only [k.pkg]
  split
  · rfl
  · apply flatMap_indexFrom_congr _ _ 0 _ _ (k.importPaths f)
    intro j a b hab
    simp only [hab, findFile_map g k.path, ann, k.path]
    cases findFile (nonImport w) b.path with
    | none => rfl
    | some f' => simp only [Option.map_some, k.pkg]

/-! ### the RPC table -/

/-- what RPC_REQUEST_RESPONSE_UNIQUE reads of a file -/
def fileRpcRows (f : File) : List RpcRow := (fileRpcs f).map fun x => ⟨f.path, x.1, x.2.2.inType, x.2.2.outType⟩

theorem rpcTable_eq (w : Schema) : rpcTable w = (nonImport w).flatMap fileRpcRows := rfl

theorem rpcTable_map (g : File → File) (hI : ∀ f, (g f).isImport = f.isImport)
    (hr : ∀ f, fileRpcRows (g f) = fileRpcRows f) (w : Schema) : rpcTable (w.map g) = rpcTable w := by
  rw [rpcTable_eq, rpcTable_eq, nonImport_map g hI, flatMap_map_left]
  apply flatMap_congr_mem
  intro f _
  exact hr f

/-- the keyed method table (names included) under a rewriting that keeps every file's entries -/
theorem rpcEntries_map (g : File → File) (hI : ∀ f, (g f).isImport = f.isImport)
    (hr : ∀ f, fileRpcEntries (g f) = fileRpcEntries f) (w : Schema) : rpcEntries (w.map g) = rpcEntries w := by
  unfold rpcEntries
  rw [nonImport_map g hI, flatMap_map_left]
  apply flatMap_congr_mem
  intro f _
  exact hr f

/-! ### every multi-file rule under a header-preserving rewriting -/

theorem optVal_congr {f f' : File} (h : f'.langOpts = f.langOpts) (k : Nat) : optVal f' k = optVal f k := by
  unfold optVal optRaw; rw [h]

theorem optRaw_congr {f f' : File} (h : f'.langOpts = f.langOpts) (k : Nat) : optRaw f' k = optRaw f k := by
  unfold optRaw; rw [h]

theorem optLoc_congr {f f' : File} (h : f'.langOpts = f.langOpts) (k : Nat) : optLoc f' k = optLoc f k := by
  unfold optLoc; rw [optRaw_congr h]

theorem fileDir_congr {f f' : File} (h : f'.path = f.path) : fileDir f' = fileDir f := by
  unfold fileDir; rw [h]

theorem pkgLoc_congr {f f' : File} (h : f'.pkg = f.pkg) : pkgLoc f' = pkgLoc f := by
  unfold pkgLoc; rw [h]

/-- the language option a PACKAGE_SAME_<option> rule compares (index into `File.langOpts`) -/
def optIndex : Rule → Option Nat
  | .PACKAGE_SAME_CSHARP_NAMESPACE => some 0
  | .PACKAGE_SAME_GO_PACKAGE => some 1
  | .PACKAGE_SAME_JAVA_MULTIPLE_FILES => some 2
  | .PACKAGE_SAME_JAVA_PACKAGE => some 3
  | .PACKAGE_SAME_PHP_NAMESPACE => some 4
  | .PACKAGE_SAME_RUBY_PACKAGE => some 5
  | .PACKAGE_SAME_SWIFT_PREFIX => some 6
  | _ => none

/-- value AND location of an option are functions of the raw option statement; the location is
    NOT a function of the value (`option go_package = "";` has the value of an unset option but a
    location of its own) -/
theorem optVal_of_optRaw {f f' : File} {k : Nat} (h : optRaw f' k = optRaw f k) : optVal f' k = optVal f k := by
  unfold optVal; rw [h]

theorem optLoc_of_optRaw {f f' : File} {k : Nat} (h : optRaw f' k = optRaw f k) : optLoc f' k = optLoc f k := by
  unfold optLoc; rw [h]

theorem globalRule_map (o : Options) (g : File → File) (k : KeepsHdr g) (w : Schema) (r : Rule)
    (hopts : ∀ i, optIndex r = some i → ∀ f, optRaw (g f) i = optRaw f i)
    (hrpc : r = .RPC_REQUEST_RESPONSE_UNIQUE → ∀ f, fileRpcEntries (g f) = fileRpcEntries f) :
    globalRule o (w.map g) r = globalRule o w r := by
  cases r <;> simp only [globalRule, nonImport_map g k.isImport]
  case DIRECTORY_SAME_PACKAGE =>
    exact groupRule_map _ _ g _ _ _ (fun f => fileDir_congr (k.path f)) k.pkg (fun f => pkgLoc_congr (k.pkg f)) k.path
  case PACKAGE_NO_IMPORT_CYCLE => exact importCycle_map g k w
  case PACKAGE_SAME_DIRECTORY =>
    exact groupRule_map _ _ g _ _ _ k.pkg (fun f => fileDir_congr (k.path f)) (fun f => pkgLoc_congr (k.pkg f)) k.path
  case RPC_REQUEST_RESPONSE_UNIQUE =>
    unfold rpcUniqueCoded; rw [rpcEntries_map g k.isImport (hrpc rfl)]
  case STABLE_PACKAGE_NO_IMPORT_UNSTABLE => exact stableNoUnstable_map g k w
  all_goals
    exact groupRule_map _ _ g _ _ _ k.pkg (fun f => optVal_of_optRaw (hopts _ rfl f))
      (fun f => optLoc_of_optRaw (hopts _ rfl f)) k.path

theorem globalClean_map (o : Options) (g : File → File) (k : KeepsHdr g) (w : Schema) (r : Rule)
    (hopts : ∀ i, optIndex r = some i → ∀ f, optVal (g f) i = optVal f i)
    (hrpc : r = .RPC_REQUEST_RESPONSE_UNIQUE → ∀ f, fileRpcRows (g f) = fileRpcRows f) :
    globalClean o (w.map g) r = globalClean o w r := by
  cases r <;> simp only [globalClean, nonImport_map g k.isImport]
  case DIRECTORY_SAME_PACKAGE => exact groupClean_map _ g _ _ (fun f => fileDir_congr (k.path f)) k.pkg
  case PACKAGE_NO_IMPORT_CYCLE => rw [importCycle_map g k w]
  case PACKAGE_SAME_DIRECTORY => exact groupClean_map _ g _ _ k.pkg (fun f => fileDir_congr (k.path f))
  case RPC_REQUEST_RESPONSE_UNIQUE => unfold rpcUnique; rw [rpcTable_map g k.isImport (hrpc rfl)]
  case STABLE_PACKAGE_NO_IMPORT_UNSTABLE => rw [stableNoUnstable_map g k w]
  all_goals exact groupClean_map _ g _ _ k.pkg (hopts _ rfl)

/-! ### per-element rules under a rewriting of one file -/

theorem sel_isImport (fp : Str) (h : File → File) (hI : ∀ f, (h f).isImport = f.isImport) (f : File) :
    (sel fp h f).isImport = f.isImport := by
  unfold sel; split
  · exact hI f
  · rfl

/-- a per-element rule stays Clean when the rewritten file keeps all its elements `good` -/
theorem cleanRule_elem_plant (o : Options) (w : Schema) (r : Rule) (er : ElemRule) (he : elemRule r = some er)
    (fp : Str) (h : File → File) (hI : ∀ f, (h f).isImport = f.isImport)
    (hgood : ∀ f ∈ nonImport w, f.path = fp → (er.els f).all (er.good o) = true →
      (er.els (h f)).all (er.good o) = true)
    (hc : cleanRule o w r = true) : cleanRule o (plantFile fp h w) r = true := by
  rw [cleanRule_elem o _ r er he] at hc ⊢
  unfold plantFile
  rw [nonImport_map _ (sel_isImport fp h hI), List.all_map]
  apply List.all_eq_true.mpr
  intro f hf
  have hg := List.all_eq_true.mp hc f hf
  show (er.els (sel fp h f)).all (er.good o) = true
  unfold sel
  split
  · next hp => exact hgood f hf (by simpa using hp) hg
  · exact hg

theorem all_map_of_pointwise {α} (l : List α) (τ : α → α) (G : α → Bool) (h : ∀ x, G (τ x) = G x) :
    (l.map τ).all G = l.all G := by
  rw [List.all_map]
  congr 1
  funext x
  exact h x

/-! ### which groups of declarations a rule reads -/

inductive Grp where
  | enum | msg | field | oneof | svc | rpc
  deriving DecidableEq, Repr

/-- the transformer is the identity on a group of declarations -/
def Tr.isId (T : Tr) : Grp → Prop
  | .enum => T.enum = (fun _ e => e) ∧ T.value = (fun _ v => v)
  | .msg => T.msgName = (fun _ s => s) ∧ T.msgComment = (fun _ s => s)
  | .field => T.fieldName = (fun _ s => s) ∧ T.fieldComment = (fun _ s => s) ∧ T.fieldRequired = (fun _ b => b)
  | .oneof => T.oneof = fun _ x => x
  | .svc => T.svcName = (fun _ s => s) ∧ T.svcComment = (fun _ s => s)
  | .rpc => T.rpc = fun _ m => m

/-- the groups of declarations a rule reads (enum = the enum declarations with their values;
    svc = service name/comment; rpc = the RPC declarations) -/
def dep : Rule → List Grp
  | .COMMENT_ENUM | .COMMENT_ENUM_VALUE | .ENUM_FIRST_VALUE_ZERO | .ENUM_NO_ALLOW_ALIAS | .ENUM_PASCAL_CASE
  | .ENUM_VALUE_PREFIX | .ENUM_VALUE_UPPER_SNAKE_CASE | .ENUM_ZERO_VALUE_SUFFIX => [.enum]
  | .COMMENT_FIELD | .FIELD_LOWER_SNAKE_CASE | .FIELD_NO_DESCRIPTOR | .FIELD_NOT_REQUIRED => [.field]
  | .COMMENT_MESSAGE | .MESSAGE_PASCAL_CASE => [.msg]
  | .COMMENT_ONEOF | .ONEOF_LOWER_SNAKE_CASE => [.oneof]
  | .COMMENT_SERVICE | .SERVICE_PASCAL_CASE | .SERVICE_SUFFIX => [.svc]
  | .COMMENT_RPC | .RPC_NO_CLIENT_STREAMING | .RPC_NO_SERVER_STREAMING | .RPC_PASCAL_CASE => [.rpc]
  | .RPC_REQUEST_STANDARD_NAME | .RPC_RESPONSE_STANDARD_NAME => [.svc, .rpc]
  | .RPC_REQUEST_RESPONSE_UNIQUE => [.rpc]
  | _ => []

theorem fileEnums_mapFile_id (T : Tr) (hid : T.isId .enum) (f : File) : fileEnums (mapFile T f) = fileEnums f := by
  rw [fileEnums_map]
  have : tauEnum T = id := funext fun x => by
    have h : T.enum = (fun _ e => e) ∧ T.value = (fun _ v => v) := hid
    simp [tauEnum, Tr.enumFull, h.1, h.2, mapIdxFrom_id]
  rw [this, List.map_id]

theorem fileEnumValues_mapFile_id (T : Tr) (hid : T.isId .enum) (f : File) :
    fileEnumValues (mapFile T f) = fileEnumValues f := by
  unfold fileEnumValues
  rw [fileEnums_mapFile_id T hid]

theorem isMapEntryParent_map (T : Tr) (q : List Nat) (pm : Option Message) :
    isMapEntryParent (pm.map (mapMsg T q)) = isMapEntryParent pm := by
  cases pm with
  | none => rfl
  | some m => simp [isMapEntryParent, mapMsg_mapEntry]

def p3View : List Bool → Bool
  | [b] => b
  | _ => false

theorem oneofIsP3Optional_view (m : Message) (i : Nat) :
    oneofIsP3Optional m i = p3View ((oneofMembers m i).map (·.proto3Optional)) := by
  unfold oneofIsP3Optional
  cases oneofMembers m i with
  | nil => rfl
  | cons a t => cases t <;> rfl

/-- oneof membership and the proto3-optional flag survive every transformer -/
theorem oneofIsP3Optional_map (T : Tr) (q : List Nat) (m : Message) (i : Nat) :
    oneofIsP3Optional (mapMsg T q m) i = oneofIsP3Optional m i := by
  have key : ∀ (g : Nat → List Nat) (j : Nat) (l : List Field),
      ((mapIdxFrom (fun k => T.field (g k)) j l).filter (fun fd => fd.oneofIndex == some i)).map (·.proto3Optional)
        = (l.filter (fun fd => fd.oneofIndex == some i)).map (·.proto3Optional) := by
    intro g j l
    induction l generalizing j with
    | nil => rfl
    | cons a t ih =>
      simp only [mapIdxFrom, List.filter_cons]
      have : (T.field (g j) a).oneofIndex = a.oneofIndex := rfl
      rw [this]
      split
      · simp only [List.map_cons, ih]; rfl
      · exact ih _
  have hlen : ((oneofMembers (mapMsg T q m) i).map (·.proto3Optional)) = (oneofMembers m i).map (·.proto3Optional) := by
    unfold oneofMembers
    rw [mapMsg_fields, mapMsg_exts, List.filter_append, List.filter_append, List.map_append, List.map_append,
      key, key]
  rw [oneofIsP3Optional_view, oneofIsP3Optional_view, hlen]

theorem fileRpcRows_mapFile (T : Tr) (hid : ∀ p m, (T.rpc p m).inType = m.inType ∧ (T.rpc p m).outType = m.outType)
    (f : File) : fileRpcRows (mapFile T f) = fileRpcRows f := by
  unfold fileRpcRows
  rw [fileRpcs_map, List.map_map]
  apply map_congr_fn
  intro x
  simp only [Function.comp, tauRpc, (hid x.1 x.2.2).1, (hid x.1 x.2.2).2]
  rfl

theorem cleanRule_global_plant (o : Options) (w : Schema) (r : Rule) (he : elemRule r = none)
    (fp : Str) (h : File → File) (k : KeepsHdr h)
    (hopts : ∀ i, optIndex r = some i → ∀ f, optVal (h f) i = optVal f i)
    (hrpc : r = .RPC_REQUEST_RESPONSE_UNIQUE → ∀ f, fileRpcRows (h f) = fileRpcRows f) :
    cleanRule o (plantFile fp h w) r = cleanRule o w r := by
  rw [cleanRule_global o _ r he, cleanRule_global o _ r he]
  unfold plantFile
  apply globalClean_map o _ (k.sel fp)
  · intro i hi f; unfold sel; split
    · exact hopts i hi f
    · rfl
  · intro hr f; unfold sel; split
    · exact hrpc hr f
    · rfl

theorem runRule_global_plant (o : Options) (w : Schema) (r : Rule) (he : elemRule r = none)
    (fp : Str) (h : File → File) (k : KeepsHdr h)
    (hopts : ∀ i, optIndex r = some i → ∀ f, optRaw (h f) i = optRaw f i)
    (hrpc : r = .RPC_REQUEST_RESPONSE_UNIQUE → ∀ f, fileRpcEntries (h f) = fileRpcEntries f) :
    runRule o (plantFile fp h w) r = runRule o w r := by
  rw [runRule_global o _ r he, runRule_global o _ r he]
  unfold plantFile
  apply globalRule_map o _ (k.sel fp)
  · intro i hi f; unfold sel; split
    · exact hopts i hi f
    · rfl
  · intro hr f; unfold sel; split
    · exact hrpc hr f
    · rfl

/-- **Frame lemma (declarations).**  A transformer that is the identity on every group of
    declarations the rule `r` reads cannot make `r` dirty: if `r` is Clean on `w`, it is Clean on
    the workspace in which the file `fp` was rewritten by `T` — whatever `T` does to the other
    declarations, at any nesting depth. -/
theorem frame_deep (o : Options) (w : Schema) (fp : Str) (T : Tr) (r : Rule)
    (hid : ∀ g ∈ dep r, T.isId g) (hc : cleanRule o w r = true) :
    cleanRule o (plantFile fp (mapFile T) w) r = true := by
  cases he : elemRule r with
  | none =>
    rw [cleanRule_global_plant o w r he fp _ (keepsHdr_mapFile T) (fun _ _ _ => rfl)]
    · exact hc
    · intro hr f
      subst hr
      have h : T.rpc = fun _ m => m := hid .rpc (by simp [dep])
      exact fileRpcRows_mapFile T (fun p m => by rw [h]; exact ⟨rfl, rfl⟩) f
  | some er =>
    apply cleanRule_elem_plant o w r er he fp (mapFile T) (fun _ => rfl) _ hc
    intro f _ _ hg
    cases r <;> simp only [elemRule, Option.some.injEq, reduceCtorEq] at he <;> subst he
    case COMMENT_ENUM | ENUM_FIRST_VALUE_ZERO | ENUM_NO_ALLOW_ALIAS | ENUM_PASCAL_CASE =>
      show (fileEnums (mapFile T f)).all _ = true
      rw [fileEnums_mapFile_id T (hid .enum (by simp [dep]))]; exact hg
    case COMMENT_ENUM_VALUE | ENUM_VALUE_PREFIX | ENUM_VALUE_UPPER_SNAKE_CASE | ENUM_ZERO_VALUE_SUFFIX =>
      show (fileEnumValues (mapFile T f)).all _ = true
      rw [fileEnumValues_mapFile_id T (hid .enum (by simp [dep]))]; exact hg
    case COMMENT_MESSAGE | MESSAGE_PASCAL_CASE =>
      have h : T.msgName = (fun _ s => s) ∧ T.msgComment = (fun _ s => s) := hid .msg (by simp [dep])
      show (fileMsgs (mapFile T f)).all _ = true
      rw [fileMsgs_map, all_map_of_pointwise _ _ _ (fun x => ?_)]
      · exact hg
      · simp [tauMsg, mapMsg_name, mapMsg_comment, mapMsg_mapEntry, h.1, h.2]
    case COMMENT_FIELD | FIELD_LOWER_SNAKE_CASE | FIELD_NO_DESCRIPTOR | FIELD_NOT_REQUIRED =>
      have h : T.fieldName = (fun _ s => s) ∧ T.fieldComment = (fun _ s => s) ∧ T.fieldRequired = (fun _ b => b) :=
        hid .field (by simp [dep])
      show (fileFields (mapFile T f)).all _ = true
      rw [fileFields_map, all_map_of_pointwise _ _ _ (fun x => ?_)]
      · exact hg
      · simp [tauField, Tr.field, isMapEntryParent_map, h.1, h.2.1, h.2.2]
    case COMMENT_ONEOF | ONEOF_LOWER_SNAKE_CASE =>
      have h : T.oneof = fun _ x => x := hid .oneof (by simp [dep])
      show (fileOneofs (mapFile T f)).all _ = true
      rw [fileOneofs_map, all_map_of_pointwise _ _ _ (fun x => ?_)]
      · exact hg
      · simp [tauOneof, oneofIsP3Optional_map, h]
    case COMMENT_SERVICE | SERVICE_PASCAL_CASE | SERVICE_SUFFIX =>
      have h : T.svcName = (fun _ s => s) ∧ T.svcComment = (fun _ s => s) := hid .svc (by simp [dep])
      show (fileSvcs (mapFile T f)).all _ = true
      rw [fileSvcs_map, all_map_of_pointwise _ _ _ (fun x => ?_)]
      · exact hg
      · simp [tauSvc, mapSvc, h.1, h.2]
    case COMMENT_RPC | RPC_NO_CLIENT_STREAMING | RPC_NO_SERVER_STREAMING | RPC_PASCAL_CASE =>
      have h : T.rpc = fun _ m => m := hid .rpc (by simp [dep])
      show (fileRpcs (mapFile T f)).all _ = true
      rw [fileRpcs_map, all_map_of_pointwise _ _ _ (fun x => ?_)]
      · exact hg
      · simp [tauRpc, h]
    case RPC_REQUEST_STANDARD_NAME | RPC_RESPONSE_STANDARD_NAME =>
      have h : T.rpc = fun _ m => m := hid .rpc (by simp [dep])
      have h2 : T.svcName = (fun _ s => s) ∧ T.svcComment = (fun _ s => s) := hid .svc (by simp [dep])
      show (fileRpcs (mapFile T f)).all _ = true
      rw [fileRpcs_map, all_map_of_pointwise _ _ _ (fun x => ?_)]
      · exact hg
      · simp [tauRpc, h, stdNameBad, mapSvc, h2.1]
    all_goals exact hg

end BufModel.Lint
