import BufModel.Annot
/-
  Helper lemmas for C20: ordering laws of fileAnnotationCompareTo, the stable insertion sort,
  the de-duplication loop, injectivity of the length-prefixed key, line structure of the
  line-oriented printers.
-/
namespace BufModel.Annot

/-! ### ordering laws -/

structure OrdLaw {α : Type} (cmp : α → α → Ordering) : Prop where
  swap : ∀ a b, cmp b a = (cmp a b).swap
  trans_lt : ∀ a b c, cmp a b = .lt → cmp b c = .lt → cmp a c = .lt
  eq_left : ∀ a b c, cmp a b = .eq → cmp a c = cmp b c

theorem OrdLaw.eq_right {α : Type} {cmp : α → α → Ordering} (h : OrdLaw cmp) (a b c : α)
    (e : cmp b c = .eq) : cmp a b = cmp a c := by
  have e' : cmp c b = .eq := by rw [h.swap b c, e]; rfl
  have h1 := h.eq_left c b a e'
  rw [h.swap b a, h.swap c a, h1]

theorem OrdLaw.refl {α : Type} {cmp : α → α → Ordering} (h : OrdLaw cmp) (a : α) : cmp a a = .eq := by
  have := h.swap a a
  cases hc : cmp a a <;> simp_all [Ordering.swap]

/-- pointwise transitivity of a lexicographic combination -/
theorem then_trans_lt {x1 y1 z1 x2 y2 z2 : Ordering}
    (h1 : x1 = .lt → y1 = .lt → z1 = .lt) (h1e : x1 = .eq → z1 = y1) (h1e' : y1 = .eq → z1 = x1)
    (h2 : x2 = .lt → y2 = .lt → z2 = .lt) :
    x1.then x2 = .lt → y1.then y2 = .lt → z1.then z2 = .lt := by
  cases x1 <;> cases y1 <;> simp_all [Ordering.then]

theorem then_eq_left {x1 y1 z1 x2 y2 z2 : Ordering}
    (h1 : x1 = .eq → z1 = y1) (h2 : x2 = .eq → z2 = y2) :
    x1.then x2 = .eq → z1.then z2 = y1.then y2 := by
  cases x1 <;> simp_all [Ordering.then]

def thenCmp {α : Type} (c1 c2 : α → α → Ordering) (a b : α) : Ordering := (c1 a b).then (c2 a b)

theorem OrdLaw.thenCmp {α : Type} {c1 c2 : α → α → Ordering} (h1 : OrdLaw c1) (h2 : OrdLaw c2) :
    OrdLaw (thenCmp c1 c2) where
  swap a b := by simp only [Annot.thenCmp, h1.swap a b, h2.swap a b, Ordering.swap_then]
  trans_lt a b c := then_trans_lt (h1.trans_lt a b c) (h1.eq_left a b c) (fun e => (h1.eq_right a b c e).symm)
    (h2.trans_lt a b c)
  eq_left a b c := then_eq_left (h1.eq_left a b c) (h2.eq_left a b c)

def onCmp {α β : Type} (f : α → β) (c : β → β → Ordering) (a b : α) : Ordering := c (f a) (f b)

theorem OrdLaw.onCmp {α β : Type} (f : α → β) {c : β → β → Ordering} (h : OrdLaw c) : OrdLaw (onCmp f c) where
  swap a b := h.swap (f a) (f b)
  trans_lt a b c := h.trans_lt (f a) (f b) (f c)
  eq_left a b c := h.eq_left (f a) (f b) (f c)

theorem cmpNat_law : OrdLaw cmpNat where
  swap a b := by unfold cmpNat; split <;> split <;> simp_all [Ordering.swap] <;> omega
  trans_lt a b c := by
    intro h1 h2
    have hab : a < b := by
      unfold cmpNat at h1; split at h1
      · assumption
      · split at h1 <;> cases h1
    have hbc : b < c := by
      unfold cmpNat at h2; split at h2
      · assumption
      · split at h2 <;> cases h2
    unfold cmpNat; rw [if_pos (by omega)]
  eq_left a b c := by
    unfold cmpNat
    intro h
    have : a = b := by
      split at h
      · cases h
      · split at h
        · cases h
        · omega
    subst this; rfl

theorem cmpNat_eq_iff (a b : Nat) : cmpNat a b = .eq ↔ a = b := by
  unfold cmpNat; split <;> (try split) <;> simp_all <;> omega

theorem cmpStr_eq_iff : ∀ a b : Str, cmpStr a b = .eq ↔ a = b
  | [], [] => by simp [cmpStr]
  | [], _ :: _ => by simp [cmpStr]
  | _ :: _, [] => by simp [cmpStr]
  | x :: xs, y :: ys => by
    simp only [cmpStr, Ordering.then_eq_eq, cmpNat_eq_iff, cmpStr_eq_iff xs ys, Char.toNat_inj, List.cons.injEq]

theorem cmpStr_swap : ∀ a b : Str, cmpStr b a = (cmpStr a b).swap
  | [], [] => rfl
  | [], _ :: _ => rfl
  | _ :: _, [] => rfl
  | x :: xs, y :: ys => by
    simp only [cmpStr, Ordering.swap_then, cmpNat_law.swap x.toNat y.toNat, cmpStr_swap xs ys]

theorem cmpStr_trans_lt : ∀ a b c : Str, cmpStr a b = .lt → cmpStr b c = .lt → cmpStr a c = .lt
  | [], [], _ => by simp [cmpStr]
  | [], _ :: _, [] => by simp [cmpStr]
  | [], _ :: _, _ :: _ => by simp [cmpStr]
  | _ :: _, [], _ => by simp [cmpStr]
  | _ :: _, _ :: _, [] => by simp [cmpStr]
  | x :: xs, y :: ys, z :: zs => by
    simp only [cmpStr]
    exact then_trans_lt (cmpNat_law.trans_lt _ _ _) (cmpNat_law.eq_left _ _ _)
      (fun e => (cmpNat_law.eq_right _ _ _ e).symm) (cmpStr_trans_lt xs ys zs)

theorem cmpStr_law : OrdLaw cmpStr where
  swap := cmpStr_swap
  trans_lt := cmpStr_trans_lt
  eq_left a b c h := by rw [(cmpStr_eq_iff a b).mp h]

theorem cmpFile_eq_iff : ∀ a b : Option Str, cmpFile a b = .eq ↔ a = b
  | none, none => by simp [cmpFile]
  | none, some _ => by simp [cmpFile]
  | some _, none => by simp [cmpFile]
  | some a, some b => by simp [cmpFile, cmpStr_eq_iff]

theorem cmpFile_law : OrdLaw cmpFile where
  swap a b := by
    cases a <;> cases b <;> simp [cmpFile, Ordering.swap]
    exact cmpStr_swap _ _
  trans_lt a b c := by
    cases a <;> cases b <;> cases c <;> simp [cmpFile]
    exact cmpStr_trans_lt _ _ _
  eq_left a b c h := by rw [(cmpFile_eq_iff a b).mp h]

/-- compareTo is the lexicographic combination of its seven field comparisons. -/
theorem compareTo_eq_thenCmp : compareTo =
    thenCmp (onCmp Annot.file cmpFile) (thenCmp (onCmp Annot.sl cmpNat) (thenCmp (onCmp Annot.sc cmpNat)
      (thenCmp (onCmp Annot.type cmpStr) (thenCmp (onCmp Annot.msg cmpStr)
        (thenCmp (onCmp Annot.el cmpNat) (onCmp Annot.ec cmpNat)))))) := rfl

theorem compareTo_law : OrdLaw compareTo := by
  rw [compareTo_eq_thenCmp]
  exact (cmpFile_law.onCmp _).thenCmp <| (cmpNat_law.onCmp _).thenCmp <| (cmpNat_law.onCmp _).thenCmp <|
    (cmpStr_law.onCmp _).thenCmp <| (cmpStr_law.onCmp _).thenCmp <| (cmpNat_law.onCmp _).thenCmp (cmpNat_law.onCmp _)

/-- The fields fileAnnotationCompareTo looks at. -/
def cmpFields (a : Annot) : Option Str × Nat × Nat × Str × Str × Nat × Nat :=
  (a.file, a.sl, a.sc, a.type, a.msg, a.el, a.ec)

theorem compareTo_eq_iff (a b : Annot) : compareTo a b = .eq ↔ cmpFields a = cmpFields b := by
  simp only [compareTo, Ordering.then_eq_eq, cmpFile_eq_iff, cmpNat_eq_iff, cmpStr_eq_iff, cmpFields, Prod.mk.injEq]

/-! ### the stable insertion sort -/

/-- `a` may stand before `b`: not (b < a). -/
def LE (a b : Annot) : Prop := compareTo a b ≠ .gt

theorem less_iff (a b : Annot) : less a b = true ↔ compareTo a b = .lt := by
  simp [less]

theorem LE_of_not_less {a b : Annot} (h : ¬ less b a = true) : LE a b := by
  intro hgt
  apply h
  rw [less_iff, compareTo_law.swap a b, hgt]; rfl

theorem LE_of_less {a b : Annot} (h : less a b = true) : LE a b := by
  rw [less_iff] at h; simp [LE, h]

theorem LE_trans {a b c : Annot} (h1 : LE a b) (h2 : LE b c) : LE a c := by
  unfold LE at *
  have L := compareTo_law
  cases hab : compareTo a b with
  | gt => exact absurd hab h1
  | eq => rw [L.eq_left a b c hab]; exact h2
  | lt =>
    cases hbc : compareTo b c with
    | gt => exact absurd hbc h2
    | eq => rw [← L.eq_right a b c hbc, hab]; simp
    | lt => rw [L.trans_lt a b c hab hbc]; simp

theorem ins_perm (x : Annot) : ∀ l, (ins x l).Perm (x :: l)
  | [] => List.Perm.refl _
  | y :: ys => by
    simp only [ins]
    split
    · exact ((ins_perm x ys).cons y).trans (List.Perm.swap x y ys)
    · exact List.Perm.refl _

theorem sortS_perm : ∀ l, (sortS l).Perm l
  | [] => List.Perm.refl _
  | x :: xs => (ins_perm x (sortS xs)).trans ((sortS_perm xs).cons x)

theorem mem_ins {a x : Annot} {l : List Annot} : a ∈ ins x l ↔ a = x ∨ a ∈ l := by
  rw [(ins_perm x l).mem_iff, List.mem_cons]

theorem ins_sorted (x : Annot) : ∀ l, l.Pairwise LE → (ins x l).Pairwise LE
  | [], _ => by simp [ins]
  | y :: ys, h => by
    simp only [ins]
    rw [List.pairwise_cons] at h
    split
    · rename_i hl
      rw [List.pairwise_cons]
      refine ⟨?_, ins_sorted x ys h.2⟩
      intro z hz
      rcases mem_ins.mp hz with rfl | hz
      · exact LE_of_less hl
      · exact h.1 z hz
    · rename_i hl
      rw [List.pairwise_cons]
      refine ⟨?_, List.pairwise_cons.mpr h⟩
      intro z hz
      rcases List.mem_cons.mp hz with rfl | hz
      · exact LE_of_not_less hl
      · exact LE_trans (LE_of_not_less hl) (h.1 z hz)

theorem sortS_sorted : ∀ l, (sortS l).Pairwise LE
  | [] => List.Pairwise.nil
  | x :: xs => ins_sorted x _ (sortS_sorted xs)

/-- No two members tie under compareTo. -/
def NoTies (l : List Annot) : Prop := l.Pairwise fun a b => compareTo a b ≠ .eq

theorem NoTies.perm {l l' : List Annot} (h : NoTies l) (p : l.Perm l') : NoTies l' :=
  List.Pairwise.perm h p (by
    intro a b hab hba
    apply hab
    rw [compareTo_law.swap b a, hba]; rfl)

/-- Two sorted lists without mutual ties that are permutations of each other are equal:
    the sorted order is unique, the stable sort's tie-breaking never comes into play. -/
theorem sorted_unique {l1 l2 : List Annot} (p : l1.Perm l2) (s1 : l1.Pairwise LE) (s2 : l2.Pairwise LE)
    (nt : ∀ a b, a ∈ l1 → b ∈ l1 → compareTo a b = .eq → a = b) : l1 = l2 := by
  refine List.Perm.eq_of_pairwise (le := LE) ?_ s1 s2 p
  intro a b ha hb hab hba
  apply nt a b ha (p.symm.mem_iff.mp hb |> fun h => h)
  have hsw := compareTo_law.swap a b
  unfold LE at hab hba
  cases h : compareTo a b with
  | eq => rfl
  | gt => exact absurd h hab
  | lt => rw [h] at hsw; exact absurd hsw hba

theorem sortS_strict {l : List Annot} (nt : NoTies l) :
    (sortS l).Pairwise fun a b => compareTo a b = .lt := by
  have h1 := sortS_sorted l
  have h2 : NoTies (sortS l) := nt.perm (sortS_perm l).symm
  refine List.Pairwise.imp ?_ (List.Pairwise.and h1 h2)
  intro a b h
  cases hc : compareTo a b with
  | lt => rfl
  | eq => exact absurd hc h.2
  | gt => exact absurd hc h.1

/-! ### the de-duplication loop -/

theorem mem_dedupWith {key : Annot → Str} : ∀ {l : List Annot} {seen : List Str} {a : Annot},
    a ∈ dedupWith key l seen → a ∈ l ∧ key a ∉ seen
  | [], _, _, h => by simp [dedupWith] at h
  | x :: xs, seen, a, h => by
    simp only [dedupWith] at h
    split at h
    · have := mem_dedupWith h
      exact ⟨List.mem_cons_of_mem _ this.1, this.2⟩
    · rename_i hx
      rcases List.mem_cons.mp h with rfl | h
      · exact ⟨List.mem_cons_self, hx⟩
      · have := mem_dedupWith h
        exact ⟨List.mem_cons_of_mem _ this.1, fun hm => this.2 (List.mem_cons_of_mem _ hm)⟩

/-- the survivors have pairwise different keys -/
theorem dedupWith_keys_distinct {key : Annot → Str} : ∀ (l : List Annot) (seen : List Str),
    (dedupWith key l seen).Pairwise fun a b => key a ≠ key b
  | [], _ => by simp [dedupWith]
  | x :: xs, seen => by
    simp only [dedupWith]
    split
    · exact dedupWith_keys_distinct xs seen
    · rw [List.pairwise_cons]
      refine ⟨?_, dedupWith_keys_distinct xs _⟩
      intro b hb heq
      have := (mem_dedupWith hb).2
      exact this (heq ▸ List.mem_cons_self)

/-- every key of the input that was not seen before is represented among the survivors -/
theorem dedupWith_covers {key : Annot → Str} : ∀ (l : List Annot) (seen : List Str) (a : Annot),
    a ∈ l → key a ∉ seen → ∃ a' ∈ dedupWith key l seen, key a' = key a
  | [], _, _, h, _ => by simp at h
  | x :: xs, seen, a, h, hs => by
    simp only [dedupWith]
    rcases List.mem_cons.mp h with rfl | h
    · split
      · rename_i hx; exact absurd hx hs
      · exact ⟨a, List.mem_cons_self, rfl⟩
    · split
      · exact dedupWith_covers xs seen a h hs
      · by_cases hk : key a = key x
        · exact ⟨x, List.mem_cons_self, hk.symm⟩
        · have hs' : key a ∉ key x :: seen := by
            intro hm; rcases List.mem_cons.mp hm with e | e
            · exact hk e
            · exact hs e
          obtain ⟨a', ha', hk'⟩ := dedupWith_covers xs _ a h hs'
          exact ⟨a', List.mem_cons_of_mem _ ha', hk'⟩

/-- nothing is dropped from a list whose keys are pairwise different -/
theorem dedupWith_id {key : Annot → Str} : ∀ (l : List Annot) (seen : List Str),
    l.Pairwise (fun a b => key a ≠ key b) → (∀ a ∈ l, key a ∉ seen) → dedupWith key l seen = l
  | [], _, _, _ => rfl
  | x :: xs, seen, hp, hs => by
    rw [List.pairwise_cons] at hp
    simp only [dedupWith]
    rw [if_neg (hs x List.mem_cons_self)]
    congr 1
    apply dedupWith_id xs _ hp.2
    intro a ha hm
    rcases List.mem_cons.mp hm with e | e
    · exact hp.1 a ha e.symm
    · exact hs a (List.mem_cons_of_mem _ ha) e

/-! ### injectivity of the length-prefixed key -/

theorem itoa_digit {n : Nat} {c : Char} (h : c ∈ itoa n) : c.isDigit = true :=
  Nat.isDigit_of_mem_toDigits (by decide) (by decide) h

theorem itoa_inj {a b : Nat} (h : itoa a = itoa b) : a = b := by
  have ha := @Nat.ofDigitChars_ten_toDigits a
  have hb := @Nat.ofDigitChars_ten_toDigits b
  unfold itoa at h
  rw [h] at ha
  exact ha.symm.trans hb

theorem isDigit_ne {c d : Char} (h : c.isDigit = true) (hd : d.isDigit = false) : c ≠ d := by
  intro e; subst e; rw [h] at hd; cases hd

theorem split_at_sep (sep : Char) : ∀ (p1 p2 q1 q2 : Str), (∀ c ∈ p1, c ≠ sep) → (∀ c ∈ p2, c ≠ sep) →
    p1 ++ sep :: q1 = p2 ++ sep :: q2 → p1 = p2 ∧ q1 = q2
  | [], [], _, _, _, _, h => by simpa using h
  | [], y :: ys, _, _, _, h2, h => by
    simp only [List.nil_append, List.cons_append, List.cons.injEq] at h
    exact absurd h.1.symm (h2 y List.mem_cons_self)
  | x :: xs, [], _, _, h1, _, h => by
    simp only [List.nil_append, List.cons_append, List.cons.injEq] at h
    exact absurd h.1 (h1 x List.mem_cons_self)
  | x :: xs, y :: ys, q1, q2, h1, h2, h => by
    simp only [List.cons_append, List.cons.injEq] at h
    have := split_at_sep sep xs ys q1 q2 (fun c hc => h1 c (List.mem_cons_of_mem _ hc))
      (fun c hc => h2 c (List.mem_cons_of_mem _ hc)) h.2
    exact ⟨by rw [h.1, this.1], this.2⟩

theorem utf8Len_eq_zero : ∀ {s : Str}, utf8Len s = 0 → s = []
  | [], _ => rfl
  | c :: cs, h => by
    simp only [utf8Len] at h
    have := Char.utf8Size_pos c
    omega

theorem append_inj_utf8 : ∀ (s1 s2 r1 r2 : Str), utf8Len s1 = utf8Len s2 → s1 ++ r1 = s2 ++ r2 →
    s1 = s2 ∧ r1 = r2
  | [], s2, _, _, hl, h => by
    have : s2 = [] := utf8Len_eq_zero (by simpa [utf8Len] using hl.symm)
    subst this; exact ⟨rfl, by simpa using h⟩
  | c :: cs, [], _, _, hl, _ => by
    have : c :: cs = [] := utf8Len_eq_zero (by simpa [utf8Len] using hl)
    cases this
  | c :: cs, d :: ds, r1, r2, hl, h => by
    simp only [List.cons_append, List.cons.injEq] at h
    obtain ⟨rfl, h⟩ := h
    simp only [utf8Len] at hl
    have := append_inj_utf8 cs ds r1 r2 (by omega) h
    exact ⟨by rw [this.1], this.2⟩

/-- a length-prefixed field can be read back unambiguously from the front of the key -/
theorem lp_append_inj (s1 s2 r1 r2 : Str) (h : lp s1 ++ r1 = lp s2 ++ r2) : s1 = s2 ∧ r1 = r2 := by
  unfold lp at h
  simp only [List.append_assoc, List.cons_append] at h
  have hd : ∀ n, ∀ c ∈ itoa n, c ≠ ':' := fun n c hc => isDigit_ne (itoa_digit hc) (by decide)
  obtain ⟨h1, h2⟩ := split_at_sep ':' _ _ _ _ (hd _) (hd _) h
  exact append_inj_utf8 _ _ _ _ (itoa_inj h1) h2

theorem flatMap_lp_inj : ∀ (l1 l2 : List Str), l1.length = l2.length →
    l1.flatMap lp = l2.flatMap lp → l1 = l2
  | [], [], _, _ => rfl
  | [], _ :: _, hl, _ => by simp at hl
  | _ :: _, [], hl, _ => by simp at hl
  | x :: xs, y :: ys, hl, h => by
    simp only [List.flatMap_cons] at h
    obtain ⟨hx, hr⟩ := lp_append_inj _ _ _ _ h
    rw [hx, flatMap_lp_inj xs ys (by simpa using hl) hr]

/-- THE FIX: the length-prefixed key determines the seven key fields. -/
theorem keyNew_inj {a b : Annot} (h : keyNew a = keyNew b) : keyFields a = keyFields b :=
  flatMap_lp_inj _ _ (by simp [keyFields]) h

/-- equal on the seven key fields (path as the hash sees it, the four numbers, type, message) -/
theorem keyFields_eq_iff (a b : Annot) : keyFields a = keyFields b ↔
    pathOf a = pathOf b ∧ a.sl = b.sl ∧ a.sc = b.sc ∧ a.el = b.el ∧ a.ec = b.ec ∧ a.type = b.type ∧ a.msg = b.msg := by
  simp only [keyFields, List.cons.injEq, and_true]
  constructor
  · rintro ⟨h1, h2, h3, h4, h5, h6, h7⟩
    exact ⟨h1, itoa_inj h2, itoa_inj h3, itoa_inj h4, itoa_inj h5, h6, h7⟩
  · rintro ⟨h1, h2, h3, h4, h5, h6, h7⟩
    rw [h1, h2, h3, h4, h5, h6, h7]; simp

theorem keyNew_eq_iff (a b : Annot) : keyNew a = keyNew b ↔ keyFields a = keyFields b :=
  ⟨keyNew_inj, fun h => by unfold keyNew; rw [h]⟩

/-! ### line structure of the line-oriented printers -/

/-- no line break inside -/
def OneLine (s : Str) : Prop := ∀ c ∈ s, c ≠ '\n' ∧ c ≠ '\r'

instance (s : Str) : Decidable (OneLine s) := by unfold OneLine; infer_instance

theorem OneLine.append {s t : Str} (hs : OneLine s) (ht : OneLine t) : OneLine (s ++ t) := by
  intro c hc
  rcases List.mem_append.mp hc with h | h
  · exact hs c h
  · exact ht c h

theorem OneLine.cons {c : Char} {t : Str} (hc : c ≠ '\n' ∧ c ≠ '\r') (ht : OneLine t) : OneLine (c :: t) := by
  intro d hd
  rcases List.mem_cons.mp hd with rfl | h
  · exact hc
  · exact ht d h

theorem OneLine.nil : OneLine [] := by intro c hc; cases hc

theorem oneLine_itoa (n : Nat) : OneLine (itoa n) := fun _ hc =>
  ⟨isDigit_ne (itoa_digit hc) (by decide), isDigit_ne (itoa_digit hc) (by decide)⟩

theorem oneLine_oneLine (s : Str) : OneLine (oneLine s) := by
  intro c hc
  simp only [oneLine, List.mem_map] at hc
  obtain ⟨d, _, rfl⟩ := hc
  split
  · exact ⟨by decide, by decide⟩
  · rename_i h; exact ⟨fun e => h (Or.inl e), fun e => h (Or.inr e)⟩

theorem oneLine_escData (s : Str) : OneLine (escData s) := by
  intro c hc
  simp only [escData, List.mem_flatMap] at hc
  obtain ⟨d, _, hd⟩ := hc
  split at hd
  · revert c; decide
  · split at hd
    · revert c; decide
    · split at hd
      · revert c; decide
      · rename_i h1 h2 h3
        simp only [List.mem_singleton] at hd
        subst hd; exact ⟨h3, h2⟩

theorem oneLine_escProp (s : Str) : OneLine (escProp s) := by
  intro c hc
  simp only [escProp, List.mem_flatMap] at hc
  obtain ⟨d, _, hd⟩ := hc
  split at hd
  · revert c; decide
  · split at hd
    · revert c; decide
    · split at hd
      · revert c; decide
      · split at hd
        · revert c; decide
        · split at hd
          · revert c; decide
          · rename_i h1 h2 h3 h4 h5
            simp only [List.mem_singleton] at hd
            subst hd; exact ⟨h3, h2⟩

theorem oneLine_pluginSuffix {esc : Str → Str} (h : ∀ s, OneLine (esc s)) (p : Str) :
    OneLine (pluginSuffix esc p) := by
  unfold pluginSuffix
  split
  · exact OneLine.nil
  · exact ((show OneLine " (".toList by decide).append (h p)).append (by decide)

theorem oneLine_msvsLine (a : Annot) : OneLine (msvsLine a) := by
  unfold msvsLine msvsLineWith
  repeat' (first
    | exact oneLine_oneLine _
    | exact oneLine_itoa _
    | exact oneLine_pluginSuffix oneLine_oneLine _
    | decide
    | apply OneLine.cons (by decide)
    | apply OneLine.append)

theorem oneLine_ghaPos (a : Annot) : OneLine (ghaPos a) := by
  unfold ghaPos
  have lit : ∀ {s : Str} {n : Nat}, OneLine s → OneLine (s ++ itoa n) := fun h => h.append (oneLine_itoa _)
  split
  · exact OneLine.nil
  · refine OneLine.append (OneLine.append (lit (by decide)) ?_) ?_
    · split
      · exact OneLine.nil
      · exact lit (by decide)
    · split
      · exact OneLine.nil
      · refine OneLine.append (lit (by decide)) ?_
        split
        · exact OneLine.nil
        · exact lit (by decide)

theorem oneLine_ghaLine (a : Annot) : OneLine (ghaLine a) := by
  unfold ghaLine ghaLineWith
  repeat' (first
    | exact oneLine_escProp _
    | exact oneLine_escData _
    | exact oneLine_ghaPos _
    | exact oneLine_pluginSuffix oneLine_escData _
    | decide
    | apply OneLine.append)

theorem linesOf_append_nl : ∀ (s rest : Str), (∀ c ∈ s, c ≠ '\n') → linesOf (s ++ '\n' :: rest) = s :: linesOf rest
  | [], rest, _ => by simp [linesOf]
  | c :: cs, rest, h => by
    have hc : c ≠ '\n' := h c List.mem_cons_self
    simp only [List.cons_append, linesOf, if_neg hc]
    rw [linesOf_append_nl cs rest (fun d hd => h d (List.mem_cons_of_mem _ hd))]

/-- if no rendered line contains a line feed, the consumer reads back exactly one line per
    annotation, in order -/
theorem linesOf_printLines (line : Annot → Str) : ∀ (l : List Annot), (∀ a ∈ l, ∀ c ∈ line a, c ≠ '\n') →
    linesOf (printLines line l) = l.map line
  | [], _ => rfl
  | a :: as, h => by
    simp only [printLines, List.flatMap_cons, List.map_cons, List.append_assoc, List.singleton_append]
    rw [linesOf_append_nl _ _ (h a List.mem_cons_self)]
    congr 1
    exact linesOf_printLines line as (fun b hb => h b (List.mem_cons_of_mem _ hb))

/-! ### dedupSort: what survives, uniqueness of the result -/

theorem dedup_noTies (l : List Annot) : NoTies (dedupWith keyNew l []) := by
  refine List.Pairwise.imp ?_ (dedupWith_keys_distinct (key := keyNew) l [])
  intro a b hk he
  apply hk
  rw [keyNew_eq_iff, keyFields_eq_iff]
  have := (compareTo_eq_iff a b).mp he
  simp only [cmpFields, Prod.mk.injEq] at this
  obtain ⟨h1, h2, h3, h4, h5, h6, h7⟩ := this
  exact ⟨by unfold pathOf; rw [h1], h2, h3, h6, h7, h4, h5⟩

theorem mem_dedupSort {l : List Annot} {a : Annot} : a ∈ dedupSort l ↔ a ∈ dedupWith keyNew l [] :=
  (sortS_perm _).mem_iff

theorem dedupSort_subset {l : List Annot} {a : Annot} (h : a ∈ dedupSort l) : a ∈ l :=
  (mem_dedupWith (mem_dedupSort.mp h)).1

theorem dedupSort_ne_nil {l : List Annot} (h : l ≠ []) : dedupSort l ≠ [] := by
  cases l with
  | nil => exact absurd rfl h
  | cons x xs =>
    intro he
    have hx : x ∈ dedupSort (x :: xs) := by
      rw [mem_dedupSort]; simp [dedupWith]
    rw [he] at hx; cases hx

/-- annotations equal on the seven key fields are equal (in practice: the rule ID determines
    the plugin name, and a FileInfo is nil only for path-less annotations) -/
def KeyDet (l : List Annot) : Prop := ∀ a ∈ l, ∀ b ∈ l, keyFields a = keyFields b → a = b

theorem mem_dedup_of_keyDet {l : List Annot} (kd : KeyDet l) {a : Annot} :
    a ∈ dedupWith keyNew l [] ↔ a ∈ l := by
  constructor
  · exact fun h => (mem_dedupWith h).1
  · intro h
    obtain ⟨a', ha', hk⟩ := dedupWith_covers (key := keyNew) l [] a h (by simp)
    have : a' = a := kd a' (mem_dedupWith ha').1 a h (keyNew_inj hk)
    exact this ▸ ha'

theorem dedup_nodup (l : List Annot) : (dedupWith keyNew l []).Nodup := by
  refine List.Pairwise.imp ?_ (dedupWith_keys_distinct (key := keyNew) l [])
  intro a b hk he; exact hk (he ▸ rfl)

theorem perm_of_nodup_of_mem_iff {l1 l2 : List Annot} (n1 : l1.Nodup) (n2 : l2.Nodup)
    (h : ∀ a, a ∈ l1 ↔ a ∈ l2) : l1.Perm l2 := by
  rw [List.perm_iff_count]
  intro a
  rw [n1.count, n2.count]
  by_cases ha : a ∈ l1
  · rw [if_pos ha, if_pos ((h a).mp ha)]
  · rw [if_neg ha, if_neg (fun h2 => ha ((h a).mpr h2))]

theorem dedupSort_perm_eq {l1 l2 : List Annot} (p : l1.Perm l2) (kd : KeyDet l1) :
    dedupSort l1 = dedupSort l2 := by
  have kd2 : KeyDet l2 := fun a ha b hb h => kd a (p.mem_iff.mpr ha) b (p.mem_iff.mpr hb) h
  have pd : (dedupWith keyNew l1 []).Perm (dedupWith keyNew l2 []) :=
    perm_of_nodup_of_mem_iff (dedup_nodup l1) (dedup_nodup l2) (fun a => by
      rw [mem_dedup_of_keyDet kd, mem_dedup_of_keyDet kd2]; exact p.mem_iff)
  have ps : (dedupSort l1).Perm (dedupSort l2) :=
    (sortS_perm _).trans (pd.trans (sortS_perm _).symm)
  refine sorted_unique ps (sortS_sorted _) (sortS_sorted _) ?_
  intro a b ha hb he
  apply kd a (dedupSort_subset ha) b (dedupSort_subset hb)
  rw [keyFields_eq_iff]
  have := (compareTo_eq_iff a b).mp he
  simp only [cmpFields, Prod.mk.injEq] at this
  obtain ⟨h1, h2, h3, h4, h5, h6, h7⟩ := this
  exact ⟨by unfold pathOf; rw [h1], h2, h3, h6, h7, h4, h5⟩

/-! ### exit status: errors, wrapError, GetExitCode -/

theorem findApp_of_noApp : ∀ {e : GoErr}, e.noApp = true → e.findApp = none
  | .annotSet _ _, _ => rfl
  | .importNotExist, _ => rfl
  | .plain _, _ => rfl
  | .wrapf i, h => findApp_of_noApp (e := i) h
  | .app _ _, h => by simp [GoErr.noApp] at h
  | .sys i, h => findApp_of_noApp (e := i) h
  | .connect _ i, h => findApp_of_noApp (e := i) h
  | .join a b, h => by
    simp only [GoErr.noApp, Bool.and_eq_true] at h
    simp [GoErr.findApp, findApp_of_noApp h.1, findApp_of_noApp h.2]

theorem noApp_of_findSys : ∀ {e u : GoErr}, e.findSys = some u → e.noApp = true → u.noApp = true
  | .annotSet _ _, _, h, _ => by simp [GoErr.findSys] at h
  | .importNotExist, _, h, _ => by simp [GoErr.findSys] at h
  | .plain _, _, h, _ => by simp [GoErr.findSys] at h
  | .wrapf i, _, h, hn => noApp_of_findSys (e := i) h hn
  | .app _ _, _, _, hn => by simp [GoErr.noApp] at hn
  | .sys i, u, h, hn => by
    simp only [GoErr.findSys, Option.some.injEq] at h
    subst h; exact hn
  | .connect _ i, _, h, hn => noApp_of_findSys (e := i) h hn
  | .join a b, u, h, hn => by
    simp only [GoErr.noApp, Bool.and_eq_true] at hn
    simp only [GoErr.findSys] at h
    cases ha : a.findSys with
    | some x => rw [ha] at h; simp only [Option.orElse_some, Option.some.injEq] at h; subst h; exact noApp_of_findSys ha hn.1
    | none => rw [ha] at h; simp only [Option.orElse_none] at h; exact noApp_of_findSys h hn.2

theorem sysStrip_noApp {e : GoErr} (h : e.noApp = true) : (sysStrip e).noApp = true := by
  cases hs : e.findSys with
  | none => simp only [sysStrip, hs]; exact h
  | some u => simp only [sysStrip, hs, GoErr.noApp]; exact noApp_of_findSys hs h

/-- an error tree that holds a *connect.Error has a non-empty message -/
theorem text_of_findConnect : ∀ {e : GoErr}, e.findConnect ≠ none → e.text = true
  | .annotSet _ _, _ => rfl
  | .importNotExist, _ => rfl
  | .plain _, h => by simp [GoErr.findConnect] at h
  | .wrapf _, _ => rfl
  | .app _ i, h => text_of_findConnect (e := i) h
  | .sys _, _ => rfl
  | .connect _ _, _ => rfl
  | .join _ _, _ => rfl

/-- … and so does one that holds an ImportNotExistError -/
theorem text_of_hasImport : ∀ {e : GoErr}, e.hasImport = true → e.text = true
  | .annotSet _ _, _ => rfl
  | .importNotExist, _ => rfl
  | .plain _, h => by simp [GoErr.hasImport] at h
  | .wrapf _, _ => rfl
  | .app _ i, h => text_of_hasImport (e := i) h
  | .sys _, _ => rfl
  | .connect _ _, _ => rfl
  | .join _ _, _ => rfl

theorem newAppError_100 (i : GoErr) : newAppError exitCodeFileAnnotation i = .app 100 i := by
  simp [newAppError, exitCodeFileAnnotation]

theorem errFileAnnotation_eq : errFileAnnotation = .app 100 (.plain false) := newAppError_100 _

theorem wrapTail_exit (e : GoErr) (h : e.noApp = true) :
    getExitCode (some (wrapTail e)) = if (sysStrip e).hasImport then 100 else 1 := by
  unfold wrapTail
  simp only [getExitCode, GoErr.findApp]
  split
  · rw [newAppError_100]; rfl
  · rw [findApp_of_noApp (sysStrip_noApp h)]; rfl

/-- THE exit-code mapping of an error that carries no exit code of its own: 100 exactly when
    wrapError takes its import-not-found branch, 1 otherwise. -/
theorem wrapError_exit (e : GoErr) (h : e.noApp = true) :
    getExitCode (wrapError (some e)) = if importBranch e then 100 else 1 := by
  cases hc : e.findConnect with
  | none =>
    cases ht : e.text with
    | true =>
      simp only [wrapError, importBranch, hc, ht, if_true, Bool.true_and]
      exact wrapTail_exit e h
    | false =>
      simp only [wrapError, importBranch, hc, ht, Bool.false_eq_true, if_false, Bool.false_and]
      simp [getExitCode, findApp_of_noApp h]
  | some s =>
    cases s with
    | true => simp [wrapError, importBranch, hc, getExitCode, GoErr.findApp]
    | false =>
      simp only [wrapError, importBranch, hc, Bool.not_false, Bool.true_and]
      exact wrapTail_exit e h

/-- printError prints a "Failure: …" line exactly when the error has a message -/
theorem wrapError_failureLine (e : GoErr) :
    textOf (wrapError (some e)) = e.text := by
  cases hc : e.findConnect with
  | none =>
    cases ht : e.text with
    | true => simp [wrapError, hc, ht, wrapTail, GoErr.text, textOf]
    | false => simp [wrapError, hc, ht, textOf]
  | some s =>
    have ht : e.text = true := text_of_findConnect (by rw [hc]; simp)
    cases s <;> simp [wrapError, hc, wrapTail, GoErr.text, ht, textOf]

theorem errFileAnnotation_facts :
    wrapError (some errFileAnnotation) = some errFileAnnotation ∧
    getExitCode (some errFileAnnotation) = 100 ∧ errFileAnnotation.text = false ∧
    errFileAnnotation.findAnnots = none ∧ importBranch errFileAnnotation = false := by
  rw [errFileAnnotation_eq]; decide

/-- what a `wasmRuntime.Close` error must not be for the verdict to survive the join: a system
    error or a connect error (wrapError would drop the ErrFileAnnotation it is joined with) -/
def CloseBenign (c : Step) : Prop := ∀ e, c = some e → e.findSys = none ∧ e.findConnect = none

/-- annotations were reported and the close error joined: still 100, now with a Failure line -/
theorem join_annotation_exit (c : GoErr) (hs : c.findSys = none) (hc : c.findConnect = none) :
    getExitCode (wrapError (some (.join errFileAnnotation c))) = 100 ∧
    textOf (wrapError (some (.join errFileAnnotation c))) = true := by
  refine ⟨?_, by rw [wrapError_failureLine]; rfl⟩
  have h1 : (GoErr.join errFileAnnotation c).findConnect = none := by
    rw [errFileAnnotation_eq]; simp [GoErr.findConnect, hc]
  have h2 : (GoErr.join errFileAnnotation c).findSys = none := by
    rw [errFileAnnotation_eq]; simp [GoErr.findSys, hs]
  simp only [wrapError, h1, GoErr.text, if_true, wrapTail, sysStrip, h2, getExitCode, GoErr.findApp]
  split
  · rw [newAppError_100]; rfl
  · rw [errFileAnnotation_eq]; rfl

/-- The shapes the result of a command can have before the close error is joined. -/
inductive Shape0 (o : Outcome) : Prop where
  | ok : o.ret = none → o.printed = [] → o.diff = false → Shape0 o
  | reported : o.ret = some errFileAnnotation → (o.printed ≠ [] ∨ o.diff = true) → Shape0 o
  | failed (e : GoErr) : o.ret = some e → e.noApp = true → e.text = true → o.printed = [] →
      o.diff = false → Shape0 o

/-- … and after. -/
inductive Shape (o : Outcome) : Prop where
  | base : Shape0 o → Shape o
  | reportedClose (c : GoErr) : o.ret = some (.join errFileAnnotation c) → c.findSys = none →
      c.findConnect = none → (o.printed ≠ [] ∨ o.diff = true) → Shape o

/-- the hypothesis on the inputs of the step model: an error returned by a step carries no exit
    code of its own and has a message -/
def ErrOK (e : GoErr) : Prop := e.noApp = true ∧ e.text = true

theorem handleFAS_cases (e : GoErr) (h : ErrOK e) :
    ((handleFAS e).1 = errFileAnnotation ∧ (handleFAS e).2 ≠ []) ∨
    ((handleFAS e).1 = e ∧ (handleFAS e).2 = []) := by
  unfold handleFAS
  cases hf : e.findAnnots with
  | none => exact Or.inr ⟨rfl, rfl⟩
  | some p =>
    obtain ⟨hd, tl⟩ := p
    exact Or.inl ⟨rfl, dedupSort_ne_nil (by simp)⟩

theorem failStep_shape (e : GoErr) (h : ErrOK e) : Shape0 (failStep e []) := by
  rcases handleFAS_cases e h with ⟨h1, h2⟩ | ⟨h1, h2⟩
  · exact .reported (by simp [failStep, h1]) (Or.inl (by simpa [failStep] using h2))
  · exact .failed e (by simp [failStep, h1]) h.1 h.2 (by simp [failStep, h2]) rfl

theorem failDirect_shape (e : GoErr) (h : ErrOK e) : Shape0 (failDirect e) :=
  .failed e rfl h.1 h.2 rfl rfl

theorem runSteps_shape : ∀ (steps : List CStep) (o : Outcome),
    (∀ s ∈ steps, ∀ e, s.2 = some e → ErrOK e) → runSteps steps = some o → Shape0 o
  | [], _, _, h => by simp [runSteps] at h
  | (_, none) :: rest, o, hs, h =>
    runSteps_shape rest o (fun s hm => hs s (List.mem_cons_of_mem _ hm)) (by simpa [runSteps] using h)
  | (true, some e) :: _, o, hs, h => by
    simp only [runSteps, Option.some.injEq] at h
    exact h ▸ failStep_shape e (hs _ List.mem_cons_self e rfl)
  | (false, some e) :: _, o, hs, h => by
    simp only [runSteps, Option.some.injEq] at h
    exact h ▸ failDirect_shape e (hs _ List.mem_cons_self e rfl)

theorem checkLoop_shape : ∀ (steps : List Step) (acc : List Annot),
    (∀ s ∈ steps, ∀ e, s = some e → ErrOK e) → Shape0 (checkLoop steps acc)
  | [], acc, _ => by
    simp only [checkLoop]
    split
    · exact .ok rfl rfl rfl
    · rename_i h; exact .reported rfl (Or.inl (dedupSort_ne_nil h))
  | none :: rest, acc, hs => by
    simp only [checkLoop]; exact checkLoop_shape rest acc (fun s hm => hs s (List.mem_cons_of_mem _ hm))
  | some e :: rest, acc, hs => by
    simp only [checkLoop]
    split
    · exact checkLoop_shape rest _ (fun s hm => hs s (List.mem_cons_of_mem _ hm))
    · exact failDirect_shape e (hs _ List.mem_cons_self e rfl)

theorem runSteps_eq_none_iff : ∀ (steps : List CStep), runSteps steps = none ↔ ∀ s ∈ steps, s.2 = none
  | [] => by simp [runSteps]
  | (v, none) :: rest => by simp [runSteps, runSteps_eq_none_iff rest]
  | (true, some e) :: _ => by simp [runSteps]
  | (false, some e) :: _ => by simp [runSteps]

/-- joining the close error keeps the result within the shapes -/
theorem join_shape (o : Outcome) (c : Step) (ho : Shape0 o) (hc : ∀ e, c = some e → ErrOK e)
    (hb : CloseBenign c) : Shape { o with ret := joinErr o.ret c } := by
  cases c with
  | none =>
    have : joinErr o.ret none = o.ret := by cases o.ret <;> rfl
    rw [this]; exact .base ho
  | some ce =>
    have hce := hc ce rfl
    have hbe := hb ce rfl
    cases ho with
    | ok h1 h2 h3 => exact .base (.failed ce (by simp [h1, joinErr]) hce.1 hce.2 h2 h3)
    | reported h1 h2 => exact .reportedClose ce (by simp [h1, joinErr]) hbe.1 hbe.2 h2
    | failed e h1 h2 h3 h4 h5 =>
      exact .base (.failed (.join e ce) (by simp [h1, joinErr]) (by simp [GoErr.noApp, h2, hce.1]) rfl h4 h5)

/-- complete description of the return path of a mode whose performed I/O steps succeed -/
theorem fmtTail_clean (m : FmtMode) (d : Bool) (io : FmtIO) (h : ∀ s ∈ m.ioSteps d io, s = none) :
    fmtTail m d io = (fmtDeferred m d,
      { stdoutDiff := m.diff && d,
        stdoutSource := !m.diff && !m.write && m.out == .stdout,
        rewrote := m.write && d,
        wroteOut := !m.write && m.out == .path }) := by
  rcases m with ⟨md, mw, mo, me⟩
  rcases io with ⟨c, r, o⟩
  cases md <;> cases mw <;> cases mo <;> cases d <;>
    simp_all [fmtTail, FmtMode.ioSteps, FmtEffects.none]

/-- a performed I/O step that fails makes the run fail with that step's error -/
theorem fmtTail_dirty (m : FmtMode) (d : Bool) (io : FmtIO) (h : ¬ ∀ s ∈ m.ioSteps d io, s = none) :
    ∃ e, some e ∈ m.ioSteps d io ∧ (fmtTail m d io).1 = failDirect e := by
  rcases m with ⟨md, mw, mo, me⟩
  rcases io with ⟨c, r, o⟩
  cases md <;> cases mw <;> cases mo <;> cases d <;> cases c <;> cases r <;> cases o <;>
    simp_all [fmtTail, FmtMode.ioSteps, FmtEffects.none]

theorem failStep_diff (e : GoErr) : (failStep e []).diff = false := rfl
theorem failDirect_diff (e : GoErr) : (failDirect e).diff = false := rfl

theorem runSteps_diff : ∀ (steps : List CStep) (o : Outcome), runSteps steps = some o → o.diff = false
  | [], _, h => by simp [runSteps] at h
  | (_, none) :: rest, o, h => runSteps_diff rest o (by simpa [runSteps] using h)
  | (true, some e) :: _, o, h => by
    simp only [runSteps, Option.some.injEq] at h
    exact h ▸ failStep_diff e
  | (false, some e) :: _, o, h => by
    simp only [runSteps, Option.some.injEq] at h
    exact h ▸ failDirect_diff e

theorem fmtDeferred_shape (m : FmtMode) (d : Bool) : Shape0 (fmtDeferred m d) := by
  unfold fmtDeferred
  split
  · exact .reported rfl (Or.inr rfl)
  · exact .ok rfl rfl rfl

theorem mem_ioSteps {m : FmtMode} {d : Bool} {io : FmtIO} {s : Step} (h : s ∈ m.ioSteps d io) :
    s = io.copyDiff ∨ s = io.rewrite ∨ s = io.output := by
  unfold FmtMode.ioSteps at h
  rcases List.mem_append.mp h with h | h
  · split at h
    · exact Or.inl (List.mem_singleton.mp h)
    · cases h
  · split at h
    · cases h
    · split at h
      · split at h
        · exact Or.inr (Or.inl (List.mem_singleton.mp h))
        · cases h
      · exact Or.inr (Or.inr (List.mem_singleton.mp h))

theorem fmtTail_shape (m : FmtMode) (d : Bool) (io : FmtIO)
    (h : ∀ e, (io.copyDiff = some e ∨ io.rewrite = some e ∨ io.output = some e) → ErrOK e) :
    Shape0 (fmtTail m d io).1 := by
  by_cases hio : ∀ s ∈ m.ioSteps d io, s = none
  · rw [fmtTail_clean m d io hio]; exact fmtDeferred_shape m d
  · obtain ⟨e, hm, he⟩ := fmtTail_dirty m d io hio
    rw [he]
    refine failDirect_shape e (h e ?_)
    rcases mem_ioSteps hm with h | h | h
    · exact Or.inl h.symm
    · exact Or.inr (Or.inl h.symm)
    · exact Or.inr (Or.inr h.symm)

theorem formatFull_shape (m : FmtMode) (sw : Bool) (ctl : List CStep) (f : Step) (d : Bool)
    (io : FmtIO) (hc : ∀ s ∈ ctl, ∀ e, s.2 = some e → ErrOK e) (hf : ∀ e, f = some e → ErrOK e)
    (hio : ∀ e, (io.copyDiff = some e ∨ io.rewrite = some e ∨ io.output = some e) → ErrOK e) :
    Shape0 (formatFull m sw ctl f d io).1 := by
  unfold formatFull
  split
  · exact failDirect_shape _ ⟨rfl, rfl⟩
  · split
    · rename_i o h
      refine runSteps_shape _ o ?_ h
      intro s hs e he
      rcases List.mem_append.mp hs with h | h
      · exact hc s h e he
      · rw [List.mem_singleton] at h; subst h; exact hf e he
    · exact fmtTail_shape m d io hio

/-- the run reaches the mode's return path and every I/O step the mode performs succeeds -/
def FmtClean (m : FmtMode) (sw : Bool) (ctl : List CStep) (f : Step) (d : Bool) (io : FmtIO) : Prop :=
  m.valid sw = true ∧ (∀ s ∈ ctl, s.2 = none) ∧ f = none ∧ (∀ s ∈ m.ioSteps d io, s = none)

theorem formatFull_clean {m : FmtMode} {sw : Bool} {ctl : List CStep} {f : Step} {d : Bool} {io : FmtIO}
    (h : FmtClean m sw ctl f d io) :
    formatFull m sw ctl f d io = (fmtDeferred m d,
      { stdoutDiff := m.diff && d,
        stdoutSource := !m.diff && !m.write && m.out == .stdout,
        rewrote := m.write && d,
        wroteOut := !m.write && m.out == .path }) := by
  obtain ⟨hv, hc, hf, hio⟩ := h
  have hr : runSteps (ctl ++ [(false, f)]) = none := by
    rw [runSteps_eq_none_iff]
    intro s hs
    rcases List.mem_append.mp hs with h | h
    · exact hc s h
    · rw [List.mem_singleton] at h; rw [h]; exact hf
  unfold formatFull
  rw [hv, hr]
  simp only [Bool.not_true, Bool.false_eq_true, if_false]
  exact fmtTail_clean m d io hio

/-- the hypotheses of the exit-status theorems: every error a step returns carries no exit code
    of its own and has a message; the `wasmRuntime.Close` error is no system / connect error -/
def StepsOK (c : Cmd) : Prop := (∀ e ∈ c.stepErrs, ErrOK e) ∧ CloseBenign c.closeErr

theorem mem_filterMap_id {l : List Step} {e : GoErr} : e ∈ l.filterMap id ↔ some e ∈ l := by
  simp [List.mem_filterMap]

theorem lintLike_shape (p : List Step) (b : List CStep) (k : List Step) (cl : Step)
    (h : ∀ e, some e ∈ p ++ b.map (·.2) ++ k ++ [cl] → ErrOK e) (hb : CloseBenign cl) :
    Shape (lintLike p b k cl) := by
  unfold lintLike
  split
  · rename_i o ho
    refine .base (runSteps_shape _ o ?_ ho)
    intro s hs e he
    obtain ⟨x, hx, rfl⟩ := List.mem_map.mp hs
    simp only at he
    exact h e (by simp [← he, hx])
  · refine join_shape _ cl ?_ (fun e he => h e (by simp [he])) hb
    split
    · rename_i o ho
      refine runSteps_shape _ o ?_ ho
      intro s hs e he
      exact h e (by
        have : some e ∈ b.map (·.2) := List.mem_map.mpr ⟨s, hs, he⟩
        simp [this])
    · refine checkLoop_shape _ _ ?_
      intro s hs e he
      exact h e (by simp [← he, hs])

theorem run_shape (c : Cmd) (h : StepsOK c) : Shape c.run := by
  obtain ⟨h1, h2⟩ := h
  cases c with
  | lint p b k cl =>
    exact lintLike_shape p b k cl (fun e he => h1 e (mem_filterMap_id.mpr he)) h2
  | breaking p b k cl =>
    exact lintLike_shape p b k cl (fun e he => h1 e (mem_filterMap_id.mpr he)) h2
  | build s =>
    simp only [Cmd.run, build]
    split
    · rename_i o ho
      refine .base (runSteps_shape _ o ?_ ho)
      intro st hs e he
      exact h1 e (mem_filterMap_id.mpr (List.mem_map.mpr ⟨st, hs, he⟩))
    · exact .base (.ok rfl rfl rfl)
  | depGraph s =>
    simp only [Cmd.run, build]
    split
    · rename_i o ho
      refine .base (runSteps_shape _ o ?_ ho)
      intro st hs e he
      exact h1 e (mem_filterMap_id.mpr (List.mem_map.mpr ⟨st, hs, he⟩))
    · exact .base (.ok rfl rfl rfl)
  | lsFiles s =>
    simp only [Cmd.run, build]
    split
    · rename_i o ho
      refine .base (runSteps_shape _ o ?_ ho)
      intro st hs e he
      exact h1 e (mem_filterMap_id.mpr (List.mem_map.mpr ⟨st, hs, he⟩))
    · exact .base (.ok rfl rfl rfl)
  | format m sw ctl f d io =>
    simp only [Cmd.run, format]
    refine .base (formatFull_shape m sw ctl f d io ?_ ?_ ?_)
    · intro s hs e he
      exact h1 e (mem_filterMap_id.mpr (by
        have : some e ∈ ctl.map (·.2) := List.mem_map.mpr ⟨s, hs, he⟩
        simp [this]))
    · intro e he; exact h1 e (mem_filterMap_id.mpr (by simp [he]))
    · intro e he
      refine h1 e (mem_filterMap_id.mpr ?_)
      rcases he with he | he | he <;> simp [he]

/-- the observables of each shape -/
theorem shape_observables {o : Outcome} (h : Shape o) :
    (o.exit = 0 ∧ o.printed = [] ∧ o.failureLine = false ∧ o.diff = false ∧ o.importNotFound = false ∧ o.ret = none) ∨
    (o.exit = 100 ∧ (o.printed ≠ [] ∨ o.diff = true) ∧ ∃ e, o.ret = some e ∧ e.noApp = false) ∨
    (∃ e, o.ret = some e ∧ e.noApp = true ∧ o.exit = (if importBranch e then 100 else 1) ∧
      o.printed = [] ∧ o.failureLine = true ∧ o.diff = false ∧ o.importNotFound = importBranch e) := by
  cases h with
  | base h0 =>
    cases h0 with
    | ok h1 h2 h3 =>
      exact Or.inl ⟨by simp [Outcome.exit, Outcome.err, h1, wrapError, getExitCode], h2,
        by simp [Outcome.failureLine, Outcome.err, h1, wrapError, textOf], h3,
        by simp [Outcome.importNotFound, h1], h1⟩
    | reported h1 h2 =>
      refine Or.inr (Or.inl ⟨?_, h2, _, h1, by rw [errFileAnnotation_eq]; rfl⟩)
      simp only [Outcome.exit, Outcome.err, h1, errFileAnnotation_facts.1, errFileAnnotation_facts.2.1]
    | failed e h1 h2 h3 h4 h5 =>
      refine Or.inr (Or.inr ⟨e, h1, h2, ?_, h4, ?_, h5, by simp [Outcome.importNotFound, h1]⟩)
      · simp only [Outcome.exit, Outcome.err, h1]; exact wrapError_exit e h2
      · simp only [Outcome.failureLine, Outcome.err, h1]; rw [wrapError_failureLine, h3]
  | reportedClose c h1 hs hc h2 =>
    refine Or.inr (Or.inl ⟨?_, h2, _, h1, by rw [errFileAnnotation_eq]; rfl⟩)
    simp only [Outcome.exit, Outcome.err, h1]
    exact (join_annotation_exit c hs hc).1

/-! ### groupAnnotationsByPath: flattening the JUnit suites gives back the list when equal
    displayed paths are adjacent -/

abbrev Groups := List (Str × List Annot)

def gkeys (gs : Groups) : List Str := gs.map (·.1)
def gflat (gs : Groups) : List Annot := gs.flatMap (·.2)
def lastKey (gs : Groups) : Option Str := gs.getLast?.map (·.1)

theorem addToGroups_new (k : Str) (a : Annot) : ∀ gs : Groups, k ∉ gkeys gs →
    addToGroups k a gs = gs ++ [(k, [a])]
  | [], _ => rfl
  | (k', g) :: rest, h => by
    have hne : k' ≠ k := fun e => h (by simp [gkeys, e])
    have hr : k ∉ gkeys rest := fun hm => h (by simp only [gkeys, List.map_cons, List.mem_cons]; exact Or.inr hm)
    simp only [addToGroups, if_neg hne, List.cons_append, addToGroups_new k a rest hr]

theorem addToGroups_last (k : Str) (a : Annot) (g : List Annot) : ∀ gs' : Groups, k ∉ gkeys gs' →
    addToGroups k a (gs' ++ [(k, g)]) = gs' ++ [(k, g ++ [a])]
  | [], _ => by simp [addToGroups]
  | (k', g') :: rest, h => by
    have hne : k' ≠ k := fun e => h (by simp [gkeys, e])
    have hr : k ∉ gkeys rest := fun hm => h (by simp only [gkeys, List.map_cons, List.mem_cons]; exact Or.inr hm)
    simp only [List.cons_append, addToGroups, if_neg hne, addToGroups_last k a g rest hr]

/-- `l` continues a run of equal displayed paths: each element either continues the current
    path or starts one never seen before. -/
def ContigFrom : List Str → Option Str → List Annot → Prop
  | _, _, [] => True
  | seen, cur, a :: rest =>
    (cur = some (dispPath a) ∨ dispPath a ∉ seen) ∧ ContigFrom (seen ++ [dispPath a]) (some (dispPath a)) rest

theorem ContigFrom_congr : ∀ (l : List Annot) (s1 s2 : List Str) (c : Option Str),
    (∀ k, k ∈ s1 ↔ k ∈ s2) → ContigFrom s1 c l → ContigFrom s2 c l
  | [], _, _, _, _, _ => trivial
  | a :: rest, s1, s2, c, hs, h => by
    simp only [ContigFrom] at h ⊢
    refine ⟨h.1.imp id (fun hn hm => hn ((hs _).mpr hm)), ContigFrom_congr rest _ _ _ ?_ h.2⟩
    intro k; simp only [List.mem_append, hs k]

theorem gflat_append (g1 g2 : Groups) : gflat (g1 ++ g2) = gflat g1 ++ gflat g2 := by
  simp [gflat, List.flatMap_append]

theorem group_flat : ∀ (l : List Annot) (gs : Groups), (gkeys gs).Nodup →
    ContigFrom (gkeys gs) (lastKey gs) l →
    gflat (l.foldl (fun gs a => addToGroups (dispPath a) a gs) gs) = gflat gs ++ l
  | [], gs, _, _ => by simp
  | a :: rest, gs, nd, h => by
    simp only [ContigFrom] at h
    simp only [List.foldl_cons]
    rcases h.1 with hc | hn
    · -- continues the last group
      rcases List.eq_nil_or_concat gs with rfl | ⟨gs', ⟨k, g⟩, rfl⟩
      · simp [lastKey] at hc
      · simp only [List.concat_eq_append] at *
        have hk : k = dispPath a := by simpa [lastKey] using hc
        subst hk
        have hnot : dispPath a ∉ gkeys gs' := by
          have : (gkeys gs' ++ [dispPath a]).Nodup := by simpa [gkeys] using nd
          rw [List.nodup_append] at this
          intro hm
          exact this.2.2 _ hm _ (List.mem_singleton.mpr rfl) rfl
        rw [addToGroups_last _ _ _ _ hnot]
        rw [group_flat rest]
        · simp [gflat]
        · simpa [gkeys] using nd
        · refine ContigFrom_congr rest _ _ _ ?_ (by simpa [lastKey] using h.2)
          intro k'; simp [gkeys]
    · rw [addToGroups_new _ _ _ hn]
      rw [group_flat rest]
      · simp [gflat]
      · have : gkeys (gs ++ [(dispPath a, [a])]) = gkeys gs ++ [dispPath a] := by simp [gkeys]
        rw [this, List.nodup_append]
        refine ⟨nd, by simp, ?_⟩
        intro x hx y hy e
        rw [List.mem_singleton] at hy
        exact hn (hy ▸ e ▸ hx)
      · have : gkeys (gs ++ [(dispPath a, [a])]) = gkeys gs ++ [dispPath a] := by simp [gkeys]
        rw [this]
        simpa [lastKey] using h.2

theorem groupByPath_flat {l : List Annot} (h : ContigFrom [] none l) : gflat (groupByPath l) = l := by
  have := group_flat l [] (by simp [gkeys]) (by simpa [gkeys, lastKey] using h)
  simpa [groupByPath, gflat] using this

/-- every member of a group shows the group's path -/
def GroupsOK (gs : Groups) : Prop := ∀ kg ∈ gs, ∀ a ∈ kg.2, dispPath a = kg.1

theorem addToGroups_ok (a : Annot) : ∀ gs : Groups, GroupsOK gs → GroupsOK (addToGroups (dispPath a) a gs)
  | [], _ => by
    intro kg hkg b hb
    simp only [addToGroups, List.mem_singleton] at hkg
    subst hkg
    simp only [List.mem_singleton] at hb
    rw [hb]
  | (k', g) :: rest, h => by
    simp only [addToGroups]
    split
    · rename_i he
      intro kg hkg b hb
      rcases List.mem_cons.mp hkg with rfl | hm
      · rcases List.mem_append.mp hb with hb | hb
        · exact h (k', g) List.mem_cons_self b hb
        · rw [List.mem_singleton.mp hb]; exact he.symm
      · exact h kg (List.mem_cons_of_mem _ hm) b hb
    · intro kg hkg b hb
      rcases List.mem_cons.mp hkg with rfl | hm
      · exact h (k', g) List.mem_cons_self b hb
      · exact addToGroups_ok a rest (fun kg hkg => h kg (List.mem_cons_of_mem _ hkg)) kg hm b hb

theorem foldl_groups_ok : ∀ (l : List Annot) (gs : Groups), GroupsOK gs →
    GroupsOK (l.foldl (fun gs a => addToGroups (dispPath a) a gs) gs)
  | [], _, h => h
  | a :: rest, gs, h => foldl_groups_ok rest _ (addToGroups_ok a gs h)

theorem groupByPath_ok (l : List Annot) : GroupsOK (groupByPath l) :=
  foldl_groups_ok l [] (by intro kg hkg; cases hkg)

theorem junit_items_eq : ∀ (gs : Groups), GroupsOK gs →
    (gs.map fun kg => ({ name := trimProto kg.1, tests := kg.2.length, cases := kg.2.map junitCase } : JSuite)).flatMap
      (fun s => s.cases.map (Rendered.junit s.name)) = (gflat gs).map (render .junit)
  | [], _ => rfl
  | (k, g) :: rest, h => by
    simp only [List.map_cons, List.flatMap_cons, gflat, List.map_append]
    rw [show List.flatMap (fun x => x.2) rest = gflat rest from rfl,
      ← junit_items_eq rest (fun kg hkg => h kg (List.mem_cons_of_mem _ hkg))]
    congr 1
    simp only [List.map_map]
    apply List.map_congr_left
    intro a ha
    simp only [Function.comp, render]
    rw [h (k, g) List.mem_cons_self a ha]

/-- different FileInfos are displayed differently (fails only if a file is literally named
    "<input>" and a path-less annotation is present as well) -/
def DispInj (l : List Annot) : Prop := ∀ a ∈ l, ∀ b ∈ l, dispPath a = dispPath b → a.file = b.file

theorem LE_file {a b : Annot} (h : LE a b) : cmpFile a.file b.file ≠ .gt := by
  intro hg; apply h; simp [compareTo, hg, Ordering.then]

theorem cmpFile_antisymm {x y : Option Str} (h1 : cmpFile x y ≠ .gt) (h2 : cmpFile y x ≠ .gt) : x = y := by
  have hs := cmpFile_law.swap x y
  cases h : cmpFile x y with
  | eq => exact (cmpFile_eq_iff x y).mp h
  | gt => exact absurd h h1
  | lt => rw [h] at hs; exact absurd hs h2

theorem contig_of_sorted : ∀ (l pre : List Annot), (pre ++ l).Pairwise LE → DispInj (pre ++ l) →
    ContigFrom (pre.map dispPath) (pre.getLast?.map dispPath) l
  | [], _, _, _ => trivial
  | a :: rest, pre, hs, hi => by
    simp only [ContigFrom]
    constructor
    · by_cases hm : dispPath a ∈ pre.map dispPath
      · left
        obtain ⟨e, he, hde⟩ := List.mem_map.mp hm
        have hfile : e.file = a.file :=
          hi e (List.mem_append_left _ he) a (List.mem_append_right _ List.mem_cons_self) hde
        rcases List.eq_nil_or_concat pre with rfl | ⟨pre', x, rfl⟩
        · cases he
        · simp only [List.concat_eq_append] at *
          simp only [List.getLast?_append, List.getLast?_singleton, Option.some_or, Option.map_some]
          congr 1
          have hxa : LE x a := by
            rw [List.pairwise_append] at hs
            exact hs.2.2 x (by simp) a List.mem_cons_self
          have hex : cmpFile e.file x.file ≠ .gt := by
            rcases List.mem_append.mp he with h | h
            · rw [List.pairwise_append] at hs
              have hp := hs.1
              rw [List.pairwise_append] at hp
              exact LE_file (hp.2.2 e h x (by simp))
            · rw [List.mem_singleton.mp h, cmpFile_law.refl]; simp
          have : x.file = a.file := cmpFile_antisymm (LE_file hxa) (hfile ▸ hex)
          unfold dispPath; rw [this]
      · exact Or.inr hm
    · have := contig_of_sorted rest (pre ++ [a]) (by simpa using hs) (by simpa using hi)
      simpa using this

theorem sorted_contig {l : List Annot} (hs : l.Pairwise LE) (hi : DispInj l) : ContigFrom [] none l := by
  simpa using contig_of_sorted l [] (by simpa using hs) (by simpa using hi)

/-- an escaped property value contains no ',' and no ':' — the value ends where the next
    `,key=` or the `::` begins -/
theorem escProp_no_sep (s : Str) : ∀ c ∈ escProp s, c ≠ ',' ∧ c ≠ ':' := by
  intro c hc
  simp only [escProp, List.mem_flatMap] at hc
  obtain ⟨d, _, hd⟩ := hc
  split at hd
  · revert c; decide
  · split at hd
    · revert c; decide
    · split at hd
      · revert c; decide
      · split at hd
        · revert c; decide
        · split at hd
          · revert c; decide
          · rename_i h1 h2 h3 h4 h5
            simp only [List.mem_singleton] at hd
            subst hd; exact ⟨h5, h4⟩

/-! ### decoders: the primitive readers -/

theorem cutAt_append (sep : Char) : ∀ (p r : Str), (∀ c ∈ p, c ≠ sep) → cutAt sep (p ++ sep :: r) = some (p, r)
  | [], r, _ => by simp [cutAt]
  | c :: cs, r, h => by
    have hc : c ≠ sep := h c List.mem_cons_self
    simp only [List.cons_append, cutAt, if_neg hc,
      cutAt_append sep cs r (fun d hd => h d (List.mem_cons_of_mem _ hd)), Option.map_some]

/-- what `cutAt` returns in front never contains the separator, and the pieces give back the input -/
theorem cutAt_spec (sep : Char) : ∀ (s a b : Str), cutAt sep s = some (a, b) →
    (∀ c ∈ a, c ≠ sep) ∧ s = a ++ sep :: b
  | [], _, _, h => by simp [cutAt] at h
  | c :: cs, a, b, h => by
    simp only [cutAt] at h
    split at h
    · rename_i hc
      simp only [Option.some.injEq, Prod.mk.injEq] at h
      obtain ⟨rfl, rfl⟩ := h
      exact ⟨by simp, by simp [hc]⟩
    · rename_i hc
      cases hr : cutAt sep cs with
      | none => rw [hr] at h; simp at h
      | some ab =>
        rw [hr] at h
        simp only [Option.map_some, Option.some.injEq, Prod.mk.injEq] at h
        obtain ⟨rfl, rfl⟩ := h
        obtain ⟨h1, h2⟩ := cutAt_spec sep cs ab.1 ab.2 hr
        refine ⟨?_, by rw [h2]; simp⟩
        intro d hd
        rcases List.mem_cons.mp hd with rfl | hd
        · exact hc
        · exact h1 d hd

theorem dropPrefix_append : ∀ (p r : Str), dropPrefix p (p ++ r) = some r
  | [], r => by cases r <;> rfl
  | c :: cs, r => by simp [dropPrefix, dropPrefix_append cs r]

theorem dropPrefix_spec : ∀ (p s r : Str), dropPrefix p s = some r → s = p ++ r
  | [], s, r, h => by
    cases s <;> simp [dropPrefix] at h <;> simp [h]
  | c :: cs, [], r, h => by simp [dropPrefix] at h
  | c :: cs, d :: ds, r, h => by
    simp only [dropPrefix] at h
    split at h
    · rename_i hcd
      rw [hcd, dropPrefix_spec cs ds r h]; rfl
    · cases h

/-- the rest does not start with a digit -/
def NoDigitHead (r : Str) : Prop := ∀ c t, r = c :: t → c.isDigit = false

theorem noDigitHead_nil : NoDigitHead [] := by intro c t h; cases h
theorem noDigitHead_cons {c : Char} {t : Str} (h : c.isDigit = false) : NoDigitHead (c :: t) := by
  intro d u e; cases e; exact h

theorem itoa_ne_nil (n : Nat) : itoa n ≠ [] := by
  intro h
  have : n = 0 := by
    have := @Nat.ofDigitChars_ten_toDigits n
    unfold itoa at h; rw [h] at this; simpa [Nat.ofDigitChars] using this.symm
  subst this; revert h; decide

theorem takeWhile_noDigitHead {r : Str} (h : NoDigitHead r) : r.takeWhile Char.isDigit = [] := by
  cases r with
  | nil => rfl
  | cons c t => simp [List.takeWhile, h c t rfl]

theorem dropWhile_noDigitHead {r : Str} (h : NoDigitHead r) : r.dropWhile Char.isDigit = r := by
  cases r with
  | nil => rfl
  | cons c t => simp [List.dropWhile, h c t rfl]

theorem readNat_itoa (n : Nat) (r : Str) (h : NoDigitHead r) : readNat (itoa n ++ r) = some (n, r) := by
  have hd : ∀ c ∈ itoa n, c.isDigit = true := fun c hc => itoa_digit hc
  unfold readNat
  simp only [List.takeWhile_append_of_pos hd, List.dropWhile_append_of_pos hd, takeWhile_noDigitHead h,
    dropWhile_noDigitHead h, List.append_nil, if_neg (itoa_ne_nil n)]
  unfold itoa; rw [Nat.ofDigitChars_ten_toDigits]

theorem readNat_itoa_colon (n : Nat) (t : Str) : readNat (itoa n ++ ':' :: t) = some (n, ':' :: t) :=
  readNat_itoa n _ (noDigitHead_cons (by decide))
theorem readNat_itoa_comma (n : Nat) (t : Str) : readNat (itoa n ++ ',' :: t) = some (n, ',' :: t) :=
  readNat_itoa n _ (noDigitHead_cons (by decide))
theorem readNat_itoa_paren (n : Nat) (t : Str) : readNat (itoa n ++ ')' :: t) = some (n, ')' :: t) :=
  readNat_itoa n _ (noDigitHead_cons (by decide))
theorem readNat_itoa_under (n : Nat) (t : Str) : readNat (itoa n ++ '_' :: t) = some (n, '_' :: t) :=
  readNat_itoa n _ (noDigitHead_cons (by decide))
theorem readNat_itoa_end (n : Nat) : readNat (itoa n) = some (n, []) := by
  have := readNat_itoa n [] noDigitHead_nil
  simpa using this

/-! ### text -/

/-- the text decoder inverts the text printer when the displayed path has no ':' -/
theorem parseTextLine_textLine (a : Annot) (h : ∀ c ∈ dispPath a, c ≠ ':') :
    parseTextLine (textLine a) = some (textF a) := by
  have e : textLine a = dispPath a ++ ':' :: (itoa (atLeast1 a.sl) ++ ':' :: (itoa (atLeast1 a.sc) ++
      ':' :: withPlugin (shownMsg a) a.plugin)) := by
    simp [textLine, withPlugin, List.append_assoc]
  rw [e]
  simp only [parseTextLine, cutAt_append ':' _ _ h, readNat_itoa_colon, Option.bind_eq_bind, Option.bind_some,
    dropPrefix, if_true]
  rfl

/-- … and ONLY then: whatever the text decoder returns as path has no ':' -/
theorem parseTextLine_path {s : Str} {t : TextF} (h : parseTextLine s = some t) : ∀ c ∈ t.path, c ≠ ':' := by
  unfold parseTextLine at h
  cases hc : cutAt ':' s with
  | none => rw [hc] at h; simp at h
  | some pr =>
    obtain ⟨p, r⟩ := pr
    rw [hc] at h
    have hp := (cutAt_spec ':' s p r hc).1
    simp only [Option.bind_eq_bind, Option.bind_some] at h
    cases h1 : readNat r with
    | none => rw [h1] at h; simp at h
    | some lr =>
      rw [h1] at h
      simp only [Option.bind_some] at h
      cases h2 : dropPrefix [':'] lr.2 with
      | none => rw [h2] at h; simp at h
      | some r2 =>
        rw [h2] at h
        simp only [Option.bind_some] at h
        cases h3 : readNat r2 with
        | none => rw [h3] at h; simp at h
        | some cr =>
          rw [h3] at h
          simp only [Option.bind_some] at h
          cases h4 : dropPrefix [':'] cr.2 with
          | none => rw [h4] at h; simp at h
          | some r4 =>
            rw [h4] at h
            simp only [Option.bind_some, Option.pure_def, Option.some.injEq] at h
            rw [← h]; exact hp

/-! ### msvs -/

theorem oneLine_append (s t : Str) : oneLine (s ++ t) = oneLine s ++ oneLine t := by
  simp [oneLine]

theorem oneLine_id {s : Str} (h : ∀ c ∈ s, c ≠ '\n' ∧ c ≠ '\r') : oneLine s = s := by
  unfold oneLine
  conv => rhs; rw [← List.map_id s]
  apply List.map_congr_left
  intro c hc
  have := h c hc
  simp [this.1, this.2]

theorem pluginSuffix_oneLine_eq (p : Str) : pluginSuffix oneLine p = oneLine (pluginSuffix id p) := by
  unfold pluginSuffix
  split
  · rfl
  · simp only [id, oneLine_append]
    rw [oneLine_id (s := " (".toList) (by decide), oneLine_id (s := [')']) (by decide)]

theorem mem_oneLine_ne {x : Char} (hx : x ≠ ' ') {s : Str} (h : ∀ c ∈ s, c ≠ x) : ∀ c ∈ oneLine s, c ≠ x := by
  intro c hc
  simp only [oneLine, List.mem_map] at hc
  obtain ⟨d, hd, rfl⟩ := hc
  split
  · exact fun e => hx e.symm
  · exact h d hd

theorem getLast?_concat' (s : Str) (c : Char) : (s ++ [c]).getLast? = some c := by simp

/-- the msvs decoder inverts the msvs printer when the displayed path has no '(' and the shown
    type no ':' -/
theorem parseMsvsLine_msvsLine (a : Annot) (hp : ∀ c ∈ dispPath a, c ≠ '(')
    (ht : ∀ c ∈ shownType a, c ≠ ':') : parseMsvsLine (msvsLine a) = some (msvsF a) := by
  have e : msvsLine a = oneLine (dispPath a) ++ '(' :: (itoa (atLeast1 a.sl) ++ ',' :: (itoa (atLeast1 a.sc) ++
      (") : error ".toList ++ ((oneLine (shownType a) ++ [' ']) ++ ':' :: (' ' ::
        oneLine (withPlugin (shownMsg a) a.plugin)))))) := by
    simp [msvsLine, msvsLineWith, withPlugin, oneLine_append, pluginSuffix_oneLine_eq, List.append_assoc]
  have hty : ∀ c ∈ oneLine (shownType a) ++ [' '], c ≠ ':' := by
    intro c hc
    rcases List.mem_append.mp hc with h | h
    · exact mem_oneLine_ne (by decide) ht c h
    · rw [List.mem_singleton.mp h]; decide
  rw [e]
  simp only [parseMsvsLine, cutAt_append '(' _ _ (mem_oneLine_ne (by decide) hp), readNat_itoa_comma,
    Option.bind_eq_bind, Option.bind_some, dropPrefix, if_true]
  rw [show ") : error ".toList ++ ((oneLine (shownType a) ++ [' ']) ++ ':' :: (' ' :: oneLine (withPlugin (shownMsg a) a.plugin)))
      = ')' :: (" : error ".toList ++ ((oneLine (shownType a) ++ [' ']) ++ ':' :: (' ' :: oneLine (withPlugin (shownMsg a) a.plugin)))) from rfl,
    readNat_itoa_paren]
  simp only [Option.bind_some]
  rw [show ')' :: (" : error ".toList ++ ((oneLine (shownType a) ++ [' ']) ++ ':' :: (' ' :: oneLine (withPlugin (shownMsg a) a.plugin))))
      = ") : error ".toList ++ ((oneLine (shownType a) ++ [' ']) ++ ':' :: (' ' :: oneLine (withPlugin (shownMsg a) a.plugin))) from rfl,
    dropPrefix_append]
  simp only [Option.bind_some, cutAt_append ':' _ _ hty, dropTrailingSpace, getLast?_concat', if_true,
    List.dropLast_concat, dropPrefix]
  rfl

theorem parseMsvsLine_fields {s : Str} {m : MsvsF} (h : parseMsvsLine s = some m) :
    (∀ c ∈ m.path, c ≠ '(') ∧ (∀ c ∈ m.type, c ≠ ':') := by
  unfold parseMsvsLine at h
  cases hc : cutAt '(' s with
  | none => rw [hc] at h; simp at h
  | some pr =>
    obtain ⟨p, r⟩ := pr
    rw [hc] at h
    have hp := (cutAt_spec '(' s p r hc).1
    simp only [Option.bind_eq_bind, Option.bind_some] at h
    cases h1 : readNat r with
    | none => rw [h1] at h; simp at h
    | some lr =>
      rw [h1] at h; simp only [Option.bind_some] at h
      cases h2 : dropPrefix [','] lr.2 with
      | none => rw [h2] at h; simp at h
      | some r2 =>
        rw [h2] at h; simp only [Option.bind_some] at h
        cases h3 : readNat r2 with
        | none => rw [h3] at h; simp at h
        | some cr =>
          rw [h3] at h; simp only [Option.bind_some] at h
          cases h4 : dropPrefix ") : error ".toList cr.2 with
          | none => rw [h4] at h; simp at h
          | some r4 =>
            rw [h4] at h; simp only [Option.bind_some] at h
            cases h5 : cutAt ':' r4 with
            | none => rw [h5] at h; simp at h
            | some tr =>
              obtain ⟨t, r5⟩ := tr
              rw [h5] at h; simp only [Option.bind_some] at h
              have htt := (cutAt_spec ':' r4 t r5 h5).1
              cases h6 : dropTrailingSpace t with
              | none => rw [h6] at h; simp at h
              | some t' =>
                rw [h6] at h; simp only [Option.bind_some] at h
                cases h7 : dropPrefix [' '] r5 with
                | none => rw [h7] at h; simp at h
                | some r7 =>
                  rw [h7] at h
                  simp only [Option.bind_some, Option.pure_def, Option.some.injEq] at h
                  rw [← h]
                  refine ⟨hp, ?_⟩
                  unfold dropTrailingSpace at h6
                  split at h6
                  · simp only [Option.some.injEq] at h6
                    rw [← h6]
                    intro c hc
                    exact htt c (List.dropLast_subset _ hc)
                  · cases h6

/-! ### github-actions -/

def escPropChar (c : Char) : Str :=
  if c = '%' then "%25".toList else if c = '\r' then "%0D".toList
  else if c = '\n' then "%0A".toList else if c = ':' then "%3A".toList
  else if c = ',' then "%2C".toList else [c]

def escDataChar (c : Char) : Str :=
  if c = '%' then "%25".toList else if c = '\r' then "%0D".toList
  else if c = '\n' then "%0A".toList else [c]

theorem escProp_cons (c : Char) (t : Str) : escProp (c :: t) = escPropChar c ++ escProp t := by
  simp only [escProp, List.flatMap_cons, escPropChar]

theorem escData_cons (c : Char) (t : Str) : escData (c :: t) = escDataChar c ++ escData t := by
  simp only [escData, List.flatMap_cons, escDataChar]

theorem escData_append (s t : Str) : escData (s ++ t) = escData s ++ escData t := by
  simp [escData, List.flatMap_append]

theorem unescAux_plain (dec : Char → Char → Option Char) {c : Char} (h : c ≠ '%') (t : Str) :
    unescAux dec 0 (c :: t) = c :: unescAux dec 0 t := by
  simp [unescAux, h]

/-- the runner's unescape undoes escapeProperty -/
theorem unescProp_escProp : ∀ s : Str, unescProp (escProp s) = s
  | [] => by simp [escProp, unescProp, unescAux]
  | c :: t => by
    have ih := unescProp_escProp t
    unfold unescProp at ih ⊢
    rw [escProp_cons]
    by_cases h1 : c = '%'
    · subst h1; simp [escPropChar, unescAux, decProp, ih]
    · by_cases h2 : c = '\r'
      · subst h2; simp [escPropChar, unescAux, decProp, ih]
      · by_cases h3 : c = '\n'
        · subst h3; simp [escPropChar, unescAux, decProp, ih]
        · by_cases h4 : c = ':'
          · subst h4; simp [escPropChar, unescAux, decProp, ih]
          · by_cases h5 : c = ','
            · subst h5; simp [escPropChar, unescAux, decProp, ih]
            · simp only [escPropChar, if_neg h1, if_neg h2, if_neg h3, if_neg h4, if_neg h5, List.singleton_append]
              rw [unescAux_plain _ h1, ih]

/-- the runner's unescape undoes escapeData -/
theorem unescData_escData : ∀ s : Str, unescData (escData s) = s
  | [] => by simp [escData, unescData, unescAux]
  | c :: t => by
    have ih := unescData_escData t
    unfold unescData at ih ⊢
    rw [escData_cons]
    by_cases h1 : c = '%'
    · subst h1; simp [escDataChar, unescAux, decData, ih]
    · by_cases h2 : c = '\r'
      · subst h2; simp [escDataChar, unescAux, decData, ih]
      · by_cases h3 : c = '\n'
        · subst h3; simp [escDataChar, unescAux, decData, ih]
        · simp only [escDataChar, if_neg h1, if_neg h2, if_neg h3, List.singleton_append]
          rw [unescAux_plain _ h1, ih]

theorem escData_pluginSuffix (p : Str) : pluginSuffix escData p = escData (pluginSuffix id p) := by
  unfold pluginSuffix
  split
  · rfl
  · simp only [id, escData_append]
    rw [show escData " (".toList = " (".toList from by decide, show escData [')'] = [')'] from by decide]

theorem optKey_hit (key : Str) (n : Nat) (r : Str) (h : NoDigitHead r) :
    optKey key (key ++ (itoa n ++ r)) = some (n, r) := by
  simp only [optKey, dropPrefix_append, readNat_itoa n r h]

theorem optKey_miss (key r : Str) (h : dropPrefix key r = none) : optKey key r = some (0, r) := by
  simp only [optKey, h]

theorem dropPrefix_head_ne {c d : Char} (h : c ≠ d) (ps t : Str) : dropPrefix (c :: ps) (d :: t) = none := by
  simp [dropPrefix, h]

/-- the keys, as cons cells -/
theorem kLine : ",line=".toList = ',' :: "line=".toList := rfl
theorem kCol : ",col=".toList = ',' :: "col=".toList := rfl
theorem kEndLine : ",endLine=".toList = ',' :: "endLine=".toList := rfl
theorem kEndCol : ",endColumn=".toList = ',' :: "endColumn=".toList := rfl

theorem miss_colon (key : Str) (hk : ∃ ps, key = ',' :: ps) (t : Str) : optKey key (':' :: t) = some (0, ':' :: t) := by
  obtain ⟨ps, rfl⟩ := hk
  exact optKey_miss _ _ (dropPrefix_head_ne (by decide) _ _)

theorem miss_col_endLine (t : Str) : optKey ",col=".toList (",endLine=".toList ++ t) = some (0, ",endLine=".toList ++ t) :=
  optKey_miss _ _ (by simp [dropPrefix])

theorem ndh_key (key : Str) (hk : ∃ ps, key = ',' :: ps) (t : Str) : NoDigitHead (key ++ t) := by
  obtain ⟨ps, rfl⟩ := hk
  exact noDigitHead_cons (by decide)

theorem ndh_colon (t : Str) : NoDigitHead (':' :: t) := noDigitHead_cons (by decide)

theorem takeWhile_stop (P : Char → Bool) (s : Str) (c : Char) (t : Str) (hs : ∀ x ∈ s, P x = true) (hc : P c = false) :
    (s ++ c :: t).takeWhile P = s ∧ (s ++ c :: t).dropWhile P = c :: t := by
  rw [List.takeWhile_append_of_pos hs, List.dropWhile_append_of_pos hs]
  simp [List.takeWhile, List.dropWhile, hc]

theorem parseGhaLine_ghaLine (a : Annot) : parseGhaLine (ghaLine a) = some (ghaF a) := by
  have hsep : ∀ x ∈ escProp (dispPath a), (x != ',' && x != ':') = true := by
    intro x hx
    have := escProp_no_sep _ x hx
    simp [this.1, this.2]
  have hdata : escData a.msg ++ pluginSuffix escData a.plugin = escData (withPlugin a.msg a.plugin) := by
    rw [escData_pluginSuffix, withPlugin, escData_append]
  have e : ghaLine a = "::error file=".toList ++ (escProp (dispPath a) ++ (ghaPos a ++ (':' :: ':' ::
      escData (withPlugin a.msg a.plugin)))) := by
    rw [← hdata]
    unfold ghaLine ghaLineWith
    simp only [List.append_assoc]
    rfl
  rw [e]
  simp only [parseGhaLine, dropPrefix_append, Option.bind_eq_bind, Option.bind_some]
  by_cases h1 : a.sl = 0
  · have hp : ghaPos a = [] := by simp [ghaPos, h1]
    rw [hp, List.nil_append]
    obtain ⟨t1, t2⟩ := takeWhile_stop (fun c => c != ',' && c != ':') (escProp (dispPath a)) ':' (':' :: escData (withPlugin a.msg a.plugin)) hsep (by decide)
    rw [t1, t2]
    simp only [miss_colon _ ⟨_, kLine⟩, miss_colon _ ⟨_, kCol⟩, miss_colon _ ⟨_, kEndLine⟩, miss_colon _ ⟨_, kEndCol⟩, Option.bind_some]
    simp [dropPrefix, ghaF, h1, unescProp_escProp, unescData_escData]
  · -- the tail after the optional properties
    generalize hD : (':' :: ':' :: escData (withPlugin a.msg a.plugin)) = D
    have hDn : NoDigitHead D := by rw [← hD]; exact ndh_colon _
    have hfin : ∀ (l c el ec : Nat), (dropPrefix "::".toList D).bind (fun r => some
        ({ path := unescProp (escProp (dispPath a)), line := l, col := c, endLine := el, endCol := ec, msg := unescData r } : GhaF))
        = some { path := dispPath a, line := l, col := c, endLine := el, endCol := ec, msg := withPlugin a.msg a.plugin } := by
      intro l c el ec
      rw [← hD]
      simp [dropPrefix, unescProp_escProp, unescData_escData]
    -- end column
    have hEC : ∀ (X : Str), X = (if a.ec = 0 then [] else ",endColumn=".toList ++ itoa a.ec) →
        optKey ",endColumn=".toList (X ++ D) = some (a.ec, D) := by
      intro X hX
      by_cases h4 : a.ec = 0
      · rw [hX, if_pos h4, h4, List.nil_append, ← hD]; exact miss_colon _ ⟨_, kEndCol⟩ _
      · rw [hX, if_neg h4, List.append_assoc]; exact optKey_hit _ _ _ hDn
    have hE : ∀ (Y : Str), Y = (if a.el = 0 then [] else ",endLine=".toList ++ itoa a.el ++
          (if a.ec = 0 then [] else ",endColumn=".toList ++ itoa a.ec)) →
        ((optKey ",endLine=".toList (Y ++ D)).bind fun x => (optKey ",endColumn=".toList x.2).bind fun y =>
          some (x.1, y.1, y.2)) = some (a.el, (if a.el = 0 then 0 else a.ec), D) := by
      intro Y hY
      by_cases h3 : a.el = 0
      · rw [hY, if_pos h3, h3, List.nil_append, ← hD]
        simp only [miss_colon _ ⟨_, kEndLine⟩, miss_colon _ ⟨_, kEndCol⟩, Option.bind_some, if_true]
      · rw [hY, if_neg h3, List.append_assoc, List.append_assoc]
        have hnd : NoDigitHead ((if a.ec = 0 then [] else ",endColumn=".toList ++ itoa a.ec) ++ D) := by
          by_cases h4 : a.ec = 0
          · rw [if_pos h4, List.nil_append]; exact hDn
          · rw [if_neg h4, List.append_assoc]; exact ndh_key _ ⟨_, kEndCol⟩ _
        rw [optKey_hit _ _ _ hnd]
        simp only [Option.bind_some, hEC _ rfl, if_neg h3]
    -- the end part, seen from the column key
    generalize hEdef : (if a.el = 0 then [] else ",endLine=".toList ++ itoa a.el ++
          (if a.ec = 0 then [] else ",endColumn=".toList ++ itoa a.ec)) = E at hE
    have hEnd : NoDigitHead (E ++ D) := by
      by_cases h3 : a.el = 0
      · rw [← hEdef, if_pos h3, List.nil_append]; exact hDn
      · rw [← hEdef, if_neg h3, List.append_assoc, List.append_assoc]; exact ndh_key _ ⟨_, kEndLine⟩ _
    have hColMiss : optKey ",col=".toList (E ++ D) = some (0, E ++ D) := by
      by_cases h3 : a.el = 0
      · rw [← hEdef, if_pos h3, List.nil_append, ← hD]; exact miss_colon _ ⟨_, kCol⟩ _
      · rw [← hEdef, if_neg h3, List.append_assoc, List.append_assoc]; exact miss_col_endLine _
    have hC : ∀ (X : Str), X = (if a.sc = 0 then [] else ",col=".toList ++ itoa a.sc) →
        optKey ",col=".toList (X ++ (E ++ D)) = some (a.sc, E ++ D) ∧ NoDigitHead (X ++ (E ++ D)) := by
      intro X hX
      by_cases h2 : a.sc = 0
      · rw [hX, if_pos h2, h2, List.nil_append]; exact ⟨hColMiss, hEnd⟩
      · rw [hX, if_neg h2, List.append_assoc]; exact ⟨optKey_hit _ _ _ hEnd, ndh_key _ ⟨_, kCol⟩ _⟩
    have hpos : ghaPos a ++ D = ',' :: ("line=".toList ++ (itoa a.sl ++
        ((if a.sc = 0 then [] else ",col=".toList ++ itoa a.sc) ++ (E ++ D)))) := by
      rw [← hEdef]
      simp only [ghaPos, if_neg h1, List.append_assoc]
      rfl
    rw [hpos]
    obtain ⟨t1, t2⟩ := takeWhile_stop (fun c => c != ',' && c != ':') (escProp (dispPath a)) ','
      ("line=".toList ++ (itoa a.sl ++ ((if a.sc = 0 then [] else ",col=".toList ++ itoa a.sc) ++ (E ++ D)))) hsep (by decide)
    rw [t1, t2]
    rw [show ',' :: ("line=".toList ++ (itoa a.sl ++ ((if a.sc = 0 then [] else ",col=".toList ++ itoa a.sc) ++ (E ++ D))))
        = ",line=".toList ++ (itoa a.sl ++ ((if a.sc = 0 then [] else ",col=".toList ++ itoa a.sc) ++ (E ++ D))) from rfl,
      optKey_hit _ _ _ (hC _ rfl).2]
    simp only [Option.bind_some, (hC _ rfl).1]
    have := hE E rfl
    cases hk : optKey ",endLine=".toList (E ++ D) with
    | none => rw [hk] at this; simp at this
    | some x =>
      rw [hk] at this
      simp only [Option.bind_some] at this ⊢
      cases hk2 : optKey ",endColumn=".toList x.2 with
      | none => rw [hk2] at this; simp at this
      | some y =>
        rw [hk2] at this
        simp only [Option.bind_some, Option.some.injEq, Prod.mk.injEq] at this ⊢
        obtain ⟨e1, e2, e3⟩ := this
        rw [e3, hfin, e1, e2]
        simp [ghaF, h1]

/-! ### junit -/

theorem parsePosSuffix_junitPosSuffix (sl sc : Nat) : parsePosSuffix (junitPosSuffix sl sc) = some (sl, sc) := by
  unfold junitPosSuffix
  by_cases h2 : sc = 0
  · by_cases h1 : sl = 0
    · simp [h1, h2, parsePosSuffix]
    · simp only [h2, ne_eq, not_true_eq_false, if_false, h1, not_false_eq_true, if_true, parsePosSuffix,
        readNat_itoa_end]
  · simp only [ne_eq, h2, not_false_eq_true, if_true, List.cons_append, parsePosSuffix, readNat_itoa_under, readNat_itoa_end]

/-- the testcase decoder inverts the JUnit rendering when the text line it carries decodes -/
theorem parseJunitCase_junitCase (a : Annot) (h : ∀ c ∈ dispPath a, c ≠ ':') :
    parseJunitCase (trimProto (dispPath a)) (junitCase a) = some (junitF a) := by
  simp only [parseJunitCase, junitCase, junitCaseName, junitName, dropPrefix_append, Option.bind_eq_bind,
    Option.bind_some, parsePosSuffix_junitPosSuffix, parseTextLine_textLine a h]
  rfl

/-! ### whole documents -/

theorem mapM_map_some {α β γ : Type} {f : α → β} {g : β → Option γ} {h : α → γ} :
    ∀ (l : List α), (∀ a ∈ l, g (f a) = some (h a)) → (l.map f).mapM g = some (l.map h)
  | [], _ => rfl
  | a :: as, hl => by
    simp only [List.map_cons, List.mapM_cons, hl a List.mem_cons_self,
      mapM_map_some as (fun b hb => hl b (List.mem_cons_of_mem _ hb)), Option.bind_eq_bind, Option.bind_some,
      Option.pure_def]

/-! ### shared fields -/

/-- `s` shows nothing that `u` does not show the same way -/
structure Shared.Sub (s u : Shared) : Prop where
  file : s.file = none ∨ s.file = u.file
  fileFlat : s.fileFlat = none ∨ s.fileFlat = u.fileFlat
  suite : s.suite = none ∨ s.suite = u.suite
  line : s.line = none ∨ s.line = u.line
  col : s.col = none ∨ s.col = u.col
  endLine : s.endLine = none ∨ s.endLine = u.endLine
  endCol : s.endCol = none ∨ s.endCol = u.endCol
  rule : s.rule = none ∨ s.rule = u.rule
  ruleFlat : s.ruleFlat = none ∨ s.ruleFlat = u.ruleFlat
  text : s.text = none ∨ s.text = u.text
  textFlat : s.textFlat = none ∨ s.textFlat = u.textFlat
  message : s.message = none ∨ s.message = u.message

theorem keep_comm {α : Type} {x y u : Option α} (hx : x = none ∨ x = u) (hy : y = none ∨ y = u) :
    keep x y = keep y x := by
  cases x <;> cases y <;> cases u <;> simp_all [keep]

/-- two views of the same annotation agree on every field both carry -/
theorem restrict_comm {s t u : Shared} (hs : s.Sub u) (ht : t.Sub u) : s.restrict t = t.restrict s := by
  simp only [Shared.restrict, keep_comm hs.file ht.file, keep_comm hs.fileFlat ht.fileFlat,
    keep_comm hs.suite ht.suite, keep_comm hs.line ht.line, keep_comm hs.col ht.col,
    keep_comm hs.endLine ht.endLine, keep_comm hs.endCol ht.endCol, keep_comm hs.rule ht.rule,
    keep_comm hs.ruleFlat ht.ruleFlat, keep_comm hs.text ht.text, keep_comm hs.textFlat ht.textFlat,
    keep_comm hs.message ht.message]

theorem known_sub (n : Nat) : known n = none ∨ known n = some (atLeast1 n) := by
  unfold known atLeast1
  by_cases h : n = 0 <;> simp [h]

theorem known_ite_sub (c : Prop) [Decidable c] (n : Nat) :
    known (if c then 0 else n) = none ∨ known (if c then 0 else n) = some (atLeast1 n) := by
  by_cases h : c
  · exact Or.inl (by simp [h, known])
  · simp only [if_neg h]; exact known_sub n

theorem viewText_sub (a : Annot) : (viewText (textF a)).Sub (Shared.full a) := by
  constructor <;> simp [viewText, textF, Shared.full]

/-- what a decoded record of ANY format shows is part of what the annotation is -/
theorem view_sub (f : Format) (a : Annot) : (view (proj f a)).Sub (Shared.full a) := by
  cases f with
  | text => exact viewText_sub a
  | msvs => constructor <;> simp [view, proj, msvsF, Shared.full]
  | gha =>
    exact {
      file := Or.inr rfl, fileFlat := Or.inr rfl, suite := Or.inr rfl,
      line := known_sub a.sl, col := known_ite_sub _ a.sc, endLine := known_ite_sub _ a.el,
      endCol := by
        by_cases h : a.sl = 0
        · exact Or.inl (by simp [view, proj, ghaF, h, known])
        · simp only [view, proj, ghaF, if_neg h]; exact known_ite_sub _ a.ec,
      rule := Or.inl rfl, ruleFlat := Or.inl rfl, text := Or.inl rfl, textFlat := Or.inl rfl,
      message := Or.inr rfl }
  | json =>
    have hp : (jsonRec a).path = [] ∨ (jsonRec a).path = dispPath a := by
      simp only [jsonRec, pathOf, dispPath]
      cases a.file with
      | none => exact Or.inl rfl
      | some p => exact Or.inr rfl
    have hm : shownMsgOf a.type a.msg = shownMsg a := by
      simp only [shownMsgOf, shownTypeOf, shownMsg]
    have ht : shownTypeOf a.type = shownType a := rfl
    have hfile : ∀ (g : Str → Str),
        (if (jsonRec a).path = [] then none else some (g (jsonRec a).path)) = none ∨
        (if (jsonRec a).path = [] then none else some (g (jsonRec a).path)) = some (g (dispPath a)) := by
      intro g
      rcases hp with hp | hp
      · exact Or.inl (by simp [hp])
      · rw [hp]
        by_cases h : dispPath a = []
        · exact Or.inl (by simp [h])
        · exact Or.inr (by simp [h])
    exact {
      file := hfile id, fileFlat := hfile oneLine, suite := hfile trimProto,
      line := Or.inr rfl, col := Or.inr rfl, endLine := Or.inr rfl, endCol := Or.inr rfl,
      rule := Or.inr rfl, ruleFlat := Or.inr rfl,
      text := Or.inr (by simp only [view, proj, jsonRec, Shared.full, hm]),
      textFlat := Or.inr (by simp only [view, proj, jsonRec, Shared.full, hm]),
      message := Or.inr rfl }
  | junit =>
    have ht : shownTypeOf a.type = shownType a := rfl
    have := viewText_sub a
    constructor <;> simp [view, proj, junitF, Shared.full, viewText, textF, ht]

/-- `R` holds between the i-th elements of two lists of the same length, for every i -/
inductive InOrder {α β : Type} (R : α → β → Prop) : List α → List β → Prop where
  | nil : InOrder R [] []
  | cons {a : α} {b : β} {l1 : List α} {l2 : List β} : R a b → InOrder R l1 l2 → InOrder R (a :: l1) (b :: l2)

theorem InOrder.length_eq {α β : Type} {R : α → β → Prop} {l1 : List α} {l2 : List β} (h : InOrder R l1 l2) :
    l1.length = l2.length := by
  induction h with
  | nil => rfl
  | cons _ _ ih => simp [ih]

/-! ### side conditions of the decoders -/

/-- Where a format does not escape, the decoder needs the separator it splits at not to occur in
    the field in front of it:
    * text — no ':' in the displayed path (the path ends at the first ':') and no line feed in the
      line (records are lines);
    * msvs — no '(' in the displayed path, no ':' in the shown type;
    * github-actions, json — nothing (escaped / field level);
    * junit — the text line carried as failure message must decode (no ':' in the path; line feeds
      are fine, XML escapes them), and grouping by path must not reorder (`DispInj`). -/
def Side : Format → List Annot → Prop
  | .text, as => ∀ a ∈ as, (∀ c ∈ dispPath a, c ≠ ':') ∧ (∀ c ∈ textLine a, c ≠ '\n')
  | .msvs, as => ∀ a ∈ as, (∀ c ∈ dispPath a, c ≠ '(') ∧ (∀ c ∈ shownType a, c ≠ ':')
  | .gha, _ => True
  | .json, _ => True
  | .junit, as => DispInj as ∧ ∀ a ∈ as, ∀ c ∈ dispPath a, c ≠ ':'

theorem parseItem_render (f : Format) (as : List Annot) (h : Side f as) :
    ∀ a ∈ as, parseItem f (render f a) = some (proj f a) := by
  intro a ha
  cases f with
  | text => simp only [parseItem, render, proj, parseTextLine_textLine a (h a ha).1, Option.map_some]
  | msvs => simp only [parseItem, render, proj, parseMsvsLine_msvsLine a (h a ha).1 (h a ha).2, Option.map_some]
  | gha => simp only [parseItem, render, proj, parseGhaLine_ghaLine a, Option.map_some]
  | json => rfl
  | junit => simp only [parseItem, render, proj, parseJunitCase_junitCase a (h.2 a ha), Option.map_some]

/-! ### the `-w` walk at the level of file contents -/

/-- what a truncating rewrite of a file leaves in it = what the file is to hold -/
theorem WFile.written_eq_want (f : WFile) :
    (if f.changed then writeTrunc f.orig (f.fmt.getD f.orig) else f.orig) = f.want := by
  unfold WFile.changed WFile.want writeTrunc
  cases ht : f.target
  · simp
  · cases hf : f.fmt with
    | none => simp
    | some t =>
      by_cases h : t = f.orig
      · simp [h]
      · simp [h]

/-- when every changed file can be opened the walk visits every file and does not fail -/
theorem rewriteWalk_clean (wr : Str → Str → Str) (fs : List WFile)
    (h : ∀ f ∈ fs, f.changed = true → f.openable = true) :
    rewriteWalk wr fs =
      (fs.map fun f => (f.path, if f.changed then wr f.orig (f.fmt.getD f.orig) else f.orig), false) := by
  induction fs with
  | nil => rfl
  | cons f rest ih =>
    have ih' := ih (fun g hg => h g (List.mem_cons_of_mem _ hg))
    unfold rewriteWalk
    cases hc : f.changed
    · simp [hc, ih']
    · have ho := h f (List.mem_cons_self ..) hc
      simp [hc, ho, ih']

/-- the walk stops at the first changed file that cannot be opened: the files before it are
    rewritten, that file and the ones after it are as they were, the run fails -/
theorem rewriteWalk_stops (wr : Str → Str → Str) (pre : List WFile) (f : WFile) (post : List WFile)
    (hpre : ∀ g ∈ pre, g.changed = true → g.openable = true)
    (hc : f.changed = true) (ho : f.openable = false) :
    rewriteWalk wr (pre ++ f :: post) =
      ((pre.map fun g => (g.path, if g.changed then wr g.orig (g.fmt.getD g.orig) else g.orig))
        ++ (f.path, f.orig) :: untouched post, true) := by
  induction pre with
  | nil => simp [rewriteWalk, hc, ho]
  | cons g rest ih =>
    have ih' := ih (fun x hx => hpre x (List.mem_cons_of_mem _ hx))
    simp only [List.cons_append]
    unfold rewriteWalk
    cases hg : g.changed
    · simp [hg, ih']
    · have hgo := hpre g (List.mem_cons_self ..) hg
      simp [hg, hgo, ih']

/-- whatever a write does and whether or not the walk fails: the set of paths is unchanged and a
    file that is not among the changed paths keeps its content -/
theorem rewriteWalk_frame (wr : Str → Str → Str) (fs : List WFile) :
    (rewriteWalk wr fs).1.map Prod.fst = fs.map (·.path) ∧
    ∀ f ∈ fs, f.changed = false → (f.path, f.orig) ∈ (rewriteWalk wr fs).1 := by
  induction fs with
  | nil => exact ⟨rfl, fun f hf => nomatch hf⟩
  | cons g rest ih =>
    obtain ⟨ih1, ih2⟩ := ih
    unfold rewriteWalk
    cases hg : g.changed
    · refine ⟨by simp [ih1], ?_⟩
      intro f hf hcf
      rcases List.mem_cons.mp hf with rfl | hf
      · simp
      · simp only [Bool.false_eq_true, if_false]
        exact List.mem_cons_of_mem _ (ih2 f hf hcf)
    · cases hgo : g.openable
      · refine ⟨by simp [untouched, List.map_map, Function.comp_def], ?_⟩
        intro f hf hcf
        rcases List.mem_cons.mp hf with rfl | hf
        · rw [hg] at hcf; exact nomatch hcf
        · simp only [if_true, Bool.false_eq_true, if_false]
          refine List.mem_cons_of_mem _ ?_
          exact List.mem_map.mpr ⟨f, hf, rfl⟩
      · refine ⟨by simp [ih1], ?_⟩
        intro f hf hcf
        rcases List.mem_cons.mp hf with rfl | hf
        · rw [hg] at hcf; exact nomatch hcf
        · simp only [if_true]
          exact List.mem_cons_of_mem _ (ih2 f hf hcf)

/-- writing without truncation gives the new text exactly when the old one was not longer -/
theorem writeOver_eq_iff (old new : Str) : writeOver old new = new ↔ old.length ≤ new.length := by
  unfold writeOver
  constructor
  · intro h
    have : (new ++ old.drop new.length).length = new.length := by rw [h]
    simp only [List.length_append, List.length_drop] at this
    omega
  · intro h
    rw [List.drop_eq_nil_of_le h, List.append_nil]


/-! ### the output sinks of `buf format` (stdout, `-o file`, `-o dir`) and summaries -/

theorem polyVal_shift (s : List Nat) : ∀ h, polyVal h s = h * hashB ^ s.length + polyVal 0 s := by
  induction s with
  | nil => intro h; simp [polyVal]
  | cons c s ih =>
    intro h
    have e1 : polyVal h (c :: s) = polyVal (h * hashB + c) s := rfl
    have e2 : polyVal 0 (c :: s) = polyVal (0 * hashB + c) s := rfl
    rw [e1, e2, ih (h * hashB + c), ih (0 * hashB + c), List.length_cons, Nat.pow_succ]
    grind

theorem polyVal_append (h : Nat) (a b : List Nat) :
    polyVal h (a ++ b) = polyVal h a * hashB ^ b.length + polyVal 0 b := by
  have : polyVal h (a ++ b) = polyVal (polyVal h a) b := by
    unfold polyVal; rw [List.foldl_append]
  rw [this, polyVal_shift b]

theorem mod_combine (x y z p : Nat) : (x % p * y + z % p) % p = (x * y + z) % p := by
  rw [Nat.add_mod (x * y) z p, Nat.add_mod (x % p * y) (z % p) p, Nat.mod_mod, Nat.mul_mod (x % p) y p,
    Nat.mod_mod, ← Nat.mul_mod]

theorem summ_nil : summ [] = Summ.empty := rfl

theorem summ_append (a b : List Nat) : summ (a ++ b) = (summ a).append (summ b) := by
  unfold summ Summ.append
  simp only [List.length_append, polyVal_append, Nat.mod_mod]
  congr 1
  exact (mod_combine _ _ _ _).symm

theorem summS_nil : summS [] = Summ.empty := rfl

theorem summS_append (a b : Str) : summS (a ++ b) = (summS a).append (summS b) := by
  unfold summS; rw [List.map_append, summ_append]

theorem sinkOut_cons (f : WFile) (fs : List WFile) :
    sinkOut (f :: fs) = (if f.target then f.fmt.getD [] else []) ++ sinkOut fs := by
  unfold sinkOut
  cases h : f.target <;> simp [h]

theorem sinkOut_append (a b : List WFile) : sinkOut (a ++ b) = sinkOut a ++ sinkOut b := by
  unfold sinkOut; rw [List.filter_append, List.flatMap_append]

theorem sinkOut_length (fs : List WFile) :
    (sinkOut fs).length = ((fs.filter (·.target)).map fun f => (f.fmt.getD []).length).sum := by
  induction fs with
  | nil => rfl
  | cons f fs ih =>
    rw [sinkOut_cons, List.length_append, ih]
    cases h : f.target <;> simp [h]

theorem toS_fmt (f : WFile) : (f.toS.fmt).getD Summ.empty = summS (f.fmt.getD []) := by
  unfold WFile.toS
  cases f.fmt <;> rfl

theorem sinkSumm_go (fs : List WFile) : ∀ pre : Str,
    ((fs.map WFile.toS).filter (·.target)).foldl (fun acc f => acc.append (f.fmt.getD Summ.empty)) (summS pre)
      = summS (pre ++ sinkOut fs) := by
  induction fs with
  | nil => intro pre; simp [sinkOut]
  | cons f fs ih =>
    intro pre
    rw [sinkOut_cons, List.map_cons, List.filter_cons]
    have ht : f.toS.target = f.target := rfl
    rw [ht]
    cases h : f.target
    · simp only [Bool.false_eq_true, if_false, List.nil_append]
      exact ih pre
    · simp only [if_true, List.foldl_cons]
      rw [toS_fmt, ← summS_append, ih, List.append_assoc]

theorem sinkSumm_eq (fs : List WFile) : sinkSumm (fs.map WFile.toS) = summS (sinkOut fs) := by
  have := sinkSumm_go fs []
  rw [summS_nil, List.nil_append] at this
  exact this

theorem sfmtStepOk_toS (fs : List WFile) : sfmtStepOk (fs.map WFile.toS) = fmtStepOk fs := by
  unfold sfmtStepOk fmtStepOk
  rw [List.all_map]
  congr 1
  funext f
  simp only [Function.comp, WFile.toS, Option.isSome_map]

theorem sinkCut_cons (n : Nat) (f : WFile) (fs : List WFile) :
    sinkCut n (f :: fs) = (if f.target then (f.fmt.getD []).take n else []) ++ sinkCut n fs := by
  unfold sinkCut
  cases h : f.target <;> simp [h]

theorem sinkCut_length_le (n : Nat) (fs : List WFile) : (sinkCut n fs).length ≤ (sinkOut fs).length := by
  induction fs with
  | nil => exact Nat.le_refl _
  | cons f fs ih =>
    rw [sinkCut_cons, sinkOut_cons, List.length_append, List.length_append]
    cases f.target
    · simpa using ih
    · simp only [if_true, List.length_take]; omega

/-- one `Read` per file loses nothing exactly when no targeted output is longer than the buffer -/
theorem sinkCut_eq_iff (n : Nat) (fs : List WFile) :
    sinkCut n fs = sinkOut fs ↔ ∀ f ∈ fs, f.target = true → (f.fmt.getD []).length ≤ n := by
  induction fs with
  | nil => simp [sinkCut, sinkOut]
  | cons f fs ih =>
    rw [sinkCut_cons, sinkOut_cons]
    constructor
    · intro h
      have hl := congrArg List.length h
      simp only [List.length_append] at hl
      have h2 := sinkCut_length_le n fs
      cases ht : f.target
      · rw [ht] at h
        simp only [Bool.false_eq_true, if_false, List.nil_append] at h
        intro g hg hgt
        rcases List.mem_cons.mp hg with rfl | hg
        · rw [ht] at hgt; exact nomatch hgt
        · exact ih.mp h g hg hgt
      · rw [ht] at h hl
        simp only [if_true, List.length_take] at hl
        have hlen : (f.fmt.getD []).length ≤ n := by omega
        rw [if_pos rfl, if_pos rfl, List.take_of_length_le hlen] at h
        have h3 := List.append_cancel_left h
        intro g hg hgt
        rcases List.mem_cons.mp hg with rfl | hg
        · exact hlen
        · exact ih.mp h3 g hg hgt
    · intro h
      have hrest := ih.mpr (fun g hg => h g (List.mem_cons_of_mem _ hg))
      rw [hrest]
      cases ht : f.target
      · rfl
      · rw [if_pos rfl, if_pos rfl, List.take_of_length_le (h f (List.mem_cons_self ..) ht)]

/-! ### import statements that cannot be resolved (helpers of the `…import…` theorems) -/

theorem runSteps_oks_then (oks : List CStep) (hoks : ∀ s ∈ oks, s.2 = none) (via : Bool) (e : GoErr)
    (rest : List CStep) :
    runSteps (oks ++ (via, some e) :: rest) = some (if via then failStep e [] else failDirect e) := by
  induction oks with
  | nil => cases via <;> rfl
  | cons s t ih =>
    obtain ⟨v, x⟩ := s
    have hx : x = none := hoks (v, x) (List.mem_cons_self ..)
    subst hx
    simp only [List.cons_append, runSteps]
    exact ih fun s hs => hoks s (List.mem_cons_of_mem _ hs)

theorem dedupSort_singleton (a : Annot) : dedupSort [a] = [a] := by
  simp [dedupSort, dedupSortWith, dedupWith, sortS, ins]

/-- the observables of a run that ended in a controller method with a one-annotation set -/
theorem failStep_annotation (a : Annot) :
    (failStep (.annotSet a []) []).exit = 100 ∧ (failStep (.annotSet a []) []).printed = [a] ∧
    (failStep (.annotSet a []) []).failureLine = false := by
  refine ⟨?_, ?_, ?_⟩
  · rfl
  · simp [failStep, handleFAS, GoErr.findAnnots, dedupSort_singleton]
  · rfl

theorem importFate_ok (files wkt : List Str) (p q : Str)
    (hv : BufModel.Path.normalizeAndValidate p = .ok q) :
    importFate files wkt p =
      if files.contains q then (if q = p then .file else .notNormal)
      else if wkt.contains q then (if q = p then .wkt else .notNormal) else .notExist := by
  simp only [importFate, hv]

end BufModel.Annot
